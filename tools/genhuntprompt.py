#!/usr/bin/env python3
"""genhuntprompt.py <tag> : write /tmp/huntprompt<tag>_Cxx.txt — the brief for a sub-agent that looks for GENUINE defects
of the current tree with respect to one property (property text + its own scratch worktree; nothing from /verif)."""
import json, sys
tag = sys.argv[1]
for line in open('/verif/properties.jsonl'):
    p = json.loads(line); pid = p['id']; wt = f'/tmp/hunt{tag}_{pid}'
    txt = f'''You are a careful XPath expert and Go engineer. The Go package github.com/antchfx/xpath (a pure-Go XPath 1.0 engine: parse.go lexer/parser, build.go AST->query builder, query.go pull-based iterators, func.go functions, operator.go operators, cache.go regexp cache, xpath.go public API) is supposed to satisfy the property below. Your job: FIND CONCRETE INPUTS ON WHICH THE CURRENT, UNMODIFIED CODE VIOLATES IT — genuine defects — or report that you could not.

You have your own scratch git worktree of the repository at {wt} . Work ONLY inside that directory (and /tmp scratch files of your own). Do NOT touch /repo, do NOT read or touch /verif, do NOT commit anything, never use `git stash`. Do not modify the package's source (you are testing it as it is); you may add test files of your own in the worktree.

Property {pid}: {p['title']}

Statement: {p['statement']}

Quantifier: {p['quantifier']['text']}

Code anchors: {json.dumps(p['anchors'])}

How to work: read the relevant code closely, think about where the implementation's mechanism (shared mutable cursor, lazily evaluated node-sets, per-query state that must be reset, caches keyed by something too coarse, type switches with missing arms, byte vs rune handling, float corner cases, look-ahead in the scanner, depth/limit checks, clone discipline) can diverge from the XPath 1.0 Recommendation's semantics WITHIN the scope of the statement and quantifier above, then TEST your hypotheses: write Go tests in the worktree (package xpath, you may reuse the TNode/createNode helpers of the existing *_test.go files or write your own NodeNavigator) that compute the expected XPath 1.0 answer independently (by hand, or with a tiny reference evaluator of your own for the fragment you test — a brute-force differential test over small random trees and expressions is an excellent tool here) and compare. Explore systematically: combinations of two features (e.g. a predicate inside an operand of a comparison, a function argument that is itself a filtered path, unions under predicates, positional predicates after other predicates, attribute/text/comment context nodes, reverse axes, second evaluations of one compiled expression, several documents, unusual but valid spellings), boundary values, empty node-sets, nested function calls.
Rules for what counts: the input must be within the property's statement and quantifier (read them literally; things they do not speak about — e.g. non-ASCII strings where the property says ASCII, functions or forms not listed — are out of scope, mention them separately as "outside the property"). Two behaviours are already known and should NOT be reported again: round() returns a Go int; string functions / count() / sum() applied to a node-set take nodes in the engine's iteration order with repetitions (first node yielded, one count per origin) when the argument path ends in a reverse axis or is a multi-origin non-flat path; normalize-space() treats VT/FF/NBSP as white space.
Environment: no network; set GOFLAGS=-mod=mod GOPROXY=off GOSUMDB=off GOTOOLCHAIN=local for every go command; `go test -race` works.

Deliver in {wt}: a test file hunt_test.go with one test function per finding (name TestHunt<N>…), each FAILING on the current code and stating in its failure message the expression, the document, the actual and the expected (XPath 1.0) result, plus findings.json: a list of objects with fields expr, document (as XML-ish text), context, actual, expected, why_expected (cite the Recommendation's rule), in_scope (true/false with one sentence), suspected_cause (function/file). Quality over quantity: a handful of DISTINCT mechanisms is worth more than many instances of one. If after serious effort (at least a few hundred differential cases and several targeted hypotheses) you find nothing in scope, say so plainly and list what you tried.
Report back briefly: the findings (one line each), which are in scope, suspected causes, and what you tried that held.
'''
    open(f'/tmp/huntprompt{tag}_{pid}.txt', 'w').write(txt)
print('ok')
