#!/usr/bin/env python3
"""Mechanical mutation sweep (a measurement of the machinery, not a registered check).

  tools/mutlab.py gen                 enumerate first-order mutants of /repo (tools/mutgen)      -> LAB/mutants.jsonl
  tools/mutlab.py tests  [N]          stage A: which mutants compile and pass the package's own test suite  -> LAB/stageA.jsonl
  tools/mutlab.py base                generate the quick-tier case files of all properties and the clean tree's answers
  tools/mutlab.py fast   [N]          stage B: run the real package (mutated) over those case files; a mutant whose answers
                                      differ from the clean tree's is observable by the correspondence  -> LAB/stageB.jsonl
  tools/mutlab.py full   [lanes]      stage C: for the mutants stage B did not observe, run the registered quick checks
                                      themselves (scratch copies of /verif, VERIF_REPO = the mutated copy)   -> LAB/stageC.jsonl
  tools/mutlab.py report              summary table

LAB = /tmp/mutlab (scratch; nothing registered in MANIFEST.json needs it).  All work happens on copies of the
sources; /repo is only read.
"""
import json, os, shutil, subprocess, sys, time, random
from concurrent.futures import ThreadPoolExecutor

VERIF = os.environ.get("MUTLAB_VERIF") or os.path.dirname(os.path.dirname(os.path.abspath(__file__)))
REPO = os.environ.get("VERIF_REPO", "/repo")
LAB = os.environ.get("MUTLAB", "/tmp/mutlab")
ENV = dict(os.environ, GOFLAGS="-mod=mod", GOPROXY="off", GOSUMDB="off", GOTOOLCHAIN="local")
PROPS = ["C%02d" % i for i in range(1, 18)]
FILEMAP = {
    "cache.go": ["C16", "C06", "C15"],
    "parse.go": ["C10", "C17", "C06", "C14", "C15"],
    "build.go": ["C02", "C03", "C01", "C13", "C15", "C17", "C09", "C08"],
    "query.go": ["C02", "C01", "C11", "C12", "C03", "C13", "C04", "C15"],
    "func.go": ["C09", "C08", "C03", "C15", "C16", "C02", "C14"],
    "func_go110.go": ["C09", "C15"],
    "operator.go": ["C07", "C08", "C02", "C15"],
    "xpath.go": ["C06", "C04", "C12", "C15"],
}


def sh(cmd, cwd=None, timeout=None, env=None):
    try:
        p = subprocess.run(cmd, cwd=cwd, env=env or ENV, stdout=subprocess.PIPE, stderr=subprocess.STDOUT, timeout=timeout)
        return p.returncode, p.stdout.decode("utf-8", "replace")
    except subprocess.TimeoutExpired:
        return 124, "timeout"


def load(name):
    p = os.path.join(LAB, name)
    if not os.path.exists(p):
        return []
    return [json.loads(l) for l in open(p) if l.strip()]


def worker_repo(k):
    d = os.path.join(LAB, "w%d" % k, "repo")
    if not os.path.isdir(d):
        os.makedirs(d)
        for n in os.listdir(REPO):
            if n.endswith(".go") or n in ("go.mod", "go.sum"):
                shutil.copy(os.path.join(REPO, n), d)
    return d


def worker_harness(k):
    h = os.path.join(LAB, "w%d" % k, "harness")
    if not os.path.isdir(h):
        shutil.copytree(os.path.join(VERIF, "harness"), h)
        gm = open(os.path.join(h, "go.mod")).read().replace("=> /repo", "=> " + worker_repo(k))
        open(os.path.join(h, "go.mod"), "w").write(gm)
    return h


def apply(m, d):
    p = os.path.join(d, m["file"])
    src = open(os.path.join(REPO, m["file"]), "rb").read()
    open(p, "wb").write(src[:m["start"]] + m["repl"].encode() + src[m["end"]:])


def restore(m, d):
    shutil.copy(os.path.join(REPO, m["file"]), os.path.join(d, m["file"]))


def cmd_gen():
    os.makedirs(LAB, exist_ok=True)
    rc, out = sh(["go", "build", "-o", os.path.join(LAB, "mutgen"), "."], cwd=os.path.join(VERIF, "tools", "mutgen"))
    assert rc == 0, out
    with open(os.path.join(LAB, "mutants.jsonl"), "w") as f:
        subprocess.run([os.path.join(LAB, "mutgen"), REPO], stdout=f, check=True)
    print(len(load("mutants.jsonl")), "mutants")


def pool_run(items, fn, nworkers, outname):
    done = {r["id"] for r in load(outname)}
    items = [m for m in items if m["id"] not in done]
    free = list(range(nworkers))
    out = open(os.path.join(LAB, outname), "a")

    def job(m):
        k = free.pop()
        try:
            r = fn(m, k)
        except Exception as e:  # noqa
            r = dict(m, status="lab-error", detail=repr(e)[:300])
        finally:
            free.append(k)
        out.write(json.dumps(r) + "\n")
        out.flush()
        return r

    t0 = time.time()
    with ThreadPoolExecutor(nworkers) as ex:
        for i, r in enumerate(ex.map(job, items)):
            if (i + 1) % 50 == 0:
                print(i + 1, "/", len(items), "%.0fs" % (time.time() - t0), flush=True)


def stage_a(m, k):
    d = worker_repo(k)
    apply(m, d)
    try:
        rc, out = sh(["go", "build", "-tags", "verif", "./..."], cwd=d, timeout=120)
        if rc != 0:
            return dict(m, status="no-compile")
        rc, out = sh(["go", "vet", "./..."], cwd=d, timeout=120)
        if rc != 0:
            return dict(m, status="vet-fails")
        rc, out = sh(["go", "test", "-count=1", "-timeout", "90s", "./..."], cwd=d, timeout=150)
        if rc != 0:
            return dict(m, status="tests-fail")
        return dict(m, status="survives-tests")
    finally:
        restore(m, d)


def cmd_tests(n):
    ms = load("mutants.jsonl")
    only = os.environ.get("MUTLAB_FILES")
    if only:
        ms = [m for m in ms if m["file"] in only.split(",")]
    random.Random(1).shuffle(ms)
    if n:
        ms = ms[:n]
    pool_run(ms, stage_a, 14, "stageA.jsonl")


def run_impl(xh, cases, out, limit):
    """vlib.run_impl with an overall time limit; returns False when the limit was hit"""
    code = ("import sys; sys.path.insert(0, %r); import vlib; vlib.run_impl(%r, %r, %r, %d)"
            % (os.path.join(VERIF, "bin"), xh, cases, out, 4000))
    rc, _ = sh([sys.executable, "-c", code], timeout=limit)
    return rc == 0


def cmd_base():
    base = os.path.join(LAB, "base")
    os.makedirs(base, exist_ok=True)
    h = worker_harness(99)
    rc, out = sh(["go", "build", "-tags", "verif", "-o", os.path.join(base, "xh"), "."], cwd=h)
    assert rc == 0, out
    sys.path.insert(0, os.path.join(VERIF, "bin"))
    import verdicts
    for p in PROPS:
        cases = os.path.join(base, p + ".cases")
        verdicts.gen_cases(os.path.join(base, "xh"), p, "quick", 1, cases)
        corp = verdicts.corpus_lines(p)
        if corp:
            body = open(cases, encoding="utf-8", errors="surrogateescape").read()
            with open(cases, "w", encoding="utf-8", errors="surrogateescape") as fo:
                for i, l in enumerate(corp):
                    parts = l.split("\t")
                    parts[0] = "%s-corpus%03d" % (p, i)
                    fo.write("\t".join(parts))
                fo.write(body)
        t0 = time.time()
        ok = run_impl(os.path.join(base, "xh"), cases, os.path.join(base, p + ".impl"), 900)
        print(p, "cases", sum(1 for _ in open(cases, errors="replace")), "ok" if ok else "LIMIT", "%.1fs" % (time.time() - t0), flush=True)


def first_diff(a, b):
    with open(a, errors="replace") as fa, open(b, errors="replace") as fb:
        for la, lb in zip(fa, fb):
            if la != lb:
                return la.split("\t", 1)[0], lb.rstrip("\n")[:200]
        ra, rb = fa.readline(), fb.readline()
        if ra or rb:
            return "length", (ra or rb)[:100]
    return None


def stage_b(m, k):
    d = worker_repo(k)
    h = worker_harness(k)
    base = os.path.join(LAB, "base")
    apply(m, d)
    try:
        xh = os.path.join(LAB, "w%d" % k, "xh")
        rc, out = sh(["go", "build", "-tags", "verif", "-o", xh, "."], cwd=h, timeout=300)
        if rc != 0:
            return dict(m, status="harness-no-compile", detail=out[-300:])
        order = FILEMAP.get(m["file"], []) + [p for p in PROPS if p not in FILEMAP.get(m["file"], [])]
        for p in order:
            out = os.path.join(LAB, "w%d" % k, p + ".impl")
            ok = run_impl(xh, os.path.join(base, p + ".cases"), out, 240)
            if not ok:
                return dict(m, status="observed", by=p, how="time limit (hang / repeated timeouts)")
            fd = first_diff(os.path.join(base, p + ".impl"), out)
            if fd:
                return dict(m, status="observed", by=p, case=fd[0], impl=fd[1])
        return dict(m, status="not-observed")
    finally:
        restore(m, d)


def cmd_fast(n):
    ms = [m for m in load("stageA.jsonl") if m["status"] == "survives-tests"]
    if n:
        ms = ms[:n]
    pool_run(ms, stage_b, 12, "stageB.jsonl")


def lane_verif(k):
    v = os.path.join(LAB, "lane%d" % k, "verif")
    if not os.path.isdir(v):
        shutil.copytree(VERIF, v, ignore=shutil.ignore_patterns(".git", "seeded", "replays", "work"))
        gm = os.path.join(v, "harness", "go.mod")
        txt = open(gm).read().replace("=> /repo", "=> " + worker_repo(100 + k))
        open(gm, "w").write(txt)
    return v


def stage_c(m, k):
    d = worker_repo(100 + k)
    v = lane_verif(k)
    apply(m, d)
    try:
        env = dict(ENV, VERIF_REPO=d)
        order = FILEMAP.get(m["file"], []) + [p for p in PROPS if p not in FILEMAP.get(m["file"], [])]
        for p in order:
            rc, out = sh([os.path.join(v, "bin", "check"), p, "--tier", "quick"], cwd=v, env=env, timeout=3000)
            if rc != 0:
                line = [l for l in out.splitlines() if l.startswith("VIOLATION")][:1]
                return dict(m, status="detected", by=p, line=(line[0] if line else out[-200:]))
        return dict(m, status="survives-all-checks")
    finally:
        restore(m, d)


def cmd_full(lanes):
    ms = [m for m in load("stageB.jsonl") if m["status"] == "not-observed"]
    ids = os.environ.get("MUTLAB_IDS")
    if ids:
        ms = [m for m in ms if m["id"] in ids.split(",")]
    pool_run(ms, stage_c, lanes, "stageC.jsonl")


def cmd_report():
    import collections
    a, b, c = load("stageA.jsonl"), load("stageB.jsonl"), load("stageC.jsonl")
    print("stage A:", dict(collections.Counter(r["status"] for r in a)))
    print("stage B:", dict(collections.Counter(r["status"] for r in b)))
    print("   observed by:", dict(collections.Counter(r.get("by") for r in b if r["status"] == "observed")))
    print("stage C:", dict(collections.Counter(r["status"] for r in c)))
    print("   detected by:", dict(collections.Counter(r.get("by") for r in c if r["status"] == "detected")))
    for r in c:
        if r["status"] == "survives-all-checks":
            print("  SURVIVOR %s %s:%d %s [%s] %r" % (r["id"], r["file"], r["line"], r["func"], r["op"], r["orig"]))


if __name__ == "__main__":
    c = sys.argv[1]
    n = int(sys.argv[2]) if len(sys.argv) > 2 else 0
    {"gen": cmd_gen, "tests": lambda: cmd_tests(n), "base": cmd_base, "fast": lambda: cmd_fast(n),
     "full": lambda: cmd_full(n or 3), "report": cmd_report}[c]()
