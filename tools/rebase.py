#!/usr/bin/env python3
"""rebase.py <leandir> <Cxx>: move Theorems/Cxx.lean to Lemmas/CxxBase.lean (same namespace) and
point every Lemmas/* import of XPathV.Theorems.Cxx at the base."""
import sys, os, re, glob
d, p = sys.argv[1], sys.argv[2]
src = os.path.join(d, "XPathV/Theorems/%s.lean" % p)
dst = os.path.join(d, "XPathV/Lemmas/%sBase.lean" % p)
assert not os.path.exists(dst)
open(dst, "w").write(open(src).read())
for f in glob.glob(os.path.join(d, "XPathV/Lemmas/**/*.lean"), recursive=True):
    s = open(f).read()
    s2 = re.sub(r"^import XPathV\.Theorems\.%s$" % p, "import XPathV.Lemmas.%sBase" % p, s, flags=re.M)
    if s2 != s:
        open(f, "w").write(s2); print("fixed import in", f)
