#!/usr/bin/env python3
"""Harmless rewrites must not raise alarms: run ALL 17 quick checks on every stored behaviour-preserving patch.

  tools/refactorcheck.py <dir-with-rNN.diff>... [--lanes N] [--out file]

Works on scratch copies only (/tmp/reflab/laneK/{verif,repo}): the patch is applied to an export of /repo's HEAD,
the checks of a copy of /verif run against it through VERIF_REPO.  /repo and /verif are only read.
(The first version, tools/refactorcheck.sh, ran only the checks of the properties anchored in the touched file and
so missed a T0 alarm in C09/C17 for a patch to build.go — refactors2/r05.)
"""
import os, shutil, subprocess, sys, json, time
from concurrent.futures import ThreadPoolExecutor

VERIF = os.path.dirname(os.path.dirname(os.path.abspath(__file__)))
REPO = "/repo"
LAB = os.environ.get("REFLAB", "/tmp/reflab")
ENV = dict(os.environ, GOFLAGS="-mod=mod", GOPROXY="off", GOSUMDB="off", GOTOOLCHAIN="local")
PROPS = ["C%02d" % i for i in range(1, 18)]


def sh(cmd, cwd=None, env=None, timeout=None, stdin=None):
    p = subprocess.run(cmd, cwd=cwd, env=env or ENV, stdout=subprocess.PIPE, stderr=subprocess.STDOUT, timeout=timeout, stdin=stdin)
    return p.returncode, p.stdout.decode("utf-8", "replace")


def lane_dirs(k):
    base = os.path.join(LAB, "lane%d" % k)
    v, r = os.path.join(base, "verif"), os.path.join(base, "repo")
    if not os.path.isdir(v):
        shutil.copytree(VERIF, v, ignore=shutil.ignore_patterns(".git", "seeded", "replays"), symlinks=True)
        gm = os.path.join(v, "harness", "go.mod")
        txt = open(gm).read().replace("=> /repo", "=> " + r)
        open(gm, "w").write(txt)
    return v, r


def export_repo(r):
    shutil.rmtree(r, ignore_errors=True)
    os.makedirs(r)
    a = subprocess.Popen(["git", "-C", REPO, "archive", "HEAD"], stdout=subprocess.PIPE)
    subprocess.run(["tar", "-x", "-C", r], stdin=a.stdout, check=True)
    a.wait()


def run_one(patch, k):
    v, r = lane_dirs(k)
    export_repo(r)
    rc, out = sh(["git", "apply", patch], cwd=r)
    name = os.path.basename(os.path.dirname(patch)) + "/" + os.path.basename(patch)[:-5]
    if rc != 0:
        return {"patch": name, "status": "does-not-apply-on-current-HEAD"}
    rc, out = sh(["go", "test", "-count=1", "./..."], cwd=r, timeout=600)
    if rc != 0:
        return {"patch": name, "status": "package-tests-fail", "detail": out[-300:]}
    env = dict(ENV, VERIF_REPO=r)
    alarms = []
    for p in PROPS:
        rc, out = sh([os.path.join(v, "bin", "check"), p, "--tier", "quick"], cwd=v, env=env, timeout=3600)
        if rc != 0:
            line = [l for l in out.splitlines() if l.startswith("VIOLATION")][:1]
            alarms.append({"property": p, "line": (line[0] if line else out[-300:])})
    txt = patch[:-5] + ".txt"
    return {"patch": name, "status": "quiet" if not alarms else "ALARM", "alarms": alarms,
            "what": open(txt).read().strip()[:160] if os.path.exists(txt) else ""}


def main():
    args = sys.argv[1:]
    lanes, outp = 4, "/tmp/reflab/results.jsonl"
    dirs = []
    while args:
        a = args.pop(0)
        if a == "--lanes":
            lanes = int(args.pop(0))
        elif a == "--out":
            outp = args.pop(0)
        else:
            dirs.append(a)
    patches = []
    for d in dirs:
        patches += sorted(os.path.join(os.path.abspath(d), n) for n in os.listdir(d) if n.endswith(".diff"))
    os.makedirs(LAB, exist_ok=True)
    free = list(range(lanes))
    out = open(outp, "a")

    def job(p):
        k = free.pop()
        try:
            r = run_one(p, k)
        except Exception as e:  # noqa
            r = {"patch": p, "status": "lab-error", "detail": repr(e)[:300]}
        finally:
            free.append(k)
        out.write(json.dumps(r) + "\n")
        out.flush()
        print(r["patch"], r["status"], " ".join(a["property"] for a in r.get("alarms", [])), flush=True)
        return r

    t0 = time.time()
    with ThreadPoolExecutor(lanes) as ex:
        rs = list(ex.map(job, patches))
    print("done in %.0fs: %d quiet, %d alarms, %d stale" % (time.time() - t0, sum(r["status"] == "quiet" for r in rs),
          sum(r["status"] == "ALARM" for r in rs), sum(r["status"].startswith("does-not") for r in rs)))


if __name__ == "__main__":
    main()
