import os
import os
L=os.path.join(os.path.dirname(os.path.dirname(os.path.abspath(__file__))),'lean')
mods=[]
for root,_,files in os.walk(os.path.join(L,'XPathV')):
    for f in files:
        if f.endswith('.lean'):
            rel=os.path.relpath(os.path.join(root,f),L)[:-5].replace('/','.')
            if '.Audit.' in rel: continue
            mods.append(rel)
open(os.path.join(L,'XPathV.lean'),'w').write(''.join('import %s\n'%m for m in sorted(mods)))
print(len(mods))
