#!/usr/bin/env python3
"""tools/hunt.py [--seed N] [--props C01,…]: every generated sel/eval case of the given properties, judged uniformly
(package result vs oracle result wherever the oracle is defined, regardless of the property's own scope), clustered by
expression skeleton.  A triage aid, not a registered check: what it lists is either a known finding, an observation
outside the 17 properties, or a candidate defect to look at."""
import argparse, collections, os, re, subprocess, sys, tempfile
V = os.path.dirname(os.path.dirname(os.path.abspath(__file__)))
sys.path.insert(0, os.path.join(V, "bin"))
import verdicts
from vlib import unhex
ap = argparse.ArgumentParser(); ap.add_argument("--seed", type=int, default=1); ap.add_argument("--props", default="C01,C02,C03,C07,C08,C09,C11,C12,C13,C14,C15")
ap.add_argument("--tier", default="quick"); args = ap.parse_args()
xh, drv = os.path.join(V, "work", "xh"), os.path.join(V, "lean", ".lake", "build", "bin", "xdriver")
tmp = tempfile.mkdtemp(prefix="hunt.")
clusters = collections.defaultdict(list); n = agree = 0
def canon(x):
    if x.startswith("seq:"):
        items = [t for t in x[4:].split(",") if t]
        return "set:" + ",".join(sorted(set(items), key=lambda t: [int(u) for u in t.split(".")]))
    return x
for prop in args.props.split(","):
    cf = os.path.join(tmp, prop)
    subprocess.run([xh, "gen", prop, args.tier, str(args.seed), cf], stdout=subprocess.DEVNULL, stderr=subprocess.DEVNULL)
    lines = [l for l in open(cf, encoding="utf-8", errors="replace") if l.split("\t")[1:2] and l.split("\t")[1] in ("sel", "eval")]
    open(cf, "w").write("".join(lines))
    subprocess.run([xh, "run", cf, cf + ".impl", "0", "4000", "0"], stdout=subprocess.DEVNULL, stderr=subprocess.DEVNULL)
    out = subprocess.run([drv], stdin=open(cf), stdout=subprocess.PIPE, text=True).stdout.splitlines()
    impl = {l.split("\t")[0]: l.rstrip("\n").split("\t")[1] for l in open(cf + ".impl", encoding="utf-8", errors="replace") if "\t" in l}
    for l, o in zip(lines, out):
        f = l.rstrip("\n").split("\t"); g = o.split("\t")
        if len(g) < 3: continue
        i, m, s = impl.get(f[0], "missing"), g[1], g[2]
        if not verdicts.spec_applicable(s) or s in ("-", "cerr") or i == "cerr": continue
        if f[1] == "sel" and not s.startswith("seq:"): continue       # Select on a scalar expression: no-crash cases
        if f[6].startswith("nons;"): continue                         # navigator without NamespaceURL()
        n += 1
        if canon(i) == canon(s): agree += 1; continue
        e = unhex(f[5])
        clusters[(verdicts.skeleton(e), verdicts.impl_class(i), "model=impl" if canon(m) == canon(i) else "model=spec" if canon(m) == canon(s) else "model=other")].append((prop, e, f[2][:120], f[3], i, s))
print("judged", n, "agree", agree, "clusters", len(clusters))
for k, v in sorted(clusters.items(), key=lambda kv: -len(kv[1]))[:80]:
    p, e, d, c, i, s = v[0]
    print("%5d  %-60s %-18s %-10s | e.g. %s: %s @%s impl=%s spec=%s" % (len(v), k[0][:60], k[1], k[2], p, e[:90], c, i[:40], s[:40]))
