#!/usr/bin/env python3
"""tools/oraclecheck.py [--props C01,C02,…] [--seed N] [--max M]

Validates the *oracle* (lean/XPathV/Spec, as run by xdriver) against an independent XPath 1.0
implementation: libxml2 through `xmllint --shell`.  Not one of the registered checks (xmllint is
not part of the documented tooling; the script exits 0 with a notice when it is absent).

For generated (document, context node, expression) cases of the given properties it compares

  * node-set expressions: the number of nodes, and for each result node (in document order) its
    document position, its kind (element / attribute / text / comment / root) and its string-value;
  * scalar expressions: the boolean, number or string value.

Cases libxml2 cannot express are skipped and counted: documents that are not XML (several top-level
elements, top-level text, adjacent text nodes, empty text nodes), attribute context nodes, the
XPath 2.0 / Go-specific functions, prefixed names without a namespace map (the package then compares
prefixes textually, which is outside XPath), namespace maps that are not consistent with the document.
"""
import argparse, binascii, collections, math, os, re, struct, subprocess, sys, tempfile

V = os.path.dirname(os.path.dirname(os.path.abspath(__file__)))
XMLLINT = next((p for p in ("/root/miniconda/bin/xmllint", "/usr/bin/xmllint") if os.path.exists(p)), None)
SKIP_FUNCS = ("ends-with", "lower-case", "string-join", "matches", "replace", "reverse")


def unhx(s):
    return binascii.unhexlify(s).decode("utf-8", "replace")


def parse_doc(s):
    recs = []
    for rs in s.split(";"):
        f = rs.split(",")
        attrs = []
        if f[6]:
            for a in f[6].split("|"):
                g = a.split(":")
                attrs.append(tuple(unhx(x) for x in g))
        recs.append(dict(depth=int(f[0]), kind=f[1], pfx=unhx(f[2]), name=unhx(f[3]), ns=unhx(f[4]), data=unhx(f[5]), attrs=attrs))
    return recs


WHY = collections.Counter()
IMPL = {}
def hx(t):
    return binascii.hexlify(t.encode("utf-8")).decode()


def encode_doc(recs):
    out = []
    for r in recs:
        attrs = "|".join(":".join(hx(x) for x in a) for a in r["attrs"])
        out.append("%d,%s,%s,%s,%s,%s,%s" % (r["depth"], r["kind"], hx(r["pfx"]), hx(r["name"]), hx(r["ns"]), hx(r["data"]), attrs))
    return ";".join(out)


def truncate(recs):
    """XML has exactly one top-level element: keep the document up to the end of the first one
    (top-level comments before it are kept)"""
    seen_elem = False
    for i in range(1, len(recs)):
        if recs[i]["depth"] == 1:
            if recs[i]["kind"] == "t" or (seen_elem and recs[i]["kind"] == "e"):
                return recs[:i]
            if recs[i]["kind"] == "e":
                seen_elem = True
    return recs


NAME_RE = re.compile(r"^[A-Za-z_][A-Za-z0-9_.-]*$")


def esc(s, attr=False):
    s = s.replace("&", "&amp;").replace("<", "&lt;").replace(">", "&gt;")
    if attr:
        s = s.replace('"', "&quot;").replace("\n", "&#10;").replace("\t", "&#9;").replace("\r", "&#13;")
    else:
        s = s.replace("\r", "&#13;")
    return s


def to_xml(recs):
    """XML text of the document, or None when it has no XML form that parses back to the same tree."""
    if not recs or recs[0]["kind"] != "r":
        return None
    top = [r for r in recs[1:] if r["depth"] == 1]
    if sum(1 for r in top if r["kind"] == "e") != 1 or any(r["kind"] == "t" for r in top):
        WHY["top-level"] += 1
        return None
    for i, r in enumerate(recs):
        if r["kind"] == "t":
            if r["data"] == "" or any(ord(ch) < 32 and ch not in "\t\n\r" for ch in r["data"]):
                return None
            if i + 1 < len(recs) and recs[i + 1]["kind"] == "t" and recs[i + 1]["depth"] == r["depth"]:
                return None
        if r["kind"] == "c" and ("--" in r["data"] or r["data"].endswith("-")):
            return None
        if r["kind"] == "e":
            if not NAME_RE.match(r["name"]) or (r["pfx"] and not NAME_RE.match(r["pfx"])):
                return None
            if r["pfx"] and not r["ns"]:
                return None      # a prefix without a namespace is not namespace-well-formed XML
            seen = set()
            for (ap, an, ans, av) in r["attrs"]:
                if not NAME_RE.match(an) or (ap and not NAME_RE.match(ap)) or (ap and not ans) or (not ap and ans):
                    return None
                if (ap, an) in seen or any(ord(ch) < 32 and ch not in "\t\n\r" for ch in av):
                    return None
                seen.add((ap, an))
    out = []
    stack = []
    for i, r in enumerate(recs[1:], 1):
        while stack and stack[-1][0] >= r["depth"]:
            out.append("</%s>" % stack.pop()[1])
        if r["kind"] == "e":
            q = (r["pfx"] + ":" if r["pfx"] else "") + r["name"]
            decl = {}
            if r["pfx"]:
                decl[r["pfx"]] = r["ns"]
            else:
                decl[""] = r["ns"]           # xmlns="…" (possibly empty: undeclare an inherited default)
            for (ap, an, ans, av) in r["attrs"]:
                if ap:
                    if ap in decl and decl[ap] != ans:
                        return None
                    decl[ap] = ans
            s = "<" + q
            for p, u in decl.items():
                s += ' xmlns%s="%s"' % (":" + p if p else "", esc(u, True))
            for (ap, an, ans, av) in r["attrs"]:
                s += ' %s="%s"' % ((ap + ":" if ap else "") + an, esc(av, True))
            out.append(s + ">")
            stack.append((r["depth"], q))
        elif r["kind"] == "t":
            out.append(esc(r["data"]))
        elif r["kind"] == "c":
            out.append("<!--%s-->" % r["data"])
        else:
            return None
    while stack:
        out.append("</%s>" % stack.pop()[1])
    return "".join(out)


def node_path(recs, i):
    """/node()[a]/node()[b]… addressing record i"""
    if i == 0:
        return "/"
    chain = []
    j = i
    while j != 0:
        d = recs[j]["depth"]
        k = j - 1
        pos = 1
        while recs[k]["depth"] >= d:
            if recs[k]["depth"] == d:
                pos += 1
            k -= 1
        chain.append(pos)
        j = k
    return "".join("/node()[%d]" % p for p in reversed(chain))


def string_value(recs, ref):
    if "." in ref:
        i, k = ref.split(".")
        return recs[int(i)]["attrs"][int(k)][3]
    i = int(ref)
    r = recs[i]
    if r["kind"] in ("t", "c"):
        return r["data"]
    out = []
    for j in range(i + 1, len(recs)):
        if recs[j]["depth"] <= r["depth"]:
            break
        if recs[j]["kind"] == "t":
            out.append(recs[j]["data"])
    return "".join(out)


def kind_of(recs, ref):
    if "." in ref:
        return "attr"
    return {"r": "root", "e": "elem", "t": "text", "c": "comment"}[recs[int(ref)]["kind"]]


def docpos(ref):
    """count(preceding::node()) + count(ancestor::node()) of the node"""
    if "." in ref:
        return int(ref.split(".")[0]) + 1
    return int(ref)


def run_shell(xml, cmds):
    with tempfile.NamedTemporaryFile("w", suffix=".xml", delete=False, encoding="utf-8") as f:
        f.write('<?xml version="1.0" encoding="UTF-8"?>\n' + xml)
        path = f.name
    try:
        p = subprocess.run([XMLLINT, "--shell", path], input="\n".join(cmds) + "\nbye\n", stdout=subprocess.PIPE, stderr=subprocess.STDOUT,
                           text=True, timeout=60)
        return p.stdout
    finally:
        os.unlink(path)


MARK = "##MARK##"
TRAIL = re.compile(r"(?:/|[^\s>]+) > $")


def with_marks(cmds):
    out = []
    for c in cmds:
        out.append(c)
        if c.startswith("xpath "):
            out.append('xpath "%s"' % MARK)
    return out


def parse_answers(out, cmds):
    """answers of the `xpath` commands of `cmds`, in order:
    ('num', float) | ('str', s) | ('bool', b) | ('set', n) | ('err', msg); None if the session cannot be read"""
    segs = out.split("Object is a string : " + MARK + "\n")
    n = sum(1 for c in cmds if c.startswith("xpath "))
    if len(segs) != n + 1:
        return None
    res = []
    for seg in segs[:n]:
        seg = TRAIL.sub("", seg)
        k = seg.find("Object is a ")
        e = seg.find("XPath error")
        if k < 0 or (0 <= e < k):
            res.append(("err", seg.strip()[-200:]))
            continue
        seg = seg[k:]
        if seg.startswith("Object is a number : "):
            t = seg[len("Object is a number : "):].strip()
            res.append(("num", float("nan") if t == "NaN" else float("inf") if t == "Infinity" else float("-inf") if t == "-Infinity" else float(t)))
        elif seg.startswith("Object is a string : "):
            t = seg[len("Object is a string : "):]
            res.append(("str", t[:-1] if t.endswith("\n") else t))
        elif seg.startswith("Object is a Boolean : "):
            res.append(("bool", seg[len("Object is a Boolean : "):].strip() == "true"))
        elif seg.startswith("Object is a Node Set"):
            mm = re.search(r"Set contains (\d+) nodes", seg)
            res.append(("set", int(mm.group(1)) if mm else 0))
        else:
            res.append(("err", seg.strip()[:200]))
    return res


def main():
    ap = argparse.ArgumentParser()
    ap.add_argument("--props", default="C01,C02,C03,C07,C08,C09,C11,C13,C14")
    ap.add_argument("--seed", type=int, default=1)
    ap.add_argument("--max", type=int, default=4000)
    ap.add_argument("--xh", default=os.path.join(V, "work", "xh"))
    ap.add_argument("--xdriver", default=os.path.join(V, "lean", ".lake", "build", "bin", "xdriver"))
    args = ap.parse_args()
    if not XMLLINT:
        print("oraclecheck: xmllint not available; nothing checked")
        return 0
    tmp = tempfile.mkdtemp(prefix="oraclecheck.")
    stats = collections.Counter()
    bad = []
    for prop in args.props.split(","):
        cf = os.path.join(tmp, prop + ".cases")
        subprocess.run([args.xh, "gen", prop, "quick", str(args.seed), cf], stdout=subprocess.DEVNULL, stderr=subprocess.DEVNULL, check=True)
        lines = [l.rstrip("\n") for l in open(cf, encoding="utf-8")]
        lines = [l for l in lines if l.split("\t")[1] in ("sel", "eval")]
        step = max(1, len(lines) // args.max)
        lines = lines[::step][:args.max]
        # the same (possibly truncated) document goes to the oracle and to libxml2
        tl = []
        for l in lines:
            f = l.split("\t")
            if f[2] in ("-", ""):
                continue
            recs = truncate(parse_doc(f[2]))
            if int(f[3].split(".")[0]) >= len(recs):
                stats["skip:context-outside-first-top-level-element"] += 1
                continue
            f[2] = encode_doc(recs)
            tl.append("\t".join(f))
        lines = tl
        sub = os.path.join(tmp, prop + ".sub")
        open(sub, "w", encoding="utf-8").write("\n".join(lines) + "\n")
        drv = subprocess.run([args.xdriver], stdin=open(sub), stdout=subprocess.PIPE, text=True).stdout.splitlines()
        spec = {}
        for l in drv:
            f = l.split("\t")
            if len(f) >= 3:
                spec[f[0]] = f[2]
        # the package itself on the same lines (third column of the comparison)
        implf = os.path.join(tmp, prop + ".impl")
        subprocess.run([args.xh, "run", sub, implf, "0", "4000", "0"], stdout=subprocess.DEVNULL, stderr=subprocess.DEVNULL)
        if os.path.exists(implf):
            for l in open(implf, encoding="utf-8", errors="replace"):
                f = l.rstrip("\n").split("\t")
                if len(f) >= 2:
                    IMPL[f[0]] = f[1]
        # group by (doc, ns)
        groups = collections.defaultdict(list)
        for l in lines:
            f = l.split("\t")
            groups[(f[2], f[4])].append(f)
        for (docs, nss), cases in groups.items():
            recs = parse_doc(docs)
            xml = to_xml(recs)
            if xml is None:
                stats["skip:doc-not-xml"] += len(cases)
                continue
            if any(r["kind"] == "e" and not r["pfx"] and r["ns"] for r in recs):
                # the package (and the property C14) match an unprefixed test against unprefixed nodes whatever their
                # default namespace; XPath 1.0 gives unprefixed tests the null namespace
                stats["skip:default-namespace-document"] += len(cases)
                continue
            if any(re.search(r"\d[eE][+-]?\d", v) for r in recs for v in [r["data"]] + [a[3] for a in r["attrs"]]):
                # libxml2's string->number accepts an exponent ("1e3" = 1000); XPath 1.0's Number production has none
                stats["skip:libxml2-accepts-exponents"] += len(cases)
                continue
            nsmap = {}
            if nss not in ("-", "+"):
                for kv in nss.split(","):
                    k, v = kv.split("=")
                    nsmap[unhx(k)] = unhx(v)
            if any(v == "" for v in nsmap.values()):
                stats["skip:empty-uri-binding"] += len(cases)
                continue
            cmds, plan = [], []
            for p, u in nsmap.items():
                cmds.append("setns %s=%s" % (p, u))
            for f in cases:
                cid, kind, ctx, expr = f[0], f[1], f[3], unhx(f[5])
                sp = spec.get(cid, "")
                if "." in ctx:
                    stats["skip:attribute-context"] += 1
                    continue
                if 2 * len(expr) + 90 > 480:
                    # xmllint's shell reads lines into a 500-byte buffer
                    stats["skip:long-expression(shell line limit)"] += 1
                    continue
                if any(ord(ch) < 32 for ch in expr):
                    stats["skip:control-character-in-expression(shell input)"] += 1
                    continue
                if re.search(r"\d[eE][+-]?\d", expr):
                    stats["skip:libxml2-accepts-exponents"] += 1
                    continue
                if any(fn + "(" in expr for fn in SKIP_FUNCS) or "\n" in expr:
                    stats["skip:non-1.0-function"] += 1
                    continue
                prefixes = set(re.findall(r"(?<![\w:.-])([A-Za-z_][\w.-]*):(?=[A-Za-z_*])", expr)) - {"http", "urn"}
                prefixes = {p for p in prefixes if not re.search(r"%s::" % re.escape(p), expr) or p in nsmap}
                if any(p not in nsmap for p in prefixes):
                    stats["skip:prefix-without-binding"] += 1
                    continue
                if not (sp.startswith("seq:") or sp.startswith("num:") or sp.startswith("str:") or sp.startswith("bool:")):
                    stats["skip:spec-" + sp.split(":")[0]] += 1
                    continue
                cmds.append("cd " + node_path(recs, int(ctx)))
                if sp.startswith("seq:"):
                    refs = [r for r in sp[4:].split(",") if r]
                    if len(refs) > 6:
                        stats["skip:large-result"] += 1
                        cmds.pop()
                        continue
                    cmds.append("xpath count(%s)" % expr)
                    q = [("count", len(refs))]
                    for k, r in enumerate(refs, 1):
                        e = "(%s)[%d]" % (expr, k)
                        cmds.append("xpath count(%s/preceding::node()) + count(%s/ancestor::node())" % (e, e))
                        # (libxml2 miscounts preceding::/ancestor:: from a comment that is a sibling of the document
                        # element; such a node is identified by kind and value only)
                        toplevel_comment = "." not in r and recs[int(r)]["kind"] == "c" and recs[int(r)]["depth"] == 1
                        q.append(("pos", -1 if toplevel_comment else docpos(r)))
                        cmds.append("xpath string(%s)" % e)
                        q.append(("sv", string_value(recs, r)))
                        kd = kind_of(recs, r)
                        cmds.append("xpath boolean(%s/self::*)" % e)
                        q.append(("is", kd == "elem"))
                        cmds.append("xpath boolean(%s/self::text())" % e)
                        q.append(("is", kd == "text"))
                        cmds.append("xpath boolean(%s/self::comment())" % e)
                        q.append(("is", kd == "comment"))
                        cmds.append("xpath boolean(%s/self::node()[count(.|../@*)=count(../@*)])" % e)
                        q.append(("is", kd == "attr"))
                    plan.append((f, sp, q))
                elif sp.startswith("num:"):
                    # the shell prints numbers with %g (6 digits): ask for string(), which gives 15 digits
                    cmds.append("xpath string(%s)" % expr)
                    plan.append((f, sp, [("val", sp)]))
                else:
                    cmds.append("xpath " + expr)
                    plan.append((f, sp, [("val", sp)]))
            if not plan:
                continue
            out = run_shell(xml, with_marks(cmds))
            ans = parse_answers(out, cmds)
            if ans is None or "Unknown command" in out:
                stats["skip:unparsed-session"] += len(plan)
                continue
            pos = 0
            for f, sp, q in plan:
                ok, why = True, ""
                mine = ans[pos:pos + len(q)]
                pos += len(q)
                if q and q[0][0] == "count" and len(q) > 1 and mine[0] == ("num", float(q[0][1])) and all(g[0] != "err" for g in mine):
                    k = (len(q) - 1) // 6
                    want_set = sorted(tuple(w for _, w in q[1 + 6 * j: 7 + 6 * j]) for j in range(k))
                    got_l = [[(g[1] if g[0] != "num" else int(g[1])) for g in mine[1 + 6 * j: 7 + 6 * j]] for j in range(k)]
                    for t in got_l:
                        if t[1:] and t[4] is True and any(w[0] == -1 and re.sub(r"[\t\r\n]", " ", w[1]) == re.sub(r"[\t\r\n]", " ", t[1]) for w in want_set):
                            t[0] = -1
                    got_set = sorted(tuple(t) for t in got_l)
                    # the shell prints TAB/CR/LF inside a string-value as blanks
                    nrm = lambda ts: sorted(tuple(re.sub(r"[\t\r\n]", " ", x) if isinstance(x, str) else x for x in t) for t in ts)
                    if want_set == got_set or nrm(want_set) == nrm(got_set):
                        stats["agree"] += 1
                        stats["agree:" + f[0][:3]] += 1
                    else:
                        stats["DISAGREE"] += 1
                        bad.append((f[0], unhx(f[5]), f[3], f[2][:200], f[4], "node set: libxml2 %r, oracle %r" % (got_set, want_set)))
                    continue
                for (what, want), got in zip(q, mine):
                    if got[0] == "err":
                        ok, why = None, got[1]
                        break
                    if what == "count" or what == "pos":
                        if got[0] != "num" or got[1] != float(want):
                            ok, why = False, "%s: libxml2 %s, oracle %s" % (what, got[1], want)
                            break
                    elif what == "is":
                        if got != ("bool", want):
                            ok, why = False, "node kind probe: libxml2 %r, oracle %r" % (got, want)
                            break
                    elif what == "sv" or what == "kind":
                        if got[0] != "str" or re.sub(r"[\t\r\n]", " ", got[1]) != re.sub(r"[\t\r\n]", " ", want):
                            ok, why = False, "%s: libxml2 %r, oracle %r" % (what, got[1], want)
                            break
                    else:
                        if want.startswith("num:"):
                            bits = want[4:]
                            wv = float("nan") if bits == "nan" else struct.unpack(">d", binascii.unhexlify(bits))[0]
                            g = None
                            if got[0] == "str":
                                t = got[1].strip()
                                try:
                                    g = float("nan") if t == "NaN" else float("inf") if t == "Infinity" else float("-inf") if t == "-Infinity" else float(t)
                                except ValueError:
                                    g = None
                            if g is None or not ((math.isnan(wv) and math.isnan(g)) or wv == g or (abs(wv - g) <= 1e-13 * max(1e-300, abs(wv)))):
                                ok, why = False, "number: libxml2 %r, oracle %r" % (got, wv)
                        elif want.startswith("bool:"):
                            if got != ("bool", want[5:] == "1"):
                                ok, why = False, "boolean: libxml2 %r, oracle %s" % (got, want)
                        elif want.startswith("str:"):
                            w = unhx(want[4:])
                            # the shell prints TAB/CR/LF inside a string as blanks
                            norm = lambda t: re.sub(r"[\t\r\n]", " ", t)
                            if got[0] == "str" and norm(got[1]) == norm(w):
                                got = ("str", w)
                            numeric = False
                            if got[0] == "str" and got[1] != w:
                                try:
                                    a, b = float(got[1]), float(w)
                                    numeric = abs(a - b) <= 1e-13 * max(1e-300, abs(b))
                                except ValueError:
                                    numeric = False
                            if got != ("str", w) and not numeric:
                                ok, why = False, "string: libxml2 %r, oracle %r" % (got, unhx(want[4:]))
                if ok is None:
                    stats["skip:libxml2-error"] += 1
                elif ok:
                    stats["agree"] += 1
                    stats["agree:" + f[0][:3]] += 1
                else:
                    if re.search(r"(^|;)1,c,", f[2]):
                        # a comment beside the document element: the shell's document order for it differs (see the notes
                        # at the top); only element-only comparisons are meaningful on such documents
                        stats["explained:top-level-comment"] += 1
                        continue
                    if "substring" in unhx(f[5]) and "0.49999999999999994" in unhx(f[5]):
                        # libxml2 rounds with floor(x + 0.5), which is 1 for the largest double below 0.5 (the defect
                        # repaired in the package by fafb11c); XPath's round() gives 0
                        stats["explained:libxml2-rounds-with-floor(x+0.5)"] += 1
                        continue
                    stats["DISAGREE"] += 1
                    bad.append((f[0], unhx(f[5]), f[3], f[2][:200], f[4], why))
    for k in sorted(stats):
        print("%-32s %d" % (k, stats[k]))
    print("not-xml reasons:", dict(WHY))
    for b in bad[:40]:
        print("DISAGREE", b, "| package:", IMPL.get(b[0], "?")[:120])
    return 1 if bad else 0


if __name__ == "__main__":
    sys.exit(main())
