#!/usr/bin/env python3
"""tools/grammarcheck.py [--seed N]: the model parser against the full reference grammar (Spec/FullGrammar.lean,
written from the Recommendation alone) on the expression texts of every generated case of every property."""
import argparse, binascii, collections, os, subprocess, sys, tempfile
V = os.path.dirname(os.path.dirname(os.path.abspath(__file__)))
ap = argparse.ArgumentParser(); ap.add_argument("--seed", type=int, default=1); ap.add_argument("--xh", default=os.path.join(V, "work", "xh"))
ap.add_argument("--xdriver", default=os.path.join(V, "lean", ".lake", "build", "bin", "xdriver")); args = ap.parse_args()
tmp = tempfile.mkdtemp(prefix="grammarcheck.")
seen = {}
for i in range(1, 18):
    prop = "C%02d" % i
    cf = os.path.join(tmp, prop)
    subprocess.run([args.xh, "gen", prop, "quick", str(args.seed), cf], stdout=subprocess.DEVNULL, stderr=subprocess.DEVNULL)
    for l in open(cf, encoding="utf-8", errors="replace"):
        f = l.rstrip("\n").split("\t")
        if len(f) < 7 or not f[5] or len(f[5]) > 1200:
            continue
        seen.setdefault((f[4], f[5]), prop)
lines = ["G%07d\tast\t-\t0.0\t%s\t%s\t-" % (k, ns, ex) for k, (ns, ex) in enumerate(seen)]
inp = os.path.join(tmp, "in"); open(inp, "w").write("\n".join(lines) + "\n")
out = subprocess.run([args.xdriver], stdin=open(inp), stdout=subprocess.PIPE, text=True).stdout.splitlines()
st = collections.Counter(); ex = collections.defaultdict(list)
for l, key in zip(out, seen):
    f = l.split("\t")
    tag = ":".join(f[2].split(":")[:2]) if len(f) > 2 else "?"
    if tag == "full:none":
        try: e0 = binascii.unhexlify(key[1]).decode("utf-8", "replace")
        except Exception: e0 = ""
        import re as _re
        if _re.search(r"(^|[^.\w])\.\.?\s*\[", e0):
            tag = "full:none(predicate on . or ..)"
    st[tag] += 1
    if tag not in ("full:same", "full:both-reject") and len(ex[tag]) < 12:
        try: e = binascii.unhexlify(key[1]).decode("utf-8", "replace")
        except Exception: e = key[1]
        ex[tag].append((e, f[1][:160], f[2][:200]))
print(dict(st))
for t, l in ex.items():
    print("==", t)
    for e in l: print("  ", e)
sys.exit(1 if st.get("full:differs") else 0)
