#!/bin/bash
# targeted: the checks of the properties anchored in the touched file
cd /verif
DIR=${1:-/verif/seeded/refactors}
declare -A MAP
MAP[cache.go]="C16 C05 C15"
MAP[parse.go]="C06 C10 C17 C14"
MAP[build.go]="C01 C02 C03 C13 C06"
MAP[query.go]="C01 C04 C11 C12 C02"
MAP[func.go]="C09 C04 C05 C03"
MAP[operator.go]="C07 C08 C02"
MAP[xpath.go]="C04 C05 C12"
for f in $DIR/r*.diff; do
  n=$(basename $f .diff | tr -d r)
  [ -z "$(git -C /repo status --porcelain)" ] || { echo "repo dirty"; exit 1; }
  git -C /repo apply $f 2>/dev/null || { echo "r$n does-not-apply-on-current-HEAD"; continue; }
  files=$(grep '^+++ b/' $f | sed 's#+++ b/##')
  props=""
  for ff in $files; do props="$props ${MAP[$ff]}"; done
  props=$(echo $props | tr ' ' '\n' | sort -u | tr '\n' ' ')
  res=""
  for p in $props; do
    bin/check $p --tier quick > /tmp/refres_r${n}_$p.log 2>&1; rc=$?
    [ $rc -ne 0 ] && res="$res $p($(grep -c no-failing-input-found /tmp/refres_r${n}_$p.log))"
  done
  git -C /repo apply -R $f || { git -C /repo checkout -- .; git -C /repo clean -fdq; }
  git -C /verif checkout -- evidence lean/XPathV/Generated facts.json 2>/dev/null
  echo "r$n [$files] checks:[$props] alarms:[$res ] $(cut -c1-90 $DIR/r$n.txt)"
done
echo refactors-done
