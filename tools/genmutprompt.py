#!/usr/bin/env python3
"""genmutprompt.py <round> : write /tmp/mutprompt<round>_Cxx.txt for every property — the brief for a seeded-change
sub-agent (property text + its own scratch worktree /tmp/wt<round>_Cxx; nothing from /verif except the one-sentence
summaries of the earlier seeded changes for the same property, so that the new one is different)."""
import json, sys, glob, os, re
rnd = sys.argv[1]
tmpl = open('/verif/tools/mutant_prompt_example.txt').read()
head, rest = tmpl.split('The property to break is:')
body_tail = rest.split('Your task: design ONE realistic change', 1)[1].split('IMPORTANT — diversity:')[0]
for line in open('/verif/properties.jsonl'):
    p = json.loads(line); pid = p['id']; wt = f'/tmp/wt{rnd}_{pid}'
    prev = []
    for m in sorted(glob.glob(f'/verif/seeded/{pid}-m*/meta.json')):
        j = json.load(open(m)); prev.append((j.get('summary', ''), j.get('files_changed', [])))
    txt = head.replace('/tmp/wt4_C07', wt) + 'The property to break is:\n\n'
    txt += f"Property {pid}: {p['title']}\n\nStatement: {p['statement']}\n\nQuantifier: {p['quantifier']['text']}\n\n"
    txt += f"Why the existing tests cannot settle it: {p['why_tests_cant']}\n\nCode anchors: {json.dumps(p['anchors'])}\n\n\n"
    txt += 'Your task: design ONE realistic change' + body_tail.replace('/tmp/wt4_C07', wt)
    txt += f'IMPORTANT — diversity: other engineers already produced these {len(prev)} defects for the same property:\n'
    for i, (s, f) in enumerate(prev, 1):
        txt += f'  {i}. "{s}" (files: {f})\n'
    txt += ('Yours must be a clearly DIFFERENT defect: a different mechanism AND a different function from all of them. Look for corners '
            'of the property that those do not touch — a less common axis, node type (text, comment, attribute context nodes), function or '
            'operator that the property still covers; an interaction between two features (e.g. namespaces + predicates, unions + positional '
            'predicates, nested function calls); a second or third evaluation; a boundary value; an unusual but valid spelling of the same '
            'expression (whitespace, abbreviations, parentheses). Aim for subtle: a narrow class of inputs/histories/schedules, yet a genuine '
            'violation of the property as stated. Do not pick a defect that manifests only through a Go runtime crash unless the property is '
            'about crashes.\n')
    open(f'/tmp/mutprompt{rnd}_{pid}.txt', 'w').write(txt)
print('ok')
