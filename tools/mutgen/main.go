// mutgen enumerates first-order mutants of the package sources (go/ast, stdlib only).
//
//	mutgen <repo-dir> > mutants.jsonl
//
// Every line: {"id","file","start","end","repl","op","line","func","orig"} — replace bytes
// [start,end) of file by repl.  Operators: relational and equality flips, && <-> ||, dropped
// negation, + <-> -, ++ <-> --, integer literal 0 <-> 1 (n -> n+1), true <-> false, deletion of an
// assignment / call / inc-dec statement, `break` <-> `continue` is left out (hangs), return value
// true <-> false, removal of an else-less `if` guard's body (body -> {}), case-arm body removal.
// Test files, verif_hooks.go and String() methods of the parse-tree nodes are skipped.
package main

import (
	"encoding/json"
	"fmt"
	"go/ast"
	"go/parser"
	"go/token"
	"os"
	"path/filepath"
	"sort"
	"strconv"
	"strings"
)

type Mut struct {
	ID    string `json:"id"`
	File  string `json:"file"`
	Start int    `json:"start"`
	End   int    `json:"end"`
	Repl  string `json:"repl"`
	Op    string `json:"op"`
	Line  int    `json:"line"`
	Func  string `json:"func"`
	Orig  string `json:"orig"`
}

var flips = map[token.Token][]string{
	token.EQL:  {"!="},
	token.NEQ:  {"=="},
	token.LSS:  {"<=", ">="},
	token.LEQ:  {"<", ">"},
	token.GTR:  {">=", "<="},
	token.GEQ:  {">", "<"},
	token.LAND: {"||"},
	token.LOR:  {"&&"},
	token.ADD:  {"-"},
	token.SUB:  {"+"},
}

func main() {
	dir := os.Args[1]
	files, _ := filepath.Glob(filepath.Join(dir, "*.go"))
	sort.Strings(files)
	enc := json.NewEncoder(os.Stdout)
	n := 0
	for _, path := range files {
		base := filepath.Base(path)
		if strings.HasSuffix(base, "_test.go") || base == "verif_hooks.go" || base == "func_pre_go110.go" {
			continue
		}
		src, err := os.ReadFile(path)
		if err != nil {
			panic(err)
		}
		fset := token.NewFileSet()
		f, err := parser.ParseFile(fset, path, src, 0)
		if err != nil {
			panic(err)
		}
		off := func(p token.Pos) int { return fset.Position(p).Offset }
		emit := func(fn string, s, e int, repl, op string) {
			n++
			o := string(src[s:e])
			if len(o) > 80 {
				o = o[:80] + "…"
			}
			enc.Encode(Mut{ID: fmt.Sprintf("M%05d", n), File: base, Start: s, End: e, Repl: repl, Op: op,
				Line: fset.Position(token.Pos(fset.File(f.Pos()).Base() + s)).Line, Func: fn, Orig: o})
		}
		for _, decl := range f.Decls {
			fd, ok := decl.(*ast.FuncDecl)
			var fn string
			var body ast.Node
			if ok {
				if fd.Body == nil {
					continue
				}
				fn = fd.Name.Name
				if fd.Recv != nil && len(fd.Recv.List) == 1 {
					t := fd.Recv.List[0].Type
					if s, ok := t.(*ast.StarExpr); ok {
						t = s.X
					}
					if id, ok := t.(*ast.Ident); ok {
						fn = id.Name + "." + fn
					}
				}
				if fd.Name.Name == "String" && base == "parse.go" {
					continue
				}
				body = fd.Body
			} else {
				// package-level var f = func(...) {...} (operator.go) and tables
				gd := decl.(*ast.GenDecl)
				if gd.Tok != token.VAR {
					continue
				}
				fn = "var"
				body = gd
			}
			ast.Inspect(body, func(nd ast.Node) bool {
				switch x := nd.(type) {
				case *ast.ValueSpec:
					if fn == "var" && len(x.Names) == 1 {
						fn = "var " + x.Names[0].Name
					}
				case *ast.BinaryExpr:
					for _, r := range flips[x.Op] {
						if x.Op == token.ADD || x.Op == token.SUB {
							// not on string concatenations of literals
							if bl, ok := x.X.(*ast.BasicLit); ok && bl.Kind == token.STRING {
								continue
							}
							if bl, ok := x.Y.(*ast.BasicLit); ok && bl.Kind == token.STRING {
								continue
							}
						}
						s := off(x.OpPos)
						emit(fn, s, s+len(x.Op.String()), r, "binop "+x.Op.String()+" -> "+r)
					}
				case *ast.UnaryExpr:
					if x.Op == token.NOT {
						emit(fn, off(x.OpPos), off(x.OpPos)+1, "", "drop !")
					}
				case *ast.IncDecStmt:
					r := "--"
					if x.Tok == token.DEC {
						r = "++"
					}
					emit(fn, off(x.TokPos), off(x.TokPos)+2, r, "incdec -> "+r)
					emit(fn, off(x.Pos()), off(x.End()), "", "delete statement")
				case *ast.BasicLit:
					if x.Kind == token.INT {
						if v, err := strconv.Atoi(x.Value); err == nil {
							r := strconv.Itoa(v + 1)
							if v == 1 {
								r = "0"
							}
							emit(fn, off(x.Pos()), off(x.End()), r, "int "+x.Value+" -> "+r)
						}
					}
				case *ast.Ident:
					if x.Name == "true" {
						emit(fn, off(x.Pos()), off(x.End()), "false", "true -> false")
					} else if x.Name == "false" {
						emit(fn, off(x.Pos()), off(x.End()), "true", "false -> true")
					}
				case *ast.AssignStmt:
					if x.Tok != token.DEFINE {
						emit(fn, off(x.Pos()), off(x.End()), "", "delete statement")
					}
				case *ast.ExprStmt:
					if _, ok := x.X.(*ast.CallExpr); ok {
						emit(fn, off(x.Pos()), off(x.End()), "", "delete statement")
					}
				case *ast.DeferStmt:
					emit(fn, off(x.Pos()), off(x.End()), "", "delete defer")
				case *ast.IfStmt:
					if x.Else == nil && len(x.Body.List) > 0 {
						emit(fn, off(x.Body.Lbrace), off(x.Body.Rbrace)+1, "{}", "empty if body")
					}
					if x.Else != nil {
						if eb, ok := x.Else.(*ast.BlockStmt); ok && len(eb.List) > 0 {
							emit(fn, off(eb.Lbrace), off(eb.Rbrace)+1, "{}", "empty else body")
						}
					}
				case *ast.CaseClause:
					if len(x.Body) > 0 {
						s, e := off(x.Body[0].Pos()), off(x.Body[len(x.Body)-1].End())
						emit(fn, s, e, "", "empty case arm")
					}
				}
				return true
			})
		}
	}
}
