module verif/mutgen

go 1.21
