#!/bin/bash
# Which statements of the package do the quick-tier correspondence runs execute?
# Builds the harness with Go's coverage instrumentation (VERIF_COVER=1 in bin/vlib.py), runs the
# quick check of every property on a scratch copy of /verif (so that evidence/ and work/ of /verif
# are left alone), merges the counters and prints the statement blocks never executed.
# Usage: tools/coverage.sh [outfile]     (default /verif/coverage-uncovered.txt)
set -e
OUT=${1:-/verif/coverage-uncovered.txt}
S=$(mktemp -d /tmp/vcov.XXXXXX)
trap 'rm -rf "$S"' EXIT
cp -r /verif "$S/verif"
mkdir -p "$S/cov"
export GOFLAGS=-mod=mod GOPROXY=off GOSUMDB=off GOTOOLCHAIN=local
export VERIF_COVER=1 GOCOVERDIR="$S/cov"
cd "$S/verif"
for p in C01 C02 C03 C04 C05 C06 C07 C08 C09 C10 C11 C12 C13 C14 C15 C16 C17; do
  bin/check $p --tier quick >"$S/$p.log" 2>&1 || { echo "check $p failed under coverage"; tail -3 "$S/$p.log"; }
done
cd "$S/verif/harness"
# the race build uses atomic counters, the plain build set counters: one textfmt per meta file
: > "$S/all.txt"
for m in "$S"/cov/covmeta.*; do
  h=${m##*.}
  mkdir -p "$S/c_$h"; mv "$S"/cov/*"$h"* "$S/c_$h/"
  go tool covdata textfmt -i="$S/c_$h" -o "$S/c_$h.txt" -pkg github.com/antchfx/xpath
  cat "$S/c_$h.txt" >> "$S/all.txt"
done
python3 - "$S/all.txt" "$OUT" <<'E'
import sys, collections
cov = {}
for l in open(sys.argv[1]):
    if l.startswith("mode"):
        continue
    k, n, c = l.rsplit(" ", 2)
    st = cov.setdefault(k, [int(n), 0])
    st[1] += int(c)
tot = sum(v[0] for k, v in cov.items() if "verif_hooks.go" not in k)
hit = sum(v[0] for k, v in cov.items() if v[1] > 0 and "verif_hooks.go" not in k)
byf = collections.defaultdict(list)
for k, v in cov.items():
    if v[1] == 0 and "verif_hooks.go" not in k:
        f, r = k.split(":")
        a, b = r.split(",")
        byf[f.split("/")[-1]].append((int(a.split(".")[0]), int(b.split(".")[0])))
with open(sys.argv[2], "w") as o:
    o.write("statements of the package (verif_hooks.go excluded) executed by the 17 quick checks: %d of %d (%.1f%%)\n" % (hit, tot, 100.0 * hit / tot))
    o.write("never executed (file: first-last line of each block):\n")
    for f in sorted(byf):
        o.write("  %s: %s\n" % (f, " ".join("%d-%d" % ab for ab in sorted(byf[f]))))
print(open(sys.argv[2]).read())
E
