package main

import (
	"bufio"
	"encoding/json"
	"fmt"
	"os"
	"strconv"
)

var generators = map[string]func(*genCtx){
	"C01": genC01, "C02": genC02, "C03": genC03, "C04": genC04, "C05": genC05, "C06": genC06, "C07": genC07, "C08": genC08, "C09": genC09,
	"C10": genC10, "C11": genC11, "C12": genC12, "C13": genC13, "C14": genC14, "C15": genC15, "C16": genC16, "C17": genC17,
}

func cmdGen(args []string) {
	prop, tier := args[0], args[1]
	seed, _ := strconv.ParseUint(args[2], 10, 64)
	out := args[3]
	gf, ok := generators[prop]
	if !ok {
		fmt.Fprintln(os.Stderr, "unknown property", prop)
		os.Exit(2)
	}
	g := &genCtx{prop: prop, tier: tier, r: newRng(seed)}
	gf(g)
	f, err := os.Create(out)
	if err != nil {
		fmt.Fprintln(os.Stderr, err)
		os.Exit(2)
	}
	w := bufio.NewWriterSize(f, 1<<20)
	for _, c := range g.cases {
		w.WriteString(c.Line())
		w.WriteByte('\n')
	}
	w.Flush()
	f.Close()
	// distribution summary for the evidence
	st := map[string]interface{}{"cases": len(g.cases)}
	kinds := map[string]int{}
	nodes := map[int]int{}
	elen := map[int]int{}
	for _, c := range g.cases {
		kinds[c.Kind]++
		if c.Doc != nil {
			nodes[len(c.Doc)]++
		}
		b := len(c.Expr) / 10 * 10
		if b > 200 {
			b = 200
		}
		elen[b]++
	}
	st["kinds"], st["doc_nodes"], st["expr_len_bucket"] = kinds, nodes, elen
	b, _ := json.Marshal(st)
	fmt.Println(string(b))
}

func main() {
	if len(os.Args) < 2 {
		fmt.Fprintln(os.Stderr, "usage: harness gen|run|race ...")
		os.Exit(2)
	}
	switch os.Args[1] {
	case "gen":
		cmdGen(os.Args[2:])
	case "run":
		cmdRun(os.Args[2:])
	case "race":
		cmdRace(os.Args[2:])
	default:
		fmt.Fprintln(os.Stderr, "unknown command")
		os.Exit(2)
	}
}
