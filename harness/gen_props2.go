package main

import (
	"fmt"
	"regexp"
	"strings"
)

// ---- C05: expressions + documents for the race runner (sequential result is the oracle) ----
func genC05(g *genCtx) {
	r := g.r
	pool := docPool(r, plainProfile, 4, 1, 40, 14)
	fixed := []string{"string-join(//a, ',')", "string-join(//*/@k, '-')", "ancestor::a = '1x'", "(//b)[1] = //b", "//b[ancestor::a]", "count(//a[b])",
		"matches(string(//a), 'a|b')", "replace('abc', 'b', 'x')", "//a[matches(., '1')]", "//*[following::b]", "//a | //b", "sum(//@k) > 1", "//a[last()]", "normalize-space(//a)",
		"concat(//a, //b)", "concat('a', 'b', 'c', string(.))", "concat('1', '2', '3', local-name())", "concat('a', 'b', 'c', 'd', 'e', name(), @k)", "concat('x', 'y', 'z', 'u', 'v', 'w', string(count(*)))",
		"concat('p', 'q', 'r', 's', 't', 'u', 'v', string(.), 'z')", "string-join(//*, concat('a', 'b', 'c', local-name()))", "//a[position() < 3]/b", "reverse(//a)", "count(reverse(//a))", "string-join(reverse(//a), ',')", "sum(reverse(//@k))", "string(reverse(//*))", "concat(reverse(//a), reverse(//b))", "//*[preceding::a]", "//*[descendant::a/descendant::b]",
		"//*[matches(string(@k), string(@m))]", "//*[matches(local-name(), concat(local-name(..), '|a'))]", "count(//*[matches(., local-name())])",
		"//*[replace(local-name(), local-name(..), 'x') = 'x']", "replace(string(//a), local-name(//*[2]), '-')", "//*[matches(local-name(), @a)]",
		"//*[matches('abc', concat('a', local-name()))]", "string-join(//*[matches(local-name(), 'a|b')], ',')", "//*[*][last()]", "*[*][last()]"}
	for _, e := range fixed {
		d := pool[r.intn(len(pool))]
		g.add(&Case{Kind: "race", Doc: d, Ctx: Ref{0, -1}, Expr: e})
	}
	for i := 0; i < g.scale(150, 1500); i++ {
		d := pool[r.intn(len(pool))]
		g.add(&Case{Kind: "race", Doc: d, Ctx: pickNodeCtx(r, d), Expr: genAnyExpr(r)})
	}
	// run-time regexp patterns nobody has requested before (unique per case and per node): the goroutines'
	// first lookups miss and insert into the shared pattern cache while the others look up
	for i := 0; i < g.scale(60, 600); i++ {
		d := pool[r.intn(len(pool))]
		u := fmt.Sprintf("u%dx%d", g.r.intn(1<<30), i)
		e := r.pick([]string{
			"//*[matches(local-name(), concat('^(', local-name(), '|" + u + ")$'))]",
			"count(//*[matches(concat(local-name(), '" + u + "'), concat(local-name(..), '" + u + "', '?'))])",
			"//*[replace(local-name(), concat(local-name(), '" + u + "|.'), 'x') = 'x']",
			"string-join(//*[matches(string(@k), concat('" + u + "|', local-name()))], ',')",
		})
		g.add(&Case{Kind: "race", Doc: d, Ctx: Ref{0, -1}, Expr: e})
	}
}

// ---- C06 ----
var validSeeds = []string{"a/b[1]", "//a[@k='x'] | b", "count(//a) + 1 > 2 and not(b)", "a/(b,c)", "substring('abc', 1, 2)", "p:a/q:b", "ancestor-or-self::*[last()]",
	"-1 * (2 - .5)", "a[b[c[d]]]", "string-join(//a, ',')", "\"x\" = 'y'", "@*", "..//.", "a[position() = last() - 1]", "processing-instruction('x')", "$v + 1", "a | b | c"}

func mutateBytes(r *rng, s string) string {
	b := []byte(s)
	n := 1 + r.intn(4)
	for i := 0; i < n; i++ {
		switch r.intn(6) {
		case 0:
			if len(b) > 0 {
				b[r.intn(len(b))] = byte(r.intn(256))
			}
		case 1:
			p := r.intn(len(b) + 1)
			b = append(b[:p], append([]byte{byte(r.intn(256))}, b[p:]...)...)
		case 2:
			if len(b) > 0 {
				p := r.intn(len(b))
				b = append(b[:p], b[p+1:]...)
			}
		case 3:
			p := r.intn(len(b) + 1)
			tok := r.pick([]string{"(", ")", "[", "]", "'", "\"", "/", "//", "::", ":", "*", "@", "$", ",", "|", "..", ".", "-", "#", "!", "<=", " ", "\x00", "\xff", "\xc3", "é", "中", "٣", "\u00a0", "\u2028"})
			b = append(b[:p], append([]byte(tok), b[p:]...)...)
		case 4:
			if len(b) > 1 {
				b = b[:r.intn(len(b))]
			}
		default:
			if len(b) > 1 {
				p, q := r.intn(len(b)), r.intn(len(b))
				b[p], b[q] = b[q], b[p]
			}
		}
	}
	return string(b)
}

func nestFamilies(k int) []string {
	rep := strings.Repeat
	return []string{
		rep("(", k) + "1" + rep(")", k),
		"a" + rep("[a", k) + rep("]", k),
		rep("count(", k) + "a" + rep(")", k),
		rep("-", k) + "1",
		"a" + rep("/a", k),
		"a" + rep("|a", k),
		"1" + rep("+1", k),
		"a" + rep("[1]", k),
		"a/" + rep("(", k) + "a" + rep(")", k),
		rep("(", k) + "a" + rep(")", k) + "/a",
		"a" + rep("//a", k),
		rep("not(", k) + "a" + rep(")", k),
		"a" + rep(" or a", k),
		"a" + rep("[a=", k) + "1" + rep("]", k),
		rep("(a,", k) + "a" + rep(")", k),
		"a/" + rep("(a,", k) + "a" + rep(")", k),
		rep("concat(1,", k) + "1" + rep(")", k),
		"'" + rep("x", k) + "'",
		rep("a", k),
		rep("1", k),
		rep(" ", k) + "a",
		rep("(", k),
		rep("[", k),
		"a" + rep("[", k),
		rep("a[", k),
		rep("-(", k) + "1" + rep(")", k),
		rep("a/(", k) + "a" + rep(")", k),
		rep("..", 1) + rep("/..", k),
		"a" + rep("=a", k),
		rep("$", k),
	}
}

// flat chains that stay far below the depth limits: Compile must stay linear in their length
func chainFamilies(k int) []string {
	rep := strings.Repeat
	return []string{
		"a" + rep("[last()]", k),
		"a[1]" + rep("[last()]", k),
		"a[b]" + rep("[last()]", k),
		"//a" + rep("[position() = last()]", k),
		"a" + rep("[b][1]", k),
		"a" + rep("[@k]", k),
		"(a)" + rep("[last()]", k),
		"a" + rep("/b[last()]", k),
	}
}

func genC06(g *genCtx) {
	r := g.r
	maps := []map[string]string{nil, nil, nil, {"p": "urn:p"}, {}, {"p": "", "q": "urn:q"}}
	for _, s := range validSeeds {
		for _, m := range maps {
			g.add(&Case{Kind: "compile", NS: m, Expr: s})
		}
	}
	// constructs written one after the other (not nested): the cost of Compile must not double with each of them
	// (known finding: it does for the step sequence a/(b,c)/(b,c)…, whose operands share the input subtree)
	for _, hu := range [][2]string{{"a", "/(b,c)"}, {"a", "/(b, c, d)"}, {"a", "/(b)"}, {"a", "/b"}, {"a", "//b"}, {"a", "[b]"}, {"a", "[b][1]"}, {"a", " | b"}, {"a", " or b"},
		{"a", "[b = 1]"}, {"1", " + 1"}, {"a", "/.."}, {"a", "/b[c or d]"}, {"(a)", "[1]"}, {"a", "/following::b"}, {"a", "[contains(., 'x')]"}, {"a", " = b or a"}} {
		g.add(&Case{Kind: "cgrowth", Expr: hu[1], Extra: hx(hu[0]) + ";6;12"})
	}
	// … and the depth guards count nesting, not length: hundreds of constructs in a row are accepted
	for _, hu := range [][2]string{{"a", "/(b)"}, {"a", "[b]"}, {"a", " | (b)"}, {"(a)", "/(b)"}, {"a", "[(b)/(c)]"}, {"a", "/b"}, {"a", " or (b)"}, {"1", " + (1)"}, {"a", "[(b)]"}, {"a", " = (b) or a"},
		{"a", "/(b)/c"}, {"a", "[f(1)]"}, {"a", "[count((b)) = 1]"}} {
		for _, n := range []int{120, 201, 250} {
			g.add(&Case{Kind: "compile", Expr: hu[0] + strings.Repeat(hu[1], n)})
		}
	}
	// byte-level stream
	for i := 0; i < g.scale(20000, 200000); i++ {
		var s string
		switch r.intn(4) {
		case 0:
			n := r.intn(12)
			b := make([]byte, n)
			for k := range b {
				b[k] = byte(r.intn(256))
			}
			s = string(b)
		case 1:
			s = mutateBytes(r, genAnyExpr(r))
		default:
			s = mutateBytes(r, r.pick(validSeeds))
		}
		g.add(&Case{Kind: "compile", NS: maps[r.intn(len(maps))], Expr: s})
	}
	// long inputs: runs of one byte (UTF-8 continuation bytes, invalid lead bytes, NUL, blanks, openers) and of short
	// units around the sizes at which buffers and messages are cut, alone and in front of / behind a valid expression
	units := []string{"\x80", "\xbf", "\xc0", "\xff", "\x00", " ", "\t", "a", "(", "[", "'", "/", "-", "\xe2\x82", "\xf0\x9f\x98", "é", "a:", "$", "1.", ".."}
	for _, u := range units {
		for _, n := range []int{63, 64, 65, 127, 128, 129, 255, 256, 257, 258, 300, 511, 512, 513, 1000, 4096, 65536} {
			if len(u)*n > 100000 {
				continue
			}
			run := strings.Repeat(u, n)
			g.add(&Case{Kind: "compile", Expr: run})
			g.add(&Case{Kind: "compile", Expr: run + "a"})
			g.add(&Case{Kind: "compile", Expr: "a[" + run})
			g.add(&Case{Kind: "compile", Expr: "'" + run})
		}
	}
	// grammar stream (valid expressions must compile)
	for i := 0; i < g.scale(5000, 50000); i++ {
		g.add(&Case{Kind: "compile", NS: maps[r.intn(3)], Expr: genAnyExpr(r)})
	}
	// token soup
	for i := 0; i < g.scale(10000, 100000); i++ {
		g.add(&Case{Kind: "compile", Expr: genTokenSoup(r, 1+r.intn(8))})
	}
	// depth families
	depths := []int{1, 2, 10, 100, 199, 200, 201, 250, 1000, 1023, 1024, 1025, 1100, 10000, 100000}
	if g.thorough() {
		depths = append(depths, 1000000, 10000000)
	}
	for _, k := range depths {
		for _, e := range nestFamilies(k) {
			g.add(&Case{Kind: "compile", Expr: e, Extra: "deep"})
		}
	}
	for _, k := range []int{2, 5, 10, 20, 30, 40, 60, 100} {
		for _, e := range chainFamilies(k) {
			g.add(&Case{Kind: "compile", Expr: e, Extra: "deep"})
		}
	}
	// Compile consults the pattern cache for constant patterns: histories of compilations over a small cache (filled,
	// reset, failing patterns) — every one of them has to return
	genRxCache(g, g.scale(300, 3000))
}

var soupTokens = []string{"a", "b", "p:a", "*", "@", "k", ".", "..", "/", "//", "[", "]", "(", ")", ",", "|", "+", "-", "=", "!=", "<", "<=", ">", ">=", "and", "or", "div", "mod",
	"1", "2.5", "'x'", "\"\"", "$", "v", "child::", "ancestor::", "attribute::", "namespace::", "self::", "following::", "foo::", "node()", "text()", "comment()", "processing-instruction()",
	"count(", "not(", "string(", "position()", "last()", "true()", "false()", "name(", "sum(", "concat(", "contains(", "substring(", "round(", "number(", "boolean(", "reverse(", "string-join(",
	"lower-case(", "starts-with(", "ends-with(", "translate(", "normalize-space(", "string-length(", "local-name(", "namespace-uri(", "floor(", "ceiling(", "matches(", "replace(", "substring-before(", "substring-after(", "unknownfn("}

func genTokenSoup(r *rng, n int) string {
	var parts []string
	for i := 0; i < n; i++ {
		parts = append(parts, r.pick(soupTokens))
	}
	return strings.Join(parts, r.pick([]string{"", " "}))
}

// ---- C15: typed token-level generator: every function with 0..4 arguments of every value type ----
var fnNames = []string{"count", "sum", "not", "boolean", "string", "number", "name", "local-name", "namespace-uri", "concat", "contains", "starts-with", "ends-with",
	"substring", "substring-before", "substring-after", "string-length", "normalize-space", "translate", "lower-case", "string-join", "floor", "ceiling", "round",
	"position", "last", "true", "false", "reverse", "matches", "replace"}

func genAnyTyped(r *rng, depth int) string {
	if depth <= 0 {
		switch r.intn(10) {
		case 9:
			return r.pick([]string{"0 div 0", "1 div 0", "-1 div 0", "number('x')", "-0", "1e0", "99999999999999999999", "0.0000000001"})
		case 0:
			return r.pick(numLits)
		case 1:
			if r.chance(1, 4) {
				return r.pick([]string{"'é'", "'aé'", "'ßb'", "'中'", "'é中a'", "'\u00a0'"})
			}
			return r.pick(strLits)
		case 2:
			return r.pick([]string{"true()", "false()"})
		case 3:
			return "$" + r.pick([]string{"x", "p:v"})
		case 4:
			return r.pick([]string{"position()", "last()", "string()", "number()", "name()", "local-name()", "namespace-uri()", "normalize-space()", "string-length()"})
		case 5:
			return r.pick(axes12) + "::" + r.pick(nodeTests)
		case 6:
			return r.pick([]string{"namespace::*", "namespace::a", "processing-instruction()", "processing-instruction('x')"})
		default:
			return genRelPath(r)
		}
	}
	a := func() string { return genAnyTyped(r, depth-1) }
	switch r.intn(12) {
	case 0, 1, 2:
		n := r.intn(5)
		var args []string
		for i := 0; i < n; i++ {
			args = append(args, a())
		}
		return r.pick(fnNames) + "(" + strings.Join(args, ", ") + ")"
	case 3:
		return a() + " " + r.pick(binOps) + " " + a()
	case 4:
		return a() + " " + r.pick([]string{"=", "!=", "<", ">", "mod", "div", "|", "and"}) + " " + a()
	case 5:
		return "(" + a() + ")"
	case 6:
		return "-" + a()
	case 7:
		return a() + "[" + a() + "]"
	case 8:
		return "(" + a() + ")/" + genRelPath(r)
	case 9:
		return "(" + a() + ")[" + a() + "]"
	case 10:
		return genRelPath(r) + "[" + a() + "][" + a() + "]"
	default:
		return a() + "/" + genRelPath(r)
	}
}

func genC15(g *genCtx) {
	r := g.r
	pool := docPool(r, plainProfile, 4, 2, g.scale(40, 150), 14)
	fixed := []string{"1 mod 0", "true() = 1", "1 = 1 = 1", "round(2.5) = 3", "$x/a", "string()", "(1=1)/zzz", "b > 10", "substring('12345',3,10)", "1 = true()",
		"'a' = true()", "//a = true()", "true() != //a", "round(//a) > 1", "number()", "a[$x]", "namespace::*", "a/namespace::b", "count($x)", "-$x", "$x | a",
		"(1 = 1)/a", "(1 < 2)//a", "('a')/b", "(1)/b", "count(1)", "sum('x')", "not(1)", "0 mod 1", "5 mod -2", "-5 mod 2", "5.5 mod 2", "1 mod 0.5", "(0 div 0) mod 2",
		"(1 div 0) mod 2", "string-length()", "normalize-space()", "name(1)", "local-name('a')", "round('x')", "floor(//zzz)", "reverse(1)", "reverse('x')/a", "string-join(1, ',')",
		"translate(1,2,3)", "contains(1,'1')", "starts-with('a', 1)", "substring('a', 'b')", "substring(1, 1)", "concat(1, 2)", "position() = true()", "last() | a", "1 | 2", "'a' | b",
		"substring('12345', 1, 0 div 0)", "substring('12345', 2, number('x'))", "substring('12345', -1 div 0, 1 div 0)", "substring('12345', 0 div 0)",
		"substring('12345', 1 div 0, 1)", "substring('x', -1 div 0)", "a[0 div 0]", "a[1 div 0]", "(a)[-1 div 0]", "round(0 div 0)", "round(1 div 0)", "floor(-1 div 0)",
		"string-length(substring('abc', 0 div 0, 1))", "translate('abc', 'ab', '')", "translate('', '', 'x')", "concat('a', 0 div 0)", "matches('a', string(//a))", "replace('a', string(@k), 'x')",
		"translate('abc', 'abc', 'é')", "translate('aé', 'éa', 'x')", "translate(string(.), 'ab', 'ß')", "substring('héllo', 2, 3)", "string-length('中文')", "contains('é', 'é')",
		"substring-after('aéb', 'é')", "lower-case('ÀB')", "normalize-space(' é ')", "concat('é', 'ß')", "starts-with('éa', 'é')", "ends-with('aé', 'é')", "//*[. = 'é']",
		"replace('abc', '(x', 'y')", "replace('abc', concat('[a', ''), 'y')", "matches('abc', concat('(x', ''))", "matches('a', concat('*', 'a'))",
		"replace(string(.), 'a{2,1}', '-')", "//*[matches(local-name(), concat('(', local-name()))]", "count(//*[replace(local-name(), '[', '') = ''])",
		"true() or $x", "a[true() = 1]", "a[round(1)]", "a[round(1.2) = 1]", "(a)[round(1)]", "boolean(round(0))", "string(round(2.5))", "round(2.5) + 1", "number(true())", "sum(true())"}
	for _, e := range fixed {
		for k := 0; k < 3; k++ {
			d := pool[r.intn(len(pool))]
			g.add(&Case{Kind: "eval", Doc: d, Ctx: pickNodeCtx(r, d), Expr: e})
			g.add(&Case{Kind: "sel", Doc: d, Ctx: pickNodeCtx(r, d), Expr: e})
		}
	}
	for i := 0; i < g.scale(40000, 400000); i++ {
		d := pool[r.intn(len(pool))]
		kind := "eval"
		if r.chance(1, 3) {
			kind = "sel"
		}
		var e string
		if r.chance(1, 6) {
			e = genTokenSoup(r, 2+r.intn(6))
		} else {
			e = genAnyTyped(r, 1+r.intn(3))
		}
		g.add(&Case{Kind: kind, Doc: d, Ctx: pickCtx(r, d), Expr: e})
	}
	// the cost of drawing the nodes of `*[p][p]…[p]` must not double with every predicate (known finding: it does when
	// p calls position() or last(): the query tree is copied once per reference to the filtered step)
	dG := Doc{{Depth: 0, Kind: 'r'}, {Depth: 1, Kind: 'e', Name: "a"}, {Depth: 2, Kind: 'e', Name: "b"}, {Depth: 2, Kind: 'e', Name: "b"}, {Depth: 2, Kind: 'e', Name: "b"}}
	for _, pr := range []string{"[position()=1]", "[last()]", "[last()=3]", "[position() < 4]", "[@k or true()]", "[1]", "[b or not(b)]", "[count(*) = 0]"} {
		g.add(&Case{Kind: "growth", Doc: dG, Ctx: Ref{1, -1}, Expr: pr, Extra: "6;12"})
	}
}

// ---- C16 ----
// histories over the exported pattern cache: swaps (capacity, customised loader), run-time and literal
// patterns, valid and invalid, repeated — the loader must be called exactly on misses, errors are not
// remembered, the compilation used is the current cache's
func genRxCache(g *genCtx, n int) {
	r := g.r
	valid := []string{"abc", "a|b", "^a.c$", "b+", "[a-c]x", "ABC", "x?y", "(ab)+"}
	invalid := []string{"(x", "[a", "*a", "a{2,1}", "(?P<n", "x)"}
	strs := []string{"abc", "ABC", "aXc", "bbb", "ax", "y", "abab", ""}
	for i := 0; i < n; i++ {
		var ops []string
		ops = append(ops, fmt.Sprintf("W%d,%d", r.intn(4), r.intn(2)))
		for k := 0; k < 3+r.intn(8); k++ {
			if r.chance(1, 5) {
				ops = append(ops, fmt.Sprintf("W%d,%d", r.intn(4), r.intn(2)))
				continue
			}
			v, p := 1, r.pick(valid)
			if r.chance(1, 4) {
				v, p = 0, r.pick(invalid)
			}
			switch r.intn(4) {
			case 0:
				ops = append(ops, fmt.Sprintf("L%d,%s", v, hx(p)))
			case 1:
				ops = append(ops, fmt.Sprintf("R%d,%s,%s", v, hx(p), hx(r.pick(strs))))
			default:
				ops = append(ops, fmt.Sprintf("M%d,%s,%s", v, hx(p), hx(r.pick(strs))))
			}
		}
		g.add(&Case{Kind: "rxcache", Extra: strings.Join(ops, ";")})
	}
}

func genC16(g *genCtx) {
	r := g.r
	genRxCache(g, g.scale(1500, 15000))
	keys := []string{"k0", "k1", "k2", "f0", "k3"}
	maxLen := g.scale(5, 7)
	nk := g.scale(4, 5)
	for capv := 0; capv <= 4; capv++ {
		var rec func(seq []string)
		rec = func(seq []string) {
			if len(seq) > 0 {
				g.add(&Case{Kind: "cache", Extra: fmt.Sprintf("%d;%s", capv, strings.Join(seq, ","))})
			}
			if len(seq) == maxLen {
				return
			}
			for _, k := range keys[:nk] {
				rec(append(append([]string(nil), seq...), k))
			}
		}
		// exhaustive sequences only as leaves of maximal length plus all prefixes implied: emit just maximal ones
		_ = rec
		var full func(seq []string)
		full = func(seq []string) {
			if len(seq) == maxLen {
				g.add(&Case{Kind: "cache", Extra: fmt.Sprintf("%d;%s", capv, strings.Join(seq, ","))})
				return
			}
			for _, k := range keys[:nk] {
				full(append(append([]string(nil), seq...), k))
			}
		}
		full(nil)
	}
	// long random sequences, larger capacities
	for i := 0; i < g.scale(400, 4000); i++ {
		capv := r.intn(9)
		n := 10 + r.intn(60)
		var seq []string
		for k := 0; k < n; k++ {
			if r.chance(1, 8) {
				seq = append(seq, fmt.Sprintf("f%d", r.intn(3)))
			} else {
				seq = append(seq, fmt.Sprintf("k%d", r.intn(12)))
			}
		}
		g.add(&Case{Kind: "cache", Extra: fmt.Sprintf("%d;%s", capv, strings.Join(seq, ","))})
	}
	// concurrent misses on distinct keys around the capacity boundary (the unlocked window between lookup and store)
	for capv := 0; capv <= 4; capv++ {
		for _, gor := range []int{2, 3, 5} {
			g.add(&Case{Kind: "cachec", Extra: fmt.Sprintf("%d;%d;%d", capv, gor, g.scale(3, 10))})
		}
	}
	// regex functions against Go regexp
	atoms := []string{"a", "b", "c", ".", "[ab]", "[^a]", "\\d", "x", "\\p{L}", "\\pL", "\\P{N}", "[\\p{Lu}b]", "\\w", "[[:alpha:]]", "\\x61", "(?i:A)", "\\Qa.\\E", "a{1,2}", "\\bab"}
	genRe := func() string {
		var gen func(d int) string
		gen = func(d int) string {
			if d <= 0 {
				return r.pick(atoms)
			}
			switch r.intn(8) {
			case 0:
				return "(" + gen(d-1) + ")"
			case 1:
				return gen(d-1) + "|" + gen(d-1)
			case 2:
				return gen(d-1) + r.pick([]string{"*", "+", "?"})
			case 3:
				return "(" + gen(d-1) + ")(" + gen(d-1) + ")"
			case 4:
				return "^" + gen(d-1)
			case 5:
				return gen(d-1) + "$"
			default:
				return gen(d-1) + gen(d-1)
			}
		}
		s := gen(r.intn(4))
		if r.chance(1, 12) {
			s += r.pick([]string{"(", "[", "*", "\\", "(?P<", ")"})
		}
		return s
	}
	// the pattern is an argument like any other: computed per node, in whatever syntactic form it is written
	rxPats := []string{"^a", "b$", "a|b", "^$", "x+", "[a-c]", "z", ".", "^ab", "c"}
	rxVals := []string{"abc", "xyz", "", "b", "ab", "xx", "cab", "a"}
	for i := 0; i < g.scale(1500, 15000); i++ {
		d := Doc{{Depth: 0, Kind: 'r'}, {Depth: 1, Kind: 'e', Name: "r"}}
		for k, n := 0, 2+r.intn(6); k < n; k++ {
			d = append(d, Rec{Depth: 2, Kind: 'e', Name: "e", Attrs: []Attr{{Name: "v", Val: r.pick(rxVals)}, {Name: "p", Val: r.pick(rxPats)}}})
		}
		pa := r.pick([]string{"string(@p)", "(string(@p))", "concat(@p, '')", "(concat(@p, ''))", "((string(@p)))", "string((@p))", "substring(@p, 1)", "(substring(@p, 1))", "normalize-space(@p)"})
		if r.chance(1, 2) {
			g.add(&Case{Kind: "rxsel", Doc: d, Ctx: Ref{0, -1}, Expr: "//e[matches(@v, " + pa + ")]", Extra: "m"})
		} else {
			g.add(&Case{Kind: "rxsel", Doc: d, Ctx: Ref{0, -1}, Expr: "//e[replace(@v, " + pa + ", '#') != @v]", Extra: "r"})
		}
	}
	// replacement templates against the template model and its specification (kind tmpl): the pattern matches the
	// whole subject exactly once; the groups of that match (from Go regexp) travel with the case
	type pat struct{ p, s string }
	pats := []pat{
		{"abc", "abc"}, {"(a)bc", "abc"}, {"a(b)?c", "ac"}, {"a(b)?c", "abc"}, {"(?P<n>a)bc", "abc"}, {"(a)(b)c", "abc"},
		{"(a)|(b)", "b"}, {"(a)(b)(c)", "abc"}, {"(?P<x>a)(?P<y1>b)(?P<_z>c)", "abc"}, {"(?P<1x>a)(b)", "ab"},
		{"(?P<x>a)|(?P<y>b)", "b"}, {"((a)(b))c", "abc"}, {"(a*)(b*)", "aab"}, {"()(a)", "a"},
		{"(a)(b)(c)(d)(e)(f)(g)(h)(i)", "abcdefghi"}, {"(a)(b)(c)(d)(e)(f)(g)(h)(i)(j)", "abcdefghij"},
		{"(a)(b)(c)(d)(e)(f)(g)(h)(i)(j)(k)", "abcdefghijk"}, {"(a)(b)(c)(d)(e)(f)(g)(h)(i)(j)(k)(l)", "abcdefghijkl"},
		{"(a)(b)(c)(d)(e)(f)(g)(h)(i)(j)?(k)?(l)", "abcdefghil"}, {"(?P<a0>a)(b)(c)(d)(e)(f)(g)(h)(i)(?P<x>j)(k)", "abcdefghijk"},
	}
	talpha := []string{"$", "$", "$", "$", "0", "1", "1", "2", "3", "9", "{", "}", "x", "y", "_", "n", "a0", "\\", " ", "-", "$1", "${", "$$", "10", "11", "12", "01"}
	dT := Doc{{Depth: 0, Kind: 'r'}}
	for i := 0; i < g.scale(6000, 60000); i++ {
		pt := r.intn(len(pats))
		p0 := pats[pt]
		re := regexp.MustCompile(p0.p)
		ms := re.FindAllStringSubmatchIndex(p0.s, -1)
		if len(ms) != 1 || ms[0][0] != 0 || ms[0][1] != len(p0.s) {
			continue
		}
		var ts, ns []string
		for gi := 0; gi <= re.NumSubexp(); gi++ {
			if ms[0][2*gi] < 0 {
				ts = append(ts, "-")
			} else {
				ts = append(ts, "x"+hx(p0.s[ms[0][2*gi]:ms[0][2*gi+1]]))
			}
			ns = append(ns, "x"+hx(re.SubexpNames()[gi]))
		}
		var tb strings.Builder
		for n := r.intn(7); n > 0; n-- {
			tb.WriteString(r.pick(talpha))
		}
		tm := tb.String()
		g.add(&Case{Kind: "tmpl", Doc: dT, Ctx: Ref{0, -1}, Expr: "replace('" + p0.s + "','" + p0.p + "','" + tm + "')",
			Extra: hx(tm) + ";" + fmt.Sprint(re.NumSubexp()) + ";" + strings.Join(ts, "|") + ";" + strings.Join(ns, "|")})
	}
	subj := []string{"", "a", "ab", "abc", "aab", "xbx", "1a2", "abab", "cab"}
	repl := []string{"", "x", "$1", "$2", "[$1]", "$1$2", "$12", "$10", "a$1b", "$1a", "$$", "$0", "${1}", "\\$1", "$", "$3", "$11", "x$1$1", "$$1", "$$$1", "$01", "$1x", "${1}x", "$$$$2"}
	d := Doc{{Depth: 0, Kind: 'r'}}
	for i := 0; i < g.scale(8000, 80000); i++ {
		s, p := r.pick(subj), genRe()
		rp := "-"
		if r.chance(1, 2) {
			rp = hx(r.pick(repl))
		}
		g.add(&Case{Kind: "regex", Doc: d, Ctx: Ref{0, -1}, Extra: hx(s) + "," + hx(p) + "," + rp})
	}
}

// ---- C17: damage operators on valid expressions ----
func genValidForDamage(r *rng) string {
	switch r.intn(10) {
	case 8:
		// a filter expression (parenthesised, with or without predicates) continued by a path
		return "(" + r.pick([]string{genPathPF(r, 2, nodeTests), "a | b", "//a", genFilteredPath(r, 0)}) + ")" + r.pick([]string{"", "[1]", "[last()]", "[@k]", "[1][@k]"}) +
			r.pick([]string{"/", "//"}) + genRelPath(r)
	case 9:
		return "(" + genPathPF(r, 1, nodeTests) + ")/" + r.pick(nodeTests) + r.pick([]string{"", " | a", " = 1", "[1]"})
	case 0:
		return genFilteredPath(r, 1)
	case 1:
		return genPositional(r)
	case 2:
		return genCmpExpr(r)
	case 3:
		return genNumExpr(r, 2)
	case 4:
		return genStrExpr(r, 2)
	case 5:
		return "count(" + genFilteredPath(r, 0) + ") + sum(" + genRelPath(r) + ")"
	case 6:
		return "(" + genPathPF(r, 2, nodeTests) + ")[" + genBoolPred(r, 1) + "] | " + genPathPF(r, 1, nodeTests)
	default:
		return "concat(\"a\", 'b', string(" + genRelPath(r) + "))"
	}
}

// damaged returns (class, damaged string) for every applicable position of every damage operator.
func damaged(e string) [][2]string {
	var out [][2]string
	add := func(c, s string) { out = append(out, [2]string{c, s}) }
	inStr := byte(0)
	type pos struct {
		i  int
		ch byte
	}
	var toks []pos
	for i := 0; i < len(e); i++ {
		ch := e[i]
		if inStr != 0 {
			if ch == inStr {
				inStr = 0
				toks = append(toks, pos{i, 'Q'}) // closing quote
			}
			continue
		}
		if ch == '\'' || ch == '"' {
			inStr = ch
			toks = append(toks, pos{i, 'q'}) // opening quote
			continue
		}
		toks = append(toks, pos{i, ch})
	}
	trimEnd := func(s string) string { return strings.TrimRight(s, " \t\n") }
	for _, t := range toks {
		i := t.i
		switch t.ch {
		case '[', '(', ',', 'q':
			add("cut-after-"+string(t.ch), e[:i+1])
		case '/':
			if i+1 < len(e) && e[i+1] == '/' {
				continue
			}
			// a path that *starts* with "/" is cut to "/", which is itself a valid expression:
			// only a slash that follows a step is inside a construct
			k := i - 1
			if k >= 0 && e[k] == '/' {
				k--
			}
			for k >= 0 && (e[k] == ' ' || e[k] == '\t' || e[k] == '\n') {
				k--
			}
			if k < 0 || !(isNameByte(e[k]) || e[k] == ')' || e[k] == ']' || e[k] == '*' || e[k] == '\'' || e[k] == '"') {
				continue
			}
			if k >= 2 && (strings.HasSuffix(e[:k+1], " and") || strings.HasSuffix(e[:k+1], " or") || strings.HasSuffix(e[:k+1], " div") || strings.HasSuffix(e[:k+1], " mod")) {
				continue
			}
			add("cut-after-slash", e[:i+1])
		case '+', '=', '|', '<', '>':
			if i+1 < len(e) && e[i+1] == '=' {
				continue
			}
			add("cut-after-op", e[:i+1])
		case '*':
			// '*' is the multiply operator only directly after an operand; after an operator (word or
			// symbol), '(', '[', ',' , '/', '@' or '::' it is a name test, and cutting after it leaves a valid step
			if i > 0 && e[i-1] == ' ' && i+1 < len(e) && e[i+1] == ' ' {
				k := i - 1
				for k >= 0 && e[k] == ' ' {
					k--
				}
				prev := e[:k+1]
				isOpWord := false
				for _, w := range []string{"and", "or", "div", "mod"} {
					if strings.HasSuffix(prev, w) && (len(prev) == len(w) || !isNameByte(prev[len(prev)-len(w)-1])) {
						isOpWord = true
					}
				}
				if k >= 0 && !isOpWord && !strings.ContainsRune("(/[,|+-=<>@:!*", rune(e[k])) {
					add("cut-after-op", e[:i+1])
				}
			}
		case '-':
			if i > 0 && e[i-1] == ' ' && i+1 < len(e) && e[i+1] == ' ' {
				add("cut-after-op", e[:i+1])
			}
		case ']', ')', 'Q':
			add("delete-closer-"+string(t.ch), e[:i]+e[i+1:])
		}
	}
	for _, w := range []string{" and ", " or ", " div ", " mod "} {
		for from := 0; ; {
			k := strings.Index(e[from:], w)
			if k < 0 {
				break
			}
			// skip occurrences inside string literals
			pre := e[:from+k]
			if strings.Count(pre, "'")%2 == 0 && strings.Count(pre, "\"")%2 == 0 {
				add("cut-after-op", trimEnd(e[:from+k+len(w)]))
			}
			from += k + len(w)
		}
	}
	for _, fn := range fnNames {
		k := strings.Index(e, fn+"(")
		if k >= 0 && (k == 0 || !isNameByte(e[k-1])) {
			pre := e[:k]
			if strings.Count(pre, "'")%2 == 0 && strings.Count(pre, "\"")%2 == 0 {
				add("rename-function", e[:k]+"zz"+fn+e[k+len(fn):])
			}
		}
	}
	for _, ax := range axes12 {
		k := strings.Index(e, ax+"::")
		if k >= 0 && (k == 0 || !isNameByte(e[k-1])) {
			pre := e[:k]
			if strings.Count(pre, "'")%2 == 0 && strings.Count(pre, "\"")%2 == 0 {
				add("unknown-axis", e[:k]+"zz"+ax+e[k+len(ax):])
			}
		}
	}
	return out
}

func isNameByte(b byte) bool {
	return b >= 'a' && b <= 'z' || b >= 'A' && b <= 'Z' || b >= '0' && b <= '9' || b == '-' || b == '_' || b == '.'
}

var minArgs = map[string]int{"count": 1, "sum": 1, "not": 1, "concat": 2, "contains": 2, "starts-with": 2, "ends-with": 2, "substring": 2, "substring-before": 2,
	"substring-after": 2, "string-length": 1, "translate": 3, "lower-case": 1, "string-join": 2, "floor": 1, "ceiling": 1, "round": 1, "reverse": 1, "matches": 2, "replace": 3}

func genC17(g *genCtx) {
	r := g.r
	for i := 0; i < g.scale(2500, 25000); i++ {
		e := genValidForDamage(r)
		g.add(&Case{Kind: "compile", Expr: e, Extra: "valid"})
		for _, dm := range damaged(e) {
			g.add(&Case{Kind: "compile", Expr: dm[1], Extra: "damaged:" + dm[0]})
		}
	}
	// removing required arguments
	for fn, n := range minArgs {
		for k := 0; k < n; k++ {
			args := make([]string, k)
			for j := range args {
				args[j] = r.pick([]string{"'a'", "1", "a", "//b"})
			}
			e := fn + "(" + strings.Join(args, ", ") + ")"
			g.add(&Case{Kind: "compile", Expr: e, Extra: "damaged:missing-args"})
			g.add(&Case{Kind: "compile", Expr: "a[" + e + "]", Extra: "damaged:missing-args"})
		}
	}
	// node-type tests with an argument they cannot take (only processing-instruction takes one, a string literal)
	for _, e := range []string{"processing-instruction(1)", "processing-instruction(a)", "text(1)", "text('x')", "node('x')", "node(a)", "comment(a)", "comment('x')", "processing-instruction('x', 'y')",
		"processing-instruction(", "processing-instruction('x'", "processing-instruction('x',)", "text(", "node(,)", "processing-instruction(@a)", "processing-instruction($v)"} {
		for _, w := range []string{"%s", "//%s", "a/%s", "a[%s]", "child::%s", "%s/b"} {
			g.add(&Case{Kind: "compile", Expr: fmt.Sprintf(w, e), Extra: "damaged:node-type-argument"})
		}
	}
	// malformed qualified names
	for _, e := range []string{"a:", "a: b", "a:/b", "a :b", "p:a:b", ":a", "a/:b", "a[p:]", "@p:", "child::p:", "a:1", "a:'x'", "a:(b)", "p: *", "a:::b", "::a", "a::", "child::", "child:: ", "@", "a/@", "a[@]"} {
		g.add(&Case{Kind: "compile", Expr: e, Extra: "damaged:bad-qname"})
	}
}
