package main

import (
	"fmt"
	"strings"
)

// SplitMix64: every random choice of the generators derives from one state.
type rng struct{ s uint64 }

func newRng(seed uint64) *rng { return &rng{s: seed*0x9E3779B97F4A7C15 + 0x1234567} }
func (r *rng) next() uint64 {
	r.s += 0x9E3779B97F4A7C15
	z := r.s
	z = (z ^ (z >> 30)) * 0xBF58476D1CE4E5B9
	z = (z ^ (z >> 27)) * 0x94D049BB133111EB
	return z ^ (z >> 31)
}
func (r *rng) intn(n int) int {
	if n <= 0 {
		return 0
	}
	return int(r.next() % uint64(n))
}
func (r *rng) pick(xs []string) string  { return xs[r.intn(len(xs))] }
func (r *rng) chance(num, den int) bool { return r.intn(den) < num }
func (r *rng) fork() *rng               { return newRng(r.next()) }

// allShapes enumerates every depth sequence of a tree with n nodes (root included).
func allShapes(n int) [][]int {
	var out [][]int
	var rec func(cur []int)
	rec = func(cur []int) {
		if len(cur) == n {
			out = append(out, append([]int(nil), cur...))
			return
		}
		last := cur[len(cur)-1]
		for d := 1; d <= last+1; d++ {
			rec(append(cur, d))
		}
	}
	rec([]int{0})
	return out
}

func randomShape(r *rng, n int) []int {
	out := []int{0}
	mode := r.intn(4) // 0 balanced, 1 deep, 2 wide, 3 mixed
	for len(out) < n {
		last := out[len(out)-1]
		var d int
		switch mode {
		case 1:
			if r.chance(3, 4) {
				d = last + 1
			} else {
				d = 1 + r.intn(last+1)
			}
		case 2:
			if r.chance(3, 4) && last >= 1 {
				d = last
			} else {
				d = 1 + r.intn(last+1)
			}
		default:
			d = 1 + r.intn(last+1)
		}
		out = append(out, d)
	}
	return out
}

// Profile controls labelling.
type Profile struct {
	Names   []string
	AttrN   []string
	Values  []string
	NS      bool // use prefixes / namespace URIs
	TextPct int
	CommPct int
	AttrPct int
}

// (incl. numbers padded with characters that Go's unicode.IsSpace accepts but XML/XPath whitespace does not —
// VT and FF; the non-ASCII ones (NBSP, NEL, EM SPACE) are left out: the string functions of the package count
// bytes, and the properties speak about ASCII strings)
var valueAlphabet = []string{"", "1", "2", "10", "x", "1x", " 12 ", "1e3", "-3", "abc", "2.5", "0", "\v9", "3\f", "\t4\n"}
var plainProfile = Profile{Names: []string{"a", "b", "c"}, AttrN: []string{"k", "m", "a"}, Values: valueAlphabet, TextPct: 25, CommPct: 8, AttrPct: 40}
var collideProfile = Profile{Names: []string{"a", "b", "a-1", "a1", "a-1-2"}, AttrN: []string{"k", "a", "b"}, Values: []string{"1", "2", "a", "a-1", "x", ""}, TextPct: 25, CommPct: 10, AttrPct: 50}
var nsProfile = Profile{Names: []string{"a", "b"}, AttrN: []string{"k", "a"}, Values: []string{"1", "x", ""}, NS: true, TextPct: 15, CommPct: 5, AttrPct: 50}
var numericProfile = Profile{Names: []string{"a", "b", "c"}, AttrN: []string{"k", "m"}, Values: []string{"1", "2", "10", "2.5", "-3", "0", "7", " 7 ", "\v7", "\t7"}, TextPct: 35, CommPct: 3, AttrPct: 40}

type nsChoice struct{ pfx, uri string }

var nsChoices = []nsChoice{{"", ""}, {"", ""}, {"p", "urn:p"}, {"q", "urn:p"}, {"p", "urn:q"}, {"", "urn:d"}, {"q", "urn:q"}}

func label(r *rng, depths []int, pf Profile) Doc {
	d := make(Doc, len(depths))
	d[0] = Rec{Depth: 0, Kind: 'r'}
	for i := 1; i < len(depths); i++ {
		rec := Rec{Depth: depths[i]}
		hasChild := i+1 < len(depths) && depths[i+1] > depths[i]
		roll := r.intn(100)
		switch {
		case !hasChild && roll < pf.TextPct:
			rec.Kind = 't'
			rec.Data = r.pick(pf.Values)
		case !hasChild && roll < pf.TextPct+pf.CommPct:
			rec.Kind = 'c'
			rec.Data = r.pick(pf.Values)
		default:
			rec.Kind = 'e'
			rec.Name = r.pick(pf.Names)
			if pf.NS {
				c := nsChoices[r.intn(len(nsChoices))]
				rec.Pfx, rec.NS = c.pfx, c.uri
			}
			if r.intn(100) < pf.AttrPct {
				na := 1 + r.intn(2)
				used := map[string]bool{}
				for k := 0; k < na; k++ {
					a := Attr{Name: r.pick(pf.AttrN), Val: r.pick(pf.Values)}
					if pf.NS && r.chance(1, 3) {
						c := nsChoices[2+r.intn(len(nsChoices)-2)]
						if c.pfx != "" {
							a.Pfx, a.NS = c.pfx, c.uri
						}
					}
					key := a.Pfx + ":" + a.Name
					if used[key] {
						continue
					}
					used[key] = true
					rec.Attrs = append(rec.Attrs, a)
				}
			}
		}
		d[i] = rec
	}
	return d
}

// docPool builds the documents a generator draws from: every shape up to maxExh nodes under
// `labelings` labelings each, plus `nRandom` larger random documents.
func docPool(r *rng, pf Profile, maxExh, labelings, nRandom, maxRandom int) []Doc {
	var pool []Doc
	for n := 1; n <= maxExh; n++ {
		for _, sh := range allShapes(n) {
			for l := 0; l < labelings; l++ {
				pool = append(pool, label(r, sh, pf))
			}
		}
	}
	for i := 0; i < nRandom; i++ {
		n := maxExh + 1 + r.intn(maxRandom-maxExh)
		pool = append(pool, label(r, randomShape(r, n), pf))
	}
	return pool
}

func pickCtx(r *rng, d Doc) Ref {
	if r.chance(1, 4) {
		return Ref{0, -1}
	}
	refs := d.AllRefs()
	return refs[r.intn(len(refs))]
}

func pickNodeCtx(r *rng, d Doc) Ref {
	if r.chance(1, 4) {
		return Ref{0, -1}
	}
	return Ref{r.intn(len(d)), -1}
}

var axes12 = []string{"child", "descendant", "descendant-or-self", "parent", "ancestor", "ancestor-or-self",
	"following", "following-sibling", "preceding", "preceding-sibling", "attribute", "self"}
var nodeTests = []string{"a", "b", "*", "node()", "text()", "comment()"}

func stepStr(r *rng, axis, test string) string {
	if r != nil && r.chance(1, 3) {
		switch {
		case axis == "child":
			return test
		case axis == "attribute":
			return "@" + test
		case axis == "self" && test == "node()":
			return "."
		case axis == "parent" && test == "node()":
			return ".."
		}
	}
	return axis + "::" + test
}

// genPathPF builds a predicate-free location path with n steps.
func genPathPF(r *rng, n int, tests []string) string {
	head := []string{"", "", "/", "//"}[r.intn(4)]
	var sb strings.Builder
	sb.WriteString(head)
	for i := 0; i < n; i++ {
		if i > 0 {
			if r.chance(1, 4) {
				sb.WriteString("//")
			} else {
				sb.WriteString("/")
			}
		}
		sb.WriteString(stepStr(r, r.pick(axes12), r.pick(tests)))
	}
	return sb.String()
}

// genFlatPath: child/attribute/self steps from the context, or one descendant step.
func genFlatPath(r *rng) string {
	if r.chance(1, 4) {
		t := r.pick([]string{"a", "b", "*", "node()", "text()"})
		return r.pick([]string{"//" + t, "descendant::" + t, ".//" + t, "/descendant::" + t})
	}
	n := 1 + r.intn(3)
	var parts []string
	for i := 0; i < n; i++ {
		switch {
		case i == n-1 && r.chance(1, 4):
			parts = append(parts, r.pick([]string{"@k", "@*", "@a", "attribute::m"}))
		case i < n-1 && r.chance(1, 10):
			// an attribute step in the middle: what follows starts from attribute nodes
			parts = append(parts, r.pick([]string{"@*", "@k", "attribute::node()"}))
		case r.chance(1, 6):
			parts = append(parts, r.pick([]string{".", "self::a", "self::*", "self::node()"}))
		default:
			parts = append(parts, r.pick([]string{"a", "b", "*", "node()", "text()", "child::a", "child::c"}))
		}
	}
	head := ""
	if r.chance(1, 4) {
		head = "/"
	}
	return head + strings.Join(parts, "/")
}

var strLits = []string{"''", "'1'", "'2'", "'x'", "'1x'", "'abc'", "'a'", "'10'", "' 12 '", "'-3'"}
var numLits = []string{"0", "1", "2", "3", "10", "2.5", "-1", ".5", "7"}

// genRelPath: short relative/absolute path usable inside predicates and as operands.
func genRelPath(r *rng) string {
	switch r.intn(10) {
	case 0:
		return "@" + r.pick([]string{"k", "m", "a", "*"})
	case 1:
		return r.pick([]string{".", "..", "text()", "*", "node()"})
	case 2:
		return r.pick([]string{"//a", "//b", "/a", "/*/b", "//@k"})
	case 3:
		return ".//" + r.pick([]string{"a", "b", "*", "text()"})
	default:
		n := 1 + r.intn(2)
		var parts []string
		for i := 0; i < n; i++ {
			parts = append(parts, stepStr(r, r.pick(axes12), r.pick(nodeTests)))
		}
		return strings.Join(parts, "/")
	}
}

// genBoolPred: a boolean-valued predicate body of the C02 fragment, nesting depth <= depth.
func genBoolPred(r *rng, depth int) string {
	p := func() string {
		if depth > 0 && r.chance(1, 3) {
			return genRelPathWithPred(r, depth-1)
		}
		return genRelPath(r)
	}
	switch r.intn(14) {
	case 0, 1, 2:
		return p()
	case 3:
		return p() + " = " + r.pick(strLits)
	case 4:
		return p() + " != " + r.pick(strLits)
	case 5:
		return p() + " " + r.pick([]string{">", "<", ">=", "<=", "=", "!="}) + " " + r.pick(numLits)
	case 6:
		return "not(" + genBoolPred(r, depth) + ")"
	case 7:
		return genBoolPred(r, depth) + " and " + genBoolPred(r, depth)
	case 8:
		return genBoolPred(r, depth) + " or " + genBoolPred(r, depth)
	case 9:
		return "count(" + p() + ") " + r.pick([]string{"=", ">", "<", ">=", "!="}) + " " + r.pick([]string{"0", "1", "2"})
	case 10:
		return "contains(" + p() + ", " + r.pick(strLits) + ")"
	case 11:
		return "starts-with(" + p() + ", " + r.pick(strLits) + ")"
	case 12:
		return "local-name() = " + r.pick([]string{"'a'", "'b'", "'k'", "''"})
	default:
		return r.pick(numLits) + " " + r.pick([]string{"<", "="}) + " " + p()
	}
}

func genRelPathWithPred(r *rng, depth int) string {
	return stepStr(r, r.pick(axes12), r.pick(nodeTests)) + "[" + genBoolPred(r, depth) + "]"
}

// genFilteredPath: a path whose steps carry boolean predicates (C02 fragment).
func genFilteredPath(r *rng, depth int) string {
	switch r.intn(8) {
	case 0:
		return "//*[" + genBoolPred(r, depth) + "]"
	case 1:
		return "//" + r.pick([]string{"a", "b"}) + "[" + genBoolPred(r, depth) + "]"
	case 2:
		return "(" + genPathPF(r, 1+r.intn(2), nodeTests) + ")[" + genBoolPred(r, depth) + "]"
	case 3:
		return genRelPathWithPred(r, depth) + "[" + genBoolPred(r, depth) + "]"
	default:
		n := 1 + r.intn(3)
		head := []string{"", "", "/", "//"}[r.intn(4)]
		var sb strings.Builder
		sb.WriteString(head)
		for i := 0; i < n; i++ {
			if i > 0 {
				if r.chance(1, 4) {
					sb.WriteString("//")
				} else {
					sb.WriteString("/")
				}
			}
			sb.WriteString(stepStr(r, r.pick(axes12), r.pick(nodeTests)))
			if r.chance(1, 2) || i == n-1 {
				sb.WriteString("[" + genBoolPred(r, depth) + "]")
			}
		}
		return sb.String()
	}
}

var posPreds = []string{"1", "2", "3", "position()=1", "position() = 2", "position()<3", "position()>1", "position()>=2", "position()<=2", "position()!=1",
	"last()", "position()=last()", "last()-1", "last() - 1", "position()<last()", "position()=last()-1"}

// genPositional: C03 fragment.
func genPositional(r *rng) string {
	name := func() string { return r.pick([]string{"a", "b", "*", "node()", "text()"}) }
	bools := func() string {
		s := ""
		for r.chance(1, 3) {
			s += "[" + genBoolPred(r, 0) + "]"
		}
		return s
	}
	step := func() string { return name() + "[" + r.pick(posPreds) + "]" + bools() }
	switch r.intn(11) {
	case 8:
		// a positional child step as an existence test inside another predicate
		return r.pick([]string{"//*", "//a", "/*/*", "*", "//b"}) + "[" + step() + "]"
	case 9:
		return r.pick([]string{"//*", "//a", "*"}) + "[" + step() + "/" + name() + "]" + r.pick([]string{"", "/" + step()})
	case 10:
		return r.pick([]string{"//*", "*"}) + "[not(" + step() + ")]"
	case 0:
		return "(" + genFlatPath(r) + ")[" + r.pick([]string{"1", "2", "3", "4"}) + "]"
	case 1:
		return "//" + step()
	case 2:
		return "//" + step() + "/" + step()
	case 3:
		return "/" + name() + "/" + step()
	case 4:
		return step() + "/" + name()
	case 5:
		return ".//" + name() + "/" + step()
	case 6:
		return "//" + name() + "[" + genBoolPred(r, 0) + "]/" + step()
	default:
		return step()
	}
}

func caseID(prop string, n int) string { return fmt.Sprintf("%s-%06d", prop, n) }

// genFlatFiltered: a flat path (child / attribute / self steps from the context node or the root) whose element steps may
// carry predicates of the C02 fragment — comparisons between paths and with literals (six operators), count and string
// tests: its result sequence is still the oracle's document-ordered list, so it can stand wherever a flat path can.
func genFlatFiltered(r *rng) string {
	n := 1 + r.intn(3)
	var parts []string
	pr := func() string {
		return r.pick([]string{"@k", "@k = @m", "@k != @a", "a = b", "* < @k", "@k >= '1'", "'2' > @a", "count(*) = 1", "count(@*) > 1", "contains(@k, '1')", "local-name() = 'a'",
			"not(count(*))", "b < c or @k", "not(@k)", "@k = '1'", "text()", "starts-with(@k, @m)"})
	}
	for i := 0; i < n; i++ {
		if i == n-1 && r.chance(1, 4) {
			parts = append(parts, r.pick([]string{"@k", "@*", "@a"}))
			continue
		}
		st := r.pick([]string{"a", "b", "*", "node()", "child::a", "self::*", "."})
		if st != "." && r.chance(1, 2) {
			st += "[" + pr() + "]"
		}
		parts = append(parts, st)
	}
	head := ""
	if r.chance(1, 4) {
		head = "/"
	}
	return head + strings.Join(parts, "/")
}
