package main

import (
	"fmt"
	"strings"
)

type genCtx struct {
	prop  string
	tier  string
	r     *rng
	cases []*Case
}

func (g *genCtx) add(c *Case) {
	c.ID = caseID(g.prop, len(g.cases))
	g.cases = append(g.cases, c)
	// the builder model is compared with the real builder (plan dumps) on a quarter of the path expressions
	// of C01/C02/C03/C11 and on an eighth of the expressions of the other evaluation properties
	every := 8
	if g.prop == "C01" || g.prop == "C02" || g.prop == "C03" || g.prop == "C11" {
		every = 4
	}
	if (c.Kind == "sel" || c.Kind == "eval") && g.prop != "C06" && g.prop != "C16" && g.prop != "C17" && len(g.cases)%every == 0 {
		pc := &Case{Kind: "plan", NS: c.NS, Expr: c.Expr}
		pc.ID = caseID(g.prop, len(g.cases))
		g.cases = append(g.cases, pc)
	}
}

func (g *genCtx) thorough() bool { return g.tier == "thorough" }

func (g *genCtx) scale(quick, thorough int) int {
	if g.thorough() {
		return thorough
	}
	if quick >= 2000 {
		// case counts (not structural parameters such as document sizes): the quick tier has room for more
		return quick * 4
	}
	return quick
}

// every document gets a navigator differential case first (ties harness navigator to XPathV.Nav)
func (g *genCtx) navCases(pool []Doc, n int) {
	for i := 0; i < n && i < len(pool); i++ {
		d := pool[g.r.intn(len(pool))]
		g.add(&Case{Kind: "nav", Doc: d, Ctx: Ref{0, -1}})
	}
}

func genC01(g *genCtx) {
	r := g.r
	pool := docPool(r, plainProfile, g.scale(5, 6), g.scale(2, 3), g.scale(60, 300), 24)
	g.navCases(pool, 40)
	// all ordered pairs of (axis,test) steps, each under every head and both joints, round-robin over documents
	type st struct{ a, t string }
	var steps []st
	for _, a := range axes12 {
		for _, t := range nodeTests {
			steps = append(steps, st{a, t})
		}
	}
	heads := []string{"", "/", "//"}
	joints := []string{"/", "//"}
	n := 0
	stride := g.scale(3, 1)
	for i, s1 := range steps {
		for j, s2 := range steps {
			for hi, h := range heads {
				for ji, jn := range joints {
					n++
					if (i+j+hi+ji+int(r.s%7))%stride != 0 {
						continue
					}
					d := pool[r.intn(len(pool))]
					e := h + stepStr(r, s1.a, s1.t) + jn + stepStr(r, s2.a, s2.t)
					g.add(&Case{Kind: "sel", Doc: d, Ctx: pickCtx(r, d), Expr: e})
				}
			}
		}
	}
	// single steps from every context node of small documents (exhaustive)
	for di := 0; di < g.scale(40, 200); di++ {
		d := pool[r.intn(len(pool))]
		for _, s1 := range steps {
			for _, h := range heads {
				g.add(&Case{Kind: "sel", Doc: d, Ctx: pickCtx(r, d), Expr: h + stepStr(r, s1.a, s1.t)})
			}
		}
	}
	// longer paths
	for i := 0; i < g.scale(8000, 80000); i++ {
		d := pool[r.intn(len(pool))]
		kind := "sel"
		if r.chance(1, 5) {
			kind = "eval"
		}
		g.add(&Case{Kind: kind, Doc: d, Ctx: pickCtx(r, d), Expr: genPathPF(r, 3+r.intn(3), nodeTests)})
	}
	// prefixed and unprefixed name tests in one path, on documents that use prefixes (no namespace map: a test
	// p:name then compares prefix and local name as written; an unprefixed test matches unprefixed names only)
	nsPool := docPool(r, nsProfile, 4, 2, g.scale(40, 150), 14)
	qn := []string{"a", "b", "p:a", "q:a", "p:b", "q:b", "*", "p:*", "q:*", "@k", "@p:k", "@q:a", "@*", "node()", "text()"}
	for i := 0; i < g.scale(4000, 40000); i++ {
		d := nsPool[r.intn(len(nsPool))]
		var parts []string
		for k := 0; k < 2+r.intn(3); k++ {
			t := r.pick(qn)
			if strings.HasPrefix(t, "@") || r.chance(2, 3) {
				parts = append(parts, t)
			} else {
				parts = append(parts, r.pick(axes12)+"::"+t)
			}
		}
		e := r.pick([]string{"", "/", "//"}) + strings.Join(parts, r.pick([]string{"/", "/", "//"}))
		g.add(&Case{Kind: "sel", Doc: d, Ctx: pickCtx(r, d), Expr: e})
	}
}

func genC02(g *genCtx) {
	r := g.r
	pool := docPool(r, plainProfile, g.scale(5, 6), g.scale(2, 3), g.scale(80, 300), 20)
	g.navCases(pool, 10)
	for i := 0; i < g.scale(30000, 300000); i++ {
		d := pool[r.intn(len(pool))]
		g.add(&Case{Kind: "sel", Doc: d, Ctx: pickNodeCtx(r, d), Expr: genFilteredPath(r, r.intn(3))})
	}
	// not() of numbers and strings (count, string-length, local-name, string of a path …), and node-sets in either
	// argument position of contains / starts-with / ends-with
	for i := 0; i < g.scale(3000, 30000); i++ {
		d := pool[r.intn(len(pool))]
		p1, p2 := genFlatPath(r), genFlatPath(r)
		pr := r.pick([]string{"not(count(" + p1 + "))", "not(string-length(" + p1 + "))", "not(local-name(" + p1 + "))", "not(string(" + p1 + "))", "not(not(count(" + p1 + ")))", "not(0)", "not('')", "not(1) or " + p1,
			"not(count(" + p1 + ") - 1)", "not(concat(" + p1 + ", ''))", "contains(" + p1 + ", " + p2 + ")", "starts-with(" + p1 + ", " + p2 + ")", "ends-with(" + p1 + ", " + p2 + ")", "contains('1x2', " + p2 + ")",
			"starts-with(string(" + p1 + "), " + p2 + ")", "not(contains(" + p1 + ", " + p2 + "))", "contains(" + p1 + ", " + p2 + ") and not(count(" + p2 + "))"})
		g.add(&Case{Kind: "sel", Doc: d, Ctx: pickNodeCtx(r, d), Expr: r.pick([]string{"//*", "*", "//a", "descendant::*"}) + "[" + pr + "]"})
	}
	// predicates whose first operand walks the context node away: the second operand belongs to the same candidate
	for i := 0; i < g.scale(3000, 30000); i++ {
		d := pool[r.intn(len(pool))]
		m, p := genMovingPath(r), genFlatPath(r)
		pr := r.pick([]string{"count(" + m + ") " + r.pick(cmpOps) + " count(" + p + ")", "count(" + p + ") " + r.pick(cmpOps) + " count(" + m + ")",
			"count(" + m + ") + count(" + p + ") " + r.pick(cmpOps) + " " + r.pick([]string{"1", "2", "3"}), "contains(concat(" + m + ", '|', " + p + "), '|1')",
			"not(" + m + ") or " + p, m + " and count(" + p + ") > 0", "starts-with(concat(" + m + ", " + p + "), '1')"})
		g.add(&Case{Kind: "sel", Doc: d, Ctx: pickNodeCtx(r, d), Expr: r.pick([]string{"//*", "*", "//a", "descendant::*"}) + "[" + pr + "]"})
	}
	// comparison predicates between every pair of operand kinds (node-set, string, number, boolean), all six
	// operators: the relational ones compare numbers whatever the operands are ('10' < '9' is false, b < c looks
	// at the numbers in b and c, 2 > true() is true), each operand on the side where it was written
	numPool := docPool(r, numericProfile, 4, 2, g.scale(60, 200), 18)
	for i := 0; i < g.scale(6000, 60000); i++ {
		d := numPool[r.intn(len(numPool))]
		set := func() string { return r.pick([]string{genFlatPath(r), genFlatPath(r), genMovingPath(r), "@k", "@m", "b", "c", ".", "*", "text()"}) }
		str := func() string {
			return r.pick([]string{r.pick(strLits), r.pick(strLits), "string(" + set() + ")", "concat('1', '0')", "'9'", "'10'", "'2.5'", "'07'", "' 7'", "string(@k)", "normalize-space(" + set() + ")", "local-name()"})
		}
		num := func() string {
			return r.pick([]string{r.pick(numLits), r.pick(numLits), "count(" + set() + ")", "number(" + set() + ")", "string-length(" + set() + ")", "1 div 0", "0 div 0", "9", "-0.5"})
		}
		boo := func() string {
			return r.pick([]string{"true()", "false()", "not(" + set() + ")", "boolean(" + set() + ")", "count(*) > 0"})
		}
		any := func() string {
			switch r.intn(8) {
			case 0, 1, 2:
				return set()
			case 3, 4:
				return str()
			case 5, 6:
				return num()
			default:
				return boo()
			}
		}
		var pr string
		switch r.intn(6) {
		case 0:
			pr = set() + " " + r.pick(cmpOps) + " " + set()
		case 1:
			pr = set() + " " + r.pick(cmpOps) + " " + str()
		case 2:
			pr = str() + " " + r.pick(cmpOps) + " " + r.pick([]string{set(), str(), num()})
		case 3:
			pr = num() + " " + r.pick(cmpOps) + " " + str()
		case 4:
			pr = boo() + " " + r.pick(cmpOps) + " " + r.pick([]string{num(), str(), set(), boo()})
		default:
			pr = any() + " " + r.pick(cmpOps) + " " + any()
		}
		if r.chance(1, 6) {
			pr = r.pick([]string{"not(" + pr + ")", "(" + pr + ") and " + set(), pr + " or " + set() + " " + r.pick(cmpOps) + " " + num()})
		}
		g.add(&Case{Kind: "sel", Doc: d, Ctx: pickNodeCtx(r, d), Expr: r.pick([]string{"//*", "*", "//a", "descendant::*", "//a/*", "//@k/.."}) + "[" + pr + "]"})
	}
	// state-leak stress: every ordered pair of axes as an existence predicate, both joints, on documents
	// made of few names and repeated similar subtrees, so that a candidate which abandons a traversal
	// half-way is followed by candidates that have to start theirs afresh
	leakPf := Profile{Names: []string{"a", "b"}, AttrN: []string{"k"}, Values: []string{"1", ""}, TextPct: 6, CommPct: 0, AttrPct: 20}
	leakPool := docPool(r, leakPf, 4, 1, g.scale(100, 400), 18)
	for i := 0; i < g.scale(300, 1200); i++ {
		leakPool = append(leakPool, leakDoc(r))
	}
	// existence tests whose path ends in a step with a function-valued predicate (the builder evaluates such a step
	// parent by parent and buffers each parent's matches): what one candidate leaves unread must not reach the next
	for i := 0; i < g.scale(3000, 30000); i++ {
		d := leakPool[r.intn(len(leakPool))]
		nm := func() string { return r.pick([]string{"a", "b", "*"}) }
		fp := r.pick([]string{"not(a)", "not(b)", "not(*)", "true()", "contains(local-name(), 'b')", "starts-with(local-name(), 'a')", "string-length(.) = 0", "boolean(*)", "not(@k)", "count(*) = 0"})
		inner := nm() + "/" + nm() + "[" + fp + "]"
		if r.chance(1, 3) {
			inner = nm() + "/" + nm() + "/" + nm() + "[" + fp + "]"
		}
		pr := r.pick([]string{inner, "not(" + inner + ")", inner + " and " + nm(), inner + " or @k", nm() + " and " + inner, inner + " and not(" + inner + ")"})
		g.add(&Case{Kind: "sel", Doc: d, Ctx: Ref{0, -1}, Expr: r.pick([]string{"//*", "//a", "//b", "/*/*", "//*/*"}) + "[" + pr + "]"})
	}
	tests := []string{"a", "b", "a", "b", "*"}
	for _, a1 := range axes12 {
		for _, a2 := range axes12 {
			for _, jn := range []string{"/", "//"} {
				n := g.scale(20, 100)
				if strings.HasPrefix(a1, "descendant") && (a2 == "child" || strings.HasPrefix(a2, "descendant")) {
					n *= 12 // the descendant-over-descendant rewrite keeps the most state between candidates
				}
				for k := 0; k < n; k++ {
					d := leakPool[r.intn(len(leakPool))]
					inner := a1 + "::" + r.pick(tests) + jn + a2 + "::" + r.pick(tests)
					outer := r.pick([]string{"//*", "//a", "//b", "/*/*", "//*/*"})
					e := outer + "[" + inner + "]"
					if r.chance(1, 4) {
						e = outer + "[not(" + inner + ")]"
					}
					g.add(&Case{Kind: "sel", Doc: d, Ctx: Ref{0, -1}, Expr: e})
				}
			}
		}
	}
}

// leakDoc: a row of sibling candidates of the same name, each holding a few subtrees drawn from a
// small library (no match / one match / two matches / nested matches), so that consecutive
// candidates differ exactly in what a leaked iterator state would get wrong.
func leakDoc(r *rng) Doc {
	d := Doc{{Depth: 0, Kind: 'r'}}
	base := 1
	if r.chance(1, 2) {
		d = append(d, Rec{Depth: 1, Kind: 'e', Name: r.pick([]string{"a", "b"})})
		base = 2
	}
	lib := [][]Rec{
		{},
		{{Depth: 0, Kind: 'e', Name: "a"}},
		{{Depth: 0, Kind: 'e', Name: "b"}},
		{{Depth: 0, Kind: 'e', Name: "a"}, {Depth: 1, Kind: 'e', Name: "b"}},
		{{Depth: 0, Kind: 'e', Name: "b"}, {Depth: 1, Kind: 'e', Name: "a"}},
		{{Depth: 0, Kind: 'e', Name: "a"}, {Depth: 1, Kind: 'e', Name: "a"}, {Depth: 2, Kind: 'e', Name: "b"}},
		{{Depth: 0, Kind: 'e', Name: "a"}, {Depth: 1, Kind: 'e', Name: "b"}, {Depth: 1, Kind: 'e', Name: "a"}},
		{{Depth: 0, Kind: 'e', Name: "b"}, {Depth: 1, Kind: 't', Data: "1"}},
		{{Depth: 0, Kind: 'e', Name: "a", Attrs: []Attr{{Name: "k", Val: "1"}}}},
		{{Depth: 0, Kind: 'e', Name: "a"}, {Depth: 1, Kind: 'e', Name: "b"}, {Depth: 1, Kind: 'e', Name: "b"}},
		{{Depth: 0, Kind: 'e', Name: "b"}, {Depth: 1, Kind: 'e', Name: "a"}, {Depth: 1, Kind: 'e', Name: "a"}, {Depth: 2, Kind: 'e', Name: "b"}},
	}
	cand := r.pick([]string{"a", "b"})
	n := 3 + r.intn(3)
	weighted := []int{0, 1, 2, 3, 3, 3, 4, 5, 6, 6, 7, 8, 9, 9, 10}
	for i := 0; i < n; i++ {
		d = append(d, Rec{Depth: base, Kind: 'e', Name: cand})
		k := r.intn(3)
		for j := 0; j < k; j++ {
			for _, rec := range lib[weighted[r.intn(len(weighted))]] {
				rec.Depth += base + 1
				d = append(d, rec)
			}
		}
	}
	return d
}

func genC03(g *genCtx) {
	r := g.r
	pool := docPool(r, plainProfile, g.scale(5, 6), g.scale(2, 3), g.scale(80, 300), 24)
	for i := 0; i < g.scale(25000, 250000); i++ {
		d := pool[r.intn(len(pool))]
		g.add(&Case{Kind: "sel", Doc: d, Ctx: pickNodeCtx(r, d), Expr: genPositional(r)})
	}
	// position() and last() written after other location steps of the same predicate (they refer to the step being
	// filtered, whatever was built before them), compared with numbers that are themselves computed
	for i := 0; i < g.scale(4000, 40000); i++ {
		d := pool[r.intn(len(pool))]
		st := r.pick([]string{"a", "b", "*", "node()"})
		bp := r.pick([]string{"@k", "a", "b", "*", "text()", "@k = '1'", "not(a)", "count(*) > 0", ". = '1'"})
		pos := r.pick([]string{"position() = " + r.pick([]string{"1", "2", "3"}), "position() < 3", "position() > 1", "position() = last()", "last() = 2", "position() != last()", "position() = last() - 1"})
		pr := r.pick([]string{bp + " and " + pos, bp + " or " + pos, pos + " and " + bp, "count(" + r.pick([]string{"*", "a", "@*"}) + ") = position()", "position() = count(" + r.pick([]string{"*", "a", "@*"}) + ")",
			". = position()", "@k = last()", "count(*) = last() - 1", "not(" + bp + ") and " + pos, "string-length(.) = position()", "(" + bp + ") and (" + pos + ")", r.pick([]string{"a", "b"}) + "[" + pos + "] and " + pos})
		head := r.pick([]string{"", "/*/", "//", "*/", "//a/"})
		g.add(&Case{Kind: "sel", Doc: d, Ctx: pickNodeCtx(r, d), Expr: head + st + "[" + pr + "]"})
	}
	// a positional first predicate followed by comparison / count / string-test predicates, on input paths that carry them too
	for i := 0; i < g.scale(3000, 30000); i++ {
		d := pool[r.intn(len(pool))]
		pr := func() string {
			return r.pick([]string{"@k = @m", "@k != @a", "a = b", "* < @k", "@k >= '1'", "'2' > @a", "count(*) = 1", "count(@*) > 1", "contains(@k, '1')", "local-name() = 'a'", "not(count(*))", "b < c or @k"})
		}
		pos := r.pick([]string{"1", "2", "3", "last()", "last() - 1", "position() = 2", "position() < 3", "position() = last()", "position() > 1"})
		head := r.pick([]string{"", "/*/", "*/", "//a/", "/*[" + pr() + "]/", "*[" + pr() + "]/", "//*[" + pr() + "]/"})
		st := r.pick([]string{"a", "b", "*", "node()"})
		e := head + st + "[" + pos + "][" + pr() + "]"
		if r.chance(1, 3) {
			e += "[" + pr() + "]"
		}
		g.add(&Case{Kind: "sel", Doc: d, Ctx: pickNodeCtx(r, d), Expr: e})
	}
	// the proximity position must not depend on what the same compiled expression saw before: positional
	// expressions evaluated in turn on two documents of the same shape with different numbers of candidates
	genShapeHistories(g, g.scale(400, 4000), []string{"/r/l/i[last()]", "//i[position() = last()]", "l/i[last() - 1]", "//l/i[position() < last()]",
		"/r/l/i[last()][@k]", "//i[2]", "l/i[position() = 2]", "/r/l/i[position() > 1][@k = '2']", "//l/i[last() - 2]", "//i[position() != last()]",
		"/r/l[2]/i[1]", "/r/l[last()]/i[last()]", "(//i)[2]", "(/r/l/i)[3]"})
}

// exprs used for histories / concurrency: a mix of all fragments
func genAnyExpr(r *rng) string {
	switch r.intn(9) {
	case 0:
		return genPathPF(r, 1+r.intn(3), nodeTests)
	case 1, 2:
		return genFilteredPath(r, r.intn(2))
	case 3:
		return genPositional(r)
	case 4:
		return genCmpExpr(r)
	case 5:
		return genNumExpr(r, 2)
	case 6:
		return genStrExpr(r, 2)
	case 7:
		return genPathPF(r, 1, nodeTests) + " | " + genPathPF(r, 2, nodeTests)
	default:
		return r.pick([]string{"count(//a)", "ancestor::a = '1x'", "(//b)[1] = //b", "string-join(//a, ',')", "//b[ancestor::a]", "//*[following::b]",
			"//a[preceding::b]", "//*[descendant::a/descendant::b]", "//a[last()]", "reverse(//a)", "sum(//@k)", "boolean(//a[b])", "name(//*[2])",
			"*[*][last()]", "//*[*][last()]", "*[@k][last()]", "count(*[*][last()]/*)", "string(*[node()][last()]/@k)", "//a[b][last()]", "a[1][last()]",
			"//*[b[1]]", "*[*[2]]", "(*)[2]", "//*[(*)[1]]", "//*[a | b]", "*[a[@k] | b]",
			"translate('1x1', string(@k), string(@m))", "translate(string(.), string(@k), string(@a))", "translate('x1', string(*/@k), string(*/@m))",
			"concat(string(@k), '-', string(@m))", "contains(string(.), string(@k))", "substring-before('1x1', string(@k))", "normalize-space(string(@k))",
			"string-join(*, string(@k))", "matches('1x', concat('^', string(@k)))", "replace('1x1', string(@k), string(@m))"})
	}
}

func genC04(g *genCtx) {
	r := g.r
	pool := docPool(r, plainProfile, 4, 1, g.scale(60, 200), 16)
	maxOps := g.scale(10, 40)
	for i := 0; i < g.scale(6000, 40000); i++ {
		d := pool[r.intn(len(pool))]
		e := genAnyExpr(r)
		nops := 2 + r.intn(maxOps)
		var ops []string
		// a third of the histories visit a second document in between ("… on which other context nodes or documents")
		var d2 Doc
		if r.chance(1, 3) {
			d2 = pool[r.intn(len(pool))]
			ops = append(ops, "D"+hx(d2.Encode()))
		}
		for k := 0; k < nops; k++ {
			dd, at := d, ""
			if d2 != nil && r.chance(1, 2) {
				dd, at = d2, "@"
			}
			ctx := pickNodeCtx(r, dd)
			if r.chance(1, 2) {
				ops = append(ops, "E"+at+ctx.String())
			} else {
				cnt := -1
				if r.chance(1, 2) {
					cnt = r.intn(3)
				}
				ops = append(ops, fmt.Sprintf("S%s%s:%d", at, ctx, cnt))
			}
		}
		g.add(&Case{Kind: "hist", Doc: d, Ctx: Ref{0, -1}, Expr: e, Extra: strings.Join(ops, ";")})
	}
	genC04values(g)
	genC04shapes(g)
	genC04ns(g)
}

// namespaced documents and maps: one compiled expression with prefixed name tests visits, in turn, documents in
// which the same prefix is bound to different URIs (and elements without a namespace after a default-namespace
// document) — anything the expression remembers about a prefix from an earlier node or document shows
func genC04ns(g *genCtx) {
	r := g.r
	pool := docPool(r, nsProfile, 4, 2, g.scale(40, 150), 12)
	maps := []map[string]string{{"p": "urn:p"}, {"p": "urn:p", "q": "urn:q"}, {"x": "urn:p"}, {"p": "urn:q"}, {"q": "urn:p", "p": "urn:d"}}
	exprs := []string{"//p:a", "//p:*", "//q:b", "//x:a", "//*[p:a]", "count(//p:a)", "//p:a/@p:k", "//@p:*", "//p:a | //q:a", "//*[self::p:a]", "descendant::p:b", "//p:a[1]", "name(//p:a)", "//x:*/x:a",
		"count(//p:a) + count(//q:*)", "//*[not(p:*)]", "string(//p:a/@k)"}
	for i := 0; i < g.scale(1500, 15000); i++ {
		d, d2 := pool[r.intn(len(pool))], pool[r.intn(len(pool))]
		ops := []string{"D" + hx(d2.Encode())}
		for k := 0; k < 3+r.intn(5); k++ {
			dd, at := d, ""
			if r.chance(1, 2) {
				dd, at = d2, "@"
			}
			ctx := pickNodeCtx(r, dd)
			if r.chance(1, 3) {
				ops = append(ops, "E"+at+ctx.String())
			} else {
				ops = append(ops, fmt.Sprintf("S%s%s:-1", at, ctx))
			}
		}
		g.add(&Case{Kind: "hist", Doc: d, Ctx: Ref{0, -1}, NS: maps[r.intn(len(maps))], Expr: r.pick(exprs), Extra: strings.Join(ops, ";")})
	}
}

// per-expression caches keyed by node *identity*: two documents of the same shape (same names, same
// sibling-index paths) whose corresponding parents have different numbers of children or different
// values, visited in turn by one compiled expression
func genC04shapes(g *genCtx) {
	genShapeHistories(g, g.scale(600, 6000), []string{"/r/l/i[last()]", "//i[position() = last()]", "l/i[last() - 1]", "//l/i[position() < last()]", "/r/l/i[last()][@k]",
		"count(//i)", "count(l/i)", "//l[count(i) > 2]", "string(//i[last()]/@k)", "sum(//i/@k)", "//i[@k = ../i[last()]/@k]",
		"(//i)[last()]", "//i[2]", "l/i[position() = 2]", "string-join(//i/@k, ',')", "//i[not(following-sibling::i)]", "name(//*[last()])",
		"//l/i[last()]/preceding-sibling::i[1]", "//i[last() = 3]", "concat(count(//i), ':', //i[last()]/@k)",
		"//i[@k][last()]/@k = '2'", "count(//i[@k][last()]) = 1", "(//i[@k])[last()]/@k > 1", "//l/i[@k][last()]/@k = //i[1]/@k", "string(//i[@k][last()]/@k) = '3'",
		"//i[@k][last()]/@k + 1", "//i[@k > 1][last()]/@k = '4' or //i[1]/@k = '9'"})
}

func genShapeHistories(g *genCtx, n int, exprs []string) {
	r := g.r
	mk := func() Doc {
		d := Doc{{Depth: 0, Kind: 'r'}, {Depth: 1, Kind: 'e', Name: "r"}}
		nl := 1 + r.intn(2)
		for l := 0; l < nl; l++ {
			d = append(d, Rec{Depth: 2, Kind: 'e', Name: "l"})
			for i, n := 0, r.intn(5); i < n; i++ {
				d = append(d, Rec{Depth: 3, Kind: 'e', Name: "i", Attrs: []Attr{{Name: "k", Val: fmt.Sprint(1 + r.intn(4))}}})
			}
		}
		return d
	}
	for i := 0; i < n; i++ {
		d, d2 := mk(), mk()
		ops := []string{"D" + hx(d2.Encode())}
		ctxs := []string{"0", "1"}
		for k := 0; k < 3+r.intn(5); k++ {
			at := ""
			if r.chance(1, 2) {
				at = "@"
			}
			if r.chance(2, 3) {
				ops = append(ops, "S"+at+r.pick(ctxs)+":-1")
			} else {
				ops = append(ops, "E"+at+r.pick(ctxs))
			}
		}
		g.add(&Case{Kind: "hist", Doc: d, Ctx: Ref{0, -1}, Expr: r.pick(exprs), Extra: strings.Join(ops, ";")})
	}
}

var cmpOps = []string{"=", "!=", "<", "<=", ">", ">="}

func genOperand(r *rng) string {
	if r.chance(1, 8) {
		// redundant parentheses change nothing
		return "(" + genOperand(r) + ")"
	}
	switch r.intn(6) {
	case 0:
		return r.pick(numLits)
	case 1:
		return r.pick(strLits)
	case 2, 3:
		return genFlatPath(r)
	case 4:
		return r.pick([]string{"1 + 1", "2 * 3", "0 div 0", "1 div 0", "-2", "count(//a)"})
	default:
		return r.pick([]string{"string(1)", "concat('1','0')", "'1' ", "string(@k)"})
	}
}

// genMovingPath: a relative path from the context node whose evaluation walks the evaluation's context node away
// from it (predicates put it on every candidate, positional steps on every parent, following::/preceding:: on the
// subtrees they visit); single origin and forward, so that sequence and ordered set agree.  Whatever is evaluated
// after it — the other operand, a later argument — must still see the context node it started with.
func genMovingPath(r *rng) string {
	t := func() string { return r.pick([]string{"a", "b", "c", "*", "node()", "text()"}) }
	switch r.intn(9) {
	case 0:
		return t() + "[" + r.pick([]string{"@k", "@*", "*", "a", "b", "text()", "not(*)", ". = '1'", "@k = '1'", "not(@k)"}) + "]"
	case 1:
		return t() + "[" + r.pick(posPreds) + "]"
	case 2:
		return t() + "[" + genBoolPred(r, 0) + "]"
	case 3:
		return "following::" + t()
	case 4:
		return "*[1]/following::" + t()
	case 5:
		return t() + "[" + r.pick(posPreds) + "][" + r.pick([]string{"@k", "*", "true()"}) + "]"
	case 6:
		return t() + "[@k]/@k"
	case 7:
		return "*[" + r.pick([]string{"a", "b", "@k"}) + "]/" + t()
	default:
		return "(" + t() + "[" + r.pick([]string{"@k", "*"}) + "])[1]"
	}
}

// genCmpExpr: C07 fragment
func genCmpExpr(r *rng) string {
	numExpr := func() string { return r.pick(append(numLits, "1 + 1", "0 div 0", "1 div 0", "-2", "count(*)")) }
	strOrSet := func() string {
		if r.chance(1, 2) {
			return genFlatPath(r)
		}
		return r.pick(append(strLits, "string(@k)", "concat('1','0')"))
	}
	switch r.intn(11) {
	case 0, 1:
		// number op number, node-set op number, number op node-set (all six operators);
		// node-set op node-set is in the fragment for = and != only
		switch r.intn(4) {
		case 0:
			return numExpr() + " " + r.pick(cmpOps) + " " + numExpr()
		case 1:
			return genFlatPath(r) + " " + r.pick(cmpOps) + " " + numExpr()
		case 2:
			return numExpr() + " " + r.pick(cmpOps) + " " + genFlatPath(r)
		default:
			return genFlatPath(r) + " " + r.pick([]string{"=", "!="}) + " " + genFlatPath(r)
		}
	case 2, 3:
		return strOrSet() + " " + r.pick([]string{"=", "!="}) + " " + strOrSet()
	case 4:
		return genOperand(r) + " " + r.pick([]string{"and", "or"}) + " " + genOperand(r)
	case 5:
		return "not(" + r.pick([]string{genFlatPath(r), genCmpExpr(r), "true()", "false()"}) + ")"
	case 6:
		return "boolean(" + genOperand(r) + ")"
	case 7:
		return genCmpExpr(r) + " " + r.pick([]string{"and", "or"}) + " " + genCmpExpr(r)
	case 8:
		return r.pick([]string{"true()", "false()", "true() and false()", "false() or true()", "not(true())"})
	case 9:
		// "and/or evaluate left to right": the right operand must see the original context even when the
		// left operand walked away from it
		left := r.pick([]string{
			stepStr(nil, r.pick(axes12), r.pick(nodeTests)) + " = " + r.pick(strLits),
			"count(" + stepStr(nil, r.pick(axes12), r.pick(nodeTests)) + ") " + r.pick([]string{">", "=", "<"}) + " " + r.pick([]string{"0", "1"}),
			"not(" + stepStr(nil, r.pick(axes12), r.pick(nodeTests)) + ")",
			"count(" + r.pick([]string{"a", "b", "*"}) + "[" + r.pick([]string{"a", "b", "*", "@k"}) + "]) > 0",
			"boolean(" + stepStr(nil, r.pick([]string{"following", "preceding", "following-sibling", "ancestor"}), "*") + ")",
		})
		right := r.pick([]string{"a", "b", "*", "@k", ". = 'x'", "text()", "count(*) > 0", "../a", "node()"})
		return left + " " + r.pick([]string{"and", "or"}) + " " + right
	default:
		return genFlatPath(r) + " " + r.pick(cmpOps) + " " + r.pick(numLits)
	}
}

// per-expression caches keyed by argument *values*: documents whose attributes make different argument
// tuples that look alike when concatenated, and histories that visit them in turn
func genC04values(g *genCtx) {
	r := g.r
	pairs := [][2]string{{"ab", "c"}, {"a", "bc"}, {"1x", ""}, {"1", "x"}, {"", "1x"}, {"x", "1"}, {"abc", ""}, {"", "abc"}}
	exprs := []string{"translate(string(@v), string(@k), string(@m))", "translate('abcab1x', string(@k), string(@m))", "concat(@k, @m)", "replace(string(@v), string(@k), string(@m))",
		"substring-before(concat(@k, '|', @m), '|')", "string-join(@*, '')", "contains(concat(@k, @m), string(@v))", "starts-with(string(@v), string(@k))"}
	for i := 0; i < g.scale(400, 4000); i++ {
		d := Doc{{Depth: 0, Kind: 'r'}}
		n := 2 + r.intn(4)
		for j := 0; j < n; j++ {
			p := pairs[r.intn(len(pairs))]
			d = append(d, Rec{Depth: 1, Kind: 'e', Name: "e", Attrs: []Attr{{Name: "v", Val: r.pick([]string{"abcab", "1x1", "ab", "x1"})}, {Name: "k", Val: p[0]}, {Name: "m", Val: p[1]}}})
		}
		var ops []string
		for k := 0; k < 3+r.intn(6); k++ {
			ops = append(ops, "E"+Ref{1 + r.intn(n), -1}.String())
		}
		g.add(&Case{Kind: "hist", Doc: d, Ctx: Ref{0, -1}, Expr: r.pick(exprs), Extra: strings.Join(ops, ";")})
	}
}

func genC07(g *genCtx) {
	r := g.r
	pf := plainProfile
	pf.TextPct = 35
	pool := docPool(r, pf, 5, g.scale(2, 3), g.scale(60, 200), 16)
	// numbers that are neighbours among the doubles (one unit in the last place apart), as literals, as results of
	// arithmetic and as node values: = and != are exact
	near := [][2]string{{"0.1 + 0.2", "0.3"}, {"0.30000000000000004", "0.3"}, {"1.0000000000000002", "1"}, {"0.1 * 3", "0.3"}, {"1 div 3 * 3", "1"}, {"4.35 * 100", "435"},
		{"1.1 + 2.2", "3.3"}, {"0.7 + 0.1", "0.8"}, {"9007199254740992", "9007199254740993"}, {"179769313486231570000000000000000000000000000000000000000000000000000000000000000000000000000000000000000000000000000000000000000000000000000000000000000000000000000000000000000000000000000000000000000000000000000000000000000000000000000000000000000000000000000000000000000000000000000000000000000000000000000000000000000000000 * 10", "1 div 0"},
		{"0.000000000000000000000000000000000000000000000000000000000000000000000000000000000000000000000000000000000000000000000000000000000000000000000000000000000000000000000000000000000000000000000000000000000000000000000000000000000000000000000000000000000000000000000000000000000000000000000000000000000000000000000000000000000005", "0"}}
	dn := Doc{{Depth: 0, Kind: 'r'}, {Depth: 1, Kind: 'e', Name: "r"}, {Depth: 2, Kind: 'e', Name: "v", Attrs: []Attr{{Name: "k", Val: "0.30000000000000004"}}}, {Depth: 3, Kind: 't', Data: "0.30000000000000004"},
		{Depth: 2, Kind: 'e', Name: "w", Attrs: []Attr{{Name: "k", Val: "1.0000000000000002"}}}, {Depth: 3, Kind: 't', Data: "0.3"}}
	// every operand form once more in redundant parentheses (function calls, literals, paths, comparisons), within
	// the type pairs the property lists: numbers with numbers and node-sets under all six operators, strings with
	// strings and node-sets under = and !=, node-set with node-set under = and !=, and / or over anything
	for i := 0; i < g.scale(3000, 30000); i++ {
		d := pool[r.intn(len(pool))]
		par := func(x string) string {
			if r.chance(2, 3) {
				return "(" + x + ")"
			}
			return x
		}
		num := func() string {
			return r.pick([]string{"count(" + genFlatPath(r) + ")", "string-length(" + genFlatPath(r) + ")", "number(" + genFlatPath(r) + ")", "sum(" + genFlatPath(r) + "/@k)", r.pick(numLits), "1 + 1"})
		}
		str := func() string {
			return r.pick([]string{"string(" + genFlatPath(r) + ")", "concat('1', '0')", "name()", "local-name(" + genFlatPath(r) + ")", r.pick(strLits), "normalize-space(" + genFlatPath(r) + ")"})
		}
		boo := func() string {
			return r.pick([]string{"true()", "false()", "not(" + genFlatPath(r) + ")", "boolean(" + genFlatPath(r) + ")", "count(*) > 0", "not(true())"})
		}
		set := func() string {
			if r.chance(1, 3) {
				return genFlatFiltered(r)
			}
			return genFlatPath(r)
		}
		var e string
		switch r.intn(7) {
		case 0:
			e = par(num()) + " " + r.pick(cmpOps) + " " + par(r.pick([]string{num(), set()}))
		case 1:
			e = par(set()) + " " + r.pick(cmpOps) + " " + par(num())
		case 2:
			e = par(str()) + " " + r.pick([]string{"=", "!="}) + " " + par(r.pick([]string{str(), set()}))
		case 3:
			e = par(set()) + " " + r.pick([]string{"=", "!="}) + " " + par(r.pick([]string{str(), set()}))
		case 4:
			e = par(r.pick([]string{num(), str(), boo(), set()})) + " " + r.pick([]string{"and", "or"}) + " " + par(r.pick([]string{num(), str(), boo(), set()}))
		case 5:
			e = "not(" + par(r.pick([]string{boo(), set(), num(), str()})) + ") " + r.pick([]string{"and", "or"}) + " " + par(boo())
		default:
			e = par(par(num())+" "+r.pick(cmpOps)+" "+par(num())) + " " + r.pick([]string{"and", "or"}) + " " + par(par(str())+" = "+par(set()))
		}
		g.add(&Case{Kind: "eval", Doc: d, Ctx: pickNodeCtx(r, d), Expr: e})
	}
	// operands that walk the context node away before the other operand is evaluated
	for i := 0; i < g.scale(4000, 40000); i++ {
		d := pool[r.intn(len(pool))]
		m, p := genMovingPath(r), genFlatPath(r)
		var e string
		switch r.intn(8) {
		case 0:
			e = m + " " + r.pick([]string{"=", "!="}) + " " + p
		case 1:
			e = p + " " + r.pick([]string{"=", "!="}) + " " + m
		case 2:
			e = "count(" + m + ") " + r.pick(cmpOps) + " count(" + p + ")"
		case 3:
			e = "(" + m + " = " + r.pick(strLits) + ") " + r.pick([]string{"=", "!="}) + " (count(" + p + ") " + r.pick(cmpOps) + " 1)"
		case 4:
			e = m + " " + r.pick([]string{"=", "!="}) + " " + genMovingPath(r)
		case 5:
			e = "boolean(" + m + ") " + r.pick([]string{"=", "!="}) + " boolean(" + p + ")"
		case 6:
			e = "string(" + m + ") " + r.pick([]string{"=", "!="}) + " string(" + p + ")"
		default:
			e = m + " " + r.pick(cmpOps) + " count(" + p + ")"
		}
		if r.chance(1, 4) {
			g.add(&Case{Kind: "sel", Doc: d, Ctx: pickNodeCtx(r, d), Expr: "//*[" + e + "]"})
		} else {
			g.add(&Case{Kind: "eval", Doc: d, Ctx: pickNodeCtx(r, d), Expr: e})
		}
	}
	for _, pr := range near {
		for _, op := range cmpOps {
			g.add(&Case{Kind: "eval", Doc: dn, Ctx: Ref{0, -1}, Expr: pr[0] + " " + op + " " + pr[1]})
			g.add(&Case{Kind: "eval", Doc: dn, Ctx: Ref{0, -1}, Expr: pr[1] + " " + op + " " + pr[0]})
		}
	}
	for _, op := range cmpOps {
		for _, e := range []string{"/r/v " + op + " 0.3", "0.3 " + op + " /r/v", "/r/v " + op + " /r/w", "/r/*/@k " + op + " 1", "//v[. " + op + " 0.3]", "not(/r/w " + op + " 0.30000000000000004)", "/r/v/@k " + op + " 0.1 + 0.2"} {
			kind := "eval"
			if strings.HasPrefix(e, "//v") {
				kind = "sel"
			}
			g.add(&Case{Kind: kind, Doc: dn, Ctx: Ref{0, -1}, Expr: e})
		}
	}
	for i := 0; i < g.scale(30000, 300000); i++ {
		d := pool[r.intn(len(pool))]
		if r.chance(1, 5) {
			g.add(&Case{Kind: "sel", Doc: d, Ctx: pickNodeCtx(r, d), Expr: "//*[" + genCmpExpr(r) + "]"})
		} else {
			g.add(&Case{Kind: "eval", Doc: d, Ctx: pickNodeCtx(r, d), Expr: genCmpExpr(r)})
		}
	}
}

// genDecimalLit: a Number literal with random integer and fraction digits (every one of them has to be read as the
// nearest double of the whole numeral, not of its parts)
func genDecimalLit(r *rng) string {
	digits := func(n int, first bool) string {
		b := make([]byte, n)
		for i := range b {
			b[i] = byte('0' + r.intn(10))
			if i == 0 && first && n > 1 && b[i] == '0' {
				b[i] = '1'
			}
		}
		return string(b)
	}
	switch r.intn(8) {
	case 0:
		return "." + digits(1+r.intn(4), false)
	case 1:
		return digits(1+r.intn(17), true) + "." + digits(1+r.intn(17), false) // long numerals
	case 2:
		if r.chance(1, 6) {
			// numerals around and beyond the largest double (309 digits): the value is the nearest double, then infinity
			return digits(300+r.intn(120), true)
		}
		return digits(1+r.intn(20), true)
	default:
		return digits(1+r.intn(3), true) + "." + digits(1+r.intn(4), false)
	}
}

// genNumExpr: C08 fragment
func genNumExpr(r *rng, depth int) string {
	if depth <= 0 {
		switch r.intn(8) {
		case 0, 1:
			return r.pick([]string{"0", "1", "2", "3", "7", "10", "2.5", ".5", "1.", "100", "12345", "0.125", "999999", "1000000", "0.1", "3.0"})
		case 2:
			return genDecimalLit(r)
		case 3:
			if r.chance(1, 3) {
				return "count(" + genFlatFiltered(r) + ")"
			}
			return "count(" + genFlatPath(r) + ")"
		case 4:
			if r.chance(1, 3) {
				return "sum(" + genFlatFiltered(r) + ")"
			}
			return "sum(" + genFlatPath(r) + ")"
		case 5:
			return "number(" + r.pick([]string{genFlatPath(r), "'12'", "'1.5'", "'abc'", "''", "' 12 '", "'-3'", "'1e3'", "'+1'", "'.5'", "'5.'", "'0x10'", "'Infinity'", "'NaN'", "'-'", "'1 2'"}) + ")"
		case 6:
			return "string-length(" + r.pick([]string{genFlatPath(r), "'abc'", "''"}) + ")"
		default:
			return r.pick([]string{"0 div 0", "1 div 0", "-1 div 0"})
		}
	}
	a, b := genNumExpr(r, depth-1), genNumExpr(r, depth-1)
	switch r.intn(10) {
	case 0:
		return a + " + " + b
	case 1:
		return a + " - " + b
	case 2:
		return a + " * " + b
	case 3:
		return a + " div " + b
	case 4:
		return r.pick([]string{"7", "10", "0", "3", "12", "100"}) + " mod " + r.pick([]string{"1", "2", "3", "7", "10"})
	case 5:
		return "-" + a
	case 6:
		return "floor(" + a + ")"
	case 7:
		return "ceiling(" + a + ")"
	case 8:
		return "(" + a + ")"
	default:
		return "- " + a + " + -" + b
	}
}

func genC08(g *genCtx) {
	r := g.r
	pool := docPool(r, numericProfile, 4, 2, g.scale(60, 200), 14)
	for i := 0; i < g.scale(30000, 300000); i++ {
		d := pool[r.intn(len(pool))]
		e := genNumExpr(r, r.intn(4))
		if r.chance(1, 4) {
			e = "string(" + e + ")"
		}
		g.add(&Case{Kind: "eval", Doc: d, Ctx: pickNodeCtx(r, d), Expr: e})
	}
	// sum() adds the values one after the other, from 0, in document order: node sets of 3 to 14 values that are
	// not exactly representable (every other order or algorithm of addition gives another last bit)
	fr := []string{"0.1", "0.2", "0.3", "0.7", "1.1", "2.2", "0.01", "1000000.1", "3.3", "0.15", "1e3", "12345.678", "0.000001", "5", ".5"}
	for i := 0; i < g.scale(1500, 15000); i++ {
		d := Doc{{Depth: 0, Kind: 'r'}, {Depth: 1, Kind: 'e', Name: "r"}}
		for k, n := 0, 3+r.intn(12); k < n; k++ {
			v := r.pick(fr)
			if v == "1e3" {
				v = "1000"
			}
			d = append(d, Rec{Depth: 2, Kind: 'e', Name: "v", Attrs: []Attr{{Name: "k", Val: r.pick(fr[:10])}}}, Rec{Depth: 3, Kind: 't', Data: v})
		}
		e := r.pick([]string{"sum(//v)", "sum(/r/v)", "sum(//v/@k)", "sum(//v) + sum(//v/@k)", "sum(/r/v/text())", "sum(//v) div count(//v)", "string(sum(//v))", "sum(//v[position() > 1])", "sum(r/v)"})
		g.add(&Case{Kind: "eval", Doc: d, Ctx: Ref{0, -1}, Expr: e})
	}
	// arithmetic whose first operand walks the context node away (count/sum/string-length/number of a filtered,
	// positional or following:: path): the second operand is evaluated at the same context node
	for i := 0; i < g.scale(3000, 30000); i++ {
		d := pool[r.intn(len(pool))]
		m, p := genMovingPath(r), genFlatPath(r)
		f1 := r.pick([]string{"count(" + m + ")", "string-length(" + m + ")", "number(" + m + ")", "count(" + m + ") * 2", "sum(" + m + "/@k)"})
		f2 := r.pick([]string{"count(" + p + ")", "string-length(" + p + ")", "number(" + p + ")", "count(" + genMovingPath(r) + ")"})
		e := f1 + " " + r.pick([]string{"+", "-", "*", "div"}) + " " + f2
		if r.chance(1, 3) {
			e = f2 + " " + r.pick([]string{"+", "-", "*"}) + " " + f1 + " + " + f2
		}
		g.add(&Case{Kind: "eval", Doc: d, Ctx: pickNodeCtx(r, d), Expr: e})
	}
	// §3.5: `- - e` is number(e) whatever the type of e (a metamorphic pair on the package alone: the oracle
	// evaluates the parse tree, so a parser that drops the signs is invisible to it)
	// (primary expressions only: unary minus binds tighter than every binary operator)
	opnds := []string{"true()", "false()", "'1'", "'abc'", "' 12 '", "''", "a", "//b", "@k", "string(.)", "(count(*) > 1)", "('1' = '1.0')", "(1 = 1)", "concat('1', '2')"}
	for i := 0; i < g.scale(1500, 10000); i++ {
		d := pool[r.intn(len(pool))]
		ctx := pickNodeCtx(r, d)
		x := r.pick(opnds)
		minus := r.pick([]string{"--", "- -", "- - ", "----", "-(-", "- (- "})
		e1 := minus + x
		if strings.Contains(minus, "(") {
			e1 += ")"
		}
		e2 := "number(" + x + ")"
		switch r.intn(3) {
		case 0:
			e1, e2 = "string("+e1+")", "string("+e2+")"
		case 1:
			y := r.pick([]string{"'1.0'", "'abc'", "1", "true()", "'1'"})
			e1, e2 = "("+e1+") = "+y, e2+" = "+y
		}
		g.add(&Case{Kind: "meta", Doc: d, Ctx: ctx, Expr: e1, Extra: "val;" + ctx.String() + ";" + hx(e2)})
	}
}

var strAlpha = []string{"a", "b", "A", " ", "\t", "\n", "1", "-", "."}

func genStrLit(r *rng) string {
	n := r.intn(7)
	var sb strings.Builder
	for i := 0; i < n; i++ {
		sb.WriteString(r.pick(strAlpha))
	}
	return "'" + sb.String() + "'"
}

var startLens = []string{"-1 div 0", "0 div 0", "1 div 0", "-7", "-3", "-2", "-1.5", "-1", "-0.5", "0", "0.5", "1", "1.5", "2", "2.5", "3", "3.5", "4", "5", "6", "7", "12",
	"-9007199254740992", "9007199254740992", "100000000000000000000", "number('x')",
	// where floor(x + 0.5) is not the closest integer: just below a half, odd integers above 2^52
	"0.49999999999999994", "1.4999999999999998", "-0.49999999999999994", "0.5000000000000001", "2.4999999999999996",
	"4503599627370497", "4503599627370495.5", "-4503599627370497"}

// genStrExpr: C09 fragment
func genStrExpr(r *rng, depth int) string {
	arg := func() string {
		if depth > 0 && r.chance(1, 3) {
			// only string-valued calls nest: the fragment is string-typed (or flat node-set) arguments
			for {
				e := genStrExpr(r, depth-1)
				if !strings.HasPrefix(e, "contains(") && !strings.HasPrefix(e, "starts-with(") && !strings.HasPrefix(e, "ends-with(") && !strings.HasPrefix(e, "string-length(") {
					return e
				}
			}
		}
		if r.chance(1, 4) {
			return genFlatPath(r)
		}
		return genStrLit(r)
	}
	switch r.intn(14) {
	case 0:
		return "concat(" + arg() + ", " + arg() + (map[bool]string{true: ", " + arg(), false: ""})[r.chance(1, 3)] + ")"
	case 1:
		return "contains(" + arg() + ", " + genStrLit(r) + ")"
	case 2:
		return "starts-with(" + arg() + ", " + genStrLit(r) + ")"
	case 3:
		return "ends-with(" + arg() + ", " + genStrLit(r) + ")"
	case 4:
		return "substring-before(" + arg() + ", " + arg() + ")"
	case 5:
		return "substring-after(" + arg() + ", " + arg() + ")"
	case 6:
		return "substring(" + arg() + ", " + r.pick(startLens) + ")"
	case 7:
		return "substring(" + arg() + ", " + r.pick(startLens) + ", " + r.pick(startLens) + ")"
	case 8:
		return "string-length(" + arg() + ")"
	case 9:
		return "normalize-space(" + arg() + ")"
	case 10:
		return "translate(" + arg() + ", " + genStrLit(r) + ", " + genStrLit(r) + ")"
	case 11:
		return "lower-case(" + arg() + ")"
	case 12:
		// the separator may itself be a flat node-set (its first node's string-value)
		if r.chance(1, 3) {
			return "string-join(" + genFlatPath(r) + ", " + genFlatPath(r) + ")"
		}
		return "string-join(" + genFlatPath(r) + ", " + genStrLit(r) + ")"
	default:
		return "string(" + arg() + ")"
	}
}

func genC09(g *genCtx) {
	r := g.r
	pf := plainProfile
	pf.Values = []string{"", "a", "ab", " a b ", "A1", "1", "a.b", "\t", "aa"}
	pool := docPool(r, pf, 4, 2, g.scale(40, 150), 12)
	// exhaustive substring sweep
	strs := []string{"", "a", "ab", "abc", "12345", "abcdef"}
	sl := startLens
	if !g.thorough() {
		sl = startLens[:22]
	}
	d0 := pool[0]
	for _, s := range strs {
		for _, st := range sl {
			g.add(&Case{Kind: "eval", Doc: d0, Ctx: Ref{0, -1}, Expr: "substring('" + s + "', " + st + ")"})
			for _, ln := range sl {
				g.add(&Case{Kind: "eval", Doc: d0, Ctx: Ref{0, -1}, Expr: "substring('" + s + "', " + st + ", " + ln + ")"})
			}
		}
	}
	for i := 0; i < g.scale(30000, 300000); i++ {
		d := pool[r.intn(len(pool))]
		g.add(&Case{Kind: "eval", Doc: d, Ctx: pickNodeCtx(r, d), Expr: genStrExpr(r, r.intn(4))})
	}
	// node-sets in either argument position of contains / starts-with / ends-with (string-value of the first node, ""
	// for an empty node-set)
	for i := 0; i < g.scale(3000, 30000); i++ {
		d := pool[r.intn(len(pool))]
		a := func() string {
			return r.pick([]string{genFlatPath(r), genFlatPath(r), genFlatFiltered(r), genStrLit(r), "string(" + genFlatPath(r) + ")", "string(" + genFlatFiltered(r) + ")", "zzz", "@zz"})
		}
		f := r.pick([]string{"contains", "starts-with", "ends-with"})
		e := f + "(" + a() + ", " + a() + ")"
		if r.chance(1, 4) {
			e = "concat(string(" + e + "), '|', string(" + r.pick([]string{"contains", "starts-with", "ends-with"}) + "(" + a() + ", " + a() + ")))"
		}
		g.add(&Case{Kind: "eval", Doc: d, Ctx: pickNodeCtx(r, d), Expr: e})
	}
	// white space is space, tab, CR, LF — not VT, FF or the Unicode spaces (known finding: normalize-space takes
	// Go's unicode.IsSpace; the other functions treat these characters as ordinary ones)
	for _, w := range []string{"\v", "\f"} { // (ASCII: the property speaks about ASCII strings)
		for _, e := range []string{"normalize-space('" + w + "9')", "normalize-space(' a" + w + w + "b ')", "string-length(normalize-space('x" + w + "'))", "concat('[', normalize-space('" + w + "'), ']')",
			"string-length('" + w + "')", "contains('a" + w + "b', '" + w + "')", "translate('a" + w + "b', '" + w + "', '-')", "substring-before('a" + w + "b', '" + w + "')", "number('" + w + "7') = 7"} {
			g.add(&Case{Kind: "eval", Doc: d0, Ctx: Ref{0, -1}, Expr: e})
		}
	}
	// node-set arguments that are present on some candidates and absent on others, evaluated for one candidate after
	// the other by one compiled function (an absent node-set is the empty string, whatever the previous candidate had)
	for i := 0; i < g.scale(3000, 30000); i++ {
		d := pool[r.intn(len(pool))]
		a1, a2 := r.pick([]string{"@k", "@m", "@a", "a", "b", "text()", "."}), r.pick([]string{"@k", "@m", "@a", "a", "b", "text()", "@zz"})
		f := r.pick([]string{"substring-before(" + a1 + ", " + a2 + ")", "substring-after(" + a1 + ", " + a2 + ")", "concat(" + a1 + ", '|', " + a2 + ")", "translate(" + a1 + ", string(" + a2 + "), 'x')",
			"string-join(" + a1 + " | " + a2 + ", string(" + a2 + "))", "normalize-space(" + a2 + ")", "substring(" + a1 + ", 1, string-length(" + a2 + "))", "lower-case(" + a2 + ")"})
		e := "//*[" + f + " " + r.pick([]string{"=", "!="}) + " " + r.pick([]string{"''", "'a'", "'1'", a1, "'|'"}) + "]"
		if r.chance(1, 3) {
			e = "count(//*[" + f + " = " + a1 + "])"
			g.add(&Case{Kind: "eval", Doc: d, Ctx: Ref{0, -1}, Expr: e})
			continue
		}
		g.add(&Case{Kind: "sel", Doc: d, Ctx: Ref{0, -1}, Expr: e})
	}
	// an earlier argument that walks the context node away (a filtered, positional or following:: path): the later
	// arguments are evaluated at the same context node
	for i := 0; i < g.scale(3000, 30000); i++ {
		d := pool[r.intn(len(pool))]
		m, p := genMovingPath(r), genFlatPath(r)
		e := r.pick([]string{"concat(" + m + ", '|', " + p + ")", "concat(" + m + ", " + p + ", " + genMovingPath(r) + ", " + p + ")", "translate(" + m + ", 'a', string(" + p + "))",
			"substring('abcdef', count(" + m + "), count(" + p + "))", "substring-before(concat(" + m + ", '-', " + p + "), '-')", "substring-after(concat(" + m + ", '-', " + p + "), '-')",
			"contains(concat(" + m + ", '|', " + p + "), '|a')", "starts-with(concat(" + m + ", " + p + "), string(" + p + "))", "string-join(" + m + " | " + p + ", string(" + p + "))",
			"normalize-space(concat(" + m + ", ' ', " + p + "))", "string-length(concat(" + m + ", " + p + "))", "lower-case(concat(" + m + ", " + p + "))"})
		g.add(&Case{Kind: "eval", Doc: d, Ctx: pickNodeCtx(r, d), Expr: e})
	}
	// a string function that is abandoned half-way (a later argument raises the package's argument-type error) must
	// leave nothing behind for the next evaluation (pooled buffers, memoised arguments)
	preludes := []string{"concat('id-', substring('12345', 'x'))", "concat('zz', 'y', starts-with(1, 'a'))", "normalize-space(concat(' q ', substring('x', 'y')))",
		"concat('p', replace('a', '(', 'b'))", "concat('m', matches('a', string(//zzz | '(')))", "string-join(//*, substring('a', 'b'))", "concat('t', translate('a', 'b', substring('c', 'd')))",
		"concat('long-prefix-', concat('inner-', substring('12345', 'x')))", "lower-case(concat('AB', substring('x', 'y')))"}
	follow := []string{"concat('a', 'b')", "normalize-space('  a   b ')", "concat('', '')", "string-join(//a, ',')", "concat(string(//a), '|')", "translate('abc', 'a', 'x')", "replace('abc', 'b', 'x')",
		"lower-case('AB')", "substring-before('a-b', '-')", "concat('x', normalize-space(' y '))", "string(concat('1', '2') = '12')", "string-length(concat('ab', 'c'))"}
	for i := 0; i < g.scale(600, 6000); i++ {
		d := pool[r.intn(len(pool))]
		g.add(&Case{Kind: "eval", Doc: d, Ctx: pickNodeCtx(r, d), Expr: r.pick(follow), Extra: "after:" + hx(r.pick(preludes))})
	}
}

// ---- C10 ----
var binOps = []string{"or", "and", "=", "!=", "<", "<=", ">", ">=", "+", "-", "*", "div", "mod", "|"}

func genC10(g *genCtx) {
	r := g.r
	// exhaustive operator chains: atoms are paths so that every operator (incl. '|') is applicable
	atoms := []string{"a", "b", "c", "d", "e", "f"}
	maxLen := g.scale(3, 4)
	var rec func(prefix []string)
	rec = func(prefix []string) {
		if len(prefix) >= 1 {
			var sb strings.Builder
			sb.WriteString(atoms[0])
			for i, op := range prefix {
				sb.WriteString(" " + op + " ")
				if r.chance(1, 6) {
					sb.WriteString("-")
				}
				sb.WriteString(atoms[i+1])
			}
			g.add(&Case{Kind: "ast", Expr: sb.String(), Extra: "chain"})
		}
		if len(prefix) == maxLen {
			return
		}
		for _, op := range binOps {
			rec(append(prefix, op))
		}
	}
	rec(nil)
	// unary minus placements
	for _, e := range []string{"-a", "--a", "---a", "- - a", "-a + -b", "-a * -b", "a - -b", "-a | b", "-(a)", "-1", "- 1 - - 1", "2 - -1", "-a mod -b", "-a div b", "-a or -b", "-a = -b"} {
		g.add(&Case{Kind: "ast", Expr: e})
	}
	// number forms at the very end of the text, and with trailing/leading blanks (value must not depend on them)
	for _, e := range []string{"1 + .25", ".5", "2 * .125", "1 = .5", "a[. > .25]", "1 + 0.25", "1 + 25.", "3.", "0.1 + .2", "count(a) * .5", "10 div .4", "1 - .75"} {
		g.add(&Case{Kind: "ast", Expr: e})
		for _, v := range []string{e + " ", " " + e, e + "\n", "(" + e + ")", e + "\t "} {
			d := Doc{{Depth: 0, Kind: 'r'}, {Depth: 1, Kind: 'e', Name: "a"}}
			g.add(&Case{Kind: "meta", Doc: d, Ctx: Ref{0, -1}, Expr: e, Extra: "val;0;" + hx(v)})
		}
	}
	for _, e := range []string{"- - a", "- - - a", "- - - - a", "a - - b", "a - - - b", "- a * - - b", "- - a | b", "a or - - b", "- - a = - - b", "a + - - b * c", "- - a div - b"} {
		g.add(&Case{Kind: "ast", Expr: e, Extra: "chain"})
	}
	// a prefix wildcard directly before an operator name / operator symbol / bracket
	for _, t := range []string{"p:*", "q:*", "p:a", "*"} {
		for _, op := range []string{"and", "or", "div", "mod", "=", "|", "*", "+"} {
			g.add(&Case{Kind: "ast", Expr: "//x[" + t + " " + op + " " + t + "]"})
			g.add(&Case{Kind: "ast", Expr: t + " " + op + " b"})
		}
	}
	// whitespace placements: the same token sequence with different separators must parse alike
	pool := docPool(r, plainProfile, 4, 1, 20, 10)
	seps := []string{"", " ", "\t", "\n", "  "}
	for i := 0; i < g.scale(6000, 40000); i++ {
		toks := genTokens(r)
		base := joinTokens(toks, func(int) string { return " " })
		variant := joinTokens(toks, func(k int) string {
			if needSep(toks[k], toks[k+1]) {
				return r.pick(seps[1:])
			}
			return r.pick(seps)
		})
		d := pool[r.intn(len(pool))]
		ctx := pickNodeCtx(r, d)
		g.add(&Case{Kind: "meta", Doc: d, Ctx: ctx, Expr: base, Extra: "ast;" + ctx.String() + ";" + hx(variant)})
		g.add(&Case{Kind: "meta", Doc: d, Ctx: ctx, Expr: base, Extra: "val;" + ctx.String() + ";" + hx(variant)})
	}
	// whole expressions of every fragment: the package's tree = the model's tree = the tree the full reference
	// grammar (Spec/FullGrammar.lean) assigns, with and without namespace maps
	nsMaps := []map[string]string{nil, nil, {"p": "urn:p", "q": "urn:q", "x": "urn:p"}}
	nsTests := []string{"a", "p:a", "q:*", "*", "x:b", "@p:k", "@*", "@q:*", "text()", "node()", "comment()", "processing-instruction()", "processing-instruction('t')"}
	for i := 0; i < g.scale(8000, 80000); i++ {
		var e string
		ns := nsMaps[0]
		switch r.intn(6) {
		case 0:
			ns = nsMaps[r.intn(len(nsMaps))]
			e = r.pick([]string{"", "/", "//", ".//", "../"}) + r.pick(nsTests) + r.pick([]string{"", "/" + r.pick(nsTests), "[" + r.pick(nsTests) + "]", "[" + r.pick(nsTests) + " " + r.pick([]string{"and", "or", "=", "|"}) + " " + r.pick(nsTests) + "]", "//" + r.pick(nsTests)})
		case 1:
			toks := genTokens(r)
			e = joinTokens(toks, func(int) string { return " " })
		default:
			e = genAnyExpr(r)
		}
		g.add(&Case{Kind: "ast", NS: ns, Expr: e})
	}
	// abbreviations vs expansions
	for i := 0; i < g.scale(6000, 40000); i++ {
		ab, ex := genAbbrevPair(r)
		d := pool[r.intn(len(pool))]
		ctx := pickNodeCtx(r, d)
		g.add(&Case{Kind: "meta", Doc: d, Ctx: ctx, Expr: ab, Extra: "seq;" + ctx.String() + ";" + hx(ex)})
		if i%4 == 0 {
			g.add(&Case{Kind: "meta", Doc: d, Ctx: ctx, Expr: ab, Extra: "plan;" + ctx.String() + ";" + hx(ex)})
		}
	}
}

// token-level expression for the whitespace metamorphic test
func genTokens(r *rng) []string {
	var toks []string
	var expr func(depth int)
	path := func() {
		if r.chance(1, 4) {
			toks = append(toks, r.pick([]string{"/", "//"}))
		}
		n := 1 + r.intn(3)
		for i := 0; i < n; i++ {
			if i > 0 {
				toks = append(toks, r.pick([]string{"/", "//"}))
			}
			switch r.intn(8) {
			case 0:
				toks = append(toks, ".")
			case 1:
				toks = append(toks, "..")
			case 2:
				toks = append(toks, "@", r.pick([]string{"k", "*", "a"}))
			case 3:
				toks = append(toks, r.pick(axes12), "::", r.pick([]string{"a", "*"}))
			case 4:
				toks = append(toks, r.pick([]string{"node", "text", "comment"}), "(", ")")
			default:
				toks = append(toks, r.pick([]string{"a", "b", "*", "c"}))
			}
		}
	}
	expr = func(depth int) {
		switch {
		case depth <= 0 || r.chance(1, 3):
			switch r.intn(6) {
			case 0:
				toks = append(toks, r.pick([]string{"1", "2.5", ".5", "10"}))
			case 1:
				toks = append(toks, r.pick([]string{"'x'", "\"1\"", "''"}))
			default:
				path()
				if r.chance(1, 4) && depth > 0 {
					toks = append(toks, "[")
					expr(depth - 1)
					toks = append(toks, "]")
				}
			}
		case r.chance(1, 5):
			toks = append(toks, "(")
			expr(depth - 1)
			toks = append(toks, ")")
		case r.chance(1, 5):
			toks = append(toks, r.pick([]string{"count", "not", "boolean", "string", "number"}), "(")
			if toks[len(toks)-2] == "count" {
				path()
			} else {
				expr(depth - 1)
			}
			toks = append(toks, ")")
		case r.chance(1, 6):
			toks = append(toks, "-")
			expr(depth - 1)
		default:
			expr(depth - 1)
			toks = append(toks, r.pick(binOps[:13]))
			expr(depth - 1)
		}
	}
	expr(1 + r.intn(3))
	return toks
}

func isWordTok(t string) bool {
	c := t[0]
	return (c >= 'a' && c <= 'z') || (c >= 'A' && c <= 'Z') || (c >= '0' && c <= '9') || c == '.' && len(t) > 1 && t != ".."
}

// needSep: XPath requires a separator between the two tokens (otherwise they would lex as one token)
func needSep(a, b string) bool {
	wordish := func(t string) bool { return isWordTok(t) || t == "." || t == ".." }
	if wordish(a) && wordish(b) {
		return true
	}
	// name followed by '-' or '.' or digit would extend the name; '-' followed by name is fine
	if isWordTok(a) && (b == "-" || b == "." || b == "..") {
		return true
	}
	if (a == "." || a == "..") && (b == "." || b == ".." || isWordTok(b)) {
		return true
	}
	if a == "/" && (b == "/" || b == "//") || a == "//" && (b == "/" || b == "//") {
		return true
	}
	if (a == "<" || a == ">" || a == "!") && b == "=" {
		return true
	}
	// a name directly followed by ':' forms a QName / axis; the generator never emits ':' alone
	if isWordTok(a) && b == "::" {
		return false
	}
	if a == "*" && isWordTok(b) || isWordTok(a) && b == "*" {
		// '*' after a name is the multiply operator in XPath 1.0; before a name it is a name test followed by an operator name
		return false
	}
	return false
}

func joinTokens(toks []string, sep func(i int) string) string {
	var sb strings.Builder
	for i, t := range toks {
		sb.WriteString(t)
		if i+1 < len(toks) {
			sb.WriteString(sep(i))
		}
	}
	return sb.String()
}

// genAbbrevPair returns an abbreviated path and its expansion.
func genAbbrevPair(r *rng) (string, string) {
	if r.chance(1, 5) {
		// FilterExpr '//' RelativeLocationPath:  (E)//t  =  (E)/descendant-or-self::node()/t
		head := r.pick([]string{"(" + genPathPF(r, 1, nodeTests) + ")", "(" + genFilteredPath(r, 0) + ")", "(" + genPathPF(r, 1, nodeTests) + ")[" + genBoolPred(r, 0) + "]", "(.)", "(//a | //b)"})
		t := r.pick([]string{"a", "b", "*", "node()", "text()", "@k"})
		tail := r.pick([]string{"", "/..", "/@*", "[1]"})
		return head + "//" + t + tail, head + "/descendant-or-self::node()/" + t + tail
	}
	var ab, ex strings.Builder
	switch r.intn(3) {
	case 1:
		ab.WriteString("/")
		ex.WriteString("/")
	case 2:
		ab.WriteString("//")
		ex.WriteString("/descendant-or-self::node()/")
	}
	n := 1 + r.intn(3)
	for i := 0; i < n; i++ {
		if i > 0 {
			if r.chance(1, 3) {
				ab.WriteString("//")
				ex.WriteString("/descendant-or-self::node()/")
			} else {
				ab.WriteString("/")
				ex.WriteString("/")
			}
		}
		t := r.pick([]string{"a", "b", "*", "node()", "text()"})
		switch r.intn(6) {
		case 0:
			ab.WriteString(".")
			ex.WriteString("self::node()")
		case 1:
			ab.WriteString("..")
			ex.WriteString("parent::node()")
		case 2:
			a := r.pick([]string{"k", "*", "a", "m"})
			ab.WriteString("@" + a)
			ex.WriteString("attribute::" + a)
		default:
			ab.WriteString(t)
			ex.WriteString("child::" + t)
		}
	}
	return ab.String(), ex.String()
}

func genC11(g *genCtx) {
	r := g.r
	pool := docPool(r, collideProfile, g.scale(5, 6), g.scale(3, 4), g.scale(80, 300), 20)
	tests := []string{"a", "b", "a-1", "a1", "*", "node()", "text()", "comment()"}
	// one compiled union / sequence selected again and again, on one and on two documents: every selection
	// must yield the whole union (operands must not be shared between the clones)
	for i := 0; i < g.scale(800, 8000); i++ {
		d := pool[r.intn(len(pool))]
		a, b := genPathPF(r, 1+r.intn(2), tests), genPathPF(r, 1+r.intn(2), tests)
		e := a + " | " + b
		if r.chance(1, 4) {
			e = "//*/(" + r.pick(tests) + ", " + r.pick(tests) + ")"
		}
		var ops []string
		var d2 Doc
		if r.chance(1, 2) {
			d2 = pool[r.intn(len(pool))]
			ops = append(ops, "D"+hx(d2.Encode()))
		}
		for k := 0; k < 3+r.intn(3); k++ {
			dd, at := d, ""
			if d2 != nil && r.chance(1, 2) {
				dd, at = d2, "@"
			}
			ops = append(ops, fmt.Sprintf("S%s%s:-1", at, pickNodeCtx(r, dd)))
		}
		g.add(&Case{Kind: "hist", Doc: d, Ctx: Ref{0, -1}, Expr: e, Extra: strings.Join(ops, ";")})
	}
	for i := 0; i < 60; i++ {
		g.add(&Case{Kind: "key", Doc: pool[r.intn(len(pool))], Ctx: Ref{0, -1}})
	}
	// hand-built collision family: element a-1 (2nd child) and its child a
	for i := 0; i < g.scale(25000, 250000); i++ {
		d := pool[r.intn(len(pool))]
		a := genPathPF(r, 1+r.intn(2), tests)
		var b string
		switch r.intn(5) {
		case 0:
			b = a
		case 1:
			b = a + "/" + stepStr(r, r.pick(axes12), r.pick(tests))
		default:
			b = genPathPF(r, 1+r.intn(2), tests)
		}
		var e string
		switch r.intn(8) {
		case 6:
			// a left operand that rejects candidates (and so moves the shared cursor) before a relative right operand
			e = r.pick(tests) + "[" + r.pick([]string{"@k", "@a", "a", "b", "@zz", "text()", "*", "not(*)", "@k='1'"}) + "] | " + r.pick(tests)
		case 7:
			e = "./(" + r.pick(tests) + "[" + r.pick([]string{"@k", "a", "@zz", "*"}) + "], " + r.pick(tests) + ")"
		case 0:
			e = a + " | " + b + " | " + genPathPF(r, 1, tests)
		case 1:
			// sequence form p/(x, y): members are steps of any axis, the input any path (incl. explicit descendant steps)
			mem := func() string {
				if r.chance(1, 2) {
					return r.pick(tests)
				}
				return r.pick([]string{"descendant::" + r.pick(tests), "descendant-or-self::" + r.pick(tests), "@*", "@k", ".", "..", "following-sibling::" + r.pick(tests), "ancestor::*", "self::a", "parent::*/" + r.pick(tests)})
			}
			e = r.pick([]string{"//*", "/*", ".", "//a", "*", "descendant::a", "/descendant::*", "descendant-or-self::*", "//a/descendant::b", "/*/descendant::a", "a | b"}) + "/(" + mem() + ", " + mem() + r.pick([]string{"", "", ", " + mem()}) + ")"
		case 2:
			e = "//@* | //text() | " + a
		default:
			e = a + " | " + b
		}
		g.add(&Case{Kind: "sel", Doc: d, Ctx: pickCtx(r, d), Expr: e})
	}
	// operands and sequence members that carry the comparison / count / string-test predicates of the C02 fragment
	for i := 0; i < g.scale(3000, 30000); i++ {
		d := pool[r.intn(len(pool))]
		pr := func() string {
			return r.pick([]string{"@k = @a", "@k != @b", "a = b", "* < @k", "@k >= '1'", "'2' > @a", "count(*) = 1", "count(@*) > 1", "contains(@k, 'a')", "starts-with(local-name(), 'a')",
				"local-name() = 'a'", "not(count(*))", "a = '1' or @k < @a", "contains(@k, @a)"})
		}
		op := func() string { return r.pick([]string{"//*", "*", "//a", "/*/*", "descendant::*", "//" + r.pick(tests)}) + "[" + pr() + "]" }
		var e string
		switch r.intn(4) {
		case 0:
			e = op() + " | " + op() + " | " + genPathPF(r, 1, tests)
		case 1:
			e = r.pick([]string{"//*", "/*", "."}) + "/(" + r.pick(tests) + "[" + pr() + "], " + r.pick(tests) + "[" + pr() + "])"
		case 2:
			e = "(" + op() + ")[" + pr() + "] | " + op()
		default:
			e = op() + " | " + op()
		}
		g.add(&Case{Kind: "sel", Doc: d, Ctx: pickCtx(r, d), Expr: e})
	}
	// a union (or sequence) inside a predicate is evaluated again for every candidate; its operands reach nodes that
	// other candidates reach too (parent, ancestors, siblings, absolute paths): each evaluation starts from nothing
	for i := 0; i < g.scale(4000, 40000); i++ {
		d := pool[r.intn(len(pool))]
		o := func() string {
			return r.pick([]string{"..", "../" + r.pick(tests), "ancestor::*", "preceding-sibling::" + r.pick(tests), "following-sibling::" + r.pick(tests), "//" + r.pick(tests), "/*", r.pick(tests), "@*", "../@*", "."})
		}
		u := o() + " | " + o()
		if r.chance(1, 4) {
			u = "./(" + o() + ", " + o() + ")"
		}
		e := r.pick([]string{"//*", "//a", "*", "//*/*"}) + "[" + r.pick([]string{u, "(" + u + ")/@k", "count(" + u + ") > 1", "not(" + u + ")", "(" + u + ")[2]", u + " | " + o()}) + "]"
		g.add(&Case{Kind: "sel", Doc: d, Ctx: pickCtx(r, d), Expr: e})
	}
	// very wide documents: children that differ only in a position far beyond any small bound (65 536 and more
	// siblings apart) are still different nodes
	for _, ij := range [][2]int{{1, 65537}, {3, 65539}, {2, 2}, {1, 257}, {7, 65543}, {100, 65636}, {1, 65536}, {255, 256}, {4097, 69633}} {
		g.add(&Case{Kind: "wide", Extra: fmt.Sprintf("%d;%d;%d", 70000, ij[0], ij[1])})
	}
}

func genC12(g *genCtx) {
	r := g.r
	pool := docPool(r, plainProfile, g.scale(5, 6), g.scale(2, 3), g.scale(80, 300), 30)
	for i := 0; i < g.scale(25000, 250000); i++ {
		d := pool[r.intn(len(pool))]
		var e string
		flat := ""
		switch r.intn(10) {
		case 0, 1, 2, 3:
			e = genFlatPath(r)
			flat = ";flat" // document order, no repetition, the oracle's node set
		case 4:
			// flat path with C02/C03 predicates
			e = r.pick([]string{"a", "*", "node()"}) + "[" + genBoolPred(r, 0) + "]/" + r.pick([]string{"b", "*", "@*", "text()"})
		case 5:
			e = r.pick([]string{"a", "*"}) + "[" + r.pick(posPreds) + "]/" + r.pick([]string{"b", "*", "@*"})
			flat = ";flat"
		case 6:
			if r.chance(1, 2) {
				e = "reverse(" + stepStr(nil, r.pick(axes12), r.pick(nodeTests)) + ")"
			} else {
				e = "reverse(" + genFlatPath(r) + ")"
			}
		case 7:
			e = "count(" + r.pick([]string{genFlatPath(r), genPathPF(r, 2, nodeTests), genFilteredPath(r, 0)}) + ")"
		case 8:
			e = genPathPF(r, 1+r.intn(2), nodeTests) + " | " + genPathPF(r, 1, nodeTests)
		default:
			e = r.pick([]string{genPathPF(r, 2, nodeTests), genFilteredPath(r, 1), genPositional(r)})
		}
		ctx := pickNodeCtx(r, d)
		if r.chance(1, 8) {
			ctx = pickCtx(r, d) // attribute context nodes too
		}
		g.add(&Case{Kind: "iter", Doc: d, Ctx: ctx, Expr: e, Extra: fmt.Sprint(r.intn(6)) + flat})
	}
	// the same relations on a compiled expression that is used again: Select twice, Evaluate, an abandoned Select,
	// another context node
	for i := 0; i < g.scale(2500, 25000); i++ {
		d := pool[r.intn(len(pool))]
		e := r.pick([]string{genFlatPath(r), genFlatPath(r), "./" + genFlatPath(r), "self::*/" + genFlatPath(r), genFlatPath(r) + "/.", genPathPF(r, 2, nodeTests),
			"reverse(" + genFlatPath(r) + ")", "count(" + genFlatPath(r) + ")", genFilteredPath(r, 0), ".//" + r.pick(nodeTests)})
		c1, c2 := pickNodeCtx(r, d).String(), pickNodeCtx(r, d).String()
		ops := []string{"S" + c1 + ":-1", "S" + c1 + ":-1", "E" + c1, "S" + c2 + ":1", "S" + c1 + ":-1", "E" + c2, "S" + c2 + ":-1"}
		g.add(&Case{Kind: "hist", Doc: d, Ctx: Ref{0, -1}, Expr: e, Extra: strings.Join(ops[:3+r.intn(5)], ";")})
	}
	// attribute nodes reaching another step indirectly (through self steps, or as the context node): an attribute
	// has no attributes and no children
	for i := 0; i < g.scale(800, 8000); i++ {
		d := pool[r.intn(len(pool))]
		head := r.pick([]string{"", "*/", "a/", "//*/", "node()/", "./"})
		mid := r.pick([]string{"@*", "@k", "attribute::node()", "@*/.", "@*/self::node()", "@k/./.", "@*/self::node()/."})
		tail := r.pick([]string{"@*", "@k", "attribute::*", "*", "node()", "text()", "@*/..", "self::node()/@*", "./@m"})
		g.add(&Case{Kind: "iter", Doc: d, Ctx: pickCtx(r, d), Expr: head + mid + "/" + tail, Extra: fmt.Sprint(r.intn(4)) + ";flat"})
	}
	// reverse(E) yields E's sequence reversed, count(E) its length: every axis, flat paths, filtered paths
	for i := 0; i < g.scale(6000, 60000); i++ {
		d := pool[r.intn(len(pool))]
		ctx := pickNodeCtx(r, d)
		var x string
		switch r.intn(4) {
		case 0:
			x = stepStr(nil, r.pick(axes12), r.pick(nodeTests))
		case 1:
			x = genFlatPath(r)
		case 2:
			x = genPathPF(r, 2, nodeTests)
		default:
			x = genFilteredPath(r, 0)
		}
		if r.chance(1, 2) {
			g.add(&Case{Kind: "meta", Doc: d, Ctx: ctx, Expr: "reverse(" + x + ")", Extra: "rev;" + ctx.String() + ";" + hx(x)})
		} else {
			g.add(&Case{Kind: "meta", Doc: d, Ctx: ctx, Expr: "count(" + x + ")", Extra: "cnt;" + ctx.String() + ";" + hx(x)})
		}
	}
}

// address of node i as an absolute path /node()[k1]/node()[k2]...
func addrOf(d Doc, ref Ref) string {
	i := ref.I
	var idxs []int
	cur := i
	for cur > 0 {
		// position among siblings
		pos := 1
		p := -1
		for j := cur - 1; j >= 0; j-- {
			if d[j].Depth < d[cur].Depth {
				p = j
				break
			}
			if d[j].Depth == d[cur].Depth {
				pos++
			}
		}
		idxs = append([]int{pos}, idxs...)
		cur = p
	}
	s := ""
	for _, k := range idxs {
		s += fmt.Sprintf("/node()[%d]", k)
	}
	if ref.K >= 0 {
		// attributes are addressed by name (unique per element); positional predicates apply to child steps only
		a := d[ref.I].Attrs[ref.K]
		if a.Pfx != "" {
			s += "/@" + a.Pfx + ":" + a.Name
		} else {
			s += "/@" + a.Name
		}
	}
	if s == "" {
		s = "/"
	}
	return s
}

func genC13(g *genCtx) {
	r := g.r
	pool := docPool(r, plainProfile, g.scale(5, 6), 2, g.scale(60, 200), 18)
	for i := 0; i < g.scale(20000, 200000); i++ {
		d := pool[r.intn(len(pool))]
		n := pickCtx(r, d)
		root := Ref{0, -1}
		switch r.intn(8) {
		case 0, 1, 2:
			// absolute expression: same from every start node
			var e string
			switch r.intn(4) {
			case 0:
				e = "/" + genPathPF(r, 1+r.intn(2), nodeTests)
				e = strings.Replace(e, "///", "//", 1)
				if strings.HasPrefix(e, "//") && len(e) > 2 && e[2] == '/' {
					e = e[1:]
				}
			case 1:
				e = "//" + r.pick([]string{"a", "b", "*"}) + "[" + genBoolPred(r, 1) + "]"
			case 2:
				e = "count(//" + r.pick([]string{"a", "b", "*", "@k"}) + ")"
			default:
				e = "//a | /*/b"
			}
			mode := "seq"
			if strings.HasPrefix(e, "count") {
				mode = "val"
			}
			g.add(&Case{Kind: "meta", Doc: d, Ctx: n, Expr: e, Extra: mode + ";" + root.String() + ";" + hx(e)})
		case 3, 4, 5:
			// relative path at n == addr(n)/path from the root
			var p string
			switch r.intn(5) {
			case 0, 1:
				p = genPathPF(r, 1+r.intn(2), nodeTests)
			case 2:
				p = r.pick([]string{"self::*", "self::node()", "self::a", ".", "(.)"}) + "[" +
					r.pick([]string{genBoolPred(r, 1), r.pick([]string{"a", "b", "*"}) + "[" + r.pick([]string{"a", "b", "*", "@k"}) + "]", "following::*", "preceding::node()", "following-sibling::*[1]"}) + "]" +
					r.pick([]string{"", "/a", "/*", "/@*", "/.."})
				if strings.HasPrefix(p, ".[") {
					p = "self::node()" + p[1:]
				}
			default:
				p = genFilteredPath(r, 1)
			}
			if strings.HasPrefix(p, "/") || strings.HasPrefix(p, "(") {
				p = "self::node()" + map[bool]string{true: p, false: "/" + p}[strings.HasPrefix(p, "/") && !strings.HasPrefix(p, "//")]
				if strings.HasPrefix(p, "self::node()(") {
					continue
				}
				continue
			}
			ad := addrOf(d, n)
			full := ad + "/" + p
			if ad == "/" {
				full = "/self::node()/" + p
			}
			g.add(&Case{Kind: "meta", Doc: d, Ctx: n, Expr: p, Extra: "set;" + root.String() + ";" + hx(full)})
		default:
			p := r.pick([]string{genPathPF(r, 1+r.intn(2), nodeTests), genFilteredPath(r, 0),
				r.pick([]string{"a", "b", "*", "node()"}) + "[" + r.pick([]string{"a", "b", "@k", "@zz", "*", "text()", "not(*)"}) + "]",
				r.pick([]string{"a", "b", "*"}) + "[" + genBoolPred(r, 0) + "]"})
			if r.chance(1, 5) {
				// paths whose last step carries a positional predicate (C03's forms): `[true()]` appended to the step
				// itself or to the parenthesised path
				p = genPositional(r)
				if !strings.HasPrefix(p, "(") && !strings.HasPrefix(p, "/") {
					g.add(&Case{Kind: "meta", Doc: d, Ctx: n, Expr: p, Extra: "set;" + n.String() + ";" + hx(p+"[true()]")})
				}
			}
			if strings.HasPrefix(p, "(") {
				continue
			}
			switch r.intn(4) {
			case 0:
				if r.chance(1, 2) {
					g.add(&Case{Kind: "meta", Doc: d, Ctx: n, Expr: p, Extra: "set;" + n.String() + ";" + hx(p+"[true()]")})
					continue
				}
				g.add(&Case{Kind: "meta", Doc: d, Ctx: n, Expr: p, Extra: "set;" + n.String() + ";" + hx("("+p+")[true()]")})
			case 1:
				g.add(&Case{Kind: "meta", Doc: d, Ctx: n, Expr: p, Extra: "seq;" + n.String() + ";" + hx("("+p+")")})
			case 2:
				g.add(&Case{Kind: "meta", Doc: d, Ctx: n, Expr: p, Extra: "set;" + n.String() + ";" + hx(p+" | "+p)})
			default:
				g.add(&Case{Kind: "meta", Doc: d, Ctx: n, Expr: "boolean(" + p + ")", Extra: "val;" + n.String() + ";" + hx("not(not("+p+"))")})
			}
		}
	}
	// the context node of the evaluation stays where it is while the nodes of a query are drawn (observed through
	// a hook that calls the query's Select directly; the iterator's MoveNext moves it onto each result by design)
	for i := 0; i < g.scale(4000, 40000); i++ {
		d := pool[r.intn(len(pool))]
		e := r.pick([]string{genMovingPath(r), genFilteredPath(r, 1), genPositional(r), genFlatPath(r), genPathPF(r, 2, nodeTests),
			genMovingPath(r) + " | " + genFlatPath(r), genFlatPath(r) + "/(" + genMovingPath(r) + ", " + r.pick(nodeTests) + ")",
			"preceding::" + r.pick(nodeTests) + "[" + genBoolPred(r, 0) + "]", "following::*/" + genMovingPath(r), "(" + genMovingPath(r) + ")[" + genBoolPred(r, 0) + "]"})
		g.add(&Case{Kind: "ctx", Doc: d, Ctx: pickCtx(r, d), Expr: e})
	}
}

func genC14(g *genCtx) {
	r := g.r
	pool := docPool(r, nsProfile, g.scale(4, 5), g.scale(3, 4), g.scale(60, 200), 14)
	maps := []map[string]string{nil, nil, {"p": "urn:p"}, {"p": "urn:p", "q": "urn:q"}, {"x": "urn:p"}, {"p": "urn:q"}, {}, {"q": "urn:p", "p": "urn:d"}, {"p": ""}}
	// name tests of all three forms of XPath's NameTest: QName, '*', and NCName:'*'
	qn := []string{"a", "b", "p:a", "q:a", "p:b", "x:a", "q:b", "*", "p:*", "q:*", "x:*"}
	for i := 0; i < g.scale(25000, 250000); i++ {
		d := pool[r.intn(len(pool))]
		ns := maps[r.intn(len(maps))]
		nons := ns == nil && r.chance(1, 3)
		var e string
		kind := "sel"
		switch r.intn(8) {
		case 0, 1, 2:
			e = stepStr(nil, r.pick(axes12), r.pick(qn))
			if r.chance(1, 2) {
				e = "//*/" + e
			}
		case 3:
			e = "//" + r.pick(qn) + "/@" + r.pick([]string{"k", "p:k", "q:a", "a", "*", "x:k", "p:*", "q:*"})
		case 4:
			kind = "eval"
			e = r.pick([]string{"name", "local-name", "namespace-uri"}) + "(" + r.pick([]string{"", ".", "//*", "//@*", "//p:a", "*", "@*", "//text()", "//zzz", "..", "//comment()"}) + ")"
		case 5:
			kind = "eval"
			e = "count(//" + r.pick(qn) + ")"
		case 6:
			if r.chance(1, 2) {
				// a prefixed test directly followed by an operator name
				e = "//*[" + r.pick(qn) + " " + r.pick([]string{"and", "or"}) + " " + r.pick(qn) + "]"
			} else {
				e = "//*[" + r.pick([]string{"name()", "local-name()", "namespace-uri()"}) + " = " + r.pick([]string{"'a'", "'p:a'", "'urn:p'", "''", "'q:a'", "'b'"}) + "]"
			}
		default:
			e = genPathPF(r, 2, qn)
		}
		g.add(&Case{Kind: kind, Doc: d, Ctx: pickCtx(r, d), NS: ns, NoNS: nons, Expr: e})
	}
	// a name test followed by an operator name means what it means between parentheses
	for i := 0; i < g.scale(1500, 10000); i++ {
		d := pool[r.intn(len(pool))]
		ns := maps[2+r.intn(4)]
		ctx := pickCtx(r, d)
		t1, t2 := r.pick(qn), r.pick(qn)
		op := r.pick([]string{"and", "or"})
		e1 := "//*[" + t1 + " " + op + " " + t2 + "]"
		e2 := "//*[(" + t1 + ") " + op + " (" + t2 + ")]"
		if r.chance(1, 3) {
			e1 = "count(" + t1 + ") " + r.pick([]string{"div", "mod"}) + " 2"
			e2 = "count((" + t1 + ")) " + e1[len(e1)-5:len(e1)-2] + " 2"
			g.add(&Case{Kind: "meta", Doc: d, Ctx: ctx, NS: ns, Expr: e1, Extra: "val;" + ctx.String() + ";" + hx(e2)})
			continue
		}
		g.add(&Case{Kind: "meta", Doc: d, Ctx: ctx, NS: ns, Expr: e1, Extra: "set;" + ctx.String() + ";" + hx(e2)})
	}
	// compile-only: unbound prefixes must be errors with a map, fine without
	for _, e := range []string{"p:a", "//q:b/@p:k", "x:a", "a/x:*", "zz:a[1]", "a[zz:b]", "count(zz:a)", "a[zz:b and p:a]", "//*[p:a or zz:b]", "zz:a div 2", "a[zz:b mod 2 = 1]", "p:a and zz:b"} {
		for _, m := range maps {
			g.add(&Case{Kind: "compile", NS: m, Expr: e})
		}
	}
}
