package main

import (
	"bufio"
	"fmt"
	"math"
	"os"
	"runtime"
	"runtime/debug"
	"sort"
	"strconv"
	"strings"
	"sync/atomic"
	"time"

	"github.com/antchfx/xpath"
)

func refsStr(rs []Ref) string {
	var parts []string
	for _, r := range rs {
		parts = append(parts, r.String())
	}
	return strings.Join(parts, ",")
}

func numStr(f float64) string {
	if math.IsNaN(f) {
		return "num:nan"
	}
	return fmt.Sprintf("num:%016x", math.Float64bits(f))
}

// classify a recovered panic value: runtime errors are crashes, other errors are deliberate.
func panicClass(e interface{}) string {
	switch x := e.(type) {
	case runtime.Error:
		msg := x.Error()
		switch {
		case strings.Contains(msg, "nil pointer") || strings.Contains(msg, "invalid memory address"):
			return "crash:nil"
		case strings.Contains(msg, "index out of range") || strings.Contains(msg, "slice bounds"):
			return "crash:index"
		case strings.Contains(msg, "divide by zero"):
			return "crash:div"
		case strings.Contains(msg, "interface conversion") || strings.Contains(msg, "type assertion"):
			return "crash:assert"
		}
		return "crash:other"
	case error:
		// *strconv.NumError leaking out of a comparison is not an argument-type complaint
		if _, ok := x.(*strconv.NumError); ok {
			return "crash:numerror"
		}
		// a value of an undocumented dynamic type reached a conversion or the comparison dispatch
		if strings.Contains(x.Error(), "unknown value type") || strings.Contains(x.Error(), "unexpected type") {
			return "crash:type"
		}
		return "raised"
	case string:
		return "raised"
	}
	return "crash:other"
}

func compileCase(c *Case) (*xpath.Expr, error) {
	if c.NS != nil {
		return xpath.CompileWithNS(c.Expr, c.NS)
	}
	return xpath.Compile(c.Expr)
}

// mustCompileOutcome: "" when MustCompile returned a non-nil expression without panicking and, for an
// input Compile rejects, that expression can be used (String, Select and Evaluate answer); else what went wrong.
func mustCompileOutcome(expr string) (out string) {
	stage := "mustpanic"
	defer func() {
		if r := recover(); r != nil {
			out = fmt.Sprintf("%s:%v", stage, r)
			if len(out) > 200 {
				out = out[:200]
			}
		}
	}()
	m := xpath.MustCompile(expr)
	if m == nil {
		return "mustnil"
	}
	if _, err := xpath.Compile(expr); err == nil {
		return ""
	}
	stage = "mustunusable"
	if m.String() != expr {
		return "mustunusable:String"
	}
	tr := BuildTree(Doc{{Depth: 0, Kind: 'r'}, {Depth: 1, Kind: 'e', Name: "a"}, {Depth: 2, Kind: 't', Data: "x"}})
	nav := &Nav{t: tr, cur: tr.nodes[1], attr: -1}
	it := m.Select(nav)
	if it == nil {
		return "mustunusable:Select=nil"
	}
	for k := 0; it.MoveNext(); k++ {
		if it.Current() == nil || k > 8 {
			return "mustunusable:Select"
		}
	}
	switch v := m.Evaluate(nav).(type) {
	case nil, bool, float64, string:
	case *xpath.NodeIterator:
		for k := 0; v.MoveNext(); k++ {
			if k > 8 {
				return "mustunusable:Evaluate"
			}
		}
	default:
		return fmt.Sprintf("mustunusable:Evaluate=%T", v)
	}
	return ""
}

func drain(it *xpath.NodeIterator, max int) ([]Ref, bool) {
	var out []Ref
	for it.MoveNext() {
		out = append(out, RefOf(it.Current()))
		if len(out) > max {
			return out, false
		}
	}
	return out, true
}

const maxResults = 100000

func valueStr(v interface{}) string {
	switch x := v.(type) {
	case nil:
		return "nil"
	case bool:
		if x {
			return "bool:1"
		}
		return "bool:0"
	case float64:
		return numStr(x)
	case string:
		return "str:" + hx(x)
	case *xpath.NodeIterator:
		rs, ok := drain(x, maxResults)
		if !ok {
			return "diverge"
		}
		return "seq:" + refsStr(rs)
	}
	return fmt.Sprintf("badtype:%T", v)
}

// runCase executes one case against the real package and returns the result field.
func runCase(c *Case) (res string) {
	defer func() {
		if e := recover(); e != nil {
			res = "panic:" + panicClass(e)
		}
	}()
	var tree *Tree
	if c.Doc != nil {
		tree = BuildTree(c.Doc)
	}
	withNS := !c.NoNS
	switch c.Kind {
	case "compile":
		e, err := compileCase(c)
		if err != nil {
			if e != nil {
				return "both"
			}
			// MustCompile must answer on the rejected inputs too, with something that can be used
			if must := mustCompileOutcome(c.Expr); must != "" {
				return must
			}
			return "cerr"
		}
		if e == nil {
			return "neither"
		}
		if must := mustCompileOutcome(c.Expr); must != "" {
			return must
		}
		return "ok"
	case "ast":
		s, err := xpath.VerifParseDump(c.Expr, c.NS)
		if err != nil {
			return "cerr"
		}
		return "ast:" + s
	case "plan":
		s, err := xpath.VerifPlanDump(c.Expr, c.NS)
		if err != nil {
			return "cerr"
		}
		return "plan:" + s
	case "sel":
		e, err := compileCase(c)
		if err != nil {
			return "cerr"
		}
		it := e.Select(tree.At(c.Ctx, withNS))
		rs, ok := drain(it, maxResults)
		if !ok {
			return "diverge"
		}
		return "seq:" + refsStr(rs)
	case "eval":
		if strings.HasPrefix(c.Extra, "after:") {
			// a prelude evaluated first in the same process and goroutine (its outcome — usually a deliberate error
			// raised half-way through a function — is not judged): what it leaves behind must not show in the case
			func() {
				defer func() { recover() }()
				if pe, err := xpath.Compile(unhx(c.Extra[6:])); err == nil {
					pe.Evaluate(tree.At(c.Ctx, withNS))
				}
			}()
		}
		e, err := compileCase(c)
		if err != nil {
			return "cerr"
		}
		return valueStr(e.Evaluate(tree.At(c.Ctx, withNS)))
	case "meta":
		return runMeta(c, tree)
	case "hist":
		return runHist(c, tree)
	case "iter":
		return runIter(c, tree)
	case "nav":
		return runNav(c, tree)
	case "key":
		var parts []string
		for _, r := range c.Doc.AllRefs() {
			parts = append(parts, hx(xpath.VerifNodeKey(tree.At(r, true))))
		}
		return "keys:" + strings.Join(parts, ",")
	case "cache":
		return runCache(c)
	case "cachec":
		return runCacheConc(c)
	case "regex":
		return runRegex(c, tree)
	case "rxcache":
		return runRxCache(c)
	case "tmpl":
		return runTmpl(c, tree)
	case "wide":
		return runWide(c)
	case "growth":
		return runGrowth(c, tree)
	case "cgrowth":
		return runCompileGrowth(c)
	case "rxsel":
		return runRxSel(c, tree)
	case "ctx":
		e, err := compileCase(c)
		if err != nil {
			return "cerr"
		}
		moved, n := xpath.VerifSelectContext(e, tree.At(c.Ctx, withNS), maxResults)
		return fmt.Sprintf("ctx:%d/%d", moved, n)
	}
	return "badkind"
}

func sortedSet(rs []Ref) []Ref {
	seen := map[Ref]bool{}
	var out []Ref
	for _, r := range rs {
		if !seen[r] {
			seen[r] = true
			out = append(out, r)
		}
	}
	sort.Slice(out, func(i, j int) bool {
		if out[i].I != out[j].I {
			return out[i].I < out[j].I
		}
		return out[i].K < out[j].K
	})
	return out
}

// runMeta: extra = mode;ctx2;hex(expr2).  Evaluates (Expr, Ctx) and (expr2, ctx2) in the given mode.
func runMeta(c *Case, tree *Tree) string {
	f := strings.SplitN(c.Extra, ";", 3)
	mode, ctx2, expr2 := f[0], ParseRef(f[1]), unhx(f[2])
	one := func(expr string, ctx Ref) (res string) {
		defer func() {
			if x := recover(); x != nil {
				res = "panic:" + panicClass(x)
			}
		}()
		cc := *c
		cc.Expr = expr
		switch mode {
		case "ast":
			s, err := xpath.VerifParseDump(expr, c.NS)
			if err != nil {
				return "cerr"
			}
			return s
		case "plan":
			s, err := xpath.VerifPlanDump(expr, c.NS)
			if err != nil {
				return "cerr"
			}
			return s
		}
		e, err := compileCase(&cc)
		if err != nil {
			return "cerr"
		}
		if mode == "cnt" && expr == c.Expr {
			return valueStr(e.Evaluate(tree.At(ctx, !c.NoNS)))
		}
		switch mode {
		case "val":
			return valueStr(e.Evaluate(tree.At(ctx, !c.NoNS)))
		case "seq", "set", "rev", "cnt":
			rs, ok := drain(e.Select(tree.At(ctx, !c.NoNS)), maxResults)
			if !ok {
				return "diverge"
			}
			if mode == "set" {
				rs = sortedSet(rs)
			}
			return "seq:" + refsStr(rs)
		}
		return "badmode"
	}
	return "meta:" + one(c.Expr, c.Ctx) + "~" + one(expr2, ctx2)
}

// runHist: extra = ops separated by ';'.  op = S<ctx>:<k>  Select at ctx, k MoveNext calls then abandon (k = -1: drain)
//
//	E<ctx>       Evaluate at ctx
//
// After every op the same op is performed on a freshly compiled expression; the result lists both.
func runHist(c *Case, tree *Tree) string {
	shared, err := compileCase(c)
	if err != nil {
		return "cerr"
	}
	var outs []string
	var tree2 *Tree
	for _, op := range strings.Split(c.Extra, ";") {
		if op == "" {
			continue
		}
		if op[0] == 'D' {
			// a second document (hex of its encoding): ops written S@ctx:k / E@ctx run on it
			tree2 = BuildTree(DecodeDoc(unhx(op[1:])))
			continue
		}
		tr := tree
		if len(op) > 1 && op[1] == '@' {
			if tree2 == nil {
				return "badop"
			}
			tr = tree2
			op = op[:1] + op[2:]
		}
		one := func(e *xpath.Expr) (res string) {
			defer func() {
				if x := recover(); x != nil {
					res = "panic:" + panicClass(x)
				}
			}()
			switch op[0] {
			case 'S':
				p := strings.SplitN(op[1:], ":", 2)
				k, _ := strconv.Atoi(p[1])
				it := e.Select(tr.At(ParseRef(p[0]), !c.NoNS))
				var rs []Ref
				for n := 0; (k < 0 || n < k) && it.MoveNext(); n++ {
					rs = append(rs, RefOf(it.Current()))
					if len(rs) > maxResults {
						return "diverge"
					}
				}
				return "seq:" + refsStr(rs)
			case 'E':
				return valueStr(e.Evaluate(tr.At(ParseRef(op[1:]), !c.NoNS)))
			}
			return "badop"
		}
		got := one(shared)
		fresh, _ := compileCase(c)
		want := one(fresh)
		outs = append(outs, got+"~"+want)
	}
	return "hist:" + strings.Join(outs, ";")
}

// runIter: iterator protocol.  extra = number of extra MoveNext calls after exhaustion.
// Reports the Select sequence, whether Current matched the reported node each time, the results of
// the extra MoveNext calls, and the Evaluate view of the same expression.
func runIter(c *Case, tree *Tree) string {
	e, err := compileCase(c)
	if err != nil {
		return "cerr"
	}
	extra, _ := strconv.Atoi(strings.SplitN(c.Extra, ";", 2)[0]) // "N" or "N;flat"
	it := e.Select(tree.At(c.Ctx, !c.NoNS))
	var rs []Ref
	for it.MoveNext() {
		rs = append(rs, RefOf(it.Current()))
		// Current must be stable between MoveNext calls
		if RefOf(it.Current()) != rs[len(rs)-1] {
			return "current-unstable"
		}
		if len(rs) > maxResults {
			return "diverge"
		}
	}
	after := ""
	for i := 0; i < extra; i++ {
		if it.MoveNext() {
			after += "1"
		} else {
			after += "0"
		}
	}
	ev := valueStr(e.Evaluate(tree.At(c.Ctx, !c.NoNS)))
	return "iter:" + refsStr(rs) + "/" + after + "/" + ev
}

// runNav dumps every move and accessor of the harness navigator on every node (navigator differential).
func runNav(c *Case, tree *Tree) string {
	var sb strings.Builder
	mv := func(r Ref, f func(xpath.NodeNavigator) bool) string {
		n := tree.At(r, true)
		if f(n) {
			return RefOf(n).String()
		}
		return "-"
	}
	for _, r := range c.Doc.AllRefs() {
		n := tree.At(r, true).(*NavNS)
		root := tree.At(r, true)
		root.MoveToRoot()
		fmt.Fprintf(&sb, "%s:%d,%s,%s,%s,%s;%s,%s,%s,%s,%s,%s,%s|", r, n.NodeType(), hx(n.LocalName()), hx(n.Prefix()), hx(n.NamespaceURL()), hx(n.Value()),
			mv(r, func(x xpath.NodeNavigator) bool { return x.MoveToChild() }),
			mv(r, func(x xpath.NodeNavigator) bool { return x.MoveToNext() }),
			mv(r, func(x xpath.NodeNavigator) bool { return x.MoveToPrevious() }),
			mv(r, func(x xpath.NodeNavigator) bool { return x.MoveToParent() }),
			mv(r, func(x xpath.NodeNavigator) bool { return x.MoveToFirst() }),
			mv(r, func(x xpath.NodeNavigator) bool { return x.MoveToNextAttribute() }),
			RefOf(root))
	}
	return "nav:" + sb.String()
}

var currentID atomic.Value

func cmdRun(args []string) {
	in, out := args[0], args[1]
	start := 0
	timeout := 5 * time.Second
	if len(args) > 2 {
		start, _ = strconv.Atoi(args[2])
	}
	if len(args) > 3 {
		ms, _ := strconv.Atoi(args[3])
		timeout = time.Duration(ms) * time.Millisecond
	}
	flushEach := len(args) > 4 && args[4] == "1"
	debug.SetMaxStack(256 << 20)
	fi, err := os.Open(in)
	if err != nil {
		fmt.Fprintln(os.Stderr, err)
		os.Exit(2)
	}
	fo, err := os.OpenFile(out, os.O_APPEND|os.O_CREATE|os.O_WRONLY, 0o644)
	if err != nil {
		fmt.Fprintln(os.Stderr, err)
		os.Exit(2)
	}
	w := bufio.NewWriterSize(fo, 1<<16)
	sc := bufio.NewScanner(fi)
	sc.Buffer(make([]byte, 1<<20), 1<<30)
	var lastBeat atomic.Int64
	lastBeat.Store(time.Now().UnixNano())
	currentID.Store("")
	// watchdog: a case that runs longer than `timeout` is reported and the process exits with 3;
	// the orchestrator restarts after it.
	go func() {
		for {
			time.Sleep(50 * time.Millisecond)
			if time.Duration(time.Now().UnixNano()-lastBeat.Load()) > timeout {
				id := currentID.Load().(string)
				w.Flush()
				fmt.Fprintf(fo, "%s\ttimeout\n", id)
				fo.Sync()
				os.Exit(3)
			}
		}
	}()
	n := 0
	for sc.Scan() {
		n++
		if n <= start {
			continue
		}
		line := sc.Text()
		if line == "" {
			continue
		}
		c, err := ParseCase(line)
		if err != nil {
			fmt.Fprintln(os.Stderr, "line", n, err)
			os.Exit(2)
		}
		currentID.Store(c.ID)
		lastBeat.Store(time.Now().UnixNano())
		heavy := flushEach || len(c.Expr) > 10000
		if heavy {
			w.Flush() // a fatal stack overflow must not lose earlier results
		}
		res := runCase(c)
		fmt.Fprintf(w, "%s\t%s\n", c.ID, res)
		if heavy {
			w.Flush()
		}
	}
	lastBeat.Store(time.Now().Add(time.Hour).UnixNano())
	w.Flush()
	fo.Close()
}
