package main

import (
	"encoding/hex"
	"fmt"
	"strconv"
	"strings"

	"github.com/antchfx/xpath"
)

// Attr is an attribute of an element record.
type Attr struct{ Pfx, Name, NS, Val string }

// Rec is one non-attribute node in document order with its depth.
type Rec struct {
	Depth               int
	Kind                byte // 'r' root, 'e' element, 't' text, 'c' comment
	Pfx, Name, NS, Data string
	Attrs               []Attr
}

// Doc is the pre-order/depth encoding shared with the Lean model.
type Doc []Rec

func hx(s string) string { return hex.EncodeToString([]byte(s)) }
func unhx(s string) string {
	b, err := hex.DecodeString(s)
	if err != nil {
		panic("bad hex: " + s)
	}
	return string(b)
}

func (d Doc) Encode() string {
	if d == nil {
		return "-"
	}
	var sb strings.Builder
	for i, r := range d {
		if i > 0 {
			sb.WriteByte(';')
		}
		fmt.Fprintf(&sb, "%d,%c,%s,%s,%s,%s,", r.Depth, r.Kind, hx(r.Pfx), hx(r.Name), hx(r.NS), hx(r.Data))
		for k, a := range r.Attrs {
			if k > 0 {
				sb.WriteByte('|')
			}
			fmt.Fprintf(&sb, "%s:%s:%s:%s", hx(a.Pfx), hx(a.Name), hx(a.NS), hx(a.Val))
		}
	}
	return sb.String()
}

func DecodeDoc(s string) Doc {
	if s == "-" || s == "" {
		return nil
	}
	var d Doc
	for _, rs := range strings.Split(s, ";") {
		f := strings.Split(rs, ",")
		if len(f) != 7 {
			panic("bad record: " + rs)
		}
		dep, _ := strconv.Atoi(f[0])
		r := Rec{Depth: dep, Kind: f[1][0], Pfx: unhx(f[2]), Name: unhx(f[3]), NS: unhx(f[4]), Data: unhx(f[5])}
		if f[6] != "" {
			for _, as := range strings.Split(f[6], "|") {
				g := strings.Split(as, ":")
				r.Attrs = append(r.Attrs, Attr{unhx(g[0]), unhx(g[1]), unhx(g[2]), unhx(g[3])})
			}
		}
		d = append(d, r)
	}
	return d
}

// WF mirrors XPathV.wfb.
func (d Doc) WF() bool {
	if len(d) == 0 || d[0].Depth != 0 || d[0].Kind != 'r' {
		return false
	}
	for i := 0; i+1 < len(d); i++ {
		if d[i+1].Depth < 1 || d[i+1].Depth > d[i].Depth+1 || d[i+1].Kind == 'r' {
			return false
		}
		if (d[i].Kind == 't' || d[i].Kind == 'c') && d[i+1].Depth > d[i].Depth {
			return false
		}
	}
	for _, r := range d {
		if r.Kind != 'e' && len(r.Attrs) > 0 {
			return false
		}
	}
	return true
}

// tnode is the pointer tree the navigator walks.
type tnode struct {
	idx                             int
	rec                             *Rec
	parent, first, last, prev, next *tnode
}

type Tree struct {
	doc   Doc
	nodes []*tnode
}

func BuildTree(d Doc) *Tree {
	t := &Tree{doc: d, nodes: make([]*tnode, len(d))}
	var stack []*tnode
	for i := range d {
		n := &tnode{idx: i, rec: &d[i]}
		t.nodes[i] = n
		for len(stack) > d[i].Depth {
			stack = stack[:len(stack)-1]
		}
		if len(stack) > 0 {
			p := stack[len(stack)-1]
			n.parent = p
			if p.first == nil {
				p.first = n
			} else {
				p.last.next = n
				n.prev = p.last
			}
			p.last = n
		}
		stack = append(stack, n)
	}
	return t
}

// Ref identifies a node: attribute index K = -1 for a non-attribute node.
type Ref struct{ I, K int }

func (r Ref) String() string {
	if r.K < 0 {
		return strconv.Itoa(r.I)
	}
	return fmt.Sprintf("%d.%d", r.I, r.K)
}

func ParseRef(s string) Ref {
	if i := strings.IndexByte(s, '.'); i >= 0 {
		a, _ := strconv.Atoi(s[:i])
		b, _ := strconv.Atoi(s[i+1:])
		return Ref{a, b}
	}
	a, _ := strconv.Atoi(s)
	return Ref{a, -1}
}

// Nav is the harness NodeNavigator.  It behaves like xmlquery/htmlquery navigators and like the
// suite's TNodeNavigator: from an attribute MoveToParent goes to the owner, MoveToNextAttribute
// advances, every sibling/child move fails.  Lean counterpart: XPathV.Nav.
type Nav struct {
	t    *Tree
	cur  *tnode
	attr int
}

// NavNS additionally exposes NamespaceURL() (the optional interface axisPredicate looks for).
type NavNS struct{ Nav }

func (n *NavNS) NamespaceURL() string {
	if n.attr >= 0 {
		return n.cur.rec.Attrs[n.attr].NS
	}
	if n.cur.rec.Kind == 'e' {
		return n.cur.rec.NS
	}
	return ""
}
func (n *NavNS) Copy() xpath.NodeNavigator { c := *n; return &c }
func (n *NavNS) MoveTo(o xpath.NodeNavigator) bool {
	m, ok := o.(*NavNS)
	if !ok || m.t != n.t {
		return false
	}
	n.cur, n.attr = m.cur, m.attr
	return true
}

func (t *Tree) At(r Ref, withNS bool) xpath.NodeNavigator {
	n := Nav{t: t, cur: t.nodes[r.I], attr: r.K}
	if withNS {
		return &NavNS{n}
	}
	return &n
}

func RefOf(n xpath.NodeNavigator) Ref {
	switch x := n.(type) {
	case *NavNS:
		return Ref{x.cur.idx, x.attr}
	case *Nav:
		return Ref{x.cur.idx, x.attr}
	}
	return Ref{-1, -1}
}

func (n *Nav) NodeType() xpath.NodeType {
	if n.attr >= 0 {
		return xpath.AttributeNode
	}
	switch n.cur.rec.Kind {
	case 'r':
		return xpath.RootNode
	case 'e':
		return xpath.ElementNode
	case 't':
		return xpath.TextNode
	}
	return xpath.CommentNode
}

func (n *Nav) LocalName() string {
	if n.attr >= 0 {
		return n.cur.rec.Attrs[n.attr].Name
	}
	if n.cur.rec.Kind == 'e' {
		return n.cur.rec.Name
	}
	return ""
}

func (n *Nav) Prefix() string {
	if n.attr >= 0 {
		return n.cur.rec.Attrs[n.attr].Pfx
	}
	if n.cur.rec.Kind == 'e' {
		return n.cur.rec.Pfx
	}
	return ""
}

func (n *Nav) Value() string {
	if n.attr >= 0 {
		return n.cur.rec.Attrs[n.attr].Val
	}
	switch n.cur.rec.Kind {
	case 't', 'c':
		return n.cur.rec.Data
	}
	var sb strings.Builder
	var walk func(*tnode)
	walk = func(x *tnode) {
		for c := x.first; c != nil; c = c.next {
			if c.rec.Kind == 't' {
				sb.WriteString(c.rec.Data)
			}
			walk(c)
		}
	}
	walk(n.cur)
	return sb.String()
}

func (n *Nav) Copy() xpath.NodeNavigator { c := *n; return &c }
func (n *Nav) MoveToRoot()               { n.cur, n.attr = n.t.nodes[0], -1 }
func (n *Nav) MoveToParent() bool {
	if n.attr >= 0 {
		n.attr = -1
		return true
	}
	if n.cur.parent != nil {
		n.cur = n.cur.parent
		return true
	}
	return false
}
func (n *Nav) MoveToNextAttribute() bool {
	if n.attr >= len(n.cur.rec.Attrs)-1 {
		return false
	}
	n.attr++
	return true
}
func (n *Nav) MoveToChild() bool {
	if n.attr >= 0 || n.cur.first == nil {
		return false
	}
	n.cur = n.cur.first
	return true
}
func (n *Nav) MoveToFirst() bool {
	if n.attr >= 0 || n.cur.prev == nil {
		return false
	}
	for n.cur.prev != nil {
		n.cur = n.cur.prev
	}
	return true
}
func (n *Nav) MoveToNext() bool {
	if n.attr >= 0 || n.cur.next == nil {
		return false
	}
	n.cur = n.cur.next
	return true
}
func (n *Nav) MoveToPrevious() bool {
	if n.attr >= 0 || n.cur.prev == nil {
		return false
	}
	n.cur = n.cur.prev
	return true
}
func (n *Nav) MoveTo(o xpath.NodeNavigator) bool {
	m, ok := o.(*Nav)
	if !ok || m.t != n.t {
		return false
	}
	n.cur, n.attr = m.cur, m.attr
	return true
}

// AllRefs lists every node including attributes in document order.
func (d Doc) AllRefs() []Ref {
	var out []Ref
	for i, r := range d {
		out = append(out, Ref{i, -1})
		for k := range r.Attrs {
			out = append(out, Ref{i, k})
		}
	}
	return out
}
