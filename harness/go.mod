module verif/harness

go 1.21

require github.com/antchfx/xpath v0.0.0

replace github.com/antchfx/xpath => /repo
