package main

import (
	"fmt"
	"sort"
	"strings"
)

// Case is one line of the protocol shared with the Lean driver.
//
//	id \t kind \t doc \t ctx \t ns \t hex(expr) \t extra
//
// kind: sel | eval | ast | plan | compile | hist | nav | key | cache | tok
// ns:   "-" nil map, "+" empty map, else hex(prefix)=hex(uri) joined by ","
type Case struct {
	ID    string
	Kind  string
	Doc   Doc
	Ctx   Ref
	NS    map[string]string // nil = Compile, non-nil = CompileWithNS
	NoNS  bool              // navigator without NamespaceURL()
	Expr  string
	Extra string
	Tags  []string // generator bookkeeping (not transmitted)
}

func encNS(m map[string]string) string {
	if m == nil {
		return "-"
	}
	if len(m) == 0 {
		return "+"
	}
	var ks []string
	for k := range m {
		ks = append(ks, k)
	}
	sort.Strings(ks)
	var parts []string
	for _, k := range ks {
		parts = append(parts, hx(k)+"="+hx(m[k]))
	}
	return strings.Join(parts, ",")
}

func decNS(s string) map[string]string {
	if s == "-" {
		return nil
	}
	m := map[string]string{}
	if s == "+" {
		return m
	}
	for _, p := range strings.Split(s, ",") {
		kv := strings.SplitN(p, "=", 2)
		m[unhx(kv[0])] = unhx(kv[1])
	}
	return m
}

func (c *Case) Line() string {
	extra := c.Extra
	if extra == "" {
		extra = "-"
	}
	if c.NoNS {
		extra = "nons;" + extra
	}
	return fmt.Sprintf("%s\t%s\t%s\t%s\t%s\t%s\t%s", c.ID, c.Kind, c.Doc.Encode(), c.Ctx, encNS(c.NS), hx(c.Expr), extra)
}

func ParseCase(line string) (*Case, error) {
	f := strings.Split(strings.TrimRight(line, "\n"), "\t")
	if len(f) != 7 {
		return nil, fmt.Errorf("bad case line (%d fields)", len(f))
	}
	c := &Case{ID: f[0], Kind: f[1], Doc: DecodeDoc(f[2]), Ctx: ParseRef(f[3]), NS: decNS(f[4]), Expr: unhx(f[5]), Extra: f[6]}
	if strings.HasPrefix(c.Extra, "nons;") {
		c.NoNS = true
		c.Extra = c.Extra[5:]
	}
	if c.Extra == "-" {
		c.Extra = ""
	}
	return c, nil
}
