package main

import (
	"errors"
	"fmt"
	"regexp"
	"runtime"
	"strconv"
	"strings"
	"sync"
	"time"

	"github.com/antchfx/xpath"
)

// runCache: extra = "<cap>;<key>,<key>,..." ; keys starting with 'f' fail to load.
// After every get: value|err, size, resets, loads so far.
func runCache(c *Case) string {
	p := strings.SplitN(c.Extra, ";", 2)
	capacity, _ := strconv.Atoi(p[0])
	loads := 0
	vc := xpath.VerifNewCache(func(key interface{}) (interface{}, error) {
		loads++
		k := key.(string)
		if strings.HasPrefix(k, "f") {
			return nil, errors.New("load failed")
		}
		return "V" + k, nil
	}, capacity)
	var outs []string
	if len(p) > 1 && p[1] != "" {
		for _, k := range strings.Split(p[1], ",") {
			v, err := vc.Get(k)
			vs := "err"
			if err == nil {
				vs = fmt.Sprint(v)
			}
			size, _, resets := vc.Stats()
			outs = append(outs, fmt.Sprintf("%s/%d/%d/%d", vs, size, resets, loads))
		}
	}
	return "cache:" + strings.Join(outs, ",")
}

func quoteXPath(s string) (string, bool) {
	if !strings.Contains(s, "'") {
		return "'" + s + "'", true
	}
	if !strings.Contains(s, "\"") {
		return "\"" + s + "\"", true
	}
	return "", false
}

// xpathDollarToGo is the oracle's reading of "$n is group n" (the Go transcription of Spec/Template.lean, which the
// tmpl kind compares with the package on single matches): read left to right as Expand does; "$$" is a literal
// dollar; an unbraced $ followed by a numeral without leading zero refers to the group named by the longest prefix
// of the digits that is an existing group, written ${n} for Go; everything else is Go's.
func xpathDollarToGo(r string, groups int) string {
	var sb strings.Builder
	for i := 0; i < len(r); i++ {
		if r[i] == '$' && i+1 < len(r) && r[i+1] == '$' {
			sb.WriteString("$$")
			i++
			continue
		}
		if r[i] == '$' && i+1 < len(r) && r[i+1] >= '1' && r[i+1] <= '9' {
			j := i + 1
			for j < len(r) && r[j] >= '0' && r[j] <= '9' {
				j++
			}
			best := 0
			for k := j; k > i+1; k-- {
				n, err := strconv.Atoi(r[i+1 : k])
				if err == nil && n >= 1 && n <= groups {
					best = k
					break
				}
			}
			if best > 0 {
				sb.WriteString("${" + r[i+1:best] + "}")
				i = best - 1
				continue
			}
		}
		sb.WriteByte(r[i])
	}
	return sb.String()
}

// runRegex: extra = hex(s),hex(p),hex(r|"-") ; compares matches()/replace() with Go regexp used directly.
func runRegex(c *Case, tree *Tree) string {
	f := strings.Split(c.Extra, ",")
	s, p := unhx(f[0]), unhx(f[1])
	isReplace := f[2] != "-"
	qs, ok1 := quoteXPath(s)
	qp, ok2 := quoteXPath(p)
	if !ok1 || !ok2 {
		return "skip"
	}
	re, reErr := regexp.Compile(p)
	var expr, want string
	if isReplace {
		r := unhx(f[2])
		qr, ok := quoteXPath(r)
		if !ok {
			return "skip"
		}
		expr = "replace(" + qs + "," + qp + "," + qr + ")"
		if reErr != nil {
			want = "raised-or-cerr"
		} else {
			want = "str:" + hx(re.ReplaceAllString(s, xpathDollarToGo(r, re.NumSubexp())))
		}
	} else {
		expr = "matches(" + qs + "," + qp + ")"
		if reErr != nil {
			want = "cerr"
		} else if re.MatchString(s) {
			want = "bool:1"
		} else {
			want = "bool:0"
		}
	}
	e, err := xpath.Compile(expr)
	var got string
	if err != nil {
		got = "cerr"
	} else {
		func() {
			defer func() {
				if x := recover(); x != nil {
					got = "panic:" + panicClass(x)
				}
			}()
			got = valueStr(e.Evaluate(tree.At(Ref{0, -1}, true)))
		}()
	}
	if want == "raised-or-cerr" && (got == "cerr" || got == "panic:raised") {
		got = want
	}
	return "regex:" + got + "~" + want
}

// runCacheConc: extra = "<cap>;<goroutines>;<rounds>".  In every round g goroutines miss on g distinct
// keys; the load function holds them all (barrier with a timeout) until each is past its lookup, so the
// stores happen back to back after the unlocked window.  Reports size after each round and exactness.
func runCacheConc(c *Case) string {
	p := strings.Split(c.Extra, ";")
	capacity, _ := strconv.Atoi(p[0])
	gor, _ := strconv.Atoi(p[1])
	rounds, _ := strconv.Atoi(p[2])
	var mu sync.Mutex
	waiting := 0
	release := make(chan struct{})
	vc := xpath.VerifNewCache(func(key interface{}) (interface{}, error) {
		mu.Lock()
		waiting++
		if waiting == gor {
			close(release)
		}
		ch := release
		mu.Unlock()
		select {
		case <-ch:
		case <-time.After(500 * time.Millisecond):
		}
		return "V" + key.(string), nil
	}, capacity)
	var outs []string
	for rd := 0; rd < rounds; rd++ {
		mu.Lock()
		waiting = 0
		release = make(chan struct{})
		mu.Unlock()
		var wg sync.WaitGroup
		bad := int32(0)
		var badMu sync.Mutex
		for i := 0; i < gor; i++ {
			wg.Add(1)
			go func(i int) {
				defer wg.Done()
				k := fmt.Sprintf("r%dk%d", rd, i)
				v, err := vc.Get(k)
				if err != nil || v != "V"+k {
					badMu.Lock()
					bad++
					badMu.Unlock()
				}
			}(i)
		}
		wg.Wait()
		size, _, _ := vc.Stats()
		outs = append(outs, fmt.Sprintf("%d/%d", size, bad))
	}
	return "cachec:" + strings.Join(outs, ",")
}

// runRxCache: the glue between the function library and the pattern cache (getRegexp, the exported
// RegexpCache variable that clients may replace).  extra = ops separated by ';':
//
//	W<cap>,<mode>          replace xpath.RegexpCache by a new cache with that capacity whose loader counts its
//	                       calls; mode 1 compiles "(?i)"+pattern (a client-customised loader)
//	M<valid>,<hexp>,<hexs> matches(s, p) with the pattern computed at run time
//	R<valid>,<hexp>,<hexs> replace(s, p, '#')
//	L<valid>,<hexp>        Compile of matches('x', p) with a literal pattern (compile-time pre-check)
//
// Each op reports its result against Go's regexp under the current mode, the loader calls so far and the
// number of entries the cache holds.
func runRxCache(c *Case) (out string) {
	saved := xpath.RegexpCache
	defer func() { xpath.RegexpCache = saved }()
	loads := 0
	mode := 0
	var outs []string
	swapped := false
	for _, op := range strings.Split(c.Extra, ";") {
		if op == "" {
			continue
		}
		f := strings.Split(op[1:], ",")
		if op[0] == 'W' {
			capv, _ := strconv.Atoi(f[0])
			mode, _ = strconv.Atoi(f[1])
			m := mode
			xpath.RegexpCache = xpath.NewLoadingCache(func(key interface{}) (interface{}, error) {
				loads++
				if m == 1 {
					return regexp.Compile("(?i)" + key.(string))
				}
				return regexp.Compile(key.(string))
			}, capv)
			swapped = true
			continue
		}
		if !swapped {
			return "badop"
		}
		p := unhx(f[1])
		eff := p
		if mode == 1 {
			eff = "(?i)" + p
		}
		re, reErr := regexp.Compile(eff)
		var expr, want string
		switch op[0] {
		case 'M':
			s := unhx(f[2])
			expr = "matches('" + s + "', concat('" + p + "', ''))"
			if reErr != nil {
				want = "panic:raised"
			} else if re.MatchString(s) {
				want = "bool:1"
			} else {
				want = "bool:0"
			}
		case 'R':
			s := unhx(f[2])
			expr = "replace('" + s + "', concat('" + p + "', ''), '#')"
			if reErr != nil {
				want = "panic:raised"
			} else {
				want = "str:" + hx(re.ReplaceAllString(s, "#"))
			}
		case 'L':
			expr = "matches('x', '" + p + "')"
			if reErr != nil {
				want = "cerr"
			} else if re.MatchString("x") {
				want = "bool:1"
			} else {
				want = "bool:0"
			}
		default:
			return "badop"
		}
		got := ""
		e, err := xpath.Compile(expr)
		if err != nil {
			got = "cerr"
		} else {
			func() {
				defer func() {
					if x := recover(); x != nil {
						got = "panic:" + panicClass(x)
					}
				}()
				got = valueStr(e.Evaluate(BuildTree(Doc{{Depth: 0, Kind: 'r'}}).At(Ref{0, -1}, true)))
			}()
		}
		res := "ok"
		if got != want {
			res = "bad:" + got + "!=" + want
		} else if reErr != nil {
			res = "err"
		}
		size, _, _ := xpath.VerifRegexpCacheStats()
		outs = append(outs, fmt.Sprintf("%s/%d/%d", res, loads, size))
	}
	return "rx:" + strings.Join(outs, ",")
}

// runTmpl: the expression is replace('subject','pattern','template') where the pattern matches the whole subject
// exactly once, so the value is what the template expands to for that one match.
func runTmpl(c *Case, tree *Tree) string {
	e, err := xpath.Compile(c.Expr)
	if err != nil {
		return "cerr"
	}
	v := e.Evaluate(tree.At(Ref{0, -1}, true))
	if s, ok := v.(string); ok {
		return "tmpl:" + hx(s)
	}
	return "tmpl-badtype:" + valueStr(v)
}

// runWide: extra = "N;i;j".  A document <r> with N children <a k="1"/> (all alike: only their position tells them
// apart); the union of the i-th and the j-th child, and of their attributes, counted by the package.
func runWide(c *Case) string {
	f := strings.Split(c.Extra, ";")
	n, _ := strconv.Atoi(f[0])
	i, _ := strconv.Atoi(f[1])
	j, _ := strconv.Atoi(f[2])
	d := Doc{{Depth: 0, Kind: 'r'}, {Depth: 1, Kind: 'e', Name: "r"}}
	for k := 0; k < n; k++ {
		d = append(d, Rec{Depth: 2, Kind: 'e', Name: "a", Attrs: []Attr{{Name: "k", Val: "1"}}})
	}
	tree := BuildTree(d)
	cnt := func(expr string) string {
		e, err := xpath.Compile(expr)
		if err != nil {
			return "cerr"
		}
		if v, ok := e.Evaluate(tree.At(Ref{0, -1}, true)).(float64); ok {
			return strconv.Itoa(int(v))
		}
		return "badtype"
	}
	return "wide:" + cnt(fmt.Sprintf("count(/r/a[%d] | /r/a[%d])", i, j)) + "," + cnt(fmt.Sprintf("count(/r/a[%d]/@k | /r/a[%d]/@k)", i, j)) +
		"," + cnt(fmt.Sprintf("count(/r/(a[%d], a[%d]))", i, j))
}

// runRxSel: a document <r> of rows <e v=".." p=".."/>; the expression (c.Expr) selects the rows whose v matches
// (or, with replace, is changed by) the row's own pattern p, the pattern argument being written in one of several
// forms; extra = "m" (matches) or "r" (replace(@v, P, '#') != @v).  The oracle is Go's regexp on every row.
func runRxSel(c *Case, tree *Tree) string {
	var want []string
	for i, rec := range c.Doc {
		if rec.Kind != 'e' || rec.Name != "e" {
			continue
		}
		var v, p string
		for _, a := range rec.Attrs {
			if a.Name == "v" {
				v = a.Val
			}
			if a.Name == "p" {
				p = a.Val
			}
		}
		re, err := regexp.Compile(p)
		if err != nil {
			return "skip"
		}
		hit := re.MatchString(v)
		if c.Extra == "r" {
			hit = re.ReplaceAllString(v, "#") != v
		}
		if hit {
			want = append(want, strconv.Itoa(i))
		}
	}
	e, err := xpath.Compile(c.Expr)
	if err != nil {
		return "rxsel:cerr~" + strings.Join(want, ",")
	}
	got := ""
	func() {
		defer func() {
			if x := recover(); x != nil {
				got = "panic:" + panicClass(x)
			}
		}()
		rs, ok := drain(e.Select(tree.At(Ref{0, -1}, true)), maxResults)
		if !ok {
			got = "diverge"
			return
		}
		var g []string
		for _, r := range rs {
			g = append(g, strconv.Itoa(r.I))
		}
		got = strings.Join(g, ",")
	}()
	return "rxsel:" + got + "~" + strings.Join(want, ",")
}

// runGrowth: extra = "<hex of a predicate>;n1;n2".  The expression *P…P with n predicates is compiled and all its
// nodes are drawn; reported is by what factor the memory allocated for that grows from n1 to n2 predicates (a
// well-behaved engine: about n2/n1; an engine that copies its query tree once per reference to the filtered step:
// 2^(n2-n1)).
func runGrowth(c *Case, tree *Tree) string {
	f := strings.Split(c.Extra, ";")
	pred := c.Expr
	if len(f) == 3 {
		pred, f = unhx(f[0]), f[1:]
	}
	n1, _ := strconv.Atoi(f[0])
	n2, _ := strconv.Atoi(f[1])
	measure := func(n int) (uint64, bool) {
		e, err := xpath.Compile("*" + strings.Repeat(pred, n))
		if err != nil {
			return 0, false
		}
		var m0, m1 runtime.MemStats
		runtime.GC()
		runtime.ReadMemStats(&m0)
		it := e.Select(tree.At(c.Ctx, true))
		for k := 0; k < maxResults && it.MoveNext(); k++ {
		}
		runtime.ReadMemStats(&m1)
		return m1.TotalAlloc - m0.TotalAlloc + 1, true
	}
	a, ok1 := measure(n1)
	b, ok2 := measure(n2)
	if !ok1 || !ok2 {
		return "cerr"
	}
	ratio := float64(b) / float64(a)
	bound := 8 * float64(n2) / float64(n1) // generous: linear or quadratic growth stays far below it
	if ratio > bound {
		return fmt.Sprintf("growth:exponential(x%.0f from %d to %d predicates)", ratio, n1, n2)
	}
	return "growth:ok"
}

// runCompileGrowth: Compile(head + unit×n) for n = n1, n2 (Expr = unit, Extra = hex(head);n1;n2): the memory Compile
// allocates must not grow exponentially with the number of repetitions of a construct written one after the other.
func runCompileGrowth(c *Case) string {
	f := strings.Split(c.Extra, ";")
	head, unit := unhx(f[0]), c.Expr
	n1, _ := strconv.Atoi(f[1])
	n2, _ := strconv.Atoi(f[2])
	measure := func(n int) (uint64, bool) {
		var m0, m1 runtime.MemStats
		runtime.GC()
		runtime.ReadMemStats(&m0)
		_, err := xpath.Compile(head + strings.Repeat(unit, n))
		runtime.ReadMemStats(&m1)
		return m1.TotalAlloc - m0.TotalAlloc + 1, err == nil
	}
	a, ok1 := measure(n1)
	b, ok2 := measure(n2)
	if !ok1 || !ok2 {
		return "cerr"
	}
	ratio := float64(b) / float64(a)
	bound := 8 * float64(n2) / float64(n1)
	if ratio > bound {
		return fmt.Sprintf("cgrowth:exponential(x%.0f from %d to %d repetitions)", ratio, n1, n2)
	}
	return "cgrowth:ok"
}
