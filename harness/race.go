package main

import (
	"bufio"
	"fmt"
	"os"
	"strconv"
	"sync"

	"github.com/antchfx/xpath"
)

// cmdRace: for every case, g goroutines share one compiled expression (plus concurrent Compile
// calls and regexp-cache traffic); each result is compared with the sequential result of a fresh
// compile.  Built with -race: a reported race makes the process exit 66.
func cmdRace(args []string) {
	in, out := args[0], args[1]
	gor, _ := strconv.Atoi(args[2])
	fi, err := os.Open(in)
	if err != nil {
		fmt.Fprintln(os.Stderr, err)
		os.Exit(2)
	}
	fo, _ := os.Create(out)
	w := bufio.NewWriter(fo)
	sc := bufio.NewScanner(fi)
	sc.Buffer(make([]byte, 1<<20), 1<<28)
	for sc.Scan() {
		c, err := ParseCase(sc.Text())
		if err != nil || c.Kind != "race" {
			continue
		}
		tree := BuildTree(c.Doc)
		// every goroutine works at its own context node (the case's, and others of the document in turn): what a
		// call returns must be what it returns alone at that node, not what another goroutine computes at its own
		ctxs := []Ref{c.Ctx}
		for _, rf := range c.Doc.AllRefs() {
			if rf.K < 0 && rf != c.Ctx && len(ctxs) < 8 {
				ctxs = append(ctxs, rf)
			}
		}
		evalAt := func(e *xpath.Expr, sel bool, at Ref) (res string) {
			defer func() {
				if x := recover(); x != nil {
					res = "panic:" + panicClass(x)
				}
			}()
			if sel {
				rs, ok := drain(e.Select(tree.At(at, true)), maxResults)
				if !ok {
					return "diverge"
				}
				return "seq:" + refsStr(rs)
			}
			return valueStr(e.Evaluate(tree.At(at, true)))
		}
		fresh, err := xpath.Compile(c.Expr)
		if err != nil {
			fmt.Fprintf(w, "%s\tcerr\n", c.ID)
			continue
		}
		// The expected results are computed sequentially *after* the concurrent phase, so that the first
		// requests for the expression's run-time regexp patterns (cache misses that insert) come from the
		// goroutines themselves, overlapping with each other's lookups.
		_ = fresh
		shared, _ := xpath.Compile(c.Expr)
		var wg sync.WaitGroup
		type obs struct {
			what, got string
			at        Ref
		}
		var mu sync.Mutex
		var seen []obs
		rec := func(what, got string, at Ref) {
			mu.Lock()
			seen = append(seen, obs{what, got, at})
			mu.Unlock()
		}
		for i := 0; i < gor; i++ {
			wg.Add(1)
			go func(i int) {
				defer wg.Done()
				for rep := 0; rep < 3; rep++ {
					at := ctxs[(i+rep)%len(ctxs)]
					if i%2 == 0 {
						rec("select", evalAt(shared, true, at), at)
					} else {
						rec("evaluate", evalAt(shared, false, at), at)
					}
					if i%4 == 3 {
						if e2, err := xpath.Compile(c.Expr); err == nil {
							rec("compile", evalAt(e2, true, at), at)
						}
					}
				}
			}(i)
		}
		wg.Wait()
		wantSel, wantEval := map[Ref]string{}, map[Ref]string{}
		for _, at := range ctxs {
			wantSel[at], wantEval[at] = evalAt(fresh2(c.Expr), true, at), evalAt(fresh2(c.Expr), false, at)
		}
		bad := make(chan string, len(seen)+1)
		for _, o := range seen {
			want := wantSel[o.at]
			if o.what == "evaluate" {
				want = wantEval[o.at]
			}
			if o.got != want {
				bad <- o.what + ":" + o.got + "!=" + want
			}
		}
		close(bad)
		res := "ok"
		for b := range bad {
			res = "mismatch:" + b
			break
		}
		fmt.Fprintf(w, "%s\t%s\n", c.ID, res)
		w.Flush()
	}
	w.Flush()
	fo.Close()
}

func fresh2(expr string) *xpath.Expr {
	e, _ := xpath.Compile(expr)
	return e
}
