import XPathV.Model.Api
/-! # Property C17 — theorems (placeholder header; filled in below) -/
namespace XPathV.Theorems.C17
end XPathV.Theorems.C17
