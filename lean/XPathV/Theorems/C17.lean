import XPathV.Lemmas.Facts
import XPathV.Generated.ExtraFacts
import XPathV.Lemmas.C17Base
import XPathV.Lemmas.ParserTokens
import XPathV.Lemmas.ScanTail
/-!
# C17 — truncated or ill-formed expressions are rejected by Compile (property-level theorems)

`Lemmas/C17Base.lean` (same namespace) holds the local rejection lemmas and the T0 theorems over
the builder's tables; `Lemmas/ParserTokens.lean` the consumed-token theorem for the parser model
(mutual induction over all fifteen parser functions, every fuel, every configuration): what a
successful parser call consumes is a word of a token grammar `G`, whose words are non-empty, end in
an end token and are balanced.  The theorems below are its corollaries for `parse`.

`TextToks text ts`: the scanner turns `text` into the token stream `ts` (ending in `.eof`).
A rejection `∃ e, parse fuel cfg text = .error e` holds for **every** fuel and configuration.

Character level (`Lemmas/ScanTail.lean`): whatever precedes it, a final character
`[ ( , @ $ | + = < > ! #` is either the text's last token or sits in a literal that is then
unclosed — `truncation_rejected` is the corrected truncation statement, for *any* text (valid or
not) without U+0000 (which the scanner treats as end of input).  Not rejected in general, with the
exact exceptions proved at token level: a final `/` (`/`, `a | /`), `*` (`a/*`), `-` (a name
character: `a-`), `.`, and operator *words* (`and or div mod` are name tokens; covered at the
tier loop by `operator_then_end_rejected`).
-/
namespace XPathV.Theorems.C17
open XPathV XPathV.Model XPathV.Facts XPathV.Lemmas.ParserTokens

/-- **every accepted text** has a token stream that is non-empty, ends in an end token (name, `*`,
`)`, `]`, `.`, `..`, string, number — or a `/` that is a complete root path) and is balanced in
`()` and `[]` -/
theorem accepted_streams {fuel : Nat} {cfg : PCfg} {text : List Char} {a : Ast}
    (h : parse fuel cfg text = .ok a) :
    ∃ used, TextToks text (used ++ [.eof]) ∧ used ≠ [] ∧ EndOK used ∧ Bal used :=
  accepted_ends_in_end_token h

/-- **cut after an operator symbol, an opening bracket or parenthesis, a comma, `//`, `@`, `$`, `!`
or an axis specifier**: rejected -/
theorem cut_after_opener_rejected (fuel : Nat) (cfg : PCfg) {text : List Char} {pre : List Tok} {t : Tok}
    (ht : TextToks text (pre ++ [t, .eof]))
    (hmem : t ∈ [Tok.lbracket, .lparen, .comma, .at, .dollar, .plus, .minus, .eq, .ne, .lt, .le, .gt, .ge,
      .union, .slashslash, .bang, .axe]) :
    ∃ e, parse fuel cfg text = .error e :=
  reject_trailing fuel cfg ht hmem

/-- **cut after a slash inside a path**: the stream ends with `t /` where `t` closes a step or a
primary expression (`)`, `]`, `.`, `..`, string, number) -/
theorem cut_after_slash_rejected (fuel : Nat) (cfg : PCfg) {text : List Char} {pre : List Tok} {t : Tok}
    (ht : TextToks text (pre ++ [t, .slash, .eof]))
    (hmem : t ∈ [Tok.rparen, .rbracket, .dot, .dotdot, .string, .number]) :
    ∃ e, parse fuel cfg text = .error e :=
  reject_trailing_slash_hard fuel cfg ht hmem

/-- … and after a name or `*`, unless what precedes them is itself a complete expression (then the
name is an operator word or `*` the multiplication, and `/` its right operand: `a and /`, `a * /`
are valid XPath) -/
theorem cut_after_slash_rejected_name (fuel : Nat) (cfg : PCfg) {text : List Char} {pre : List Tok} {t : Tok}
    (ht : TextToks text (pre ++ [t, .slash, .eof])) (h1 : t ≠ .minus) (h2 : ¬ G .expr pre) :
    ∃ e, parse fuel cfg text = .error e :=
  reject_trailing_slash_operand fuel cfg ht h1 h2

/-- **unbalanced brackets**: rejected -/
theorem unbalanced_rejected (fuel : Nat) (cfg : PCfg) {text : List Char} {ts : List Tok}
    (ht : TextToks text (ts ++ [.eof])) (h : ¬ Bal ts) : ∃ e, parse fuel cfg text = .error e :=
  reject_unbalanced fuel cfg ht h

/-- `Bal` is what it should be: per bracket kind every prefix has at least as many opening as
closing tokens, and the totals are equal -/
theorem balanced_iff (u : List Tok) : Bal u ↔
    (∀ k, (u.take k).count .rparen ≤ (u.take k).count .lparen) ∧ u.count .lparen = u.count .rparen ∧
    (∀ k, (u.take k).count .rbracket ≤ (u.take k).count .lbracket) ∧ u.count .lbracket = u.count .rbracket :=
  Bal_iff u

/-- **deleting a closing (or opening) bracket or parenthesis of an accepted expression**: any text
whose token stream is the accepted one minus one bracket token is rejected -/
theorem bracket_deleted_rejected {fuel : Nat} {cfg : PCfg} {text : List Char} {a : Ast} {p q : List Tok} {t : Tok}
    (hok : parse fuel cfg text = .ok a) (hts : TextToks text (p ++ t :: q ++ [.eof])) (ht : isBr t = true)
    (fuel' : Nat) (cfg' : PCfg) {text' : List Char} (hts' : TextToks text' (p ++ q ++ [.eof])) :
    ∃ e, parse fuel' cfg' text' = .error e :=
  reject_bracket_erased hok hts ht fuel' cfg' hts'

/-- **unclosed quote** anywhere in the text: the scanner error propagates -/
theorem unclosed_quote_rejected (fuel : Nat) (cfg : PCfg) {text : List Char} {s s1 : Scan} {u : List Tok}
    (hs : Scan.init text = .ok s) (hu : Steps s u s1) (hne : s1.typ ≠ .eof)
    (hq : s1.skipSpace.curr = '"' ∨ s1.skipSpace.curr = '\'')
    (h : scanStringAux s1.skipSpace.curr s1.skipSpace.rest = none) :
    ∃ e, parse fuel cfg text = .error e :=
  reject_unclosed_quote fuel cfg hs hu hne hq h

/-- **malformed token** (invalid character, malformed qualified name, bad number) anywhere in the
part of the text the parser reads: the scanner error propagates -/
theorem scan_error_rejected (fuel : Nat) (cfg : PCfg) {text : List Char} {s s1 : Scan} {u : List Tok} {e0 : ScanErr}
    (hs : Scan.init text = .ok s) (hu : Steps s u s1) (hne : s1.typ ≠ .eof) (herr : s1.nextItem = .error e0) :
    ∃ e, parse fuel cfg text = .error e :=
  reject_scan_error fuel cfg hs hu hne herr

/-- **cut after an operator, word or symbol**: when the tier loop has matched an operator at the
current token and the text ends right after it, the loop fails -/
theorem operator_then_end_rejected (f : Nat) (cfg : PCfg) {ops : List String} (rest : List Stage) (opnd : Ast)
    {st st1 : PState} {op : String} (hfind : ops.find? (tokMatches st.s) = some op)
    (h1 : st.next = .ok st1) (he : st1.s.typ = .eof) :
    ∃ e, tierLoop f cfg ops rest opnd st = .error e :=
  tierLoop_operator_then_eof f cfg rest opnd hfind h1 he

/-- the character-level statement first written for this property was false (`/a` cut after the
slash is the accepted root path `/`); kept as a record -/
theorem first_truncation_statement_was_false : ¬ C17TruncationStatement :=
  C17TruncationStatement_false

/-- non-vacuity, for every fuel and configuration: `a[`, `a/`, `f(1,`, `a[b`, `concat('a'`,
`'abc` are rejected by the theorems above -/
theorem examples_rejected (fuel : Nat) (cfg : PCfg) :
    (∃ e, parse fuel cfg "a[".toList = .error e) ∧ (∃ e, parse fuel cfg "a/".toList = .error e) ∧
    (∃ e, parse fuel cfg "f(1,".toList = .error e) ∧ (∃ e, parse fuel cfg "a[b".toList = .error e) ∧
    (∃ e, parse fuel cfg "concat('a'".toList = .error e) ∧
    parse fuel cfg "'abc".toList = .error (.scan .unclosedString) :=
  ⟨ex_cut_lbracket fuel cfg, ex_cut_slash fuel cfg, ex_cut_comma fuel cfg, ex_unclosed_bracket fuel cfg,
   ex_unclosed_paren fuel cfg, ex_unclosed_quote fuel cfg⟩

open XPathV.Lemmas.ScanTail in
/-- **C17, truncation, character level**: cut any text (without U+0000) right after one of the
characters `[ ( , @ $ | + = < > ! #` — the result is rejected, for every fuel and configuration.
No assumption on what precedes the cut: if the character falls inside a string literal, the
literal is unclosed and the scanner fails. -/
theorem truncation_rejected (cfg : PCfg) (text : List Char) (hnul : '\x00' ∉ text) (cut : Nat) (hcut : 0 < cut)
    (hc : ∃ c, text[cut - 1]? = some c ∧ c ∈ cutDelims) (fuel : Nat) :
    ∃ e, parse fuel cfg (text.take cut) = .error e :=
  Lemmas.ScanTail.truncation_rejected cfg text hnul cut hcut hc fuel

open XPathV.Lemmas.ScanTail in
/-- … after `//` -/
theorem truncation_after_slashslash_rejected (cfg : PCfg) (text : List Char) (hnul : '\x00' ∉ text) (cut : Nat)
    (h1 : text[cut]? = some '/') (h2 : text[cut + 1]? = some '/') (fuel : Nat) :
    ∃ e, parse fuel cfg (text.take (cut + 2)) = .error e :=
  truncation_slashslash_rejected cfg text hnul cut h1 h2 fuel

open XPathV.Lemmas.ScanTail in
/-- … after an opening quote (a quote character that does not occur before the cut) -/
theorem truncation_after_quote_rejected (cfg : PCfg) (text : List Char) (hnul : '\x00' ∉ text) (cut : Nat) {q : Char}
    (hq : isQuote q) (hget : text[cut]? = some q) (hfresh : q ∉ text.take cut) (fuel : Nat) :
    ∃ e, parse fuel cfg (text.take (cut + 1)) = .error e :=
  truncation_quote_rejected cfg text hnul cut hq hget hfresh fuel

open XPathV.Lemmas.ScanTail in
/-- the scanner fact behind it: the last character of a text, when it is one of the delimiter
characters, is the text's last token (one of `lastToks c`) unless scanning fails -/
theorem last_character_is_last_token {pre : List Char} {c : Char} (hpre : '\x00' ∉ pre) (hD : c ∈ delims) :
    ScanFails (pre ++ [c]) ∨ ∃ ts t, t ∈ lastToks c ∧ TextToks (pre ++ [c]) (ts ++ [t, .eof]) :=
  last_char_tokens hpre hD

/-! ## T0: what the regenerated facts say about the current source (leaf theorems: nothing builds on them, so a
change of the source that invalidates one of them stops only this module) -/

/-- T0: the parser requires the end of the input; unknown functions and axes are errors -/
theorem structural_rejections : Generated.parseRequiresEOF = true ∧ Generated.funcDefaultErrors = true ∧
    Generated.axisDefaultErrors = true := by decide

/-- T0 (F3): required arguments: the minimum arity the builder enforces per function -/
theorem min_arities : (Generated.funcTable.map (fun e => (e.names.headD "", e.minArgs))) =
    [("lower-case", 1), ("starts-with", 2), ("ends-with", 2), ("contains", 2), ("matches", 2), ("substring", 2),
     ("substring-before", 2), ("string-length", 1), ("normalize-space", 0), ("replace", 3), ("translate", 3), ("not", 1),
     ("name", 0), ("true", 0), ("last", 0), ("position", 0), ("boolean", 0), ("count", 1), ("sum", 1), ("ceiling", 1),
     ("concat", 2), ("reverse", 1), ("string-join", 2)] := by decide

end XPathV.Theorems.C17
