import XPathV.Lemmas.Facts
import XPathV.Generated.ExtraFacts
import XPathV.Lemmas.C17Base
import XPathV.Lemmas.ParserTokens
import XPathV.Lemmas.ScanTail
import XPathV.Lemmas.BuildRejects
/-!
# C17 — truncated or ill-formed expressions are rejected by Compile (property-level theorems)

`Lemmas/C17Base.lean` (same namespace) holds the local rejection lemmas and the T0 theorems over
the builder's tables; `Lemmas/ParserTokens.lean` the consumed-token theorem for the parser model
(mutual induction over all fifteen parser functions, every fuel, every configuration): what a
successful parser call consumes is a word of a token grammar `G`, whose words are non-empty, end in
an end token and are balanced.  The theorems below are its corollaries for `parse`.

`TextToks text ts`: the scanner turns `text` into the token stream `ts` (ending in `.eof`).
A rejection `∃ e, parse fuel cfg text = .error e` holds for **every** fuel and configuration.

Character level (`Lemmas/ScanTail.lean`): whatever precedes it, a final character
`[ ( , @ $ | + = < > ! #` is either the text's last token or sits in a literal that is then
unclosed — `truncation_rejected` is the corrected truncation statement, for *any* text (valid or
not) without U+0000 (which the scanner treats as end of input).  Not rejected in general, with the
exact exceptions proved at token level: a final `/` (`/`, `a | /`), `*` (`a/*`), `-` (a name
character: `a-`), `.`, and operator *words* (`and or div mod` are name tokens; covered at the
tier loop by `operator_then_end_rejected`).
-/
namespace XPathV.Theorems.C17
open XPathV XPathV.Model XPathV.Facts XPathV.Lemmas.ParserTokens

/-- **every accepted text** has a token stream that is non-empty, ends in an end token (name, `*`,
`)`, `]`, `.`, `..`, string, number — or a `/` that is a complete root path) and is balanced in
`()` and `[]` -/
theorem accepted_streams {fuel : Nat} {cfg : PCfg} {text : List Char} {a : Ast}
    (h : parse fuel cfg text = .ok a) :
    ∃ used, TextToks text (used ++ [.eof]) ∧ used ≠ [] ∧ EndOK used ∧ Bal used :=
  accepted_ends_in_end_token h

/-- **cut after an operator symbol, an opening bracket or parenthesis, a comma, `//`, `@`, `$`, `!`
or an axis specifier**: rejected -/
theorem cut_after_opener_rejected (fuel : Nat) (cfg : PCfg) {text : List Char} {pre : List Tok} {t : Tok}
    (ht : TextToks text (pre ++ [t, .eof]))
    (hmem : t ∈ [Tok.lbracket, .lparen, .comma, .at, .dollar, .plus, .minus, .eq, .ne, .lt, .le, .gt, .ge,
      .union, .slashslash, .bang, .axe]) :
    ∃ e, parse fuel cfg text = .error e :=
  reject_trailing fuel cfg ht hmem

/-- **cut after a slash inside a path**: the stream ends with `t /` where `t` closes a step or a
primary expression (`)`, `]`, `.`, `..`, string, number) -/
theorem cut_after_slash_rejected (fuel : Nat) (cfg : PCfg) {text : List Char} {pre : List Tok} {t : Tok}
    (ht : TextToks text (pre ++ [t, .slash, .eof]))
    (hmem : t ∈ [Tok.rparen, .rbracket, .dot, .dotdot, .string, .number]) :
    ∃ e, parse fuel cfg text = .error e :=
  reject_trailing_slash_hard fuel cfg ht hmem

/-- … and after a name or `*`, unless what precedes them is itself a complete expression (then the
name is an operator word or `*` the multiplication, and `/` its right operand: `a and /`, `a * /`
are valid XPath) -/
theorem cut_after_slash_rejected_name (fuel : Nat) (cfg : PCfg) {text : List Char} {pre : List Tok} {t : Tok}
    (ht : TextToks text (pre ++ [t, .slash, .eof])) (h1 : t ≠ .minus) (h2 : ¬ G .expr pre) :
    ∃ e, parse fuel cfg text = .error e :=
  reject_trailing_slash_operand fuel cfg ht h1 h2

/-- **unbalanced brackets**: rejected -/
theorem unbalanced_rejected (fuel : Nat) (cfg : PCfg) {text : List Char} {ts : List Tok}
    (ht : TextToks text (ts ++ [.eof])) (h : ¬ Bal ts) : ∃ e, parse fuel cfg text = .error e :=
  reject_unbalanced fuel cfg ht h

/-- `Bal` is what it should be: per bracket kind every prefix has at least as many opening as
closing tokens, and the totals are equal -/
theorem balanced_iff (u : List Tok) : Bal u ↔
    (∀ k, (u.take k).count .rparen ≤ (u.take k).count .lparen) ∧ u.count .lparen = u.count .rparen ∧
    (∀ k, (u.take k).count .rbracket ≤ (u.take k).count .lbracket) ∧ u.count .lbracket = u.count .rbracket :=
  Bal_iff u

/-- **deleting a closing (or opening) bracket or parenthesis of an accepted expression**: any text
whose token stream is the accepted one minus one bracket token is rejected -/
theorem bracket_deleted_rejected {fuel : Nat} {cfg : PCfg} {text : List Char} {a : Ast} {p q : List Tok} {t : Tok}
    (hok : parse fuel cfg text = .ok a) (hts : TextToks text (p ++ t :: q ++ [.eof])) (ht : isBr t = true)
    (fuel' : Nat) (cfg' : PCfg) {text' : List Char} (hts' : TextToks text' (p ++ q ++ [.eof])) :
    ∃ e, parse fuel' cfg' text' = .error e :=
  reject_bracket_erased hok hts ht fuel' cfg' hts'

/-- **unclosed quote** anywhere in the text: the scanner error propagates -/
theorem unclosed_quote_rejected (fuel : Nat) (cfg : PCfg) {text : List Char} {s s1 : Scan} {u : List Tok}
    (hs : Scan.init text = .ok s) (hu : Steps s u s1) (hne : s1.typ ≠ .eof)
    (hq : s1.skipSpace.curr = '"' ∨ s1.skipSpace.curr = '\'')
    (h : scanStringAux s1.skipSpace.curr s1.skipSpace.rest = none) :
    ∃ e, parse fuel cfg text = .error e :=
  reject_unclosed_quote fuel cfg hs hu hne hq h

/-- **malformed token** (invalid character, malformed qualified name, bad number) anywhere in the
part of the text the parser reads: the scanner error propagates -/
theorem scan_error_rejected (fuel : Nat) (cfg : PCfg) {text : List Char} {s s1 : Scan} {u : List Tok} {e0 : ScanErr}
    (hs : Scan.init text = .ok s) (hu : Steps s u s1) (hne : s1.typ ≠ .eof) (herr : s1.nextItem = .error e0) :
    ∃ e, parse fuel cfg text = .error e :=
  reject_scan_error fuel cfg hs hu hne herr

/-- **cut after an operator, word or symbol**: when the tier loop has matched an operator at the
current token and the text ends right after it, the loop fails -/
theorem operator_then_end_rejected (f : Nat) (cfg : PCfg) {ops : List String} (rest : List Stage) (opnd : Ast)
    {st st1 : PState} {op : String} (hfind : ops.find? (tokMatches st.s) = some op)
    (h1 : st.next = .ok st1) (he : st1.s.typ = .eof) :
    ∃ e, tierLoop f cfg ops rest opnd st = .error e :=
  tierLoop_operator_then_eof f cfg rest opnd hfind h1 he

/-- the character-level statement first written for this property was false (`/a` cut after the
slash is the accepted root path `/`); kept as a record -/
theorem first_truncation_statement_was_false : ¬ C17TruncationStatement :=
  C17TruncationStatement_false

/-- non-vacuity, for every fuel and configuration: `a[`, `a/`, `f(1,`, `a[b`, `concat('a'`,
`'abc` are rejected by the theorems above -/
theorem examples_rejected (fuel : Nat) (cfg : PCfg) :
    (∃ e, parse fuel cfg "a[".toList = .error e) ∧ (∃ e, parse fuel cfg "a/".toList = .error e) ∧
    (∃ e, parse fuel cfg "f(1,".toList = .error e) ∧ (∃ e, parse fuel cfg "a[b".toList = .error e) ∧
    (∃ e, parse fuel cfg "concat('a'".toList = .error e) ∧
    parse fuel cfg "'abc".toList = .error (.scan .unclosedString) :=
  ⟨ex_cut_lbracket fuel cfg, ex_cut_slash fuel cfg, ex_cut_comma fuel cfg, ex_unclosed_bracket fuel cfg,
   ex_unclosed_paren fuel cfg, ex_unclosed_quote fuel cfg⟩

open XPathV.Lemmas.ScanTail in
/-- **C17, truncation, character level**: cut any text (without U+0000) right after one of the
characters `[ ( , @ $ | + = < > ! #` — the result is rejected, for every fuel and configuration.
No assumption on what precedes the cut: if the character falls inside a string literal, the
literal is unclosed and the scanner fails. -/
theorem truncation_rejected (cfg : PCfg) (text : List Char) (hnul : '\x00' ∉ text) (cut : Nat) (hcut : 0 < cut)
    (hc : ∃ c, text[cut - 1]? = some c ∧ c ∈ cutDelims) (fuel : Nat) :
    ∃ e, parse fuel cfg (text.take cut) = .error e :=
  Lemmas.ScanTail.truncation_rejected cfg text hnul cut hcut hc fuel

open XPathV.Lemmas.ScanTail in
/-- … after `//` -/
theorem truncation_after_slashslash_rejected (cfg : PCfg) (text : List Char) (hnul : '\x00' ∉ text) (cut : Nat)
    (h1 : text[cut]? = some '/') (h2 : text[cut + 1]? = some '/') (fuel : Nat) :
    ∃ e, parse fuel cfg (text.take (cut + 2)) = .error e :=
  truncation_slashslash_rejected cfg text hnul cut h1 h2 fuel

open XPathV.Lemmas.ScanTail in
/-- … after an opening quote (a quote character that does not occur before the cut) -/
theorem truncation_after_quote_rejected (cfg : PCfg) (text : List Char) (hnul : '\x00' ∉ text) (cut : Nat) {q : Char}
    (hq : isQuote q) (hget : text[cut]? = some q) (hfresh : q ∉ text.take cut) (fuel : Nat) :
    ∃ e, parse fuel cfg (text.take (cut + 1)) = .error e :=
  truncation_quote_rejected cfg text hnul cut hq hget hfresh fuel

open XPathV.Lemmas.ScanTail in
/-- the scanner fact behind it: the last character of a text, when it is one of the delimiter
characters, is the text's last token (one of `lastToks c`) unless scanning fails -/
theorem last_character_is_last_token {pre : List Char} {c : Char} (hpre : '\x00' ∉ pre) (hD : c ∈ delims) :
    ScanFails (pre ++ [c]) ∨ ∃ ts t, t ∈ lastToks c ∧ TextToks (pre ++ [c]) (ts ++ [t, .eof]) :=
  last_char_tokens hpre hD

/-! ## T0: what the regenerated facts say about the current source (leaf theorems: nothing builds on them, so a
change of the source that invalidates one of them stops only this module) -/

/-- T0: the parser requires the end of the input; unknown functions and axes are errors -/
theorem structural_rejections : Generated.parseRequiresEOF = true ∧ Generated.funcDefaultErrors = true ∧
    Generated.axisDefaultErrors = true := by decide

/-- T0 (F3): required arguments: the minimum arity the builder enforces per function -/
theorem min_arities : (Generated.funcTable.map (fun e => (e.names.headD "", e.minArgs))) =
    [("lower-case", 1), ("starts-with", 2), ("ends-with", 2), ("contains", 2), ("matches", 2), ("substring", 2),
     ("substring-before", 2), ("string-length", 1), ("normalize-space", 0), ("replace", 3), ("translate", 3), ("not", 1),
     ("name", 0), ("true", 0), ("last", 0), ("position", 0), ("boolean", 0), ("count", 1), ("sum", 1), ("ceiling", 1),
     ("concat", 2), ("reverse", 1), ("string-join", 2)] := by decide

/-! ## Second half of the property: unknown functions, missing arguments, unknown axes, malformed names

(`Lemmas/BuildRejects*`.  `BadNode t`: somewhere the builder recurses into, the tree has a call of an unknown
function, a call with fewer arguments than the function requires or more than it allows, or a step with an
unknown axis name.) -/
section Rejects
open XPathV.BuildRejects

/-- **tree level**: the builder model fails on every tree with a bad node — for every regexp oracle, depth limit,
builder configuration, flags and state (induction over all node kinds) -/
theorem C17_builder_rejects_bad_tree (rx : RegexOk) (lim : Nat) (sn sd : Bool) (t : Ast) (fl : Flags) (st : BState)
    (h : Bad t fl.take = true) : ∃ e, build rx lim sn sd t fl st = .error e :=
  build_fails_of_bad rx lim sn sd t fl st h

/-- **from the text**: if the parser accepts `text` with a tree that has a bad node, `Compile` is an error (never an
expression), at every configuration and namespace map -/
theorem C17_compile_rejects_bad_tree (cc : CompileCfg) (ns : Option (List (String × String))) (text : List Char)
    (t : Ast) (hp : parse (fuelFor text) (defaultCfg ns) text = .ok t) (hb : BadNode t = true) :
    ∃ e, compile cc ns text = .error (.build e) :=
  compile_fails_of_bad cc ns text t hp hb

/-- conversely an accepted expression has no bad node -/
theorem C17_compiled_has_no_bad_node (cc : CompileCfg) (ns : Option (List (String × String))) (text : List Char)
    (p : Plan) (h : compile cc ns text = .ok p) :
    ∃ t, parse (fuelFor text) (defaultCfg ns) text = .ok t ∧ BadNode t = false :=
  no_bad_node_of_compile_ok cc ns text p h

/-- **a function renamed to an unknown name** (anywhere in the expression): `text'` has the token stream of the
accepted `text` except that one function-name token `g` reads `g'`, which the builder does not know -/
theorem C17_function_renamed_rejected (cc : CompileCfg) (ns : Option (List (String × String))) {g g' : String}
    (hne : g ≠ g') (hg : g ∉ nodeTypes) (hg' : g' ∉ nodeTypes) (ho : g ∉ opWords stages) (ho' : g' ∉ opWords stages)
    (hunk : fnArity g' = none) {text text' : List Char} {s s' : Scan} {k : Nat}
    (hi : Scan.init text = .ok s) (hi' : Scan.init text' = .ok s') (hB : Before g g' k s s')
    {t : Ast} (hp : parse (fuelFor text) (defaultCfg ns) text = .ok t) (hu : NoSuperfluousArgs t = true) :
    ∃ e, compile cc ns text' = .error e :=
  compile_fails_after_rename cc ns hne hg hg' ho ho' hunk hi hi' hB hp hu

/-- … at the character level when the renamed function starts the expression: every accepted `G(…)…` with `G`
replaced by an unknown plain name is rejected -/
theorem C17_leading_function_renamed_rejected (cc : CompileCfg) (ns : Option (List (String × String)))
    (G G' post rest : List Char) (hG : plainName G = true) (hG' : plainName G' = true)
    (hstop : ∀ c cs, post = c :: cs → isName c = false ∧ c.toNat < 0x80)
    (hpost : post.dropWhile isSpace = '(' :: rest)
    (hne : String.ofList G ≠ String.ofList G')
    (hg : String.ofList G ∉ nodeTypes) (hg' : String.ofList G' ∉ nodeTypes)
    (ho : String.ofList G ∉ opWords stages) (ho' : String.ofList G' ∉ opWords stages)
    (hunk : fnArity (String.ofList G') = none) (hacc : acceptedTight ns (G ++ post) = true) :
    ∃ e, compile cc ns (G' ++ post) = .error e :=
  compile_fails_rename_first cc ns G G' post rest hG hG' hstop hpost hne hg hg' ho ho' hunk hacc

/-- **required arguments removed** -/
theorem C17_missing_arguments_rejected (cc : CompileCfg) (ns : Option (List (String × String))) (text : List Char)
    (t : Ast) (hp : parse (fuelFor text) (defaultCfg ns) text = .ok t) {g pfx : String} {args : Ast}
    {mn : Nat} {mx : Option Nat} {idx : Bool}
    (hv : Visits t 0 (.call g pfx args)) (hg : fnArity g = some (mn, mx, idx)) (hlt : args.argList.length < mn) :
    ∃ e, compile cc ns text = .error (.build e) :=
  compile_fails_missing_arguments cc ns text t hp hv hg hlt

/-- **unknown axis name**, in a tree and as a text: `name::l` with any name that is not one of the twelve axes -/
theorem C17_unknown_axis_rejected (cc : CompileCfg) (ns : Option (List (String × String))) (text : List Char)
    (t : Ast) (hp : parse (fuelFor text) (defaultCfg ns) text = .ok t) {a : AxisInfo} {inp : Ast}
    (hv : Visits t 0 (.axis a inp)) (ha : a.axis ∉ axisTable) :
    ∃ e, compile cc ns text = .error (.build e) :=
  compile_fails_unknown_axis cc ns text t hp hv ha

theorem C17_unknown_axis_text_rejected (cc : CompileCfg) (ns : Option (List (String × String))) (name l : List Char)
    (hn : plainName name = true) (hl : plainName l = true) (hbad : String.ofList name ∉ axisTable) :
    compile cc ns (name ++ ':' :: ':' :: l) = .error (.build (axisErr (String.ofList name))) :=
  compile_unknown_axis_text cc ns name l hn hl hbad

/-- **malformed qualified names**: `w:` followed by something that cannot start a local name (`a:`, `a: b`, `a:1`,
`a:(`); a text that starts with `:`; `w :x`; a second colon (`a:b:c`) -/
theorem C17_qname_without_local_rejected (cc : CompileCfg) (ns : Option (List (String × String))) (w t1 : List Char)
    (hw : plainName w = true) (h1 : (Lemmas.ScanTail.mkCR t1).1 ≠ ':') (h2 : (Lemmas.ScanTail.mkCR t1).1 ≠ '*')
    (h3 : isNameStart (Lemmas.ScanTail.mkCR t1).1 = false) :
    compile cc ns (w ++ ':' :: t1) = .error (.parse (.scan .invalidQName)) :=
  compile_qname_without_local cc ns w t1 hw h1 h2 h3

theorem C17_leading_colon_rejected (cc : CompileCfg) (ns : Option (List (String × String))) (text rest : List Char)
    (h : text.dropWhile isSpace = ':' :: rest) : compile cc ns text = .error (.parse (.scan .invalidToken)) :=
  compile_leading_colon cc ns text rest h

theorem C17_second_colon_rejected (cc : CompileCfg) (ns : Option (List (String × String))) (w w2 rest : List Char)
    (hw : plainName w = true) (hw2 : localPart w2 = true) :
    compile cc ns (w ++ ':' :: (w2 ++ ':' :: rest)) = .error (.parse (.scan .invalidToken)) :=
  compile_second_colon cc ns w w2 rest hw hw2

end Rejects

end XPathV.Theorems.C17
