import XPathV.Lemmas.Facts
import XPathV.Generated.ExtraFacts
import XPathV.Lemmas.C07Base
import XPathV.Lemmas.CmpSem
import XPathV.Lemmas.CmpSem2
/-!
# C07 — comparison and boolean operators follow XPath 1.0 (property-level theorems)

`Lemmas/C07Base.lean` (same namespace) holds the per-cell theorems (`cell_numNum`, `cell_setNum`,
`cell_numSet`, and — for all six operators since the repairs — `cell_strStr`, `cell_strNum`,
`cell_numStr`, `cell_setStr`, `cell_strSet`, `cell_setSet`); `Lemmas/CmpSem.lean` the boolean cells
(`cell_boolAny`, `cell_anyBool`, all six operators), `and`/`or` with their short-circuit,
`not()`/`boolean()`/`true()`/`false()`, and the induction over expressions.

Fragment `XExp`: number and string literals, predicate-free paths (`PathPF`), the arithmetic
expressions of C08 (`ArithSem.NumEC`: `+ - * div`, unary minus, `floor`, `ceiling`, `number`,
`string-length('…')`, `count` over flat paths) and the nested string-function calls of C09
(`StringFns.StrE`) as number- and string-valued leaves, comparisons `a op b` with **all six
operators on every pair of the four types** (number, string, node-set, boolean — `C07_every_cell`),
`and`, `or`, `not()` of an operand of **any** type (boolean, node-set, number, string — `notFunc` was
repaired: `default: return !asBool(t, v)`), `boolean()`, `true()`, `false()`, parentheses — nested
to any depth.

Repaired in the Go code, and followed by the model (`cmpStrF`, `cmpM`): `cmpStringStringF` compares
`stringToNumber` of its operands for `<`, `<=`, `>`, `>=` (it compared the strings byte-wise:
`'10' < '9'`, `//a[b < c]`); `cmpNodeSetString` and `cmpStringNumeric` hand their operands over in
order (`//a[b < '9']` tested `'9' < b`; `'5' < 9` computed `9 < 5`); `cmpBooleanAny` /
`cmpAnyBoolean` compare numbers for the relational operators (`true() < 2` converted `2` with
`boolean()`).  No type pair and no operator is excluded any more.
-/
namespace XPathV.Theorems.C07
open XPathV XPathV.Model XPathV.Facts XPathV.PathSem XPathV.CmpSem NumAlg

variable {F : Type} [NumAlg F]

/-- **C07, every cell, no exception**: for each of the six operators and every pair of operand
types (number, string, node-set, boolean — sixteen cells), if the engine's operands are related to
the oracle's operands (equal atoms; node lists with the same members, in any order and with any
repetitions), the engine's comparison is XPath's `compare`: existential on node-sets; numbers for
the relational operators; for `=`/`!=` booleans before numbers before strings. -/
theorem C07_every_cell (d : Doc) (cop : Spec.CmpOp) (m n : MVal F) (va vb : Spec.Value F)
    (hm : VRel m va) (hn : VRel n vb) :
    cmpM d cop m n = .ok (Spec.compare d cop va vb) :=
  cmpM_vrel d cop m n va vb hm hn

/-- `C07_every_cell` under its former name.  (It used to carry the hypothesis
`pairOK cop (vkind va) (vkind vb) = true`, a table of admissible type pairs that excluded
string/number and the relational operators on strings, node-set pairs and booleans beside
numbers/strings; the repairs of the Go comparators removed every exclusion.) -/
theorem C07_cells (d : Doc) (cop : Spec.CmpOp) (m n : MVal F) (va vb : Spec.Value F)
    (hm : VRel m va) (hn : VRel n vb) :
    cmpM d cop m n = .ok (Spec.compare d cop va vb) :=
  C07_every_cell d cop m n va vb hm hn

/-- `C07_every_cell` on the oracle's own values (`emb`: the same atoms, the same node list) -/
theorem C07_every_cell_emb (d : Doc) (cop : Spec.CmpOp) (va vb : Spec.Value F) :
    cmpM d cop (Theorems.C08.emb va) (Theorems.C08.emb vb) = .ok (Spec.compare d cop va vb) :=
  cmpM_emb_cell d cop va vb

/-- **C07 at expression level, through the builder**: for every boolean-valued expression of the
fragment, every well-formed document and valid context node, the plan the builder makes evaluates
to the boolean the oracle's top-level evaluation gives.  Hypotheses of C01 for the path operands
(navigator exposing namespace URIs,
`HashInj` (node keys are injective: a theorem, `PathSem.hashInj_holds` — see the `_unconditional` corollary)). -/
theorem C07_main {d : Doc} (wf : WF d) (cfg : ECfg) (hns : cfg.nsIface = true)
    (hinj : HashInj d cfg) (c : Ref) (hc : validRef d c = true) (regexOk : RegexOk) (limit : Nat)
    (sdf : Bool) (e : Ast) (h : XExp .bool e) (st : BState) (o : BOut)
    (hb : build regexOk limit true sdf e {} st = .ok o) :
    ∃ t : Bool, evalP (F := F) d cfg o.q c = .ok (.bool t) ∧
      Spec.evalTop (F := F) d e c = .ok (.bool t) :=
  build_bool_expr_sem wf cfg hns hinj c hc regexOk limit sdf e h st o hb

/-- `C07_main` without the `HashInj` hypothesis (it is a theorem now: `hashInj_holds`; the side
condition left is "no element has two attributes with the same prefix, name and value") -/
theorem C07_main_unconditional {d : Doc} (wf : WF d) (cfg : ECfg) (hns : cfg.nsIface = true)
    (hattr : AttrTriplesDistinct d) (c : Ref) (hc : validRef d c = true) (regexOk : RegexOk) (limit : Nat)
    (sdf : Bool) (e : Ast) (h : XExp .bool e) (st : BState) (o : BOut)
    (hb : build regexOk limit true sdf e {} st = .ok o) :
    ∃ t : Bool, evalP (F := F) d cfg o.q c = .ok (.bool t) ∧
      Spec.evalTop (F := F) d e c = .ok (.bool t) :=
  C07_main wf cfg hns (PathSem.hashInj_holds wf hattr cfg) c hc regexOk limit sdf e h st o hb

/-- `C07_main` with the **full** arithmetic fragment of C08 as number-valued leaves: `mod` and
`sum` too, inside the oracle's domain at the context node (`ArithSem.NumEF d ⟨c, 1, 1⟩ F`) -/
theorem C07_main_full {d : Doc} (wf : WF d) (cfg : ECfg) (hns : cfg.nsIface = true)
    (hinj : HashInj d cfg) (c : Ref) (hc : validRef d c = true) (regexOk : RegexOk) (limit : Nat)
    (sdf : Bool) (e : Ast) (h : XExpG (ArithSem.NumEF d ⟨c, 1, 1⟩ F) StringFns.StrE .bool e)
    (st : BState) (o : BOut) (hb : build regexOk limit true sdf e {} st = .ok o) :
    ∃ t : Bool, evalP (F := F) d cfg o.q c = .ok (.bool t) ∧
      Spec.evalTop (F := F) d e c = .ok (.bool t) :=
  build_bool_expr_sem_full wf cfg hns hinj c hc regexOk limit sdf e h st o hb

/-- **`not()` of every type** (`callFn_not_spec`): on a boolean, a node-set, a number or a string the
engine's `not` is the oracle's `not(boolean(v))` -/
theorem C07_not_any_type (d : Doc) (cfg : ECfg) (fi : Plan) (c : Ref) (ctx : Spec.Ctx)
    (v : Spec.Value F) (asel : Option (List Ref)) :
    callFn (F := F) d cfg "not" fi c [.ok (Theorems.C08.emb v)] asel = .ok (.bool (!Spec.toBool v)) ∧
    Spec.callFn (F := F) d ctx "not" [v] = .ok (.bool (!Spec.toBool v)) :=
  callFn_not_spec d cfg fi c ctx v asel

/-- the property's own fragment (comparisons over literals and paths on the listed pairs, closed
under `and`/`or`/`not()`/`boolean()`) -/
theorem C07_listed_pairs {d : Doc} (wf : WF d) (cfg : ECfg) (hns : cfg.nsIface = true)
    (hinj : HashInj d cfg) (c : Ref) (hc : validRef d c = true) (regexOk : RegexOk) (limit : Nat)
    (sdf : Bool) (e : Ast) (h : BExp e) (st : BState) (o : BOut)
    (hb : build regexOk limit true sdf e {} st = .ok o) :
    ∃ t : Bool, evalP (F := F) d cfg o.q c = .ok (.bool t) ∧
      Spec.evalTop (F := F) d e c = .ok (.bool t) :=
  build_bexp_sem wf cfg hns hinj c hc regexOk limit sdf e h st o hb

/-- `C07_listed_pairs` without the `HashInj` hypothesis (it is a theorem now: `hashInj_holds`; the side
condition left is "no element has two attributes with the same prefix, name and value") -/
theorem C07_listed_pairs_unconditional {d : Doc} (wf : WF d) (cfg : ECfg) (hns : cfg.nsIface = true)
    (hattr : AttrTriplesDistinct d) (c : Ref) (hc : validRef d c = true) (regexOk : RegexOk) (limit : Nat)
    (sdf : Bool) (e : Ast) (h : BExp e) (st : BState) (o : BOut)
    (hb : build regexOk limit true sdf e {} st = .ok o) :
    ∃ t : Bool, evalP (F := F) d cfg o.q c = .ok (.bool t) ∧
      Spec.evalTop (F := F) d e c = .ok (.bool t) :=
  C07_listed_pairs wf cfg hns (PathSem.hashInj_holds wf hattr cfg) c hc regexOk limit sdf e h st o
    hb

/-- a single comparison with the value spelled out: existential on node-sets is `Spec.compare`.
Operands: number literal, string literal, path — every pair, all six operators (the former
hypothesis `pairC07 …`, which confined string and node-set pairs to `=`/`!=`, is gone) -/
theorem C07_comparison_value {d : Doc} (wf : WF d) (cfg : ECfg) (hns : cfg.nsIface = true)
    (hinj : HashInj d cfg) (c : Ref) (hc : validRef d c = true) (regexOk : RegexOk) (limit : Nat)
    (sdf : Bool) (op : String) (cop : Spec.CmpOp) (a b : Ast) (hop : Spec.CmpOp.ofString op = some cop)
    (ha : Opnd a) (hb : Opnd b)
    (st : BState) (o : BOut) (hbd : build regexOk limit true sdf (.oper op a b) {} st = .ok o) :
    ∃ (va vb : Spec.Value F) (ga gb : Option (List (List Ref))),
      Spec.eval (F := F) d a ⟨c, 1, 1⟩ = .ok (.val va ga) ∧
      Spec.eval (F := F) d b ⟨c, 1, 1⟩ = .ok (.val vb gb) ∧
      evalP (F := F) d cfg o.q c = .ok (.bool (Spec.compare d cop va vb)) ∧
      Spec.eval (F := F) d (.oper op a b) ⟨c, 1, 1⟩ = .ok (.val (.bool (Spec.compare d cop va vb)) none) :=
  build_cmp_sem wf cfg hns hinj c hc regexOk limit sdf op cop a b hop ha hb st o hbd

/-- `C07_comparison_value` without the `HashInj` hypothesis (it is a theorem now: `hashInj_holds`; the side
condition left is "no element has two attributes with the same prefix, name and value") -/
theorem C07_comparison_value_unconditional {d : Doc} (wf : WF d) (cfg : ECfg) (hns : cfg.nsIface = true)
    (hattr : AttrTriplesDistinct d) (c : Ref) (hc : validRef d c = true) (regexOk : RegexOk) (limit : Nat)
    (sdf : Bool) (op : String) (cop : Spec.CmpOp) (a b : Ast) (hop : Spec.CmpOp.ofString op = some cop)
    (ha : Opnd a) (hb : Opnd b)
    (st : BState) (o : BOut) (hbd : build regexOk limit true sdf (.oper op a b) {} st = .ok o) :
    ∃ (va vb : Spec.Value F) (ga gb : Option (List (List Ref))),
      Spec.eval (F := F) d a ⟨c, 1, 1⟩ = .ok (.val va ga) ∧
      Spec.eval (F := F) d b ⟨c, 1, 1⟩ = .ok (.val vb gb) ∧
      evalP (F := F) d cfg o.q c = .ok (.bool (Spec.compare d cop va vb)) ∧
      Spec.eval (F := F) d (.oper op a b) ⟨c, 1, 1⟩ = .ok (.val (.bool (Spec.compare d cop va vb)) none) :=
  C07_comparison_value wf cfg hns (PathSem.hashInj_holds wf hattr cfg) c hc regexOk limit sdf op cop
    a b hop ha hb st o hbd

/-- **short-circuit**: `or` with a true left operand is `true`, `and` with a false left operand is
`false`, and the right operand is not evaluated (it may be any plan, even a failing one) -/
theorem C07_short_circuit (d : Doc) (cfg : ECfg) (l r : Plan) (c : Ref) (lv : MVal F)
    (hl : evalP (F := F) d cfg l c = .ok lv) :
    (asBoolM lv = .ok true → evalP (F := F) d cfg (.boolean true l r) c = .ok (.bool true)) ∧
    (asBoolM lv = .ok false → evalP (F := F) d cfg (.boolean false l r) c = .ok (.bool false)) :=
  ⟨fun hb => evalP_or_left d cfg l r c lv hl hb, fun hb => evalP_and_left d cfg l r c lv hl hb⟩

/-- `and`/`or` over operands of any type: the truth values of the operands, converted with
`boolean()`, combined with `&&` / `||` -/
theorem C07_and_or_any_type (d : Doc) (cfg : ECfg) (l r : Plan) (c : Ref) (va vb : Spec.Value F)
    (hl : evalP (F := F) d cfg l c = .ok (Theorems.C08.emb va)) (hr : evalP (F := F) d cfg r c = .ok (Theorems.C08.emb vb)) :
    evalP (F := F) d cfg (.boolean true l r) c = .ok (.bool (Spec.toBool va || Spec.toBool vb)) ∧
    evalP (F := F) d cfg (.boolean false l r) c = .ok (.bool (Spec.toBool va && Spec.toBool vb)) :=
  ⟨evalP_or_spec d cfg l r c va vb hl hr, evalP_and_spec d cfg l r c va vb hl hr⟩

/-! ## T0: what the regenerated facts say about the current source (leaf theorems: nothing builds on them, so a
change of the source that invalidates one of them stops only this module) -/

/-- T0 (F1): the comparison dispatch matrix has no nil cell and holds the expected cells -/
theorem cmp_table_ok : Generated.cmpTable =
    [[some "cmpBooleanBoolean", some "cmpBooleanAny", some "cmpBooleanAny", some "cmpBooleanAny"],
     [some "cmpAnyBoolean", some "cmpNumericNumeric", some "cmpNumericString", some "cmpNumericNodeSet"],
     [some "cmpAnyBoolean", some "cmpStringNumeric", some "cmpStringString", some "cmpStringNodeSet"],
     [some "cmpAnyBoolean", some "cmpNodeSetNumeric", some "cmpNodeSetString", some "cmpNodeSetNodeSet"]] := by decide

/-- T0 (F2): the leaf comparators map each XPath operator to the Go operator of the same meaning,
with the operands in order: numbers with the Go operator of the same spelling; strings with `==` /
`!=` and, for the four relational operators, through `stringToNumber` of both operands (they used
to be compared byte-wise with `<`, `<=`, `>`, `>=`); booleans with `==` / `!=` and, for the relational
operators, through `boolToNumber` -/
theorem leaf_comparators_ok :
    Generated.cmpNumOps = [("=", "=="), ("!=", "!="), ("<", "<"), ("<=", "<="), (">", ">"), (">=", ">=")] ∧
    Generated.cmpStrOps = [("=", "=="), ("!=", "!="), ("<", "num:stringToNumber"), ("<=", "num:stringToNumber"),
      (">", "num:stringToNumber"), (">=", "num:stringToNumber")] ∧
    Generated.cmpBoolOps = [("or", "||"), ("and", "&&"), ("=", "=="), ("!=", "!="), ("<", "num:boolToNumber"),
      ("<=", "num:boolToNumber"), (">", "num:boolToNumber"), (">=", "num:boolToNumber")] ∧
    Generated.opFuncs = [("eqFunc", "="), ("gtFunc", ">"), ("geFunc", ">="), ("ltFunc", "<"), ("leFunc", "<="), ("neFunc", "!=")] := by decide

/-- T0 (F2): **every cell hands its operands to the leaf comparator in order**: in each entry of
`Generated.cellCalls` the comparator's first operand derives from the cell's left parameter (`"L"`)
and its second from the right one (`"R"`), wherever the extractor can tell (`"?"`: an operand that
goes through a conversion helper).  Before the repairs `cmpStringNumeric` and `cmpNodeSetString`
were `("R", "L")`. -/
theorem cells_keep_operand_order :
    Generated.cellCalls.all (fun e => (e.2.2.1 == "L" || e.2.2.1 == "?") && (e.2.2.2 == "R" || e.2.2.2 == "?")) = true ∧
    (Generated.cellCalls.filter (fun e => e.2.2.1 != "?" && e.2.2.2 != "?")).all
      (fun e => e.2.2.1 == "L" && e.2.2.2 == "R") = true ∧
    (Generated.cellCalls.filter (fun e => e.2.2.1 != "?" && e.2.2.2 != "?")).map (·.1) =
      ["cmpBooleanBoolean", "cmpNumericNumeric", "cmpNumericString", "cmpNumericNodeSet", "cmpStringNumeric",
       "cmpStringString", "cmpStringNodeSet", "cmpNodeSetNumeric", "cmpNodeSetString", "cmpNodeSetNodeSet"] := by
  decide

/-- T0 (F2): no comparison cell panics (the pinned number/string and number/node-set cells did) -/
theorem cells_do_not_panic : Generated.cellPanics.all (fun p => !p.2) = true := by decide

/-- T0: the float arm of `asBool` is "non-zero and not NaN" -/
theorem asBool_float_arm_ok : Generated.asBoolFloatSrc = "returnv!=0&&!math.IsNaN(v)" := rfl

end XPathV.Theorems.C07

/-! ## Axiom audit (the theorems added or generalised after the repairs of the comparators) -/
section AxiomAudit
open XPathV.Theorems.C07
end AxiomAudit

/-! ## C07 over filtered paths (`Lemmas/CmpSem2.lean`)

The node-set operands of `C07_main` / `C07_main_full` are predicate-free paths (`PathPF`).  Here they
are the paths of the C02 fragment **with predicates**, `PredSem2.Frag2 true`: `//a[@x]`,
`//b[count(*) = 0]`, `a[b < c]`, `(P)[b]`, … — any number of boolean-valued predicates on any step.
`CmpSem2.XExpP PP NP SP` is `XExpG NP SP` with the node-set leaves as a parameter;
`CmpSem2.XExp2F d c F = XExpP (Frag2 true) (NumEF d ⟨c, 1, 1⟩ F) StrE`.  As everywhere for `Frag2`
the builder runs with `smartDescThroughFilter = false` (the value read off the source). -/
namespace XPathV.Theorems.C07
open XPathV XPathV.Model XPathV.Facts XPathV.PathSem XPathV.CmpSem XPathV.CmpSem2 NumAlg

variable {F : Type} [NumAlg F]

/-- **C07 at expression level, through the builder, node-set operands with predicates**: the same
conclusion as `C07_main_full` — the built plan evaluates to the oracle's boolean — for every
boolean-valued expression whose node-set leaves are paths of `PredSem2.Frag2 true` (number-valued
leaves: the full arithmetic fragment of C08; string-valued leaves: the nested string functions of
C09; all six comparison operators on every pair of types; `and`, `or`, `not()`, `boolean()`,
`true()`, `false()`, parentheses, nested to any depth) -/
theorem C07_main_filtered_paths {d : Doc} (wf : WF d) (cfg : ECfg) (hns : cfg.nsIface = true)
    (hinj : HashInj d cfg) (c : Ref) (hc : validRef d c = true) (regexOk : RegexOk) (limit : Nat)
    (e : Ast) (h : XExp2F d c F .bool e)
    (st : BState) (o : BOut) (hb : build regexOk limit true false e {} st = .ok o) :
    ∃ t : Bool, evalP (F := F) d cfg o.q c = .ok (.bool t) ∧
      Spec.evalTop (F := F) d e c = .ok (.bool t) :=
  C07_main2_full wf cfg hns hinj c hc regexOk limit e h st o hb

/-- `C07_main_filtered_paths` without the `HashInj` hypothesis (it is a theorem now: `hashInj_holds`; the side
condition left is "no element has two attributes with the same prefix, name and value") -/
theorem C07_main_filtered_paths_unconditional {d : Doc} (wf : WF d) (cfg : ECfg) (hns : cfg.nsIface = true)
    (hattr : AttrTriplesDistinct d) (c : Ref) (hc : validRef d c = true) (regexOk : RegexOk) (limit : Nat)
    (e : Ast) (h : XExp2F d c F .bool e)
    (st : BState) (o : BOut) (hb : build regexOk limit true false e {} st = .ok o) :
    ∃ t : Bool, evalP (F := F) d cfg o.q c = .ok (.bool t) ∧
      Spec.evalTop (F := F) d e c = .ok (.bool t) :=
  C07_main_filtered_paths wf cfg hns (PathSem.hashInj_holds wf hattr cfg) c hc regexOk limit e h st o hb

/-- the document-independent version (number-valued leaves `ArithSem.NumEC`, as in `C07_main`) -/
theorem C07_main_filtered_paths_doc_independent {d : Doc} (wf : WF d) (cfg : ECfg) (hns : cfg.nsIface = true)
    (hinj : HashInj d cfg) (c : Ref) (hc : validRef d c = true) (regexOk : RegexOk) (limit : Nat)
    (e : Ast) (h : XExp2 .bool e)
    (st : BState) (o : BOut) (hb : build regexOk limit true false e {} st = .ok o) :
    ∃ t : Bool, evalP (F := F) d cfg o.q c = .ok (.bool t) ∧
      Spec.evalTop (F := F) d e c = .ok (.bool t) :=
  C07_main2 wf cfg hns hinj c hc regexOk limit e h st o hb

/-- **old fragment → new**: every expression of the fragment of `C07_main_full` (node-set leaves
`PathPF`) is in the fragment of `C07_main_filtered_paths` -/
theorem C07_filtered_paths_embeds_full {d : Doc} {c : Ref} {k : CmpSem.Kind} {e : Ast}
    (h : XExpG (ArithSem.NumEF d ⟨c, 1, 1⟩ F) StringFns.StrE k e) : XExp2F d c F k e :=
  xexp2F_of_xexpG h

/-- … and every expression of the fragment of `C07_main` is in `XExp2` -/
theorem C07_filtered_paths_embeds_main {k : CmpSem.Kind} {e : Ast} (h : XExp k e) : XExp2 k e :=
  xexp2_of_xexp h

/-- `C07_main_full` at `smartDescThroughFilter = false` is the restriction of
`C07_main_filtered_paths` to the old fragment -/
theorem C07_main_full_of_filtered_paths {d : Doc} (wf : WF d) (cfg : ECfg) (hns : cfg.nsIface = true)
    (hinj : HashInj d cfg) (c : Ref) (hc : validRef d c = true) (regexOk : RegexOk) (limit : Nat)
    (e : Ast) (h : XExpG (ArithSem.NumEF d ⟨c, 1, 1⟩ F) StringFns.StrE .bool e)
    (st : BState) (o : BOut) (hb : build regexOk limit true false e {} st = .ok o) :
    ∃ t : Bool, evalP (F := F) d cfg o.q c = .ok (.bool t) ∧
      Spec.evalTop (F := F) d e c = .ok (.bool t) :=
  C07_main_filtered_paths wf cfg hns hinj c hc regexOk limit e (C07_filtered_paths_embeds_full h) st o hb

/-- **what the comparison sees of a filtered path**: the built plan of a path of `Frag2 true`
evaluates to a node list with exactly the members of the oracle's node-set (order and repetitions
are immaterial to the existential comparison cells), and its `boolean()` is the oracle's
(non-emptiness) -/
theorem C07_filtered_path_operand {d : Doc} (wf : WF d) (cfg : ECfg) (hns : cfg.nsIface = true)
    (hinj : HashInj d cfg) (c : Ref) (hc : validRef d c = true) (regexOk : RegexOk) (limit : Nat)
    (p : Ast) (hp : PredSem2.Frag2 true p) (st : BState) (o : BOut)
    (hb : build regexOk limit true false p {} st = .ok o) :
    ∃ l ns g, evalP (F := F) d cfg o.q c = .ok (.nodes l) ∧
      Spec.eval (F := F) d p ⟨c, 1, 1⟩ = .ok (.val (.nodes ns) g) ∧ (∀ x, x ∈ l ↔ x ∈ ns) ∧
      asBoolM (F := F) (.nodes l) = .ok (Spec.toBool (F := F) (.nodes ns)) :=
  frag2_operand_value wf cfg hns hinj c hc regexOk limit p hp st o hb

/-- a single comparison between two operands of `XExp2` (filtered paths among them), with the
value spelled out: the built plan gives XPath's `compare` of the oracle's operand values -/
theorem C07_comparison_value_filtered_paths {d : Doc} (wf : WF d) (cfg : ECfg) (hns : cfg.nsIface = true)
    (hinj : HashInj d cfg) (c : Ref) (hc : validRef d c = true) (regexOk : RegexOk) (limit : Nat)
    (op : String) (cop : Spec.CmpOp) (ka kb : CmpSem.Kind) (a b : Ast)
    (hop : Spec.CmpOp.ofString op = some cop) (ha : XExp2 ka a) (hb : XExp2 kb b)
    (st : BState) (o : BOut) (hbd : build regexOk limit true false (.oper op a b) {} st = .ok o) :
    ∃ (va vb : Spec.Value F) (ga gb : Option (List (List Ref))),
      Spec.eval (F := F) d a ⟨c, 1, 1⟩ = .ok (.val va ga) ∧
      Spec.eval (F := F) d b ⟨c, 1, 1⟩ = .ok (.val vb gb) ∧
      evalP (F := F) d cfg o.q c = .ok (.bool (Spec.compare d cop va vb)) ∧
      Spec.eval (F := F) d (.oper op a b) ⟨c, 1, 1⟩ = .ok (.val (.bool (Spec.compare d cop va vb)) none) :=
  C07_comparison_value2 wf cfg hns hinj c hc regexOk limit op cop ka kb a b hop ha hb st o hbd

end XPathV.Theorems.C07

section AxiomAuditFilteredPaths
open XPathV.Theorems.C07
end AxiomAuditFilteredPaths
