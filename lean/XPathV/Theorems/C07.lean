import XPathV.Model.Api
/-! # Property C07 — theorems (placeholder header; filled in below) -/
namespace XPathV.Theorems.C07
end XPathV.Theorems.C07
