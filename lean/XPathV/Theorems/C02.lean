import XPathV.Model.Api
/-! # Property C02 — theorems (placeholder header; filled in below) -/
namespace XPathV.Theorems.C02
end XPathV.Theorems.C02
