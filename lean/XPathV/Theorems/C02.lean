import XPathV.Lemmas.PullProofs
import XPathV.Generated.ExtraFacts
import XPathV.Model.Api
import XPathV.Lemmas.Facts
import XPathV.Lemmas.PredSem
import XPathV.Lemmas.PredSem2
import XPathV.Lemmas.ApiSem
import XPathV.Lemmas.ApiSem2
import XPathV.Lemmas.Pull2Proofs
import XPathV.Lemmas.Pull2Gen
/-!
# C02 — boolean predicates keep exactly the nodes for which the predicate is true
-/
namespace XPathV.Theorems.C02
open XPathV XPathV.Model XPathV.Facts

/-- T0 (F7) **state reset protocol**: for every query struct, every field that `Select` writes is
either assigned by `Evaluate` or re-initialised by `Select` itself when it creates a new iterator.
Removing a reset from an `Evaluate` method in Go changes `Generated.structs` and breaks this. -/
theorem reset_table_ok : Generated.structs.all resetOk = true := by decide

/-- T0 (F7): every `Evaluate` forwards the reset to its input queries -/
theorem reset_forwarded : Generated.structs.all forwardsOk = true := by decide

variable {F : Type} [NumAlg F]

/-- the model's filter: the verdict for a candidate is a function of the candidate alone
(the predicate is evaluated with that candidate as context; nothing is carried over) -/
theorem verdict_is_local (d : Doc) (cfg : ECfg) (inp pred : Plan) (c : Ref) (out : List Item)
    (h : sel (F := F) d cfg (.filter inp pred) c = .ok out) :
    ∃ ins, sel (F := F) d cfg inp c = .ok ins ∧ ∀ it ∈ out, ∃ jt ∈ ins, jt.r = it.r := by
  simp only [sel] at h
  cases hin : sel (F := F) d cfg inp c with
  | error e => simp [hin, bind, Except.bind] at h
  | ok ins =>
    refine ⟨ins, rfl, ?_⟩
    simp only [hin, bind, Except.bind] at h
    split at h
    · cases h
    · rename_i flags _
      cases h
      intro it hit
      -- outputs of `filterPositions` are among the kept items, which are among the inputs
      have hsub : ∀ (l : List Item) (acc : List Item × List (Nat × Nat)) (x : Item),
          x ∈ (l.foldl (fun (acc : List Item × List (Nat × Nat)) (it : Item) =>
            let c := ((acc.2.lookup it.lvl).getD 0) + 1
            (acc.1 ++ [⟨it.r, c, 0⟩], (it.lvl, c) :: acc.2.filter (fun p => p.1 != it.lvl))) acc).1 →
          (∃ y ∈ acc.1, y.r = x.r) ∨ (∃ y ∈ l, y.r = x.r) := by
        intro l
        induction l with
        | nil => intro acc x hx; exact Or.inl ⟨x, hx, rfl⟩
        | cons a t ih =>
          intro acc x hx
          simp only [List.foldl_cons] at hx
          rcases ih _ x hx with ⟨y, hy, hyx⟩ | ⟨y, hy, hyx⟩
          · simp only [List.mem_append, List.mem_singleton] at hy
            rcases hy with hy | hy
            · exact Or.inl ⟨y, hy, hyx⟩
            · subst hy; exact Or.inr ⟨a, List.mem_cons_self, hyx⟩
          · exact Or.inr ⟨y, List.mem_cons_of_mem _ hy, hyx⟩
      unfold filterPositions at hit
      rcases hsub _ _ it hit with ⟨y, hy, _⟩ | ⟨y, hy, hyx⟩
      · simp at hy
      · simp only [List.mem_filterMap] at hy
        obtain ⟨⟨a, b⟩, hab, hsome⟩ := hy
        have : a ∈ ins := (List.of_mem_zip hab).1
        split at hsome
        · cases hsome; exact ⟨a, this, hyx⟩
        · cases hsome

/-- T0: the builder does not let the "top-most matches only" rewrite reach a step that is then
filtered (the flags passed to a filter's input mask out SmartDesc), and the model follows the source -/
theorem smartdesc_stops_at_filters : Generated.filterInputFlagsSrc = "(flags|flagsEnum.Filter)&^flagsEnum.SmartDesc" ∧
    Model.smartDescThroughFilterFromSource = false := ⟨rfl, by decide +kernel⟩

/-- **state reset protocol, on the pull machine**: from *any* state (whatever was pulled before,
however far), `Evaluate` followed by a drain yields the whole sequence again — exactly what a fresh
clone yields.  This is why the verdict for one candidate cannot depend on earlier candidates. -/
theorem evaluate_restarts_from_any_state (d : Doc) (cfg : ECfg) (cur : Ref) (q : PQ) :
    rem d cfg cur q.evaluate = rem d cfg cur q.clone ∧
    ∃ l, sel (F := F) d cfg q.plan cur = .ok l ∧ ∃ q' f0, ∀ f, f0 ≤ f → drain d cfg cur f q.evaluate = some (l, q') :=
  ⟨evaluate_resets d cfg cur q, drain_evaluate d cfg cur q⟩


open XPathV.PathSem XPathV.PredSem in
/-- **C02 (main theorem, through the builder with every rewrite)**.  Fragment `Frag true p`: location
paths over the twelve axes in which the path start and every step may carry any number of
boolean-valued predicates — existence tests, a path compared with a string literal (`=`, `!=`) or a
number literal (all six operators, either side), `not()`, `and`, `or` — nested to any depth, with
predicates inside predicates.  For every well-formed document and valid context node, the plan
the builder makes (cachedChild, the `//name` shortcut, descendant-over-descendant, the merge
rewrite all included) selects exactly the oracle's node set.  Hypotheses: navigator exposing
namespace URIs,
`HashInj` (node keys are injective: a theorem, `PathSem.hashInj_holds` — see the `_unconditional` corollary). -/
theorem C02_main {d : Doc} (wf : WF d) (cfg : ECfg) (hns : cfg.nsIface = true)
    (hinj : HashInj d cfg) (regexOk : RegexOk) (limit : Nat) (p : Ast) (hp : Frag true p)
    (st : BState) (o : BOut) (hb : build regexOk limit true false p {} st = .ok o)
    (c : Ref) (hc : validRef d c = true) :
    ∃ out ns g, sel (F := F) d cfg o.q c = .ok out ∧
      Spec.eval (F := F) d p ⟨c, 1, 1⟩ = .ok (.val (.nodes ns) g) ∧
      ∀ x, x ∈ refs out ↔ x ∈ ns :=
  PredSem.C02_main wf cfg hns hinj regexOk limit p hp st o hb c hc

open XPathV.PathSem XPathV.PredSem in
/-- `C02_main` without the `HashInj` hypothesis (it is a theorem now: `hashInj_holds`; the side
condition left is "no element has two attributes with the same prefix, name and value") -/
theorem C02_main_unconditional {d : Doc} (wf : WF d) (cfg : ECfg) (hns : cfg.nsIface = true)
    (hattr : AttrTriplesDistinct d) (regexOk : RegexOk) (limit : Nat) (p : Ast) (hp : Frag true p)
    (st : BState) (o : BOut) (hb : build regexOk limit true false p {} st = .ok o)
    (c : Ref) (hc : validRef d c = true) :
    ∃ out ns g, sel (F := F) d cfg o.q c = .ok out ∧
      Spec.eval (F := F) d p ⟨c, 1, 1⟩ = .ok (.val (.nodes ns) g) ∧
      ∀ x, x ∈ refs out ↔ x ∈ ns :=
  C02_main wf cfg hns (PathSem.hashInj_holds wf hattr cfg) regexOk limit p hp st o hb c hc

open XPathV.PathSem XPathV.PredSem in
/-- **C02, the property as stated**: the built plan of `p[b]` returns a candidate node of `p` if
and only if the predicate is true at that node (`holds` = `boolean()` of the oracle's value of `b`
there) — on the model side and on the oracle side, and the two agree -/
theorem C02_keeps_exactly_the_true_ones {d : Doc} (wf : WF d) (cfg : ECfg) (hns : cfg.nsIface = true)
    (hinj : HashInj d cfg) (regexOk : RegexOk) (limit : Nat) (p b : Ast) (hp : Frag true p)
    (hb : Frag false b) (st0 st : BState) (o0 o : BOut)
    (hb0 : build regexOk limit true false p {} st0 = .ok o0)
    (hb1 : build regexOk limit true false (.filter p b) {} st = .ok o)
    (c : Ref) (hc : validRef d c = true) :
    ∃ out0 ns0 g0 out ns g,
      sel (F := F) d cfg o0.q c = .ok out0 ∧
      Spec.eval (F := F) d p ⟨c, 1, 1⟩ = .ok (.val (.nodes ns0) g0) ∧
      (∀ x, x ∈ refs out0 ↔ x ∈ ns0) ∧
      sel (F := F) d cfg o.q c = .ok out ∧
      Spec.eval (F := F) d (.filter p b) ⟨c, 1, 1⟩ = .ok (.val (.nodes ns) g) ∧
      (∀ x, x ∈ refs out ↔ x ∈ ns) ∧
      (∀ x, x ∈ refs out ↔ x ∈ refs out0 ∧ holds (F := F) d b x = true) ∧
      (∀ x, x ∈ ns ↔ x ∈ ns0 ∧ holds (F := F) d b x = true) :=
  PredSem.C02_main_keeps_true wf cfg hns hinj regexOk limit p b hp hb st0 st o0 o hb0 hb1 c hc

open XPathV.PathSem XPathV.PredSem in
/-- `C02_keeps_exactly_the_true_ones` without the `HashInj` hypothesis (it is a theorem now: `hashInj_holds`; the side
condition left is "no element has two attributes with the same prefix, name and value") -/
theorem C02_keeps_exactly_the_true_ones_unconditional {d : Doc} (wf : WF d) (cfg : ECfg) (hns : cfg.nsIface = true)
    (hattr : AttrTriplesDistinct d) (regexOk : RegexOk) (limit : Nat) (p b : Ast) (hp : Frag true p)
    (hb : Frag false b) (st0 st : BState) (o0 o : BOut)
    (hb0 : build regexOk limit true false p {} st0 = .ok o0)
    (hb1 : build regexOk limit true false (.filter p b) {} st = .ok o)
    (c : Ref) (hc : validRef d c = true) :
    ∃ out0 ns0 g0 out ns g,
      sel (F := F) d cfg o0.q c = .ok out0 ∧
      Spec.eval (F := F) d p ⟨c, 1, 1⟩ = .ok (.val (.nodes ns0) g0) ∧
      (∀ x, x ∈ refs out0 ↔ x ∈ ns0) ∧
      sel (F := F) d cfg o.q c = .ok out ∧
      Spec.eval (F := F) d (.filter p b) ⟨c, 1, 1⟩ = .ok (.val (.nodes ns) g) ∧
      (∀ x, x ∈ refs out ↔ x ∈ ns) ∧
      (∀ x, x ∈ refs out ↔ x ∈ refs out0 ∧ holds (F := F) d b x = true) ∧
      (∀ x, x ∈ ns ↔ x ∈ ns0 ∧ holds (F := F) d b x = true) :=
  C02_keeps_exactly_the_true_ones wf cfg hns (PathSem.hashInj_holds wf hattr cfg) regexOk limit p b
    hp hb st0 st o0 o hb0 hb1 c hc

open XPathV.PathSem XPathV.PredSem in
/-- C02 at the builder configuration read off the current source (`shortcutCondSrc`,
`filterInputFlagsSrc`), against the top-level oracle -/
theorem C02_at_source_config {d : Doc} (wf : WF d) (cfg : ECfg) (hns : cfg.nsIface = true)
    (hinj : HashInj d cfg) (regexOk : RegexOk) (limit : Nat) (p : Ast) (hp : Frag true p) (o : BOut)
    (hb : build regexOk limit shortcutNeedsNodeTestFromSource smartDescThroughFilterFromSource p {} {} = .ok o)
    (c : Ref) (hc : validRef d c = true) :
    ∃ out ns, sel (F := F) d cfg o.q c = .ok out ∧
      Spec.evalTop (F := F) d p c = .ok (.nodes ns) ∧ ∀ x, x ∈ refs out ↔ x ∈ ns :=
  PredSem.C02_source_config wf cfg hns hinj regexOk limit p hp o hb c hc

open XPathV.PathSem XPathV.PredSem in
/-- `C02_at_source_config` without the `HashInj` hypothesis (it is a theorem now: `hashInj_holds`; the side
condition left is "no element has two attributes with the same prefix, name and value") -/
theorem C02_at_source_config_unconditional {d : Doc} (wf : WF d) (cfg : ECfg) (hns : cfg.nsIface = true)
    (hattr : AttrTriplesDistinct d) (regexOk : RegexOk) (limit : Nat) (p : Ast) (hp : Frag true p) (o : BOut)
    (hb : build regexOk limit shortcutNeedsNodeTestFromSource smartDescThroughFilterFromSource p {} {} = .ok o)
    (c : Ref) (hc : validRef d c = true) :
    ∃ out ns, sel (F := F) d cfg o.q c = .ok out ∧
      Spec.evalTop (F := F) d p c = .ok (.nodes ns) ∧ ∀ x, x ∈ refs out ↔ x ∈ ns :=
  C02_at_source_config wf cfg hns (PathSem.hashInj_holds wf hattr cfg) regexOk limit p hp o hb c hc

open XPathV.PathSem XPathV.PredSem in
/-- one filter, sequence level: the filter keeps, in order, exactly the candidates whose
predicate value (a boolean, string or node-set) is true -/
theorem C02_filter_is_list_filter (d : Doc) (cfg : ECfg) (inp pred : Plan) (c : Ref) (ins : List Item)
    (tr : Ref → Bool) (hs : sel (F := F) d cfg inp c = .ok ins)
    (hv : ∀ it ∈ ins, ∃ v, evalP (F := F) d cfg pred it.r = .ok v ∧ IsBSN v ∧ truthM v = tr it.r) :
    ∃ out, sel (F := F) d cfg (.filter inp pred) c = .ok out ∧ refs out = (refs ins).filter tr :=
  sel_filter_bool d cfg inp pred c ins tr hs hv

/-- **no state leaks between evaluations, all sixteen iterator types (`Model/Pull2`)**: from every
state reachable by any sequence of `Evaluate`, `Clone` and `Select` calls — mid-iteration, exhausted,
with whatever counters, tables, buffers and closure cursors (the dedup table of `ancestorQuery`, the
position maps of `filterQuery`, the `level`/`posit` of descendant-over-descendant, the merged-filter
buffer, the union's buffered iterators) — `Evaluate` followed by a drain reports exactly the sequence
of the plan for the new context node, and nothing else at any fuel.  This is why the verdict for one
candidate never depends on which candidates were tested before it. -/
theorem evaluate_restarts_all_iterators (d : Doc) (cfg : ECfg) (dec : Plan → Ref → Bool) (hd : 0 < d.length)
    (p0 : Plan) (hw : NeedsWF p0 → WF d) (q : PQ2)
    (hr : Reach d cfg dec p0 q) (hdec : q.DecOK (F := F) d cfg dec) (c : Ref) (hg : Good d c) :
    ∃ l, sel (F := F) d cfg p0 c = .ok l ∧
      (∃ q' c' f0, ∀ f, f0 ≤ f → drain2 d cfg dec f q.evaluate c = some (l, q', c')) ∧
      (∀ f l' q' c', drain2 d cfg dec f q.evaluate c = some (l', q', c') → l' = l) :=
  reach_evaluate_restarts d cfg dec hd p0 hw q hr hdec c hg

open XPathV.PathSem XPathV.PredSem XPathV.PredSem2 in
/-- **C02 at the property's full list of predicate forms** (`Frag2` ⊇ `Frag`): in addition to
existence tests, path `=`/`!=` string literal, path *op* number literal, `not()`, `and`, `or` and
nesting, the predicates may be `count(P) op n` / `n op count(P)`, `contains`/`starts-with`/
`ends-with` of a string literal, `local-name()`, `local-name(P)` or a path `P` against a literal,
`local-name() =`/`!=` `'lit'`, `local-name(P) =`/`!=` `'lit'`, and the filtered path may be
parenthesised (`(P)[b]`); a predicate may also compare two paths (`P op Q`, all six operators, any two
paths of the fragment — see `C02_path_vs_path`) or a path with a string literal on either side with
any of the six operators (after the repairs of `cmpStringStringF` / `cmpNodeSetString`).  After the repairs of `notFunc` and of `containsFunc`/`startwithFunc`/
`endwithFunc` the fragment also holds `not(count(P))` (`not` of a number) and the string tests with
a flat path in *second* position: `contains(P, Q)`, `contains('lit', Q)` ….  A path used as a *function argument* must be flat (child/attribute/self
steps with any fragment predicates): the engine hands a function its result *sequence* (length,
first element), the oracle the document-ordered *set*; they coincide exactly when the sequence is
sorted and duplicate-free, which `FlatFiltered.flatAny_sorted` proves for flat paths.  Paths in
every other position range over all twelve axes. -/
theorem C02_main_full {d : Doc} (wf : WF d) (cfg : ECfg) (hns : cfg.nsIface = true)
    (hinj : HashInj d cfg) (regexOk : RegexOk) (limit : Nat) (p : Ast) (hp : Frag2 true p)
    (st : BState) (o : BOut) (hb : build regexOk limit true false p {} st = .ok o)
    (c : Ref) (hc : validRef d c = true) :
    ∃ out ns g, sel (F := F) d cfg o.q c = .ok out ∧
      Spec.eval (F := F) d p ⟨c, 1, 1⟩ = .ok (.val (.nodes ns) g) ∧
      ∀ x, x ∈ refs out ↔ x ∈ ns :=
  C02_main2 wf cfg hns hinj regexOk limit p hp st o hb c hc

open XPathV.PathSem XPathV.PredSem XPathV.PredSem2 in
/-- `C02_main_full` without the `HashInj` hypothesis (it is a theorem now: `hashInj_holds`; the side
condition left is "no element has two attributes with the same prefix, name and value") -/
theorem C02_main_full_unconditional {d : Doc} (wf : WF d) (cfg : ECfg) (hns : cfg.nsIface = true)
    (hattr : AttrTriplesDistinct d) (regexOk : RegexOk) (limit : Nat) (p : Ast) (hp : Frag2 true p)
    (st : BState) (o : BOut) (hb : build regexOk limit true false p {} st = .ok o)
    (c : Ref) (hc : validRef d c = true) :
    ∃ out ns g, sel (F := F) d cfg o.q c = .ok out ∧
      Spec.eval (F := F) d p ⟨c, 1, 1⟩ = .ok (.val (.nodes ns) g) ∧
      ∀ x, x ∈ refs out ↔ x ∈ ns :=
  C02_main_full wf cfg hns (PathSem.hashInj_holds wf hattr cfg) regexOk limit p hp st o hb c hc

open XPathV.PathSem XPathV.PredSem XPathV.PredSem2 in
/-- … the property as stated, on the full list: `p[b]` (and `(p)[b]`) keeps a candidate iff
`boolean(b)` is true there -/
theorem C02_keeps_exactly_the_true_ones_full {d : Doc} (wf : WF d) (cfg : ECfg) (hns : cfg.nsIface = true)
    (hinj : HashInj d cfg) (regexOk : RegexOk) (limit : Nat) (p b : Ast) (hp : Frag2 true p)
    (hb : Frag2 false b) (st0 st : BState) (o0 o : BOut)
    (hb0 : build regexOk limit true false p {} st0 = .ok o0)
    (hb1 : build regexOk limit true false (.filter p b) {} st = .ok o)
    (c : Ref) (hc : validRef d c = true) :
    ∃ out0 ns0 g0 out ns g,
      sel (F := F) d cfg o0.q c = .ok out0 ∧
      Spec.eval (F := F) d p ⟨c, 1, 1⟩ = .ok (.val (.nodes ns0) g0) ∧
      (∀ x, x ∈ refs out0 ↔ x ∈ ns0) ∧
      sel (F := F) d cfg o.q c = .ok out ∧
      Spec.eval (F := F) d (.filter p b) ⟨c, 1, 1⟩ = .ok (.val (.nodes ns) g) ∧
      (∀ x, x ∈ refs out ↔ x ∈ ns) ∧
      (∀ x, x ∈ refs out ↔ x ∈ refs out0 ∧ holds (F := F) d b x = true) ∧
      (∀ x, x ∈ ns ↔ x ∈ ns0 ∧ holds (F := F) d b x = true) :=
  C02_keeps_true2 wf cfg hns hinj regexOk limit p b hp hb st0 st o0 o hb0 hb1 c hc

open XPathV.PathSem XPathV.PredSem XPathV.PredSem2 in
/-- `C02_keeps_exactly_the_true_ones_full` without the `HashInj` hypothesis (it is a theorem now: `hashInj_holds`; the side
condition left is "no element has two attributes with the same prefix, name and value") -/
theorem C02_keeps_exactly_the_true_ones_full_unconditional {d : Doc} (wf : WF d) (cfg : ECfg) (hns : cfg.nsIface = true)
    (hattr : AttrTriplesDistinct d) (regexOk : RegexOk) (limit : Nat) (p b : Ast) (hp : Frag2 true p)
    (hb : Frag2 false b) (st0 st : BState) (o0 o : BOut)
    (hb0 : build regexOk limit true false p {} st0 = .ok o0)
    (hb1 : build regexOk limit true false (.filter p b) {} st = .ok o)
    (c : Ref) (hc : validRef d c = true) :
    ∃ out0 ns0 g0 out ns g,
      sel (F := F) d cfg o0.q c = .ok out0 ∧
      Spec.eval (F := F) d p ⟨c, 1, 1⟩ = .ok (.val (.nodes ns0) g0) ∧
      (∀ x, x ∈ refs out0 ↔ x ∈ ns0) ∧
      sel (F := F) d cfg o.q c = .ok out ∧
      Spec.eval (F := F) d (.filter p b) ⟨c, 1, 1⟩ = .ok (.val (.nodes ns) g) ∧
      (∀ x, x ∈ refs out ↔ x ∈ ns) ∧
      (∀ x, x ∈ refs out ↔ x ∈ refs out0 ∧ holds (F := F) d b x = true) ∧
      (∀ x, x ∈ ns ↔ x ∈ ns0 ∧ holds (F := F) d b x = true) :=
  C02_keeps_exactly_the_true_ones_full wf cfg hns (PathSem.hashInj_holds wf hattr cfg) regexOk limit
    p b hp hb st0 st o0 o hb0 hb1 c hc

open XPathV.PathSem XPathV.PredSem XPathV.PredSem2 in
/-- **C02 for a path compared with a path, all six operators**: `p[P op Q]` (`//a[b = c]`,
`//a[@x != ../@y]`, `//a[b < c/d]`) with `p`, `P`, `Q` arbitrary paths of `Frag2` (all twelve axes,
any fragment predicates, no flatness requirement).  The built plan of `p[P op Q]` keeps a candidate
`x` of the built plan of `p` if and only if the oracle's `boolean(P op Q)` is true at `x` (`holds`),
and what it returns is the oracle's node-set of `p[P op Q]`.  The last conjunct spells
`boolean(P op Q)` out: at every candidate both paths evaluate to node-sets, and the comparison is
true iff some node of `P` and some node of `Q` have equal (`=`) / different (`!=`) string-values, or
— for `<`, `<=`, `>`, `>=` — string-values whose numbers compare.

Derived from `C02_keeps_exactly_the_true_ones_full`.  (First stated for `=`/`!=` only: the engine
compared the string-values byte-wise for the relational operators — `<b>10</b>` against `<c>9</c>`
satisfied `b < c`.  `cmpStringStringF` was repaired; instance: `NonVacuity.C02.C02_path_lt_path_instance`.) -/
theorem C02_path_vs_path {d : Doc} (wf : WF d) (cfg : ECfg) (hns : cfg.nsIface = true)
    (hinj : HashInj d cfg) (regexOk : RegexOk) (limit : Nat) (op : String) (hop : op ∈ cmpOps)
    (p P Q : Ast) (hp : Frag2 true p) (hP : Frag2 true P) (hQ : Frag2 true Q)
    (st0 st : BState) (o0 o : BOut)
    (hb0 : build regexOk limit true false p {} st0 = .ok o0)
    (hb1 : build regexOk limit true false (.filter p (.oper op P Q)) {} st = .ok o)
    (c : Ref) (hc : validRef d c = true) :
    ∃ out0 out ns g,
      sel (F := F) d cfg o0.q c = .ok out0 ∧
      sel (F := F) d cfg o.q c = .ok out ∧
      Spec.eval (F := F) d (.filter p (.oper op P Q)) ⟨c, 1, 1⟩ = .ok (.val (.nodes ns) g) ∧
      (∀ x, x ∈ refs out ↔ x ∈ ns) ∧
      (∀ x, x ∈ refs out ↔ x ∈ refs out0 ∧ holds (F := F) d (.oper op P Q) x = true) ∧
      (∀ x, x ∈ refs out0 →
        ∃ nsP gP nsQ gQ, Spec.eval (F := F) d P ⟨x, 1, 1⟩ = .ok (.val (.nodes nsP) gP) ∧
          Spec.eval (F := F) d Q ⟨x, 1, 1⟩ = .ok (.val (.nodes nsQ) gQ) ∧
          (holds (F := F) d (.oper op P Q) x = true ↔
            ∃ u ∈ nsP, ∃ v ∈ nsQ, (op = "=" ∧ stringValue d u = stringValue d v) ∨
              (op = "!=" ∧ stringValue d u ≠ stringValue d v) ∨
              (∃ cop, Spec.CmpOp.ofString op = some cop ∧ cop.isRel = true ∧
                Spec.cmpNum cop (Spec.strToNum (F := F) (stringValue d u))
                  (Spec.strToNum (F := F) (stringValue d v)) = true))) := by
  obtain ⟨out0, ns0, g0, out, ns, g, h1, h2, h3, h4, h5, h6, h7, _⟩ :=
    C02_keeps_exactly_the_true_ones_full (F := F) wf cfg hns hinj regexOk limit p (.oper op P Q) hp
      (.cmpPath op P Q hop hP hQ) st0 st o0 o hb0 hb1 c hc
  refine ⟨out0, out, ns, g, h1, h4, h5, h6, h7, fun x hx => ?_⟩
  obtain ⟨_, ns0', _, _, he, _, hv⟩ := C02_naive2 (F := F) wf cfg hns hinj p hp c hc
  rw [h2] at he; cases he
  exact holds_cmpPath (F := F) wf cfg hns hinj op hop P Q hP hQ x (hv x ((h3 x).1 hx))

open XPathV.PathSem XPathV.PredSem XPathV.PredSem2 in
/-- `C02_path_vs_path` without the `HashInj` hypothesis (it is a theorem now: `hashInj_holds`; the side
condition left is "no element has two attributes with the same prefix, name and value") -/
theorem C02_path_vs_path_unconditional {d : Doc} (wf : WF d) (cfg : ECfg) (hns : cfg.nsIface = true)
    (hattr : AttrTriplesDistinct d) (regexOk : RegexOk) (limit : Nat) (op : String) (hop : op ∈ cmpOps)
    (p P Q : Ast) (hp : Frag2 true p) (hP : Frag2 true P) (hQ : Frag2 true Q)
    (st0 st : BState) (o0 o : BOut)
    (hb0 : build regexOk limit true false p {} st0 = .ok o0)
    (hb1 : build regexOk limit true false (.filter p (.oper op P Q)) {} st = .ok o)
    (c : Ref) (hc : validRef d c = true) :
    ∃ out0 out ns g,
      sel (F := F) d cfg o0.q c = .ok out0 ∧
      sel (F := F) d cfg o.q c = .ok out ∧
      Spec.eval (F := F) d (.filter p (.oper op P Q)) ⟨c, 1, 1⟩ = .ok (.val (.nodes ns) g) ∧
      (∀ x, x ∈ refs out ↔ x ∈ ns) ∧
      (∀ x, x ∈ refs out ↔ x ∈ refs out0 ∧ holds (F := F) d (.oper op P Q) x = true) ∧
      (∀ x, x ∈ refs out0 →
        ∃ nsP gP nsQ gQ, Spec.eval (F := F) d P ⟨x, 1, 1⟩ = .ok (.val (.nodes nsP) gP) ∧
          Spec.eval (F := F) d Q ⟨x, 1, 1⟩ = .ok (.val (.nodes nsQ) gQ) ∧
          (holds (F := F) d (.oper op P Q) x = true ↔
            ∃ u ∈ nsP, ∃ v ∈ nsQ, (op = "=" ∧ stringValue d u = stringValue d v) ∨
              (op = "!=" ∧ stringValue d u ≠ stringValue d v) ∨
              (∃ cop, Spec.CmpOp.ofString op = some cop ∧ cop.isRel = true ∧
                Spec.cmpNum cop (Spec.strToNum (F := F) (stringValue d u))
                  (Spec.strToNum (F := F) (stringValue d v)) = true))) :=
  C02_path_vs_path wf cfg hns (PathSem.hashInj_holds wf hattr cfg) regexOk limit op hop p P Q hp hP hQ
    st0 st o0 o hb0 hb1 c hc

open XPathV.PathSem XPathV.PredSem XPathV.PredSem2 in
/-- the truth of a built predicate never depends on the context position/size and is never a
number: every plan the builder makes of a predicate of the fragment evaluates, at every valid
node, to a boolean or node-set whose truth is `boolean()` of the oracle's value -/
theorem C02_built_predicate_truth {d : Doc} (wf : WF d) (cfg : ECfg) (hns : cfg.nsIface = true)
    (hinj : HashInj d cfg) (regexOk : RegexOk) (limit : Nat) (b : Ast) (hb : Frag2 false b)
    (fl : Flags) (st : BState) (o : BOut) (hbuild : build regexOk limit true false b fl st = .ok o)
    (c : Ref) (hc : validRef d c = true) (pos size : Nat) :
    ∃ v sv g, evalP (F := F) d cfg o.q c = .ok v ∧
      Spec.eval (F := F) d b ⟨c, pos, size⟩ = .ok (.val sv g) ∧
      truthM v = Spec.toBool sv ∧ IsBN v ∧ NotNum sv :=
  built_pred_truth2 wf cfg hns hinj regexOk limit b hb fl st o hbuild c hc pos size

open XPathV.PathSem XPathV.PredSem XPathV.PredSem2 in
/-- `C02_built_predicate_truth` without the `HashInj` hypothesis (it is a theorem now: `hashInj_holds`; the side
condition left is "no element has two attributes with the same prefix, name and value") -/
theorem C02_built_predicate_truth_unconditional {d : Doc} (wf : WF d) (cfg : ECfg) (hns : cfg.nsIface = true)
    (hattr : AttrTriplesDistinct d) (regexOk : RegexOk) (limit : Nat) (b : Ast) (hb : Frag2 false b)
    (fl : Flags) (st : BState) (o : BOut) (hbuild : build regexOk limit true false b fl st = .ok o)
    (c : Ref) (hc : validRef d c = true) (pos size : Nat) :
    ∃ v sv g, evalP (F := F) d cfg o.q c = .ok v ∧
      Spec.eval (F := F) d b ⟨c, pos, size⟩ = .ok (.val sv g) ∧
      truthM v = Spec.toBool sv ∧ IsBN v ∧ NotNum sv :=
  C02_built_predicate_truth wf cfg hns (PathSem.hashInj_holds wf hattr cfg) regexOk limit b hb fl st
    o hbuild c hc pos size

open XPathV.PathSem XPathV.PredSem XPathV.ApiSem in
/-- **C02 at the public API, from the expression text**: on a text that parses into the
fragment, `compile` at the source configuration either reports a builder error (the depth limit)
or returns a plan on which `Select` and `Evaluate` agree with the oracle at every valid context
node of every well-formed document; `compile` never fails for lack of parser fuel
(`compile_never_out_of_fuel`) -/
theorem C02_from_text (regexOk : RegexOk) (ns : Option (List (String × String)))
    (text : List Char) (a : Ast) (hparse : parse (fuelFor text) (defaultCfg ns) text = .ok a)
    (hfrag : Frag true a) :
    (∃ e, compile { regexOk := regexOk } ns text = .error (.build e)) ∨
    (∃ p, compile { regexOk := regexOk } ns text = .ok p ∧ PathShape p ∧
      ∀ (F : Type) [NumAlg F] (d : Doc), WF d → ∀ cfg : ECfg, cfg.nsIface = true → HashInj d cfg →
        ∀ c, validRef d c = true →
          ∃ l nsl, selectAll (F := F) d cfg p c = .ok l ∧ evaluate (F := F) d cfg p c = .ok (.nodes l) ∧
            Spec.evalTop (F := F) d a c = .ok (.nodes nsl) ∧ ∀ x, x ∈ l ↔ x ∈ nsl) :=
  C02_compile_total regexOk ns text a hparse hfrag

open XPathV.PathSem XPathV.PredSem XPathV.ApiSem in
/-- `C02_from_text` without the `HashInj` hypothesis (it is a theorem now: `hashInj_holds`; the side
condition left is "no element has two attributes with the same prefix, name and value") -/
theorem C02_from_text_unconditional (regexOk : RegexOk) (ns : Option (List (String × String)))
    (text : List Char) (a : Ast) (hparse : parse (fuelFor text) (defaultCfg ns) text = .ok a)
    (hfrag : Frag true a) :
    (∃ e, compile { regexOk := regexOk } ns text = .error (.build e)) ∨
    (∃ p, compile { regexOk := regexOk } ns text = .ok p ∧ PathShape p ∧
      ∀ (F : Type) [NumAlg F] (d : Doc), WF d → ∀ cfg : ECfg, cfg.nsIface = true →
        AttrTriplesDistinct d →
        ∀ c, validRef d c = true →
          ∃ l nsl, selectAll (F := F) d cfg p c = .ok l ∧ evaluate (F := F) d cfg p c = .ok (.nodes l) ∧
            Spec.evalTop (F := F) d a c = .ok (.nodes nsl) ∧ ∀ x, x ∈ l ↔ x ∈ nsl) := by
  rcases C02_from_text regexOk ns text a hparse hfrag with h | ⟨p, h1, h2, h3⟩
  · exact .inl h
  · exact .inr ⟨p, h1, h2, fun F _ d wf cfg hns hattr c hc =>
      h3 F d wf cfg hns (hashInj_holds wf hattr cfg) c hc⟩

open XPathV.ApiSem in
theorem compile_never_out_of_fuel (cc : CompileCfg) (ns : Option (List (String × String))) (text : List Char) :
    compile cc ns text ≠ .error (.parse .fuel) :=
  compile_ne_fuel cc ns text

/-! ## the machine-level statement for filters with predicates of any value kind (`Lemmas/Pull2Gen`)

`DecOK'`: the oracle `dec` only has to be the keep-decision the sequence model makes for the candidates the machine
can present (boolean, string and node-list valued predicates without restriction; a number-valued predicate when its
verdict is a function of the node among the candidates offered — `DecOK → DecOK'`). -/
section AnyPredicate
open XPathV.Model
/-- **no state leaks between evaluations, all sixteen iterator types (`Model/Pull2`)**, filters with
predicates of any value kind: from every state reachable by any sequence of `Evaluate`, `Clone` and
`Select` calls, `Evaluate` followed by a drain reports exactly the sequence of the plan for the new
context node, and nothing else at any fuel. -/
theorem evaluate_restarts_all_iterators_any_predicate {F : Type} [NumAlg F] (d : Doc) (cfg : ECfg) (dec : Plan → Ref → Bool) (hd : 0 < d.length)
    (p0 : Plan) (hw : NeedsWF p0 → WF d) (q : PQ2)
    (hr : Reach d cfg dec p0 q) (c : Ref) (hdec : q.DecOK' (F := F) d cfg dec c) (hg : Good d c) :
    ∃ l, sel (F := F) d cfg p0 c = .ok l ∧
      (∃ q' c' f0, ∀ f, f0 ≤ f → drain2 d cfg dec f q.evaluate c = some (l, q', c')) ∧
      (∀ f l' q' c', drain2 d cfg dec f q.evaluate c = some (l', q', c') → l' = l) :=
  reach_evaluate_restarts' d cfg dec hd p0 hw q hr c hdec hg

end AnyPredicate

end XPathV.Theorems.C02

/-! ## Axiom audit (path compared with a path) -/
section AxiomAudit
end AxiomAudit

/-! ## C02 from the expression text, extended fragment `Frag2` (`Lemmas/ApiSem2`) -/
namespace XPathV.Theorems.C02
open XPathV XPathV.Model

open XPathV.PathSem XPathV.PredSem XPathV.PredSem2 XPathV.ApiSem in
/-- **C02 at the public API, from the expression text, extended fragment**: on a text that parses
into `Frag2` (`count(P) op n`, `not(count(P))`, `contains`/`starts-with`/`ends-with` forms,
`local-name` forms, `(P)[b]`, `P op Q`, `P op 'lit'`, `'lit' op P` — no constructor excluded; the
plan of a top-level `(P)[b]` is a `.filter`, hence path-shaped), `compile` at the source
configuration either reports a builder error or returns a path-shaped plan on which `Select` and
`Evaluate` agree with the oracle at every valid context node of every well-formed document -/
theorem C02_from_text_full (regexOk : RegexOk) (ns : Option (List (String × String)))
    (text : List Char) (a : Ast) (hparse : parse (fuelFor text) (defaultCfg ns) text = .ok a)
    (hfrag : Frag2 true a) :
    (∃ e, compile { regexOk := regexOk } ns text = .error (.build e)) ∨
    (∃ p, compile { regexOk := regexOk } ns text = .ok p ∧ PathShape p ∧
      ∀ (F : Type) [NumAlg F] (d : Doc), WF d → ∀ cfg : ECfg, cfg.nsIface = true → HashInj d cfg →
        ∀ c, validRef d c = true →
          ∃ l nsl, selectAll (F := F) d cfg p c = .ok l ∧ evaluate (F := F) d cfg p c = .ok (.nodes l) ∧
            Spec.evalTop (F := F) d a c = .ok (.nodes nsl) ∧ ∀ x, x ∈ l ↔ x ∈ nsl) :=
  C02_compile_total2 regexOk ns text a hparse hfrag

open XPathV.PathSem XPathV.PredSem XPathV.PredSem2 XPathV.ApiSem in
/-- `C02_from_text_full` without the `HashInj` hypothesis (`hashInj_holds`; the side condition left
is "no element has two attributes with the same prefix, name and value") -/
theorem C02_from_text_full_unconditional (regexOk : RegexOk) (ns : Option (List (String × String)))
    (text : List Char) (a : Ast) (hparse : parse (fuelFor text) (defaultCfg ns) text = .ok a)
    (hfrag : Frag2 true a) :
    (∃ e, compile { regexOk := regexOk } ns text = .error (.build e)) ∨
    (∃ p, compile { regexOk := regexOk } ns text = .ok p ∧ PathShape p ∧
      ∀ (F : Type) [NumAlg F] (d : Doc), WF d → ∀ cfg : ECfg, cfg.nsIface = true →
        AttrTriplesDistinct d →
        ∀ c, validRef d c = true →
          ∃ l nsl, selectAll (F := F) d cfg p c = .ok l ∧ evaluate (F := F) d cfg p c = .ok (.nodes l) ∧
            Spec.evalTop (F := F) d a c = .ok (.nodes nsl) ∧ ∀ x, x ∈ l ↔ x ∈ nsl) := by
  rcases C02_from_text_full regexOk ns text a hparse hfrag with h | ⟨p, h1, h2, h3⟩
  · exact .inl h
  · exact .inr ⟨p, h1, h2, fun F _ d wf cfg hns hattr c hc =>
      h3 F d wf cfg hns (hashInj_holds wf hattr cfg) c hc⟩

end XPathV.Theorems.C02

section AxiomAudit2
end AxiomAudit2
