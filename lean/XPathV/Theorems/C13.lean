import XPathV.Model.Api
import XPathV.Lemmas.Facts
import XPathV.Lemmas.RootedPlans
import XPathV.Lemmas.Compose
import XPathV.Lemmas.Compose2
import XPathV.Lemmas.Compose3
import XPathV.Lemmas.Pull2.Context
/-!
# C13 — absolute paths ignore the start node; relative paths compose with the context

Property-level theorems.  The proofs are in `Lemmas/RootedPlans.lean` (start-node independence of
rooted plans, by induction on plans) and `Lemmas/Compose.lean` (composition on the oracle side, on
the model side through `C01_main`, and the wrapper identities).

Fragment: `PathPF` = predicate-free location paths over the 12 axes (any node test);
`AbsPF` = those whose leaf is `/`; `RelPF` = those whose leaf is the context node.
`appendPath q p` is the parse tree of `q/p`.

Iterator level (`Model/Pull2.lean`, all sixteen node-set iterator types as Go-like state machines
sharing the context node `t.Current()`): `C13_select_leaves_context_node` — no `Select` leaves the
context node moved, so whatever is evaluated after an earlier operand, argument or predicate sees
the context node it was meant to see (proof: `Lemmas/Pull2/Context.lean`).
-/
namespace XPathV.Theorems.C13
open XPathV XPathV.Model XPathV.Facts XPathV.PathSem XPathV.Compose NumAlg

variable {F : Type} [NumAlg F]

/-- **start-node independence (model, every rooted plan)**: a plan in which every read of the
context outside predicates goes through `absoluteQuery` yields the same sequence from every start
node -/
theorem abs_start_indep (d : Doc) (cfg : ECfg) (p : Plan) (h : RootedPlans.Rooted p = true) (c₁ c₂ : Ref) :
    sel (F := F) d cfg p c₁ = sel (F := F) d cfg p c₂ :=
  RootedPlans.abs_start_indep d cfg p h c₁ c₂

/-- wrapping in parentheses preserves the node sequence -/
theorem group_preserves_sequence (d : Doc) (cfg : ECfg) (p : Plan) (c : Ref) (ins : List Item)
    (h : sel (F := F) d cfg p c = .ok ins) :
    (sel (F := F) d cfg (.group p) c).map (fun o => o.map (·.r)) = .ok (ins.map (·.r)) :=
  RootedPlans.group_preserves_sequence d cfg p c ins h

/-- the steps of a relative path compose: a child step over an input is the concatenation of the
child steps from each input node -/
theorem rel_compose_child (d : Doc) (cfg : ECfg) (a : AxisInfo) (inp : Plan) (c : Ref) (ins : List Item)
    (h : sel (F := F) d cfg inp c = .ok ins) :
    (sel (F := F) d cfg (.child a inp) c).map (fun o => o.map (·.r)) =
      .ok (ins.flatMap (fun it => (childrenM d it.r).filter (nodeTestM d cfg a))) :=
  RootedPlans.rel_compose_child d cfg a inp c ins h

/-- **C13, absolute paths (oracle)**: an absolute predicate-free path has the same value in every
context -/
theorem C13_absolute_spec (d : Doc) {p : Ast} (hp : AbsPF p) (c₁ c₂ : Spec.Ctx) :
    Spec.eval (F := F) d p c₁ = Spec.eval (F := F) d p c₂ :=
  abs_eval_indep d hp c₁ c₂

/-- **C13, absolute paths (model, the plan `build` produces, with every rewrite)**: the same
*sequence* — or the same failure — from every start node; no assumption on the document, the
start nodes, the namespace configuration or the hash -/
theorem C13_absolute_build (d : Doc) (cfg : ECfg) (regexOk : RegexOk) (limit : Nat) (snt sdf : Bool)
    {p : Ast} (hp : AbsPF p) (fl : Flags) (st : BState) (o : BOut)
    (h : build regexOk limit snt sdf p fl st = .ok o) (c₁ c₂ : Ref) :
    sel (F := F) d cfg o.q c₁ = sel (F := F) d cfg o.q c₂ :=
  abs_build_start_indep d cfg regexOk limit snt sdf hp fl st o h c₁ c₂

/-- **C13, path composition (oracle)**: `x` is selected by `q/p` from context `c` iff it is
selected by `p` from some node that `q` selects from `c`; any context, any document -/
theorem C13_compose_spec (d : Doc) {q p : Ast} (hq : PathPF q) (hp : RelPF p) (c : Spec.Ctx) (x : Ref) :
    x ∈ nodesOf (Spec.eval (F := F) d (appendPath q p) c) ↔
      ∃ n ∈ nodesOf (Spec.eval (F := F) d q c), x ∈ nodesOf (Spec.eval (F := F) d p ⟨n, 1, 1⟩) :=
  eval_append d hq hp c x

/-- **C13, relative paths compose with the context (model, built plans)**: if the absolute
path `q` addresses exactly the node `n`, then the plan `build` makes of the relative path `p`,
started at `n`, and the plan it makes of `q/p`, started at the root, both succeed and select the
same node set.  Hypotheses: well-formed document, navigator exposing namespace URIs,
`HashInj` (node keys are injective: a theorem, `PathSem.hashInj_holds` — see the `_unconditional` corollary). -/
theorem C13_relative_compose {d : Doc} (wf : WF d) (cfg : ECfg) (hns : cfg.nsIface = true)
    (hinj : HashInj d cfg) (regexOk : RegexOk) (limit : Nat) (sdf : Bool)
    {q p : Ast} (hq : PathPF q) (hp : RelPF p) (n : Ref)
    (h : nodesOf (Spec.eval (F := F) d q ⟨.node 0, 1, 1⟩) = [n])
    (st st' : BState) (o o' : BOut)
    (hb : build regexOk limit true sdf p {} st = .ok o)
    (hb' : build regexOk limit true sdf (appendPath q p) {} st' = .ok o') :
    ∃ o1 o2, sel (F := F) d cfg o.q n = .ok o1 ∧ sel (F := F) d cfg o'.q (.node 0) = .ok o2 ∧
      ∀ x, x ∈ refs o1 ↔ x ∈ refs o2 :=
  rel_compose_build wf cfg hns hinj regexOk limit sdf hq hp n h st st' o o' hb hb'

/-- `C13_relative_compose` without the `HashInj` hypothesis (it is a theorem now: `hashInj_holds`; the side
condition left is "no element has two attributes with the same prefix, name and value") -/
theorem C13_relative_compose_unconditional {d : Doc} (wf : WF d) (cfg : ECfg) (hns : cfg.nsIface = true)
    (hattr : AttrTriplesDistinct d) (regexOk : RegexOk) (limit : Nat) (sdf : Bool)
    {q p : Ast} (hq : PathPF q) (hp : RelPF p) (n : Ref)
    (h : nodesOf (Spec.eval (F := F) d q ⟨.node 0, 1, 1⟩) = [n])
    (st st' : BState) (o o' : BOut)
    (hb : build regexOk limit true sdf p {} st = .ok o)
    (hb' : build regexOk limit true sdf (appendPath q p) {} st' = .ok o') :
    ∃ o1 o2, sel (F := F) d cfg o.q n = .ok o1 ∧ sel (F := F) d cfg o'.q (.node 0) = .ok o2 ∧
      ∀ x, x ∈ refs o1 ↔ x ∈ refs o2 :=
  C13_relative_compose wf cfg hns (PathSem.hashInj_holds wf hattr cfg) regexOk limit sdf hq hp n h
    st st' o o' hb hb'

/-- … and on the oracle side the two node *lists* are equal (both in document order) -/
theorem C13_relative_compose_spec (d : Doc) {q p : Ast} (hq : PathPF q) (hp : RelPF p) (c : Spec.Ctx) (n : Ref)
    (h : nodesOf (Spec.eval (F := F) d q c) = [n]) :
    nodesOf (Spec.eval (F := F) d p ⟨n, 1, 1⟩) = nodesOf (Spec.eval (F := F) d (appendPath q p) c) :=
  rel_compose_spec_eq d hq hp c n h

/-- appending an absolute path to anything changes nothing (oracle and model) -/
theorem C13_absolute_after_anything (d : Doc) (cfg : ECfg) (q : Ast) {p : Ast} (hp : AbsPF p) (c₁ c₂ : Ref) :
    Spec.eval (F := F) d (appendPath q p) ⟨c₁, 1, 1⟩ = Spec.eval (F := F) d p ⟨c₂, 1, 1⟩ ∧
    sel (F := F) d cfg (naivePlan (appendPath q p)) c₁ = sel (F := F) d cfg (naivePlan p) c₂ :=
  abs_append_ignored d cfg q hp c₁ c₂

/-- **wrapper `P[true()]`**: keeps every node, in order; fails exactly when `P` does -/
theorem C13_wrap_true (d : Doc) (cfg : ECfg) (p : Plan) (c : Ref) :
    (∀ ins, sel (F := F) d cfg p c = .ok ins →
      ∃ out, sel (F := F) d cfg (.filter p (.func "true" .nil .pnil)) c = .ok out ∧ refs out = refs ins) ∧
    (∀ e, sel (F := F) d cfg p c = .error e →
      sel (F := F) d cfg (.filter p (.func "true" .nil .pnil)) c = .error e) :=
  ⟨fun ins h => filter_true d cfg p c ins h, fun e h => filter_true_error d cfg p c e h⟩

/-- **wrapper `(P)`**: same node sequence; fails exactly when `P` does -/
theorem C13_wrap_group (d : Doc) (cfg : ECfg) (p : Plan) (c : Ref) :
    (∀ ins, sel (F := F) d cfg p c = .ok ins →
      ∃ out, sel (F := F) d cfg (.group p) c = .ok out ∧ refs out = refs ins) ∧
    (∀ e, sel (F := F) d cfg p c = .error e → sel (F := F) d cfg (.group p) c = .error e) :=
  ⟨fun ins h => group_refs d cfg p c ins h, fun e h => group_error d cfg p c e h⟩

/-- **wrapper `P | P`** for a predicate-free path: the model's union and the oracle's union both
denote exactly the nodes of `P`, without duplicates -/
theorem C13_wrap_union_self {d : Doc} (wf : WF d) (cfg : ECfg) (hns : cfg.nsIface = true)
    (hinj : HashInj d cfg) {p : Ast} (hp : PathPF p) (c : Ref) (hc : validRef d c = true) :
    ∃ out ns, sel (F := F) d cfg (.union (naivePlan p) (naivePlan p)) c = .ok out ∧
      Spec.eval (F := F) d (.oper "|" p p) ⟨c, 1, 1⟩ = .ok (.val (.nodes ns) none) ∧
      (∀ x, x ∈ refs out ↔ x ∈ ns) ∧ (refs out).Nodup ∧
      (∀ x, x ∈ ns ↔ x ∈ nodesOf (Spec.eval (F := F) d p ⟨c, 1, 1⟩)) :=
  union_self_path wf cfg hns hinj hp c hc

/-- `C13_wrap_union_self` without the `HashInj` hypothesis (it is a theorem now: `hashInj_holds`; the side
condition left is "no element has two attributes with the same prefix, name and value") -/
theorem C13_wrap_union_self_unconditional {d : Doc} (wf : WF d) (cfg : ECfg) (hns : cfg.nsIface = true)
    (hattr : AttrTriplesDistinct d) {p : Ast} (hp : PathPF p) (c : Ref) (hc : validRef d c = true) :
    ∃ out ns, sel (F := F) d cfg (.union (naivePlan p) (naivePlan p)) c = .ok out ∧
      Spec.eval (F := F) d (.oper "|" p p) ⟨c, 1, 1⟩ = .ok (.val (.nodes ns) none) ∧
      (∀ x, x ∈ refs out ↔ x ∈ ns) ∧ (refs out).Nodup ∧
      (∀ x, x ∈ ns ↔ x ∈ nodesOf (Spec.eval (F := F) d p ⟨c, 1, 1⟩)) :=
  C13_wrap_union_self wf cfg hns (PathSem.hashInj_holds wf hattr cfg) hp c hc

/-- **wrapper `not(not(P))` = `boolean(P)`** at plan level, for **every** plan `P` — whatever `P`
evaluates to (node-set, boolean, number, string), failures included.  (Before the repair of
`notFunc` this held only when `P` evaluated to a node-set or a boolean, or failed.) -/
theorem C13_wrap_not_not (d : Doc) (cfg : ECfg) (fi₁ fi₂ fi₃ : Plan) (P : Plan) (c : Ref) :
    evalP (F := F) d cfg (.func "not" fi₁ (.pcons (.func "not" fi₂ (.pcons P .pnil)) .pnil)) c =
      evalP (F := F) d cfg (.func "boolean" fi₃ (.pcons P .pnil)) c :=
  not_not_plan_spec d cfg fi₁ fi₂ fi₃ P c

open XPathV.PredSem XPathV.Compose2 in
/-- **C13, absolute paths with boolean predicates**: the plan built from any absolute path of the
C02 fragment (`AbsFrag`: predicates on any step, the merge rewrite included) yields the same
sequence — or the same failure — from every start node; no assumption on the document, the
configuration or the start nodes -/
theorem C13_absolute_build_with_predicates (d : Doc) (cfg : ECfg) (regexOk : RegexOk) (limit : Nat)
    (snt sdf : Bool) {p : Ast} (hp : AbsFrag p) (fl : Flags) (st : BState) (o : BOut)
    (h : build regexOk limit snt sdf p fl st = .ok o) (c₁ c₂ : Ref) :
    sel (F := F) d cfg o.q c₁ = sel (F := F) d cfg o.q c₂ :=
  abs_build_start_indep2 d cfg regexOk limit snt sdf hp fl st o h c₁ c₂

open XPathV.PredSem XPathV.Compose2 in
/-- **C13, relative paths with boolean predicates compose with the context**, through the
builder: if the absolute path `q` addresses exactly `n`, the built plan of `p` at `n` and the built
plan of `q/p` at the root select the same node set (`appendPath2` descends through the steps and
the inputs of filters; predicates stay relative to their candidates) -/
theorem C13_relative_compose_with_predicates {d : Doc} (wf : WF d) (cfg : ECfg) (hns : cfg.nsIface = true)
    (hinj : HashInj d cfg) (regexOk : RegexOk) (limit : Nat)
    {q p : Ast} (hq : Frag true q) (hp : RelFrag p) (n : Ref)
    (h : nodesOf (Spec.eval (F := F) d q ⟨.node 0, 1, 1⟩) = [n])
    (st st' : BState) (o o' : BOut)
    (hb : build regexOk limit true false p {} st = .ok o)
    (hb' : build regexOk limit true false (appendPath2 q p) {} st' = .ok o') :
    ∃ o1 o2, sel (F := F) d cfg o.q n = .ok o1 ∧ sel (F := F) d cfg o'.q (.node 0) = .ok o2 ∧
      ∀ x, x ∈ refs o1 ↔ x ∈ refs o2 :=
  rel_compose_build2 wf cfg hns hinj regexOk limit hq hp n h st st' o o' hb hb'

open XPathV.PredSem XPathV.Compose2 in
/-- `C13_relative_compose_with_predicates` without the `HashInj` hypothesis (it is a theorem now: `hashInj_holds`; the side
condition left is "no element has two attributes with the same prefix, name and value") -/
theorem C13_relative_compose_with_predicates_unconditional {d : Doc} (wf : WF d) (cfg : ECfg) (hns : cfg.nsIface = true)
    (hattr : AttrTriplesDistinct d) (regexOk : RegexOk) (limit : Nat)
    {q p : Ast} (hq : Frag true q) (hp : RelFrag p) (n : Ref)
    (h : nodesOf (Spec.eval (F := F) d q ⟨.node 0, 1, 1⟩) = [n])
    (st st' : BState) (o o' : BOut)
    (hb : build regexOk limit true false p {} st = .ok o)
    (hb' : build regexOk limit true false (appendPath2 q p) {} st' = .ok o') :
    ∃ o1 o2, sel (F := F) d cfg o.q n = .ok o1 ∧ sel (F := F) d cfg o'.q (.node 0) = .ok o2 ∧
      ∀ x, x ∈ refs o1 ↔ x ∈ refs o2 :=
  C13_relative_compose_with_predicates wf cfg hns (PathSem.hashInj_holds wf hattr cfg) regexOk limit
    hq hp n h st st' o o' hb hb'

open XPathV.PredSem XPathV.Compose2 in
/-- the oracle-side composition law on the fragment with predicates (no assumption at all) -/
theorem C13_compose_spec_with_predicates (d : Doc) {q p : Ast} (hq : Frag true q) (hp : RelFrag p)
    (c : Spec.Ctx) (x : Ref) :
    x ∈ nodesOf (Spec.eval (F := F) d (appendPath2 q p) c) ↔
      ∃ n ∈ nodesOf (Spec.eval (F := F) d q c), x ∈ nodesOf (Spec.eval (F := F) d p ⟨n, 1, 1⟩) :=
  eval_append2 d hq hp c x

/-- **C13, the context survives evaluation of an earlier operand or predicate (iterator level).**
`q` is any state of any of the sixteen node-set iterator types (over inputs of any of them: a filter
over a union, a merge whose child is a `following::` walk, …; mid-iteration, exhausted, reachable or
not), `cur` the context node `t.Current()` of the evaluation, `dec` any predicate decision, `d` any
document.  If `q.Select(t)` answers — a node (`.yield`) or `nil` (`.done`) — then `t.Current()`
afterwards is `cur`: the filter's predicate ran on the candidates and the caller's node was put back,
the merge's child ran on each parent and the node was put back, the non-sibling `following::`/
`preceding::` walks did not touch it, and what a union leaves is what its right operand leaves.
(`.fuel`, "the model ran out of fuel", is not an outcome of the Go code.) -/
theorem C13_select_leaves_context_node (d : Doc) (cfg : ECfg) (dec : Plan → Ref → Bool) (f : Nat) (q : PQ2)
    (cur : Ref) (out : Res Ref) (q' : PQ2) (cur' : Ref)
    (h : PQ2.select d cfg dec f q cur = (out, q', cur')) (hne : out ≠ .fuel) : cur' = cur :=
  select_preserves_context d cfg dec f q cur out q' cur' h hne

/-- … and a `MoveNext` that returns false (the operand is exhausted) leaves it where it was, too
(one that returns true moves the iterator's node onto the node it reports: that is its result) -/
theorem C13_moveNext_false_leaves_context_node (d : Doc) (cfg : ECfg) (dec : Plan → Ref → Bool) (f : Nat)
    (q : PQ2) (cur : Ref) (q' : PQ2) (cur' : Ref)
    (h : PQ2.moveNext d cfg dec f q cur = some (false, q', cur')) : cur' = cur :=
  moveNext_false_context d cfg dec f q cur q' cur' h

private def stepA (n : String) : AxisInfo := { axis := "child", typeTest := default, pfx := "", lname := n, prop := "", hasNS := false, nsURI := "" }

/-- non-vacuity: `/a/b` is an absolute path, `b` a relative one, and `/a/b` = `appendPath (/a) b` -/
example : AbsPF (.axis (stepA "b") (.axis (stepA "a") (.root "/"))) ∧
    RelPF (.axis (stepA "b") .none) ∧
    appendPath (.axis (stepA "a") (.root "/")) (.axis (stepA "b") .none) =
      .axis (stepA "b") (.axis (stepA "a") (.root "/")) := by
  refine ⟨?_, ?_, rfl⟩
  · exact .axis _ _ (.axis _ _ (.root _) (by decide)) (by decide)
  · exact .axis _ _ .none (by decide)

end XPathV.Theorems.C13

/-! ## C13 on the whole C02 fragment `PredSem2.Frag2` (`Lemmas/Compose3.lean`)

`AbsFrag2` / `RelFrag2`: the step-chain shapes of `AbsFrag` / `RelFrag` with predicates in
`Frag2 false` (count / contains / starts-with / ends-with / local-name tests, path-vs-path and
path-vs-string comparisons with the six operators, on top of the boolean predicates of `Frag`);
`AbsFrag2` also has the parenthesised form `(P)[b]` with `P` absolute. -/
namespace XPathV.Theorems.C13
open XPathV XPathV.Model XPathV.Facts XPathV.PathSem XPathV.Compose NumAlg
open XPathV.PredSem XPathV.PredSem2 XPathV.Compose2 XPathV.Compose3

variable {F : Type} [NumAlg F]

/-- the fragments of the `_with_predicates` theorems embed in those of the `_full` ones -/
theorem C13_absFrag_embeds {p : Ast} (h : AbsFrag p) : AbsFrag2 p := absFrag2_of_absFrag h

theorem C13_relFrag_embeds {p : Ast} (h : RelFrag p) : RelFrag2 p := relFrag2_of_relFrag h

theorem C13_frag_embeds {p : Ast} (h : Frag true p) : Frag2 true p := frag2_of_frag true p h

/-- **C13, absolute paths, whole C02 fragment**: the plan built from any absolute path of `AbsFrag2`
(predicates of `Frag2` on any step, `(P)[b]`, the merge rewrite included) yields the same sequence —
or the same failure — from every start node; no assumption on the document, the configuration or
the start nodes -/
theorem C13_absolute_build_full (d : Doc) (cfg : ECfg) (regexOk : RegexOk) (limit : Nat)
    (snt sdf : Bool) {p : Ast} (hp : AbsFrag2 p) (fl : Flags) (st : BState) (o : BOut)
    (h : build regexOk limit snt sdf p fl st = .ok o) (c₁ c₂ : Ref) :
    sel (F := F) d cfg o.q c₁ = sel (F := F) d cfg o.q c₂ :=
  abs_build_start_indep3 d cfg regexOk limit snt sdf hp fl st o h c₁ c₂

/-- … and the oracle: an absolute path of `AbsFrag2` has the same value in every context -/
theorem C13_absolute_spec_full (d : Doc) {p : Ast} (hp : AbsFrag2 p) (c₁ c₂ : Spec.Ctx) :
    Spec.eval (F := F) d p c₁ = Spec.eval (F := F) d p c₂ :=
  abs_eval_indep3 d hp c₁ c₂

/-- **C13, relative paths compose with the context, whole C02 fragment**, through the builder: if
the path `q` of `Frag2` addresses exactly `n`, the built plan of `p` (`RelFrag2`) at `n` and the built
plan of `q/p` at the root select the same node set -/
theorem C13_relative_compose_full {d : Doc} (wf : WF d) (cfg : ECfg) (hns : cfg.nsIface = true)
    (hinj : HashInj d cfg) (regexOk : RegexOk) (limit : Nat)
    {q p : Ast} (hq : Frag2 true q) (hp : RelFrag2 p) (n : Ref)
    (h : nodesOf (Spec.eval (F := F) d q ⟨.node 0, 1, 1⟩) = [n])
    (st st' : BState) (o o' : BOut)
    (hb : build regexOk limit true false p {} st = .ok o)
    (hb' : build regexOk limit true false (appendPath2 q p) {} st' = .ok o') :
    ∃ o1 o2, sel (F := F) d cfg o.q n = .ok o1 ∧ sel (F := F) d cfg o'.q (.node 0) = .ok o2 ∧
      ∀ x, x ∈ refs o1 ↔ x ∈ refs o2 :=
  rel_compose_build3 wf cfg hns hinj regexOk limit hq hp n h st st' o o' hb hb'

/-- `C13_relative_compose_full` without the `HashInj` hypothesis (`hashInj_holds`; the side condition
left is "no element has two attributes with the same prefix, name and value") -/
theorem C13_relative_compose_full_unconditional {d : Doc} (wf : WF d) (cfg : ECfg)
    (hns : cfg.nsIface = true) (hattr : AttrTriplesDistinct d) (regexOk : RegexOk) (limit : Nat)
    {q p : Ast} (hq : Frag2 true q) (hp : RelFrag2 p) (n : Ref)
    (h : nodesOf (Spec.eval (F := F) d q ⟨.node 0, 1, 1⟩) = [n])
    (st st' : BState) (o o' : BOut)
    (hb : build regexOk limit true false p {} st = .ok o)
    (hb' : build regexOk limit true false (appendPath2 q p) {} st' = .ok o') :
    ∃ o1 o2, sel (F := F) d cfg o.q n = .ok o1 ∧ sel (F := F) d cfg o'.q (.node 0) = .ok o2 ∧
      ∀ x, x ∈ refs o1 ↔ x ∈ refs o2 :=
  C13_relative_compose_full wf cfg hns (PathSem.hashInj_holds wf hattr cfg) regexOk limit
    hq hp n h st st' o o' hb hb'

/-- **the oracle-side composition law on the whole C02 fragment** (no assumption at all: any
document, any context) -/
theorem C13_compose_spec_full (d : Doc) {q p : Ast} (hq : Frag2 true q) (hp : RelFrag2 p)
    (c : Spec.Ctx) (x : Ref) :
    x ∈ nodesOf (Spec.eval (F := F) d (appendPath2 q p) c) ↔
      ∃ n ∈ nodesOf (Spec.eval (F := F) d q c), x ∈ nodesOf (Spec.eval (F := F) d p ⟨n, 1, 1⟩) :=
  eval_append3 d hq hp c x

/-- **path composition through the builder, whole C02 fragment**: from a valid start node `c` the
built plan of `q/p` selects `x` iff the built plan of `p`, started at some node the built plan of `q`
selects from `c`, selects `x`; none of the evaluations fails -/
theorem C13_compose_build_full {d : Doc} (wf : WF d) (cfg : ECfg) (hns : cfg.nsIface = true)
    (hinj : HashInj d cfg) (regexOk : RegexOk) (limit : Nat)
    {q p : Ast} (hq : Frag2 true q) (hp : RelFrag2 p)
    (stq stp stqp : BState) (bq bp bqp : BOut)
    (hbq : build regexOk limit true false q {} stq = .ok bq)
    (hbp : build regexOk limit true false p {} stp = .ok bp)
    (hbqp : build regexOk limit true false (appendPath2 q p) {} stqp = .ok bqp)
    (c : Ref) (hc : validRef d c = true) :
    ∃ oq oqp, sel (F := F) d cfg bq.q c = .ok oq ∧ sel (F := F) d cfg bqp.q c = .ok oqp ∧
      (∀ n ∈ refs oq, ∃ on, sel (F := F) d cfg bp.q n = .ok on) ∧
      ∀ x, x ∈ refs oqp ↔
        ∃ n ∈ refs oq, ∃ on, sel (F := F) d cfg bp.q n = .ok on ∧ x ∈ refs on :=
  compose_build3 wf cfg hns hinj regexOk limit hq hp stq stp stqp bq bp bqp hbq hbp hbqp c hc

/-- the `_with_predicates` theorems are instances of the `_full` ones -/
theorem C13_absolute_build_with_predicates_of_full (d : Doc) (cfg : ECfg) (regexOk : RegexOk) (limit : Nat)
    (snt sdf : Bool) {p : Ast} (hp : AbsFrag p) (fl : Flags) (st : BState) (o : BOut)
    (h : build regexOk limit snt sdf p fl st = .ok o) (c₁ c₂ : Ref) :
    sel (F := F) d cfg o.q c₁ = sel (F := F) d cfg o.q c₂ :=
  C13_absolute_build_full d cfg regexOk limit snt sdf (C13_absFrag_embeds hp) fl st o h c₁ c₂

theorem C13_compose_spec_with_predicates_of_full (d : Doc) {q p : Ast} (hq : Frag true q) (hp : RelFrag p)
    (c : Spec.Ctx) (x : Ref) :
    x ∈ nodesOf (Spec.eval (F := F) d (appendPath2 q p) c) ↔
      ∃ n ∈ nodesOf (Spec.eval (F := F) d q c), x ∈ nodesOf (Spec.eval (F := F) d p ⟨n, 1, 1⟩) :=
  C13_compose_spec_full d (C13_frag_embeds hq) (C13_relFrag_embeds hp) c x

end XPathV.Theorems.C13
