import XPathV.Model.Api
/-! # Property C13 — theorems (placeholder header; filled in below) -/
namespace XPathV.Theorems.C13
end XPathV.Theorems.C13
