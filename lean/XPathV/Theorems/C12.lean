import XPathV.Lemmas.FlatOrder
import XPathV.Lemmas.PullProofs
import XPathV.Model.Api
import XPathV.Lemmas.Facts
import XPathV.Lemmas.FlatFiltered
import XPathV.Lemmas.FlatFiltered2
import XPathV.Lemmas.Pull2Proofs
import XPathV.Lemmas.Pull2Gen
/-!
# C12 — flat paths: document order, no duplicates; iterator protocol

The sequence-level facts are below; the pull-level protocol facts (exhausted stays exhausted,
`Current` is the node just reported) live on the pull machines: `Model/Pull.lean` (core iterator
types) and `Model/Pull2.lean` (all sixteen iterator types, with `t.Current()` threaded: context,
absolute, child, cachedChild, attribute, self, parent, descendant, ancestor, following and
preceding with and without `Sibling`, filter, union, group, descendant-over-descendant, merge).
-/
namespace XPathV.Theorems.C12
open XPathV XPathV.Model XPathV.Facts NumAlg

variable {F : Type} [NumAlg F]

/-- for a node-set plan `Evaluate` hands out an iterator that yields the same sequence as `Select` -/
theorem evaluate_iter_eq_select (d : Doc) (cfg : ECfg) (p : Plan) (c : Ref) (l l' : List Ref)
    (he : evaluate (F := F) d cfg p c = .ok (.nodes l)) (hs : selectAll (F := F) d cfg p c = .ok l') : l = l' := by
  unfold evaluate at he
  simp only [bind, Except.bind] at he
  split at he
  · cases he
  · rename_i v hv
    split at he
    · simp only [hs, pure, Except.pure] at he
      cases he; rfl
    · rename_i hnot
      simp only [pure, Except.pure] at he
      cases he
      exact absurd rfl (hnot l)

/-- `count()` of a node-set argument is the length of the sequence it yields -/
theorem count_eq_length (d : Doc) (cfg : ECfg) (c : Ref) (l : List Ref) :
    callFn (F := F) d cfg "count" .nil c [.ok (.nodes l)] none = .ok (.num (ofNat l.length)) := by
  simp [callFn, bind, Except.bind]

/-- `reverse()` yields its argument's sequence reversed -/
theorem reverse_eq_reverse (d : Doc) (cfg : ECfg) (inp : Plan) (c : Ref) (ins : List Item)
    (h : sel (F := F) d cfg inp c = .ok ins) :
    (sel (F := F) d cfg (.transform "reverse" inp) c).map (fun o => o.map (·.r)) = .ok (ins.map (·.r)).reverse := by
  simp [sel, h, bind, Except.bind, plain, Except.map, List.map_reverse, Function.comp_def]

/-- a child step from one node yields that node's matching children in sibling order -/
theorem child_from_context (d : Doc) (cfg : ECfg) (a : AxisInfo) (c : Ref) :
    (sel (F := F) d cfg (.child a .context) c).map (fun o => o.map (·.r)) = .ok ((childrenM d c).filter (nodeTestM d cfg a)) := by
  simp [sel, bind, Except.bind, numbered, Except.map, test, List.map_map, Function.comp_def]

/-! ## The iterator protocol on the pull machine (`Model/Pull.lean`)

`PQ` is the defunctionalised model of the Go iterator structs (configuration **and** mutable state)
for context, absolute, child, attribute, self, parent and descendant queries; `PQ.select` is one
`Select` call, `drain` is a `MoveNext` loop.  The theorems hold for every document, context node and
*every state*, reachable or not. -/

/-- the pull machine yields exactly the sequence of the sequence-level model (nodes, `position()`
and `depth()` counters), from any sufficiently large fuel on, and any terminated drain yields it -/
theorem pull_refines_sequence (d : Doc) (cfg : ECfg) (cur : Ref) (p : Plan) (q : PQ) (h : PQ.ofPlan p = some q) :
    ∃ l, sel (F := F) d cfg p cur = .ok l ∧
      (∃ q' f0, (∀ f, f0 ≤ f → drain d cfg cur f q = some (l, q')) ∧ rem d cfg cur q' = []) ∧
      (∀ f l' q', drain d cfg cur f q = some (l', q') → l' = l) :=
  drain_eq_sel d cfg cur p q h

/-- **MoveNext keeps returning false once it has returned false**: after a pull that reported
exhaustion, every further pull (with any fuel) that terminates reports exhaustion again -/
theorem exhausted_stays_exhausted (d : Doc) (cfg : ECfg) (cur : Ref) {f : Nat} {q q' : PQ}
    (h : PQ.select d cfg cur f q = (.done, q')) :
    rem d cfg cur q' = [] ∧
    (∀ f' o q'', PQ.select d cfg cur f' q' = (o, q'') → o ≠ .fuel → o = .done ∧ rem d cfg cur q'' = []) ∧
    (∃ q'' f0, (∀ f', f0 ≤ f' → PQ.select d cfg cur f' q' = (.done, q'')) ∧ rem d cfg cur q'' = []) :=
  exhausted_stays d cfg cur h

/-- the node a pull reports is the head of the remaining stream, and the position/depth counters
a filter would read are the ones the sequence model attaches to that node -/
theorem reported_node_and_counters (d : Doc) (cfg : ECfg) (cur : Ref) {f : Nat} {q q' : PQ} {n : Ref}
    (h : PQ.select d cfg cur f q = (.yield n, q')) :
    ∃ x xs, rem d cfg cur q = x :: xs ∧ x.r = n ∧ q'.position = x.pos ∧ q'.depth = x.lvl ∧ rem d cfg cur q' = xs :=
  select_position d cfg cur h

/-! ## Flat paths are in document order, without repetition -/

/-- **flat paths**: a path made of child, attribute and self steps from one context node yields its
nodes strictly increasing in document order — hence ordered and duplicate-free — for every
well-formed document and every context node -/
theorem flat_paths_sorted {d : Doc} (wf : WF d) (cfg : ECfg) (c : Ref) {p : Plan} (hp : FlatPlan p) (l : List Item)
    (h : sel (F := F) d cfg p c = .ok l) :
    (l.map (·.r)).Pairwise (fun a b => Ref.lt a b = true) ∧ (l.map (·.r)).Nodup :=
  ⟨XPathV.flat_sorted wf cfg c hp l h, XPathV.flat_nodup wf cfg c hp l h⟩

/-- a single descendant step (`descendant::t`, `//t` from the root) is in document order -/
theorem single_descendant_sorted {d : Doc} (wf : WF d) (cfg : ECfg) (a : AxisInfo) (self : Bool) (i : Nat)
    (hi : i < d.length) (c : Ref) (l l' : List Item)
    (h : sel (F := F) d cfg (.descendant a self .context) (.node i) = .ok l)
    (h' : sel (F := F) d cfg (.descendant a self .absolute) c = .ok l') :
    (l.map (·.r)).Pairwise (fun a b => Ref.lt a b = true) ∧ (l'.map (·.r)).Pairwise (fun a b => Ref.lt a b = true) :=
  ⟨XPathV.desc_sorted wf cfg a self i hi l h, XPathV.desc_abs_sorted wf cfg a self c l' h'⟩

open XPathV.PathSem XPathV.PredSem XPathV.FlatFiltered in
/-- **C12, first half, with the predicates allowed by C02/C03, through the builder**: a path made
only of child, attribute and self steps — every step may carry *any* predicates (boolean,
positional, `last()`, arbitrary parse trees) — is built, under every builder configuration, into a
plan whose result sequence from any context is strictly increasing in document order, hence
duplicate-free.  Needs only a well-formed document. -/
theorem C12_flat_with_predicates_sorted {d : Doc} (wf : WF d) (cfg : ECfg) (regexOk : RegexOk) (limit : Nat)
    (snt sdf : Bool) (p : Ast) (hp : FlatAny p) (fl : Flags) (st : BState) (o : BOut)
    (hb : build regexOk limit snt sdf p fl st = .ok o) (c : Ref) (l : List Item)
    (hl : sel (F := F) d cfg o.q c = .ok l) :
    (refs l).Pairwise (fun a b => Ref.lt a b = true) ∧ (refs l).Nodup :=
  flatAny_sorted wf cfg regexOk limit snt sdf p hp fl st o hb c l hl

open XPathV.PathSem XPathV.PredSem XPathV.FlatFiltered in
/-- … and with boolean predicates the engine's *sequence* is the oracle's document-ordered list,
element by element -/
theorem C12_flat_filtered_is_oracle_list {d : Doc} (wf : WF d) (cfg : ECfg) (hns : cfg.nsIface = true)
    (hinj : HashInj d cfg) (regexOk : RegexOk) (limit : Nat) (p : Ast) (hp : FlatFrag p) (st : BState) (o : BOut)
    (hb : build regexOk limit true false p {} st = .ok o) (c : Ref) (hc : validRef d c = true) :
    ∃ l ns g, sel (F := F) d cfg o.q c = .ok l ∧
      (refs l).Pairwise (fun a b => Ref.lt a b = true) ∧ (refs l).Nodup ∧
      Spec.eval (F := F) d p ⟨c, 1, 1⟩ = .ok (.val (.nodes ns) g) ∧
      (∀ x, x ∈ refs l ↔ x ∈ ns) ∧ refs l = ns :=
  flatFrag_main wf cfg hns hinj regexOk limit p hp st o hb c hc

open XPathV.PathSem XPathV.PredSem XPathV.FlatFiltered in
/-- `C12_flat_filtered_is_oracle_list` without the `HashInj` hypothesis (it is a theorem now: `hashInj_holds`; the side
condition left is "no element has two attributes with the same prefix, name and value") -/
theorem C12_flat_filtered_is_oracle_list_unconditional {d : Doc} (wf : WF d) (cfg : ECfg) (hns : cfg.nsIface = true)
    (hattr : AttrTriplesDistinct d) (regexOk : RegexOk) (limit : Nat) (p : Ast) (hp : FlatFrag p) (st : BState) (o : BOut)
    (hb : build regexOk limit true false p {} st = .ok o) (c : Ref) (hc : validRef d c = true) :
    ∃ l ns g, sel (F := F) d cfg o.q c = .ok l ∧
      (refs l).Pairwise (fun a b => Ref.lt a b = true) ∧ (refs l).Nodup ∧
      Spec.eval (F := F) d p ⟨c, 1, 1⟩ = .ok (.val (.nodes ns) g) ∧
      (∀ x, x ∈ refs l ↔ x ∈ ns) ∧ refs l = ns :=
  C12_flat_filtered_is_oracle_list wf cfg hns (PathSem.hashInj_holds wf hattr cfg) regexOk limit p
    hp st o hb c hc

open XPathV.PathSem XPathV.FlatFiltered in
/-- **`//name`** (absolute and relative), through the builder's shortcut: one descendant query,
sequence strictly increasing in document order -/
theorem C12_slashslash_sorted {d : Doc} (wf : WF d) (cfg : ECfg) (regexOk : RegexOk) (limit : Nat)
    (snt sdf : Bool) (a b : AxisInfo) (fl : Flags) (hf : fl.filter = false) (ha : a.axis = "child")
    (hb : isPlainDos snt b = true) :
    (∀ s st o, build regexOk limit snt sdf (.axis a (.axis b (.root s))) fl st = .ok o →
      ∀ c l, sel (F := F) d cfg o.q c = .ok l →
        (refs l).Pairwise (fun a b => Ref.lt a b = true) ∧ (refs l).Nodup) ∧
    (∀ st o, build regexOk limit snt sdf (.axis a (.axis b .none)) fl st = .ok o →
      ∀ c, validRef d c = true → ∀ l, sel (F := F) d cfg o.q c = .ok l →
        (refs l).Pairwise (fun a b => Ref.lt a b = true) ∧ (refs l).Nodup) :=
  ⟨fun s st o h c l hl => slashslash_abs_sorted wf cfg regexOk limit snt sdf a b s fl st o hf ha hb h c l hl,
   fun st o h c hc l hl => slashslash_rel_sorted wf cfg regexOk limit snt sdf a b fl st o hf ha hb h c hc l hl⟩

/-- **C12, second half, all sixteen iterator types (`Model/Pull2`)** — *Evaluate's iterator produces
the same sequence as Select*: for every covered plan the Go-like pull machine the builder creates,
drained with enough fuel, reports exactly the sequence `sel` of the plan and ends exhausted.
(`dec` = the decision of filter predicates, tied to the engine by `DecOK`; `NeedsWF`: only a
non-sibling `followingQuery` needs a well-formed document.) -/
theorem C12_all_iterators_refine_sequence (d : Doc) (cfg : ECfg) (dec : Plan → Ref → Bool) (hd : 0 < d.length)
    (p : Plan) (q : PQ2) (h : PQ2.ofPlan p = some q) (hs : NeedsWF p → WF d)
    (hdec : q.DecOK (F := F) d cfg dec) (c : Ref) (hg : Good d c) :
    ∃ l, sel (F := F) d cfg p c = .ok l ∧
      ∃ q' c' f0, (∀ f, f0 ≤ f → drain2 d cfg dec f q c = some (l, q', c')) ∧
        (∀ c'', rem2 d cfg dec c'' q' = []) :=
  drain2_eq_sel d cfg dec hd p q h hs hdec c hg

/-- *MoveNext keeps returning false once it has returned false*, for ever, with any fuel and any
position of the shared cursor -/
theorem C12_exhausted_for_ever (d : Doc) (cfg : ECfg) (dec : Plan → Ref → Bool) (hd : 0 < d.length)
    {f : Nat} {q : PQ2} {c : Ref} {q' : PQ2} {c' : Ref}
    (hw : NeedsWF q.plan → WF d) (hi : q.Inv d) (hg : Good d c)
    (h : PQ2.select d cfg dec f q c = (.done, q', c')) :
    (∀ c'', rem2 d cfg dec c'' q' = []) ∧ q'.Inv d ∧ (NeedsWF q'.plan → WF d) ∧
    ∀ f2 c2 o q2 c3, Good d c2 → PQ2.select d cfg dec f2 q' c2 = (o, q2, c3) → o ≠ .fuel →
      o = .done ∧ (∀ c'', rem2 d cfg dec c'' q2 = []) ∧ q2.Inv d ∧ (NeedsWF q2.plan → WF d) :=
  exhausted_for_ever d cfg dec hd hw hi hg h

/-- *Current is positioned on the node just reported*: `MoveNext` answers true exactly when
something remains, `Current` is then that node, `position()`/`depth()` are its counters, and the
tail remains -/
theorem C12_moveNext_current (d : Doc) (cfg : ECfg) (dec : Plan → Ref → Bool) (hd : 0 < d.length)
    (q : PQ2) (hs : NeedsWF q.plan → WF d) (hi : q.Inv d) (c : Ref) (hg : Good d c) :
    ∃ f0, ∀ f, f0 ≤ f →
      match rem2 d cfg dec c q with
      | [] => ∃ q' c', PQ2.moveNext d cfg dec f q c = some (false, q', c')
      | x :: xs => ∃ q', PQ2.moveNext d cfg dec f q c = some (true, q', x.r) ∧
          q'.position = x.pos ∧ q'.depth = x.lvl ∧ (∀ c'', rem2 d cfg dec c'' q' = xs) ∧ q'.Inv d :=
  moveNext_current d cfg dec hd q hs hi c hg

/-! ## the machine-level statement for filters with predicates of any value kind (`Lemmas/Pull2Gen`)

`DecOK'`: the oracle `dec` only has to be the keep-decision the sequence model makes for the candidates the machine
can present (boolean, string and node-list valued predicates without restriction; a number-valued predicate when its
verdict is a function of the node among the candidates offered — `DecOK → DecOK'`). -/
section AnyPredicate
open XPathV.Model
/-- **C12, second half, all sixteen iterator types (`Model/Pull2`)**, filters with predicates of any
value kind — *Evaluate's iterator produces the same sequence as Select*: for every covered plan the
Go-like pull machine the builder creates, drained with enough fuel, reports exactly the sequence
`sel` of the plan and ends exhausted. -/
theorem C12_all_iterators_refine_sequence_any_predicate {F : Type} [NumAlg F] (d : Doc) (cfg : ECfg) (dec : Plan → Ref → Bool) (hd : 0 < d.length)
    (p : Plan) (q : PQ2) (h : PQ2.ofPlan p = some q) (hs : NeedsWF p → WF d)
    (c : Ref) (hdec : q.DecOK' (F := F) d cfg dec c) (hg : Good d c) :
    ∃ l, sel (F := F) d cfg p c = .ok l ∧
      ∃ q' c' f0, (∀ f, f0 ≤ f → drain2 d cfg dec f q c = some (l, q', c')) ∧
        (∀ c'', rem2 d cfg dec c'' q' = []) :=
  drain2_eq_sel' d cfg dec hd p q h hs c hdec hg

end AnyPredicate

end XPathV.Theorems.C12

/-! ## Flat paths with the predicates of the whole C02 fragment (`PredSem2.Frag2`, `Lemmas/FlatFiltered2`) -/
namespace XPathV.Theorems.C12
open XPathV XPathV.Model XPathV.Facts NumAlg
open XPathV.PathSem XPathV.PredSem XPathV.PredSem2 XPathV.FlatFiltered XPathV.FlatFiltered2

variable {F : Type} [NumAlg F]

/-- **`C12_flat_filtered_is_oracle_list` lifted to the whole C02 fragment**: a flat path (child,
attribute and self steps from the context node or the root: `FlatAny p`) whose predicates are in
`Frag2 false` (`Frag2 true p`; besides those of `Frag`: `count(P) op n`, `not(count(P))`, the string
tests, `local-name(…) = 'lit'`, path `op` path, path `op` string literal) — equivalently
`FlatFrag2 p` (`FlatFiltered2.flatFrag2_iff`) — is built into a plan that succeeds from every valid
context node; its *sequence* is strictly increasing in document order, repeats no node, and is the
oracle's document-ordered list, element by element -/
theorem C12_flat_filtered_is_oracle_list_full {d : Doc} (wf : WF d) (cfg : ECfg) (hns : cfg.nsIface = true)
    (hinj : HashInj d cfg) (regexOk : RegexOk) (limit : Nat) (p : Ast) (hp : Frag2 true p) (hflat : FlatAny p)
    (st : BState) (o : BOut)
    (hb : build regexOk limit true false p {} st = .ok o) (c : Ref) (hc : validRef d c = true) :
    ∃ l ns g, sel (F := F) d cfg o.q c = .ok l ∧
      (refs l).Pairwise (fun a b => Ref.lt a b = true) ∧ (refs l).Nodup ∧
      Spec.eval (F := F) d p ⟨c, 1, 1⟩ = .ok (.val (.nodes ns) g) ∧
      (∀ x, x ∈ refs l ↔ x ∈ ns) ∧ refs l = ns :=
  flatFrag2_main wf cfg hns hinj regexOk limit p hp hflat st o hb c hc

/-- `C12_flat_filtered_is_oracle_list_full` without the `HashInj` hypothesis (`hashInj_holds`; the side
condition left is "no element has two attributes with the same prefix, name and value") -/
theorem C12_flat_filtered_is_oracle_list_full_unconditional {d : Doc} (wf : WF d) (cfg : ECfg)
    (hns : cfg.nsIface = true) (hattr : AttrTriplesDistinct d) (regexOk : RegexOk) (limit : Nat) (p : Ast)
    (hp : Frag2 true p) (hflat : FlatAny p) (st : BState) (o : BOut)
    (hb : build regexOk limit true false p {} st = .ok o) (c : Ref) (hc : validRef d c = true) :
    ∃ l ns g, sel (F := F) d cfg o.q c = .ok l ∧
      (refs l).Pairwise (fun a b => Ref.lt a b = true) ∧ (refs l).Nodup ∧
      Spec.eval (F := F) d p ⟨c, 1, 1⟩ = .ok (.val (.nodes ns) g) ∧
      (∀ x, x ∈ refs l ↔ x ∈ ns) ∧ refs l = ns :=
  C12_flat_filtered_is_oracle_list_full wf cfg hns (PathSem.hashInj_holds wf hattr cfg) regexOk limit p
    hp hflat st o hb c hc

/-- the statement for the inductive fragment `FlatFrag2` (same shape as `FlatFrag`, predicates in
`Frag2 false`); `C12_flat_filtered_is_oracle_list` is its restriction to `FlatFrag`
(`FlatFiltered2.flatFrag2_of_flatFrag`) -/
theorem C12_flat_filtered_is_oracle_list_full_fragment {d : Doc} (wf : WF d) (cfg : ECfg)
    (hns : cfg.nsIface = true) (hinj : HashInj d cfg) (regexOk : RegexOk) (limit : Nat) (p : Ast)
    (hp : FlatFrag2 p) (st : BState) (o : BOut)
    (hb : build regexOk limit true false p {} st = .ok o) (c : Ref) (hc : validRef d c = true) :
    ∃ l ns g, sel (F := F) d cfg o.q c = .ok l ∧
      (refs l).Pairwise (fun a b => Ref.lt a b = true) ∧ (refs l).Nodup ∧
      Spec.eval (F := F) d p ⟨c, 1, 1⟩ = .ok (.val (.nodes ns) g) ∧
      (∀ x, x ∈ refs l ↔ x ∈ ns) ∧ refs l = ns :=
  C12_flat_filtered_is_oracle_list_full wf cfg hns hinj regexOk limit p hp.frag2 hp.flatAny st o hb c hc

end XPathV.Theorems.C12
