import XPathV.Lemmas.FlatOrder
import XPathV.Lemmas.PullProofs
import XPathV.Model.Api
import XPathV.Lemmas.Facts
/-!
# C12 — flat paths: document order, no duplicates; iterator protocol

The sequence-level facts are below; the pull-level protocol facts (exhausted stays exhausted,
`Current` is the node just reported) live on the pull machine `Model/Pull.lean`.
-/
namespace XPathV.Theorems.C12
open XPathV XPathV.Model XPathV.Facts NumAlg

variable {F : Type} [NumAlg F]

/-- for a node-set plan `Evaluate` hands out an iterator that yields the same sequence as `Select` -/
theorem evaluate_iter_eq_select (d : Doc) (cfg : ECfg) (p : Plan) (c : Ref) (l l' : List Ref)
    (he : evaluate (F := F) d cfg p c = .ok (.nodes l)) (hs : selectAll (F := F) d cfg p c = .ok l') : l = l' := by
  unfold evaluate at he
  simp only [bind, Except.bind] at he
  split at he
  · cases he
  · rename_i v hv
    split at he
    · simp only [hs, pure, Except.pure] at he
      cases he; rfl
    · rename_i hnot
      simp only [pure, Except.pure] at he
      cases he
      exact absurd rfl (hnot l)

/-- `count()` of a node-set argument is the length of the sequence it yields -/
theorem count_eq_length (d : Doc) (cfg : ECfg) (c : Ref) (l : List Ref) :
    callFn (F := F) d cfg "count" .nil c [.ok (.nodes l)] none = .ok (.num (ofNat l.length)) := by
  simp [callFn, bind, Except.bind]

/-- `reverse()` yields its argument's sequence reversed -/
theorem reverse_eq_reverse (d : Doc) (cfg : ECfg) (inp : Plan) (c : Ref) (ins : List Item)
    (h : sel (F := F) d cfg inp c = .ok ins) :
    (sel (F := F) d cfg (.transform "reverse" inp) c).map (fun o => o.map (·.r)) = .ok (ins.map (·.r)).reverse := by
  simp [sel, h, bind, Except.bind, plain, Except.map, List.map_reverse, Function.comp_def]

/-- a child step from one node yields that node's matching children in sibling order -/
theorem child_from_context (d : Doc) (cfg : ECfg) (a : AxisInfo) (c : Ref) :
    (sel (F := F) d cfg (.child a .context) c).map (fun o => o.map (·.r)) = .ok ((childrenM d c).filter (nodeTestM d cfg a)) := by
  simp [sel, bind, Except.bind, numbered, Except.map, test, List.map_map, Function.comp_def]

/-! ## The iterator protocol on the pull machine (`Model/Pull.lean`)

`PQ` is the defunctionalised model of the Go iterator structs (configuration **and** mutable state)
for context, absolute, child, attribute, self, parent and descendant queries; `PQ.select` is one
`Select` call, `drain` is a `MoveNext` loop.  The theorems hold for every document, context node and
*every state*, reachable or not. -/

/-- the pull machine yields exactly the sequence of the sequence-level model (nodes, `position()`
and `depth()` counters), from any sufficiently large fuel on, and any terminated drain yields it -/
theorem pull_refines_sequence (d : Doc) (cfg : ECfg) (cur : Ref) (p : Plan) (q : PQ) (h : PQ.ofPlan p = some q) :
    ∃ l, sel (F := F) d cfg p cur = .ok l ∧
      (∃ q' f0, (∀ f, f0 ≤ f → drain d cfg cur f q = some (l, q')) ∧ rem d cfg cur q' = []) ∧
      (∀ f l' q', drain d cfg cur f q = some (l', q') → l' = l) :=
  drain_eq_sel d cfg cur p q h

/-- **MoveNext keeps returning false once it has returned false**: after a pull that reported
exhaustion, every further pull (with any fuel) that terminates reports exhaustion again -/
theorem exhausted_stays_exhausted (d : Doc) (cfg : ECfg) (cur : Ref) {f : Nat} {q q' : PQ}
    (h : PQ.select d cfg cur f q = (.done, q')) :
    rem d cfg cur q' = [] ∧
    (∀ f' o q'', PQ.select d cfg cur f' q' = (o, q'') → o ≠ .fuel → o = .done ∧ rem d cfg cur q'' = []) ∧
    (∃ q'' f0, (∀ f', f0 ≤ f' → PQ.select d cfg cur f' q' = (.done, q'')) ∧ rem d cfg cur q'' = []) :=
  exhausted_stays d cfg cur h

/-- the node a pull reports is the head of the remaining stream, and the position/depth counters
a filter would read are the ones the sequence model attaches to that node -/
theorem reported_node_and_counters (d : Doc) (cfg : ECfg) (cur : Ref) {f : Nat} {q q' : PQ} {n : Ref}
    (h : PQ.select d cfg cur f q = (.yield n, q')) :
    ∃ x xs, rem d cfg cur q = x :: xs ∧ x.r = n ∧ q'.position = x.pos ∧ q'.depth = x.lvl ∧ rem d cfg cur q' = xs :=
  select_position d cfg cur h

/-! ## Flat paths are in document order, without repetition -/

/-- **flat paths**: a path made of child, attribute and self steps from one context node yields its
nodes strictly increasing in document order — hence ordered and duplicate-free — for every
well-formed document and every context node -/
theorem flat_paths_sorted {d : Doc} (wf : WF d) (cfg : ECfg) (c : Ref) {p : Plan} (hp : FlatPlan p) (l : List Item)
    (h : sel (F := F) d cfg p c = .ok l) :
    (l.map (·.r)).Pairwise (fun a b => Ref.lt a b = true) ∧ (l.map (·.r)).Nodup :=
  ⟨XPathV.flat_sorted wf cfg c hp l h, XPathV.flat_nodup wf cfg c hp l h⟩

/-- a single descendant step (`descendant::t`, `//t` from the root) is in document order -/
theorem single_descendant_sorted {d : Doc} (wf : WF d) (cfg : ECfg) (a : AxisInfo) (self : Bool) (i : Nat)
    (hi : i < d.length) (c : Ref) (l l' : List Item)
    (h : sel (F := F) d cfg (.descendant a self .context) (.node i) = .ok l)
    (h' : sel (F := F) d cfg (.descendant a self .absolute) c = .ok l') :
    (l.map (·.r)).Pairwise (fun a b => Ref.lt a b = true) ∧ (l'.map (·.r)).Pairwise (fun a b => Ref.lt a b = true) :=
  ⟨XPathV.desc_sorted wf cfg a self i hi l h, XPathV.desc_abs_sorted wf cfg a self c l' h'⟩

end XPathV.Theorems.C12
