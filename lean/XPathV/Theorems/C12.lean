import XPathV.Model.Api
/-! # Property C12 — theorems (placeholder header; filled in below) -/
namespace XPathV.Theorems.C12
end XPathV.Theorems.C12
