import XPathV.Model.Api
import XPathV.Lemmas.Facts
/-!
# C12 — flat paths: document order, no duplicates; iterator protocol

The sequence-level facts are below; the pull-level protocol facts (exhausted stays exhausted,
`Current` is the node just reported) live on the pull machine `Model/Pull.lean`.
-/
namespace XPathV.Theorems.C12
open XPathV XPathV.Model XPathV.Facts NumAlg

variable {F : Type} [NumAlg F]

/-- for a node-set plan `Evaluate` hands out an iterator that yields the same sequence as `Select` -/
theorem evaluate_iter_eq_select (d : Doc) (cfg : ECfg) (p : Plan) (c : Ref) (l l' : List Ref)
    (he : evaluate (F := F) d cfg p c = .ok (.nodes l)) (hs : selectAll (F := F) d cfg p c = .ok l') : l = l' := by
  unfold evaluate at he
  simp only [bind, Except.bind] at he
  split at he
  · cases he
  · rename_i v hv
    split at he
    · simp only [hs, pure, Except.pure] at he
      cases he; rfl
    · rename_i hnot
      simp only [pure, Except.pure] at he
      cases he
      exact absurd rfl (hnot l)

/-- `count()` of a node-set argument is the length of the sequence it yields -/
theorem count_eq_length (d : Doc) (cfg : ECfg) (c : Ref) (l : List Ref) :
    callFn (F := F) d cfg "count" .nil c [.ok (.nodes l)] none = .ok (.num (ofNat l.length)) := by
  simp [callFn, bind, Except.bind]

/-- `reverse()` yields its argument's sequence reversed -/
theorem reverse_eq_reverse (d : Doc) (cfg : ECfg) (inp : Plan) (c : Ref) (ins : List Item)
    (h : sel (F := F) d cfg inp c = .ok ins) :
    (sel (F := F) d cfg (.transform "reverse" inp) c).map (fun o => o.map (·.r)) = .ok (ins.map (·.r)).reverse := by
  simp [sel, h, bind, Except.bind, plain, Except.map, List.map_reverse, Function.comp_def]

/-- a child step from one node yields that node's matching children in sibling order -/
theorem child_from_context (d : Doc) (cfg : ECfg) (a : AxisInfo) (c : Ref) :
    (sel (F := F) d cfg (.child a .context) c).map (fun o => o.map (·.r)) = .ok ((childrenM d c).filter (nodeTestM d cfg a)) := by
  simp [sel, bind, Except.bind, numbered, Except.map, test, List.map_map, Function.comp_def]

end XPathV.Theorems.C12
