import XPathV.Lemmas.PathSem
import XPathV.Lemmas.PosSem
import XPathV.Lemmas.ApiSem
import XPathV.Lemmas.Pull2Proofs
/-!
# Non-vacuity audit — shared concrete instances

A concrete well-formed document with 8 nodes and 3 attributes, the generic bridge
`wfb d = true → WF d`, a decision procedure for `HashInj` and the exact-integer number algebra.
-/
/-! decidable equality on results, so that concrete conclusions can be checked by `decide +kernel`
(only imported by the non-vacuity files) -/
deriving instance DecidableEq for Except
deriving instance DecidableEq for XPathV.Spec.Err
deriving instance DecidableEq for XPathV.Spec.Value
deriving instance DecidableEq for XPathV.Spec.Res
deriving instance DecidableEq for XPathV.Model.Item
deriving instance DecidableEq for XPathV.Model.MVal

namespace XPathV.Theorems.NonVacuity
open XPathV XPathV.Model

/-- step abbreviations, exactly as the parser fills `AxisInfo` -/
abbrev chE (n : String) : AxisInfo := ⟨"child", .elem, "", n, "", false, ""⟩
abbrev atA (n : String) : AxisInfo := ⟨"attribute", .attr, "", n, "", false, ""⟩
abbrev chText : AxisInfo := ⟨"child", .text, "", "", "text", false, ""⟩
abbrev dosAll : AxisInfo := ⟨"descendant-or-self", .all, "", "", "", false, ""⟩
abbrev axE (axis n : String) : AxisInfo := ⟨axis, .elem, "", n, "", false, ""⟩

/-- the parser (with the fuel `compile` supplies, no namespace map) yields `a` on the text `t` -/
abbrev ParsesTo (t : String) (a : Ast) : Prop :=
  parse (fuelFor t.toList) (defaultCfg none) t.toList = .ok a

/-- `sel`/`evalP` are defined by well-founded recursion and do not reduce in the kernel: unfold
them with their equations first, then let the kernel decide the structural remainder -/
macro "sel_decide" : tactic =>
  `(tactic| (simp only [sel, evalP, argVals, bind, Except.bind, pure, Except.pure]; decide +kernel))

/-- read the value off an oracle result without spelling out the grouping -/
theorem value_of_eval {F : Type} {r : Except Spec.Err (Spec.Res F)} {v v' : Spec.Value F}
    {g : Option (List (List Ref))} (h : r = .ok (.val v g)) (hv : r.map Spec.Res.value = .ok v') :
    v = v' := by
  subst h; simpa [Except.map, Spec.Res.value] using hv

/-- the value of a successful computation (so that later hypotheses can mention it concretely) -/
def okVal {ε α : Type} [Inhabited α] (r : Except ε α) : α :=
  match r with
  | .ok a => a
  | .error _ => default

theorem eq_ok_okVal {ε α : Type} [Inhabited α] {r : Except ε α} (h : r.isOk = true) : r = .ok (okVal r) := by
  cases r with
  | ok o => rfl
  | error e => simp [Except.isOk, Except.toBool] at h

theorem eq_ok_pair {ε α β : Type} [Inhabited α] [Inhabited β] {r : Except ε (α × β)}
    (h : r.isOk = true) : r = .ok ((okVal r).1, (okVal r).2) := by
  cases r with
  | ok o => rfl
  | error e => simp [Except.isOk, Except.toBool] at h

instance : Inhabited BOut := ⟨⟨.nil, default, default⟩⟩

theorem pair_eq {α β : Type} {x : α × β} {a : α} (h : x.1 = a) : x = (a, x.2) := by
  cases x; cases h; rfl

theorem triple_eq {α β γ : Type} {x : α × β × γ} {a : α} (h : x.1 = a) : x = (a, x.2.1, x.2.2) := by
  obtain ⟨_, _, _⟩ := x; cases h; rfl

/-- the error of a failed computation, for stating `r = .error e` decidably -/
def errVal {ε α : Type} : Except ε α → Option ε
  | .error e => some e
  | .ok _ => none

theorem eq_error_of {ε α : Type} {r : Except ε α} {e : ε} (h : errVal r = some e) : r = .error e := by
  cases r with
  | ok o => cases h
  | error e' => simp only [errVal, Option.some.injEq] at h; rw [h]

theorem exists_ok {ε α : Type} {r : Except ε α} (h : r.isOk = true) : ∃ o, r = .ok o := by
  cases r with
  | ok o => exact ⟨o, rfl⟩
  | error e => simp [Except.isOk, Except.toBool] at h

/-- the executable well-formedness check is sound -/
theorem wf_of_wfb {d : Doc} (h : wfb d = true) : WF d := by
  simp only [wfb, Bool.and_eq_true, decide_eq_true_eq, beq_iff_eq, List.all_eq_true, List.mem_range,
    Bool.or_eq_true, bne_iff_ne, ne_eq, Bool.not_eq_true', List.isEmpty_iff] at h
  obtain ⟨⟨⟨⟨hpos, h0⟩, hk⟩, hstep⟩, hattrs⟩ := h
  refine ⟨hpos, ⟨h0, hk⟩, ?_, ?_, ?_, ?_⟩
  · intro i hi
    have := hstep i (by omega)
    exact ⟨this.1.1.1, this.1.1.2⟩
  · intro i h0 hi
    obtain ⟨j, rfl⟩ : ∃ j, i = j + 1 := ⟨i - 1, by omega⟩
    exact (hstep j (by omega)).1.2
  · intro i hi hk
    have := (hstep i (by omega)).2
    rcases this with h | h
    · rcases hk with hk | hk <;> simp [hk] at h
    · exact h
  · intro i hi hne
    rcases hattrs i hi with h | h
    · exact absurd h hne
    · exact h


/-- `HashInj` is decided by a finite check over `allRefs` -/
def hashInjB (d : Doc) (cfg : ECfg) : Bool :=
  (allRefs d).all fun a => (allRefs d).all fun b =>
    !(identityHash d cfg a == identityHash d cfg b) || a == b

theorem mem_allRefs_of_valid {d : Doc} {r : Ref} (h : validRef d r = true) : r ∈ allRefs d := by
  cases r with
  | node i =>
    simp only [validRef, decide_eq_true_eq] at h
    simp only [allRefs, List.mem_flatMap, List.mem_range]
    exact ⟨i, h, List.mem_cons_self⟩
  | attr i k =>
    simp only [validRef, Bool.and_eq_true, decide_eq_true_eq] at h
    simp only [allRefs, List.mem_flatMap, List.mem_range]
    refine ⟨i, h.1, List.mem_cons_of_mem _ ?_⟩
    simp only [attrsOf, List.mem_map, List.mem_range]
    exact ⟨k, h.2, rfl⟩

theorem hashInj_of_hashInjB {d : Doc} {cfg : ECfg} (h : hashInjB d cfg = true) :
    PathSem.HashInj d cfg := by
  intro a b ha hb he
  simp only [hashInjB, List.all_eq_true, Bool.or_eq_true, Bool.not_eq_true', beq_eq_false_iff_ne,
    beq_iff_eq] at h
  rcases h a (mem_allRefs_of_valid ha) b (mem_allRefs_of_valid hb) with h | h
  · exact absurd he h
  · exact h

/-- `<r><a x="1">t</a><b x="2" y="3">u</b><a/><!--c--></r>`: 8 nodes, 3 attributes -/
def d0 : Doc :=
  [⟨0, .root, "", "", "", "", []⟩,
   ⟨1, .elem, "", "r", "", "", []⟩,
   ⟨2, .elem, "", "a", "", "", [⟨"", "x", "", "1"⟩]⟩,
   ⟨3, .text, "", "", "", "t", []⟩,
   ⟨2, .elem, "", "b", "", "", [⟨"", "x", "", "2"⟩, ⟨"", "y", "", "3"⟩]⟩,
   ⟨3, .text, "", "", "", "u", []⟩,
   ⟨2, .elem, "", "a", "", "", []⟩,
   ⟨2, .comment, "", "", "", "c", []⟩]

theorem wf_d0 : WF d0 := wf_of_wfb (by decide)

theorem hashInj_d0 : PathSem.HashInj d0 {} := hashInj_of_hashInjB (by decide +kernel)


/-! ## `DecOK` is a property of the configuration (the plan), not of the iteration state -/

/-- `DecOK`, read off the plan -/
def DecOKP {F : Type} [NumAlg F] (d : Doc) (cfg : ECfg) (dec : Plan → Ref → Bool) : Plan → Prop
  | .child _ i | .cachedChild _ i | .attr _ i | .self _ i | .parent _ i | .descendant _ _ i
  | .ancestor _ _ i | .following _ _ i | .preceding _ _ i | .group i | .descOverDesc _ _ i =>
    DecOKP (F := F) d cfg dec i
  | .filter i pred => DecOKP (F := F) d cfg dec i ∧ ∀ r, evalP (F := F) d cfg pred r = .ok (.bool (dec pred r))
  | .union l r => DecOKP (F := F) d cfg dec l ∧ DecOKP (F := F) d cfg dec r
  | .merge i c => DecOKP (F := F) d cfg dec i ∧ DecOKP (F := F) d cfg dec c
  | _ => True

theorem decOK_iff_plan {F : Type} [NumAlg F] (d : Doc) (cfg : ECfg) (dec : Plan → Ref → Bool) (q : PQ2) :
    q.DecOK (F := F) d cfg dec ↔ DecOKP (F := F) d cfg dec q.plan := by
  induction q <;> simp_all [PQ2.DecOK, PQ2.plan, DecOKP]

/-- every state reachable under the library's protocol inherits `DecOK` from its configuration -/
theorem reach_decOK {F : Type} [NumAlg F] {d : Doc} {cfg : ECfg} {dec : Plan → Ref → Bool}
    (hd : 0 < d.length) (p0 : Plan) (hw : NeedsWF p0 → WF d) (hp : DecOKP (F := F) d cfg dec p0)
    (q : PQ2) (hr : Reach d cfg dec p0 q) : q.DecOK (F := F) d cfg dec := by
  rw [decOK_iff_plan, (reach_inv d cfg dec hd p0 hw q hr).1]; exact hp

end XPathV.Theorems.NonVacuity
