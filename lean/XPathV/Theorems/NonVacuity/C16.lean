import XPathV.Theorems.C16
import XPathV.Theorems.NonVacuity.Common
/-!
# Non-vacuity of the C16 theorems

`cache_exact`, `cache_returns_loaded`, `cache_unbounded_when_zero`, `evict_cond_ok`,
`C16_replace_dollar_dollar` have no hypotheses.  `cache_bounded` needs `cap > 0` and
`C16_replace_template` needs `groups < 100000000`: trivially satisfiable (both already exercised by
the `example` at `Theorems/C16.lean:77` and the template examples at `Lemmas/TemplateSem.lean:254–271`).
The remaining side conditions are instantiated here.
-/
namespace XPathV.Theorems.NonVacuity.C16
open XPathV XPathV.Model.Cache XPathV.Theorems.C16
open XPathV.Model.Template XPathV.Spec.Template XPathV.Lemmas.TemplateSem

def load1 : Key → Option Val := fun k => if k == "f" then none else some ("V" ++ k)

/-- `cache_bounded` on a schedule with two threads racing on one key, a failing key and an eviction:
the cache is not empty at the end -/
example : (run 2 load1 (initSys ["a", "a", "f", "b", "c"]) [0, 1, 0, 1, 2, 3, 4, 3, 4]).c.m.length ≤ 2 :=
  cache_bounded 2 load1 _ _ (by decide)
example : (run 2 load1 (initSys ["a", "a", "f", "b", "c"]) [0, 1, 0, 1, 2, 3, 4, 3, 4]).c.m.length = 1 ∧
    (run 2 load1 (initSys ["a", "a", "f", "b", "c"]) [0, 1, 0, 1, 2, 3, 4, 3, 4]).c.resets = 1 := by decide

def c1 : Cache := { m := [("a", "Va"), ("b", "Vb")], resets := 0 }

/-- `cache_no_error_memo` (`hmiss`, `hfail`), `cache_hit` (`h`), `cache_miss_loads` (`hmiss`, `hl`) -/
example : get 2 load1 c1 "f" = (c1, none) := cache_no_error_memo 2 load1 c1 "f" (by decide) (by decide)
example : get 2 load1 c1 "b" = (c1, some "Vb") := cache_hit 2 load1 c1 "b" "Vb" (by decide)
example : (get 2 load1 c1 "z").2 = some "Vz" := cache_miss_loads 2 load1 c1 "z" "Vz" (by decide) (by decide)

/-- one match of `(b)` in `abc`: group 0 = `b`… with two groups and a name -/
def g2 : Groups := ⟨[some ['m'], some ['b'], none], [[], [], ['n']]⟩

/-- `C16_replace_template`, with the value -/
example : replaceOne g2 2 "[$1|$2|$12|$$1|${n}]".toList = replaceOneSpec g2 2 "[$1|$2|$12|$$1|${n}]".toList :=
  C16_replace_template g2 2 (by decide) _
example : replaceOne g2 2 "[$1|$2|$12|$$1|$0]".toList = "[b||b2|$1|m]".toList := by decide +kernel

/-- `C16_replace_literal` (`'$' ∉ r`) -/
example : replaceOne g2 2 "plain".toList = "plain".toList := C16_replace_literal g2 2 _ (by decide)

/-- `C16_replace_group_ref` (`h1`, `hn`, `hrest`): `$1` followed by the digit `7` with 2 groups (`17 > 2`) -/
example : replaceOne g2 2 ('$' :: digitsOf 1 ++ ['7', 'x']) =
    (g2.texts.getD 1 none).getD [] ++ replaceOne g2 2 ['7', 'x'] :=
  C16_replace_group_ref g2 2 (by decide) 1 (by decide) (by decide) ['7', 'x'] (by
    intro d rest' h _
    cases h
    decide)

/-- `C16_template_fuel` (`t.length < f`) -/
example := C16_template_fuel g2 2 "$1x".toList 10 (by decide)

/-- `C16_constant_bad_pattern_rejected` (`rx p = false`): a regexp oracle rejecting `(` -/
example (o : Model.BOut) : Model.build (fun p => p != "(") 100 true false
    (.call "matches" "" (.acons (.axis (Theorems.NonVacuity.chE "a") .none) (.acons (.str "(") .anil))) {} {} ≠ .ok o :=
  C16_constant_bad_pattern_rejected _ 100 true false "" _ "(" {} {} (by decide) o
/-- … while the same call with an accepted pattern is built -/
example : (Model.build (fun p => p != "(") 100 true false
    (.call "matches" "" (.acons (.axis (Theorems.NonVacuity.chE "a") .none) (.acons (.str "b+") .anil))) {} {}).isOk = true := by
  decide +kernel

end XPathV.Theorems.NonVacuity.C16
