import XPathV.Theorems.C15
import XPathV.Theorems.NonVacuity.Common
/-!
# Non-vacuity of the C15 theorems
-/
namespace XPathV.Theorems.NonVacuity.C15
open XPathV XPathV.Model XPathV.Theorems.NonVacuity XPathV.PosSem

attribute [local instance] toyAlg

def t1 : String := "count(//a[@x = 1 or contains(., 't')][last()] | /r/b/@y) + 5 mod 0 > string-length(name(/r/*[2]))"

/-- the compiled plan -/
def plan1 : Plan := okVal (compile {} none t1.toList)
theorem compiled1 : compile {} none t1.toList = .ok plan1 := eq_ok_okVal (by decide +kernel)

/-- `noRoundIn`: the parse tree of the text does not call `round` -/
def ast1 : Ast := okVal (parse (fuelFor t1.toList) (defaultCfg none) t1.toList)
theorem parsed1 : parse (fuelFor t1.toList) (defaultCfg none) t1.toList = .ok ast1 := eq_ok_okVal (by decide +kernel)
theorem ast1_noRound : ast1.noRound = true := by decide +kernel
theorem noRound1 : noRoundIn none t1.toList := by
  intro ast h
  have e : ast1 = ast := Except.ok.inj (parsed1.symm.trans h)
  rw [← e]; exact ast1_noRound

/-- **`C15_main_without_round`** (`compile = .ok p`, `noRoundIn`): on `d0`, from an attribute context -/
theorem C15_main_without_round_instance :
    (∀ k, sel (F := Int) d0 {} plan1 (.attr 4 1) ≠ .error (.crash k)) ∧
    (∀ k, evalP (F := Int) d0 {} plan1 (.attr 4 1) ≠ .error (.crash k)) :=
  Theorems.C15.C15_main_without_round (F := Int) {} none t1.toList plan1 compiled1 noRound1 d0 {} (.attr 4 1)

/-- `noRoundIn` is not trivially true: it fails for a text that calls `round` -/
def astR : Ast := okVal (parse (fuelFor "round(1) = 1".toList) (defaultCfg none) "round(1) = 1".toList)
theorem astR_round : astR.noRound = false := by decide +kernel
example : ¬ noRoundIn none "round(1) = 1".toList := by
  intro h
  have := h astR (eq_ok_okVal (by decide +kernel))
  rw [astR_round] at this
  cases this

/-- `clean_plans_never_crash` (`p.clean = true`) for the compiled plan -/
example : plan1.clean = true := by decide +kernel
example := Theorems.C15.clean_plans_never_crash (F := Int) d0 {} plan1 (.node 0) (by decide +kernel)

/-- `variables_rejected` (`st.depth + 1 ≤ lim`) -/
example := Theorems.C15.variables_rejected (fun _ => true) 100 true false "" "v" {} {} (by decide)

/-- `comparison_never_crashes` (operands of documented types) -/
example := Theorems.C15.comparison_never_crashes (F := Int) d0 .lt (.nodes [.attr 2 0]) (.str "x")
  (by intro i h; cases h) (by intro h; cases h) (by intro i h; cases h) (by intro h; cases h)

/-- `logical_select_finite` (`sel (.logical …) = .ok out`): `@x = '2'` selected at `b` -/
example : ([⟨.node 4, 1, 0⟩] : List Item).length ≤ 1 :=
  Theorems.C15.logical_select_finite (F := Int) d0 {} "=" (.attr (atA "x") .context) (.constStr "2") (.node 4)
    [⟨.node 4, 1, 0⟩] (by sel_decide)

end XPathV.Theorems.NonVacuity.C15

section AxiomAudit
open XPathV.Theorems.NonVacuity.C15
end AxiomAudit
