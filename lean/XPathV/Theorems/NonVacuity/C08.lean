import XPathV.Theorems.C08
import XPathV.Theorems.NonVacuity.Common
/-!
# Non-vacuity of the C08 theorems

`Lemmas/ArithSem.lean` (`SumExamples`) already shows `FlatSum`/`NumEF` satisfiable on a 4-node
document, with `HashInj` and two `isNaN … = false` facts left as hypotheses.  Here *all* hypotheses
are discharged (number algebra `toyAlg`, document `d0`), including the oracle-side domain
conditions `ModDom` and `FlatSum`.
-/
namespace XPathV.Theorems.NonVacuity.C08
open XPathV XPathV.Model XPathV.Theorems.NonVacuity XPathV.PosSem
open XPathV.PathSem XPathV.ArithSem

attribute [local instance] toyAlg

/-- `*/@x` (from `r`: the `x` attributes of `a[1]` and `b`, values `1` and `2`) -/
def pX : Ast := .axis (atA "x") (.axis (chE "") .none)
theorem pX_flat : FlatPath pX := .cons _ _ (by decide) (.step _ (by decide))

/-- `sum(*/@x) div count(*/@x) + 7 mod 2` -/
def e1 : Ast :=
  .oper "+" (.oper "div" (.call "sum" "" (.acons pX .anil)) (.call "count" "" (.acons pX .anil)))
    (.oper "mod" (.num "7") (.num "2"))

theorem e1_parsed : ParsesTo "sum(*/@x) div count(*/@x) + 7 mod 2" e1 :=
  ApiSem.parsesTo_eq (by decide +kernel)

/-- the context used below: node `r`, position 2 of 5 -/
abbrev ctx : Spec.Ctx := ⟨.node 1, 2, 5⟩

/-- the oracle speaks for `sum(*/@x)`: both nodes are numeric; the sum is `(0 + 1) + 2` -/
theorem sum_spec : Spec.eval (F := Int) d0 (.call "sum" "" (.acons pX .anil)) ctx =
    .ok (.val (.num 3) none) := by decide +kernel

theorem pX_flatSum : FlatSum d0 ctx Int pX := ⟨pX_flat, sumDom_of_eval d0 ctx "" pX 3 none sum_spec⟩

/-- `7 mod 2` is in the oracle's domain (non-negative integral dividend, positive integral divisor) -/
theorem mod_dom : ModDom d0 ctx Int (.num "7") (.num "2") := by
  intro x y ga gb hx hy
  rw [PredSem.eval_num] at hx hy
  cases hx; cases hy
  decide +kernel

theorem e1_numEF : NumEF d0 ctx Int e1 :=
  .arith "+" _ _ (by decide)
    (.arith "div" _ _ (by decide) (.sum "" pX pX_flatSum) (.count "" pX pX_flat))
    (.mod _ _ (.num _) (.num _) mod_dom)

theorem e1_built : ∃ o, build (fun _ => true) 100 true false e1 {} {} = .ok o :=
  exists_ok (by decide +kernel)

theorem e1_spec : Spec.eval (F := Int) d0 e1 ctx = .ok (.val (.num 2) none) := by decide +kernel

/-- **`C08_main`**: `WF`, `nsIface`, `HashInj`, `validRef`, `NumEF` (with `FlatSum`, `FlatPath`,
`ModDom` inside), `build = .ok` all discharged; both sides give `3 div 2 + 7 mod 2 = 2` (integer
algebra) -/
theorem C08_main_instance : ∃ (o : BOut), build (fun _ => true) 100 true false e1 {} {} = .ok o ∧
    evalP (F := Int) d0 {} o.q (.node 1) = .ok (.num 2) := by
  obtain ⟨o, hb⟩ := e1_built
  obtain ⟨x, h1, h2⟩ := Theorems.C08.C08_main (F := Int) wf_d0 {} rfl hashInj_d0 (fun _ => true) 100 false
    (.node 1) (by decide) 2 5 e1_numEF {} {} o hb
  rw [e1_spec] at h2; cases h2
  exact ⟨o, hb, h1⟩

/-- **`C08_evaluate`** (context `⟨r, 1, 1⟩`) -/
theorem C08_evaluate_instance : ∃ (o : BOut), evaluate (F := Int) d0 {} o.q (.node 1) = .ok (.num 2) := by
  obtain ⟨o, hb⟩ := e1_built
  have hs : Spec.eval (F := Int) d0 (.call "sum" "" (.acons pX .anil)) ⟨.node 1, 1, 1⟩ =
      .ok (.val (.num 3) none) := by decide +kernel
  have hm : ModDom d0 ⟨.node 1, 1, 1⟩ Int (.num "7") (.num "2") := by
    intro x y ga gb hx hy
    rw [PredSem.eval_num] at hx hy
    cases hx; cases hy
    decide +kernel
  obtain ⟨x, h1, h2⟩ := Theorems.C08.C08_evaluate (F := Int) wf_d0 {} rfl hashInj_d0 (fun _ => true) 100
    false (.node 1) (by decide) (e := e1)
    (.arith "+" _ _ (by decide)
      (.arith "div" _ _ (by decide) (.sum "" pX ⟨pX_flat, sumDom_of_eval d0 _ "" pX 3 none hs⟩)
        (.count "" pX pX_flat))
      (.mod _ _ (.num _) (.num _) hm)) {} o hb
  have e : Spec.evalTop (F := Int) d0 e1 (.node 1) = .ok (.num 2) := by decide +kernel
  rw [e] at h2; cases h2
  exact ⟨o, h1⟩

/-- **`C08_sum`** (`hx`: the oracle evaluates `sum(*/@x)` to `3`) -/
theorem C08_sum_instance : ∃ (o : BOut), evalP (F := Int) d0 {} o.q (.node 1) = .ok (.num 3) := by
  obtain ⟨o, hb⟩ : ∃ o, build (fun _ => true) 100 true false (.call "sum" "" (.acons pX .anil)) {} {} = .ok o :=
    exists_ok (by decide +kernel)
  exact ⟨o, Theorems.C08.C08_sum (F := Int) wf_d0 {} rfl hashInj_d0 (fun _ => true) 100 false (.node 1)
    (by decide) 2 5 pX_flat "" 3 none sum_spec {} {} o hb⟩

/-- **`C08_sum_evaluate`** -/
theorem C08_sum_evaluate_instance : ∃ (o : BOut), evaluate (F := Int) d0 {} o.q (.node 1) = .ok (.num 3) := by
  obtain ⟨o, hb⟩ : ∃ o, build (fun _ => true) 100 true false (.call "sum" "" (.acons pX .anil)) {} {} = .ok o :=
    exists_ok (by decide +kernel)
  exact ⟨o, Theorems.C08.C08_sum_evaluate (F := Int) wf_d0 {} rfl hashInj_d0 (fun _ => true) 100 false
    (.node 1) (by decide) pX_flat "" 3 (by decide +kernel) {} o hb⟩

/-- **`C08_sum_model`** -/
example : ∃ (o : BOut) (ns : List Ref) (g : Option (List (List Ref))),
    Spec.eval (F := Int) d0 pX ctx = .ok (.val (.nodes ns) g) ∧ ns = [.attr 2 0, .attr 4 0] := by
  obtain ⟨o, hb⟩ : ∃ o, build (fun _ => true) 100 true false (.call "sum" "" (.acons pX .anil)) {} {} = .ok o :=
    exists_ok (by decide +kernel)
  obtain ⟨ns, g, h1, _⟩ := Theorems.C08.C08_sum_model (F := Int) wf_d0 {} rfl hashInj_d0 (fun _ => true) 100
    false (.node 1) (by decide) 2 5 pX_flat "" {} {} o hb
  exact ⟨o, ns, g, h1, value_of_eval h1 (v' := .nodes [.attr 2 0, .attr 4 0]) (by decide +kernel) |>
    fun h => by cases h; rfl⟩

/-! ## the pure fragment `NumE`: `-(1 + 2) - floor(7 div 2)` -/

def e2 : Ast :=
  .oper "-" (.oper "*" (.group (.oper "+" (.num "1") (.num "2"))) (.num "-1"))
    (.call "floor" "" (.acons (.oper "div" (.num "7") (.num "2")) .anil))

theorem e2_parsed : ParsesTo "-(1 + 2) - floor(7 div 2)" e2 := ApiSem.parsesTo_eq (by decide +kernel)

theorem e2_numE : NumE e2 :=
  .arith "-" _ _ (by decide) (NumEG.neg (.group _ (.arith "+" _ _ (by decide) (.num _) (.num _))))
    (.floor "" _ (.arith "div" _ _ (by decide) (.num _) (.num _)))

/-- **`C08_arith_trees`** (`NumE`, `build = .ok`): `-3 - 3 = -6` on both sides -/
theorem C08_arith_trees_instance : ∃ (o : BOut), evalP (F := Int) d0 {} o.q (.node 1) = .ok (.num (-6)) := by
  obtain ⟨o, hb⟩ : ∃ o, build (fun _ => true) 100 true false e2 {} {} = .ok o := exists_ok (by decide +kernel)
  obtain ⟨x, h1, h2⟩ := Theorems.C08.C08_arith_trees (F := Int) d0 {} (fun _ => true) 100 true false e2_numE
    ctx {} {} o hb
  have e : Spec.eval (F := Int) d0 e2 ctx = .ok (.val (.num (-6)) none) := by decide +kernel
  rw [e] at h2; cases h2
  exact ⟨o, h1⟩

/-- **`C08_same_operation`** (`op ∈ arithOps`, two `NumE` operands, `build = .ok`) -/
example : ∃ (o : BOut) (f : Int → Int → Int) (x y : Int), opFn (F := Int) "div" = some f ∧
    evalP (F := Int) d0 {} o.q (.node 1) = .ok (.num (f x y)) := by
  obtain ⟨o, hb⟩ : ∃ o, build (fun _ => true) 100 true false (.oper "div" (.num "7") (.num "2")) {} {} = .ok o :=
    exists_ok (by decide +kernel)
  obtain ⟨f, x, y, h1, _, _, h4, _⟩ := Theorems.C08.C08_same_operation (F := Int) d0 {} (fun _ => true) 100
    true false ctx (op := "div") (by decide) (.num "7") (.num "2") {} {} o hb
  exact ⟨o, f, x, y, h1, h4⟩

/-- **`C08_string_of_number`** on `string(-(1 + 2) - floor(7 div 2))` -/
example : ∃ (o : BOut) (x : Int), evalP (F := Int) d0 {} o.q (.node 1) = .ok (.str (Spec.numToStr x)) := by
  obtain ⟨o, hb⟩ : ∃ o, build (fun _ => true) 100 true false (.call "string" "" (.acons e2 .anil)) {} {} = .ok o :=
    exists_ok (by decide +kernel)
  obtain ⟨x, _, h2, _⟩ := Theorems.C08.C08_string_of_number (F := Int) d0 {} (fun _ => true) 100 true false
    ctx e2_numE "" {} {} o hb
  exact ⟨o, x, h2⟩

/-- `asNumber_spec` / `arith_operands_spec` (operands that are not booleans) -/
example := Theorems.C08.asNumber_spec (F := Int) d0 (.nodes [.attr 2 0]) (by intro b h; cases h)
example := Theorems.C08.arith_operands_spec (F := Int) d0 (.nodes [.attr 2 0]) (.str " 2 ")
  (by intro b h; cases h) (by intro b h; cases h)

end XPathV.Theorems.NonVacuity.C08

section AxiomAudit
open XPathV.Theorems.NonVacuity.C08
end AxiomAudit

/-! ## C08 over filtered counts and sums: `C08_main_filtered_counts` -/
namespace XPathV.Theorems.NonVacuity.C08
open XPathV XPathV.Model XPathV.Theorems.NonVacuity XPathV.PosSem
open XPathV.PathSem XPathV.ArithSem XPathV.ArithSem2 XPathV.PredSem2

attribute [local instance] toyAlg

/-- `*[@x < @y]` (from `r`: only `b`, with `x="2" y="3"`) -/
def pLt : Ast :=
  .filter (.axis (chE "") .none) (.oper "<" (.axis (atA "x") .none) (.axis (atA "y") .none))

theorem pLt_flatF2 : FlatF2 pLt :=
  ⟨.filter _ _ (.axis _ _ .none (by decide))
      (.cmpPath _ _ _ (by decide) (.axis _ _ .none (by decide)) (.axis _ _ .none (by decide))),
    .filter _ _ (.axis _ _ (by decide) .none)⟩

/-- `count(*[@x < @y]) * 2 + 1` -/
def e3 : Ast := .oper "+" (.oper "*" (.call "count" "" (.acons pLt .anil)) (.num "2")) (.num "1")

theorem e3_parsed : ParsesTo "count(*[@x < @y]) * 2 + 1" e3 := ApiSem.parsesTo_eq (by decide +kernel)

/-- no oracle-side domain condition is needed: `e3` is in the document-independent `NumEC2` -/
theorem e3_numEC2 : NumEC2 e3 :=
  .arith "+" _ _ (by decide) (.arith "*" _ _ (by decide) (.count "" pLt pLt_flatF2) (.num _)) (.num _)

theorem e3_built : ∃ o, build (fun _ => true) 100 true false e3 {} {} = .ok o :=
  exists_ok (by decide +kernel)

theorem e3_spec : Spec.eval (F := Int) d0 e3 ctx = .ok (.val (.num 3) none) := by decide +kernel

/-- **`C08_main_filtered_counts`** at `count(*[@x < @y]) * 2 + 1`, context `⟨r, 2, 5⟩` of `d0`, every
hypothesis discharged (`WF`, `nsIface`, `HashInj`, `validRef`, `NumEF2` with `FlatF2` inside,
`build = .ok`): one child of `r` has `@x < @y`, both sides give `1 * 2 + 1 = 3` -/
theorem C08_main_filtered_counts_instance :
    ∃ (o : BOut), build (fun _ => true) 100 true false e3 {} {} = .ok o ∧
    evalP (F := Int) d0 {} o.q (.node 1) = .ok (.num 3) := by
  obtain ⟨o, hb⟩ := e3_built
  obtain ⟨x, h1, h2⟩ := Theorems.C08.C08_main_filtered_counts (F := Int) wf_d0 {} rfl hashInj_d0
    (fun _ => true) 100 (.node 1) (by decide) 2 5 (e3_numEC2.numEF2) {} {} o hb
  rw [e3_spec] at h2; cases h2
  exact ⟨o, hb, h1⟩

/-- `*[@x < @y]/@y` (from `r`: the `y` attribute of `b`, value `3`) -/
def pLtY : Ast := .axis (atA "y") pLt

theorem pLtY_flatF2 : FlatF2 pLtY :=
  ⟨.axis _ _ pLt_flatF2.1 (by decide), .axis _ _ (by decide) pLt_flatF2.2⟩

/-- `sum(*[@x < @y]/@y) - count(*[@x < @y])` -/
def e4 : Ast :=
  .oper "-" (.call "sum" "" (.acons pLtY .anil)) (.call "count" "" (.acons pLt .anil))

theorem e4_parsed : ParsesTo "sum(*[@x < @y]/@y) - count(*[@x < @y])" e4 :=
  ApiSem.parsesTo_eq (by decide +kernel)

/-- the oracle speaks for `sum(*[@x < @y]/@y)`: the one node is numeric -/
theorem sumLt_spec : Spec.eval (F := Int) d0 (.call "sum" "" (.acons pLtY .anil)) ctx =
    .ok (.val (.num 3) none) := by decide +kernel

theorem e4_numEF2 : NumEF2 d0 ctx Int e4 :=
  .arith "-" _ _ (by decide)
    (.sum "" pLtY ⟨pLtY_flatF2, sumDom_of_eval d0 ctx "" pLtY 3 none sumLt_spec⟩)
    (.count "" pLt pLt_flatF2)

theorem e4_spec : Spec.eval (F := Int) d0 e4 ctx = .ok (.val (.num 2) none) := by decide +kernel

/-- **`C08_main_filtered_counts`** with a filtered `sum` leaf (`FlatSum2` discharged): both sides
give `3 - 1 = 2` -/
theorem C08_main_filtered_sums_instance :
    ∃ (o : BOut), build (fun _ => true) 100 true false e4 {} {} = .ok o ∧
    evalP (F := Int) d0 {} o.q (.node 1) = .ok (.num 2) := by
  obtain ⟨o, hb⟩ : ∃ o, build (fun _ => true) 100 true false e4 {} {} = .ok o :=
    exists_ok (by decide +kernel)
  obtain ⟨x, h1, h2⟩ := Theorems.C08.C08_main_filtered_counts (F := Int) wf_d0 {} rfl hashInj_d0
    (fun _ => true) 100 (.node 1) (by decide) 2 5 e4_numEF2 {} {} o hb
  rw [e4_spec] at h2; cases h2
  exact ⟨o, hb, h1⟩

end XPathV.Theorems.NonVacuity.C08
