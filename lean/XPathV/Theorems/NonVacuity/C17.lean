import XPathV.Theorems.C17
import XPathV.Theorems.NonVacuity.Common
/-!
# Non-vacuity of the C17 theorems

Already instantiated in the library: `examples_rejected` (`Theorems/C17.lean:111`) and
`Lemmas/ParserTokens.lean:1479–1530` (`ex_cut_*`, `ex_unclosed_*`: `cut_after_opener_rejected`,
`cut_after_slash_rejected`, `cut_after_slash_rejected_name`, `unbalanced_rejected`);
`Lemmas/BuildRejects.lean:123–173` (`C17_unknown_axis_text_rejected`, the three malformed-name
theorems, and — through `compile_fails_after_rename_dec` / `compile_fails_rename_first_paren`, which
call them — `C17_function_renamed_rejected` and `C17_leading_function_renamed_rejected`).
Below: the remaining ones, and direct instances of the two renaming theorems.
-/
namespace XPathV.Theorems.NonVacuity.C17
open XPathV XPathV.Model XPathV.Theorems.NonVacuity
open XPathV.Lemmas.ParserTokens XPathV.Lemmas.ScanTail XPathV.BuildRejects

abbrev cfg0 : PCfg := defaultCfg none

/-! ## truncation, character level -/

/-- **`truncation_rejected`** (`'\x00' ∉ text`, `0 < cut`, the character before the cut is a delimiter):
`a[b and c]` cut after `[` -/
theorem truncation_rejected_instance (fuel : Nat) (cfg : PCfg) :
    ∃ e, parse fuel cfg ("a[b and c]".toList.take 2) = .error e :=
  Theorems.C17.truncation_rejected cfg "a[b and c]".toList (by decide) 2 (by decide)
    ⟨'[', by decide, by decide⟩ fuel
example : "a[b and c]".toList.take 2 = "a[".toList := by decide
/-- … the delimiter inside a string literal: `a['x(y']` cut after `(` -/
example (fuel : Nat) (cfg : PCfg) : ∃ e, parse fuel cfg ("a['x(y']".toList.take 5) = .error e :=
  Theorems.C17.truncation_rejected cfg "a['x(y']".toList (by decide) 5 (by decide) ⟨'(', by decide, by decide⟩ fuel

/-- `truncation_after_slashslash_rejected`, `truncation_after_quote_rejected`, `last_character_is_last_token` -/
example (fuel : Nat) (cfg : PCfg) : ∃ e, parse fuel cfg ("a//b".toList.take 3) = .error e :=
  Theorems.C17.truncation_after_slashslash_rejected cfg "a//b".toList (by decide) 1 (by decide) (by decide) fuel
example (fuel : Nat) (cfg : PCfg) : ∃ e, parse fuel cfg ("a='x'".toList.take 3) = .error e :=
  Theorems.C17.truncation_after_quote_rejected cfg "a='x'".toList (by decide) 2 (q := '\'') (.inr rfl) (by decide)
    (by decide) fuel
example := Theorems.C17.last_character_is_last_token (pre := "a/b".toList) (c := '[') (by decide) (by decide)

/-! ## token level -/

/-- `accepted_streams` (`parse = .ok a`) -/
example := Theorems.C17.accepted_streams (fuel := 400) (cfg := cfg0) (text := "a[b]/c".toList)
  (a := okVal (parse 400 cfg0 "a[b]/c".toList)) (eq_ok_okVal (by decide +kernel))

/-- **`bracket_deleted_rejected`**: `a[b]/c` is accepted; deleting its `]` gives `a[b/c` -/
theorem bracket_deleted_rejected_instance (fuel' : Nat) (cfg' : PCfg) :
    ∃ e, parse fuel' cfg' "a[b/c".toList = .error e :=
  Theorems.C17.bracket_deleted_rejected (fuel := 400) (cfg := cfg0) (text := "a[b]/c".toList)
    (a := okVal (parse 400 cfg0 "a[b]/c".toList)) (p := [.name, .lbracket, .name]) (q := [.slash, .name])
    (t := .rbracket) (eq_ok_okVal (by decide +kernel))
    (textToksFuel_sound (f := 10) (text := "a[b]/c") (by decide)) rfl fuel' cfg'
    (textToksFuel_sound (f := 10) (text := "a[b/c") (by decide))

/-- the scanner states of `a = 'abc` and `a = b:` at the `=` token -/
def sQ0 : Scan := okVal (Scan.init "a = 'abc".toList)
def sQ1 : Scan := okVal sQ0.nextItem
def sE0 : Scan := okVal (Scan.init "a = b:".toList)
def sE1 : Scan := okVal sE0.nextItem

/-- **`unclosed_quote_rejected`** (`Scan.init`, `Steps`, not at the end, next character a quote, no closing quote) -/
theorem unclosed_quote_rejected_instance (fuel : Nat) (cfg : PCfg) :
    ∃ e, parse fuel cfg "a = 'abc".toList = .error e :=
  Theorems.C17.unclosed_quote_rejected fuel cfg (s := sQ0) (s1 := sQ1) (u := [sQ0.typ])
    (eq_ok_okVal (by decide +kernel))
    (.cons (by decide +kernel) (eq_ok_okVal (by decide +kernel)) (.nil _))
    (by decide +kernel) (.inr (by decide +kernel)) (by decide +kernel)

/-- **`scan_error_rejected`** (`herr : s1.nextItem = .error e0`): the malformed name `b:` after `a =` -/
theorem scan_error_rejected_instance (fuel : Nat) (cfg : PCfg) :
    ∃ e, parse fuel cfg "a = b:".toList = .error e :=
  Theorems.C17.scan_error_rejected fuel cfg (s := sE0) (s1 := sE1) (u := [sE0.typ]) (e0 := .invalidQName)
    (eq_ok_okVal (by decide +kernel))
    (.cons (by decide +kernel) (eq_ok_okVal (by decide +kernel)) (.nil _))
    (by decide +kernel) (eq_error_of (by decide +kernel))

/-- **`operator_then_end_rejected`** (`hfind`, `h1`, `he`): the text ends after the operator word `and` -/
def stAnd : PState := ⟨okVal (Scan.init "and".toList), 1⟩
example (f : Nat) (cfg : PCfg) (rest : List Stage) (opnd : Ast) :
    ∃ e, tierLoop f cfg ["and"] rest opnd stAnd = .error e :=
  Theorems.C17.operator_then_end_rejected f cfg rest opnd (st := stAnd) (st1 := okVal stAnd.next) (op := "and")
    (by decide +kernel) (eq_ok_okVal (by decide +kernel)) (by decide +kernel)

/-! ## second half: bad trees -/

def tBad : String := "a[conta(., 'x')]/b"
def astBad : Ast := okVal (parse (fuelFor tBad.toList) cfg0 tBad.toList)
theorem parsedBad : parse (fuelFor tBad.toList) cfg0 tBad.toList = .ok astBad := eq_ok_okVal (by decide +kernel)

/-- **`C17_compile_rejects_bad_tree`** (`parse = .ok t`, `BadNode t`) and `C17_builder_rejects_bad_tree` -/
theorem C17_compile_rejects_bad_tree_instance (cc : CompileCfg) :
    ∃ e, compile cc none tBad.toList = .error (.build e) :=
  Theorems.C17.C17_compile_rejects_bad_tree cc none tBad.toList astBad parsedBad (by decide +kernel)
example (rx : RegexOk) (lim : Nat) (sn sd : Bool) (st : BState) : ∃ e, build rx lim sn sd astBad {} st = .error e :=
  Theorems.C17.C17_builder_rejects_bad_tree rx lim sn sd astBad {} st (by decide +kernel)

/-- `C17_compiled_has_no_bad_node` (`compile = .ok p`) -/
example := Theorems.C17.C17_compiled_has_no_bad_node {} none "a[contains(., 'x')]/b".toList
  (okVal (compile {} none "a[contains(., 'x')]/b".toList)) (eq_ok_okVal (by decide +kernel))

/-- **`C17_missing_arguments_rejected`** (`Visits`, `fnArity g = some …`, too few arguments): `a[substring('x')]` -/
def astMiss : Ast := .filter (.axis (chE "a") .none) (.call "substring" "" (.acons (.str "x") .anil))
theorem C17_missing_arguments_rejected_instance (cc : CompileCfg) :
    ∃ e, compile cc none "a[substring('x')]".toList = .error (.build e) :=
  Theorems.C17.C17_missing_arguments_rejected cc none "a[substring('x')]".toList astMiss
    (ApiSem.parsesTo_eq (by decide +kernel)) (g := "substring") (pfx := "") (args := .acons (.str "x") .anil)
    (mn := 2) (mx := none) (idx := false) (.filter_cond (.here _ _)) (by decide) (by decide)

/-- **`C17_unknown_axis_rejected`** (`Visits`, `a.axis ∉ axisTable`): `a/foo::b[c]` -/
def astAxis : Ast :=
  .filter (.axis ⟨"foo", .elem, "", "b", "", false, ""⟩ (.axis (chE "a") .none)) (.axis (chE "c") .none)
theorem C17_unknown_axis_rejected_instance (cc : CompileCfg) :
    ∃ e, compile cc none "a/foo::b[c]".toList = .error (.build e) :=
  Theorems.C17.C17_unknown_axis_rejected cc none "a/foo::b[c]".toList astAxis
    (ApiSem.parsesTo_eq (by decide +kernel)) (a := ⟨"foo", .elem, "", "b", "", false, ""⟩)
    (inp := .axis (chE "a") .none) (.filter_in (.here _ _)) (by decide)

/-- **`C17_function_renamed_rejected`**, directly (the `Before` relation between the two scanner runs
comes from the checker `renamedAt`): `count` ↦ `cnt` at token 4 of `1 + 2 * count(//a)` -/
theorem C17_function_renamed_rejected_instance (cc : CompileCfg) :
    ∃ e, compile cc none "1 + 2 * cnt(//a)".toList = .error e := by
  obtain ⟨s, s', hi, hi', hB⟩ := renamedAt_sound (g := "count") (g' := "cnt") (k := 4)
    (text := "1 + 2 * count(//a)".toList) (text' := "1 + 2 * cnt(//a)".toList) (by decide +kernel)
  exact Theorems.C17.C17_function_renamed_rejected cc none (g := "count") (g' := "cnt") (by decide) (by decide)
    (by decide) (by rw [opWords_stages]; decide) (by rw [opWords_stages]; decide) (by decide) hi hi' hB
    (t := okVal (parse (fuelFor "1 + 2 * count(//a)".toList) cfg0 "1 + 2 * count(//a)".toList))
    (eq_ok_okVal (by decide +kernel)) (by decide +kernel)

/-- **`C17_leading_function_renamed_rejected`**, directly, with blanks before the parenthesis (`hstop`, `hpost`,
`acceptedTight`): `contains (a,'x') and b` ↦ `conta (a,'x') and b` -/
theorem C17_leading_function_renamed_rejected_instance (cc : CompileCfg) :
    ∃ e, compile cc none ("conta".toList ++ " (a,'x') and b".toList) = .error e :=
  Theorems.C17.C17_leading_function_renamed_rejected cc none "contains".toList "conta".toList
    " (a,'x') and b".toList "a,'x') and b".toList (by decide +kernel) (by decide +kernel)
    (by intro c cs h; cases h; exact ⟨by decide, by decide⟩) (by decide +kernel) (by decide) (by decide) (by decide)
    (by rw [opWords_stages]; decide) (by rw [opWords_stages]; decide) (by decide) (by decide +kernel)

/-! ## the local lemmas of `Lemmas/C17Base.lean` -/

def stRb : PState := ⟨okVal (Scan.init "]".toList), 1⟩
example := Theorems.C17.skipItem_mismatch stRb .lbracket (by decide +kernel)
example := Theorems.C17.operand_missing cfg0 .none "child" .elem stRb (.inr (.inr (.inl (by decide +kernel))))
example := Theorems.C17.unclosed_string '\'' "abc".toList (by decide)
example := Theorems.C17.unknown_function (fun _ => true) 100 true false "conta" "" .anil {} {} (by decide) (by decide)

/-- `unclosed_predicate` (`h1`, `h2`, `h3`): `[b` followed by the end of the text -/
def stLb : PState := ⟨okVal (Scan.init "[b".toList), 1⟩
def stLb1 : PState := okVal (stLb.skipItem .lbracket)
example : parsePredicate 51 cfg0 stLb = .error .invalidToken :=
  Theorems.C17.unclosed_predicate 50 cfg0 stLb stLb1 _ _ (eq_ok_okVal (by decide +kernel))
    (eq_ok_pair (by decide +kernel)) (by decide +kernel)

/-- `trailing_text_rejected` (`hs`, `hp`, `he`): `a b` -/
example : parse 100 cfg0 "a b".toList = .error .invalidToken :=
  Theorems.C17.trailing_text_rejected 100 cfg0 "a b".toList (okVal (Scan.init "a b".toList)) _ _
    (eq_ok_okVal (by decide +kernel)) (eq_ok_pair (by decide +kernel)) (by decide +kernel)

end XPathV.Theorems.NonVacuity.C17

section AxiomAudit
open XPathV.Theorems.NonVacuity.C17
end AxiomAudit
