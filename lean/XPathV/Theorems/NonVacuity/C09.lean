import XPathV.Theorems.C09
import XPathV.Theorems.NonVacuity.Common
/-!
# Non-vacuity of the C09 theorems

`C09_nested_total` already discharges `build = .ok` for *every* member of `StrE` (given a depth limit
≥ the nesting height), so `C09_nested` is non-vacuous on the whole fragment.  Below: one concrete
nested expression parsed from text, with its value, and instances of the side conditions `hp`
(`Plain`), `h2`, `hn`/`RestOk`.
-/
namespace XPathV.Theorems.NonVacuity.C09
open XPathV XPathV.Model XPathV.Theorems.NonVacuity XPathV.PosSem XPathV.StringFns

attribute [local instance] toyAlg

def tE : String :=
  "concat(substring-before('a-b', '-'), translate(normalize-space(' X  y '), 'Xy', 'xY'), lower-case(substring('HELLO', 2, 3)), string(substring-after('k=v', '=')))"

def a1 : Ast := .call "substring-before" "" (.acons (.str "a-b") (.acons (.str "-") .anil))
def a2 : Ast := .call "translate" "" (.acons (.call "normalize-space" "" (.acons (.str " X  y ") .anil))
  (.acons (.str "Xy") (.acons (.str "xY") .anil)))
def a3 : Ast := .call "lower-case" "" (.acons
  (.call "substring" "" (.acons (.str "HELLO") (.acons (.num "2") (.acons (.num "3") .anil)))) .anil)
def a4 : Ast := .call "string" "" (.acons
  (.call "substring-after" "" (.acons (.str "k=v") (.acons (.str "=") .anil))) .anil)
def e : Ast := .call "concat" "" (Ast.ofArgList [a1, a2, a3, a4])

theorem e_parsed : ParsesTo tE e := ApiSem.parsesTo_eq (by decide +kernel)

theorem plain_lit : Plain " X  y " := by
  intro c hc
  have : c ∈ [' ', 'X', ' ', ' ', 'y', ' '] := hc
  simp only [List.mem_cons, List.not_mem_nil, or_false] at this
  rcases this with rfl | rfl | rfl | rfl | rfl | rfl <;> decide

theorem e_strE : StrE e :=
  .concat "" _ (by decide) (by
    intro a ha
    simp only [List.mem_cons, List.not_mem_nil, or_false] at ha
    rcases ha with rfl | rfl | rfl | rfl
    · exact .substringBefore _ _ _ (.lit _) (.lit _)
    · exact .translate _ _ _ _ (.normalizeSpace _ _ (.lit _) plain_lit) (.lit _) (.lit _)
    · exact .lowerCase _ _ (.substring3 _ _ _ _ (.lit _))
    · exact .string _ _ (.substringAfter _ _ _ (.lit _) (.lit _)))

/-- **`C09_nested`** (`StrE`, `build = .ok`) with the value on both sides -/
theorem C09_nested_instance : ∃ (o : BOut), build (fun _ => true) 100 true false e {} {} = .ok o ∧
    evalP (F := Int) d0 {} o.q (.node 0) = .ok (.str "ax Yllov") ∧
    evaluate (F := Int) d0 {} o.q (.node 0) = .ok (.str "ax Yllov") := by
  obtain ⟨o, hb⟩ : ∃ o, build (fun _ => true) 100 true false e {} {} = .ok o := exists_ok (by decide +kernel)
  obtain ⟨s, h1, h2, _, h4⟩ := Theorems.C09.C09_nested (F := Int) e e_strE d0 {} (.node 0) (fun _ => true)
    100 true false {} o hb
  have ev : Spec.evalTop (F := Int) d0 e (.node 0) = .ok (.str "ax Yllov") := by decide +kernel
  rw [ev] at h4; cases h4
  exact ⟨o, hb, h1, h2⟩

/-- **`C09_nested_total`** (`StrE`, `st.depth + ht e ≤ limit`): nesting height 4, limit 4 -/
example : ∃ (o : BOut) (s : String), build (fun _ => true) 4 true false e {} {} = .ok o ∧
    evaluate (F := Int) d0 {} o.q (.node 0) = .ok (.str s) ∧ Spec.evalTop (F := Int) d0 e (.node 0) = .ok (.str s) :=
  Theorems.C09.C09_nested_total (F := Int) e e_strE d0 {} (.node 0) (fun _ => true) 4 true false {} (by decide)

/-- **`C09_each_function`** (`h2 : 2 ≤ ss.length`, `hp : Plain a`) -/
example := Theorems.C09.C09_each_function (F := Int) d0 {} .nil (.node 0) none ⟨.node 0, 1, 1⟩ " X  y " "y" "s"
  2 3 ["p", "q", "r"] (by decide) [.node 2, .node 4] plain_lit (.nodes [.node 2]) (.nodes [.node 3, .node 5])
  (.nodes _) (.nodes _)

/-- **`C09_nodeset_argument`** (`name ∈ firstArgFns`, `RestOk`): `substring(//a, 1, 2)` with a
two-node list -/
example : callFn (F := Int) d0 {} "substring" .nil (.node 0)
      [.ok (.nodes [.node 2, .node 6]), .ok (.num 0), .ok (.num 1)] none
    = callFn d0 {} "substring" .nil (.node 0)
      [.ok (.str (Spec.toStr (F := Int) d0 (.nodes [.node 2, .node 6]))), .ok (.num 0), .ok (.num 1)] none :=
  (Theorems.C09.C09_nodeset_argument (F := Int) d0 {} .nil (.node 0) none "substring" (by decide)
    [.node 2, .node 6] [.ok (.num 0), .ok (.num 1)] (by
      unfold RestOk; rw [if_pos rfl]; exact .inr ⟨0, 1, rfl⟩)).1
example : Spec.toStr (F := Int) d0 (.nodes [.node 2, .node 6]) = "t" := by decide +kernel

/-- **`C09_nodeset_argument`**, second position (`name ∈ secondArgFns`): `contains('xtx', //a)` -/
example : callFn (F := Int) d0 {} "contains" .nil (.node 0)
      [.ok (.str "xtx"), .ok (.nodes [.node 2, .node 6])] none
    = callFn d0 {} "contains" .nil (.node 0)
      [.ok (.str "xtx"), .ok (.str (Spec.toStr (F := Int) d0 (.nodes [.node 2, .node 6])))] none :=
  (Theorems.C09.C09_nodeset_argument (F := Int) d0 {} .nil (.node 0) none "contains" (by decide)
    [] [] (by unfold RestOk; simp)).2 (by decide) _ _ _

/-- **`C09_string_tests_either_position`**: `contains(//b, //a)` = `contains('u', 't')` = false and
`ends-with('xt', //a)` = true, on both sides (both were errors before the repair) -/
example : callFn (F := Int) d0 {} "contains" .nil (.node 0)
      [.ok (.nodes [.node 4]), .ok (.nodes [.node 2, .node 6])] none = .ok (.bool false) ∧
    Spec.callFn (F := Int) d0 ⟨.node 0, 1, 1⟩ "contains" [.nodes [.node 4], .nodes [.node 2, .node 6]]
      = .ok (.bool false) := by
  have h := Theorems.C09.C09_string_tests_either_position (F := Int) d0 {} .nil (.node 0) none
    ⟨.node 0, 1, 1⟩ "contains" (by decide) (.nodes [.node 4]) (.nodes [.node 2, .node 6]) (.nodes _) (.nodes _)
  have e : strTestOf "contains" (Spec.toStr (F := Int) d0 (.nodes [.node 4]))
      (Spec.toStr (F := Int) d0 (.nodes [.node 2, .node 6])) = false := by decide +kernel
  rw [e] at h
  exact h
example : callFn (F := Int) d0 {} "ends-with" .nil (.node 0)
      [.ok (.str "xt"), .ok (.nodes [.node 2, .node 6])] none = .ok (.bool true) := by
  have h := (Theorems.C09.C09_string_tests_either_position (F := Int) d0 {} .nil (.node 0) none
    ⟨.node 0, 1, 1⟩ "ends-with" (by decide) (.str "xt") (.nodes [.node 2, .node 6]) (.str _) (.nodes _)).1
  have e : strTestOf "ends-with" (Spec.toStr (F := Int) d0 (.str "xt"))
      (Spec.toStr (F := Int) d0 (.nodes [.node 2, .node 6])) = true := by decide +kernel
  rw [e] at h
  exact h

/-- **`C09_string_tests_raise`** (`hw`): `contains('a', 0)` and `contains(0, 'a')` still raise -/
example := Theorems.C09.C09_string_tests_raise (F := Int) d0 {} .nil (.node 0) none "contains" (by decide)
  (.str "a") (.num 0) (.inl ⟨0, rfl⟩)

/-- **`C09_normalize_space`** -/
example : normalizeSpaceM " X  y " = Spec.fnNormalizeSpace " X  y " :=
  Theorems.C09.C09_normalize_space _ plain_lit

end XPathV.Theorems.NonVacuity.C09

section AxiomAudit
open XPathV.Theorems.NonVacuity.C09
end AxiomAudit

/-! ## `C09_nested_with_paths`: node-set leaves (flat filtered paths) -/
namespace XPathV.Theorems.NonVacuity.C09
open XPathV XPathV.Model XPathV.Theorems.NonVacuity XPathV.PosSem XPathV.StringFns XPathV.StringFns2
open XPathV.ArithSem2 (FlatF2)

attribute [local instance] toyAlg

def tP : String := "concat(substring-before(*[@x < @y]/@y, '0'), '-', normalize-space(a))"

private def chA (n : String) : AxisInfo := ⟨"child", .elem, "", n, "", false, ""⟩
private def atA (n : String) : AxisInfo := ⟨"attribute", .attr, "", n, "", false, ""⟩

/-- `*[@x < @y]/@y` -/
def pY : Ast := .axis (atA "y") (.filter (.axis (chA "") .none) (.oper "<" (.axis (atA "x") .none) (.axis (atA "y") .none)))
/-- `a` -/
def pA : Ast := .axis (chA "a") .none

def eP : Ast := .call "concat" "" (Ast.ofArgList
  [.call "substring-before" "" (.acons pY (.acons (.str "0") .anil)), .str "-",
   .call "normalize-space" "" (.acons pA .anil)])

theorem eP_parsed : ParsesTo tP eP := ApiSem.parsesTo_eq (by decide +kernel)

theorem pY_flatF2 : FlatF2 pY :=
  ⟨.axis _ _ (.filter _ _ (.axis _ _ .none (by decide))
      (.cmpPath _ _ _ (by decide) (.axis _ _ .none (by decide)) (.axis _ _ .none (by decide)))) (by decide),
    .axis _ _ (by decide) (.filter _ _ (.axis _ _ (by decide) .none))⟩

theorem pA_flatF2 : FlatF2 pA := ⟨.axis _ _ .none (by decide), .axis _ _ (by decide) .none⟩

/-- the side condition of `normalize-space(a)` at `r`: the oracle reads `a` as `"t"` -/
theorem pA_normDom : NormDom d0 ⟨.node 1, 1, 1⟩ Int pA := by
  intro v g h
  have ev : (match Spec.eval (F := Int) d0 pA ⟨.node 1, 1, 1⟩ with
      | .ok r => Spec.toStr d0 r.value | .error _ => "?") = "t" := by decide +kernel
  rw [h] at ev
  have e2 : Spec.toStr d0 v = "t" := ev
  rw [e2]
  intro ch hch
  have : ch ∈ ['t'] := hch
  simp only [List.mem_cons, List.not_mem_nil, or_false] at this
  subst this; decide

theorem eP_strE2 : StrE2 d0 ⟨.node 1, 1, 1⟩ Int eP :=
  .concat "" _ (by decide) (by
    intro a ha
    simp only [List.mem_cons, List.not_mem_nil, or_false] at ha
    rcases ha with rfl | rfl | rfl
    · exact .arg _ (.substringBefore _ _ _ (.path _ pY_flatF2) (.arg _ (.lit _)))
    · exact .arg _ (.lit _)
    · exact .arg _ (.normalizeSpace _ _ (.path _ pA_flatF2) pA_normDom))

/-- **`C09_nested_with_paths`** at `concat(substring-before(*[@x < @y]/@y, '0'), '-', normalize-space(a))`,
context `r` of `d0`, every hypothesis discharged (`WF`, `nsIface`, `HashInj`, `validRef`, `StrE2` with
`FlatF2` and `NormDom` inside, `build = .ok`): `*[@x < @y]/@y` is `b/@y = "3"`, `a` reads as the
string-value `"t"` of the first `a`; both sides give `"-t"` -/
theorem C09_nested_with_paths_instance :
    ∃ (o : BOut), build (fun _ => true) 100 true false eP {} {} = .ok o ∧
    evalP (F := Int) d0 {} o.q (.node 1) = .ok (.str "-t") ∧
    evaluate (F := Int) d0 {} o.q (.node 1) = .ok (.str "-t") := by
  obtain ⟨o, hb⟩ : ∃ o, build (fun _ => true) 100 true false eP {} {} = .ok o := exists_ok (by decide +kernel)
  obtain ⟨s, h1, h2, _, h4⟩ := Theorems.C09.C09_nested_with_paths (F := Int) wf_d0 {} rfl hashInj_d0
    (fun _ => true) 100 (.node 1) (by decide) eP_strE2 {} o hb
  have ev : Spec.evalTop (F := Int) d0 eP (.node 1) = .ok (.str "-t") := by decide +kernel
  rw [ev] at h4; cases h4
  exact ⟨o, hb, h1, h2⟩

/-- the embedding `StrE → StrE2` at the literal-only example above -/
example : StrE2 d0 ⟨.node 0, 1, 1⟩ Int e := Theorems.C09.C09_strE_embeds d0 _ e_strE

end XPathV.Theorems.NonVacuity.C09
