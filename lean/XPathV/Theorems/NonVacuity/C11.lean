import XPathV.Theorems.C11
import XPathV.Theorems.NonVacuity.Common
/-!
# Non-vacuity of the C11 theorems
-/
namespace XPathV.Theorems.NonVacuity.C11
open XPathV XPathV.Model XPathV.Theorems.NonVacuity XPathV.PosSem
open XPathV.PathSem XPathV.PredSem XPathV.UnionSem

attribute [local instance] toyAlg

def dosRoot : Ast := .axis dosAll (.root "//")
/-- `//a` = `{a[1], a[2]}`, `/r/*[@x]` = `{a[1], b}`, `//b` = `{b}`: overlapping operands -/
def pA : Ast := .axis (chE "a") dosRoot
def pX : Ast := .filter (.axis (chE "") (.axis (chE "r") (.root "/"))) (.axis (atA "x") .none)
def pB : Ast := .axis (chE "b") dosRoot

theorem pA_frag : Frag true pA := .axis _ _ (.axis _ _ (.root _) (by decide)) (by decide)
theorem pB_frag : Frag true pB := .axis _ _ (.axis _ _ (.root _) (by decide)) (by decide)
theorem pX_frag : Frag true pX :=
  .filter _ _ (.axis _ _ (.axis _ _ (.root _) (by decide)) (by decide)) (.exist _ (.axis _ _ .none (by decide)))

theorem union_parsed : ParsesTo "//a | /r/*[@x]" (.oper "|" pA pX) := ApiSem.parsesTo_eq (by decide +kernel)
theorem nary_parsed : ParsesTo "//a | //b | /r/*[@x]" (unionOf pA [pB, pX]) :=
  ApiSem.parsesTo_eq (by decide +kernel)

/-- **`C11_main`** on `//a | /r/*[@x]` (the operands share `a[1]`): all hypotheses discharged; the
result is `{a[1], b, a[2]}`, each once -/
theorem C11_main_instance : ∃ (o : BOut), ∃ out,
    sel (F := Int) d0 {} o.q (.node 0) = .ok out ∧ (refs out).Nodup ∧
    ∀ x, x ∈ refs out ↔ x ∈ [Ref.node 2, .node 4, .node 6] := by
  obtain ⟨o, hb⟩ : ∃ o, build (fun _ => true) 100 true false (.oper "|" pA pX) {} {} = .ok o :=
    exists_ok (by decide +kernel)
  obtain ⟨out, nsA, gA, nsB, gB, nsU, h1, h2, _, _, _, h6, _, _, h9⟩ :=
    Theorems.C11.C11_main (F := Int) wf_d0 {} rfl hashInj_d0 (fun _ => true) 100 pA pX pA_frag pX_frag {} {}
      o hb (.node 0) (by decide)
  have e := value_of_eval h6 (v' := .nodes [.node 2, .node 4, .node 6]) (by decide +kernel)
  cases e
  exact ⟨o, out, h1, h2, h9⟩

/-- **`C11_nary`** on `//a | //b | /r/*[@x]` -/
theorem C11_nary_instance : ∃ (o : BOut), ∃ out,
    sel (F := Int) d0 {} o.q (.node 0) = .ok out ∧ (refs out).Nodup ∧
    ∀ x, x ∈ refs out ↔ ∃ q ∈ [pA, pB, pX], x ∈ nodesAt d0 Int q (.node 0) := by
  obtain ⟨o, hb⟩ : ∃ o, build (fun _ => true) 100 true false (unionOf pA [pB, pX]) {} {} = .ok o :=
    exists_ok (by decide +kernel)
  obtain ⟨out, ns, g, h1, h2, _, _, h5, _⟩ :=
    Theorems.C11.C11_nary (F := Int) wf_d0 {} rfl hashInj_d0 (fun _ => true) 100 pA [pB, pX] pA_frag
      (by
        intro q hq; simp only [List.mem_cons, List.not_mem_nil, or_false] at hq
        rcases hq with rfl | rfl
        · exact pB_frag
        · exact pX_frag) (by simp) {} o hb (.node 0) (by decide)
  exact ⟨o, out, h1, h2, h5⟩
example : Spec.evalTop (F := Int) d0 (unionOf pA [pB, pX]) (.node 0) = .ok (.nodes [.node 2, .node 4, .node 6]) := by
  decide +kernel

/-! ## the sequence form `/r/(a, b[@y])` -/

def pR : Ast := .axis (chE "r") (.root "/")
def sA : SeqStep := (chE "a", [])
def sB : SeqStep := (chE "b", [.axis (atA "y") .none])

theorem seq_parsed : ParsesTo "/r/(a, b[@y])" (seqForm pR sA [sB]) := ApiSem.parsesTo_eq (by decide +kernel)

/-- **`C11_sequence`** (`Frag`, `StepOK`, `build = .ok`, …) -/
theorem C11_sequence_instance : ∃ (o : BOut), ∃ out,
    sel (F := Int) d0 {} o.q (.node 0) = .ok out ∧ (refs out).Nodup ∧
    ∀ x, x ∈ refs out ↔ x ∈ [Ref.node 2, .node 4, .node 6] := by
  obtain ⟨o, hb⟩ : ∃ o, build (fun _ => true) 100 true false (seqForm pR sA [sB]) {} {} = .ok o :=
    exists_ok (by decide +kernel)
  obtain ⟨out, ns, g, h1, h2, h3, _, h5⟩ :=
    Theorems.C11.C11_sequence (F := Int) wf_d0 {} rfl hashInj_d0 (fun _ => true) 100 pR
      (.axis _ _ (.root _) (by decide)) sA [sB] ⟨by decide, by intro b hb; cases hb⟩
      (by
        intro t ht; simp only [List.mem_cons, List.not_mem_nil, or_false] at ht; subst ht
        refine ⟨by decide, ?_⟩
        intro b hb; simp only [sB, List.mem_cons, List.not_mem_nil, or_false] at hb; subst hb
        exact .exist _ (.axis _ _ .none (by decide))) {} o hb (.node 0) (by decide)
  have e := value_of_eval h2 (v' := .nodes [.node 2, .node 4, .node 6]) (by decide +kernel)
  cases e
  exact ⟨o, out, h1, (h5 (by simp)).1, h3⟩

/-! ## the parser side: `seqLoop_is_seqForm` (`SeqRun`), `sequence_is_union` -/

abbrev cfg0 : PCfg := defaultCfg none
/-- the state at the comma of `, b[@y])` (as after `/r/(a`) -/
def stComma : PState := ⟨okVal (Scan.init ", b[@y])".toList), 1⟩
def stAfterComma : PState := okVal stComma.next
theorem next_comma : stComma.next = .ok stAfterComma := eq_ok_okVal (by decide +kernel)
theorem step_b : parseStep 50 cfg0 pR stAfterComma = .ok (stepOn pR sB, (okVal (parseStep 50 cfg0 pR stAfterComma)).2) := by
  have h := eq_ok_pair (r := parseStep 50 cfg0 pR stAfterComma) (by decide +kernel)
  have e : (okVal (parseStep 50 cfg0 pR stAfterComma)).1 = stepOn pR sB := by decide +kernel
  rw [e] at h; exact h

theorem seqRun : SeqRun cfg0 pR 51 stComma [sB] (okVal (parseStep 50 cfg0 pR stAfterComma)).2 :=
  .more 50 stComma stAfterComma _ _ sB [] (by decide +kernel) next_comma step_b
    (.done 49 _ (by decide +kernel))

/-- **`seqLoop_is_seqForm`** -/
example : seqLoop 51 cfg0 pR (stepOn pR sA) stComma =
    .ok (seqForm pR sA [sB], (okVal (parseStep 50 cfg0 pR stAfterComma)).2) :=
  Theorems.C11.seqLoop_is_seqForm cfg0 pR 51 stComma _ sA [sB] seqRun

/-- `sequence_is_union` (`hc`, `hn`, `h2`) -/
example := Theorems.C11.sequence_is_union 50 cfg0 pR (stepOn pR sA) _ stComma stAfterComma _
  (by decide +kernel) next_comma step_b

/-! ## plan level: `C11_union` -/

def planA : Plan := .descendant (chE "a") false .absolute
def planX : Plan := .filter (.child (chE "") (.child (chE "r") .absolute)) (.attr (atA "x") .context)

/-- **`C11_union`** (`ha`, `hb`, and `hinj` — collision-freeness on the four nodes involved, from
`hashInj_d0`) -/
theorem C11_union_instance : ∃ out, sel (F := Int) d0 {} (.union planA planX) (.node 0) = .ok out ∧
    (∀ x, x ∈ out.map (·.r) ↔ x ∈ [Ref.node 2, .node 6] ∨ x ∈ [Ref.node 2, .node 4]) ∧
    (out.map (·.r)).Nodup :=
  Theorems.C11.C11_union (F := Int) d0 {} planA planX (.node 0)
    [⟨.node 2, 1, 2⟩, ⟨.node 6, 2, 2⟩] [⟨.node 2, 1, 0⟩, ⟨.node 4, 2, 0⟩]
    (by simp only [planA]; sel_decide) (by simp only [planX]; sel_decide)
    (by
      intro x hx y hy
      have vx : validRef d0 x = true := by
        simp only [List.map_append, List.map_cons, List.map_nil, List.cons_append, List.nil_append,
          List.mem_cons, List.not_mem_nil, or_false] at hx
        rcases hx with rfl | rfl | rfl | rfl <;> decide
      have vy : validRef d0 y = true := by
        simp only [List.map_append, List.map_cons, List.map_nil, List.cons_append, List.nil_append,
          List.mem_cons, List.not_mem_nil, or_false] at hy
        rcases hy with rfl | rfl | rfl | rfl <;> decide
      exact hashInj_d0 x y vx vy)

/-! ## `key_injective`: the attribute-name side conditions hold for `d0` -/

def attrNamesOKb (d : Doc) : Bool :=
  (List.range d.length).all fun i =>
    (List.range (recAt d i).attrs.length).all fun k₁ =>
      (attrAt d i k₁).name != "" &&
      (List.range (recAt d i).attrs.length).all fun k₂ =>
        !((attrAt d i k₁).pfx == (attrAt d i k₂).pfx && (attrAt d i k₁).name == (attrAt d i k₂).name) || k₁ == k₂

theorem attrNames_of_b {d : Doc} (h : attrNamesOKb d = true) : AttrNamesDistinct d ∧ AttrNamesNonEmpty d := by
  simp only [attrNamesOKb, List.all_eq_true, List.mem_range, Bool.and_eq_true, bne_iff_ne, ne_eq,
    Bool.or_eq_true, Bool.not_eq_true', Bool.and_eq_false_iff, beq_eq_false_iff_ne, beq_iff_eq] at h
  refine ⟨?_, ?_⟩
  · intro i k₁ k₂ hi h1 h2 hp hn
    rcases (h i hi k₁ h1).2 k₂ h2 with (h' | h') | h'
    · exact absurd hp h'
    · exact absurd hn h'
    · exact h'
  · intro i k hi hk
    exact (h i hi k hk).1

theorem d0_attrNames : AttrNamesDistinct d0 ∧ AttrNamesNonEmpty d0 := attrNames_of_b (by decide +kernel)

/-- **`key_injective`** (`WF`, `AttrNamesDistinct`, `AttrNamesNonEmpty`, validity): the two attributes
of `b` have different structured keys -/
example : keyStruct d0 (.attr 4 0) ≠ keyStruct d0 (.attr 4 1) := by
  intro h
  have := Theorems.C11.key_injective wf_d0 d0_attrNames.1 d0_attrNames.2 (.attr 4 0) (.attr 4 1)
    (by decide) (by decide) h
  cases this

/-! ## `hashInj_holds`: `HashInj d0` as an instance of the theorem (no evaluation of the keys) -/

/-- **`hashInj_holds`** on `d0` (`WF` by the executable check, `AttrTriplesDistinct` from the attribute
names being distinct) -/
theorem hashInj_d0' : PathSem.HashInj d0 {} := PathSem.hashInj_of_attrNames wf_d0 d0_attrNames.1 {}

/-- a document on which the side condition of `hashInj_holds` fails — `<r x="1" x="1"/>` (not XML, but a
`Doc`): well-formed as a tree, and the two attributes have the same key, so `HashInj` is false -/
def dDup : Doc :=
  [⟨0, .root, "", "", "", "", []⟩,
   ⟨1, .elem, "", "r", "", "", [⟨"", "x", "", "1"⟩, ⟨"", "x", "", "1"⟩]⟩]

theorem wf_dDup : WF dDup := wf_of_wfb (by decide)

theorem not_hashInj_dDup : ¬ PathSem.HashInj dDup {} := by
  intro h
  have := PathSem.attrTriples_of_hashInj h 1 0 1 (by decide) (by decide) (by decide) rfl rfl rfl
  cases this

/-- **`C11_main_unconditional`** on `//a | /r/*[@x]`: every hypothesis discharged, none of them about
keys or hashes -/
theorem C11_main_unconditional_instance : ∃ (o : BOut), ∃ out,
    sel (F := Int) d0 {} o.q (.node 0) = .ok out ∧ (refs out).Nodup ∧
    ∀ x, x ∈ refs out ↔ x ∈ [Ref.node 2, .node 4, .node 6] := by
  obtain ⟨o, hb⟩ : ∃ o, build (fun _ => true) 100 true false (.oper "|" pA pX) {} {} = .ok o :=
    exists_ok (by decide +kernel)
  obtain ⟨out, nsA, gA, nsB, gB, nsU, h1, h2, _, _, _, h6, _, _, h9⟩ :=
    Theorems.C11.C11_main_unconditional (F := Int) wf_d0 {} rfl d0_attrNames.1.triples (fun _ => true) 100
      pA pX pA_frag pX_frag {} {} o hb (.node 0) (by decide)
  have e := value_of_eval h6 (v' := .nodes [.node 2, .node 4, .node 6]) (by decide +kernel)
  cases e
  exact ⟨o, out, h1, h2, h9⟩

end XPathV.Theorems.NonVacuity.C11

section AxiomAudit
open XPathV.Theorems.NonVacuity.C11
end AxiomAudit

/-! ## the extended fragment: operands in `Frag2` that are not in `Frag` -/
namespace XPathV.Theorems.NonVacuity.C11
open XPathV XPathV.Model XPathV.Theorems.NonVacuity XPathV.PosSem
open XPathV.PathSem XPathV.PredSem XPathV.PredSem2 XPathV.UnionSem XPathV.UnionSem2

attribute [local instance] toyAlg

def rStar : Ast := .axis (chE "") (.axis (chE "r") (.root "/"))
/-- `[@x != @y]`: a path compared with a path -/
def bCmp : Ast := .oper "!=" (.axis (atA "x") .none) (.axis (atA "y") .none)
/-- `[count(@x) = 1]` -/
def bCount : Ast := .oper "=" (.call "count" "" (.acons (.axis (atA "x") .none) .anil)) (.num "1")
/-- `/r/*[@x != @y]` = `{b}`, `/r/*[count(@x) = 1]` = `{a[1], b}`: overlapping operands, neither in `Frag` -/
def pC : Ast := .filter rStar bCmp
def pN : Ast := .filter rStar bCount

theorem rStar_frag2 : Frag2 true rStar := .axis _ _ (.axis _ _ (.root _) (by decide)) (by decide)
theorem bCmp_frag2 : Frag2 false bCmp :=
  .cmpPath _ _ _ (by decide) (.axis _ _ .none (by decide)) (.axis _ _ .none (by decide))
theorem bCount_frag2 : Frag2 false bCount :=
  .countR _ _ _ _ (by decide) (.axis _ _ .none (by decide)) (.axis _ _ (by decide) .none)
theorem pC_frag2 : Frag2 true pC := .filter _ _ rStar_frag2 bCmp_frag2
theorem pN_frag2 : Frag2 true pN := .filter _ _ rStar_frag2 bCount_frag2

/-- the predicates, hence the operands, are outside the fragment of the theorems above -/
theorem bCmp_not_frag : ¬ Frag false bCmp := by
  intro h
  generalize he : bCmp = e at h
  generalize hk : false = k at h
  cases h <;> simp [bCmp] at he hk
  rename_i hp; subst he; cases hp
theorem bCount_not_frag : ¬ Frag false bCount := by
  intro h
  generalize he : bCount = e at h
  generalize hk : false = k at h
  cases h <;> simp [bCount] at he hk
  · rename_i hp; subst he; cases hp
  · rename_i hp; obtain ⟨_, rfl, _⟩ := he; cases hp
theorem pC_not_frag : ¬ Frag true pC := by
  intro h; cases h with | filter _ _ _ hb => exact bCmp_not_frag hb
theorem pN_not_frag : ¬ Frag true pN := by
  intro h; cases h with | filter _ _ _ hb => exact bCount_not_frag hb

theorem union_full_parsed : ParsesTo "/r/*[@x != @y] | /r/*[count(@x) = 1]" (.oper "|" pC pN) :=
  ApiSem.parsesTo_eq (by decide +kernel)
theorem nary_full_parsed : ParsesTo "//a | /r/*[@x != @y] | /r/*[count(@x) = 1]" (unionOf pA [pC, pN]) :=
  ApiSem.parsesTo_eq (by decide +kernel)

/-- **`C11_main_full`** on `/r/*[@x != @y] | /r/*[count(@x) = 1]` (the operands share `b`): all
hypotheses discharged; the result is `{a[1], b}`, each once -/
theorem C11_main_full_instance : ∃ (o : BOut), ∃ out,
    sel (F := Int) d0 {} o.q (.node 0) = .ok out ∧ (refs out).Nodup ∧
    ∀ x, x ∈ refs out ↔ x ∈ [Ref.node 2, .node 4] := by
  obtain ⟨o, hb⟩ : ∃ o, build (fun _ => true) 100 true false (.oper "|" pC pN) {} {} = .ok o :=
    exists_ok (by decide +kernel)
  obtain ⟨out, nsA, gA, nsB, gB, nsU, h1, h2, _, _, _, h6, _, _, h9⟩ :=
    Theorems.C11.C11_main_full (F := Int) wf_d0 {} rfl hashInj_d0 (fun _ => true) 100 pC pN pC_frag2 pN_frag2
      {} {} o hb (.node 0) (by decide)
  have e := value_of_eval h6 (v' := .nodes [.node 2, .node 4]) (by decide +kernel)
  cases e
  exact ⟨o, out, h1, h2, h9⟩

/-- **`C11_main_full_unconditional`** on the same union: no hypothesis about keys or hashes -/
theorem C11_main_full_unconditional_instance : ∃ (o : BOut), ∃ out,
    sel (F := Int) d0 {} o.q (.node 0) = .ok out ∧ (refs out).Nodup ∧
    ∀ x, x ∈ refs out ↔ x ∈ [Ref.node 2, .node 4] := by
  obtain ⟨o, hb⟩ : ∃ o, build (fun _ => true) 100 true false (.oper "|" pC pN) {} {} = .ok o :=
    exists_ok (by decide +kernel)
  obtain ⟨out, nsA, gA, nsB, gB, nsU, h1, h2, _, _, _, h6, _, _, h9⟩ :=
    Theorems.C11.C11_main_full_unconditional (F := Int) wf_d0 {} rfl d0_attrNames.1.triples (fun _ => true)
      100 pC pN pC_frag2 pN_frag2 {} {} o hb (.node 0) (by decide)
  have e := value_of_eval h6 (v' := .nodes [.node 2, .node 4]) (by decide +kernel)
  cases e
  exact ⟨o, out, h1, h2, h9⟩

/-- **`C11_nary_full`** on `//a | /r/*[@x != @y] | /r/*[count(@x) = 1]` -/
theorem C11_nary_full_instance : ∃ (o : BOut), ∃ out,
    sel (F := Int) d0 {} o.q (.node 0) = .ok out ∧ (refs out).Nodup ∧
    ∀ x, x ∈ refs out ↔ ∃ q ∈ [pA, pC, pN], x ∈ nodesAt d0 Int q (.node 0) := by
  obtain ⟨o, hb⟩ : ∃ o, build (fun _ => true) 100 true false (unionOf pA [pC, pN]) {} {} = .ok o :=
    exists_ok (by decide +kernel)
  obtain ⟨out, ns, g, h1, h2, _, _, h5, _⟩ :=
    Theorems.C11.C11_nary_full (F := Int) wf_d0 {} rfl hashInj_d0 (fun _ => true) 100 pA [pC, pN]
      (frag2_of_frag true pA pA_frag)
      (by
        intro q hq; simp only [List.mem_cons, List.not_mem_nil, or_false] at hq
        rcases hq with rfl | rfl
        · exact pC_frag2
        · exact pN_frag2) (by simp) {} o hb (.node 0) (by decide)
  exact ⟨o, out, h1, h2, h5⟩
example : Spec.evalTop (F := Int) d0 (unionOf pA [pC, pN]) (.node 0) = .ok (.nodes [.node 2, .node 4, .node 6]) := by
  decide +kernel

/-! the sequence form `/r/(a[count(@x) = 1], b[@x != @y])` -/

def sAN : SeqStep := (chE "a", [bCount])
def sBC : SeqStep := (chE "b", [bCmp])

theorem seq_full_parsed : ParsesTo "/r/(a[count(@x) = 1], b[@x != @y])" (seqForm pR sAN [sBC]) :=
  ApiSem.parsesTo_eq (by decide +kernel)

/-- **`C11_sequence_full`** (`Frag2`, `StepOK2`, `build = .ok`, …): the result is `{a[1], b}` -/
theorem C11_sequence_full_instance : ∃ (o : BOut), ∃ out,
    sel (F := Int) d0 {} o.q (.node 0) = .ok out ∧ (refs out).Nodup ∧
    ∀ x, x ∈ refs out ↔ x ∈ [Ref.node 2, .node 4] := by
  obtain ⟨o, hb⟩ : ∃ o, build (fun _ => true) 100 true false (seqForm pR sAN [sBC]) {} {} = .ok o :=
    exists_ok (by decide +kernel)
  obtain ⟨out, ns, g, h1, h2, h3, _, h5⟩ :=
    Theorems.C11.C11_sequence_full (F := Int) wf_d0 {} rfl hashInj_d0 (fun _ => true) 100 pR
      (.axis _ _ (.root _) (by decide)) sAN [sBC]
      ⟨by decide, by
        intro b hb; simp only [sAN, List.mem_cons, List.not_mem_nil, or_false] at hb; subst hb
        exact bCount_frag2⟩
      (by
        intro t ht; simp only [List.mem_cons, List.not_mem_nil, or_false] at ht; subst ht
        refine ⟨by decide, ?_⟩
        intro b hb; simp only [sBC, List.mem_cons, List.not_mem_nil, or_false] at hb; subst hb
        exact bCmp_frag2) {} o hb (.node 0) (by decide)
  have e := value_of_eval h2 (v' := .nodes [.node 2, .node 4]) (by decide +kernel)
  cases e
  exact ⟨o, out, h1, (h5 (by simp)).1, h3⟩

end XPathV.Theorems.NonVacuity.C11

/-! ## `C11_from_text`: from the expression text, through `compile` -/
namespace XPathV.Theorems.NonVacuity.C11
open XPathV XPathV.Model XPathV.Theorems.NonVacuity XPathV.PosSem
open XPathV.PathSem XPathV.PredSem XPathV.PredSem2 XPathV.UnionSem XPathV.UnionSem2

attribute [local instance] toyAlg

/-- `C11_from_text` at the text `/r/*[@x != @y] | /r/*[count(@x) = 1]` (`hparse` =
`union_full_parsed`, `hA`, `hB` with operands of `Frag2` outside `Frag`), the builder-error disjunct
refuted by running `compile`, then the second disjunct's inner hypotheses (`WF`, `nsIface`,
`HashInj`, `validRef`) on `d0` from the document node: `Select` on the compiled text yields
`{a[1], b}`, each once (the operands share `b`) -/
theorem C11_from_text_instance :
    ∃ p l, compile {} none "/r/*[@x != @y] | /r/*[count(@x) = 1]".toList = .ok p ∧
    selectAll (F := Int) d0 {} p (.node 0) = .ok l ∧ l.Nodup ∧
    ∀ x, x ∈ l ↔ x ∈ [Ref.node 2, .node 4] := by
  rcases Theorems.C11.C11_from_text (fun _ => true) none _ pC pN union_full_parsed pC_frag2 pN_frag2 with
    ⟨e, he⟩ | ⟨p, hp, h⟩
  · exact absurd he (by
      have : (compile {} none "/r/*[@x != @y] | /r/*[count(@x) = 1]".toList).isOk = true := by
        decide +kernel
      intro h'; rw [h'] at this; cases this)
  · obtain ⟨l, nsl, h1, h2, h3, h4⟩ := h Int d0 wf_d0 {} rfl hashInj_d0 (.node 0) (by decide)
    have e : Spec.evalTop (F := Int) d0 (.oper "|" pC pN) (.node 0) = .ok (.nodes [.node 2, .node 4]) := by
      decide +kernel
    rw [e] at h3; cases h3
    exact ⟨p, l, hp, h1, h2, h4⟩

/-- the `_unconditional` form at the same text: `AttrTriplesDistinct d0` instead of `HashInj` -/
theorem C11_from_text_unconditional_instance :
    ∃ p l, compile {} none "/r/*[@x != @y] | /r/*[count(@x) = 1]".toList = .ok p ∧
    selectAll (F := Int) d0 {} p (.node 0) = .ok l ∧ l.Nodup ∧
    ∀ x, x ∈ l ↔ x ∈ [Ref.node 2, .node 4] := by
  rcases Theorems.C11.C11_from_text_unconditional (fun _ => true) none _ pC pN union_full_parsed
      pC_frag2 pN_frag2 with ⟨e, he⟩ | ⟨p, hp, h⟩
  · exact absurd he (by
      have : (compile {} none "/r/*[@x != @y] | /r/*[count(@x) = 1]".toList).isOk = true := by
        decide +kernel
      intro h'; rw [h'] at this; cases this)
  · obtain ⟨l, nsl, h1, h2, h3, h4⟩ :=
      h Int d0 wf_d0 {} rfl d0_attrNames.1.triples (.node 0) (by decide)
    have e : Spec.evalTop (F := Int) d0 (.oper "|" pC pN) (.node 0) = .ok (.nodes [.node 2, .node 4]) := by
      decide +kernel
    rw [e] at h3; cases h3
    exact ⟨p, l, hp, h1, h2, h4⟩

/-- `C11_from_text_evaluate` at the same text: `Evaluate` returns the list `Select` yields -/
theorem C11_from_text_evaluate_instance :
    ∃ p l, compile {} none "/r/*[@x != @y] | /r/*[count(@x) = 1]".toList = .ok p ∧
    selectAll (F := Int) d0 {} p (.node 0) = .ok l ∧
    evaluate (F := Int) d0 {} p (.node 0) = .ok (.nodes l) ∧ l.Nodup ∧
    ∀ x, x ∈ l ↔ x ∈ [Ref.node 2, .node 4] := by
  rcases Theorems.C11.C11_from_text_evaluate (fun _ => true) none _ pC pN union_full_parsed
      pC_frag2 pN_frag2 with ⟨e, he⟩ | ⟨p, hp, _, h⟩
  · exact absurd he (by
      have : (compile {} none "/r/*[@x != @y] | /r/*[count(@x) = 1]".toList).isOk = true := by
        decide +kernel
      intro h'; rw [h'] at this; cases this)
  · obtain ⟨l, nsl, h1, h2, h3, h4, _, h6, _⟩ :=
      h Int d0 wf_d0 {} rfl hashInj_d0 (.node 0) (by decide)
    have e : Spec.evalTop (F := Int) d0 (.oper "|" pC pN) (.node 0) = .ok (.nodes [.node 2, .node 4]) := by
      decide +kernel
    rw [e] at h4; cases h4
    exact ⟨p, l, hp, h1, h2, h3, h6⟩

end XPathV.Theorems.NonVacuity.C11

section AxiomAuditFromText
open XPathV.Theorems.NonVacuity.C11
end AxiomAuditFromText
