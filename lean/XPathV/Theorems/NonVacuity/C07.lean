import XPathV.Theorems.C07
import XPathV.Theorems.NonVacuity.Common
/-!
# Non-vacuity of the C07 theorems
-/
namespace XPathV.Theorems.NonVacuity.C07
open XPathV XPathV.Model XPathV.Theorems.NonVacuity XPathV.PosSem
open XPathV.PathSem XPathV.CmpSem

attribute [local instance] toyAlg

def dosRoot : Ast := .axis dosAll (.root "//")
/-- `//a/@x`, `//b/@y`, `//c`, `//a` -/
def pAX : Ast := .axis (atA "x") (.axis (chE "a") dosRoot)
def pBY : Ast := .axis (atA "y") (.axis (chE "b") dosRoot)
def pC : Ast := .axis (chE "c") dosRoot
def pA : Ast := .axis (chE "a") dosRoot

theorem dosRoot_pf : PathPF dosRoot := .axis _ _ (.root _) (by decide)
theorem pAX_pf : PathPF pAX := .axis _ _ (.axis _ _ dosRoot_pf (by decide)) (by decide)
theorem pBY_pf : PathPF pBY := .axis _ _ (.axis _ _ dosRoot_pf (by decide)) (by decide)
theorem pC_pf : PathPF pC := .axis _ _ dosRoot_pf (by decide)
theorem pA_pf : PathPF pA := .axis _ _ dosRoot_pf (by decide)

/-- `//a/@x = 1 and (//b/@y > 2 or not(//c)) and //a = 't'` -/
def e1 : Ast :=
  .oper "and"
    (.oper "and" (.oper "=" pAX (.num "1"))
      (.group (.oper "or" (.oper ">" pBY (.num "2")) (.call "not" "" (.acons pC .anil)))))
    (.oper "=" pA (.str "t"))

theorem e1_parsed : ParsesTo "//a/@x = 1 and (//b/@y > 2 or not(//c)) and //a = 't'" e1 :=
  ApiSem.parsesTo_eq (by decide +kernel)

theorem e1_xexp : XExp .bool e1 :=
  .and _ _ _ _
    (.and _ _ _ _ (.cmp "=" .eq .set .num _ _ rfl (.path _ pAX_pf) (.num _))
      (.group _ _ (.or _ _ _ _ (.cmp ">" .gt .set .num _ _ rfl (.path _ pBY_pf) (.num _))
        (.not .set _ _ (.path _ pC_pf)))))
    (.cmp "=" .eq .set .str _ _ rfl (.path _ pA_pf) (.str _))

/-- **`C07_main`**: every hypothesis discharged; both sides give `true` -/
theorem C07_main_instance : ∃ (o : BOut), build (fun _ => true) 100 true false e1 {} {} = .ok o ∧
    evalP (F := Int) d0 {} o.q (.node 0) = .ok (.bool true) := by
  obtain ⟨o, hb⟩ : ∃ o, build (fun _ => true) 100 true false e1 {} {} = .ok o :=
    exists_ok (by decide +kernel)
  obtain ⟨t, h1, h2⟩ := Theorems.C07.C07_main (F := Int) wf_d0 {} rfl hashInj_d0 (.node 0) (by decide)
    (fun _ => true) 100 false e1 e1_xexp {} o hb
  have e : Spec.evalTop (F := Int) d0 e1 (.node 0) = .ok (.bool true) := by decide +kernel
  rw [e] at h2; cases h2
  exact ⟨o, hb, h1⟩

/-- `not()` of a number and of a string (after the repair of `notFunc`):
`not(count(r/c)) and not('') and not(1 - 1) and not(concat('', ''))` — every conjunct is true
(`count(r/c)` is 0); the defective `notFunc` answered `false` to each of them -/
def pRC : Ast := .axis (chE "c") (.axis (chE "r") .none)
def e3 : Ast :=
  .oper "and"
    (.oper "and"
      (.oper "and" (.call "not" "" (.acons (.call "count" "" (.acons pRC .anil)) .anil))
        (.call "not" "" (.acons (.str "") .anil)))
      (.call "not" "" (.acons (.oper "-" (.num "1") (.num "1")) .anil)))
    (.call "not" "" (.acons (.call "concat" "" (.acons (.str "") (.acons (.str "") .anil))) .anil))

theorem e3_parsed : ParsesTo "not(count(r/c)) and not('') and not(1 - 1) and not(concat('', ''))" e3 :=
  ApiSem.parsesTo_eq (by decide +kernel)

theorem e3_xexp : XExp .bool e3 :=
  .and _ _ _ _
    (.and _ _ _ _
      (.and _ _ _ _
        (.not .num _ _ (.numE _ (.count _ _ (.cons _ _ (by decide) (.step _ (by decide))))))
        (.not .str _ _ (.str _)))
      (.not .num _ _ (.numE _ (.arith "-" _ _ (by decide) (.num _) (.num _)))))
    (.not .str _ _ (.strE _ (.concat "" [.str "", .str ""] (by decide)
      (by intro a ha; simp only [List.mem_cons, List.not_mem_nil, or_false] at ha
          rcases ha with rfl | rfl <;> exact .lit _))))

/-- **`C07_main`** on `not()` of numbers and strings: both sides give `true` -/
theorem C07_main_not_instance : ∃ (o : BOut), build (fun _ => true) 100 true false e3 {} {} = .ok o ∧
    evalP (F := Int) d0 {} o.q (.node 0) = .ok (.bool true) := by
  obtain ⟨o, hb⟩ : ∃ o, build (fun _ => true) 100 true false e3 {} {} = .ok o :=
    exists_ok (by decide +kernel)
  obtain ⟨t, h1, h2⟩ := Theorems.C07.C07_main (F := Int) wf_d0 {} rfl hashInj_d0 (.node 0) (by decide)
    (fun _ => true) 100 false e3 e3_xexp {} o hb
  have e : Spec.evalTop (F := Int) d0 e3 (.node 0) = .ok (.bool true) := by decide +kernel
  rw [e] at h2; cases h2
  exact ⟨o, hb, h1⟩

/-- `not(7 mod 2 - 1)`: `mod` inside the oracle's domain (`C07_main_full`) -/
def e4 : Ast := .call "not" "" (.acons (.oper "-" (.oper "mod" (.num "7") (.num "2")) (.num "1")) .anil)

theorem e4_parsed : ParsesTo "not(7 mod 2 - 1)" e4 := ApiSem.parsesTo_eq (by decide +kernel)

theorem e4_xexp : XExpG (ArithSem.NumEF d0 ⟨.node 0, 1, 1⟩ Int) StringFns.StrE .bool e4 :=
  .not .num _ _ (.numE _ (.arith "-" _ _ (by decide)
    (.mod _ _ (.num _) (.num _) (by
      intro x y ga gb hx hy
      rw [PredSem.eval_num] at hx hy
      cases hx; cases hy
      decide +kernel))
    (.num _)))

/-- **`C07_main_full`**: every hypothesis discharged (`ModDom` included); both sides give `true` -/
theorem C07_main_full_instance : ∃ (o : BOut), build (fun _ => true) 100 true false e4 {} {} = .ok o ∧
    evalP (F := Int) d0 {} o.q (.node 0) = .ok (.bool true) := by
  obtain ⟨o, hb⟩ : ∃ o, build (fun _ => true) 100 true false e4 {} {} = .ok o :=
    exists_ok (by decide +kernel)
  obtain ⟨t, h1, h2⟩ := Theorems.C07.C07_main_full (F := Int) wf_d0 {} rfl hashInj_d0 (.node 0) (by decide)
    (fun _ => true) 100 false e4 e4_xexp {} o hb
  have e : Spec.evalTop (F := Int) d0 e4 (.node 0) = .ok (.bool true) := by decide +kernel
  rw [e] at h2; cases h2
  exact ⟨o, hb, h1⟩

/-- **`C07_not_any_type`** (no hypothesis): `not(0)`, `not('')`, `not('x')` -/
example : callFn (F := Int) d0 {} "not" .nil (.node 0) [.ok (.num 0)] none = .ok (.bool true) :=
  (Theorems.C07.C07_not_any_type (F := Int) d0 {} .nil (.node 0) ⟨.node 0, 1, 1⟩ (.num 0) none).1
example : callFn (F := Int) d0 {} "not" .nil (.node 0) [.ok (.str "")] none = .ok (.bool true) :=
  (Theorems.C07.C07_not_any_type (F := Int) d0 {} .nil (.node 0) ⟨.node 0, 1, 1⟩ (.str "") none).1
example : callFn (F := Int) d0 {} "not" .nil (.node 0) [.ok (.str "x")] none = .ok (.bool false) :=
  (Theorems.C07.C07_not_any_type (F := Int) d0 {} .nil (.node 0) ⟨.node 0, 1, 1⟩ (.str "x") none).1

/-- `//a/@x = 1 and not(//b/@y < 2)` (the property's own fragment `BExp`) -/
def e2 : Ast :=
  .oper "and" (.oper "=" pAX (.num "1")) (.call "not" "" (.acons (.oper "<" pBY (.num "2")) .anil))

theorem e2_parsed : ParsesTo "//a/@x = 1 and not(//b/@y < 2)" e2 := ApiSem.parsesTo_eq (by decide +kernel)

theorem e2_bexp : BExp e2 :=
  .and _ _ (.cmp _ (.mk "=" .eq _ _ rfl (.path _ pAX_pf) (.num _)))
    (.not _ _ (.cmp _ (.mk "<" .lt _ _ rfl (.path _ pBY_pf) (.num _))))

/-- **`C07_listed_pairs`** -/
theorem C07_listed_pairs_instance : ∃ (o : BOut), build (fun _ => true) 100 true false e2 {} {} = .ok o ∧
    evalP (F := Int) d0 {} o.q (.node 0) = .ok (.bool true) := by
  obtain ⟨o, hb⟩ : ∃ o, build (fun _ => true) 100 true false e2 {} {} = .ok o :=
    exists_ok (by decide +kernel)
  obtain ⟨t, h1, h2⟩ := Theorems.C07.C07_listed_pairs (F := Int) wf_d0 {} rfl hashInj_d0 (.node 0) (by decide)
    (fun _ => true) 100 false e2 e2_bexp {} o hb
  have e : Spec.evalTop (F := Int) d0 e2 (.node 0) = .ok (.bool true) := by decide +kernel
  rw [e] at h2; cases h2
  exact ⟨o, hb, h1⟩

/-- **`C07_comparison_value`** on `//a = 't'` (node-set / string, existential): `true`, from the
two-element node-set `{a[1], a[2]}` -/
theorem C07_comparison_value_instance : ∃ (o : BOut),
    evalP (F := Int) d0 {} o.q (.node 0) =
      .ok (.bool (Spec.compare (F := Int) d0 .eq (.nodes [.node 2, .node 6]) (.str "t"))) ∧
    Spec.compare (F := Int) d0 .eq (.nodes [.node 2, .node 6]) (.str "t") = true := by
  obtain ⟨o, hb⟩ : ∃ o, build (fun _ => true) 100 true false (.oper "=" pA (.str "t")) {} {} = .ok o :=
    exists_ok (by decide +kernel)
  obtain ⟨va, vb, ga, gb, h1, h2, h3, _⟩ := Theorems.C07.C07_comparison_value (F := Int) wf_d0 {} rfl
    hashInj_d0 (.node 0) (by decide) (fun _ => true) 100 false "=" .eq pA (.str "t") rfl (.path _ pA_pf)
    (.str _) {} o hb
  have ea := value_of_eval h1 (v' := .nodes [.node 2, .node 6]) (by decide +kernel)
  have eb := value_of_eval h2 (v' := .str "t") (by decide +kernel)
  subst ea eb
  exact ⟨o, h3, by decide +kernel⟩

/-- **`C07_cells`** (`VRel`, `VRel`): the engine holds the node list in another order than
the oracle; `{@x='1', @x='2'} >= 2` is true -/
example : cmpM (F := Int) d0 .ge (.nodes [.attr 4 0, .attr 2 0]) (.num 2) =
    .ok (Spec.compare (F := Int) d0 .ge (.nodes [.attr 2 0, .attr 4 0]) (.num 2)) :=
  Theorems.C07.C07_cells d0 .ge _ _ (.nodes [.attr 2 0, .attr 4 0]) (.num 2)
    (show ∀ x, x ∈ [Ref.attr 4 0, .attr 2 0] ↔ x ∈ [Ref.attr 2 0, .attr 4 0] by
      intro x; simp only [List.mem_cons, List.not_mem_nil, or_false]; exact Or.comm)
    (show (2 : Int) = 2 from rfl)
example : Spec.compare (F := Int) d0 .ge (.nodes [.attr 2 0, .attr 4 0]) (.num 2) = true := by
  decide +kernel

/-! ## the cells that joined after the repairs of the Go comparators -/

/-- `//a/@x < //b/@y and '10' > '9' and true() < 2 and '5' < 9`: node-set/node-set, string/string,
boolean/number and string/number under relational operators.  Every conjunct is true in XPath 1.0
and each was **false** in the engine before the repairs (`cmpStringStringF` compared byte-wise:
"1" < "3" holds but "10" > "9" does not — and `cmpBooleanAny` turned `2` into `true`,
`cmpStringNumeric` computed `9 < 5`) -/
def e6 : Ast :=
  .oper "and"
    (.oper "and"
      (.oper "and" (.oper "<" pAX pBY) (.oper ">" (.str "10") (.str "9")))
      (.oper "<" (.call "true" "" .anil) (.num "2")))
    (.oper "<" (.str "5") (.num "9"))

theorem e6_parsed : ParsesTo "//a/@x < //b/@y and '10' > '9' and true() < 2 and '5' < 9" e6 :=
  ApiSem.parsesTo_eq (by decide +kernel)

theorem e6_xexp : XExp .bool e6 :=
  .and _ _ _ _
    (.and _ _ _ _
      (.and _ _ _ _ (.cmp "<" .lt .set .set _ _ rfl (.path _ pAX_pf) (.path _ pBY_pf))
        (.cmp ">" .gt .str .str _ _ rfl (.str _) (.str _)))
      (.cmp "<" .lt .bool .num _ _ rfl (.true _) (.num _)))
    (.cmp "<" .lt .str .num _ _ rfl (.str _) (.num _))

/-- **`C07_main`** on the new cells: every hypothesis discharged; both sides give `true` -/
theorem C07_main_new_cells_instance : ∃ (o : BOut),
    build (fun _ => true) 100 true false e6 {} {} = .ok o ∧
    evalP (F := Int) d0 {} o.q (.node 0) = .ok (.bool true) := by
  obtain ⟨o, hb⟩ : ∃ o, build (fun _ => true) 100 true false e6 {} {} = .ok o :=
    exists_ok (by decide +kernel)
  obtain ⟨t, h1, h2⟩ := Theorems.C07.C07_main (F := Int) wf_d0 {} rfl hashInj_d0 (.node 0) (by decide)
    (fun _ => true) 100 false e6 e6_xexp {} o hb
  have e : Spec.evalTop (F := Int) d0 e6 (.node 0) = .ok (.bool true) := by decide +kernel
  rw [e] at h2; cases h2
  exact ⟨o, hb, h1⟩

/-- **`C07_every_cell`** on the cells that used to differ: string/string `>` ("10" > "9": numbers,
not bytes), string/number `<` (operands in order), node-set/string `<` (node on the left),
boolean/number `<` (numbers, not truth values) -/
example : cmpM (F := Int) d0 .gt (.str "10") (.str "9") = .ok true :=
  (Theorems.C07.C07_every_cell_emb (F := Int) d0 .gt (.str "10") (.str "9")).trans (by decide +kernel)
example : cmpM (F := Int) d0 .lt (.str "5") (.num 9) = .ok true :=
  (Theorems.C07.C07_every_cell_emb (F := Int) d0 .lt (.str "5") (.num 9)).trans (by decide +kernel)
example : cmpM (F := Int) d0 .lt (.nodes [.attr 2 0]) (.str "2") = .ok true :=
  (Theorems.C07.C07_every_cell_emb (F := Int) d0 .lt (.nodes [.attr 2 0]) (.str "2")).trans
    (by decide +kernel)
example : cmpM (F := Int) d0 .lt (.bool true) (.num 2) = .ok true :=
  (Theorems.C07.C07_every_cell_emb (F := Int) d0 .lt (.bool true) (.num 2)).trans (by decide +kernel)

/-- `C07_short_circuit` (`hl`): the right operand is the failing plan `.nil` -/
example : evalP (F := Int) d0 {} (.boolean true (.constStr "x") .nil) (.node 0) = .ok (.bool true) :=
  (Theorems.C07.C07_short_circuit (F := Int) d0 {} (.constStr "x") .nil (.node 0) (.str "x")
    (by simp only [evalP])).1 (by decide)

/-- `C07_and_or_any_type` (`hl`, `hr`): a string and a number operand -/
example : evalP (F := Int) d0 {} (.boolean false (.constStr "x") (.constNum "0")) (.node 0) =
    .ok (.bool (Spec.toBool (F := Int) (.str "x") && Spec.toBool (F := Int) (.num (Spec.strToNum "0")))) :=
  (Theorems.C07.C07_and_or_any_type (F := Int) d0 {} (.constStr "x") (.constNum "0") (.node 0)
    (.str "x") (.num (Spec.strToNum "0")) (by simp only [evalP, Theorems.C08.emb])
    (by simp only [evalP, Theorems.C08.emb])).2

end XPathV.Theorems.NonVacuity.C07

section AxiomAudit
open XPathV.Theorems.NonVacuity.C07
end AxiomAudit

/-! ## C07 over filtered paths: `C07_main_filtered_paths` -/
namespace XPathV.Theorems.NonVacuity.C07
open XPathV XPathV.Model XPathV.Theorems.NonVacuity XPathV.PosSem
open XPathV.PathSem XPathV.CmpSem XPathV.CmpSem2 XPathV.PredSem2

attribute [local instance] toyAlg

/-- `//a[@x]` -/
def fAX : Ast := .filter pA (.axis (atA "x") .none)
/-- `//b[count(*) = 0]` -/
def fB0 : Ast := .filter (.axis (chE "b") dosRoot)
  (.oper "=" (.call "count" "" (.acons (.axis (chE "") .none) .anil)) (.num "0"))
/-- `a[b < c]` -/
def fLt : Ast := .filter (.axis (chE "a") .none)
  (.oper "<" (.axis (chE "b") .none) (.axis (chE "c") .none))

theorem dosRoot_frag2 : Frag2 true dosRoot := .axis _ _ (.root _) (by decide)
theorem fAX_frag2 : Frag2 true fAX :=
  .filter _ _ (.axis _ _ dosRoot_frag2 (by decide)) (.exist _ (.axis _ _ .none (by decide)))
theorem fB0_frag2 : Frag2 true fB0 :=
  .filter _ _ (.axis _ _ dosRoot_frag2 (by decide))
    (.countR _ _ _ _ (by decide) (.axis _ _ .none (by decide)) (.axis _ _ (by decide) .none))
theorem fLt_frag2 : Frag2 true fLt :=
  .filter _ _ (.axis _ _ .none (by decide))
    (.cmpPath _ _ _ (by decide) (.axis _ _ .none (by decide)) (.axis _ _ .none (by decide)))

/-- `//a[@x] = //b[count(*) = 0] or not(a[b < c])` -/
def eF1 : Ast := .oper "or" (.oper "=" fAX fB0) (.call "not" "" (.acons fLt .anil))

theorem eF1_parsed : ParsesTo "//a[@x] = //b[count(*) = 0] or not(a[b < c])" eF1 :=
  ApiSem.parsesTo_eq (by decide +kernel)

theorem eF1_xexp2 : XExp2F d0 (.node 1) Int .bool eF1 :=
  .or _ _ _ _ (.cmp "=" .eq .set .set _ _ rfl (.path _ fAX_frag2) (.path _ fB0_frag2))
    (.not .set _ _ (.path _ fLt_frag2))

/-- **`C07_main_filtered_paths`** at `//a[@x] = //b[count(*) = 0] or not(a[b < c])`, context node
`r` of `d0`, every hypothesis discharged.  The comparison is false (the `a` with an `x` attribute
has string-value "t", the childless `b` has "u"), `a[b < c]` is empty, so `not(…)` is true: both
sides give `true` -/
theorem C07_main_filtered_paths_instance :
    ∃ (o : BOut), build (fun _ => true) 100 true false eF1 {} {} = .ok o ∧
    evalP (F := Int) d0 {} o.q (.node 1) = .ok (.bool true) := by
  obtain ⟨o, hb⟩ : ∃ o, build (fun _ => true) 100 true false eF1 {} {} = .ok o :=
    exists_ok (by decide +kernel)
  obtain ⟨t, h1, h2⟩ := Theorems.C07.C07_main_filtered_paths (F := Int) wf_d0 {} rfl hashInj_d0
    (.node 1) (by decide) (fun _ => true) 100 eF1 eF1_xexp2 {} o hb
  have e : Spec.evalTop (F := Int) d0 eF1 (.node 1) = .ok (.bool true) := by decide +kernel
  rw [e] at h2; cases h2
  exact ⟨o, hb, h1⟩

/-- `//a[not(@x)] = 't'`: the predicate decides — `//a = 't'` is true on `d0` (the first `a`), the
filtered comparison is false (the `a` without `x` is empty) -/
def fANX : Ast := .filter pA (.call "not" "" (.acons (.axis (atA "x") .none) .anil))
def eF2 : Ast := .oper "=" fANX (.str "t")

theorem eF2_parsed : ParsesTo "//a[not(@x)] = 't'" eF2 := ApiSem.parsesTo_eq (by decide +kernel)

theorem fANX_frag2 : Frag2 true fANX :=
  .filter _ _ (.axis _ _ dosRoot_frag2 (by decide))
    (.not _ _ (.exist _ (.axis _ _ .none (by decide))))

theorem eF2_xexp2 : XExp2 .bool eF2 := .cmp "=" .eq .set .str _ _ rfl (.path _ fANX_frag2) (.str _)

/-- **`C07_main_filtered_paths_doc_independent`** at `//a[not(@x)] = 't'`: both sides give `false`,
while the unfiltered `//a = 't'` is `true` -/
theorem C07_main_filtered_paths_false_instance :
    ∃ (o : BOut), build (fun _ => true) 100 true false eF2 {} {} = .ok o ∧
    evalP (F := Int) d0 {} o.q (.node 0) = .ok (.bool false) ∧
    Spec.evalTop (F := Int) d0 (.oper "=" pA (.str "t")) (.node 0) = .ok (.bool true) := by
  obtain ⟨o, hb⟩ : ∃ o, build (fun _ => true) 100 true false eF2 {} {} = .ok o :=
    exists_ok (by decide +kernel)
  obtain ⟨t, h1, h2⟩ := Theorems.C07.C07_main_filtered_paths_doc_independent (F := Int) wf_d0 {} rfl
    hashInj_d0 (.node 0) (by decide) (fun _ => true) 100 eF2 eF2_xexp2 {} o hb
  have e : Spec.evalTop (F := Int) d0 eF2 (.node 0) = .ok (.bool false) := by decide +kernel
  rw [e] at h2; cases h2
  exact ⟨o, hb, h1, by decide +kernel⟩

/-- the embedding old → new on the instance of `C07_main` -/
example : XExp2 .bool e1 := Theorems.C07.C07_filtered_paths_embeds_main e1_xexp

end XPathV.Theorems.NonVacuity.C07

section AxiomAuditFilteredPaths
open XPathV.Theorems.NonVacuity.C07
end AxiomAuditFilteredPaths
