import XPathV.Theorems.C01
import XPathV.Theorems.NonVacuity.Common
/-!
# Non-vacuity of the C01 theorems

Every hypothesis of `C01_main` / `C01_from_text` / `C01_single_step` / the walk theorems is
discharged at once on the 8-node, 3-attribute document `d0`, *including* `HashInj`
(`decide +kernel` compares the node keys of all 11 nodes; `hashInj_d0'` in `NonVacuity/C11.lean` gets
it from `hashInj_holds` instead), and the theorem is applied.
-/
namespace XPathV.Theorems.NonVacuity.C01
open XPathV XPathV.Model XPathV.Theorems.NonVacuity XPathV.PosSem

attribute [local instance] toyAlg

/-- `//a/@x`, as the parser produces it -/
def p1 : Ast :=
  .axis ⟨"attribute", .attr, "", "x", "", false, ""⟩
    (.axis ⟨"child", .elem, "", "a", "", false, ""⟩
      (.axis ⟨"descendant-or-self", .all, "", "", "", false, ""⟩ (.root "//")))

/-- `//@x/ancestor::*` (an ancestor step: the one that needs `HashInj`) -/
def p2 : Ast :=
  .axis ⟨"ancestor", .elem, "", "", "", false, ""⟩
    (.axis ⟨"attribute", .attr, "", "x", "", false, ""⟩
      (.axis ⟨"descendant-or-self", .all, "", "", "", false, ""⟩ (.root "//")))

theorem p1_pf : PathSem.PathPF p1 :=
  .axis _ _ (.axis _ _ (.axis _ _ (.root _) (by decide)) (by decide)) (by decide)
theorem p2_pf : PathSem.PathPF p2 :=
  .axis _ _ (.axis _ _ (.axis _ _ (.root _) (by decide)) (by decide)) (by decide)

/-- the parser does produce `p1` from the text, with the fuel `compile` supplies -/
theorem p1_parsed : parse (fuelFor "//a/@x".toList) (defaultCfg none) "//a/@x".toList = .ok p1 :=
  ApiSem.parsesTo_eq (by decide +kernel)

theorem p1_built : ∃ o, build (fun _ => true) 100 shortcutNeedsNodeTestFromSource
    smartDescThroughFilterFromSource p1 {} {} = .ok o :=
  exists_ok (by decide +kernel)

theorem p2_built : ∃ o, build (fun _ => true) 100 shortcutNeedsNodeTestFromSource
    smartDescThroughFilterFromSource p2 {} {} = .ok o :=
  exists_ok (by decide +kernel)

/-- the oracle's node-set is not empty on `d0` -/
theorem p1_spec : Spec.evalTop (F := Int) d0 p1 (.node 0) = .ok (.nodes [.attr 2 0]) := by
  decide +kernel
theorem p2_spec : Spec.evalTop (F := Int) d0 p2 (.attr 4 1) = .ok (.nodes [.node 1, .node 2, .node 4]) := by
  decide +kernel

/-- **`C01_main` applied with every hypothesis discharged** (`WF`, `nsIface`, `HashInj`, `PathPF`,
`build = .ok`, `validRef`): the built plan of `//a/@x` selects exactly `{@x of the first a}` -/
theorem C01_main_instance : ∃ o out,
    build (fun _ => true) 100 shortcutNeedsNodeTestFromSource smartDescThroughFilterFromSource p1 {} {} = .ok o ∧
    sel (F := Int) d0 {} o.q (.node 0) = .ok out ∧ ∀ x, x ∈ PathSem.refs out ↔ x = .attr 2 0 := by
  obtain ⟨o, hb⟩ := p1_built
  obtain ⟨out, ns, h1, h2, h3⟩ := Theorems.C01.C01_main (F := Int) wf_d0 {} rfl hashInj_d0
    (fun _ => true) 100 p1 p1_pf o hb (.node 0) (by decide)
  rw [p1_spec] at h2
  cases h2
  exact ⟨o, out, hb, h1, fun x => by rw [h3]; simp⟩

/-- the same through an `ancestor` step (the de-duplicating iterator `HashInj` is about), from an
attribute context node -/
theorem C01_main_instance_ancestor : ∃ o out,
    build (fun _ => true) 100 shortcutNeedsNodeTestFromSource smartDescThroughFilterFromSource p2 {} {} = .ok o ∧
    sel (F := Int) d0 {} o.q (.attr 4 1) = .ok out ∧
    ∀ x, x ∈ PathSem.refs out ↔ x ∈ [Ref.node 1, .node 2, .node 4] := by
  obtain ⟨o, hb⟩ := p2_built
  obtain ⟨out, ns, h1, h2, h3⟩ := Theorems.C01.C01_main (F := Int) wf_d0 {} rfl hashInj_d0
    (fun _ => true) 100 p2 p2_pf o hb (.attr 4 1) (by decide)
  rw [p2_spec] at h2
  cases h2
  exact ⟨o, out, hb, h1, h3⟩

/-- `C01_from_text` with every hypothesis discharged: the text `//a/@x` through scanner, parser,
builder and `Select` -/
theorem C01_from_text_instance : ∃ p l,
    compile {} none "//a/@x".toList = .ok p ∧
    selectAll (F := Int) d0 {} p (.node 0) = .ok l ∧ ∀ x, x ∈ l ↔ x = .attr 2 0 := by
  obtain ⟨p, hp⟩ : ∃ p, compile {} none "//a/@x".toList = .ok p := exists_ok (by decide +kernel)
  obtain ⟨l, nsl, h1, h2, h3⟩ := Theorems.C01.C01_from_text (F := Int) wf_d0 {} rfl hashInj_d0
    (fun _ => true) none _ p1 p1_parsed p1_pf p hp (.node 0) (by decide)
  rw [p1_spec] at h2
  cases h2
  exact ⟨p, l, hp, h1, fun x => by rw [h3]; simp⟩

/-- `C01_single_step` and the walk theorems at a concrete inner node / attribute of `d0` -/
example : ∀ x, x ∈ PathSem.axisRefsM d0 "following" (.attr 2 0) ↔
    x ∈ (Spec.axisNodes d0 "following" (.attr 2 0)).getD [] :=
  Theorems.C01.C01_single_step wf_d0 (.attr 2 0) (by decide) "following" (by decide)
example : (Spec.axisNodes d0 "following" (.attr 2 0)).getD [] =
    [.node 3, .node 4, .node 5, .node 6, .node 7] := by decide +kernel
example : childrenM d0 (.node 1) = Spec.children d0 (.node 1) :=
  Theorems.C01.child_walk wf_d0 1 (by decide)
example : Spec.children d0 (.node 1) = [.node 2, .node 4, .node 6, .node 7] := by decide +kernel
example := Theorems.C01.descendant_walk wf_d0 1 (by decide)
example := Theorems.C01.sibling_walks wf_d0 4 (by decide)
example := Theorems.C01.following_walk wf_d0 2 (by decide)
example := Theorems.C01.preceding_walk wf_d0 6 (by decide)
example : Spec.preceding d0 (.node 6) = [.node 2, .node 3, .node 4, .node 5] := by decide +kernel

end XPathV.Theorems.NonVacuity.C01

section AxiomAudit
open XPathV.Theorems.NonVacuity XPathV.Theorems.NonVacuity.C01
end AxiomAudit
