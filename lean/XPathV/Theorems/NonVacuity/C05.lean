import XPathV.Theorems.C05
/-!
# Non-vacuity of the C05 theorems

Only `concurrent_equals_sequential` has hypotheses (`hd`: disjoint footprints, `Within`, `Within`,
`Interleave`).  Two threads on the disjoint locations `0` and `1`, interleaved `a b a`.
-/
namespace XPathV.Theorems.NonVacuity.C05
open XPathV XPathV.Model.Conc

/-- "add `n` to location `k`" -/
def addAt (k n : Nat) : Step where
  fp := fun l => l == k
  run := fun s l => if l == k then s l + n else s l
  frame := by intro s l h; simp only [h]; rfl
  local_ := by
    intro s s' h l hl
    simp only [hl, ↓reduceIte]
    rw [h l hl]

def thA : List Step := [addAt 0 1, addAt 0 10]
def thB : List Step := [addAt 1 5]

theorem withinA : Within (fun l => l == 0) thA := by
  intro st hst l hl
  simp only [thA, List.mem_cons, List.not_mem_nil, or_false] at hst
  rcases hst with rfl | rfl <;> exact hl
theorem withinB : Within (fun l => l == 1) thB := by
  intro st hst l hl
  simp only [thB, List.mem_cons, List.not_mem_nil, or_false] at hst
  subst hst; exact hl

theorem inter : Interleave thA thB [addAt 0 1, addAt 1 5, addAt 0 10] := .left (.right (.left .nil))

/-- **`concurrent_equals_sequential`**: location 0 ends as after thread A alone -/
theorem concurrent_equals_sequential_instance (s : Store) :
    runSeq [addAt 0 1, addAt 1 5, addAt 0 10] s 0 = runSeq thA s 0 :=
  Theorems.C05.concurrent_equals_sequential (fun l => l == 0) (fun l => l == 1)
    (by intro l h; simp only [beq_iff_eq] at h; subst h; rfl) thA thB _ withinA withinB inter s 0 rfl
example : runSeq thA (fun _ => 0) 0 = 11 := by decide

end XPathV.Theorems.NonVacuity.C05
