import XPathV.Lemmas.Pull2Gen.NonVacuity
import XPathV.Theorems.C12
import XPathV.Theorems.NonVacuity.Common
import XPathV.Theorems.NonVacuity.C02
/-!
# Non-vacuity of the C12 theorems
-/
namespace XPathV.Theorems.NonVacuity.C12
open XPathV XPathV.Model XPathV.Theorems.NonVacuity XPathV.PosSem
open XPathV.PathSem XPathV.PredSem XPathV.FlatFiltered

attribute [local instance] toyAlg

/-! ## flat paths with (positional) predicates: `r/*[2]/@*` -/

def pF : Ast := .axis (atA "") (.filter (.axis (chE "") (.axis (chE "r") .none)) (.num "2"))
theorem pF_parsed : ParsesTo "r/*[2]/@*" pF := ApiSem.parsesTo_eq (by decide +kernel)
theorem pF_flat : FlatAny pF :=
  .axis _ _ (by decide) (.filter _ _ (.axis _ _ (by decide) (.axis _ _ (by decide) .none)))

/-- the plan the builder makes of it (merge rewrite) -/
def planF : Plan :=
  .attr (atA "") (.merge (.child (chE "r") .context) (.filter (.child (chE "") .context) (.constNum "2")))

def oF : BOut := okVal (build (fun _ => true) 100 true false pF {} {})
theorem oF_built : build (fun _ => true) 100 true false pF {} {} = .ok oF := eq_ok_okVal (by decide +kernel)
theorem oF_plan : oF.q = planF := by decide +kernel

theorem planF_sel : sel (F := Int) d0 {} planF (.node 0) = .ok [⟨.attr 4 0, 1, 0⟩, ⟨.attr 4 1, 1, 0⟩] := by
  simp only [planF]; sel_decide

/-- **`C12_flat_with_predicates_sorted`** (`WF`, `FlatAny`, `build = .ok`, `sel = .ok l`): the two
attributes of `b`, in document order -/
theorem C12_flat_with_predicates_sorted_instance :
    ([Ref.attr 4 0, .attr 4 1]).Pairwise (fun a b => Ref.lt a b = true) ∧ ([Ref.attr 4 0, .attr 4 1]).Nodup :=
  Theorems.C12.C12_flat_with_predicates_sorted (F := Int) wf_d0 {} (fun _ => true) 100 true false pF pF_flat
    {} {} oF oF_built (.node 0) [⟨.attr 4 0, 1, 0⟩, ⟨.attr 4 1, 1, 0⟩] (by rw [oF_plan]; exact planF_sel)

/-- **`C12_flat_filtered_is_oracle_list`** on `r/*[@x]/@*` (`FlatFrag`) -/
def pG : Ast := .axis (atA "") (.filter (.axis (chE "") (.axis (chE "r") .none)) (.axis (atA "x") .none))
theorem pG_flatFrag : FlatFrag pG :=
  .axis _ _ (by decide) (.filter _ _ (.axis _ _ (by decide) (.axis _ _ (by decide) .none))
    (.exist _ (.axis _ _ .none (by decide))))
theorem C12_flat_filtered_is_oracle_list_instance : ∃ (o : BOut), ∃ l,
    sel (F := Int) d0 {} o.q (.node 0) = .ok l ∧ refs l = [.attr 2 0, .attr 4 0, .attr 4 1] := by
  obtain ⟨o, hb⟩ : ∃ o, build (fun _ => true) 100 true false pG {} {} = .ok o := exists_ok (by decide +kernel)
  obtain ⟨l, ns, g, h1, _, _, h4, _, h6⟩ := Theorems.C12.C12_flat_filtered_is_oracle_list (F := Int) wf_d0 {} rfl
    hashInj_d0 (fun _ => true) 100 pG pG_flatFrag {} o hb (.node 0) (by decide)
  have e := value_of_eval h4 (v' := .nodes [.attr 2 0, .attr 4 0, .attr 4 1]) (by decide +kernel)
  cases e
  exact ⟨o, l, h1, h6⟩

/-- **`C12_slashslash_sorted`** (`fl.filter = false`, `a.axis = "child"`, `isPlainDos`) on `//a`;
its inner hypotheses (`build = .ok`, `sel = .ok l`) hold as well -/
def oS : BOut := okVal (build (fun _ => true) 100 true false (.axis (chE "a") (.axis dosAll (.root "//"))) {} {})
theorem oS_built : build (fun _ => true) 100 true false (.axis (chE "a") (.axis dosAll (.root "//"))) {} {} = .ok oS :=
  eq_ok_okVal (by decide +kernel)
theorem oS_plan : oS.q = .descendant (chE "a") false .absolute := by decide +kernel
theorem C12_slashslash_sorted_instance :
    ([Ref.node 2, .node 6]).Pairwise (fun a b => Ref.lt a b = true) ∧ ([Ref.node 2, .node 6]).Nodup :=
  (Theorems.C12.C12_slashslash_sorted (F := Int) wf_d0 {} (fun _ => true) 100 true false (chE "a") dosAll {}
    rfl rfl (by decide)).1 "//" {} oS oS_built (.node 0) [⟨.node 2, 1, 2⟩, ⟨.node 6, 2, 2⟩]
    (by rw [oS_plan]; sel_decide)

/-- `flat_paths_sorted`, `single_descendant_sorted` -/
example := Theorems.C12.flat_paths_sorted (F := Int) wf_d0 {} (.node 0)
  (p := .attr (atA "") (.child (chE "") (.child (chE "r") .context))) (.attr _ (.child _ (.child _ .context)))
  [⟨.attr 2 0, 1, 0⟩, ⟨.attr 4 0, 1, 0⟩, ⟨.attr 4 1, 1, 0⟩] (by sel_decide)
example := Theorems.C12.single_descendant_sorted (F := Int) wf_d0 {} (chE "a") false 1 (by decide) (.node 0)
  [⟨.node 2, 1, 1⟩, ⟨.node 6, 2, 1⟩] [⟨.node 2, 1, 2⟩, ⟨.node 6, 2, 2⟩] (by sel_decide) (by sel_decide)

/-- `evaluate_iter_eq_select` (`he`, `hs`), `reverse_eq_reverse` (`h`) -/
theorem planF_selectAll : selectAll (F := Int) d0 {} planF (.node 0) = .ok [.attr 4 0, .attr 4 1] := by
  simp only [selectAll, planF_sel, bind, Except.bind, pure, Except.pure]; rfl
theorem planF_evaluate : evaluate (F := Int) d0 {} planF (.node 0) = .ok (.nodes [.attr 4 0, .attr 4 1]) := by
  simp only [evaluate, selectAll, planF]; sel_decide
example : [Ref.attr 4 0, .attr 4 1] = [Ref.attr 4 0, .attr 4 1] :=
  Theorems.C12.evaluate_iter_eq_select (F := Int) d0 {} planF (.node 0) _ _ planF_evaluate planF_selectAll
example := Theorems.C12.reverse_eq_reverse (F := Int) d0 {} planF (.node 0) _ planF_sel

/-! ## the core pull machine (`Model/Pull`) -/

def planP : Plan := .attr (atA "") (.child (chE "") (.child (chE "r") .context))
def qP : PQ := .attr (atA "") (.child (chE "") (.child (chE "r") (.context 0) none 0) none 0) none

/-- `pull_refines_sequence` (`PQ.ofPlan p = some q`) -/
example := Theorems.C12.pull_refines_sequence (F := Int) d0 {} (.node 0) planP qP rfl

/-- `reported_node_and_counters` (`h : PQ.select … = (.yield n, q')`): the first pull reports `@x` of `a[1]` -/
example := Theorems.C12.reported_node_and_counters d0 {} (.node 0) (f := 100) (q := qP) (n := .attr 2 0)
  (pair_eq (by decide +kernel))

/-- `exhausted_stays_exhausted` (`h : PQ.select … = (.done, q')`): the machine of `r/zzz` -/
example := Theorems.C12.exhausted_stays_exhausted d0 {} (.node 0) (f := 100)
  (q := .child (chE "zzz") (.child (chE "r") (.context 0) none 0) none 0) (pair_eq (by decide +kernel))

/-! ## all sixteen iterator types (`Model/Pull2`) -/

open XPathV.Theorems.NonVacuity.C02 in
/-- **`C12_all_iterators_refine_sequence`** (`0 < d.length`, `PQ2.ofPlan p = some q`, `NeedsWF`, `DecOK`
— with a filter whose predicate is `not(@y)` —, `Good`) -/
theorem C12_all_iterators_refine_sequence_instance : ∃ l, sel (F := Int) d0 {} planD (.node 0) = .ok l ∧
    ∃ q' c' f0, ∀ f, f0 ≤ f → drain2 d0 {} decD f qD (.node 0) = some (l, q', c') := by
  obtain ⟨l, h1, q', c', f0, h2, _⟩ := Theorems.C12.C12_all_iterators_refine_sequence (F := Int) d0 {} decD
    (by decide) planD qD rfl (fun _ => wf_d0) ((decOK_iff_plan d0 {} decD qD).2 planD_decOK) (.node 0)
    (by simp [Good, Ref.idx, d0])
  exact ⟨l, h1, q', c', f0, h2⟩

open XPathV.Theorems.NonVacuity.C02 in
/-- **`C12_moveNext_current`** (`NeedsWF`, `Inv`, `Good`) at the mid-iteration state `qD1` of `C02`
(reached by `Evaluate` and one `Select`; `Inv` from `reach_inv`) -/
example := Theorems.C12.C12_moveNext_current d0 {} decD (by decide) qD1 (fun _ => wf_d0)
  (reach_inv d0 {} decD (by decide) planD (fun _ => wf_d0) qD1 qD1_reach).2 (.node 0)
  (by simp [Good, Ref.idx, d0])

/-- **`C12_exhausted_for_ever`** (`NeedsWF`, `Inv`, `Good`, `h : PQ2.select … = (.done, q', c')`): the
machine of `/r/zzz` reports exhaustion on its first `Select` -/
def qE : PQ2 := .child (chE "zzz") (.child (chE "r") (.absolute 0) none 0) none 0
example := Theorems.C12.C12_exhausted_for_ever d0 {} (fun _ _ => true) (by decide) (f := 100) (q := qE.evaluate)
  (c := .node 0) (fun _ => wf_d0) (PQ2.inv_evaluate d0 qE) (by simp [Good, Ref.idx, d0])
  (triple_eq (by decide +kernel))

end XPathV.Theorems.NonVacuity.C12

section AxiomAudit
open XPathV.Theorems.NonVacuity.C12
end AxiomAudit

/-! ## `Frag2`: a flat path whose predicate is outside `Frag`

`/r/*[@x < @y]/@*` — the predicate compares two paths with `<` (`Frag2.cmpPath`; not in `Frag`, whose
comparisons have a literal on one side); `/r[count(*) = 3]/*[@x < @y]/@*` adds a `count` predicate
(`Frag2.countR`).  On `d0` only `b` has `@x` = 2 < 3 = `@y`, so both yield `b`'s two attributes, in
document order. -/
namespace XPathV.Theorems.NonVacuity.C12
open XPathV XPathV.Model XPathV.Theorems.NonVacuity XPathV.PosSem
open XPathV.PathSem XPathV.PredSem XPathV.PredSem2 XPathV.FlatFiltered XPathV.FlatFiltered2

attribute [local instance] toyAlg

/-- `@x < @y` -/
def bLt : Ast := .oper "<" (.axis (atA "x") .none) (.axis (atA "y") .none)
/-- `count(*) = 3` -/
def bCnt3 : Ast := .oper "=" (.call "count" "" (.acons (.axis (chE "") .none) .anil)) (.num "3")
/-- `/r/*[@x < @y]/@*` -/
def pH : Ast := .axis (atA "") (.filter (.axis (chE "") (.axis (chE "r") (.root "/"))) bLt)
/-- `/r[count(*) = 3]/*[@x < @y]/@*` -/
def pK : Ast :=
  .axis (atA "") (.filter (.axis (chE "") (.filter (.axis (chE "r") (.root "/")) bCnt3)) bLt)

theorem pH_parsed : ParsesTo "/r/*[@x < @y]/@*" pH := ApiSem.parsesTo_eq (by decide +kernel)
theorem pK_parsed : ParsesTo "/r[count(*) = 3]/*[@x < @y]/@*" pK := ApiSem.parsesTo_eq (by decide +kernel)

theorem bLt_frag : Frag2 false bLt :=
  .cmpPath _ _ _ (by decide) (.axis _ _ .none (by decide)) (.axis _ _ .none (by decide))
theorem bCnt3_frag : Frag2 false bCnt3 :=
  .countR _ _ _ _ (by decide) (.axis _ _ .none (by decide)) (.axis _ _ (by decide) .none)

theorem pH_flatFrag2 : FlatFrag2 pH :=
  .axis _ _ (by decide) (.filter _ _ (.axis _ _ (by decide) (.axis _ _ (by decide) (.root _))) bLt_frag)
theorem pK_flatFrag2 : FlatFrag2 pK :=
  .axis _ _ (by decide) (.filter _ _ (.axis _ _ (by decide)
    (.filter _ _ (.axis _ _ (by decide) (.root _)) bCnt3_frag)) bLt_frag)

/-- **`C12_flat_filtered_is_oracle_list_full`** on `/r/*[@x < @y]/@*` (`WF`, `nsIface`, `HashInj`,
`Frag2 true`, `FlatAny`, `build = .ok`, `validRef` discharged): the engine's sequence is
`[b/@x, b/@y]`, the oracle's list -/
theorem C12_flat_filtered_is_oracle_list_full_instance : ∃ (o : BOut), ∃ l,
    sel (F := Int) d0 {} o.q (.node 0) = .ok l ∧ refs l = [.attr 4 0, .attr 4 1] := by
  obtain ⟨o, hb⟩ : ∃ o, build (fun _ => true) 100 true false pH {} {} = .ok o := exists_ok (by decide +kernel)
  obtain ⟨l, ns, g, h1, _, _, h4, _, h6⟩ := Theorems.C12.C12_flat_filtered_is_oracle_list_full (F := Int) wf_d0 {}
    rfl hashInj_d0 (fun _ => true) 100 pH pH_flatFrag2.frag2 pH_flatFrag2.flatAny {} o hb (.node 0) (by decide)
  have e := value_of_eval h4 (v' := .nodes [.attr 4 0, .attr 4 1]) (by decide +kernel)
  cases e
  exact ⟨o, l, h1, h6⟩

/-- … and on `/r[count(*) = 3]/*[@x < @y]/@*` (two predicates outside `Frag`, on two steps),
through the `FlatFrag2` form of the statement -/
theorem C12_flat_filtered_is_oracle_list_full_fragment_instance : ∃ (o : BOut), ∃ l,
    sel (F := Int) d0 {} o.q (.node 0) = .ok l ∧ refs l = [.attr 4 0, .attr 4 1] := by
  obtain ⟨o, hb⟩ : ∃ o, build (fun _ => true) 100 true false pK {} {} = .ok o := exists_ok (by decide +kernel)
  obtain ⟨l, ns, g, h1, _, _, h4, _, h6⟩ := Theorems.C12.C12_flat_filtered_is_oracle_list_full_fragment (F := Int)
    wf_d0 {} rfl hashInj_d0 (fun _ => true) 100 pK pK_flatFrag2 {} o hb (.node 0) (by decide)
  have e := value_of_eval h4 (v' := .nodes [.attr 4 0, .attr 4 1]) (by decide +kernel)
  cases e
  exact ⟨o, l, h1, h6⟩

/-- the predicate `@x < @y` is not in the old fragment: `Frag false` has no comparison of two paths -/
theorem bLt_not_frag : ¬ Frag false bLt := by
  intro h
  generalize he : bLt = e at h
  cases h
  all_goals first
    | (subst he; rename_i hp; cases hp)
    | (simp [bLt] at he)

end XPathV.Theorems.NonVacuity.C12
