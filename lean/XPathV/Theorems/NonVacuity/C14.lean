import XPathV.Theorems.C14
import XPathV.Theorems.NonVacuity.Common
/-!
# Non-vacuity of the C14 theorems

A namespaced document `dN` (7 nodes, one namespaced attribute, two prefixes, an unprefixed element
with the same local name) and its re-prefixed copy; expressions compiled under a namespace map.
`Lemmas/NameSem.lean` (`ex_bound` … `ex_prefix_star`) shows what `compile` yields on six texts; here
the *hypotheses of the theorems* are discharged.
-/
namespace XPathV.Theorems.NonVacuity.C14
open XPathV XPathV.Model XPathV.Theorems.NonVacuity XPathV.PosSem
open XPathV.PathSem XPathV.NameSem

attribute [local instance] toyAlg

/-- `<r xmlns:p="urn:x" xmlns:q="urn:y"><p:a p:k="1">t</p:a><q:a/><a/><p:b/></r>` -/
def dN : Doc :=
  [⟨0, .root, "", "", "", "", []⟩,
   ⟨1, .elem, "", "r", "", "", []⟩,
   ⟨2, .elem, "p", "a", "urn:x", "", [⟨"p", "k", "urn:x", "1"⟩]⟩,
   ⟨3, .text, "", "", "", "t", []⟩,
   ⟨2, .elem, "q", "a", "urn:y", "", []⟩,
   ⟨2, .elem, "", "a", "", "", []⟩,
   ⟨2, .elem, "p", "b", "urn:x", "", []⟩]

theorem wf_dN : WF dN := wf_of_wfb (by decide)
theorem hashInj_dN : HashInj dN {} := hashInj_of_hashInjB (by decide +kernel)

/-- the same document written with other prefixes (`p ↦ zz`, `q ↦ p`) -/
def reP (s : String) : String := if s == "p" then "zz" else if s == "q" then "p" else s
def dN' : Doc := rePrefix reP dN
theorem hashInj_dN' : HashInj dN' {} := hashInj_of_hashInjB (by decide +kernel)
example : prefixOf dN' (.node 2) = "zz" ∧ prefixOf dN' (.node 4) = "p" ∧ nsURL dN' (.node 2) = "urn:x" := by
  decide +kernel

/-- the expression's namespace map: the *expression* calls the namespace `n` -/
def nsMap : List (String × String) := [("n", "urn:x")]

abbrev stepN (axis : String) (mt : NType) (l : String) : AxisInfo := ⟨axis, mt, "n", l, "", true, "urn:x"⟩

/-! ## `C14_main`: `/r/n:a/@n:k` -/

def p1 : Ast := .axis (stepN "attribute" .attr "k") (.axis (stepN "child" .elem "a") (.axis (chE "r") (.root "/")))

theorem p1_parsed : parse (fuelFor "/r/n:a/@n:k".toList) (defaultCfg (some nsMap)) "/r/n:a/@n:k".toList = .ok p1 :=
  ApiSem.parsesTo_eq (by decide +kernel)

theorem p1_namePath : NamePath (some nsMap) p1 :=
  .axis _ _ "attribute" .attr "n" "k"
    (.axis _ _ "child" .elem "n" "a"
      (.axis _ _ "child" .elem "" "r" (.root _) (by decide) (by decide) (by decide) rfl)
      (by decide) (by decide) (by decide) rfl)
    (by decide) (by decide) (by decide) rfl

/-- **`C14_main`**: every hypothesis discharged; the bound test `n:a` selects `p:a` only (not `q:a`,
not the unprefixed `a`), and `@n:k` its attribute -/
theorem C14_main_instance : ∃ (o : BOut), ∃ out, sel (F := Int) dN {} o.q (.node 0) = .ok out ∧
    (∀ x, x ∈ refs out ↔ x ∈ [Ref.attr 2 0]) ∧ (∀ x, x ∈ refs out ↔ nameDen dN p1 (.node 0) x) := by
  obtain ⟨o, hb⟩ : ∃ o, build (fun _ => true) 100 true false p1 {} {} = .ok o := exists_ok (by decide +kernel)
  obtain ⟨out, nodes, g, h1, h2, h3, h4⟩ := Theorems.C14.C14_main (F := Int) wf_dN {} rfl hashInj_dN
    (fun _ => true) 100 false (some nsMap) p1 p1_namePath {} o hb (.node 0) (by decide)
  have e := value_of_eval h2 (v' := .nodes [.attr 2 0]) (by decide +kernel)
  cases e
  exact ⟨o, out, h1, h3, h4⟩

/-! ## `C14_document_prefixes_irrelevant`: `descendant::n:a/@n:k` on `dN` and on `dN'` -/

def p2 : Ast := .axis (stepN "attribute" .attr "k") (.axis (stepN "descendant" .elem "a") .none)
theorem p2_namePath : NamePath (some nsMap) p2 :=
  .axis _ _ "attribute" .attr "n" "k" (.axis _ _ "descendant" .elem "n" "a" .none (by decide) (by decide) (by decide) rfl)
    (by decide) (by decide) (by decide) rfl

/-- **`C14_document_prefixes_irrelevant`** (`WF`, `SameNames` from `rePrefix_same`, two `HashInj`, `NamePath`,
`AllBound`, `build = .ok`, `validRef`) -/
theorem C14_document_prefixes_irrelevant_instance : ∃ (o : BOut), ∃ out₁ out₂,
    sel (F := Int) dN {} o.q (.node 0) = .ok out₁ ∧ sel (F := Int) dN' {} o.q (.node 0) = .ok out₂ ∧
    ∀ x, x ∈ refs out₁ ↔ x ∈ refs out₂ := by
  obtain ⟨o, hb⟩ : ∃ o, build (fun _ => true) 100 true false p2 {} {} = .ok o := exists_ok (by decide +kernel)
  obtain ⟨o1, o2, h⟩ := Theorems.C14.C14_document_prefixes_irrelevant (F := Int) wf_dN (rePrefix_same reP dN) {}
    rfl hashInj_dN hashInj_dN' (fun _ => true) 100 false (some nsMap) p2 p2_namePath ⟨rfl, rfl, trivial⟩ {} o hb
    (.node 0) (by decide)
  exact ⟨o, o1, o2, h⟩
example : Spec.evalTop (F := Int) dN p2 (.node 0) = .ok (.nodes [.attr 2 0]) ∧
    Spec.evalTop (F := Int) dN' p2 (.node 0) = .ok (.nodes [.attr 2 0]) := by decide +kernel

/-! ## single steps -/

/-- `C14_step_without_map`: `child::a` from `r` matches only the *unprefixed* `a` -/
example : ∃ out, sel (F := Int) dN {} (stepPlan ⟨"child", .elem, "", "a", "", false, ""⟩ .context) (.node 1) = .ok out ∧
    ∀ x, x ∈ refs out ↔ (x ∈ (Spec.axisNodes dN "child" (.node 1)).getD [] ∧
      nodeType dN x = .elem ∧ prefixOf dN x = "" ∧ localName dN x = "a") :=
  Theorems.C14.C14_step_without_map (F := Int) wf_dN {} hashInj_dN "child" (by decide) .elem (by decide) "" "a"
    (by decide) (.node 1) (by decide)
/-- `C14_step_with_map` -/
example := Theorems.C14.C14_step_with_map (F := Int) wf_dN {} hashInj_dN rfl "child" (by decide) .elem (by decide)
  "n" "a" "urn:x" (by decide) (.node 1) (by decide)
/-- `C14_step_with_map_no_uri_interface` (`cfg.nsIface = false`; `HashInj` for that configuration) -/
example := Theorems.C14.C14_step_with_map_no_uri_interface (F := Int) wf_dN { nsIface := false }
  (hashInj_of_hashInjB (by decide +kernel)) rfl "child" (by decide) .elem (by decide)
  "p" "a" "urn:x" (by decide) (.node 1) (by decide)

/-! ## node-test lemmas -/

example := Theorems.C14.nametest_noNS dN {} ⟨"child", .elem, "p", "a", "", false, ""⟩ (.node 2) rfl (by decide)
example : prefixOf dN (.node 5) = "" :=
  Theorems.C14.unprefixed_matches_unprefixed dN {} ⟨"child", .elem, "", "a", "", false, ""⟩ (.node 5) rfl
    (by decide) rfl (by decide +kernel)
example := Theorems.C14.nametest_NS dN {} (stepN "child" .elem "a") (.node 2) rfl rfl (by decide)
example := Theorems.C14.nodeTest_spec dN {} (stepN "child" .elem "a") (.node 2) rfl (by decide)
example := Theorems.C14.nametest_prefix_wildcard dN {} "child" .elem "n" "" "urn:x" true (by decide) (by decide) (.node 6)
example := Theorems.C14.namespace_uri_first (F := Int) dN {} (.node 0) (.node 2) [] rfl []

/-! ## parser: `C14_parser_records`, `unbound_prefix_error`, `C14_unbound_prefix_from_text` -/

/-- the state at the name token of `p:a` -/
def sPA : Scan := okVal (Scan.init "p:a".toList)
def stPA : PState := ⟨sPA, 1⟩
theorem init_PA : Scan.init "p:a".toList = .ok sPA := eq_ok_okVal (by decide +kernel)
theorem next_PA : stPA.next = .ok (okVal stPA.next) := eq_ok_okVal (by decide +kernel)
theorem nextItem_PA : sPA.nextItem = .ok (okVal sPA.nextItem) := eq_ok_okVal (by decide +kernel)

/-- `C14_parser_records` (`ht`, `hnf`, `hnext`) under a map binding `p` -/
example := Theorems.C14.C14_parser_records (defaultCfg (some [("p", "urn:x")])) .none "child" .elem stPA _
  (by decide +kernel) (by decide +kernel) next_PA

/-- `unbound_prefix_error` (`cfg.ns = some m`, `ht`, `hnf`, `hp`, `hl`, `hnext`) under a map that binds only `q` -/
example : parseNodeTest (defaultCfg (some [("q", "urn:y")])) .none "child" .elem stPA = .error .prefixUndefined :=
  Theorems.C14.unbound_prefix_error (defaultCfg (some [("q", "urn:y")])) [("q", "urn:y")] .none "child" .elem stPA _
    rfl (by decide +kernel) (by decide +kernel) (by decide +kernel) (by decide +kernel) next_PA

/-- **`C14_unbound_prefix_from_text`** (seven hypotheses about the scanner states of the text `p:a`) -/
theorem C14_unbound_prefix_from_text_instance :
    compile {} (some [("q", "urn:y")]) "p:a".toList = .error (.parse .prefixUndefined) :=
  Theorems.C14.C14_unbound_prefix_from_text {} [("q", "urn:y")] "p:a".toList sPA _ init_PA (by decide +kernel)
    (by decide +kernel) nextItem_PA (by decide +kernel) (by decide +kernel) (by decide +kernel)

/-! ## name functions -/

/-- `C14_name_functions_no_argument`: `name()` at `p:a` -/
example : ∃ (o : BOut), evalP (F := Int) dN {} o.q (.node 2) = .ok (.str "p:a") := by
  obtain ⟨o, hb⟩ : ∃ o, build (fun _ => true) 100 true false (.call "name" "" .anil) {} {} = .ok o :=
    exists_ok (by decide +kernel)
  have h := (Theorems.C14.C14_name_functions_no_argument (F := Int) dN {} rfl (fun _ => true) 100 true false
    "name" "" (by decide) {} {} o hb (.node 2) 1 1).1
  have e : specName dN "name" (.node 2) = "p:a" := by decide +kernel
  rw [e] at h; exact ⟨o, h⟩

/-- **`C14_name_functions_nodeset_argument`**: `name(*/@*)` from `r` is the name of the first attribute -/
theorem C14_name_functions_nodeset_argument_instance :
    ∃ (o : BOut), evalP (F := Int) dN {} o.q (.node 1) = .ok (.str "p:k") := by
  obtain ⟨o, hb⟩ : ∃ o, build (fun _ => true) 100 true false
      (.call "name" "" (.acons (.axis (atA "") (.axis (chE "") .none)) .anil)) {} {} = .ok o :=
    exists_ok (by decide +kernel)
  obtain ⟨ns, g, h1, _, h3, _⟩ := Theorems.C14.C14_name_functions_nodeset_argument (F := Int) wf_dN {} rfl
    hashInj_dN (fun _ => true) 100 false "name" "" (by decide) (.axis (atA "") (.axis (chE "") .none))
    (.cons _ _ (by decide) (.step _ (by decide))) {} {} o hb (.node 1) (by decide) 1 1
  have e := value_of_eval h1 (v' := .nodes [.attr 2 0]) (by decide +kernel)
  cases e
  have e2 : firstOr (specName dN "name") [.attr 2 0] = "p:k" := by decide +kernel
  rw [e2] at h3
  exact ⟨o, h3⟩

end XPathV.Theorems.NonVacuity.C14

section AxiomAudit
open XPathV.Theorems.NonVacuity.C14
end AxiomAudit
