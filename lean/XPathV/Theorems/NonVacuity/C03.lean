import XPathV.Theorems.C03
import XPathV.Theorems.NonVacuity.Common
/-!
# Non-vacuity of the C03 theorems

The numeric side conditions (`Agree`, `NumOK`, `LitIsNat`, the `hn`/`hx` of `nth_child`) are met by
the exact-integer algebra `toyAlg` (already shown by `C03_side_conditions_satisfiable`); here they are
discharged *together with* all other hypotheses on the document `d0` and expressions with non-empty
results.
-/
namespace XPathV.Theorems.NonVacuity.C03
open XPathV XPathV.Model XPathV.Theorems.NonVacuity XPathV.PosSem
open XPathV.PathSem XPathV.PredSem

attribute [local instance] toyAlg

/-- `/r` -/
def qR : Ast := .axis (chE "r") (.root "/")
theorem qR_frag : Frag true qR := .axis _ _ (.root _) (by decide)

/-- `[2]`, `[last() - 2]`, `[position() >= 2]` -/
def f2 : PosForm := .lit "2"
def fLm : PosForm := .lastMinus "" "2"

theorem parsed_lit : ParsesTo "/r/*[2]" (.filter (.axis (chE "") qR) f2.ast) :=
  ApiSem.parsesTo_eq (by decide +kernel)
theorem parsed_lastMinus : ParsesTo "/r/*[last() - 2]" (.filter (.axis (chE "") qR) fLm.ast) :=
  ApiSem.parsesTo_eq (by decide +kernel)

theorem f2_numOK (N : Nat) : f2.NumOK Int 2 N := toy_numOK f2 (by simp [f2]) N
theorem fLm_numOK (N : Nat) : fLm.NumOK Int 2 N := toy_numOK fLm (by simp [fLm]) N

theorem built (f : PosForm) (h : (build (fun _ => true) 100 true false (.filter (.axis (chE "") qR) f.ast) {} {}).isOk = true) :
    ∃ o, build (fun _ => true) 100 true false (.filter (.axis (chE "") qR) f.ast) {} {} = .ok o := exists_ok h

/-- **`C03_main`** on `/r/*[2]`: all hypotheses (`WF`, `nsIface`, `HashInj`, `a.axis = "child"`, `Frag`,
`Agree`, `build = .ok`, `validRef`) discharged; the result is `{b}` -/
theorem C03_main_instance : ∃ (o : BOut), ∃ out, sel (F := Int) d0 {} o.q (.node 0) = .ok out ∧
    ∀ x, x ∈ refs out ↔ x ∈ [Ref.node 4] := by
  obtain ⟨o, hb⟩ := built f2 (by decide +kernel)
  obtain ⟨out, ns, g, origins, g0, h1, h2, _, h4, _⟩ := Theorems.C03.C03_main (F := Int) wf_d0 {} rfl
    hashInj_d0 (fun _ => true) 100 (chE "") rfl qR qR_frag f2 (agree_of_numOK f2 2 _ (f2_numOK _)) {} o hb
    (.node 0) (by decide)
  have e : Spec.eval (F := Int) d0 (.filter (.axis (chE "") qR) f2.ast) ⟨.node 0, 1, 1⟩ =
      .ok (.val (.nodes [.node 4]) (some [[.node 4]])) := by decide +kernel
  rw [e] at h2; cases h2
  exact ⟨o, out, h1, h4⟩

/-- **`C03_on_naturals`** on `/r/*[last() - 2]` (`NumOK` discharged): the result is `{a[1]}` -/
theorem C03_on_naturals_instance : ∃ (o : BOut), ∃ out, sel (F := Int) d0 {} o.q (.node 0) = .ok out ∧
    ∀ x, x ∈ refs out ↔ x ∈ [Ref.node 2] := by
  obtain ⟨o, hb⟩ := built fLm (by decide +kernel)
  obtain ⟨out, ns, g, origins, g0, h1, h2, _, h4, _⟩ := Theorems.C03.C03_on_naturals (F := Int) wf_d0 {} rfl
    hashInj_d0 (fun _ => true) 100 (chE "") rfl qR qR_frag fLm 2 (fLm_numOK _) {} o hb
    (.node 0) (by decide)
  have e : Spec.eval (F := Int) d0 (.filter (.axis (chE "") qR) fLm.ast) ⟨.node 0, 1, 1⟩ =
      .ok (.val (.nodes [.node 2]) (some [[.node 2]])) := by decide +kernel
  rw [e] at h2; cases h2
  exact ⟨o, out, h1, h4⟩

/-- **`C03_then_boolean_predicates`** on `/r/*[2][@y]` -/
theorem C03_then_boolean_predicates_instance :
    ∃ (o : BOut), ∃ qi, PosChainOK Int d0 {} (chE "") f2 [.axis (atA "y") .none] o.q qi qR ⟨.node 0, 1, 1⟩ := by
  obtain ⟨o, hb⟩ : ∃ o, build (fun _ => true) 100 true false
      (stackAst (.filter (.axis (chE "") qR) f2.ast) [.axis (atA "y") .none]) {} {} = .ok o :=
    exists_ok (by decide +kernel)
  obtain ⟨qi, h⟩ := Theorems.C03.C03_then_boolean_predicates (F := Int) wf_d0 {} rfl hashInj_d0
    (fun _ => true) 100 (chE "") rfl qR qR_frag f2 (agree_of_numOK f2 2 _ (f2_numOK _))
    [.axis (atA "y") .none] (by
      intro b hb; simp only [List.mem_cons, List.not_mem_nil, or_false] at hb; subst hb
      exact .exist _ (.axis _ _ .none (by decide))) {} o hb
  exact ⟨o, qi, h (.node 0) (by decide)⟩
example : Spec.eval (F := Int) d0 (stackAst (.filter (.axis (chE "") qR) f2.ast) [.axis (atA "y") .none])
    ⟨.node 0, 1, 1⟩ = .ok (.val (.nodes [.node 4]) (some [[.node 4]])) := by decide +kernel

/-- `[@y and position() = 2]`: the positional test comes after the location step `@y` -/
def condYP : Ast := MixShape.andPos.ast (.axis (atA "y") .none) (PosForm.posCmp .eq "" "2").ast
theorem fragY : Frag false (.axis (atA "y") .none) := .exist _ (.axis _ _ .none (by decide))
theorem condYP_posCond : PosCond condYP := posCond_mix .andPos _ _ fragY (posCond_posCmp .eq "" "2")
theorem parsed_condYP : ParsesTo "/r/*[@y and position() = 2]" (.filter (.axis (chE "") qR) condYP) :=
  ApiSem.parsesTo_eq (by decide +kernel)

/-- **`C03_position_after_steps`** on `/r/*[@y and position() = 2]`: all hypotheses discharged; the
result is `{b}` (the second element child of `r`, the only one with an attribute `y`) -/
theorem C03_position_after_steps_instance : ∃ (o : BOut), ∃ out,
    sel (F := Int) d0 {} o.q (.node 0) = .ok out ∧ ∀ x, x ∈ refs out ↔ x ∈ [Ref.node 4] := by
  obtain ⟨o, hb⟩ : ∃ o, build (fun _ => true) 100 true false
      (.filter (.axis (chE "") qR) condYP) {} {} = .ok o := exists_ok (by decide +kernel)
  obtain ⟨out, ns, g, origins, g0, h1, h2, _, h4, _⟩ := Theorems.C03.C03_position_after_steps (F := Int)
    wf_d0 {} rfl hashInj_d0 (fun _ => true) 100 (chE "") rfl qR qR_frag condYP condYP_posCond {} o hb
    (.node 0) (by decide)
  have e : Spec.eval (F := Int) d0 (.filter (.axis (chE "") qR) condYP) ⟨.node 0, 1, 1⟩ =
      .ok (.val (.nodes [.node 4]) (some [[.node 4]])) := by decide +kernel
  rw [e] at h2; cases h2
  exact ⟨o, out, h1, h4⟩

/-- **`C03_bool_with_position`** on `/r/*[@x or position() = 3]`: `{a[1], b, a[2]}` — the third
element child has no `x`, it is kept by its position -/
theorem C03_bool_with_position_instance : ∃ (o : BOut), ∃ out,
    sel (F := Int) d0 {} o.q (.node 0) = .ok out ∧
      ∀ x, x ∈ refs out ↔ x ∈ [Ref.node 2, Ref.node 4, Ref.node 6] := by
  obtain ⟨o, hb⟩ : ∃ o, build (fun _ => true) 100 true false
      (.filter (.axis (chE "") qR)
        (MixShape.orPos.ast (.axis (atA "x") .none) (PosForm.posCmp .eq "" "3").ast)) {} {} = .ok o :=
    exists_ok (by decide +kernel)
  obtain ⟨out, ns, g, origins, g0, h1, h2, _, h4, _⟩ := Theorems.C03.C03_bool_with_position (F := Int)
    wf_d0 {} rfl hashInj_d0 (fun _ => true) 100 (chE "") rfl qR qR_frag .orPos (.axis (atA "x") .none)
    (.exist _ (.axis _ _ .none (by decide))) .eq "" "3" {} o hb (.node 0) (by decide)
  have e : Spec.eval (F := Int) d0 (.filter (.axis (chE "") qR)
      (MixShape.orPos.ast (.axis (atA "x") .none) (PosForm.posCmp .eq "" "3").ast)) ⟨.node 0, 1, 1⟩ =
      .ok (.val (.nodes [.node 2, .node 4, .node 6]) (some [[.node 2, .node 4, .node 6]])) := by
    decide +kernel
  rw [e] at h2; cases h2
  exact ⟨o, out, h1, h4⟩

/-- the builder-level theorem on `a[count(b) = position()]`: the hypothesis `build = .ok` holds -/
example : ∃ o, build (fun _ => true) 100 true false
    (.filter (.axis (chE "a") .none)
      (.oper "=" (.call "count" "" (.acons (.axis (chE "b") .none) .anil)) (.call "position" "" .anil)))
    {} {} = .ok o := exists_ok (by decide +kernel)

/-- **`C03_flat_input_exact`** on `r/*[2]` from the root (`q = r` is a `FlatPath`) -/
theorem C03_flat_input_exact_instance : ∃ (o : BOut), ∃ out,
    sel (F := Int) d0 {} o.q (.node 0) = .ok out ∧ refs out = [.node 4] := by
  obtain ⟨o, hb⟩ : ∃ o, build (fun _ => true) 100 true false
      (.filter (.axis (chE "") (.axis (chE "r") .none)) f2.ast) {} {} = .ok o :=
    exists_ok (by decide +kernel)
  obtain ⟨out, ns, g, h1, h2, h3⟩ := Theorems.C03.C03_flat_input_exact (F := Int) wf_d0 {} rfl hashInj_d0
    (fun _ => true) 100 (chE "") rfl (.axis (chE "r") .none) (.inr (.step _ (by decide))) f2
    (agree_of_numOK f2 2 _ (f2_numOK _)) {} o hb (.node 0) (by decide)
  have e : Spec.eval (F := Int) d0 (.filter (.axis (chE "") (.axis (chE "r") .none)) f2.ast) ⟨.node 0, 1, 1⟩ =
      .ok (.val (.nodes [.node 4]) (some [[.node 4]])) := by decide +kernel
  rw [e] at h2; cases h2
  exact ⟨o, out, h1, h3⟩

/-- **`C03_parenthesised_nth`** on `(r/*)[2]` (`LitIsNat` discharged) -/
theorem C03_parenthesised_nth_instance : ∃ (o : BOut), ∃ out,
    sel (F := Int) d0 {} o.q (.node 0) = .ok out ∧ refs out = [.node 4] := by
  obtain ⟨o, hb⟩ : ∃ o, build (fun _ => true) 100 true false
      (.filter (.group (.axis (chE "") (.axis (chE "r") .none))) (.num "2")) {} {} = .ok o :=
    exists_ok (by decide +kernel)
  obtain ⟨out, ns, g, h1, h2, h3⟩ := Theorems.C03.C03_parenthesised_nth (F := Int) wf_d0 {} rfl hashInj_d0
    (fun _ => true) 100 false (.axis (chE "") (.axis (chE "r") .none))
    (.cons _ _ (by decide) (.step _ (by decide))) "2" 2 8 (by decide) (toy_litIsNat 8) {} o hb
    (.node 0) (by decide)
  have e : Spec.eval (F := Int) d0 (.axis (chE "") (.axis (chE "r") .none)) ⟨.node 0, 1, 1⟩ =
      .ok (.val (.nodes [.node 2, .node 4, .node 6]) (some [[.node 2, .node 4, .node 6]])) := by decide +kernel
  rw [e] at h2; cases h2
  exact ⟨o, out, h1, (h3 (by decide)).1⟩

/-- `nth_child` (`hn1`, `hn`, `hx` discharged in `toyAlg`) from `r`: `*[2]` keeps `b` -/
theorem nth_child_instance : ∃ keep,
    (sel (F := Int) d0 {} (.filter (.child (chE "") .context) (.constNum "2")) (.node 1)).map
      (fun l => l.map (·.r)) = .ok keep ∧ keep = [.node 4] := by
  obtain ⟨keep, _, h2, h3⟩ := Theorems.C03.nth_child (F := Int) wf_d0 {} (chE "") "2" (.node 1) 2 (by decide)
    (by decide) (by
      intro m _
      rw [toy_lit]
      show decide ((2 : Int) = (m : Int)) = true ↔ m = 2
      rw [decide_eq_true_iff]; omega)
  refine ⟨keep, h2, ?_⟩
  rw [h3]; decide +kernel

/-- `C03_position_last` (`hfi`, `h`): at `b`, the 2nd of 3 element children of `r` -/
example : positionM d0 {} (.child (chE "") .context) (.node 4) = 2 ∧
    lastM d0 {} (.child (chE "") .context) (.node 4) = 3 := by
  have h := Theorems.C03.C03_position_last wf_d0 {} (chE "") (.child (chE "") .context) rfl (.node 1)
    (.node 4) 1 (by decide +kernel)
  have e : (childCands d0 {} (chE "") (.node 1)).length = 3 := by decide +kernel
  exact ⟨h.1, by rw [h.2.2, e]⟩

/-- `child_pos_is_proximity` (`WF`, `FlatPlan`, `sel = .ok`, the split of the result) and the three
sequence-level lemmas, whose only hypothesis is that the input plan succeeds -/
example : ∃ l, sel (F := Int) d0 {} (.child (chE "") (.child (chE "r") .context))
    (.node 0) = .ok l := by
  refine ⟨[⟨.node 2, 1, 0⟩, ⟨.node 4, 2, 0⟩, ⟨.node 6, 3, 0⟩], ?_⟩
  sel_decide
example : (2 : Nat) = 1 + ([(⟨.node 2, 1, 0⟩ : Item)].filter
    (fun y => Spec.parent? d0 y.r == Spec.parent? d0 (Ref.node 4))).length :=
  Theorems.C03.child_pos_is_proximity (F := Int) wf_d0 {} (chE "")
    (.child (chE "r") .context) (.node 0) [⟨.node 2, 1, 0⟩, ⟨.node 4, 2, 0⟩, ⟨.node 6, 3, 0⟩]
    (by sel_decide) [⟨.node 2, 1, 0⟩] [⟨.node 6, 3, 0⟩] ⟨.node 4, 2, 0⟩ rfl
example := Theorems.C03.child_positions_restart (F := Int) d0 {} (chE "") (.child (chE "r") .absolute)
  (.node 0) [⟨.node 1, 1, 0⟩] (by sel_decide)
example := Theorems.C03.merge_is_per_parent (F := Int) d0 {} (.child (chE "r") .absolute)
  (.child (chE "") .context) (.node 0) [⟨.node 1, 1, 0⟩] (by sel_decide)
example := Theorems.C03.group_positions_global (F := Int) d0 {} (.child (chE "r") .absolute)
  (.node 0) [⟨.node 1, 1, 0⟩] (by sel_decide)

end XPathV.Theorems.NonVacuity.C03

section AxiomAudit
open XPathV.Theorems.NonVacuity.C03
end AxiomAudit

/-! ## `Frag2`: input path and following predicate outside `Frag`

`/r[count(*) = 3]/*[2]` — the input path `/r[count(*) = 3]` carries a `count` predicate (in `Frag2`,
not in `Frag`); `/r/*[2][@x < @y]` — the following predicate compares two paths with `<` (in `Frag2`,
not in `Frag`).  On `d0` both select `{b}`: `r` has three element children, `b` is the second, and
at `b` `@x` = 2 < 3 = `@y`. -/
namespace XPathV.Theorems.NonVacuity.C03
open XPathV XPathV.Model XPathV.Theorems.NonVacuity XPathV.PosSem
open XPathV.PathSem XPathV.PredSem XPathV.PredSem2

attribute [local instance] toyAlg

/-- `count(*) = 3` -/
def bCnt : Ast := .oper "=" (.call "count" "" (.acons (.axis (chE "") .none) .anil)) (.num "3")
/-- `/r[count(*) = 3]` -/
def qRc : Ast := .filter qR bCnt
/-- `@x < @y` -/
def bXltY : Ast := .oper "<" (.axis (atA "x") .none) (.axis (atA "y") .none)

theorem bCnt_frag : Frag2 false bCnt :=
  .countR _ _ _ _ (by decide) (.axis _ _ .none (by decide)) (.axis _ _ (by decide) .none)
theorem qRc_frag : Frag2 true qRc := .filter _ _ (frag2_of_frag _ _ qR_frag) bCnt_frag
theorem bXltY_frag : Frag2 false bXltY :=
  .cmpPath _ _ _ (by decide) (.axis _ _ .none (by decide)) (.axis _ _ .none (by decide))

theorem parsed_full_main : ParsesTo "/r[count(*) = 3]/*[2]" (.filter (.axis (chE "") qRc) f2.ast) :=
  ApiSem.parsesTo_eq (by decide +kernel)
theorem parsed_full_chain : ParsesTo "/r/*[2][@x < @y]"
    (stackAst (.filter (.axis (chE "") qR) f2.ast) [bXltY]) :=
  ApiSem.parsesTo_eq (by decide +kernel)

/-- **`C03_main_full`** on `/r[count(*) = 3]/*[2]`: all hypotheses (`WF`, `nsIface`, `HashInj`,
`a.axis = "child"`, `Frag2`, `Agree`, `build = .ok`, `validRef`) discharged; the input path selects
`{r}` and the result is `{b}` -/
theorem C03_main_full_instance : ∃ (o : BOut), ∃ out, sel (F := Int) d0 {} o.q (.node 0) = .ok out ∧
    ∀ x, x ∈ refs out ↔ x ∈ [Ref.node 4] := by
  obtain ⟨o, hb⟩ : ∃ o, build (fun _ => true) 100 true false
      (.filter (.axis (chE "") qRc) f2.ast) {} {} = .ok o := exists_ok (by decide +kernel)
  obtain ⟨out, ns, g, origins, g0, h1, h2, h3, h4, _⟩ := Theorems.C03.C03_main_full (F := Int) wf_d0 {} rfl
    hashInj_d0 (fun _ => true) 100 (chE "") rfl qRc qRc_frag f2 (agree_of_numOK f2 2 _ (f2_numOK _)) {} o hb
    (.node 0) (by decide)
  have e : Spec.eval (F := Int) d0 (.filter (.axis (chE "") qRc) f2.ast) ⟨.node 0, 1, 1⟩ =
      .ok (.val (.nodes [.node 4]) (some [[.node 4]])) := by decide +kernel
  rw [e] at h2; cases h2
  exact ⟨o, out, h1, h4⟩
/-- the input path of the instance is not empty: `/r[count(*) = 3]` selects `r` -/
example : (Spec.eval (F := Int) d0 qRc ⟨.node 0, 1, 1⟩).map Spec.Res.value =
    .ok (.nodes [.node 1]) := by decide +kernel

/-- **`C03_on_naturals_full`** on `/r[count(*) = 3]/*[last() - 2]` (`NumOK` discharged): `{a[1]}` -/
theorem C03_on_naturals_full_instance : ∃ (o : BOut), ∃ out, sel (F := Int) d0 {} o.q (.node 0) = .ok out ∧
    ∀ x, x ∈ refs out ↔ x ∈ [Ref.node 2] := by
  obtain ⟨o, hb⟩ : ∃ o, build (fun _ => true) 100 true false
      (.filter (.axis (chE "") qRc) fLm.ast) {} {} = .ok o := exists_ok (by decide +kernel)
  obtain ⟨out, ns, g, origins, g0, h1, h2, _, h4, _⟩ := Theorems.C03.C03_on_naturals_full (F := Int) wf_d0 {} rfl
    hashInj_d0 (fun _ => true) 100 (chE "") rfl qRc qRc_frag fLm 2 (fLm_numOK _) {} o hb
    (.node 0) (by decide)
  have e : Spec.eval (F := Int) d0 (.filter (.axis (chE "") qRc) fLm.ast) ⟨.node 0, 1, 1⟩ =
      .ok (.val (.nodes [.node 2]) (some [[.node 2]])) := by decide +kernel
  rw [e] at h2; cases h2
  exact ⟨o, out, h1, h4⟩

/-- **`C03_then_boolean_predicates_full`** on `/r/*[2][@x < @y]`: the following predicate is a
path-vs-path comparison with `<` -/
theorem C03_then_boolean_predicates_full_instance :
    ∃ (o : BOut), ∃ qi, PosChainOK Int d0 {} (chE "") f2 [bXltY] o.q qi qR ⟨.node 0, 1, 1⟩ := by
  obtain ⟨o, hb⟩ : ∃ o, build (fun _ => true) 100 true false
      (stackAst (.filter (.axis (chE "") qR) f2.ast) [bXltY]) {} {} = .ok o :=
    exists_ok (by decide +kernel)
  obtain ⟨qi, h⟩ := Theorems.C03.C03_then_boolean_predicates_full (F := Int) wf_d0 {} rfl hashInj_d0
    (fun _ => true) 100 (chE "") rfl qR (frag2_of_frag _ _ qR_frag) f2
    (agree_of_numOK f2 2 _ (f2_numOK _)) [bXltY] (by
      intro b hb; simp only [List.mem_cons, List.not_mem_nil, or_false] at hb; subst hb
      exact bXltY_frag) {} o hb
  exact ⟨o, qi, h (.node 0) (by decide)⟩
example : Spec.eval (F := Int) d0 (stackAst (.filter (.axis (chE "") qR) f2.ast) [bXltY])
    ⟨.node 0, 1, 1⟩ = .ok (.val (.nodes [.node 4]) (some [[.node 4]])) := by decide +kernel
/-- the predicate decides: true at `b` (2 < 3), false at the first `a` (no `@y`) -/
example : holds (F := Int) d0 bXltY (.node 4) = true ∧ holds (F := Int) d0 bXltY (.node 2) = false := by
  decide +kernel

/-- both in one: `/r[count(*) = 3]/*[2][@x < @y]` -/
theorem C03_then_boolean_predicates_full_instance2 :
    ∃ (o : BOut), ∃ qi, PosChainOK Int d0 {} (chE "") f2 [bXltY] o.q qi qRc ⟨.node 0, 1, 1⟩ := by
  obtain ⟨o, hb⟩ : ∃ o, build (fun _ => true) 100 true false
      (stackAst (.filter (.axis (chE "") qRc) f2.ast) [bXltY]) {} {} = .ok o :=
    exists_ok (by decide +kernel)
  obtain ⟨qi, h⟩ := Theorems.C03.C03_then_boolean_predicates_full (F := Int) wf_d0 {} rfl hashInj_d0
    (fun _ => true) 100 (chE "") rfl qRc qRc_frag f2
    (agree_of_numOK f2 2 _ (f2_numOK _)) [bXltY] (by
      intro b hb; simp only [List.mem_cons, List.not_mem_nil, or_false] at hb; subst hb
      exact bXltY_frag) {} o hb
  exact ⟨o, qi, h (.node 0) (by decide)⟩
example : Spec.eval (F := Int) d0 (stackAst (.filter (.axis (chE "") qRc) f2.ast) [bXltY])
    ⟨.node 0, 1, 1⟩ = .ok (.val (.nodes [.node 4]) (some [[.node 4]])) := by decide +kernel

end XPathV.Theorems.NonVacuity.C03

namespace XPathV.Theorems.NonVacuity.C03
open XPathV XPathV.Model XPathV.Theorems.NonVacuity XPathV.PosSem
open XPathV.PathSem XPathV.PredSem XPathV.PredSem2

attribute [local instance] toyAlg

/-- **`C03_position_after_steps_full`** on `/r[count(*) = 3]/*[@y and position() = 2]`: `{b}` -/
theorem C03_position_after_steps_full_instance : ∃ (o : BOut), ∃ out,
    sel (F := Int) d0 {} o.q (.node 0) = .ok out ∧ ∀ x, x ∈ refs out ↔ x ∈ [Ref.node 4] := by
  obtain ⟨o, hb⟩ : ∃ o, build (fun _ => true) 100 true false
      (.filter (.axis (chE "") qRc) condYP) {} {} = .ok o := exists_ok (by decide +kernel)
  obtain ⟨out, ns, g, origins, g0, h1, h2, _, h4, _⟩ := Theorems.C03.C03_position_after_steps_full (F := Int)
    wf_d0 {} rfl hashInj_d0 (fun _ => true) 100 (chE "") rfl qRc qRc_frag condYP condYP_posCond {} o hb
    (.node 0) (by decide)
  have e : Spec.eval (F := Int) d0 (.filter (.axis (chE "") qRc) condYP) ⟨.node 0, 1, 1⟩ =
      .ok (.val (.nodes [.node 4]) (some [[.node 4]])) := by decide +kernel
  rw [e] at h2; cases h2
  exact ⟨o, out, h1, h4⟩

end XPathV.Theorems.NonVacuity.C03

/-! ## `PosCond2`: a `Frag2` predicate next to `position()` inside the first predicate

`/r/*[@x < @y and position() = 2]` — the boolean part `@x < @y` compares two paths with `<` (in
`Frag2`, not in `Frag`), so the condition is in `PosCond2` and not in `PosCond`.  On `d0` it selects
`{b}`: `b` is the second element child of `r` and `@x` = 2 < 3 = `@y` there. -/
namespace XPathV.Theorems.NonVacuity.C03
open XPathV XPathV.Model XPathV.Theorems.NonVacuity XPathV.PosSem XPathV.PosSem3
open XPathV.PathSem XPathV.PredSem XPathV.PredSem2

attribute [local instance] toyAlg

/-- `[@x < @y and position() = 2]` -/
def condXYP : Ast := MixShape.andPos.ast bXltY (PosForm.posCmp .eq "" "2").ast
theorem condXYP_posCond2 : PosCond2 condXYP :=
  posCond2_mix .andPos _ _ bXltY_frag (posCond2_posCmp .eq "" "2")
theorem parsed_condXYP : ParsesTo "/r/*[@x < @y and position() = 2]"
    (.filter (.axis (chE "") qR) condXYP) :=
  ApiSem.parsesTo_eq (by decide +kernel)

/-- **`C03_position_after_steps_all_full`** on `/r/*[@x < @y and position() = 2]`: all hypotheses
(`WF`, `nsIface`, `HashInj`, `a.axis = "child"`, `Frag2`, `PosCond2`, `build = .ok`, `validRef`)
discharged; the result is `{b}` -/
theorem C03_position_after_steps_all_full_instance : ∃ (o : BOut), ∃ out,
    sel (F := Int) d0 {} o.q (.node 0) = .ok out ∧ ∀ x, x ∈ refs out ↔ x ∈ [Ref.node 4] := by
  obtain ⟨o, hb⟩ : ∃ o, build (fun _ => true) 100 true false
      (.filter (.axis (chE "") qR) condXYP) {} {} = .ok o := exists_ok (by decide +kernel)
  obtain ⟨out, ns, g, origins, g0, h1, h2, _, h4, _⟩ :=
    Theorems.C03.C03_position_after_steps_all_full (F := Int)
      wf_d0 {} rfl hashInj_d0 (fun _ => true) 100 (chE "") rfl qR (frag2_of_frag _ _ qR_frag) condXYP
      condXYP_posCond2 {} o hb (.node 0) (by decide)
  have e : Spec.eval (F := Int) d0 (.filter (.axis (chE "") qR) condXYP) ⟨.node 0, 1, 1⟩ =
      .ok (.val (.nodes [.node 4]) (some [[.node 4]])) := by decide +kernel
  rw [e] at h2; cases h2
  exact ⟨o, out, h1, h4⟩

/-- **`C03_bool_with_position_full`** on `/r[count(*) = 3]/*[@x < @y or position() = 3]`: input path
and boolean part both outside `Frag`; `{b, a[2]}` — `b` by `@x < @y`, the third element child by its
position -/
theorem C03_bool_with_position_full_instance : ∃ (o : BOut), ∃ out,
    sel (F := Int) d0 {} o.q (.node 0) = .ok out ∧
      ∀ x, x ∈ refs out ↔ x ∈ [Ref.node 4, Ref.node 6] := by
  obtain ⟨o, hb⟩ : ∃ o, build (fun _ => true) 100 true false
      (.filter (.axis (chE "") qRc)
        (MixShape.orPos.ast bXltY (PosForm.posCmp .eq "" "3").ast)) {} {} = .ok o :=
    exists_ok (by decide +kernel)
  obtain ⟨out, ns, g, origins, g0, h1, h2, _, h4, _⟩ :=
    Theorems.C03.C03_bool_with_position_full (F := Int)
      wf_d0 {} rfl hashInj_d0 (fun _ => true) 100 (chE "") rfl qRc qRc_frag .orPos bXltY bXltY_frag
      .eq "" "3" {} o hb (.node 0) (by decide)
  have e : Spec.eval (F := Int) d0 (.filter (.axis (chE "") qRc)
      (MixShape.orPos.ast bXltY (PosForm.posCmp .eq "" "3").ast)) ⟨.node 0, 1, 1⟩ =
      .ok (.val (.nodes [.node 4, .node 6]) (some [[.node 4, .node 6]])) := by
    decide +kernel
  rw [e] at h2; cases h2
  exact ⟨o, out, h1, h4⟩

end XPathV.Theorems.NonVacuity.C03

/-! ## `C03_from_text`: positional steps from the expression text

The hypotheses of `C03_from_text` (`a.axis = "child"`, `Frag2`, the parse of the text) and those of
its second disjunct (`WF`, `nsIface`, `HashInj`, `Agree`, `validRef`) discharged on `d0`; the first
disjunct (a builder error) is excluded by running `compile` on the text. -/
namespace XPathV.Theorems.NonVacuity.C03
open XPathV XPathV.Model XPathV.Theorems.NonVacuity XPathV.PosSem
open XPathV.PathSem XPathV.PredSem XPathV.PredSem2

attribute [local instance] toyAlg

/-- **`C03_from_text`** at the text `/r/*[2]`: `Select` and `Evaluate` on the compiled text yield
`{b}`, the second element child of `r` -/
theorem C03_from_text_instance : ∃ p l, compile {} none "/r/*[2]".toList = .ok p ∧
    selectAll (F := Int) d0 {} p (.node 0) = .ok l ∧
    evaluate (F := Int) d0 {} p (.node 0) = .ok (.nodes l) ∧ ∀ x, x ∈ l ↔ x ∈ [Ref.node 4] := by
  rcases Theorems.C03.C03_from_text (fun _ => true) none _ (chE "") rfl qR
    (frag2_of_frag _ _ qR_frag) f2 parsed_lit with ⟨e, he⟩ | ⟨p, hp, _, h⟩
  · exact absurd he (by
      have : (compile {} none "/r/*[2]".toList).isOk = true := by decide +kernel
      intro h'; rw [h'] at this; cases this)
  · obtain ⟨l, nsl, h1, h2, h3, h4⟩ := h Int d0 wf_d0 {} rfl hashInj_d0
      (agree_of_numOK f2 2 _ (f2_numOK _)) (.node 0) (by decide)
    have e : Spec.evalTop (F := Int) d0 (.filter (.axis (chE "") qR) f2.ast) (.node 0) =
        .ok (.nodes [.node 4]) := by decide +kernel
    rw [e] at h3; cases h3
    exact ⟨p, l, hp, h1, h2, h4⟩

/-- `[last()]` -/
def fL : PosForm := .last ""

theorem fL_numOK (N : Nat) : fL.NumOK Int 2 N :=
  toy_numOK fL (by
    intro lex h
    rcases h with h | ⟨_, _, h⟩ | ⟨_, h⟩ <;> cases h) N

theorem parsed_cnt_last : ParsesTo "/r[count(*) = 3]/*[last()]" (.filter (.axis (chE "") qRc) fL.ast) :=
  ApiSem.parsesTo_eq (by decide +kernel)

/-- **`C03_from_text`** at the text `/r[count(*) = 3]/*[last()]` (input path in `Frag2`, not in
`Frag`): `{a[2]}`, the last element child of `r` -/
theorem C03_from_text_last_instance : ∃ p l,
    compile {} none "/r[count(*) = 3]/*[last()]".toList = .ok p ∧
    selectAll (F := Int) d0 {} p (.node 0) = .ok l ∧
    evaluate (F := Int) d0 {} p (.node 0) = .ok (.nodes l) ∧ ∀ x, x ∈ l ↔ x ∈ [Ref.node 6] := by
  rcases Theorems.C03.C03_from_text (fun _ => true) none _ (chE "") rfl qRc qRc_frag fL
    parsed_cnt_last with ⟨e, he⟩ | ⟨p, hp, _, h⟩
  · exact absurd he (by
      have : (compile {} none "/r[count(*) = 3]/*[last()]".toList).isOk = true := by decide +kernel
      intro h'; rw [h'] at this; cases this)
  · obtain ⟨l, nsl, h1, h2, h3, h4⟩ := h Int d0 wf_d0 {} rfl hashInj_d0
      (agree_of_numOK fL 2 _ (fL_numOK _)) (.node 0) (by decide)
    have e : Spec.evalTop (F := Int) d0 (.filter (.axis (chE "") qRc) fL.ast) (.node 0) =
        .ok (.nodes [.node 6]) := by decide +kernel
    rw [e] at h3; cases h3
    exact ⟨p, l, hp, h1, h2, h4⟩

theorem parsed_chain : ParsesTo "/r[count(*) = 3]/*[2][@x < @y]"
    (stackAst (.filter (.axis (chE "") qRc) f2.ast) [bXltY]) :=
  ApiSem.parsesTo_eq (by decide +kernel)

/-- **`C03_from_text_then_boolean_predicates`** at the text `/r[count(*) = 3]/*[2][@x < @y]`: `{b}` -/
theorem C03_from_text_then_boolean_predicates_instance : ∃ p l,
    compile {} none "/r[count(*) = 3]/*[2][@x < @y]".toList = .ok p ∧
    selectAll (F := Int) d0 {} p (.node 0) = .ok l ∧
    evaluate (F := Int) d0 {} p (.node 0) = .ok (.nodes l) ∧ ∀ x, x ∈ l ↔ x ∈ [Ref.node 4] := by
  rcases Theorems.C03.C03_from_text_then_boolean_predicates (fun _ => true) none _ (chE "") rfl qRc
    qRc_frag f2 [bXltY] (by
      intro b hb; simp only [List.mem_cons, List.not_mem_nil, or_false] at hb; subst hb
      exact bXltY_frag) parsed_chain with ⟨e, he⟩ | ⟨p, hp, _, h⟩
  · exact absurd he (by
      have : (compile {} none "/r[count(*) = 3]/*[2][@x < @y]".toList).isOk = true := by
        decide +kernel
      intro h'; rw [h'] at this; cases this)
  · obtain ⟨l, nsl, h1, h2, h3, h4⟩ := h Int d0 wf_d0 {} rfl hashInj_d0
      (agree_of_numOK f2 2 _ (f2_numOK _)) (.node 0) (by decide)
    have e : Spec.evalTop (F := Int) d0 (stackAst (.filter (.axis (chE "") qRc) f2.ast) [bXltY])
        (.node 0) = .ok (.nodes [.node 4]) := by decide +kernel
    rw [e] at h3; cases h3
    exact ⟨p, l, hp, h1, h2, h4⟩

end XPathV.Theorems.NonVacuity.C03

section AxiomAuditFromText
open XPathV.Theorems.NonVacuity.C03
end AxiomAuditFromText
