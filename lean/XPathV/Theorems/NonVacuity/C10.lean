import XPathV.Theorems.C10
import XPathV.Theorems.NonVacuity.Common
import XPathV.Theorems.NonVacuity.C10PathShape
/-!
# Non-vacuity of the C10 theorems

The parser theorems take a successful run (`parseExpression … = .ok (a, st')`, `parseChain …`,
`parse … = .ok a`) as hypothesis; the full-grammar theorems take `tokVsRel text toks`,
`refParseFull ns toks = some b` / `Parses ns toks b` and `nesting b < 200`.  `Lemmas/ParserGrammar.lean`
and `Spec/FullGrammar.lean` hold examples on *token lists*; here the hypotheses are discharged
starting from expression *texts* through the real scanner.
-/
namespace XPathV.Theorems.NonVacuity.C10
open XPathV XPathV.Model XPathV.Theorems.NonVacuity
open XPathV.Spec.Grammar XPathV.Lemmas.ParserGrammar XPathV.Lemmas.ParserShape
open XPathV.Bridge XPathV.Spec.Full XPathV.Lemmas.ParserFull

/-- the parser state at the first token of a text -/
def stOf (t : String) : PState := ⟨okVal (Scan.init t.toList), 0⟩

abbrev cfg0 : PCfg := defaultCfg none

/-! ## `parseExpression` / `parse` succeed: `C10_main`, `C10_whole_text`, `parse_tree_stratified` -/

def t1 : String := "1 + 2 * -3 - 4 < 5 or a | b and c"
/-- `((1 + (2 * -3)) - 4 < 5) or ((a | b) and c)` -/
def l1 : Ast :=
  .oper "<" (.oper "-" (.oper "+" (.num "1") (.oper "*" (.num "2") (.oper "*" (.num "3") (.num "-1")))) (.num "4"))
    (.num "5")
def r1 : Ast := .oper "and" (.oper "|" (.axis (chE "a") .none) (.axis (chE "b") .none)) (.axis (chE "c") .none)
def a1 : Ast := .oper "or" l1 r1

theorem run1 : parseExpression 400 cfg0 (stOf t1) =
    .ok ((okVal (parseExpression 400 cfg0 (stOf t1))).1, (okVal (parseExpression 400 cfg0 (stOf t1))).2) :=
  eq_ok_pair (by decide +kernel)

theorem run1_tree : (okVal (parseExpression 400 cfg0 (stOf t1))).1 = a1 := by decide +kernel

theorem t1_parsed : ParsesTo t1 a1 := ApiSem.parsesTo_eq (by decide +kernel)

/-- **`C10_main`**: the hypothesis holds for `1 + 2 * -3 - 4 < 5 or a | b and c`; the tree is the one
of every derivation of the consumed chain -/
theorem C10_main_instance : ∃ ts, (∃ e, Derives 0 ts e) ∧ ∀ e, Derives 0 ts e → a1 = e.toAst := by
  obtain ⟨ts, st'', _, _, h3, h4⟩ := Theorems.C10.C10_main run1
  rw [run1_tree] at h4
  exact ⟨ts, h3, h4⟩

/-- **`C10_whole_text`** -/
theorem C10_whole_text_instance : ∃ ts, (∃ e, Derives 0 ts e) ∧ ∀ e, Derives 0 ts e → a1 = e.toAst := by
  obtain ⟨s, ts, st', _, _, _, h3, h4⟩ := Theorems.C10.C10_whole_text t1_parsed
  exact ⟨ts, h3, h4⟩

/-- **`parse_tree_stratified`** -/
theorem strat1 : Strat cfg0 stages a1 := by
  have := Theorems.C10.parse_tree_stratified run1
  rwa [run1_tree] at this

/-- **`operands_never_looser`** at the root `or` node.  Its hypothesis `¬ FromPath cfg (.oper op l r)`
("the node is not itself a primary") is discharged with `not_fromPath_of_ne_union`
(`C10PathShape.lean`: `parsePathExpr` returns no operator node except the `|` of a step sequence) —
no `¬ FromPath` fact was proved anywhere before.  Conclusion: `<` on the left is not looser than
`or`, `and` on the right is strictly tighter -/
theorem operands_never_looser_instance :
    tierRank "or" ≤ tierRank "<" ∧ (tierRank "or" < tierRank "and" ∨
      ("and" = "*" ∧ Ast.axis (chE "c") .none = .num "-1" ∧ tierRank "or" ≤ 5)) := by
  have h := Theorems.C10.operands_never_looser (cfg := cfg0) (op := "or") (l := l1) (r := r1) strat1
    (not_fromPath_of_ne_union (by decide))
  exact ⟨h.1 "<" _ _ rfl (not_fromPath_of_ne_union (by decide)),
    h.2 "and" _ _ rfl (not_fromPath_of_ne_union (by decide))⟩
example : tierRank "or" = 0 ∧ tierRank "<" = 3 ∧ tierRank "and" = 1 := by decide

/-! ## tier loop and unary minus: `tier_loop_left_assoc`, `tier_loop_stop`, `unary_encoding`,
`tier_loop_left_nested`, `C10_every_tier` -/

/-- the state at `+` in `+ 2 * 3 - 4` -/
def stPlus : PState := stOf "+ 2 * 3 - 4"
def stAfterPlus : PState := okVal stPlus.next
def mulRest : List Stage := stages.drop 5
theorem next_plus : stPlus.next = .ok stAfterPlus := eq_ok_okVal (by decide +kernel)
theorem chain_after_plus : parseChain 100 cfg0 mulRest stAfterPlus =
    .ok ((okVal (parseChain 100 cfg0 mulRest stAfterPlus)).1, (okVal (parseChain 100 cfg0 mulRest stAfterPlus)).2) :=
  eq_ok_pair (by decide +kernel)
example : (okVal (parseChain 100 cfg0 mulRest stAfterPlus)).1 = .oper "*" (.num "2") (.num "3") := by
  decide +kernel

/-- `tier_loop_left_assoc` (`hop`, `hnext`, `hr`): with accumulator `1` at `+ 2 * 3 - 4` -/
example : tierLoop 101 cfg0 ["+", "-"] mulRest (.num "1") stPlus =
    tierLoop 100 cfg0 ["+", "-"] mulRest
      (.oper "+" (.num "1") (okVal (parseChain 100 cfg0 mulRest stAfterPlus)).1)
      (okVal (parseChain 100 cfg0 mulRest stAfterPlus)).2 :=
  Theorems.C10.tier_loop_left_assoc 100 cfg0 ["+", "-"] mulRest (.num "1") stPlus stAfterPlus _ "+" _
    (by decide +kernel) next_plus chain_after_plus

/-- `tier_loop_stop` (`hop`): at `]` no additive operator follows -/
example : tierLoop 1 cfg0 ["+", "-"] mulRest (.num "1") (stOf "] x") = .ok (.num "1", stOf "] x") :=
  Theorems.C10.tier_loop_stop 0 cfg0 ["+", "-"] mulRest (.num "1") (stOf "] x") (by decide +kernel)

/-- `unary_encoding` (`hm`, `hx`) at `- - - a | b`: three minus signs -/
def stNeg : PState := stOf "- - - a | b"
def unaryRest : List Stage := stages.drop 7
theorem skip_neg : skipMinus 11 stNeg false = .ok ((okVal (skipMinus 11 stNeg false)).1, (okVal (skipMinus 11 stNeg false)).2) :=
  eq_ok_pair (by decide +kernel)
theorem chain_neg : parseChain 10 cfg0 unaryRest (okVal (skipMinus 11 stNeg false)).2 =
    .ok ((okVal (parseChain 10 cfg0 unaryRest (okVal (skipMinus 11 stNeg false)).2)).1,
         (okVal (parseChain 10 cfg0 unaryRest (okVal (skipMinus 11 stNeg false)).2)).2) :=
  eq_ok_pair (by decide +kernel)
example := Theorems.C10.unary_encoding 10 cfg0 unaryRest stNeg _ _ _ _ skip_neg chain_neg
example : (okVal (skipMinus 11 stNeg false)).1 = true ∧
    (okVal (parseChain 10 cfg0 unaryRest (okVal (skipMinus 11 stNeg false)).2)).1 =
      .oper "|" (.axis (chE "a") .none) (.axis (chE "b") .none) := by decide +kernel

/-- `tier_loop_left_nested` (`h`): the additive loop over `+ 2 * 3 - 4` from accumulator `1` -/
theorem loop_run : tierLoop 200 cfg0 ["+", "-"] mulRest (.num "1") stPlus =
    .ok ((okVal (tierLoop 200 cfg0 ["+", "-"] mulRest (.num "1") stPlus)).1,
         (okVal (tierLoop 200 cfg0 ["+", "-"] mulRest (.num "1") stPlus)).2) :=
  eq_ok_pair (by decide +kernel)
example := Theorems.C10.tier_loop_left_nested 200 (.num "1") stPlus loop_run
example : (okVal (tierLoop 200 cfg0 ["+", "-"] mulRest (.num "1") stPlus)).1 =
    .oper "-" (.oper "+" (.num "1") (.oper "*" (.num "2") (.num "3"))) (.num "4") := by decide +kernel

/-- `C10_every_tier` (`hk`, `h`) at tier 4 (additive) on `1 + 2 * 3 - 4` -/
theorem tier4_run : parseChain 200 cfg0 (stages.drop 4) (stOf "1 + 2 * 3 - 4") =
    .ok ((okVal (parseChain 200 cfg0 (stages.drop 4) (stOf "1 + 2 * 3 - 4"))).1,
         (okVal (parseChain 200 cfg0 (stages.drop 4) (stOf "1 + 2 * 3 - 4"))).2) :=
  eq_ok_pair (by decide +kernel)
example := Theorems.C10.C10_every_tier (k := 4) (by decide) tier4_run

/-- `C10_operator_token_unique` (`h1`, `h2`, `m1`, `m2`): the token `div` -/
example : "div" = "div" :=
  Theorems.C10.C10_operator_token_unique (s := (stOf "div 2").s) (by decide) (by decide)
    (by decide +kernel) (by decide +kernel)

/-- `C10_grammar_unambiguous` (two derivations of one chain; `Lemmas/ParserGrammar.lean:875` ff.
exhibit derivations) -/
example (e : E) (h : Derives 0 [.atom (.num "1"), .op "-", .atom (.num "2"), .op "-", .atom (.num "3")] e) :
    e = .bin "-" (.bin "-" (.atom (.num "1")) (.atom (.num "2"))) (.atom (.num "3")) :=
  Theorems.C10.C10_grammar_unambiguous h (refTier_sound (f := 40) (by decide))

/-! ## the full grammar: `tokVsRel`, `refParseFull = some b` / `Parses`, `nesting b < 200` -/

def t2 : String := "a/b[1] | //c[@k='x' and not(d)]/e[position() < last() - 1] = -3 * (f + count(g))"
/-- the scanner's token stream of `t2`, as the reference grammar's tokens -/
def toks2 : List TokV := (tokVs t2.toList).getD []
/-- the reference parser's tree -/
def b2 : Ast := (refParseFull none toks2).getD .none

theorem toks2_ok : tokVs t2.toList = some toks2 := by decide +kernel
theorem toks2_len : toks2.length = 45 := by decide +kernel
theorem b2_ok : refParseFull none toks2 = some b2 := by decide +kernel
theorem b2_nesting : nesting b2 = 2 := by decide +kernel

theorem htoks2 : tokVsRel t2.toList toks2 := Theorems.C10.C10_full_grammar_driver_tokens toks2_ok

/-- **`C10_full_grammar_complete`**: all three hypotheses discharged from the text -/
theorem C10_full_grammar_complete_instance :
    ∃ a, parse (fuelFor t2.toList) cfg0 t2.toList = .ok a ∧ normConv a = normConv b2 :=
  Theorems.C10.C10_full_grammar_complete htoks2 b2_ok (by rw [b2_nesting]; decide)

/-- **`C10_full_grammar_tree`** -/
theorem C10_full_grammar_tree_instance :
    ∃ a, parse (fuelFor t2.toList) cfg0 t2.toList = .ok a ∧ normConv a = normConv b2 ∧ Parses none toks2 b2 :=
  Theorems.C10.C10_full_grammar_tree htoks2 b2_ok (by rw [b2_nesting]; decide)

/-- **`C10_grammar_tree_is_parsed`** (`Parses` from `C10_reference_parser_decides_grammar`) -/
theorem C10_grammar_tree_is_parsed_instance :
    ∃ a, parse (fuelFor t2.toList) cfg0 t2.toList = .ok a ∧ normConv a = normConv b2 :=
  Theorems.C10.C10_grammar_tree_is_parsed htoks2 (Theorems.C10.C10_reference_parser_decides_grammar.1 b2_ok)
    (by rw [b2_nesting]; decide)

/-- `C10_full_grammar_unambiguous` -/
example (a : Ast) (h : Parses none toks2 a) : a = b2 :=
  Theorems.C10.C10_full_grammar_unambiguous h (Theorems.C10.C10_reference_parser_decides_grammar.1 b2_ok)

/-! ### `C10_full_grammar_reject_only_deep`: 200 nested parentheses -/

/-- `(((…(a)…)))`, 200 deep -/
def deep : List Char := List.replicate 200 '(' ++ ['a'] ++ List.replicate 200 ')'
def toksD : List TokV := (tokVs deep).getD []
def bD : Ast := (refParseFull none toksD).getD .none
theorem toksD_ok : tokVs deep = some toksD := by decide +kernel
theorem bD_ok : refParseFull none toksD = some bD := by decide +kernel
theorem deep_err : parse (fuelFor deep) cfg0 deep = .error .tooComplex := by decide +kernel

/-- **`C10_full_grammar_reject_only_deep`** (`htoks`, `href`, `herr` all hold for the 200-deep text) -/
theorem C10_full_grammar_reject_only_deep_instance : PErr.tooComplex = .tooComplex ∧ 200 ≤ nesting bD :=
  Theorems.C10.C10_full_grammar_reject_only_deep (Theorems.C10.C10_full_grammar_driver_tokens toksD_ok)
    bD_ok deep_err
example : nesting bD = 200 := by decide +kernel

/-- … and 199 deep is accepted (the bound of `C10_full_grammar_complete` is sharp) -/
example : (parse (fuelFor (List.replicate 199 '(' ++ ['a'] ++ List.replicate 199 ')')) cfg0
    (List.replicate 199 '(' ++ ['a'] ++ List.replicate 199 ')')).isOk = true := by decide +kernel

/-- a small text with the token list and the tree spelled out -/
example : tokVs "a/b[1]".toList =
      some [Spec.Full.nm "a", TokV.slash, Spec.Full.nm "b", TokV.lbracket, TokV.num "1", TokV.rbracket] ∧
    refParseFull none [Spec.Full.nm "a", TokV.slash, Spec.Full.nm "b", TokV.lbracket, TokV.num "1", TokV.rbracket] =
      some (.filter (child "b" (child "a")) (.num "1")) := by decide +kernel

end XPathV.Theorems.NonVacuity.C10

section AxiomAudit
open XPathV.Theorems.NonVacuity.C10
end AxiomAudit
