import XPathV.Lemmas.ParserShape
/-!
# `parsePathExpr` never returns a binary-operator node other than the `|` of a step sequence

Needed to discharge the `¬ FromPath cfg (.oper op l r)` hypotheses of `operands_never_looser`
(`Theorems/C10`): nothing in the library proves a `¬ FromPath` fact.
-/
namespace XPathV.Theorems.NonVacuity.C10
open XPathV XPathV.Model XPathV.Lemmas.ParserShape

/-- not an operator node, except a `|` node -/
def NoBin (a : Ast) : Prop := ∀ op l r, a = .oper op l r → op = "|"

theorem noBin_axis (i : AxisInfo) (x : Ast) : NoBin (.axis i x) := by intro _ _ _ h; cases h
theorem noBin_mkAxis (ax : String) (t : NType) (a b c : String) (x : Ast) : NoBin (mkAxis ax t a b c x) :=
  noBin_axis _ _
theorem noBin_filter (x c : Ast) : NoBin (.filter x c) := by intro _ _ _ h; cases h
theorem noBin_union (x y : Ast) : NoBin (.oper "|" x y) := by intro _ _ _ h; cases h; rfl

/-- every successful outcome satisfies `P` -/
def OkP {α : Type} (r : Except PErr (Ast × α)) (P : Ast → Prop) : Prop := ∀ a s, r = .ok (a, s) → P a

theorem OkP.bind {α β : Type} {x : Except PErr β} {k : β → Except PErr (Ast × α)} {P : Ast → Prop}
    (h : ∀ b, OkP (k b) P) : OkP (x >>= k) P := by
  intro a s hr
  obtain ⟨b, _, hb⟩ := bind_ok hr
  exact h b a s hb

theorem OkP.pure {α : Type} {a : Ast} {s : α} {P : Ast → Prop} (h : P a) :
    OkP (Pure.pure (a, s) : Except PErr (Ast × α)) P := by
  intro a' s' hr; cases hr; exact h

theorem OkP.error {α : Type} {e : PErr} {P : Ast → Prop} : OkP (.error e : Except PErr (Ast × α)) P := by
  intro a' s' hr; cases hr

macro "okp_step" : tactic => `(tactic| first
  | exact OkP.error
  | exact OkP.pure (noBin_mkAxis _ _ _ _ _ _)
  | exact OkP.pure (noBin_axis _ _)
  | (refine OkP.bind ?_; rintro ⟨_, _⟩)
  | (refine OkP.bind ?_; intro _)
  | split)

theorem nodeTest_noBin (cfg : PCfg) (inp : Ast) (axis : String) (mt : NType) (st : PState) :
    OkP (parseNodeTest cfg inp axis mt st) NoBin := by
  unfold parseNodeTest
  dsimp only
  repeat okp_step


theorem OkP.bind' {α β : Type} {x : Except PErr (Ast × β)} {k : Ast × β → Except PErr (Ast × α)}
    {P Q : Ast → Prop} (hx : OkP x Q) (h : ∀ b s, Q b → OkP (k (b, s)) P) : OkP (x >>= k) P := by
  intro a s hr
  obtain ⟨⟨b, t⟩, hb1, hb⟩ := bind_ok hr
  exact h b t (hx b t hb1) a s hb

theorem OkP.pure' {α : Type} {a : Ast} {s : α} {P : Ast → Prop} (h : P a) :
    OkP (.ok (a, s) : Except PErr (Ast × α)) P := by
  intro a' s' hr; cases hr; exact h

theorem noBin_group (x : Ast) : NoBin (.group x) := by intro _ _ _ h; cases h
theorem noBin_of_const {x : Ast} (h : isConstOperand x = true) : NoBin x := by
  intro op l r e; subst e; simp [isConstOperand] at h

/-- the statement for all the mutually recursive parser functions below `parsePathExpr`, at fuel `f` -/
structure AllOk (f : Nat) : Prop where
  path : ∀ cfg st, OkP (parsePathExpr f cfg st) NoBin
  filt : ∀ cfg st, OkP (parseFilterExpr f cfg st) NoBin
  prim : ∀ cfg st, OkP (parsePrimary f cfg st) NoBin
  meth : ∀ cfg st, OkP (parseMethod f cfg st) NoBin
  loc : ∀ cfg st, OkP (parseLocationPath f cfg st) NoBin
  rel : ∀ cfg inp st, OkP (parseRelLoc f cfg inp st) NoBin
  step : ∀ cfg inp st, OkP (parseStep f cfg inp st) NoBin
  preds : ∀ cfg opnd st, NoBin opnd → OkP (stepPreds f cfg opnd st) NoBin
  seq : ∀ cfg inp st, OkP (parseSequence f cfg inp st) NoBin
  sloop : ∀ cfg inp opnd st, NoBin opnd → OkP (seqLoop f cfg inp opnd st) NoBin

theorem allOk : ∀ f, AllOk f := by
  intro f
  induction f with
  | zero =>
    refine ⟨?_, ?_, ?_, ?_, ?_, ?_, ?_, ?_, ?_, ?_⟩ <;> intros <;>
      simp only [parsePathExpr, parseFilterExpr, parsePrimary, parseMethod, parseLocationPath, parseRelLoc,
        parseStep, stepPreds, parseSequence, seqLoop] <;> exact OkP.error
  | succ f ih =>
    refine ⟨?_, ?_, ?_, ?_, ?_, ?_, ?_, ?_, ?_, ?_⟩
    · intro cfg st
      rw [parsePathExpr]
      split
      · refine OkP.bind' (ih.filt cfg st) fun b s hb => ?_
        dsimp only
        split
        · exact OkP.bind fun _ => ih.rel _ _ _
        · exact OkP.bind fun _ => ih.rel _ _ _
        · exact OkP.pure hb
      · exact ih.loc _ _
    · intro cfg st
      rw [parseFilterExpr]
      exact OkP.bind' (ih.prim cfg st) fun b s hb => ih.preds _ _ _ hb
    · intro cfg st
      rw [parsePrimary]
      split
      · exact OkP.bind fun _ => OkP.pure (by intro _ _ _ h; cases h)
      · exact OkP.bind fun _ => OkP.pure (by intro _ _ _ h; cases h)
      · refine OkP.bind fun _ => ?_
        split
        · exact OkP.bind fun _ => OkP.pure (by intro _ _ _ h; cases h)
        · exact OkP.error
      · refine OkP.bind fun _ => OkP.bind fun ⟨o, _⟩ => OkP.bind fun _ => OkP.pure ?_
        split
        · rename_i hc; exact noBin_of_const hc
        · exact noBin_group _
      · split
        · exact ih.meth _ _
        · exact OkP.pure (by intro _ _ _ h; cases h)
      · exact OkP.pure (by intro _ _ _ h; cases h)
    · intro cfg st
      rw [parseMethod]
      refine OkP.bind fun _ => OkP.bind fun _ => ?_
      dsimp only
      split
      · exact OkP.bind fun ⟨_, _⟩ => OkP.bind fun _ => OkP.pure (by intro _ _ _ h; cases h)
      · exact OkP.bind fun ⟨_, _⟩ => OkP.bind fun _ => OkP.pure (by intro _ _ _ h; cases h)
    · intro cfg st
      rw [parseLocationPath]
      split
      · refine OkP.bind fun _ => ?_
        split
        · exact ih.rel _ _ _
        · exact OkP.pure (by intro _ _ _ h; cases h)
      · exact OkP.bind fun _ => ih.rel _ _ _
      · exact ih.rel _ _ _
    · intro cfg inp st
      rw [parseRelLoc]
      refine OkP.bind' (ih.step cfg inp st) fun b s hb => ?_
      dsimp only
      split
      · exact OkP.bind fun _ => ih.rel _ _ _
      · exact OkP.bind fun _ => ih.rel _ _ _
      · exact OkP.pure hb
    · intro cfg inp st
      rw [parseStep]
      split
      · refine OkP.bind fun _ => ?_
        split
        · exact OkP.pure (by split <;> exact noBin_mkAxis _ _ _ _ _ _)
        · exact ih.preds _ _ _ (by split <;> exact noBin_mkAxis _ _ _ _ _ _)
      · split
        · exact ih.seq _ _ _
        · exact OkP.bind fun _ => OkP.bind' (nodeTest_noBin _ _ _ _ _) fun b s hb => ih.preds _ _ _ hb
        · exact OkP.bind fun _ => OkP.bind' (nodeTest_noBin _ _ _ _ _) fun b s hb => ih.preds _ _ _ hb
        · exact OkP.bind' (nodeTest_noBin _ _ _ _ _) fun b s hb => ih.preds _ _ _ hb
    · intro cfg opnd st hop
      rw [stepPreds]
      split
      · exact OkP.bind fun ⟨_, _⟩ => ih.preds _ _ _ (noBin_filter _ _)
      · exact OkP.pure hop
    · intro cfg inp st
      rw [parseSequence]
      split
      · exact OkP.error
      · refine OkP.bind fun _ => OkP.bind' (ih.step _ _ _) fun b s hb =>
          OkP.bind' (ih.sloop _ _ _ _ hb) fun b' s' hb' => OkP.bind fun _ => OkP.pure hb'
    · intro cfg inp opnd st hop
      rw [seqLoop]
      split
      · exact OkP.bind fun _ => OkP.bind fun ⟨_, _⟩ => ih.sloop _ _ _ _ (noBin_union _ _)
      · exact OkP.pure hop

/-- **the only binary-operator node `parsePathExpr` can return is the `|` of a step sequence
`(a, b)`**: every other operator node of a parse tree is *not* a primary -/
theorem not_fromPath_of_ne_union {cfg : PCfg} {op : String} {l r : Ast} (h : op ≠ "|") :
    ¬ FromPath cfg (.oper op l r) := by
  rintro ⟨f, st, st', hp⟩
  exact h ((allOk f).path cfg st _ _ hp op l r rfl)

end XPathV.Theorems.NonVacuity.C10
