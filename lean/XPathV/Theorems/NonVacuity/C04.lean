import XPathV.Lemmas.Pull2Gen.NonVacuity
import XPathV.Theorems.C04
import XPathV.Theorems.NonVacuity.Common
import XPathV.Theorems.NonVacuity.C02
/-!
# Non-vacuity of the C04 theorems

`C04_history_independent` and `clone_is_fresh_and_state_independent` have no hypotheses (the first
is true by construction of `runHistory`: the state threaded through a history is the plan itself —
what ties this to the code are the T0 facts `api_clones`/`clone_table_ok`).  Below: a concrete
history with non-empty, *different* outcomes, and `clone_is_fresh_all_iterators` with its `DecOK`
hypothesis discharged on a reachable mid-iteration state of a filter machine.
-/
namespace XPathV.Theorems.NonVacuity.C04
open XPathV XPathV.Model XPathV.Theorems.NonVacuity XPathV.PosSem XPathV.Theorems.C04
open XPathV.Theorems.NonVacuity.C02

attribute [local instance] toyAlg

/-- `C04_history_independent` on the plan of `/r/*[not(@y)]`: a `Select` abandoned after one
result, an `Evaluate` from an attribute, then a full `Select` -/
example : (runHistory (F := Int) {} planD ([.select d0 (.node 0) 1, .evaluate d0 (.attr 4 1)] ++ [.select d0 (.node 6) 5])).getLast? =
    some (outcome (F := Int) {} planD (.select d0 (.node 6) 5)) :=
  C04_history_independent (F := Int) {} planD _ _
/-- the outcomes in that history are successful, non-empty and differ from one another -/
example : outcome (F := Int) {} planD (.select d0 (.node 0) 1) = .ok (.nodes [.node 2]) ∧
    outcome (F := Int) {} planD (.select d0 (.node 6) 5) = .ok (.nodes [.node 2, .node 6]) := by
  simp only [outcome, selectAll, planD, inpC, predD]
  constructor <;> sel_decide

/-- **`clone_is_fresh_all_iterators`** (`DecOK`) at the mid-iteration state `qD1` -/
theorem clone_is_fresh_all_iterators_instance :
    qD1.clone.evaluate = qD1.clone ∧ qD1.clone.Inv d0 ∧
      sel (F := Int) d0 {} qD1.plan (.node 0) = .ok (rem2 d0 {} decD (.node 0) qD1.clone) :=
  clone_is_fresh_all_iterators (F := Int) d0 {} decD qD1
    (reach_decOK (by decide) planD (fun _ => wf_d0) planD_decOK qD1 qD1_reach) (.node 0)

/-- `clone_is_fresh_and_state_independent` on the core machine -/
example := clone_is_fresh_and_state_independent (F := Int) d0 {} (.node 0)
  (.child (chE "") (.child (chE "r") (.context 1) none 0) (some (.node 4, false)) 2)

end XPathV.Theorems.NonVacuity.C04

section AxiomAudit
open XPathV.Theorems.NonVacuity.C04
end AxiomAudit
