import XPathV.Lemmas.Pull2Gen.NonVacuity
import XPathV.Theorems.C02
import XPathV.Theorems.NonVacuity.Common
/-!
# Non-vacuity of the C02 theorems

All hypotheses (`WF`, `nsIface`, `HashInj`, `Frag`/`Frag2`, `build = .ok`, `validRef`, …) discharged
at once on `d0` and on expressions that parse from text and yield non-empty results.
-/
namespace XPathV.Theorems.NonVacuity.C02
open XPathV XPathV.Model XPathV.Theorems.NonVacuity XPathV.PosSem
open XPathV.PathSem XPathV.PredSem XPathV.PredSem2

attribute [local instance] toyAlg

/-! ## `Frag2`: `/r/*[count(@*) > 0 and not(contains(local-name(), 'q'))][text() = 't' or @y]` -/

def tA : String := "/r/*[count(@*) > 0 and not(contains(local-name(), 'q'))][text() = 't' or @y]"
def pA0 : Ast := .axis (chE "") (.axis (chE "r") (.root "/"))
def bA1 : Ast :=
  .oper "and" (.oper ">" (.call "count" "" (.acons (.axis (atA "") .none) .anil)) (.num "0"))
    (.call "not" "" (.acons
      (.call "contains" "" (.acons (.call "local-name" "" .anil) (.acons (.str "q") .anil))) .anil))
def bA2 : Ast :=
  .oper "or" (.oper "=" (.axis chText .none) (.str "t")) (.axis (atA "y") .none)
def pA : Ast := .filter (.filter pA0 bA1) bA2

theorem pA_parsed : ParsesTo tA pA := ApiSem.parsesTo_eq (by decide +kernel)

theorem pA0_frag : Frag2 true pA0 := .axis _ _ (.axis _ _ (.root _) (by decide)) (by decide)
theorem bA1_frag : Frag2 false bA1 :=
  .and _ _ (.countR _ _ _ _ (by decide) (.axis _ _ .none (by decide)) (.axis _ _ (by decide) .none))
    (.not _ _ (.strLn _ _ _ _ (by decide)))
theorem bA2_frag : Frag2 false bA2 :=
  .or _ _ (.eqStr _ _ (.axis _ _ .none (by decide))) (.exist _ (.axis _ _ .none (by decide)))
theorem pA_frag : Frag2 true pA := .filter _ _ (.filter _ _ pA0_frag bA1_frag) bA2_frag

theorem pA_built : ∃ o, build (fun _ => true) 100 true false pA {} {} = .ok o :=
  exists_ok (by decide +kernel)
theorem pA0_built : ∃ o, build (fun _ => true) 100 true false pA0 {} {} = .ok o :=
  exists_ok (by decide +kernel)
theorem pA01_built : ∃ o, build (fun _ => true) 100 true false (.filter pA0 bA1) {} {} = .ok o :=
  exists_ok (by decide +kernel)

theorem pA_spec : Spec.eval (F := Int) d0 pA ⟨.node 0, 1, 1⟩ =
    .ok (.val (.nodes [.node 2, .node 4]) (some [[.node 2, .node 4]])) := by decide +kernel

/-- **`C02_main_full` with every hypothesis discharged**; the result is `{a[1], b}` -/
theorem C02_main_full_instance : ∃ o out,
    build (fun _ => true) 100 true false pA {} {} = .ok o ∧
    sel (F := Int) d0 {} o.q (.node 0) = .ok out ∧ ∀ x, x ∈ refs out ↔ x ∈ [Ref.node 2, .node 4] := by
  obtain ⟨o, hb⟩ := pA_built
  obtain ⟨out, ns, g, h1, h2, h3⟩ := Theorems.C02.C02_main_full (F := Int) wf_d0 {} rfl hashInj_d0
    (fun _ => true) 100 pA pA_frag {} o hb (.node 0) (by decide)
  rw [pA_spec] at h2
  cases h2
  exact ⟨o, out, hb, h1, h3⟩


/-- **`C02_keeps_exactly_the_true_ones_full`** at `p = /r/*`, `b = count(@*) > 0 and not(contains(local-name(),'q'))`:
all ten hypotheses discharged; the predicate holds at `a[1]`, `b` and fails at `a[2]` -/
theorem C02_keeps_full_instance : ∃ (o0 o : BOut), ∃ out0 out,
    sel (F := Int) d0 {} o0.q (.node 0) = .ok out0 ∧ sel (F := Int) d0 {} o.q (.node 0) = .ok out ∧
    (∀ x, x ∈ refs out0 ↔ x ∈ [Ref.node 2, .node 4, .node 6]) ∧
    (∀ x, x ∈ refs out ↔ x ∈ [Ref.node 2, .node 4]) ∧
    (∀ x, x ∈ refs out ↔ x ∈ refs out0 ∧ holds (F := Int) d0 bA1 x = true) := by
  obtain ⟨o0, hb0⟩ := pA0_built
  obtain ⟨o, hb⟩ := pA01_built
  obtain ⟨out0, ns0, g0, out, ns, g, h1, h2, h3, h4, h5, h6, h7, _⟩ :=
    Theorems.C02.C02_keeps_exactly_the_true_ones_full (F := Int) wf_d0 {} rfl hashInj_d0
      (fun _ => true) 100 pA0 bA1 pA0_frag bA1_frag {} {} o0 o hb0 hb (.node 0) (by decide)
  have e0 : Spec.eval (F := Int) d0 pA0 ⟨.node 0, 1, 1⟩ =
      .ok (.val (.nodes [.node 2, .node 4, .node 6]) (some [[.node 2, .node 4, .node 6]])) := by
    decide +kernel
  have e1 : Spec.eval (F := Int) d0 (.filter pA0 bA1) ⟨.node 0, 1, 1⟩ =
      .ok (.val (.nodes [.node 2, .node 4]) (some [[.node 2, .node 4]])) := by decide +kernel
  rw [e0] at h2; cases h2
  rw [e1] at h5; cases h5
  exact ⟨o0, o, out0, out, h1, h4, h3, h6, h7⟩

/-! ## `Frag2` after the repairs of `not` and `contains`:
`/r/*[contains('x1', @x) and not(count(@y)) and ends-with(@x, @x)]` -/

def tC : String := "/r/*[contains('x1', @x) and not(count(@y)) and ends-with(@x, @x)]"
def atX : Ast := .axis (atA "x") .none
def bC : Ast :=
  .oper "and"
    (.oper "and" (.call "contains" "" (.acons (.str "x1") (.acons atX .anil)))
      (.call "not" "" (.acons (.call "count" "" (.acons (.axis (atA "y") .none) .anil)) .anil)))
    (.call "ends-with" "" (.acons atX (.acons atX .anil)))
def pC : Ast := .filter pA0 bC

theorem pC_parsed : ParsesTo tC pC := ApiSem.parsesTo_eq (by decide +kernel)

theorem bC_frag : Frag2 false bC :=
  .and _ _
    (.and _ _ (.strLitPath _ _ _ _ (by decide) (.axis _ _ .none (by decide)) (.axis _ _ (by decide) .none))
      (.notCount _ _ _ (.axis _ _ .none (by decide)) (.axis _ _ (by decide) .none)))
    (.strPath2 _ _ _ _ (by decide) (.axis _ _ .none (by decide)) (.axis _ _ (by decide) .none)
      (.axis _ _ .none (by decide)) (.axis _ _ (by decide) .none))
theorem pC_frag : Frag2 true pC := .filter _ _ pA0_frag bC_frag

theorem pC_built : ∃ o, build (fun _ => true) 100 true false pC {} {} = .ok o :=
  exists_ok (by decide +kernel)

theorem pC_spec : Spec.eval (F := Int) d0 pC ⟨.node 0, 1, 1⟩ =
    .ok (.val (.nodes [.node 2, .node 6]) (some [[.node 2, .node 6]])) := by decide +kernel

/-- **`C02_main_full`** on a node-set *second* argument of `contains`/`ends-with` and on `not` of a
number: the result is `{a[1], a[2]}` (before the repairs the engine raised "argument type must be
string" on `contains('x1', @x)` and answered `false` to `not(count(@y))`) -/
theorem C02_main_full_instance_repaired : ∃ o out,
    build (fun _ => true) 100 true false pC {} {} = .ok o ∧
    sel (F := Int) d0 {} o.q (.node 0) = .ok out ∧ ∀ x, x ∈ refs out ↔ x ∈ [Ref.node 2, .node 6] := by
  obtain ⟨o, hb⟩ := pC_built
  obtain ⟨out, ns, g, h1, h2, h3⟩ := Theorems.C02.C02_main_full (F := Int) wf_d0 {} rfl hashInj_d0
    (fun _ => true) 100 pC pC_frag {} o hb (.node 0) (by decide)
  rw [pC_spec] at h2
  cases h2
  exact ⟨o, out, hb, h1, h3⟩

/-! ## a path compared with a path: `a[b = c]`, `a[b < c]` -/

/-- `<r><a><b>10</b><c>9</c></a><a><b>7</b><c>7</c></a><a><b>8</b><c>10</c></a></r>`: 17 nodes.
The first `a` has `b < c` in lexical order only ("10" < "9"), the third in numeric order only
(8 < 10, but "8" > "10") -/
def d1 : Doc :=
  [⟨0, .root, "", "", "", "", []⟩,
   ⟨1, .elem, "", "r", "", "", []⟩,
   ⟨2, .elem, "", "a", "", "", []⟩,
   ⟨3, .elem, "", "b", "", "", []⟩,
   ⟨4, .text, "", "", "", "10", []⟩,
   ⟨3, .elem, "", "c", "", "", []⟩,
   ⟨4, .text, "", "", "", "9", []⟩,
   ⟨2, .elem, "", "a", "", "", []⟩,
   ⟨3, .elem, "", "b", "", "", []⟩,
   ⟨4, .text, "", "", "", "7", []⟩,
   ⟨3, .elem, "", "c", "", "", []⟩,
   ⟨4, .text, "", "", "", "7", []⟩,
   ⟨2, .elem, "", "a", "", "", []⟩,
   ⟨3, .elem, "", "b", "", "", []⟩,
   ⟨4, .text, "", "", "", "8", []⟩,
   ⟨3, .elem, "", "c", "", "", []⟩,
   ⟨4, .text, "", "", "", "10", []⟩]

theorem wf_d1 : WF d1 := wf_of_wfb (by decide)
theorem hashInj_d1 : PathSem.HashInj d1 {} := hashInj_of_hashInjB (by decide +kernel)

def pE0 : Ast := .axis (chE "a") .none
def bE : Ast := .oper "=" (.axis (chE "b") .none) (.axis (chE "c") .none)
/-- `a[b = c]` -/
def pE : Ast := .filter pE0 bE

theorem pE_parsed : ParsesTo "a[b = c]" pE := ApiSem.parsesTo_eq (by decide +kernel)

theorem pE0_frag : Frag2 true pE0 := .axis _ _ .none (by decide)
theorem pE_frag : Frag2 true pE :=
  .filter _ _ pE0_frag (.cmpPath _ _ _ (by decide) (.axis _ _ .none (by decide)) (.axis _ _ .none (by decide)))

theorem pE0_built : ∃ o, build (fun _ => true) 100 true false pE0 {} {} = .ok o :=
  exists_ok (by decide +kernel)
theorem pE_built : ∃ o, build (fun _ => true) 100 true false pE {} {} = .ok o :=
  exists_ok (by decide +kernel)

theorem pE0_spec : Spec.eval (F := Int) d1 pE0 ⟨.node 1, 1, 1⟩ =
    .ok (.val (.nodes [.node 2, .node 7, .node 12]) (some [[.node 2, .node 7, .node 12]])) := by
  decide +kernel
theorem pE_spec : Spec.eval (F := Int) d1 pE ⟨.node 1, 1, 1⟩ =
    .ok (.val (.nodes [.node 7]) (some [[.node 7]])) := by decide +kernel

/-- **`C02_path_vs_path`** at `a[b = c]` from the context node `r` of `d1`, every hypothesis
discharged: the candidates are the three `a`; the first (`b` = "10", `c` = "9") and the third ("8",
"10") are dropped, the second (`b` = `c` = "7") is kept — exactly the candidates at which
`boolean(b = c)` is true -/
theorem C02_path_vs_path_instance : ∃ (o0 o : BOut), ∃ out0 out,
    sel (F := Int) d1 {} o0.q (.node 1) = .ok out0 ∧ sel (F := Int) d1 {} o.q (.node 1) = .ok out ∧
    (∀ x, x ∈ refs out0 ↔ x ∈ [Ref.node 2, .node 7, .node 12]) ∧
    (∀ x, x ∈ refs out ↔ x ∈ [Ref.node 7]) ∧
    (∀ x, x ∈ refs out ↔ x ∈ refs out0 ∧ holds (F := Int) d1 bE x = true) ∧
    holds (F := Int) d1 bE (.node 2) = false ∧ holds (F := Int) d1 bE (.node 7) = true := by
  obtain ⟨o0, hb0⟩ := pE0_built
  obtain ⟨o, hb⟩ := pE_built
  obtain ⟨out0, out, ns, g, h1, h2, h3, h4, h5, _⟩ :=
    Theorems.C02.C02_path_vs_path (F := Int) wf_d1 {} rfl hashInj_d1 (fun _ => true) 100 "=" (by decide)
      pE0 _ _ pE0_frag (.axis _ _ .none (by decide)) (.axis _ _ .none (by decide)) {} {} o0 o hb0 hb
      (.node 1) (by decide)
  obtain ⟨out0', ns0, g0, h1', h2', h3'⟩ := Theorems.C02.C02_main_full (F := Int) wf_d1 {} rfl
    hashInj_d1 (fun _ => true) 100 pE0 pE0_frag {} o0 hb0 (.node 1) (by decide)
  rw [h1] at h1'; cases h1'
  rw [pE0_spec] at h2'; cases h2'
  have h3e : Spec.eval (F := Int) d1 (.filter pE0 (.oper "=" (.axis (chE "b") .none)
      (.axis (chE "c") .none))) ⟨.node 1, 1, 1⟩ = .ok (.val (.nodes [.node 7]) (some [[.node 7]])) :=
    pE_spec
  rw [h3e] at h3; cases h3
  exact ⟨o0, o, out0, out, h1, h2, h3', h4, h5, by decide +kernel, by decide +kernel⟩

/-! ### `a[b < c]` — a relational operator between two paths

XPath 1.0 §3.4 converts both string-values to numbers for `<`, `<=`, `>`, `>=`.  (The engine used to
compare them byte-wise: on `d1` it kept the first `a`, "10" < "9", and dropped the third, "8" > "10";
`cmpStringStringF` was repaired and the model follows.)  On `d1`, from `r`: `a[b < c]` is the third
`a` (8 < 10) — and only it (10 < 9 and 7 < 7 are false). -/

def bLt : Ast := .oper "<" (.axis (chE "b") .none) (.axis (chE "c") .none)
/-- `a[b < c]` -/
def pLt : Ast := .filter pE0 bLt

theorem pLt_parsed : ParsesTo "a[b < c]" pLt := ApiSem.parsesTo_eq (by decide +kernel)

theorem pLt_frag : Frag2 true pLt :=
  .filter _ _ pE0_frag (.cmpPath _ _ _ (by decide) (.axis _ _ .none (by decide)) (.axis _ _ .none (by decide)))

theorem pLt_built : ∃ o, build (fun _ => true) 100 true false pLt {} {} = .ok o :=
  exists_ok (by decide +kernel)

theorem pLt_spec : Spec.eval (F := Int) d1 pLt ⟨.node 1, 1, 1⟩ =
    .ok (.val (.nodes [.node 12]) (some [[.node 12]])) := by decide +kernel

/-- **`C02_path_vs_path`** at `a[b < c]` from `r` of `d1`, every hypothesis discharged: of the three
candidates only the third (`b` = 8, `c` = 10) is kept — numeric order, not lexical order -/
theorem C02_path_lt_path_instance : ∃ (o0 o : BOut), ∃ out0 out,
    sel (F := Int) d1 {} o0.q (.node 1) = .ok out0 ∧ sel (F := Int) d1 {} o.q (.node 1) = .ok out ∧
    (∀ x, x ∈ refs out0 ↔ x ∈ [Ref.node 2, .node 7, .node 12]) ∧
    (∀ x, x ∈ refs out ↔ x ∈ [Ref.node 12]) ∧
    (∀ x, x ∈ refs out ↔ x ∈ refs out0 ∧ holds (F := Int) d1 bLt x = true) ∧
    holds (F := Int) d1 bLt (.node 2) = false ∧ holds (F := Int) d1 bLt (.node 7) = false ∧
    holds (F := Int) d1 bLt (.node 12) = true := by
  obtain ⟨o0, hb0⟩ := pE0_built
  obtain ⟨o, hb⟩ := pLt_built
  obtain ⟨out0, out, ns, g, h1, h2, h3, h4, h5, _⟩ :=
    Theorems.C02.C02_path_vs_path (F := Int) wf_d1 {} rfl hashInj_d1 (fun _ => true) 100 "<" (by decide)
      pE0 _ _ pE0_frag (.axis _ _ .none (by decide)) (.axis _ _ .none (by decide)) {} {} o0 o hb0 hb
      (.node 1) (by decide)
  obtain ⟨out0', ns0, g0, h1', h2', h3'⟩ := Theorems.C02.C02_main_full (F := Int) wf_d1 {} rfl
    hashInj_d1 (fun _ => true) 100 pE0 pE0_frag {} o0 hb0 (.node 1) (by decide)
  rw [h1] at h1'; cases h1'
  rw [pE0_spec] at h2'; cases h2'
  have h3e : Spec.eval (F := Int) d1 (.filter pE0 (.oper "<" (.axis (chE "b") .none)
      (.axis (chE "c") .none))) ⟨.node 1, 1, 1⟩ = .ok (.val (.nodes [.node 12]) (some [[.node 12]])) :=
    pLt_spec
  rw [h3e] at h3; cases h3
  exact ⟨o0, o, out0, out, h1, h2, h3', h4, h5, by decide +kernel, by decide +kernel, by decide +kernel⟩

/-- the plan the builder makes of `a[b < c]`, run directly: the third `a` -/
theorem pLt_plan_selects : ∃ out,
    sel (F := Int) d1 {} (.filter (.child (chE "a") .context)
      (.logical "<" (.child (chE "b") .context) (.child (chE "c") .context))) (.node 1) = .ok out ∧
    refs out = [.node 12] := by
  refine ⟨[⟨.node 12, 1, 0⟩], ?_, by decide⟩
  sel_decide

/-! ### a path compared relationally with a string literal: `a[b < '9']`, `a['9' > b]` -/

def bLtS : Ast := .oper "<" (.axis (chE "b") .none) (.str "9")
def bGtS : Ast := .oper ">" (.str "9") (.axis (chE "b") .none)

theorem pLtS_parsed : ParsesTo "a[b < '9']" (.filter pE0 bLtS) := ApiSem.parsesTo_eq (by decide +kernel)
theorem pGtS_parsed : ParsesTo "a['9' > b]" (.filter pE0 bGtS) := ApiSem.parsesTo_eq (by decide +kernel)

theorem bLtS_frag : Frag2 false bLtS := .cmpStrR _ _ _ (by decide) (.axis _ _ .none (by decide))
theorem bGtS_frag : Frag2 false bGtS := .cmpStrL _ _ _ (by decide) (.axis _ _ .none (by decide))

/-- **`C02_main_full`** at `a[b < '9']` and `a['9' > b]`: the `a` with `b` = 7 and `b` = 8 (numbers;
before the repair of `cmpNodeSetString` the engine tested `'9' < b`, and byte-wise) -/
theorem C02_path_lt_string_instance :
    (∃ o out, build (fun _ => true) 100 true false (.filter pE0 bLtS) {} {} = .ok o ∧
      sel (F := Int) d1 {} o.q (.node 1) = .ok out ∧ ∀ x, x ∈ refs out ↔ x ∈ [Ref.node 7, .node 12]) ∧
    (∃ o out, build (fun _ => true) 100 true false (.filter pE0 bGtS) {} {} = .ok o ∧
      sel (F := Int) d1 {} o.q (.node 1) = .ok out ∧ ∀ x, x ∈ refs out ↔ x ∈ [Ref.node 7, .node 12]) := by
  constructor
  · obtain ⟨o, hb⟩ : ∃ o, build (fun _ => true) 100 true false (.filter pE0 bLtS) {} {} = .ok o :=
      exists_ok (by decide +kernel)
    obtain ⟨out, ns, g, h1, h2, h3⟩ := Theorems.C02.C02_main_full (F := Int) wf_d1 {} rfl hashInj_d1
      (fun _ => true) 100 _ (.filter _ _ pE0_frag bLtS_frag) {} o hb (.node 1) (by decide)
    have e : Spec.eval (F := Int) d1 (.filter pE0 bLtS) ⟨.node 1, 1, 1⟩ =
        .ok (.val (.nodes [.node 7, .node 12]) (some [[.node 7, .node 12]])) := by decide +kernel
    rw [e] at h2; cases h2
    exact ⟨o, out, hb, h1, h3⟩
  · obtain ⟨o, hb⟩ : ∃ o, build (fun _ => true) 100 true false (.filter pE0 bGtS) {} {} = .ok o :=
      exists_ok (by decide +kernel)
    obtain ⟨out, ns, g, h1, h2, h3⟩ := Theorems.C02.C02_main_full (F := Int) wf_d1 {} rfl hashInj_d1
      (fun _ => true) 100 _ (.filter _ _ pE0_frag bGtS_frag) {} o hb (.node 1) (by decide)
    have e : Spec.eval (F := Int) d1 (.filter pE0 bGtS) ⟨.node 1, 1, 1⟩ =
        .ok (.val (.nodes [.node 7, .node 12]) (some [[.node 7, .node 12]])) := by decide +kernel
    rw [e] at h2; cases h2
    exact ⟨o, out, hb, h1, h3⟩

/-! ## `Frag` (the first fragment): `/r/*[text() = 't' or @y]`, `b = not(@y)` -/

def pB : Ast := .filter pA0 bA2
def bB : Ast := .call "not" "" (.acons (.axis (atA "y") .none) .anil)

theorem pB_parsed : ParsesTo "/r/*[text() = 't' or @y]" pB := ApiSem.parsesTo_eq (by decide +kernel)
theorem bB_parsed : ParsesTo "/r/*[text() = 't' or @y][not(@y)]" (.filter pB bB) :=
  ApiSem.parsesTo_eq (by decide +kernel)

theorem pB_frag : Frag true pB :=
  .filter _ _ (.axis _ _ (.axis _ _ (.root _) (by decide)) (by decide))
    (.or _ _ (.eqStr _ _ (.axis _ _ .none (by decide))) (.exist _ (.axis _ _ .none (by decide))))
theorem bB_frag : Frag false bB := .not _ _ (.exist _ (.axis _ _ .none (by decide)))

theorem pB_built : ∃ o, build (fun _ => true) 100 true false pB {} {} = .ok o :=
  exists_ok (by decide +kernel)
theorem pBb_built : ∃ o, build (fun _ => true) 100 true false (.filter pB bB) {} {} = .ok o :=
  exists_ok (by decide +kernel)
theorem pB_built_src : ∃ o, build (fun _ => true) 100 shortcutNeedsNodeTestFromSource
    smartDescThroughFilterFromSource pB {} {} = .ok o := exists_ok (by decide +kernel)

theorem pB_spec : Spec.eval (F := Int) d0 pB ⟨.node 0, 1, 1⟩ =
    .ok (.val (.nodes [.node 2, .node 4]) (some [[.node 2, .node 4]])) := by decide +kernel
theorem pBb_spec : Spec.eval (F := Int) d0 (.filter pB bB) ⟨.node 0, 1, 1⟩ =
    .ok (.val (.nodes [.node 2]) (some [[.node 2]])) := by decide +kernel

/-- `C02_main` -/
theorem C02_main_instance : ∃ o out, build (fun _ => true) 100 true false pB {} {} = .ok o ∧
    sel (F := Int) d0 {} o.q (.node 0) = .ok out ∧ ∀ x, x ∈ refs out ↔ x ∈ [Ref.node 2, .node 4] := by
  obtain ⟨o, hb⟩ := pB_built
  obtain ⟨out, ns, g, h1, h2, h3⟩ := Theorems.C02.C02_main (F := Int) wf_d0 {} rfl hashInj_d0
    (fun _ => true) 100 pB pB_frag {} o hb (.node 0) (by decide)
  rw [pB_spec] at h2; cases h2
  exact ⟨o, out, hb, h1, h3⟩

/-- `C02_at_source_config` -/
theorem C02_at_source_config_instance : ∃ (o : BOut), ∃ out,
    sel (F := Int) d0 {} o.q (.node 0) = .ok out ∧ ∀ x, x ∈ refs out ↔ x ∈ [Ref.node 2, .node 4] := by
  obtain ⟨o, hb⟩ := pB_built_src
  obtain ⟨out, ns, h1, h2, h3⟩ := Theorems.C02.C02_at_source_config (F := Int) wf_d0 {} rfl hashInj_d0
    (fun _ => true) 100 pB pB_frag o hb (.node 0) (by decide)
  have e : Spec.evalTop (F := Int) d0 pB (.node 0) = .ok (.nodes [.node 2, .node 4]) := by
    decide +kernel
  rw [e] at h2; cases h2
  exact ⟨o, out, h1, h3⟩

/-- `C02_keeps_exactly_the_true_ones` -/
theorem C02_keeps_instance : ∃ (o0 o : BOut), ∃ out0 out,
    sel (F := Int) d0 {} o0.q (.node 0) = .ok out0 ∧ sel (F := Int) d0 {} o.q (.node 0) = .ok out ∧
    (∀ x, x ∈ refs out0 ↔ x ∈ [Ref.node 2, .node 4]) ∧ (∀ x, x ∈ refs out ↔ x ∈ [Ref.node 2]) ∧
    (∀ x, x ∈ refs out ↔ x ∈ refs out0 ∧ holds (F := Int) d0 bB x = true) := by
  obtain ⟨o0, hb0⟩ := pB_built
  obtain ⟨o, hb⟩ := pBb_built
  obtain ⟨out0, ns0, g0, out, ns, g, h1, h2, h3, h4, h5, h6, h7, _⟩ :=
    Theorems.C02.C02_keeps_exactly_the_true_ones (F := Int) wf_d0 {} rfl hashInj_d0
      (fun _ => true) 100 pB bB pB_frag bB_frag {} {} o0 o hb0 hb (.node 0) (by decide)
  rw [pB_spec] at h2; cases h2
  rw [pBb_spec] at h5; cases h5
  exact ⟨o0, o, out0, out, h1, h4, h3, h6, h7⟩

/-- `C02_built_predicate_truth` at the predicate `count(@*) > 0 and not(contains(local-name(),'q'))`,
context `b` (node 4), position 2 of 3: true on both sides -/
theorem C02_built_predicate_truth_instance : ∃ o v,
    build (fun _ => true) 100 true false bA1 {} {} = .ok o ∧
    evalP (F := Int) d0 {} o.q (.node 4) = .ok v ∧ truthM v = true := by
  obtain ⟨o, hb⟩ : ∃ o, build (fun _ => true) 100 true false bA1 {} {} = .ok o :=
    exists_ok (by decide +kernel)
  obtain ⟨v, sv, g, h1, h2, h3, _, _⟩ := Theorems.C02.C02_built_predicate_truth (F := Int) wf_d0 {} rfl
    hashInj_d0 (fun _ => true) 100 bA1 bA1_frag {} {} o hb (.node 4) (by decide) 2 3
  have e : Spec.eval (F := Int) d0 bA1 ⟨.node 4, 2, 3⟩ = .ok (.val (.bool true) none) := by
    decide +kernel
  rw [e] at h2; cases h2
  exact ⟨o, v, hb, h1, h3⟩

/-! ## sequence-level filter lemma and `verdict_is_local` on concrete plans -/

def inpC : Plan := .child (chE "") (.child (chE "r") .absolute)
def predC : Plan := .attr (atA "y") .context

theorem inpC_sel : sel (F := Int) d0 {} inpC (.node 0) =
    .ok [⟨.node 2, 1, 0⟩, ⟨.node 4, 2, 0⟩, ⟨.node 6, 3, 0⟩] := by
  simp only [inpC]; sel_decide

/-- `C02_filter_is_list_filter`: `hs` and `hv` hold for `/r/*` filtered by `@y` (node-set valued verdicts) -/
theorem C02_filter_is_list_filter_instance : ∃ out,
    sel (F := Int) d0 {} (.filter inpC predC) (.node 0) = .ok out ∧ refs out = [.node 4] := by
  obtain ⟨out, h1, h2⟩ := Theorems.C02.C02_filter_is_list_filter (F := Int) d0 {} inpC predC (.node 0) _
    (fun r => r == .node 4) inpC_sel (by
      intro it hit
      simp only [List.mem_cons, List.not_mem_nil, or_false] at hit
      rcases hit with rfl | rfl | rfl
      · exact ⟨.nodes [], by simp only [predC]; sel_decide, trivial, by decide⟩
      · exact ⟨.nodes [.attr 4 1], by simp only [predC]; sel_decide, trivial, by decide⟩
      · exact ⟨.nodes [], by simp only [predC]; sel_decide, trivial, by decide⟩)
  exact ⟨out, h1, by rw [h2]; decide⟩

/-- `verdict_is_local`: its hypothesis (`sel` of a filter plan succeeds) holds on the same plan -/
example : ∃ ins, sel (F := Int) d0 {} inpC (.node 0) = .ok ins ∧
    ∀ it ∈ [(⟨.node 4, 1, 0⟩ : Item)], ∃ jt ∈ ins, jt.r = it.r :=
  Theorems.C02.verdict_is_local (F := Int) d0 {} inpC predC (.node 0) _
    (by simp only [inpC, predC]; sel_decide)

/-! ## `evaluate_restarts_all_iterators`: a reachable mid-iteration state of a filter machine

`DecOK` asks that every filter predicate in the machine evaluates, at *every* reference, to the
boolean `dec pred r`.  It is satisfiable only for boolean-valued predicates (`not(…)`, comparisons,
`and`/`or`): for an existence test `a[b]` the predicate plan evaluates to a node-set and for `a[1]`
to a number, so no `dec` meets it.  Here the predicate is `not(@y)`. -/

/-- **finding (restriction, not vacuity)**: no decision function satisfies `DecOK` for a filter whose
predicate is an existence test (`*[@y]`, as the builder leaves it: a path plan) — on *any* document:
the predicate plan evaluates to a node-set, never to a boolean.  The same holds for numeric
(positional) predicates.  So the `Model/Pull2` theorems that assume `DecOK`
(`evaluate_restarts_all_iterators`, `C12_all_iterators_refine_sequence`, `clone_is_fresh_all_iterators`)
cover filter machines only when every predicate is boolean-valued (`not(…)`, comparisons, `and`/`or`,
`true()`, …) -/
theorem decOK_excludes_existence_tests (d : Doc) (cfg : ECfg) (dec : Plan → Ref → Bool) (inp : PQ2) (a : AxisInfo)
    (n : Nat) (m : Option (List (Nat × Nat))) :
    ¬ (PQ2.filter inp (.attr a .context) n m).DecOK (F := Int) d cfg dec := by
  rintro ⟨_, h⟩
  have := h (.node 0)
  simp [evalP, sel, bind, Except.bind] at this

theorem decOK_excludes_numeric_predicates (d : Doc) (cfg : ECfg) (dec : Plan → Ref → Bool) (inp : PQ2) (lex : String)
    (n : Nat) (m : Option (List (Nat × Nat))) :
    ¬ (PQ2.filter inp (.constNum lex) n m).DecOK (F := Int) d cfg dec := by
  rintro ⟨_, h⟩
  have := h (.node 0)
  simp [evalP] at this

def predD : Plan := .func "not" .nil (.pcons (.attr (atA "y") .context) .pnil)
/-- the plan of `/r/*[not(@y)]` -/
def planD : Plan := .filter inpC predD
/-- the decision function: "no attribute `y`" -/
def decD (_ : Plan) (r : Ref) : Bool := ((attrsM d0 r).filter (test d0 {} (atA "y"))).isEmpty

theorem predD_bool (r : Ref) : evalP (F := Int) d0 {} predD r = .ok (.bool (decD predD r)) := by
  have hl : evalP (F := Int) d0 {} (.attr (atA "y") .context) r =
      .ok (.nodes ((plain ((attrsM d0 r).filter (test d0 {} (atA "y")))).map (·.r))) := by
    simp [evalP, sel, bind, Except.bind]
  rw [predD, evalP_not, hl, callFn_not_nodes]
  simp [decD, plain]

theorem planD_decOK : DecOKP (F := Int) d0 {} decD planD := ⟨trivial, predD_bool⟩

/-- the machine the builder creates for `planD` -/
def qD : PQ2 := .filter (.child (chE "") (.child (chE "r") (.absolute 0) none 0) none 0) predD 0 none

theorem qD_plan : qD.plan = planD := rfl

/-- the state after `Evaluate` and one `Select` (which reported `a[1]`) -/
def qD1 : PQ2 := (PQ2.select d0 {} decD 100 qD.evaluate (.node 0)).2.1

theorem qD1_reach : Reach d0 {} decD planD qD1 :=
  .select (f := 100) (c := .node 0) (.evaluate qD qD_plan) (by simp [Good, Ref.idx, d0]) rfl
    (show (PQ2.select d0 {} decD 100 qD.evaluate (.node 0)).1 ≠ .fuel by decide +kernel)

/-- the first `Select` did report a node: `qD1` is a mid-iteration state -/
example : (PQ2.select d0 {} decD 100 qD.evaluate (.node 0)).1 = .yield (.node 2) := by decide +kernel

/-- **`evaluate_restarts_all_iterators`** with `hd`, `hw`, `Reach`, `DecOK`, `Good` discharged; the
restarted sequence is `[a[1], a[2]]` -/
theorem evaluate_restarts_instance : ∃ l, sel (F := Int) d0 {} planD (.node 0) = .ok l ∧
    refs l = [.node 2, .node 6] ∧
    (∃ q' c' f0, ∀ f, f0 ≤ f → drain2 d0 {} decD f qD1.evaluate (.node 0) = some (l, q', c')) := by
  obtain ⟨l, h1, h2, _⟩ := Theorems.C02.evaluate_restarts_all_iterators (F := Int) d0 {} decD (by decide)
    planD (fun _ => wf_d0) qD1 qD1_reach
    (reach_decOK (by decide) planD (fun _ => wf_d0) planD_decOK qD1 qD1_reach) (.node 0)
    (by simp [Good, Ref.idx, d0])
  have e : sel (F := Int) d0 {} planD (.node 0) = .ok [⟨.node 2, 1, 0⟩, ⟨.node 6, 2, 0⟩] := by
    simp only [planD, inpC, predD]; sel_decide
  rw [e] at h1; cases h1
  exact ⟨_, e, by decide, h2⟩

/-! ## `C02_from_text` -/

/-- `C02_from_text` (`hparse`, `hfrag`), then its second disjunct's inner hypotheses (`WF`,
`nsIface`, `HashInj`, `validRef`) on `d0`: `Select` on the compiled text yields `{a[1], b}` -/
theorem C02_from_text_instance : ∃ p l, compile {} none "/r/*[text() = 't' or @y]".toList = .ok p ∧
    selectAll (F := Int) d0 {} p (.node 0) = .ok l ∧ ∀ x, x ∈ l ↔ x ∈ [Ref.node 2, .node 4] := by
  rcases Theorems.C02.C02_from_text (fun _ => true) none _ pB pB_parsed pB_frag with ⟨e, he⟩ | ⟨p, hp, _, h⟩
  · exact absurd he (by
      have : (compile {} none "/r/*[text() = 't' or @y]".toList).isOk = true := by decide +kernel
      intro h'; rw [h'] at this; cases this)
  · obtain ⟨l, nsl, h1, _, h3, h4⟩ := h Int d0 wf_d0 {} rfl hashInj_d0 (.node 0) (by decide)
    have e : Spec.evalTop (F := Int) d0 pB (.node 0) = .ok (.nodes [.node 2, .node 4]) := by
      decide +kernel
    rw [e] at h3; cases h3
    exact ⟨p, l, hp, h1, h4⟩

end XPathV.Theorems.NonVacuity.C02

section AxiomAudit
open XPathV.Theorems.NonVacuity.C02
end AxiomAudit

/-! ## `C02_from_text_full`: the extended fragment from the expression text -/
namespace XPathV.Theorems.NonVacuity.C02
open XPathV XPathV.Model XPathV.Theorems.NonVacuity XPathV.PosSem
open XPathV.PathSem XPathV.PredSem XPathV.PredSem2

attribute [local instance] toyAlg

/-- `C02_from_text_full` at the text `a[b < c]` (`hparse`, `hfrag` with `Frag2.cmpPath`), then its
second disjunct's inner hypotheses (`WF`, `nsIface`, `HashInj`, `validRef`) on `d1` from `r`:
`Select` and `Evaluate` on the compiled text yield the third `a` (8 < 10) and only it -/
theorem C02_from_text_full_instance : ∃ p l, compile {} none "a[b < c]".toList = .ok p ∧
    selectAll (F := Int) d1 {} p (.node 1) = .ok l ∧
    evaluate (F := Int) d1 {} p (.node 1) = .ok (.nodes l) ∧ ∀ x, x ∈ l ↔ x ∈ [Ref.node 12] := by
  rcases Theorems.C02.C02_from_text_full (fun _ => true) none _ pLt pLt_parsed pLt_frag with
    ⟨e, he⟩ | ⟨p, hp, _, h⟩
  · exact absurd he (by
      have : (compile {} none "a[b < c]".toList).isOk = true := by decide +kernel
      intro h'; rw [h'] at this; cases this)
  · obtain ⟨l, nsl, h1, h2, h3, h4⟩ := h Int d1 wf_d1 {} rfl hashInj_d1 (.node 1) (by decide)
    have e : Spec.evalTop (F := Int) d1 pLt (.node 1) = .ok (.nodes [.node 12]) := by
      decide +kernel
    rw [e] at h3; cases h3
    exact ⟨p, l, hp, h1, h2, h4⟩

/-- `(a)[b = c]`: a parenthesised path with a predicate at top level -/
def pG : Ast := .filter (.group pE0) bE

theorem pG_parsed : ParsesTo "(a)[b = c]" pG := ApiSem.parsesTo_eq (by decide +kernel)

theorem pG_frag : Frag2 true pG :=
  .gfilter _ _ pE0_frag (.cmpPath _ _ _ (by decide) (.axis _ _ .none (by decide)) (.axis _ _ .none (by decide)))

/-- `C02_from_text_full` at the text `(a)[b = c]` (`Frag2.gfilter` at top level: the compiled plan
is path-shaped, `Evaluate` returns the node-set), all hypotheses discharged on `d1` from `r`: the
second `a` (`b` = `c` = "7") -/
theorem C02_from_text_full_group_instance : ∃ p l, compile {} none "(a)[b = c]".toList = .ok p ∧
    selectAll (F := Int) d1 {} p (.node 1) = .ok l ∧
    evaluate (F := Int) d1 {} p (.node 1) = .ok (.nodes l) ∧ ∀ x, x ∈ l ↔ x ∈ [Ref.node 7] := by
  rcases Theorems.C02.C02_from_text_full (fun _ => true) none _ pG pG_parsed pG_frag with
    ⟨e, he⟩ | ⟨p, hp, _, h⟩
  · exact absurd he (by
      have : (compile {} none "(a)[b = c]".toList).isOk = true := by decide +kernel
      intro h'; rw [h'] at this; cases this)
  · obtain ⟨l, nsl, h1, h2, h3, h4⟩ := h Int d1 wf_d1 {} rfl hashInj_d1 (.node 1) (by decide)
    have e : Spec.evalTop (F := Int) d1 pG (.node 1) = .ok (.nodes [.node 7]) := by
      decide +kernel
    rw [e] at h3; cases h3
    exact ⟨p, l, hp, h1, h2, h4⟩

/-- `d1` has no attributes at all -/
theorem attrTriples_d1 : AttrTriplesDistinct d1 := by
  intro i k₁ k₂ hi h₁ _ _ _ _
  have h0 : ∀ j, j < 17 → (recAt d1 j).attrs.length = 0 := by decide
  rw [h0 i hi] at h₁
  exact absurd h₁ (Nat.not_lt_zero _)

/-- the `_unconditional` form at `a[b < c]`: `AttrTriplesDistinct d1` instead of `HashInj` -/
theorem C02_from_text_full_unconditional_instance :
    ∃ p l, compile {} none "a[b < c]".toList = .ok p ∧
    selectAll (F := Int) d1 {} p (.node 1) = .ok l ∧ ∀ x, x ∈ l ↔ x ∈ [Ref.node 12] := by
  rcases Theorems.C02.C02_from_text_full_unconditional (fun _ => true) none _ pLt pLt_parsed pLt_frag with
    ⟨e, he⟩ | ⟨p, hp, _, h⟩
  · exact absurd he (by
      have : (compile {} none "a[b < c]".toList).isOk = true := by decide +kernel
      intro h'; rw [h'] at this; cases this)
  · obtain ⟨l, nsl, h1, _, h3, h4⟩ := h Int d1 wf_d1 {} rfl attrTriples_d1 (.node 1) (by decide)
    have e : Spec.evalTop (F := Int) d1 pLt (.node 1) = .ok (.nodes [.node 12]) := by
      decide +kernel
    rw [e] at h3; cases h3
    exact ⟨p, l, hp, h1, h4⟩

end XPathV.Theorems.NonVacuity.C02

section AxiomAudit2
open XPathV.Theorems.NonVacuity.C02
end AxiomAudit2
