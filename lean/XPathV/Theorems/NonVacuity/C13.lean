import XPathV.Theorems.C13
import XPathV.Theorems.NonVacuity.Common
/-!
# Non-vacuity of the C13 theorems
-/
namespace XPathV.Theorems.NonVacuity.C13
open XPathV XPathV.Model XPathV.Theorems.NonVacuity XPathV.PosSem
open XPathV.PathSem XPathV.PredSem XPathV.Compose XPathV.Compose2

attribute [local instance] toyAlg

abbrev parentAny : AxisInfo := ⟨"parent", .all, "", "", "", false, ""⟩

/-- `/r/b` addresses exactly `b` (node 4) -/
def q1 : Ast := .axis (chE "b") (.axis (chE "r") (.root "/"))
/-- `../*/@x` -/
def p1 : Ast := .axis (atA "x") (.axis (chE "") (.axis parentAny .none))

theorem q1_abs : AbsPF q1 := .axis _ _ (.axis _ _ (.root _) (by decide)) (by decide)
theorem p1_rel : RelPF p1 := .axis _ _ (.axis _ _ (.axis _ _ .none (by decide)) (by decide)) (by decide)
theorem p1_parsed : ParsesTo "../*/@x" p1 := ApiSem.parsesTo_eq (by decide +kernel)
theorem qp1_parsed : ParsesTo "/r/b/../*/@x" (appendPath q1 p1) := ApiSem.parsesTo_eq (by decide +kernel)

theorem q1_unique : nodesOf (Spec.eval (F := Int) d0 q1 ⟨.node 0, 1, 1⟩) = [.node 4] := by decide +kernel

/-- **`C13_relative_compose`**: all hypotheses discharged (`WF`, `nsIface`, `HashInj`, `PathPF`, `RelPF`,
"`q` addresses exactly `n`", two `build = .ok`); both plans select `{a[1]/@x, b/@x}` -/
theorem C13_relative_compose_instance : ∃ (o o' : BOut), ∃ o1 o2,
    sel (F := Int) d0 {} o.q (.node 4) = .ok o1 ∧ sel (F := Int) d0 {} o'.q (.node 0) = .ok o2 ∧
    (∀ x, x ∈ refs o1 ↔ x ∈ refs o2) ∧
    nodesOf (Spec.eval (F := Int) d0 p1 ⟨.node 4, 1, 1⟩) = [.attr 2 0, .attr 4 0] := by
  obtain ⟨o, hb⟩ : ∃ o, build (fun _ => true) 100 true false p1 {} {} = .ok o := exists_ok (by decide +kernel)
  obtain ⟨o', hb'⟩ : ∃ o, build (fun _ => true) 100 true false (appendPath q1 p1) {} {} = .ok o :=
    exists_ok (by decide +kernel)
  obtain ⟨o1, o2, h1, h2, h3⟩ := Theorems.C13.C13_relative_compose (F := Int) wf_d0 {} rfl hashInj_d0
    (fun _ => true) 100 false q1_abs.pathPF p1_rel (.node 4) q1_unique {} {} o o' hb hb'
  exact ⟨o, o', o1, o2, h1, h2, h3, by decide +kernel⟩

/-- `C13_relative_compose_spec`, `C13_compose_spec` -/
example := Theorems.C13.C13_relative_compose_spec (F := Int) d0 q1_abs.pathPF p1_rel ⟨.node 0, 1, 1⟩ (.node 4) q1_unique
example := Theorems.C13.C13_compose_spec (F := Int) d0 q1_abs.pathPF p1_rel ⟨.node 6, 2, 3⟩ (.attr 2 0)

/-- **`C13_absolute_build`** (`AbsPF`, `build = .ok`) on `/r/b/../*/@x`, from `a[2]` and from an attribute -/
example : ∃ (o : BOut), sel (F := Int) d0 {} o.q (.node 6) = sel (F := Int) d0 {} o.q (.attr 4 1) := by
  obtain ⟨o, hb⟩ : ∃ o, build (fun _ => true) 100 true false (appendPath q1 p1) {} {} = .ok o :=
    exists_ok (by decide +kernel)
  exact ⟨o, Theorems.C13.C13_absolute_build (F := Int) d0 {} (fun _ => true) 100 true false
    (p := appendPath q1 p1)
    (.axis _ _ (.axis _ _ (.axis _ _ q1_abs (by decide)) (by decide)) (by decide)) {} {} o hb _ _⟩
example := Theorems.C13.C13_absolute_spec (F := Int) d0 q1_abs ⟨.node 6, 2, 3⟩ ⟨.attr 4 1, 1, 1⟩
example := Theorems.C13.C13_absolute_after_anything (F := Int) d0 {} p1 q1_abs (.node 6) (.attr 4 1)

/-! ## with boolean predicates -/

/-- `/r/*[@y]` addresses exactly `b`; `../*[@x]/text()` -/
def q2 : Ast := .filter (.axis (chE "") (.axis (chE "r") (.root "/"))) (.axis (atA "y") .none)
def p2 : Ast := .axis chText (.filter (.axis (chE "") (.axis parentAny .none)) (.axis (atA "x") .none))

theorem q2_abs : AbsFrag q2 :=
  .filter _ _ (.axis _ _ (.axis _ _ (.root _) (by decide)) (by decide)) (.exist _ (.axis _ _ .none (by decide)))
theorem p2_rel : RelFrag p2 :=
  .axis _ _ (.filter _ _ (.axis _ _ (.axis _ _ .none (by decide)) (by decide))
    (.exist _ (.axis _ _ .none (by decide)))) (by decide)
theorem qp2_parsed : ParsesTo "/r/*[@y]/../*[@x]/text()" (appendPath2 q2 p2) :=
  ApiSem.parsesTo_eq (by decide +kernel)
theorem q2_unique : nodesOf (Spec.eval (F := Int) d0 q2 ⟨.node 0, 1, 1⟩) = [.node 4] := by decide +kernel

/-- **`C13_relative_compose_with_predicates`** -/
theorem C13_relative_compose_with_predicates_instance : ∃ (o o' : BOut), ∃ o1 o2,
    sel (F := Int) d0 {} o.q (.node 4) = .ok o1 ∧ sel (F := Int) d0 {} o'.q (.node 0) = .ok o2 ∧
    (∀ x, x ∈ refs o1 ↔ x ∈ refs o2) ∧
    nodesOf (Spec.eval (F := Int) d0 p2 ⟨.node 4, 1, 1⟩) = [.node 3, .node 5] := by
  obtain ⟨o, hb⟩ : ∃ o, build (fun _ => true) 100 true false p2 {} {} = .ok o := exists_ok (by decide +kernel)
  obtain ⟨o', hb'⟩ : ∃ o, build (fun _ => true) 100 true false (appendPath2 q2 p2) {} {} = .ok o :=
    exists_ok (by decide +kernel)
  obtain ⟨o1, o2, h1, h2, h3⟩ := Theorems.C13.C13_relative_compose_with_predicates (F := Int) wf_d0 {} rfl
    hashInj_d0 (fun _ => true) 100 q2_abs.frag p2_rel (.node 4) q2_unique {} {} o o' hb hb'
  exact ⟨o, o', o1, o2, h1, h2, h3, by decide +kernel⟩

/-- **`C13_absolute_build_with_predicates`** (`AbsFrag`, `build = .ok`) -/
example : ∃ (o : BOut), sel (F := Int) d0 {} o.q (.node 6) = sel (F := Int) d0 {} o.q (.attr 4 1) := by
  obtain ⟨o, hb⟩ : ∃ o, build (fun _ => true) 100 true false q2 {} {} = .ok o := exists_ok (by decide +kernel)
  exact ⟨o, Theorems.C13.C13_absolute_build_with_predicates (F := Int) d0 {} (fun _ => true) 100 true false
    q2_abs {} {} o hb _ _⟩
example := Theorems.C13.C13_compose_spec_with_predicates (F := Int) d0 q2_abs.frag p2_rel ⟨.node 0, 1, 1⟩ (.node 3)

/-! ## plan-level statements -/

def planR : Plan := .attr (atA "x") (.descendant (chE "") false .absolute)
theorem planR_sel : sel (F := Int) d0 {} planR (.node 6) = .ok [⟨.attr 2 0, 1, 0⟩, ⟨.attr 4 0, 1, 0⟩] := by
  simp only [planR]; sel_decide

/-- `abs_start_indep` (`Rooted p = true`) -/
example : sel (F := Int) d0 {} planR (.node 6) = sel (F := Int) d0 {} planR (.attr 4 1) :=
  Theorems.C13.abs_start_indep d0 {} planR rfl _ _
/-- `group_preserves_sequence`, `rel_compose_child` (`sel = .ok ins`) -/
example := Theorems.C13.group_preserves_sequence (F := Int) d0 {} planR (.node 6) _ planR_sel
example := Theorems.C13.rel_compose_child (F := Int) d0 {} (chE "") (.child (chE "r") .absolute) (.node 6)
  [⟨.node 1, 1, 0⟩] (by sel_decide)
/-- `C13_wrap_true`, `C13_wrap_group`: the inner hypothesis `sel = .ok ins` -/
example := (Theorems.C13.C13_wrap_true (F := Int) d0 {} planR (.node 6)).1 _ planR_sel
example := (Theorems.C13.C13_wrap_group (F := Int) d0 {} planR (.node 6)).1 _ planR_sel
/-- … and the failing case (`sel = .error e`) with the failing plan `.nil` below a step -/
example := (Theorems.C13.C13_wrap_group (F := Int) d0 {} (.child (chE "a") .nil) (.node 6)).2
  (.crash .nilDeref) (by simp only [sel, bind, Except.bind])

/-- `C13_wrap_union_self` -/
example := Theorems.C13.C13_wrap_union_self (F := Int) wf_d0 {} rfl hashInj_d0 q1_abs.pathPF (.node 6) (by decide)

/-- `C13_wrap_not_not` (no hypothesis left): a node-set operand, and a *number* operand
(`not(not(0))` is `boolean(0)`, i.e. false — it was `true` before the repair of `notFunc`) -/
example := Theorems.C13.C13_wrap_not_not (F := Int) d0 {} .nil .nil .nil planR (.node 6)
example : evalP (F := Int) d0 {} (.func "not" .nil (.pcons (.func "not" .nil (.pcons (.constNum "0") .pnil)) .pnil))
    (.node 6) = .ok (.bool false) := by
  rw [Theorems.C13.C13_wrap_not_not (F := Int) d0 {} .nil .nil .nil (.constNum "0") (.node 6)]
  sel_decide

/-! ## iterator level: the context node after a `Select` (`Model/Pull2`) -/

/-- `/r/*[. is b]`: the filter rejects `a` (node 2) and keeps `b` (node 4) -/
def qCtxF : PQ2 := .filter (.child (chE "") (.child (chE "r") (.absolute 0) none 0) none 0) .nil 0 none
def decCtx : Plan → Ref → Bool := fun _ n => n == .node 4
/-- the merge rewrite of `/r/a`: per parent `r`, the children `a` -/
def qCtxM : PQ2 := .merge (.child (chE "r") (.absolute 0) none 0) (.child (chE "a") (.context 0) none 0) none
/-- `/r/a/@x/following::*` (non-sibling; the input node is an attribute: the walk starts in the owner) -/
def qCtxFol : PQ2 :=
  .following (axE "following" "") false
    (.attr (atA "x") (.child (chE "a") (.child (chE "r") (.absolute 0) none 0) none 0) none) none 0
/-- `/r/a/preceding::*` (non-sibling), exhausted at once: `a[1]` has nothing before it but ancestors …
then `a[2]` reports `b` -/
def qCtxPrec : PQ2 := .preceding (axE "preceding" "") false (.child (chE "a") (.child (chE "r") (.absolute 0) none 0) none 0) none 0
/-- a union whose right operand is the filter -/
def qCtxU : PQ2 := .union (.child (chE "r") (.absolute 0) none 0) qCtxF none

/-- the candidates were visited (the first one rejected), the answer is `b`, and `t.Current()` is
still the comment node the evaluation started at — for each of the repaired types -/
example : (PQ2.select d0 {} decCtx 100 qCtxF (.node 7)).1 = .yield (.node 4) ∧
    (PQ2.select d0 {} decCtx 100 qCtxF (.node 7)).2.2 = .node 7 := by decide +kernel
example : (PQ2.select d0 {} decCtx 100 qCtxM (.node 7)).1 = .yield (.node 2) ∧
    (PQ2.select d0 {} decCtx 100 qCtxM (.node 7)).2.2 = .node 7 := by decide +kernel
example : (PQ2.select d0 {} decCtx 100 qCtxFol (.node 7)).1 = .yield (.node 4) ∧
    (PQ2.select d0 {} decCtx 100 qCtxFol (.node 7)).2.2 = .node 7 := by decide +kernel
example : (PQ2.select d0 {} decCtx 100 qCtxPrec (.node 7)).1 = .yield (.node 4) ∧
    (PQ2.select d0 {} decCtx 100 qCtxPrec (.node 7)).2.2 = .node 7 := by decide +kernel
example : (PQ2.select d0 {} decCtx 100 qCtxU (.node 7)).1 = .yield (.node 1) ∧
    (PQ2.select d0 {} decCtx 100 qCtxU (.node 7)).2.2 = .node 7 := by decide +kernel

/-- **`C13_select_leaves_context_node`** (`h : PQ2.select … = (out, q', cur')`, `out ≠ .fuel`) at these
machines -/
example := Theorems.C13.C13_select_leaves_context_node d0 {} decCtx 100 qCtxF (.node 7) _ _ _
  (triple_eq (a := .yield (.node 4)) (by decide +kernel)) (by simp)
example := Theorems.C13.C13_select_leaves_context_node d0 {} decCtx 100 qCtxM (.node 7) _ _ _
  (triple_eq (a := .yield (.node 2)) (by decide +kernel)) (by simp)
example := Theorems.C13.C13_select_leaves_context_node d0 {} decCtx 100 qCtxFol (.node 7) _ _ _
  (triple_eq (a := .yield (.node 4)) (by decide +kernel)) (by simp)
example := Theorems.C13.C13_select_leaves_context_node d0 {} decCtx 100 qCtxPrec (.node 7) _ _ _
  (triple_eq (a := .yield (.node 4)) (by decide +kernel)) (by simp)
example := Theorems.C13.C13_select_leaves_context_node d0 {} decCtx 100 qCtxU (.node 7) _ _ _
  (triple_eq (a := .yield (.node 1)) (by decide +kernel)) (by simp)

/-- the filter over `/r/zzz`: exhausted at once -/
def qCtxZ : PQ2 := .filter (.child (chE "zzz") (.child (chE "r") (.absolute 0) none 0) none 0) .nil 0 none

/-- **`C13_moveNext_false_leaves_context_node`** (`h : PQ2.moveNext … = some (false, q', cur')`) -/
example : ∃ q' cur', PQ2.moveNext d0 {} decCtx 100 qCtxZ (.node 7) = some (false, q', cur') ∧ cur' = .node 7 := by
  have h : (PQ2.moveNext d0 {} decCtx 100 qCtxZ (.node 7)).map (·.1) = some false := by decide +kernel
  cases hm : PQ2.moveNext d0 {} decCtx 100 qCtxZ (.node 7) with
  | none => rw [hm] at h; cases h
  | some r =>
    obtain ⟨b, q', c'⟩ := r
    rw [hm] at h
    simp only [Option.map_some, Option.some.injEq] at h
    subst h
    exact ⟨q', c', rfl, Theorems.C13.C13_moveNext_false_leaves_context_node d0 {} decCtx 100 qCtxZ (.node 7) q' c' hm⟩

end XPathV.Theorems.NonVacuity.C13

section AxiomAudit
open XPathV.Theorems.NonVacuity.C13
end AxiomAudit

/-! ## the whole C02 fragment (`Frag2`): predicates that are not in `PredSem.Frag` -/
namespace XPathV.Theorems.NonVacuity.C13
open XPathV XPathV.Model XPathV.Theorems.NonVacuity
open XPathV.PathSem XPathV.PredSem XPathV.PredSem2 XPathV.Compose XPathV.Compose2 XPathV.Compose3 XPathV.PosSem

attribute [local instance] toyAlg

/-- `/r/*[@x < @y]` (a path compared with a path, relational operator: in `Frag2`, not in `Frag`)
addresses exactly `b` (`2 < 3`) -/
def q3 : Ast :=
  .filter (.axis (chE "") (.axis (chE "r") (.root "/")))
    (.oper "<" (.axis (atA "x") .none) (.axis (atA "y") .none))
/-- `../*[contains(@x, '1')]/text()` (a string test on a flat path: in `Frag2`, not in `Frag`) -/
def p3 : Ast :=
  .axis chText (.filter (.axis (chE "") (.axis parentAny .none))
    (.call "contains" "" (.acons (.axis (atA "x") .none) (.acons (.str "1") .anil))))

theorem q3_abs : AbsFrag2 q3 :=
  .filter _ _ (.axis _ _ (.axis _ _ (.root _) (by decide)) (by decide))
    (.cmpPath _ _ _ (by decide) (.axis _ _ .none (by decide)) (.axis _ _ .none (by decide)))
theorem p3_rel : RelFrag2 p3 :=
  .axis _ _ (.filter _ _ (.axis _ _ (.axis _ _ .none (by decide)) (by decide))
    (.strPath _ _ _ _ (by decide) (.axis _ _ .none (by decide))
      (.axis _ _ (by decide) .none))) (by decide)
theorem q3_parsed : ParsesTo "/r/*[@x < @y]" q3 := ApiSem.parsesTo_eq (by decide +kernel)
theorem qp3_parsed : ParsesTo "/r/*[@x < @y]/../*[contains(@x, '1')]/text()" (appendPath2 q3 p3) :=
  ApiSem.parsesTo_eq (by decide +kernel)
theorem q3_unique : nodesOf (Spec.eval (F := Int) d0 q3 ⟨.node 0, 1, 1⟩) = [.node 4] := by decide +kernel

/-- **`C13_relative_compose_full`**: all hypotheses discharged (`WF`, `nsIface`, `HashInj`, `Frag2`,
`RelFrag2`, "`q` addresses exactly `n`", two `build = .ok`); both plans select the text of `a[1]` -/
theorem C13_relative_compose_full_instance : ∃ (o o' : BOut), ∃ o1 o2,
    sel (F := Int) d0 {} o.q (.node 4) = .ok o1 ∧ sel (F := Int) d0 {} o'.q (.node 0) = .ok o2 ∧
    (∀ x, x ∈ refs o1 ↔ x ∈ refs o2) ∧
    nodesOf (Spec.eval (F := Int) d0 p3 ⟨.node 4, 1, 1⟩) = [.node 3] := by
  obtain ⟨o, hb⟩ : ∃ o, build (fun _ => true) 100 true false p3 {} {} = .ok o := exists_ok (by decide +kernel)
  obtain ⟨o', hb'⟩ : ∃ o, build (fun _ => true) 100 true false (appendPath2 q3 p3) {} {} = .ok o :=
    exists_ok (by decide +kernel)
  obtain ⟨o1, o2, h1, h2, h3⟩ := Theorems.C13.C13_relative_compose_full (F := Int) wf_d0 {} rfl
    hashInj_d0 (fun _ => true) 100 q3_abs.frag2 p3_rel (.node 4) q3_unique {} {} o o' hb hb'
  exact ⟨o, o', o1, o2, h1, h2, h3, by decide +kernel⟩

/-- **`C13_absolute_build_full`** (`AbsFrag2`, `build = .ok`) on `/r/*[@x < @y]/../*[contains(@x, '1')]/text()`,
from `a[2]` and from an attribute of `b`: the same sequence -/
example : ∃ (o : BOut), sel (F := Int) d0 {} o.q (.node 6) = sel (F := Int) d0 {} o.q (.attr 4 1) := by
  obtain ⟨o, hb⟩ : ∃ o, build (fun _ => true) 100 true false (appendPath2 q3 p3) {} {} = .ok o :=
    exists_ok (by decide +kernel)
  exact ⟨o, Theorems.C13.C13_absolute_build_full (F := Int) d0 {} (fun _ => true) 100 true false
    (appendPath2_absFrag2 q3_abs p3_rel) {} {} o hb _ _⟩
/-- `C13_compose_spec_full`, `C13_absolute_spec_full`, `C13_compose_build_full` -/
example := Theorems.C13.C13_compose_spec_full (F := Int) d0 q3_abs.frag2 p3_rel ⟨.node 6, 2, 3⟩ (.node 3)
example := Theorems.C13.C13_absolute_spec_full (F := Int) d0 q3_abs ⟨.node 6, 2, 3⟩ ⟨.attr 4 1, 1, 1⟩
/-- the right-hand side of `C13_compose_spec_full` is inhabited: `q3` selects `b` from the comment
node, `p3` selects `t` from `b`, hence `q3/p3` selects `t` -/
example : (.node 3 : Ref) ∈ nodesOf (Spec.eval (F := Int) d0 (appendPath2 q3 p3) ⟨.node 7, 1, 1⟩) :=
  (Theorems.C13.C13_compose_spec_full (F := Int) d0 q3_abs.frag2 p3_rel ⟨.node 7, 1, 1⟩ (.node 3)).2
    ⟨.node 4, by decide +kernel, by decide +kernel⟩
/-- the old fragments embed -/
example : AbsFrag2 q2 := Theorems.C13.C13_absFrag_embeds q2_abs
example : RelFrag2 p2 := Theorems.C13.C13_relFrag_embeds p2_rel

end XPathV.Theorems.NonVacuity.C13
