import XPathV.Theorems.C06
import XPathV.Theorems.NonVacuity.Common
/-!
# Non-vacuity of the C06 theorems

`C06_exactly_one` and `C06_total` have no hypotheses.  `sequence_depth_guarded` /
`expression_depth_guarded` need a state past the depth limit, `scanner_progress` a successful
`nextItem`.
-/
namespace XPathV.Theorems.NonVacuity.C06
open XPathV XPathV.Model XPathV.Theorems.NonVacuity

/-- `C06_total` / `C06_exactly_one` on a text whose parse needs real work, and on a rejected one -/
example := Theorems.C06.C06_total none "//a[b = 'c' and (d | e)[2]]/@f".toList
example : (compile {} none "//a[b = 'c' and (d | e)[2]]/@f".toList).isOk = true := by decide +kernel
example := Theorems.C06.C06_exactly_one {} none "//a[".toList

/-- `expression_depth_guarded`, `sequence_depth_guarded` (`st.d + 1 > cfg.depthLimit`): a state at depth 200 -/
def stDeep : PState := ⟨okVal (Scan.init "(a)".toList), 200⟩
example : parseExpression 11 (defaultCfg none) stDeep = .error .tooComplex :=
  Theorems.C06.expression_depth_guarded 10 (defaultCfg none) stDeep (by decide +kernel)
example : parseSequence 11 (defaultCfg none) .none stDeep = .error .tooComplex :=
  Theorems.C06.sequence_depth_guarded 10 (defaultCfg none) .none stDeep (by decide +kernel)
/-- … reached from a text: 200 nested parentheses -/
example : parse (fuelFor (List.replicate 200 '(' ++ ['a'] ++ List.replicate 200 ')')) (defaultCfg none)
    (List.replicate 200 '(' ++ ['a'] ++ List.replicate 200 ')') = .error .tooComplex := by decide +kernel

/-- `scanner_progress` (`s0.nextItem = .ok s'`) -/
example := Theorems.C06.scanner_progress (okVal (Scan.init "ab/cd".toList)) _ (eq_ok_okVal (by decide +kernel))

end XPathV.Theorems.NonVacuity.C06
