import XPathV.Lemmas.Facts
import XPathV.Generated.ExtraFacts
import XPathV.Lemmas.C11Base
import XPathV.Lemmas.UnionSem
import XPathV.Lemmas.UnionSem2
import XPathV.Lemmas.ApiSem4
/-!
# C11 — union yields the set union, each node exactly once (property-level theorems)

`Lemmas/C11Base.lean` (same namespace) holds the plan-level theorem (`C11_union`: de-duplication by
key), the structured-key injectivity (`key_injective`), the parser fact for the sequence form and
the T0 theorem over the regenerated key recipe; `Lemmas/UnionSem.lean` takes them through the
builder and against the oracle.

Operands: `Frag true` — paths over the twelve axes whose start and steps may carry boolean-valued
predicates (as in C02).  Hypotheses: well-formed document, valid context node, navigator exposing
namespace URIs, `HashInj` (the node key union de-duplicates with is injective — since the repair of
`getNodeKey` the engine compares the key STRINGS and this is a theorem: `PathSem.hashInj_holds`, used by
the `_unconditional` corollaries).
-/
namespace XPathV.Theorems.C11
open XPathV XPathV.Model XPathV.Facts XPathV.PathSem XPathV.PredSem XPathV.UnionSem NumAlg

variable {F : Type} [NumAlg F]

/-- **C11 (main theorem, through the builder)**: the plan the builder makes of `A | B` yields a
sequence without repetition whose members are exactly the nodes the oracle returns for `A` or for
`B`, whatever their overlap; the oracle's value of `A | B` has the same members, each once -/
theorem C11_main {d : Doc} (wf : WF d) (cfg : ECfg) (hns : cfg.nsIface = true) (hinj : HashInj d cfg)
    (regexOk : RegexOk) (limit : Nat) (A B : Ast) (hA : Frag true A) (hB : Frag true B) (fl : Flags)
    (st : BState) (o : BOut) (hb : build regexOk limit true false (.oper "|" A B) fl st = .ok o)
    (c : Ref) (hc : validRef d c = true) :
    ∃ out nsA gA nsB gB nsU,
      sel (F := F) d cfg o.q c = .ok out ∧ (refs out).Nodup ∧
      Spec.eval (F := F) d A ⟨c, 1, 1⟩ = .ok (.val (.nodes nsA) gA) ∧
      Spec.eval (F := F) d B ⟨c, 1, 1⟩ = .ok (.val (.nodes nsB) gB) ∧
      (∀ x, x ∈ refs out ↔ x ∈ nsA ∨ x ∈ nsB) ∧
      Spec.eval (F := F) d (.oper "|" A B) ⟨c, 1, 1⟩ = .ok (.val (.nodes nsU) none) ∧
      nsU.Nodup ∧ (∀ x, x ∈ nsU ↔ x ∈ nsA ∨ x ∈ nsB) ∧ (∀ x, x ∈ refs out ↔ x ∈ nsU) :=
  UnionSem.C11_main wf cfg hns hinj regexOk limit A B hA hB fl st o hb c hc

/-- `C11_main` without the `HashInj` hypothesis (it is a theorem now: `hashInj_holds`; the side
condition left is "no element has two attributes with the same prefix, name and value") -/
theorem C11_main_unconditional {d : Doc} (wf : WF d) (cfg : ECfg) (hns : cfg.nsIface = true) (hattr : AttrTriplesDistinct d)
    (regexOk : RegexOk) (limit : Nat) (A B : Ast) (hA : Frag true A) (hB : Frag true B) (fl : Flags)
    (st : BState) (o : BOut) (hb : build regexOk limit true false (.oper "|" A B) fl st = .ok o)
    (c : Ref) (hc : validRef d c = true) :
    ∃ out nsA gA nsB gB nsU,
      sel (F := F) d cfg o.q c = .ok out ∧ (refs out).Nodup ∧
      Spec.eval (F := F) d A ⟨c, 1, 1⟩ = .ok (.val (.nodes nsA) gA) ∧
      Spec.eval (F := F) d B ⟨c, 1, 1⟩ = .ok (.val (.nodes nsB) gB) ∧
      (∀ x, x ∈ refs out ↔ x ∈ nsA ∨ x ∈ nsB) ∧
      Spec.eval (F := F) d (.oper "|" A B) ⟨c, 1, 1⟩ = .ok (.val (.nodes nsU) none) ∧
      nsU.Nodup ∧ (∀ x, x ∈ nsU ↔ x ∈ nsA ∨ x ∈ nsB) ∧ (∀ x, x ∈ refs out ↔ x ∈ nsU) :=
  C11_main wf cfg hns (PathSem.hashInj_holds wf hattr cfg) regexOk limit A B hA hB fl st o hb c hc

/-- **n-ary**: `p₀ | p₁ | … | pₙ` (left-nested, as parsed): every node of some `pᵢ`, nothing else,
each exactly once, on both sides -/
theorem C11_nary {d : Doc} (wf : WF d) (cfg : ECfg) (hns : cfg.nsIface = true) (hinj : HashInj d cfg)
    (regexOk : RegexOk) (limit : Nat) (p : Ast) (ps : List Ast) (hp : Frag true p)
    (hps : ∀ q ∈ ps, Frag true q) (hne : ps ≠ []) (st : BState) (o : BOut)
    (hb : build regexOk limit true false (unionOf p ps) {} st = .ok o)
    (c : Ref) (hc : validRef d c = true) :
    ∃ out ns g, sel (F := F) d cfg o.q c = .ok out ∧ (refs out).Nodup ∧
      Spec.eval (F := F) d (unionOf p ps) ⟨c, 1, 1⟩ = .ok (.val (.nodes ns) g) ∧ ns.Nodup ∧
      (∀ x, x ∈ refs out ↔ ∃ q ∈ p :: ps, x ∈ nodesAt d F q c) ∧
      (∀ x, x ∈ ns ↔ ∃ q ∈ p :: ps, x ∈ nodesAt d F q c) :=
  UnionSem.C11_nary wf cfg hns hinj regexOk limit p ps hp hps hne st o hb c hc

/-- `C11_nary` without the `HashInj` hypothesis (it is a theorem now: `hashInj_holds`; the side
condition left is "no element has two attributes with the same prefix, name and value") -/
theorem C11_nary_unconditional {d : Doc} (wf : WF d) (cfg : ECfg) (hns : cfg.nsIface = true) (hattr : AttrTriplesDistinct d)
    (regexOk : RegexOk) (limit : Nat) (p : Ast) (ps : List Ast) (hp : Frag true p)
    (hps : ∀ q ∈ ps, Frag true q) (hne : ps ≠ []) (st : BState) (o : BOut)
    (hb : build regexOk limit true false (unionOf p ps) {} st = .ok o)
    (c : Ref) (hc : validRef d c = true) :
    ∃ out ns g, sel (F := F) d cfg o.q c = .ok out ∧ (refs out).Nodup ∧
      Spec.eval (F := F) d (unionOf p ps) ⟨c, 1, 1⟩ = .ok (.val (.nodes ns) g) ∧ ns.Nodup ∧
      (∀ x, x ∈ refs out ↔ ∃ q ∈ p :: ps, x ∈ nodesAt d F q c) ∧
      (∀ x, x ∈ ns ↔ ∃ q ∈ p :: ps, x ∈ nodesAt d F q c) :=
  C11_nary wf cfg hns (PathSem.hashInj_holds wf hattr cfg) regexOk limit p ps hp hps hne st o hb c
    hc

/-- **sequence form `p/(s, t, …)`**: the tree the parser produces (`seqLoop_is_seqForm`) is built
into a plan that yields exactly the nodes reached by some member step from some node of `p`, each
once; the oracle agrees -/
theorem C11_sequence {d : Doc} (wf : WF d) (cfg : ECfg) (hns : cfg.nsIface = true) (hinj : HashInj d cfg)
    (regexOk : RegexOk) (limit : Nat) (p : Ast) (hp : Frag true p) (s : SeqStep)
    (ss : List SeqStep) (hs : StepOK s) (hss : ∀ t ∈ ss, StepOK t) (st : BState) (o : BOut)
    (hb : build regexOk limit true false (seqForm p s ss) {} st = .ok o)
    (c : Ref) (hc : validRef d c = true) :
    ∃ out ns g, sel (F := F) d cfg o.q c = .ok out ∧
      Spec.eval (F := F) d (seqForm p s ss) ⟨c, 1, 1⟩ = .ok (.val (.nodes ns) g) ∧
      (∀ x, x ∈ refs out ↔ x ∈ ns) ∧
      (∀ x, x ∈ ns ↔ ∃ t ∈ s :: ss, ∃ n ∈ nodesAt d F p c, x ∈ nodesAt d F (stepOn .none t) n) ∧
      (ss ≠ [] → (refs out).Nodup ∧ ns.Nodup) :=
  UnionSem.C11_sequence wf cfg hns hinj regexOk limit p hp s ss hs hss st o hb c hc

/-- `C11_sequence` without the `HashInj` hypothesis (it is a theorem now: `hashInj_holds`; the side
condition left is "no element has two attributes with the same prefix, name and value") -/
theorem C11_sequence_unconditional {d : Doc} (wf : WF d) (cfg : ECfg) (hns : cfg.nsIface = true) (hattr : AttrTriplesDistinct d)
    (regexOk : RegexOk) (limit : Nat) (p : Ast) (hp : Frag true p) (s : SeqStep)
    (ss : List SeqStep) (hs : StepOK s) (hss : ∀ t ∈ ss, StepOK t) (st : BState) (o : BOut)
    (hb : build regexOk limit true false (seqForm p s ss) {} st = .ok o)
    (c : Ref) (hc : validRef d c = true) :
    ∃ out ns g, sel (F := F) d cfg o.q c = .ok out ∧
      Spec.eval (F := F) d (seqForm p s ss) ⟨c, 1, 1⟩ = .ok (.val (.nodes ns) g) ∧
      (∀ x, x ∈ refs out ↔ x ∈ ns) ∧
      (∀ x, x ∈ ns ↔ ∃ t ∈ s :: ss, ∃ n ∈ nodesAt d F p c, x ∈ nodesAt d F (stepOn .none t) n) ∧
      (ss ≠ [] → (refs out).Nodup ∧ ns.Nodup) :=
  C11_sequence wf cfg hns (PathSem.hashInj_holds wf hattr cfg) regexOk limit p hp s ss hs hss st o
    hb c hc

/-- the parser side of the sequence form: along any run of comma-separated members the sequence
loop returns `seqForm` -/
theorem seqLoop_is_seqForm (cfg : PCfg) (inp : Ast) (f : Nat) (st stEnd : PState) (s : SeqStep)
    (ts : List SeqStep) (h : SeqRun cfg inp f st ts stEnd) :
    seqLoop f cfg inp (stepOn inp s) st = .ok (seqForm inp s ts, stEnd) :=
  seqLoop_seqForm cfg inp f st stEnd s ts h

/-! ## T0: what the regenerated facts say about the current source (leaf theorems: nothing builds on them, so a
change of the source that invalidates one of them stops only this module) -/

/-- T0: the identity key is rendered as the model's `identityKey` assumes: length-prefixed prefix,
local name (and value), then the sibling-index path -/
theorem identity_key_recipe_ok :
    Generated.hashKeyCases = ["AttributeNode,TextNode,CommentNode: writeKeyPart(&sb,n.Prefix()); writeKeyPart(&sb,n.LocalName()); writeKeyPart(&sb,n.Value())",
      "ElementNode: writeKeyPart(&sb,n.Prefix()); writeKeyPart(&sb,n.LocalName())"] ∧
    Generated.writeKeyPartSrc = "{sb.WriteString(strconv.Itoa(len(s)))sb.WriteByte(':')sb.WriteString(s)}" := ⟨rfl, rfl⟩

/-- T0: node identity is the key string itself — `getNodeKey` writes the node type first and returns the buffer's
string, and no table of `query.go` is keyed by a 64-bit number any more (the FNV-64a hash of the key used to be the
identity: two bug-hunting agents constructed colliding names within a minute, §11.1) -/
theorem identity_is_the_key_string :
    Generated.nodeKeyHead = ["sb.WriteString(strconv.Itoa(int(n.NodeType())))", "sb.WriteByte(':')"] ∧
    Generated.nodeKeyIsString = true := ⟨rfl, rfl⟩

end XPathV.Theorems.C11

/-! ## the extended fragment `Frag2`

The same statements for operands in `PredSem2.Frag2 true` — the C02 fragment as it stands now: besides
the forms of `Frag`, predicates `count(P) op n`, `n op count(P)`, `not(count(P))`, `contains` /
`starts-with` / `ends-with` over literals, `local-name()`, `local-name(P)` and flat paths,
`local-name(…) = 'lit'`, a path compared with a path or with a string literal (six operators, either
side), and the parenthesised filter input `(P)[b]`.  Proofs in `Lemmas/UnionSem2.lean`; `Frag true`
is contained in `Frag2 true` (`PredSem2.frag2_of_frag`), so these subsume the theorems above. -/
namespace XPathV.Theorems.C11
open XPathV XPathV.Model XPathV.Facts XPathV.PathSem XPathV.PredSem XPathV.PredSem2 XPathV.UnionSem
  XPathV.UnionSem2 NumAlg

variable {F : Type} [NumAlg F]

/-- **C11 (main theorem, through the builder, extended fragment)**: `C11_main` for operands of
`Frag2 true` -/
theorem C11_main_full {d : Doc} (wf : WF d) (cfg : ECfg) (hns : cfg.nsIface = true) (hinj : HashInj d cfg)
    (regexOk : RegexOk) (limit : Nat) (A B : Ast) (hA : Frag2 true A) (hB : Frag2 true B) (fl : Flags)
    (st : BState) (o : BOut) (hb : build regexOk limit true false (.oper "|" A B) fl st = .ok o)
    (c : Ref) (hc : validRef d c = true) :
    ∃ out nsA gA nsB gB nsU,
      sel (F := F) d cfg o.q c = .ok out ∧ (refs out).Nodup ∧
      Spec.eval (F := F) d A ⟨c, 1, 1⟩ = .ok (.val (.nodes nsA) gA) ∧
      Spec.eval (F := F) d B ⟨c, 1, 1⟩ = .ok (.val (.nodes nsB) gB) ∧
      (∀ x, x ∈ refs out ↔ x ∈ nsA ∨ x ∈ nsB) ∧
      Spec.eval (F := F) d (.oper "|" A B) ⟨c, 1, 1⟩ = .ok (.val (.nodes nsU) none) ∧
      nsU.Nodup ∧ (∀ x, x ∈ nsU ↔ x ∈ nsA ∨ x ∈ nsB) ∧ (∀ x, x ∈ refs out ↔ x ∈ nsU) :=
  UnionSem2.C11_main2 wf cfg hns hinj regexOk limit A B hA hB fl st o hb c hc

/-- `C11_main_full` without the `HashInj` hypothesis (`hashInj_holds`; the side condition left is "no
element has two attributes with the same prefix, name and value") -/
theorem C11_main_full_unconditional {d : Doc} (wf : WF d) (cfg : ECfg) (hns : cfg.nsIface = true)
    (hattr : AttrTriplesDistinct d)
    (regexOk : RegexOk) (limit : Nat) (A B : Ast) (hA : Frag2 true A) (hB : Frag2 true B) (fl : Flags)
    (st : BState) (o : BOut) (hb : build regexOk limit true false (.oper "|" A B) fl st = .ok o)
    (c : Ref) (hc : validRef d c = true) :
    ∃ out nsA gA nsB gB nsU,
      sel (F := F) d cfg o.q c = .ok out ∧ (refs out).Nodup ∧
      Spec.eval (F := F) d A ⟨c, 1, 1⟩ = .ok (.val (.nodes nsA) gA) ∧
      Spec.eval (F := F) d B ⟨c, 1, 1⟩ = .ok (.val (.nodes nsB) gB) ∧
      (∀ x, x ∈ refs out ↔ x ∈ nsA ∨ x ∈ nsB) ∧
      Spec.eval (F := F) d (.oper "|" A B) ⟨c, 1, 1⟩ = .ok (.val (.nodes nsU) none) ∧
      nsU.Nodup ∧ (∀ x, x ∈ nsU ↔ x ∈ nsA ∨ x ∈ nsB) ∧ (∀ x, x ∈ refs out ↔ x ∈ nsU) :=
  C11_main_full wf cfg hns (PathSem.hashInj_holds wf hattr cfg) regexOk limit A B hA hB fl st o hb c hc

/-- **n-ary, extended fragment**: `C11_nary` for operands of `Frag2 true` -/
theorem C11_nary_full {d : Doc} (wf : WF d) (cfg : ECfg) (hns : cfg.nsIface = true) (hinj : HashInj d cfg)
    (regexOk : RegexOk) (limit : Nat) (p : Ast) (ps : List Ast) (hp : Frag2 true p)
    (hps : ∀ q ∈ ps, Frag2 true q) (hne : ps ≠ []) (st : BState) (o : BOut)
    (hb : build regexOk limit true false (unionOf p ps) {} st = .ok o)
    (c : Ref) (hc : validRef d c = true) :
    ∃ out ns g, sel (F := F) d cfg o.q c = .ok out ∧ (refs out).Nodup ∧
      Spec.eval (F := F) d (unionOf p ps) ⟨c, 1, 1⟩ = .ok (.val (.nodes ns) g) ∧ ns.Nodup ∧
      (∀ x, x ∈ refs out ↔ ∃ q ∈ p :: ps, x ∈ nodesAt d F q c) ∧
      (∀ x, x ∈ ns ↔ ∃ q ∈ p :: ps, x ∈ nodesAt d F q c) :=
  UnionSem2.C11_nary2 wf cfg hns hinj regexOk limit p ps hp hps hne st o hb c hc

/-- `C11_nary_full` without the `HashInj` hypothesis -/
theorem C11_nary_full_unconditional {d : Doc} (wf : WF d) (cfg : ECfg) (hns : cfg.nsIface = true)
    (hattr : AttrTriplesDistinct d)
    (regexOk : RegexOk) (limit : Nat) (p : Ast) (ps : List Ast) (hp : Frag2 true p)
    (hps : ∀ q ∈ ps, Frag2 true q) (hne : ps ≠ []) (st : BState) (o : BOut)
    (hb : build regexOk limit true false (unionOf p ps) {} st = .ok o)
    (c : Ref) (hc : validRef d c = true) :
    ∃ out ns g, sel (F := F) d cfg o.q c = .ok out ∧ (refs out).Nodup ∧
      Spec.eval (F := F) d (unionOf p ps) ⟨c, 1, 1⟩ = .ok (.val (.nodes ns) g) ∧ ns.Nodup ∧
      (∀ x, x ∈ refs out ↔ ∃ q ∈ p :: ps, x ∈ nodesAt d F q c) ∧
      (∀ x, x ∈ ns ↔ ∃ q ∈ p :: ps, x ∈ nodesAt d F q c) :=
  C11_nary_full wf cfg hns (PathSem.hashInj_holds wf hattr cfg) regexOk limit p ps hp hps hne st o hb
    c hc

/-- **sequence form `p/(s, t, …)`, extended fragment**: `C11_sequence` for `p` in `Frag2 true` and
member steps whose predicates are in `Frag2 false` (`StepOK2`) -/
theorem C11_sequence_full {d : Doc} (wf : WF d) (cfg : ECfg) (hns : cfg.nsIface = true) (hinj : HashInj d cfg)
    (regexOk : RegexOk) (limit : Nat) (p : Ast) (hp : Frag2 true p) (s : SeqStep)
    (ss : List SeqStep) (hs : StepOK2 s) (hss : ∀ t ∈ ss, StepOK2 t) (st : BState) (o : BOut)
    (hb : build regexOk limit true false (seqForm p s ss) {} st = .ok o)
    (c : Ref) (hc : validRef d c = true) :
    ∃ out ns g, sel (F := F) d cfg o.q c = .ok out ∧
      Spec.eval (F := F) d (seqForm p s ss) ⟨c, 1, 1⟩ = .ok (.val (.nodes ns) g) ∧
      (∀ x, x ∈ refs out ↔ x ∈ ns) ∧
      (∀ x, x ∈ ns ↔ ∃ t ∈ s :: ss, ∃ n ∈ nodesAt d F p c, x ∈ nodesAt d F (stepOn .none t) n) ∧
      (ss ≠ [] → (refs out).Nodup ∧ ns.Nodup) :=
  UnionSem2.C11_sequence2 wf cfg hns hinj regexOk limit p hp s ss hs hss st o hb c hc

/-- `C11_sequence_full` without the `HashInj` hypothesis -/
theorem C11_sequence_full_unconditional {d : Doc} (wf : WF d) (cfg : ECfg) (hns : cfg.nsIface = true)
    (hattr : AttrTriplesDistinct d)
    (regexOk : RegexOk) (limit : Nat) (p : Ast) (hp : Frag2 true p) (s : SeqStep)
    (ss : List SeqStep) (hs : StepOK2 s) (hss : ∀ t ∈ ss, StepOK2 t) (st : BState) (o : BOut)
    (hb : build regexOk limit true false (seqForm p s ss) {} st = .ok o)
    (c : Ref) (hc : validRef d c = true) :
    ∃ out ns g, sel (F := F) d cfg o.q c = .ok out ∧
      Spec.eval (F := F) d (seqForm p s ss) ⟨c, 1, 1⟩ = .ok (.val (.nodes ns) g) ∧
      (∀ x, x ∈ refs out ↔ x ∈ ns) ∧
      (∀ x, x ∈ ns ↔ ∃ t ∈ s :: ss, ∃ n ∈ nodesAt d F p c, x ∈ nodesAt d F (stepOn .none t) n) ∧
      (ss ≠ [] → (refs out).Nodup ∧ ns.Nodup) :=
  C11_sequence_full wf cfg hns (PathSem.hashInj_holds wf hattr cfg) regexOk limit p hp s ss hs hss st
    o hb c hc

end XPathV.Theorems.C11

/-! ## from the expression text, through `compile` (`Lemmas/ApiSem4.lean`)

The theorems above start from a parse tree and a successful `build`.  Here the statement starts from
the text: the parser (as `compile` runs it) turns it into `A | B` with operands in `Frag2 true`.
A union plan is not `PathShape`, but `evaluate` does not need that: `evalP` on `.union _ _` takes
its default arm, so `Evaluate` is covered too (`C11_from_text_evaluate`). -/
namespace XPathV.Theorems.C11
open XPathV XPathV.Model XPathV.Facts XPathV.PathSem XPathV.PredSem XPathV.PredSem2 XPathV.UnionSem
  XPathV.UnionSem2 XPathV.ApiSem NumAlg

/-- **C11 from the expression text**: for a text the parser turns into `A | B` with operands of the
extended fragment, `compile` at the source configuration either reports a builder error (never
"empty", a parse error, lack of fuel or the nil query) or returns a plan on which `Select`, from
every valid context node of every well-formed document, yields each node of the oracle's value of
`A | B` exactly once and nothing else -/
theorem C11_from_text (regexOk : RegexOk) (ns : Option (List (String × String)))
    (text : List Char) (A B : Ast)
    (hparse : parse (fuelFor text) (defaultCfg ns) text = .ok (.oper "|" A B))
    (hA : Frag2 true A) (hB : Frag2 true B) :
    (∃ e, compile { regexOk := regexOk } ns text = .error (.build e)) ∨
    (∃ p, compile { regexOk := regexOk } ns text = .ok p ∧
      ∀ (F : Type) [NumAlg F] (d : Doc), WF d → ∀ cfg : ECfg, cfg.nsIface = true → HashInj d cfg →
        ∀ c, validRef d c = true →
          ∃ l nsl, selectAll (F := F) d cfg p c = .ok l ∧ l.Nodup ∧
            Spec.evalTop (F := F) d (.oper "|" A B) c = .ok (.nodes nsl) ∧ ∀ x, x ∈ l ↔ x ∈ nsl) := by
  rcases C11_compile_total regexOk ns text A B hparse hA hB with h | ⟨p, h1, _, h3⟩
  · exact .inl h
  · refine .inr ⟨p, h1, fun F _ d wf cfg hns hinj c hc => ?_⟩
    obtain ⟨l, nsl, a1, _, a3, a4, _, a6, _⟩ := h3 F d wf cfg hns hinj c hc
    exact ⟨l, nsl, a1, a3, a4, a6⟩

/-- `C11_from_text` without the `HashInj` hypothesis (`hashInj_holds`; the side condition left is "no
element has two attributes with the same prefix, name and value") -/
theorem C11_from_text_unconditional (regexOk : RegexOk) (ns : Option (List (String × String)))
    (text : List Char) (A B : Ast)
    (hparse : parse (fuelFor text) (defaultCfg ns) text = .ok (.oper "|" A B))
    (hA : Frag2 true A) (hB : Frag2 true B) :
    (∃ e, compile { regexOk := regexOk } ns text = .error (.build e)) ∨
    (∃ p, compile { regexOk := regexOk } ns text = .ok p ∧
      ∀ (F : Type) [NumAlg F] (d : Doc), WF d → ∀ cfg : ECfg, cfg.nsIface = true →
        AttrTriplesDistinct d →
        ∀ c, validRef d c = true →
          ∃ l nsl, selectAll (F := F) d cfg p c = .ok l ∧ l.Nodup ∧
            Spec.evalTop (F := F) d (.oper "|" A B) c = .ok (.nodes nsl) ∧ ∀ x, x ∈ l ↔ x ∈ nsl) := by
  rcases C11_from_text regexOk ns text A B hparse hA hB with h | ⟨p, h1, h2⟩
  · exact .inl h
  · exact .inr ⟨p, h1, fun F _ d wf cfg hns hattr c hc =>
      h2 F d wf cfg hns (hashInj_holds wf hattr cfg) c hc⟩

/-- **C11 from the expression text, `Select` and `Evaluate`**: the plan is a union plan, `Evaluate`
returns the list `Select` yields, the oracle's node-set has no repetition either and is the union
of the operands' node-sets -/
theorem C11_from_text_evaluate (regexOk : RegexOk) (ns : Option (List (String × String)))
    (text : List Char) (A B : Ast)
    (hparse : parse (fuelFor text) (defaultCfg ns) text = .ok (.oper "|" A B))
    (hA : Frag2 true A) (hB : Frag2 true B) :
    (∃ e, compile { regexOk := regexOk } ns text = .error (.build e)) ∨
    (∃ p, compile { regexOk := regexOk } ns text = .ok p ∧ (∃ l r, p = .union l r) ∧
      ∀ (F : Type) [NumAlg F] (d : Doc), WF d → ∀ cfg : ECfg, cfg.nsIface = true → HashInj d cfg →
        ∀ c, validRef d c = true →
          ∃ l nsl, selectAll (F := F) d cfg p c = .ok l ∧ evaluate (F := F) d cfg p c = .ok (.nodes l) ∧
            l.Nodup ∧ Spec.evalTop (F := F) d (.oper "|" A B) c = .ok (.nodes nsl) ∧ nsl.Nodup ∧
            (∀ x, x ∈ l ↔ x ∈ nsl) ∧
            (∀ x, x ∈ nsl ↔ x ∈ nodesAt d F A c ∨ x ∈ nodesAt d F B c)) :=
  C11_compile_total regexOk ns text A B hparse hA hB

end XPathV.Theorems.C11

section AxiomAuditFromText
open XPathV.Theorems.C11
end AxiomAuditFromText
