import XPathV.Model.Api
/-! # Property C11 — theorems (placeholder header; filled in below) -/
namespace XPathV.Theorems.C11
end XPathV.Theorems.C11
