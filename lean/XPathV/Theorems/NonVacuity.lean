import XPathV.Theorems.NonVacuity.C01
import XPathV.Theorems.NonVacuity.C02
import XPathV.Theorems.NonVacuity.C03
import XPathV.Theorems.NonVacuity.C04
import XPathV.Theorems.NonVacuity.C05
import XPathV.Theorems.NonVacuity.C06
import XPathV.Theorems.NonVacuity.C07
import XPathV.Theorems.NonVacuity.C08
import XPathV.Theorems.NonVacuity.C09
import XPathV.Theorems.NonVacuity.C10
import XPathV.Theorems.NonVacuity.C11
import XPathV.Theorems.NonVacuity.C12
import XPathV.Theorems.NonVacuity.C13
import XPathV.Theorems.NonVacuity.C14
import XPathV.Theorems.NonVacuity.C15
import XPathV.Theorems.NonVacuity.C16
import XPathV.Theorems.NonVacuity.C17
/-!
# Non-vacuity audit of the property-level theorems (C01–C17)

One file per property under `Theorems/NonVacuity/`; `Common.lean` holds the shared concrete document
`d0`, `wf_of_wfb`, the decision procedure for `HashInj`, and small helpers.  Nothing here is used
by the theorems themselves.
-/
