import XPathV.Model.Api
/-! # Property C08 — theorems (placeholder header; filled in below) -/
namespace XPathV.Theorems.C08
end XPathV.Theorems.C08
