import XPathV.Lemmas.Facts
import XPathV.Generated.ExtraFacts
import XPathV.Lemmas.C08Base
import XPathV.Lemmas.ArithSem
import XPathV.Lemmas.ArithSem2
/-!
# C08 — arithmetic and numeric functions follow XPath 1.0 / IEEE 754 (property-level theorems)

`Lemmas/C08Base.lean` (same namespace) holds the operand-conversion theorems and the T0 theorems
over the regenerated sources; `Lemmas/ArithSem.lean` the induction over arithmetic expression
trees.  Everything is parametric in the number algebra `F` (`NumAlg`): the theorems say that the
engine applies *the same IEEE operation to the same operand values in the same order* as the
XPath oracle, for trees of every depth.

Fragment `NumEF`: number literals, `+ - * div`, unary minus (the parser's `x * -1`), `mod` where
the oracle is defined (`ModDom`), parentheses, `floor`, `ceiling`, `number`, `number('…')`,
`string-length('…')`, `count(P)` for flat relative paths `P` (child/attribute/self steps), and
`sum(P)` for flat relative paths `P` all of whose selected nodes are numeric — stated on the oracle
side (`FlatSum`: the oracle's evaluation of `sum(P)` succeeds); `count` and `sum` may occur anywhere
inside a tree, e.g. `sum(a/@b) div count(a/@b) + 1`.
-/
namespace XPathV.Theorems.C08
open XPathV XPathV.Model XPathV.Facts XPathV.PathSem XPathV.ArithSem NumAlg

variable {F : Type} [NumAlg F]

/-- **C08, pure arithmetic trees of every depth**: for every document, context, configuration
and every plan the builder makes of an expression of the fragment without `count`/`mod`, the
engine's result is a number and it is the oracle's number -/
theorem C08_arith_trees (d : Doc) (cfg : ECfg) (regexOk : RegexOk) (limit : Nat) (snt sdf : Bool)
    {e : Ast} (he : NumE e) (ctx : Spec.Ctx) (fl : Flags) (st : BState) (o : BOut)
    (hb : build regexOk limit snt sdf e fl st = .ok o) :
    ∃ x : F, evalP (F := F) d cfg o.q ctx.node = .ok (.num x) ∧
      Spec.eval (F := F) d e ctx = .ok (.val (.num x) none) :=
  numE_sem d cfg regexOk limit snt sdf he ctx fl st o hb

/-- **C08, full fragment** (with `mod` on the oracle's domain, `count` over flat paths and `sum`
over flat paths selecting numeric nodes only); hypotheses of C01 for the `count`/`sum` arguments: well-formed document, valid context node, navigator
exposing namespace URIs,
`HashInj` (node keys are injective: a theorem, `PathSem.hashInj_holds` — see the `_unconditional` corollary) -/
theorem C08_main {d : Doc} (wf : WF d) (cfg : ECfg) (hns : cfg.nsIface = true)
    (hinj : HashInj d cfg) (regexOk : RegexOk) (limit : Nat) (sdf : Bool)
    (c : Ref) (hc : validRef d c = true) (i n : Nat) {e : Ast} (he : NumEF d ⟨c, i, n⟩ F e)
    (fl : Flags) (st : BState) (o : BOut) (hb : build regexOk limit true sdf e fl st = .ok o) :
    ∃ x : F, evalP (F := F) d cfg o.q c = .ok (.num x) ∧
      Spec.eval (F := F) d e ⟨c, i, n⟩ = .ok (.val (.num x) none) :=
  numEF_sem wf cfg hns hinj regexOk limit sdf c hc i n he fl st o hb

/-- `C08_main` without the `HashInj` hypothesis (it is a theorem now: `hashInj_holds`; the side
condition left is "no element has two attributes with the same prefix, name and value") -/
theorem C08_main_unconditional {d : Doc} (wf : WF d) (cfg : ECfg) (hns : cfg.nsIface = true)
    (hattr : AttrTriplesDistinct d) (regexOk : RegexOk) (limit : Nat) (sdf : Bool)
    (c : Ref) (hc : validRef d c = true) (i n : Nat) {e : Ast} (he : NumEF d ⟨c, i, n⟩ F e)
    (fl : Flags) (st : BState) (o : BOut) (hb : build regexOk limit true sdf e fl st = .ok o) :
    ∃ x : F, evalP (F := F) d cfg o.q c = .ok (.num x) ∧
      Spec.eval (F := F) d e ⟨c, i, n⟩ = .ok (.val (.num x) none) :=
  C08_main wf cfg hns (PathSem.hashInj_holds wf hattr cfg) regexOk limit sdf c hc i n he fl st o hb

/-- … at the public API: `Expr.Evaluate` returns the `float64` that the oracle's top-level
evaluation returns -/
theorem C08_evaluate {d : Doc} (wf : WF d) (cfg : ECfg) (hns : cfg.nsIface = true)
    (hinj : HashInj d cfg) (regexOk : RegexOk) (limit : Nat) (sdf : Bool)
    (c : Ref) (hc : validRef d c = true) {e : Ast} (he : NumEF d ⟨c, 1, 1⟩ F e)
    (st : BState) (o : BOut) (hb : build regexOk limit true sdf e {} st = .ok o) :
    ∃ x : F, evaluate (F := F) d cfg o.q c = .ok (.num x) ∧
      Spec.evalTop (F := F) d e c = .ok (.num x) :=
  numEF_evaluate wf cfg hns hinj regexOk limit sdf c hc he st o hb

/-- `C08_evaluate` without the `HashInj` hypothesis (it is a theorem now: `hashInj_holds`; the side
condition left is "no element has two attributes with the same prefix, name and value") -/
theorem C08_evaluate_unconditional {d : Doc} (wf : WF d) (cfg : ECfg) (hns : cfg.nsIface = true)
    (hattr : AttrTriplesDistinct d) (regexOk : RegexOk) (limit : Nat) (sdf : Bool)
    (c : Ref) (hc : validRef d c = true) {e : Ast} (he : NumEF d ⟨c, 1, 1⟩ F e)
    (st : BState) (o : BOut) (hb : build regexOk limit true sdf e {} st = .ok o) :
    ∃ x : F, evaluate (F := F) d cfg o.q c = .ok (.num x) ∧
      Spec.evalTop (F := F) d e c = .ok (.num x) :=
  C08_evaluate wf cfg hns (PathSem.hashInj_holds wf hattr cfg) regexOk limit sdf c hc he st o hb

/-- **C08, `sum()` over numeric nodes**: for a flat path `P`, if the oracle evaluates `sum(P)` to
the number `x` — which it does exactly when every node `P` selects is numeric — the plan the
builder makes of `sum(P)` evaluates to `x`: the engine adds the same numbers in the same (document)
order, starting from `0` -/
theorem C08_sum {d : Doc} (wf : WF d) (cfg : ECfg) (hns : cfg.nsIface = true)
    (hinj : HashInj d cfg) (regexOk : RegexOk) (limit : Nat) (sdf : Bool)
    (c : Ref) (hc : validRef d c = true) (i n : Nat) {p : Ast} (hp : FlatPath p) (pfx : String)
    (x : F) (g : Option (List (List Ref)))
    (hx : Spec.eval (F := F) d (.call "sum" pfx (.acons p .anil)) ⟨c, i, n⟩ = .ok (.val (.num x) g))
    (fl : Flags) (st : BState) (o : BOut)
    (hb : build regexOk limit true sdf (.call "sum" pfx (.acons p .anil)) fl st = .ok o) :
    evalP (F := F) d cfg o.q c = .ok (.num x) :=
  sum_flat_sem wf cfg hns hinj regexOk limit sdf c hc i n hp pfx x g hx fl st o hb

/-- `C08_sum` without the `HashInj` hypothesis (it is a theorem now: `hashInj_holds`; the side
condition left is "no element has two attributes with the same prefix, name and value") -/
theorem C08_sum_unconditional {d : Doc} (wf : WF d) (cfg : ECfg) (hns : cfg.nsIface = true)
    (hattr : AttrTriplesDistinct d) (regexOk : RegexOk) (limit : Nat) (sdf : Bool)
    (c : Ref) (hc : validRef d c = true) (i n : Nat) {p : Ast} (hp : FlatPath p) (pfx : String)
    (x : F) (g : Option (List (List Ref)))
    (hx : Spec.eval (F := F) d (.call "sum" pfx (.acons p .anil)) ⟨c, i, n⟩ = .ok (.val (.num x) g))
    (fl : Flags) (st : BState) (o : BOut)
    (hb : build regexOk limit true sdf (.call "sum" pfx (.acons p .anil)) fl st = .ok o) :
    evalP (F := F) d cfg o.q c = .ok (.num x) :=
  C08_sum wf cfg hns (PathSem.hashInj_holds wf hattr cfg) regexOk limit sdf c hc i n hp pfx x g hx
    fl st o hb

/-- … at the public API -/
theorem C08_sum_evaluate {d : Doc} (wf : WF d) (cfg : ECfg) (hns : cfg.nsIface = true)
    (hinj : HashInj d cfg) (regexOk : RegexOk) (limit : Nat) (sdf : Bool)
    (c : Ref) (hc : validRef d c = true) {p : Ast} (hp : FlatPath p) (pfx : String) (x : F)
    (hx : Spec.evalTop (F := F) d (.call "sum" pfx (.acons p .anil)) c = .ok (.num x))
    (st : BState) (o : BOut)
    (hb : build regexOk limit true sdf (.call "sum" pfx (.acons p .anil)) {} st = .ok o) :
    evaluate (F := F) d cfg o.q c = .ok (.num x) :=
  sum_flat_evaluate wf cfg hns hinj regexOk limit sdf c hc hp pfx x hx st o hb

/-- `C08_sum_evaluate` without the `HashInj` hypothesis (it is a theorem now: `hashInj_holds`; the side
condition left is "no element has two attributes with the same prefix, name and value") -/
theorem C08_sum_evaluate_unconditional {d : Doc} (wf : WF d) (cfg : ECfg) (hns : cfg.nsIface = true)
    (hattr : AttrTriplesDistinct d) (regexOk : RegexOk) (limit : Nat) (sdf : Bool)
    (c : Ref) (hc : validRef d c = true) {p : Ast} (hp : FlatPath p) (pfx : String) (x : F)
    (hx : Spec.evalTop (F := F) d (.call "sum" pfx (.acons p .anil)) c = .ok (.num x))
    (st : BState) (o : BOut)
    (hb : build regexOk limit true sdf (.call "sum" pfx (.acons p .anil)) {} st = .ok o) :
    evaluate (F := F) d cfg o.q c = .ok (.num x) :=
  C08_sum_evaluate wf cfg hns (PathSem.hashInj_holds wf hattr cfg) regexOk limit sdf c hc hp pfx x
    hx st o hb

/-- what the engine computes for `sum(P)` *whatever* the nodes are: Go's callback (skip the nodes
whose text is not a number) folded over the oracle's node list.  Where some node is not numeric
the oracle is silent (`unsupported`, `ArithSem.eval_sum_of_nodes`) and the property says nothing. -/
theorem C08_sum_model {d : Doc} (wf : WF d) (cfg : ECfg) (hns : cfg.nsIface = true)
    (hinj : HashInj d cfg) (regexOk : RegexOk) (limit : Nat) (sdf : Bool)
    (c : Ref) (hc : validRef d c = true) (i n : Nat) {p : Ast} (hp : FlatPath p) (pfx : String)
    (fl : Flags) (st : BState) (o : BOut)
    (hb : build regexOk limit true sdf (.call "sum" pfx (.acons p .anil)) fl st = .ok o) :
    ∃ ns g, Spec.eval (F := F) d p ⟨c, i, n⟩ = .ok (.val (.nodes ns) g) ∧
      evalP (F := F) d cfg o.q c = .ok (.num (ns.foldl (fun acc r =>
        if isNaN (Spec.strToNum (F := F) (stringValue d r)) = true then acc
        else add acc (Spec.strToNum (stringValue d r))) (ofNat 0))) :=
  sum_flat_model wf cfg hns hinj regexOk limit sdf c hc i n hp pfx fl st o hb

/-- `C08_sum_model` without the `HashInj` hypothesis (it is a theorem now: `hashInj_holds`; the side
condition left is "no element has two attributes with the same prefix, name and value") -/
theorem C08_sum_model_unconditional {d : Doc} (wf : WF d) (cfg : ECfg) (hns : cfg.nsIface = true)
    (hattr : AttrTriplesDistinct d) (regexOk : RegexOk) (limit : Nat) (sdf : Bool)
    (c : Ref) (hc : validRef d c = true) (i n : Nat) {p : Ast} (hp : FlatPath p) (pfx : String)
    (fl : Flags) (st : BState) (o : BOut)
    (hb : build regexOk limit true sdf (.call "sum" pfx (.acons p .anil)) fl st = .ok o) :
    ∃ ns g, Spec.eval (F := F) d p ⟨c, i, n⟩ = .ok (.val (.nodes ns) g) ∧
      evalP (F := F) d cfg o.q c = .ok (.num (ns.foldl (fun acc r =>
        if isNaN (Spec.strToNum (F := F) (stringValue d r)) = true then acc
        else add acc (Spec.strToNum (stringValue d r))) (ofNat 0))) :=
  C08_sum_model wf cfg hns (PathSem.hashInj_holds wf hattr cfg) regexOk limit sdf c hc i n hp pfx fl
    st o hb

/-- **same operation, same operands, same order**: the value of `a op b` is `f x y` on both
sides, for the one `NumAlg` operation `f` that `op` denotes and the values `x`, `y` of the
operands — so NaN, ±∞ and −0 propagate identically, whatever IEEE says they do -/
theorem C08_same_operation (d : Doc) (cfg : ECfg) (regexOk : RegexOk) (limit : Nat) (snt sdf : Bool)
    (ctx : Spec.Ctx) {op : String} (hop : op ∈ arithOps) {a b : Ast} (ha : NumE a) (hb : NumE b)
    (fl : Flags) (st : BState) (o : BOut)
    (hbuild : build regexOk limit snt sdf (.oper op a b) fl st = .ok o) :
    ∃ (f : F → F → F) (x y : F), opFn (F := F) op = some f ∧
      Spec.eval (F := F) d a ctx = .ok (.val (.num x) none) ∧
      Spec.eval (F := F) d b ctx = .ok (.val (.num y) none) ∧
      evalP (F := F) d cfg o.q ctx.node = .ok (.num (f x y)) ∧
      Spec.eval (F := F) d (.oper op a b) ctx = .ok (.val (.num (f x y)) none) :=
  numEG_oper_value d cfg regexOk limit snt sdf ctx (countOK_false d cfg regexOk limit snt sdf ctx)
    (sumOK_false d cfg regexOk limit snt sdf ctx) (modOK_false d ctx) hop ha hb fl st o hbuild

/-- **number → string**: `string(e)` of an arithmetic tree renders the same number with the same
`Spec.numToStr` on both sides -/
theorem C08_string_of_number (d : Doc) (cfg : ECfg) (regexOk : RegexOk) (limit : Nat) (snt sdf : Bool)
    (ctx : Spec.Ctx) {a : Ast} (ha : NumE a) (pfx : String) (fl : Flags) (st : BState) (o : BOut)
    (hb : build regexOk limit snt sdf (.call "string" pfx (.acons a .anil)) fl st = .ok o) :
    ∃ x : F, Spec.eval (F := F) d a ctx = .ok (.val (.num x) none) ∧
      evalP (F := F) d cfg o.q ctx.node = .ok (.str (Spec.numToStr x)) ∧
      Spec.eval (F := F) d (.call "string" pfx (.acons a .anil)) ctx =
        .ok (.val (.str (Spec.numToStr x)) none) :=
  string_of_numE_sem d cfg regexOk limit snt sdf ctx ha pfx fl st o hb

/-- non-vacuity: `-(1 + 2.5) - floor(3 div 0)`, as the parser produces it, is in the fragment
and the builder accepts it -/
example : NumE (.oper "-" (.oper "*" (.group (.oper "+" (.num "1") (.num "2.5"))) (.num "-1"))
    (.call "floor" "" (.acons (.oper "div" (.num "3") (.num "0")) .anil))) :=
  .arith "-" _ _ (by decide) (NumEG.neg (.group _ (.arith "+" _ _ (by decide) (.num _) (.num _))))
    (.floor "" _ (.arith "div" _ _ (by decide) (.num _) (.num _)))

/-! ## T0: what the regenerated facts say about the current source (leaf theorems: nothing builds on them, so a
change of the source that invalidates one of them stops only this module) -/

/-- T0: `mod` no longer goes through `int` (the pinned `float64(int(a) % int(b))`), and the numeric
operators are wired to the expected functions -/
theorem numeric_ops_ok : Generated.modUsesIntConversion = false ∧
    Generated.numericOpFuncs = [("+", "plusFunc"), ("-", "minusFunc"), ("*", "mulFunc"), ("div", "divFunc"), ("mod", "modFunc")] := by decide

/-- T0: `mod` is `math.Mod`, the number rendering arm of `asString` is the XPath one -/
theorem numeric_sources_ok : Generated.modCallbackSrc = "math.Mod(a,b)" ∧
    Generated.asStringFloatSrc = "switch{casemath.IsNaN(v):return\"NaN\"casemath.IsInf(v,1):return\"Infinity\"casemath.IsInf(v,-1):return\"-Infinity\"casev==0:return\"0\"};returnstrconv.FormatFloat(v,'f',-1,64)" :=
  ⟨rfl, rfl⟩

end XPathV.Theorems.C08

/-! ## `count(P)` / `sum(P)` over flat paths **with predicates** (`PredSem2.Frag2`)

`Lemmas/ArithSem2.lean`: the arithmetic fragment `NumEF2` is `NumEF` with the arguments of `count`
and `sum` ranging over `ArithSem2.FlatF2` — flat paths (child/attribute/self steps from the context
node or the root) whose steps carry any number of the boolean-valued predicates of the C02 fragment
`Frag2` (`count(a[@x < @y]) * 2 + 1`, `sum(a[b]/@x) div count(a[b])`).  The `Frag2` builder lemmas
are stated at `smartDescThroughFilter = false` (the value read off the source), so the builder
parameter `sdf` of `C08_main` is fixed to `false` here. -/
namespace XPathV.Theorems.C08
open XPathV XPathV.Model XPathV.Facts XPathV.PathSem XPathV.ArithSem XPathV.ArithSem2 NumAlg

variable {F : Type} [NumAlg F]

/-- **C08, filtered counts (and sums)**: same conclusion as `C08_main` — the built plan's number is
the oracle's number — for arithmetic trees of every depth whose `count(P)` / `sum(P)` leaves have
flat paths `P` *with `Frag2` predicates* (`NumEF2`); hypotheses of C02 -/
theorem C08_main_filtered_counts {d : Doc} (wf : WF d) (cfg : ECfg) (hns : cfg.nsIface = true)
    (hinj : HashInj d cfg) (regexOk : RegexOk) (limit : Nat)
    (c : Ref) (hc : validRef d c = true) (i n : Nat) {e : Ast} (he : NumEF2 d ⟨c, i, n⟩ F e)
    (fl : Flags) (st : BState) (o : BOut) (hb : build regexOk limit true false e fl st = .ok o) :
    ∃ x : F, evalP (F := F) d cfg o.q c = .ok (.num x) ∧
      Spec.eval (F := F) d e ⟨c, i, n⟩ = .ok (.val (.num x) none) :=
  C08_main2 wf cfg hns hinj regexOk limit c hc i n he fl st o hb

/-- `C08_main_filtered_counts` without the `HashInj` hypothesis (`hashInj_holds`) -/
theorem C08_main_filtered_counts_unconditional {d : Doc} (wf : WF d) (cfg : ECfg)
    (hns : cfg.nsIface = true) (hattr : AttrTriplesDistinct d) (regexOk : RegexOk) (limit : Nat)
    (c : Ref) (hc : validRef d c = true) (i n : Nat) {e : Ast} (he : NumEF2 d ⟨c, i, n⟩ F e)
    (fl : Flags) (st : BState) (o : BOut) (hb : build regexOk limit true false e fl st = .ok o) :
    ∃ x : F, evalP (F := F) d cfg o.q c = .ok (.num x) ∧
      Spec.eval (F := F) d e ⟨c, i, n⟩ = .ok (.val (.num x) none) :=
  C08_main_filtered_counts wf cfg hns (PathSem.hashInj_holds wf hattr cfg) regexOk limit c hc i n he
    fl st o hb

/-- … at the public API: `Expr.Evaluate` returns the number the oracle's top-level evaluation returns -/
theorem C08_evaluate_filtered_counts {d : Doc} (wf : WF d) (cfg : ECfg) (hns : cfg.nsIface = true)
    (hinj : HashInj d cfg) (regexOk : RegexOk) (limit : Nat)
    (c : Ref) (hc : validRef d c = true) {e : Ast} (he : NumEF2 d ⟨c, 1, 1⟩ F e)
    (st : BState) (o : BOut) (hb : build regexOk limit true false e {} st = .ok o) :
    ∃ x : F, evaluate (F := F) d cfg o.q c = .ok (.num x) ∧
      Spec.evalTop (F := F) d e c = .ok (.num x) :=
  numEF2_evaluate wf cfg hns hinj regexOk limit c hc he st o hb

/-- **old fragment → new**: every expression of `NumEF` (the fragment of `C08_main`) is in `NumEF2`,
so `C08_main_filtered_counts` contains `C08_main` at `sdf = false` -/
theorem C08_filtered_counts_embeds {d : Doc} {ctx : Spec.Ctx} {e : Ast} (h : NumEF d ctx F e) :
    NumEF2 d ctx F e := numEF2_of_numEF h

/-- `C08_main` (at `smartDescThroughFilter = false`) is the restriction of
`C08_main_filtered_counts` to the old fragment -/
theorem C08_main_of_filtered_counts {d : Doc} (wf : WF d) (cfg : ECfg) (hns : cfg.nsIface = true)
    (hinj : HashInj d cfg) (regexOk : RegexOk) (limit : Nat)
    (c : Ref) (hc : validRef d c = true) (i n : Nat) {e : Ast} (he : NumEF d ⟨c, i, n⟩ F e)
    (fl : Flags) (st : BState) (o : BOut) (hb : build regexOk limit true false e fl st = .ok o) :
    ∃ x : F, evalP (F := F) d cfg o.q c = .ok (.num x) ∧
      Spec.eval (F := F) d e ⟨c, i, n⟩ = .ok (.val (.num x) none) :=
  C08_main_filtered_counts wf cfg hns hinj regexOk limit c hc i n (C08_filtered_counts_embeds he)
    fl st o hb

/-- **`sum(P)` over a flat filtered path**: if the oracle evaluates `sum(P)` to the number `x`
(every node `P` selects is numeric), the built plan of `sum(P)` evaluates to `x` -/
theorem C08_sum_filtered {d : Doc} (wf : WF d) (cfg : ECfg) (hns : cfg.nsIface = true)
    (hinj : HashInj d cfg) (regexOk : RegexOk) (limit : Nat)
    (c : Ref) (hc : validRef d c = true) (i n : Nat) {p : Ast} (hp : FlatF2 p) (pfx : String)
    (x : F) (g : Option (List (List Ref)))
    (hx : Spec.eval (F := F) d (.call "sum" pfx (.acons p .anil)) ⟨c, i, n⟩ = .ok (.val (.num x) g))
    (fl : Flags) (st : BState) (o : BOut)
    (hb : build regexOk limit true false (.call "sum" pfx (.acons p .anil)) fl st = .ok o) :
    evalP (F := F) d cfg o.q c = .ok (.num x) :=
  sum_flat2_sem wf cfg hns hinj regexOk limit c hc i n hp pfx x g hx fl st o hb

end XPathV.Theorems.C08
