import XPathV.Lemmas.Facts
import XPathV.Generated.ExtraFacts
import XPathV.Model.Conc
/-!
# C05 — one compiled expression may be used from many goroutines at once (partial)

What is logic here: evaluations share nothing mutable except lock-protected state.  `Model/Conc`
proves, for abstract threads with read/write footprints, that disjoint footprints make every
interleaving equivalent to the sequential runs (`Conc.interleave_independent`).  The instantiation
below is over the footprint facts re-read from the source (F7, F8, F15).  The Go memory model, the
scheduler, `sync.RWMutex`/`sync.Pool` and the race detector are not modelled: actual races are
looked for by the `-race` run of the harness, which is evidence, not proof.
-/
namespace XPathV.Theorems.C05
open XPathV XPathV.Facts

/-- T0 (F8): no function literal of func.go/build.go assigns a variable it captured from a scope
shared between evaluations -/
theorem no_shared_closure_writes : closureWritesOk Generated.closureWrites = true := by decide

/-- T0 (F8): no function assigns a package-level variable after initialisation -/
theorem globals_not_written : globalsOk Generated.globals = true := by decide

/-- T0 (F8): every write to a `loadingCache` field sits between `Lock()` and `Unlock()` -/
theorem cache_writes_locked : lockedOk Generated.lockedWrites = true := by decide

/-- T0 (F15, F7): both entry points work on a clone and clones share no iteration state -/
theorem evaluations_share_no_state : Generated.selectClones = true ∧ Generated.evaluateClonesBeforeEval = true ∧
    Generated.structs.all cloneOk = true := by decide

/-- threads whose footprints are pairwise disjoint compute, under every interleaving, what they
compute alone (generic lemma, instantiated by the facts above) -/
theorem concurrent_equals_sequential (fa fb : Model.Conc.Loc → Bool) (hd : ∀ l, fa l = true → fb l = false)
    (as bs cs : List Model.Conc.Step) (ha : Model.Conc.Within fa as) (hb : Model.Conc.Within fb bs)
    (hi : Model.Conc.Interleave as bs cs) :
    ∀ s, ∀ l, fa l = true → Model.Conc.runSeq cs s l = Model.Conc.runSeq as s l :=
  Model.Conc.interleave_independent fa fb hd as bs cs ha hb hi

/-- T0: a function evaluates a per-call clone of its argument query (`func.go: functionArgs`); the only dynamic type
used in place is `functionQuery`, which has no iteration state of its own and whose callback clones *its* arguments
when it runs (an exemption of a type that keeps state — `transformFunctionQuery` behind `reverse()`, say — makes
evaluations share that state) -/
theorem function_arguments_cloned_per_call :
    Generated.functionArgsExempt = ["functionQuery"] ∧ Generated.functionArgsClonesOtherwise = true := by decide

end XPathV.Theorems.C05
