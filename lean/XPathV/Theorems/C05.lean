import XPathV.Model.Api
/-! # Property C05 — theorems (placeholder header; filled in below) -/
namespace XPathV.Theorems.C05
end XPathV.Theorems.C05
