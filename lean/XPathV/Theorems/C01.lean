import XPathV.Lemmas.AxesLemmas
import XPathV.Generated.ExtraFacts
import XPathV.Model.Api
import XPathV.Lemmas.Facts
/-!
# C01 — predicate-free location paths select exactly the XPath 1.0 node-set
-/
namespace XPathV.Theorems.C01
open XPathV XPathV.Model XPathV.Facts

/-- T0 (F4): the axis switch of `processAxis` maps each axis name to the iterator and flag
settings the model's `axisPlan` assumes -/
theorem axis_table_ok : Generated.axisTable = [
    ⟨"ancestor", [("ancestorQuery", [])], true⟩,
    ⟨"ancestor-or-self", [("ancestorQuery", ["Self=true"])], true⟩,
    ⟨"attribute", [("attributeQuery", [])], false⟩,
    ⟨"child", [("childQuery", []), ("cachedChildQuery", [])], false⟩,
    ⟨"descendant", [("descendantOverDescendantQuery", ["MatchSelf=false"]), ("descendantQuery", [])], true⟩,
    ⟨"descendant-or-self", [("descendantOverDescendantQuery", ["MatchSelf=true"]), ("descendantQuery", ["Self=true"])], true⟩,
    ⟨"following", [("followingQuery", [])], true⟩,
    ⟨"following-sibling", [("followingQuery", ["Sibling=true"])], false⟩,
    ⟨"parent", [("parentQuery", [])], false⟩,
    ⟨"preceding", [("precedingQuery", [])], true⟩,
    ⟨"preceding-sibling", [("precedingQuery", ["Sibling=true"])], false⟩,
    ⟨"self", [("selfQuery", [])], false⟩,
    ⟨"namespace", [], false⟩] ∧ Generated.axisDefaultErrors = true := by decide

/-- T0 (F4): the `//name` shortcut fires only for `descendant-or-self::node()` (the pinned condition
lacked the node-test conjuncts and dropped the step's name test) -/
theorem shortcut_condition_ok : Generated.shortcutCondSrc =
    "!(root.Input==nil) && (flags&flagsEnum.Filter)==0 && root.AxisType==\"child\"&&(root.Input.Type()==nodeAxis) && input:=root.Input.(*axisNode);input.AxisType==\"descendant-or-self\"&&input.typeTest==allNode&&input.LocalName==\"\"&&input.Prefix==\"\"" := rfl

/-- the model's shortcut guard is read off the source and is on -/
theorem shortcut_guard_from_source : Model.shortcutNeedsNodeTestFromSource = true := by decide +kernel

/-! ## The Go traversal loops enumerate the XPath axes (every well-formed document, every node) -/

/-- child: `MoveToChild` then `MoveToNext…` yields exactly the children, in document order -/
theorem child_walk {d : Doc} (wf : WF d) (i : Nat) (hi : i < d.length) :
    childrenM d (.node i) = Spec.children d (.node i) := children_spec wf i hi

/-- descendant: the child/next/parent-with-level loop of `descendantQuery` yields exactly the
descendants, in document order, and its level counter is the relative depth -/
theorem descendant_walk {d : Doc} (wf : WF d) (i : Nat) (hi : i < d.length) :
    (descM d (.node i)).map (·.1) = Spec.descendants d (.node i) ∧
    ∀ rl ∈ descM d (.node i), rl.2 = dep d rl.1.idx - dep d i :=
  ⟨desc_spec wf i hi, desc_level wf i hi⟩

/-- ancestor: the `MoveToParent` chain is the ancestor axis (nearest first), for every node incl. attributes -/
theorem ancestor_walk (d : Doc) (r : Ref) : ancestorsM d r = Spec.ancestors d r := ancestors_spec d r

/-- following-sibling / preceding-sibling -/
theorem sibling_walks {d : Doc} (wf : WF d) (i : Nat) (hi : i < d.length) :
    nextSibsM d (.node i) = Spec.followingSiblings d (.node i) ∧
    (prevSibsM d (.node i)).reverse = Spec.precedingSiblings d (.node i) :=
  ⟨nextSibs_spec wf i hi, prevSibs_spec wf i hi⟩

/-- following: climbing to each later sibling subtree and walking it in pre-order yields exactly the
following axis, in document order -/
theorem following_walk {d : Doc} (wf : WF d) (i : Nat) (hi : i < d.length) :
    (followRoots d (2 * d.length + 2) (.node i)).flatMap (fun r => r :: (descM d r).map (·.1)) = Spec.following d (.node i) :=
  following_spec_eq wf i hi

/-- preceding: the earlier sibling subtrees of the node and of its ancestors are exactly the preceding axis -/
theorem preceding_walk {d : Doc} (wf : WF d) (i : Nat) (hi : i < d.length) (x : Ref) :
    x ∈ (precRoots d (2 * d.length + 2) (.node i) false).flatMap (fun rb => rb.1 :: (descM d rb.1).map (·.1)) ↔
      x ∈ Spec.preceding d (.node i) :=
  preceding_spec wf i hi x

end XPathV.Theorems.C01
