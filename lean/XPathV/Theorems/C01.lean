import XPathV.Generated.ExtraFacts
import XPathV.Model.Api
import XPathV.Lemmas.Facts
/-!
# C01 — predicate-free location paths select exactly the XPath 1.0 node-set
-/
namespace XPathV.Theorems.C01
open XPathV XPathV.Model XPathV.Facts

/-- T0 (F4): the axis switch of `processAxis` maps each axis name to the iterator and flag
settings the model's `axisPlan` assumes -/
theorem axis_table_ok : Generated.axisTable = [
    ⟨"ancestor", [("ancestorQuery", [])], true⟩,
    ⟨"ancestor-or-self", [("ancestorQuery", ["Self=true"])], true⟩,
    ⟨"attribute", [("attributeQuery", [])], false⟩,
    ⟨"child", [("childQuery", []), ("cachedChildQuery", [])], false⟩,
    ⟨"descendant", [("descendantOverDescendantQuery", ["MatchSelf=false"]), ("descendantQuery", [])], true⟩,
    ⟨"descendant-or-self", [("descendantOverDescendantQuery", ["MatchSelf=true"]), ("descendantQuery", ["Self=true"])], true⟩,
    ⟨"following", [("followingQuery", [])], true⟩,
    ⟨"following-sibling", [("followingQuery", ["Sibling=true"])], false⟩,
    ⟨"parent", [("parentQuery", [])], false⟩,
    ⟨"preceding", [("precedingQuery", [])], true⟩,
    ⟨"preceding-sibling", [("precedingQuery", ["Sibling=true"])], false⟩,
    ⟨"self", [("selfQuery", [])], false⟩,
    ⟨"namespace", [], false⟩] ∧ Generated.axisDefaultErrors = true := by decide

/-- T0 (F4): the `//name` shortcut fires only for `descendant-or-self::node()` (the pinned condition
lacked the node-test conjuncts and dropped the step's name test) -/
theorem shortcut_condition_ok : Generated.shortcutCondSrc =
    "!(root.Input==nil) && (flags&flagsEnum.Filter)==0 && root.AxisType==\"child\"&&(root.Input.Type()==nodeAxis) && input:=root.Input.(*axisNode);input.AxisType==\"descendant-or-self\"&&input.typeTest==allNode&&input.LocalName==\"\"&&input.Prefix==\"\"" := rfl

/-- the model's shortcut guard is read off the source and is on -/
theorem shortcut_guard_from_source : Model.shortcutNeedsNodeTestFromSource = true := by decide +kernel

end XPathV.Theorems.C01
