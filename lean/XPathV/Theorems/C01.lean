import XPathV.Lemmas.PathSem
import XPathV.Lemmas.AxesLemmas
import XPathV.Generated.ExtraFacts
import XPathV.Model.Api
import XPathV.Lemmas.Facts
import XPathV.Lemmas.ApiSem
/-!
# C01 — predicate-free location paths select exactly the XPath 1.0 node-set
-/
namespace XPathV.Theorems.C01
open XPathV XPathV.Model XPathV.Facts

/-- T0 (F4): the axis switch of `processAxis` maps each axis name to the iterator and flag
settings the model's `axisPlan` assumes -/
theorem axis_table_ok : Generated.axisTable = [
    ⟨"ancestor", [("ancestorQuery", [])], true⟩,
    ⟨"ancestor-or-self", [("ancestorQuery", ["Self=true"])], true⟩,
    ⟨"attribute", [("attributeQuery", [])], false⟩,
    ⟨"child", [("childQuery", []), ("cachedChildQuery", [])], false⟩,
    ⟨"descendant", [("descendantOverDescendantQuery", ["MatchSelf=false"]), ("descendantQuery", [])], true⟩,
    ⟨"descendant-or-self", [("descendantOverDescendantQuery", ["MatchSelf=true"]), ("descendantQuery", ["Self=true"])], true⟩,
    ⟨"following", [("followingQuery", [])], true⟩,
    ⟨"following-sibling", [("followingQuery", ["Sibling=true"])], false⟩,
    ⟨"parent", [("parentQuery", [])], false⟩,
    ⟨"preceding", [("precedingQuery", [])], true⟩,
    ⟨"preceding-sibling", [("precedingQuery", ["Sibling=true"])], false⟩,
    ⟨"self", [("selfQuery", [])], false⟩,
    ⟨"namespace", [], false⟩] ∧ Generated.axisDefaultErrors = true := by decide

/-- T0 (F4): the `//name` shortcut fires only for `descendant-or-self::node()` (the pinned condition
lacked the node-test conjuncts and dropped the step's name test) -/
theorem shortcut_condition_ok : Generated.shortcutCondSrc =
    "!(root.Input==nil) && (flags&flagsEnum.Filter)==0 && root.AxisType==\"child\"&&(root.Input.Type()==nodeAxis) && input:=root.Input.(*axisNode);input.AxisType==\"descendant-or-self\"&&input.typeTest==allNode&&input.LocalName==\"\"&&input.Prefix==\"\"" := rfl

/-- the model's shortcut guard is read off the source and is on -/
theorem shortcut_guard_from_source : Model.shortcutNeedsNodeTestFromSource = true :=
  Lemmas.SourceConfig.shortcut_guard_from_source

/-! ## The Go traversal loops enumerate the XPath axes (every well-formed document, every node) -/

/-- child: `MoveToChild` then `MoveToNext…` yields exactly the children, in document order -/
theorem child_walk {d : Doc} (wf : WF d) (i : Nat) (hi : i < d.length) :
    childrenM d (.node i) = Spec.children d (.node i) := children_spec wf i hi

/-- descendant: the child/next/parent-with-level loop of `descendantQuery` yields exactly the
descendants, in document order, and its level counter is the relative depth -/
theorem descendant_walk {d : Doc} (wf : WF d) (i : Nat) (hi : i < d.length) :
    (descM d (.node i)).map (·.1) = Spec.descendants d (.node i) ∧
    ∀ rl ∈ descM d (.node i), rl.2 = dep d rl.1.idx - dep d i :=
  ⟨desc_spec wf i hi, desc_level wf i hi⟩

/-- ancestor: the `MoveToParent` chain is the ancestor axis (nearest first), for every node incl. attributes -/
theorem ancestor_walk (d : Doc) (r : Ref) : ancestorsM d r = Spec.ancestors d r := ancestors_spec d r

/-- following-sibling / preceding-sibling -/
theorem sibling_walks {d : Doc} (wf : WF d) (i : Nat) (hi : i < d.length) :
    nextSibsM d (.node i) = Spec.followingSiblings d (.node i) ∧
    (prevSibsM d (.node i)).reverse = Spec.precedingSiblings d (.node i) :=
  ⟨nextSibs_spec wf i hi, prevSibs_spec wf i hi⟩

/-- following: climbing to each later sibling subtree and walking it in pre-order yields exactly the
following axis, in document order -/
theorem following_walk {d : Doc} (wf : WF d) (i : Nat) (hi : i < d.length) :
    (followRoots d (2 * d.length + 2) (.node i)).flatMap (fun r => r :: (descM d r).map (·.1)) = Spec.following d (.node i) :=
  following_spec_eq wf i hi

/-- preceding: the earlier sibling subtrees of the node and of its ancestors are exactly the preceding axis -/
theorem preceding_walk {d : Doc} (wf : WF d) (i : Nat) (hi : i < d.length) (x : Ref) :
    x ∈ (precRoots d (2 * d.length + 2) (.node i) false).flatMap (fun rb => rb.1 :: (descM d rb.1).map (·.1)) ↔
      x ∈ Spec.preceding d (.node i) :=
  preceding_spec wf i hi x

/-! ## The main theorem -/

variable {F : Type} [NumAlg F]

/-- **C01** (full statement, closed): for every well-formed document, every valid context node
(elements, text, comments, the root *and attributes*), and every predicate-free location path over
the twelve axes with any node tests, the plan the builder model produces — with all its rewrites:
the `//name` shortcut, descendant-over-descendant, `cachedChild` — yields exactly the XPath 1.0
node-set of the path.  Neither side fails.  `HashInj` says that the node key the ancestor
axes de-duplicate with is injective (a theorem: `PathSem.hashInj_holds`, see `C01_main_unconditional`); `cfg.nsIface` says the navigator exposes
namespace URIs.  The builder configuration is the one read off the current source. -/
theorem C01_main {d : Doc} (wf : WF d) (cfg : ECfg) (hns : cfg.nsIface = true)
    (hinj : PathSem.HashInj d cfg) (regexOk : RegexOk) (limit : Nat) (p : Ast) (hp : PathSem.PathPF p)
    (o : BOut)
    (hb : build regexOk limit shortcutNeedsNodeTestFromSource smartDescThroughFilterFromSource p {} {} = .ok o)
    (c : Ref) (hc : validRef d c = true) :
    ∃ out ns, sel (F := F) d cfg o.q c = .ok out ∧
      Spec.evalTop (F := F) d p c = .ok (.nodes ns) ∧ ∀ x, x ∈ PathSem.refs out ↔ x ∈ ns :=
  PathSem.C01_source_config wf cfg hns hinj regexOk limit p hp o hb c hc

/-- `C01_main` without the `HashInj` hypothesis (it is a theorem now: `hashInj_holds`; the side
condition left is "no element has two attributes with the same prefix, name and value") -/
theorem C01_main_unconditional {d : Doc} (wf : WF d) (cfg : ECfg) (hns : cfg.nsIface = true)
    (hattr : AttrTriplesDistinct d) (regexOk : RegexOk) (limit : Nat) (p : Ast) (hp : PathSem.PathPF p)
    (o : BOut)
    (hb : build regexOk limit shortcutNeedsNodeTestFromSource smartDescThroughFilterFromSource p {} {} = .ok o)
    (c : Ref) (hc : validRef d c = true) :
    ∃ out ns, sel (F := F) d cfg o.q c = .ok out ∧
      Spec.evalTop (F := F) d p c = .ok (.nodes ns) ∧ ∀ x, x ∈ PathSem.refs out ↔ x ∈ ns :=
  C01_main wf cfg hns (PathSem.hashInj_holds wf hattr cfg) regexOk limit p hp o hb c hc

/-- a single step from any valid context node: the walk of each of the twelve axes is the XPath axis -/
theorem C01_single_step {d : Doc} (wf : WF d) (o : Ref) (ho : validRef d o = true) (ax : String)
    (hax : ax ∈ PathSem.axes12) (x : Ref) :
    x ∈ PathSem.axisRefsM d ax o ↔ x ∈ (Spec.axisNodes d ax o).getD [] :=
  PathSem.axisRefsM_spec wf o ho ax hax x

/-- non-vacuity: `//b` (as the parser produces it) is in the fragment -/
example : PathSem.PathPF (.axis ⟨"child", .elem, "", "b", "", false, ""⟩ (.axis ⟨"descendant-or-self", .all, "", "", "", false, ""⟩ (.root "//"))) :=
  .axis _ _ (.axis _ _ (.root _) (by decide)) (by decide)

open XPathV.PathSem XPathV.ApiSem in
/-- **C01 at the public API, from the expression text**: `compile` (scanner + parser + builder at
the configuration read off the current source, the fuel `compile` itself supplies) followed by
`Select`: if the text parses into a predicate-free path, the compiled expression selects, at every
valid context node of every well-formed document, exactly the members of the oracle's node set -/
theorem C01_from_text {d : Doc} (wf : WF d) (cfg : ECfg) (hns : cfg.nsIface = true)
    (hinj : HashInj d cfg) (regexOk : RegexOk) (ns : Option (List (String × String)))
    (text : List Char) (a : Ast) (hparse : parse (fuelFor text) (defaultCfg ns) text = .ok a)
    (hpf : PathPF a) (p : Plan) (hcomp : compile { regexOk := regexOk } ns text = .ok p)
    (c : Ref) (hc : validRef d c = true) :
    ∃ l nsl, selectAll (F := F) d cfg p c = .ok l ∧
      Spec.evalTop (F := F) d a c = .ok (.nodes nsl) ∧ ∀ x, x ∈ l ↔ x ∈ nsl :=
  C01_compile_source wf cfg hns hinj regexOk ns text a hparse hpf p hcomp c hc

open XPathV.PathSem XPathV.ApiSem in
/-- `C01_from_text` without the `HashInj` hypothesis (it is a theorem now: `hashInj_holds`; the side
condition left is "no element has two attributes with the same prefix, name and value") -/
theorem C01_from_text_unconditional {d : Doc} (wf : WF d) (cfg : ECfg) (hns : cfg.nsIface = true)
    (hattr : AttrTriplesDistinct d) (regexOk : RegexOk) (ns : Option (List (String × String)))
    (text : List Char) (a : Ast) (hparse : parse (fuelFor text) (defaultCfg ns) text = .ok a)
    (hpf : PathPF a) (p : Plan) (hcomp : compile { regexOk := regexOk } ns text = .ok p)
    (c : Ref) (hc : validRef d c = true) :
    ∃ l nsl, selectAll (F := F) d cfg p c = .ok l ∧
      Spec.evalTop (F := F) d a c = .ok (.nodes nsl) ∧ ∀ x, x ∈ l ↔ x ∈ nsl :=
  C01_from_text wf cfg hns (PathSem.hashInj_holds wf hattr cfg) regexOk ns text a hparse hpf p hcomp
    c hc

/-- T0: `ancestor::` tells the nodes it has seen apart by the node key string itself — `getNodeKey` writes the node
type first and returns the buffer's string; no table of `query.go` is keyed by a 64-bit number (until e5691be the
FNV-64a hash of the key was the identity and an ancestor whose key collided with another's was lost) -/
theorem identity_is_the_key_string :
    Generated.nodeKeyHead = ["sb.WriteString(strconv.Itoa(int(n.NodeType())))", "sb.WriteByte(':')"] ∧
    Generated.nodeKeyIsString = true := ⟨rfl, rfl⟩

end XPathV.Theorems.C01
