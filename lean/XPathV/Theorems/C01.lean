import XPathV.Model.Api
/-! # Property C01 — theorems (placeholder header; filled in below) -/
namespace XPathV.Theorems.C01
end XPathV.Theorems.C01
