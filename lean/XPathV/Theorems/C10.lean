import XPathV.Lemmas.ParserShape
import XPathV.Model.Api
import XPathV.Spec.Grammar
import XPathV.Lemmas.Facts
/-!
# C10 — expressions parse with XPath 1.0 precedence, associativity and token rules
-/
namespace XPathV.Theorems.C10
open XPathV XPathV.Model XPathV.Facts

/-- T0 (F6): the regenerated precedence chain is the XPath 1.0 one, every tier loop accumulates
on the left and uses one operand parser.  Swapping two tiers, or building right-nested operator
nodes, changes the generated term and this stops checking. -/
theorem prec_chain_ok : Generated.precChain = [
    ⟨"parseOrExpr", "parseAndExpr", ["or"], true, true⟩,
    ⟨"parseAndExpr", "parseEqualityExpr", ["and"], true, true⟩,
    ⟨"parseEqualityExpr", "parseRelationalExpr", ["=", "!="], true, true⟩,
    ⟨"parseRelationalExpr", "parseAdditiveExpr", ["<", ">", "<=", ">="], true, true⟩,
    ⟨"parseAdditiveExpr", "parseMultiplicativeExpr", ["+", "-"], true, true⟩,
    ⟨"parseMultiplicativeExpr", "parseUnaryExpr", ["*", "div", "mod"], true, true⟩,
    ⟨"parseUnionExpr", "parsePathExpr", ["|"], true, true⟩] ∧
    Generated.exprEntry = "parseOrExpr" ∧ Generated.unaryOperand = "parseUnionExpr" ∧
    Generated.unaryIsTimesMinusOne = true := by decide

/-- the stage list the model parser runs (computed from the regenerated chain) is the tier list of
the Recommendation's grammar: `or < and < =,!= < <,>,<=,>= < +,- < *,div,mod < unary - < |` -/
theorem stages_are_xpath_tiers :
    stages = (Spec.Grammar.upperTiers.map Stage.tier) ++ [Stage.unary] ++ (Spec.Grammar.lowerTiers.map Stage.tier) :=
  Lemmas.SourceConfig.stages_are_xpath_tiers

/-- T0 (F13): `*` is not a name character (so `a*b` multiplies), `:` and `/` never are -/
theorem star_not_name_char : Generated.starIsNameChar = false ∧ Generated.nameExcludes = [58, 47] ∧
    Generated.isNameShapeOk = true := by decide

/-- the tier loop is left-associative: having parsed `acc` and seeing an operator of the tier, the
result continues from `.oper op acc r` — the accumulator is always the *left* operand -/
theorem tier_loop_left_assoc (f : Nat) (cfg : PCfg) (ops : List String) (rest : List Stage) (acc : Ast) (st st1 st2 : PState)
    (op : String) (r : Ast)
    (hop : ops.find? (tokMatches st.s) = some op) (hnext : st.next = .ok st1)
    (hr : parseChain f cfg rest st1 = .ok (r, st2)) :
    tierLoop (f+1) cfg ops rest acc st = tierLoop f cfg ops rest (.oper op acc r) st2 := by
  simp [tierLoop, hop, hnext, hr, bind, Except.bind]

/-- when no operator of the tier follows, the loop returns the accumulator unchanged -/
theorem tier_loop_stop (f : Nat) (cfg : PCfg) (ops : List String) (rest : List Stage) (acc : Ast) (st : PState)
    (hop : ops.find? (tokMatches st.s) = none) :
    tierLoop (f+1) cfg ops rest acc st = .ok (acc, st) := by
  simp [tierLoop, hop, pure, Except.pure]

/-- unary minus: an odd number of `-` wraps the operand as `x * -1`, an even number cancels -/
theorem unary_encoding (f : Nat) (cfg : PCfg) (rest : List Stage) (st st1 st2 : PState) (minus : Bool) (x : Ast)
    (hm : skipMinus (f+1) st false = .ok (minus, st1)) (hx : parseChain f cfg rest st1 = .ok (x, st2)) :
    parseChain (f+1) cfg (.unary :: rest) st = .ok (if minus then .oper "*" x (.num "-1") else x, st2) := by
  simp [parseChain, hm, hx, bind, Except.bind, pure, Except.pure]

/-- abbreviations: `.` is `self::node()`, `..` is `parent::node()` (same parse tree node) -/
theorem dot_is_self_node : mkAxis "self" .all "" "" "" .none = Ast.axis ⟨"self", .all, "", "", "", false, ""⟩ .none := rfl

/-- `//` inserts `descendant-or-self::node()` -/
theorem slashslash_is_dos (x : Ast) : dosNode x = Ast.axis ⟨"descendant-or-self", .all, "", "", "", false, ""⟩ x := rfl

/-! ## Chains of every length -/

open Lemmas.ParserShape in
/-- **left associativity, any chain length**: whatever `tierLoop` returns is the accumulator
extended to the LEFT by the tier's operators, each right operand coming from the tighter tiers only -/
theorem tier_loop_left_nested {cfg : PCfg} {ops : List String} {rest : List Stage} (f : Nat) (acc : Ast) (st : PState)
    {a : Ast} {st' : PState} (h : tierLoop f cfg ops rest acc st = .ok (a, st')) :
    ∃ items : List (String × Ast),
      a = items.foldl (fun l (p : String × Ast) => Ast.oper p.1 l p.2) acc ∧
      ∀ p ∈ items, p.1 ∈ ops ∧ ∃ f' s1 s2, parseChain f' cfg rest s1 = .ok (p.2, s2) :=
  tierLoop_foldl f acc st h

open Lemmas.ParserShape in
/-- **precedence, any chain length**: every tree the parser returns for an expression is stratified
by the XPath tiers (a looser operator never sits under a tighter one unless parenthesised) -/
theorem parse_tree_stratified {ns : Option (List (String × String))} {f : Nat} {st st' : PState} {a : Ast}
    (h : parseExpression f (defaultCfg ns) st = .ok (a, st')) : Strat (defaultCfg ns) stages a :=
  parseExpression_strat h

open Lemmas.ParserShape in
/-- the headline: in a stratified tree, for an operator node that is not itself a parenthesised /
primary sub-expression, the left operand's operator is of the same or a tighter tier and the right
operand's of a strictly tighter tier (or is the `x * -1` encoding of unary minus) -/
theorem operands_never_looser {cfg : PCfg} {op : String} {l r : Ast}
    (h : Strat cfg stages (.oper op l r)) (hnp : ¬ FromPath cfg (.oper op l r)) :
    (∀ op' x y, l = .oper op' x y → ¬ FromPath cfg l → tierRank op ≤ tierRank op') ∧
    (∀ op' x y, r = .oper op' x y → ¬ FromPath cfg r →
        tierRank op < tierRank op' ∨ (op' = "*" ∧ y = .num "-1" ∧ tierRank op ≤ 5)) :=
  operands_not_looser h hnp

end XPathV.Theorems.C10
