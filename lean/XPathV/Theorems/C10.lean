import XPathV.Model.Api
/-! # Property C10 — theorems (placeholder header; filled in below) -/
namespace XPathV.Theorems.C10
end XPathV.Theorems.C10
