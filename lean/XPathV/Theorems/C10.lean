import XPathV.Lemmas.ParserShape
import XPathV.Model.Api
import XPathV.Spec.Grammar
import XPathV.Lemmas.Facts
import XPathV.Lemmas.ParserGrammar
import XPathV.Lemmas.ParserFull
import XPathV.Lemmas.FullGrammarComplete
import XPathV.Lemmas.Whitespace
import XPathV.Lemmas.Abbrev
/-!
# C10 — expressions parse with XPath 1.0 precedence, associativity and token rules
-/
namespace XPathV.Theorems.C10
open XPathV XPathV.Model XPathV.Facts

/-- T0 (F6): the regenerated precedence chain is the XPath 1.0 one, every tier loop accumulates
on the left and uses one operand parser.  Swapping two tiers, or building right-nested operator
nodes, changes the generated term and this stops checking. -/
theorem prec_chain_ok : Generated.precChain = [
    ⟨"parseOrExpr", "parseAndExpr", ["or"], true, true⟩,
    ⟨"parseAndExpr", "parseEqualityExpr", ["and"], true, true⟩,
    ⟨"parseEqualityExpr", "parseRelationalExpr", ["=", "!="], true, true⟩,
    ⟨"parseRelationalExpr", "parseAdditiveExpr", ["<", ">", "<=", ">="], true, true⟩,
    ⟨"parseAdditiveExpr", "parseMultiplicativeExpr", ["+", "-"], true, true⟩,
    ⟨"parseMultiplicativeExpr", "parseUnaryExpr", ["*", "div", "mod"], true, true⟩,
    ⟨"parseUnionExpr", "parsePathExpr", ["|"], true, true⟩] ∧
    Generated.exprEntry = "parseOrExpr" ∧ Generated.unaryOperand = "parseUnionExpr" ∧
    Generated.unaryIsTimesMinusOne = true ∧ Generated.unaryEvenIsDoubleNegation = true := by decide

/-- the stage list the model parser runs (computed from the regenerated chain) is the tier list of
the Recommendation's grammar: `or < and < =,!= < <,>,<=,>= < +,- < *,div,mod < unary - < |` -/
theorem stages_are_xpath_tiers :
    stages = (Spec.Grammar.upperTiers.map Stage.tier) ++ [Stage.unary] ++ (Spec.Grammar.lowerTiers.map Stage.tier) :=
  Lemmas.SourceConfig.stages_are_xpath_tiers

/-- T0 (F13): `*` is not a name character (so `a*b` multiplies), `:` and `/` never are -/
theorem star_not_name_char : Generated.starIsNameChar = false ∧ Generated.nameExcludes = [58, 47] ∧
    Generated.isNameShapeOk = true := by decide

/-- the tier loop is left-associative: having parsed `acc` and seeing an operator of the tier, the
result continues from `.oper op acc r` — the accumulator is always the *left* operand -/
theorem tier_loop_left_assoc (f : Nat) (cfg : PCfg) (ops : List String) (rest : List Stage) (acc : Ast) (st st1 st2 : PState)
    (op : String) (r : Ast)
    (hop : ops.find? (tokMatches st.s) = some op) (hnext : st.next = .ok st1)
    (hr : parseChain f cfg rest st1 = .ok (r, st2)) :
    tierLoop (f+1) cfg ops rest acc st = tierLoop f cfg ops rest (.oper op acc r) st2 := by
  simp [tierLoop, hop, hnext, hr, bind, Except.bind]

/-- when no operator of the tier follows, the loop returns the accumulator unchanged -/
theorem tier_loop_stop (f : Nat) (cfg : PCfg) (ops : List String) (rest : List Stage) (acc : Ast) (st : PState)
    (hop : ops.find? (tokMatches st.s) = none) :
    tierLoop (f+1) cfg ops rest acc st = .ok (acc, st) := by
  simp [tierLoop, hop, pure, Except.pure]

/-- unary minus: an odd number of `-` wraps the operand as `x * -1`; an even non-zero number (the
toggle is off but the run started at a `-` token) wraps it as `(x * -1) * -1` — the pair cancels
numerically but the operand is still converted to a number; no `-` leaves the operand as it is -/
theorem unary_encoding (f : Nat) (cfg : PCfg) (rest : List Stage) (st st1 st2 : PState) (minus : Bool) (x : Ast)
    (hm : skipMinus (f+1) st false = .ok (minus, st1)) (hx : parseChain f cfg rest st1 = .ok (x, st2)) :
    parseChain (f+1) cfg (.unary :: rest) st =
      .ok (if minus then .oper "*" x (.num "-1")
           else if st.s.typ == .minus then .oper "*" (.oper "*" x (.num "-1")) (.num "-1") else x, st2) := by
  simp [parseChain, hm, hx, bind, Except.bind, pure, Except.pure]

/-- abbreviations: `.` is `self::node()`, `..` is `parent::node()` (same parse tree node) -/
theorem dot_is_self_node : mkAxis "self" .all "" "" "" .none = Ast.axis ⟨"self", .all, "", "", "", false, ""⟩ .none := rfl

/-- `//` inserts `descendant-or-self::node()` -/
theorem slashslash_is_dos (x : Ast) : dosNode x = Ast.axis ⟨"descendant-or-self", .all, "", "", "", false, ""⟩ x := rfl

/-! ## Chains of every length -/

open Lemmas.ParserShape in
/-- **left associativity, any chain length**: whatever `tierLoop` returns is the accumulator
extended to the LEFT by the tier's operators, each right operand coming from the tighter tiers only -/
theorem tier_loop_left_nested {cfg : PCfg} {ops : List String} {rest : List Stage} (f : Nat) (acc : Ast) (st : PState)
    {a : Ast} {st' : PState} (h : tierLoop f cfg ops rest acc st = .ok (a, st')) :
    ∃ items : List (String × Ast),
      a = items.foldl (fun l (p : String × Ast) => Ast.oper p.1 l p.2) acc ∧
      ∀ p ∈ items, p.1 ∈ ops ∧ ∃ f' s1 s2, parseChain f' cfg rest s1 = .ok (p.2, s2) :=
  tierLoop_foldl f acc st h

open Lemmas.ParserShape in
/-- **precedence, any chain length**: every tree the parser returns for an expression is stratified
by the XPath tiers (a looser operator never sits under a tighter one unless parenthesised) -/
theorem parse_tree_stratified {ns : Option (List (String × String))} {f : Nat} {st st' : PState} {a : Ast}
    (h : parseExpression f (defaultCfg ns) st = .ok (a, st')) : Strat (defaultCfg ns) stages a :=
  parseExpression_strat h

open Lemmas.ParserShape in
/-- the headline: in a stratified tree, for an operator node that is not itself a parenthesised /
primary sub-expression, the left operand's operator is of the same or a tighter tier and the right
operand's of a strictly tighter tier (or is the `x * -1` / `(x * -1) * -1` encoding of unary minus) -/
theorem operands_never_looser {cfg : PCfg} {op : String} {l r : Ast}
    (h : Strat cfg stages (.oper op l r)) (hnp : ¬ FromPath cfg (.oper op l r)) :
    (∀ op' x y, l = .oper op' x y → ¬ FromPath cfg l → tierRank op ≤ tierRank op') ∧
    (∀ op' x y, r = .oper op' x y → ¬ FromPath cfg r →
        tierRank op < tierRank op' ∨ (op' = "*" ∧ y = .num "-1" ∧ tierRank op ≤ 5)) :=
  operands_not_looser h hnp

open XPathV.Spec.Grammar XPathV.Lemmas.ParserGrammar in
/-- **C10 (main theorem): the parse tree is the one the XPath 1.0 grammar assigns.**  If
`parseExpression` succeeds with tree `a`, the run consumed a chain `ts` of atoms (each the result
of one `parsePathExpr` call) and operator tokens, the chain is derivable in the Recommendation's
operator grammar (`Spec.Grammar.Derives 0`: productions [21]–[27], [18], or < and < equality <
relational < additive < multiplicative < unary minus < union, every binary production
left-recursive), and `a` is the tree of **every** derivation of it — the grammar is unambiguous
(`C10_grammar_unambiguous`), so that is *the* tree. -/
theorem C10_main {ns : Option (List (String × String))} {f : Nat} {st st' : PState} {a : Ast}
    (h : parseExpression f (defaultCfg ns) st = .ok (a, st')) :
    ∃ ts st'', Consumes (defaultCfg ns) { st with d := st.d + 1 } ts st'' ∧
      st' = { st'' with d := st''.d - 1 } ∧
      (∃ e, Derives 0 ts e) ∧ ∀ e, Derives 0 ts e → a = e.toAst :=
  Lemmas.ParserGrammar.C10_main h

open XPathV.Spec.Grammar XPathV.Lemmas.ParserGrammar in
/-- the same for a whole expression text (`parse` = scanner + parser, end of input required) -/
theorem C10_whole_text {ns : Option (List (String × String))} {fuel : Nat} {text : List Char} {a : Ast}
    (h : parse fuel (defaultCfg ns) text = .ok a) :
    ∃ s ts st', Scan.init text = .ok s ∧ Consumes (defaultCfg ns) { s := s, d := 1 } ts st' ∧
      st'.s.typ = .eof ∧ (∃ e, Derives 0 ts e) ∧ ∀ e, Derives 0 ts e → a = e.toAst :=
  C10_parse h

open XPathV.Spec.Grammar XPathV.Lemmas.ParserGrammar in
/-- **the XPath 1.0 operator grammar is unambiguous** on chains with opaque atoms, at every tier
(so "the tree the grammar assigns" is well defined; this is a theorem about the Recommendation's
productions, independent of the code) -/
theorem C10_grammar_unambiguous {k : Nat} {ts : List T} {e₁ e₂ : E} (h1 : Derives k ts e₁) (h2 : Derives k ts e₂) :
    e₁ = e₂ :=
  derives_unique h1 h2

open XPathV.Spec.Grammar XPathV.Lemmas.ParserGrammar in
/-- every tier separately: a successful `parseChain` at tier `k` returns the tree of a derivation
at tier `k` of the chain it consumed -/
theorem C10_every_tier {cfg : PCfg} {k f : Nat} (hk : k ≤ 8) {st st' : PState} {a : Ast}
    (h : parseChain f cfg (stages.drop k) st = .ok (a, st')) :
    ∃ ts e, Consumes cfg st ts st' ∧ Derives k ts e ∧ a = e.toAst :=
  parseChain_sound_tier hk h

open XPathV.Lemmas.ParserGrammar in
/-- token rule: one scanner token is at most one of the fourteen operators -/
theorem C10_operator_token_unique {s : Scan} {o₁ o₂ : String} (h1 : o₁ ∈ Lemmas.ParserShape.allOps) (h2 : o₂ ∈ Lemmas.ParserShape.allOps)
    (m1 : tokMatches s o₁ = true) (m2 : tokMatches s o₂ = true) : o₁ = o₂ :=
  tokMatches_unique h1 h2 m1 m2

open XPathV.Bridge XPathV.Spec.Full XPathV.Lemmas.ParserFull in
/-- **C10 against the whole XPath 1.0 grammar (completeness).**  `Spec/FullGrammar.lean` states the
complete expression grammar of the Recommendation (`D`, `Parses`; every non-terminal, not only the
operator tiers) with an executable reference parser `refParseFull`, sound for it.  If the scanner's
token stream of `text` is `toks`, the reference parser accepts it with the tree `b`, and `b` nests
predicates / parentheses / arguments fewer than 200 deep (the parser's depth limit), then the model
parser accepts `text` and returns `b` up to the four representation conventions of `normConv`. -/
theorem C10_full_grammar_complete {ns : Option NsMap} {text : List Char} {toks : List TokV} {b : Ast}
    (htoks : tokVsRel text toks) (href : refParseFull ns toks = some b) (hdepth : nesting b < 200) :
    ∃ a, parse (fuelFor text) (defaultCfg ns) text = .ok a ∧ normConv a = normConv b :=
  full_complete htoks href hdepth

open XPathV.Bridge XPathV.Spec.Full XPathV.Lemmas.ParserFull in
/-- the same, and the tree is one the grammar relation derives for the token stream -/
theorem C10_full_grammar_tree {ns : Option NsMap} {text : List Char} {toks : List TokV} {b : Ast}
    (htoks : tokVsRel text toks) (href : refParseFull ns toks = some b) (hdepth : nesting b < 200) :
    ∃ a, parse (fuelFor text) (defaultCfg ns) text = .ok a ∧ normConv a = normConv b ∧ Parses ns toks b :=
  full_complete_parses htoks href hdepth

open XPathV.Bridge XPathV.Spec.Full XPathV.Lemmas.ParserFull in
/-- the parser rejects an expression of the full grammar's reference parser only for its depth:
the error is `.tooComplex` and the tree nests 200 deep or more -/
theorem C10_full_grammar_reject_only_deep {ns : Option NsMap} {text : List Char} {toks : List TokV} {b : Ast}
    {e : PErr} (htoks : tokVsRel text toks) (href : refParseFull ns toks = some b)
    (herr : parse (fuelFor text) (defaultCfg ns) text = .error e) : e = .tooComplex ∧ 200 ≤ nesting b :=
  full_reject_only_deep htoks href herr

open XPathV.Bridge XPathV.Spec.Full XPathV.Lemmas.ParserFull in
/-- the driver's token conversion `tokVs` (what the `full:*` column of the correspondence check is
computed from) satisfies the relation the theorems above are stated with -/
theorem C10_full_grammar_driver_tokens {text : List Char} {toks : List TokV} (h : tokVs text = some toks) :
    tokVsRel text toks :=
  tokVs_sound h

open XPathV.Spec.Full in
/-- **the full XPath 1.0 expression grammar is unambiguous** (after the token classification of §3.7 of the
Recommendation): a token stream has at most one tree — a theorem about the Recommendation's productions as
transcribed in `Spec/FullGrammar.lean`, independent of the code; with it "the tree the grammar assigns" is well
defined for whole expressions, not only for operator chains -/
theorem C10_full_grammar_unambiguous {ns : Option NsMap} {toks : List TokV} {a b : Ast}
    (ha : Parses ns toks a) (hb : Parses ns toks b) : a = b :=
  Parses_unique ha hb

open XPathV.Spec.Full in
/-- the executable reference parser decides the grammar relation (sound and complete), so the `full:*` column of
the correspondence check, computed with it, reports exactly membership in the grammar -/
theorem C10_reference_parser_decides_grammar {ns : Option NsMap} {toks : List TokV} {a : Ast} :
    refParseFull ns toks = some a ↔ Parses ns toks a :=
  refParseFull_iff

open XPathV.Bridge XPathV.Spec.Full XPathV.Lemmas.ParserFull in
/-- **C10 stated on the grammar relation alone**: if the XPath 1.0 grammar derives the tree `b` for the token
stream of `text` (then `b` is the only such tree), and `b` nests fewer than 200 deep, the parser accepts `text`
and returns `b` up to the representation conventions of `normConv` -/
theorem C10_grammar_tree_is_parsed {ns : Option NsMap} {text : List Char} {toks : List TokV} {b : Ast}
    (htoks : tokVsRel text toks) (hg : Parses ns toks b) (hdepth : nesting b < 200) :
    ∃ a, parse (fuelFor text) (defaultCfg ns) text = .ok a ∧ normConv a = normConv b :=
  full_complete htoks (refParseFull_complete hg) hdepth

/-! ## Second clause: optional whitespace (`Lemmas/Whitespace*`)

`LexPrefix u v` ("`(u, v)` is a token boundary of `u ++ v`"): `u` is blanks, then complete scanner items each
followed by blanks (`Lexeme`: every kind of token, with the scanner's look-ahead over blanks for `(` and `::`), or
ends in the blanks between an axis name and its `::`.  `scan_positions_are_boundaries`: on ASCII texts every position
the scanner stops at is such a boundary.  `Blank ws`: the characters `skipSpace` skips. -/
section WhitespaceClause
open XPathV.Whitespace XPathV.Bridge XPathV.Spec.Full XPathV.Lemmas.ParserFull

/-- **inserting (or, read right to left, removing) blanks at a token boundary leaves the scanner's token stream
unchanged** — both `some` of the same list, or both rejected -/
theorem C10_whitespace_token_stream {u v ws : List Char} (hb : LexPrefix u v) (hws : Blank ws) (ha : AsciiHead ws) :
    tokVs (u ++ ws ++ v) = tokVs (u ++ v) :=
  tokVs_insert_blanks hb hws ha

/-- **… and the parser returns the very same tree** (syntactic equality, every fuel, every configuration, whether
or not the text is in the XPath 1.0 grammar) -/
theorem C10_whitespace_same_tree {u v ws : List Char} (hb : LexPrefix u v) (hws : Blank ws) (ha : AsciiHead ws)
    (fuel : Nat) (cfg : PCfg) (a : Ast) :
    parse fuel cfg (u ++ ws ++ v) = .ok a ↔ parse fuel cfg (u ++ v) = .ok a :=
  parse_insert_blanks hb hws ha fuel cfg a

/-- the same with the fuel `Compile` uses for each of the two texts -/
theorem C10_whitespace_same_tree_compile {u v ws : List Char} (hb : LexPrefix u v) (hws : Blank ws)
    (ha : AsciiHead ws) (ns : Option NsMap) (a : Ast) :
    parse (fuelFor (u ++ ws ++ v)) (defaultCfg ns) (u ++ ws ++ v) = .ok a ↔
      parse (fuelFor (u ++ v)) (defaultCfg ns) (u ++ v) = .ok a :=
  parse_insert_blanks_fuelFor hb hws ha ns a

/-- for expressions of the grammar: same token stream, one tree for both texts, and it is the grammar's -/
theorem C10_whitespace_grammar_tree {ns : Option NsMap} {u v ws : List Char} {toks : List TokV} {b : Ast}
    (hb : LexPrefix u v) (hws : Blank ws) (ha : AsciiHead ws)
    (ht : tokVs (u ++ v) = some toks) (hp : Parses ns toks b) (hd : nesting b < 200) :
    tokVs (u ++ ws ++ v) = some toks ∧
    ∃ a, parse (fuelFor (u ++ v)) (defaultCfg ns) (u ++ v) = .ok a ∧
      parse (fuelFor (u ++ ws ++ v)) (defaultCfg ns) (u ++ ws ++ v) = .ok a ∧ normConv a = normConv b :=
  whitespace_insertion_preserves_tree hb hws ha ht hp hd

/-- the boundaries are all the positions between tokens: on an ASCII text, wherever the scanner stands after any
number of items, the text splits there into a boundary (and so does every split inside the blanks that follow) -/
theorem C10_scanner_positions_are_boundaries {text : List Char} (hasc : Ascii text) {s : Scan}
    (h : Items (BuildRejects.start text) s) :
    ∃ u w, text = u ++ w ∧ (Lemmas.ScanTail.At w s ∨ Lemmas.ScanTail.At (w.dropWhile isSpace) s) ∧
      ∀ b v, w = b ++ v → Blank b → LexPrefix (u ++ b) v :=
  scan_positions_are_boundaries hasc h

end WhitespaceClause

/-! ## Third clause: each abbreviation means its expansion (`Lemmas/Abbrev*`)

`expandWith sel` writes out the abbreviations at the selected token positions of a `TokV` stream — `@` ↦ `attribute::`,
`.` ↦ `self::node()`, `..` ↦ `parent::node()`, `//` ↦ `/descendant-or-self::node()/`, a name test without axis ↦ `child::`
in front — following the §3.7 classification; `expandAbbrev` all of them, `Expands toks toks'` some of them. -/
section AbbreviationClause
open XPathV.Lemmas.Abbrev XPathV.Bridge XPathV.Spec.Full XPathV.Lemmas.ParserFull

/-- **grammar level: the written-out stream derives the same tree** (exactly the same, no representation
convention involved) -/
theorem C10_abbreviation_grammar {ns : Option NsMap} {toks toks' : List TokV} {a : Ast}
    (h : Parses ns toks a) (hx : Expands toks toks') : Parses ns toks' a :=
  Parses_of_Expands h hx

/-- every abbreviation written out: none of `@ . .. //` is left, and the tree is the same -/
theorem C10_abbreviation_all {ns : Option NsMap} {toks : List TokV} {a : Ast} (h : Parses ns toks a) :
    Parses ns (expandAbbrev toks) a ∧
    ∀ t ∈ expandAbbrev toks, t ≠ TokV.at ∧ t ≠ .dot ∧ t ≠ .dotdot ∧ t ≠ .slashslash :=
  ⟨Parses_expandAbbrev h, expandAbbrev_no_abbrev_tok toks⟩

/-- the four token abbreviations, one occurrence each, stated on the streams themselves -/
theorem C10_abbreviation_each {ns : Option NsMap} {pre post : List TokV} {a : Ast} :
    (Parses ns (pre ++ .at :: post) a → Parses ns (pre ++ [.axis "attribute"] ++ post) a) ∧
    (Parses ns (pre ++ .dot :: post) a → Parses ns (pre ++ nodeT "self" ++ post) a) ∧
    (Parses ns (pre ++ .dotdot :: post) a → Parses ns (pre ++ nodeT "parent" ++ post) a) ∧
    (Parses ns (pre ++ .slashslash :: post) a → Parses ns (pre ++ dosT ++ post) a) :=
  ⟨Parses_at, Parses_dot, Parses_dotdot, Parses_slashslash⟩

/-- **model parser: an expression and its written-out form are both accepted, with trees equal up to the
representation conventions** (`normConv`: the parser leaves `prop = ""` in the step it makes for `.`, `..`, `//` and
keeps the spelling `//` in the root node) -/
theorem C10_abbreviation_parser {ns : Option NsMap} {text text' : List Char} {toks toks' : List TokV} {b : Ast}
    (ht : tokVsRel text toks) (ht' : tokVsRel text' toks') (hx : Expands toks toks')
    (hp : Parses ns toks b) (hd : nesting b < 200) :
    ∃ a a', parse (fuelFor text) (defaultCfg ns) text = .ok a ∧
      parse (fuelFor text') (defaultCfg ns) text' = .ok a' ∧
      normConv a = normConv a' ∧ normConv a = normConv b :=
  model_expand ht ht' hx hp hd

end AbbreviationClause

end XPathV.Theorems.C10
