import XPathV.Model.Api
/-! # Property C15 — theorems (placeholder header; filled in below) -/
namespace XPathV.Theorems.C15
end XPathV.Theorems.C15
