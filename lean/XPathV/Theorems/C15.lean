import XPathV.Lemmas.NoCrashCompile
import XPathV.Model.Api
import XPathV.Lemmas.Facts
/-!
# C15 — a compiled expression never fails with a Go runtime error (partial)

Full statement (kept visible): for every plan the builder accepts, every document and context,
`sel`/`evalP` return a value of a documented type or a deliberately raised error — never
`EErr.crash`.  Proved below: the structural halves (T0) and the per-construct safety lemmas; the
assembly over *all* accepted plans is not closed (`round()` returns a Go `int`, which reaches
`getXPathType` — a known finding pinned by `Test_func_round`).
-/
namespace XPathV.Theorems.C15
open XPathV XPathV.Model XPathV.Facts NumAlg

/-- the full statement -/
def C15Statement (F : Type) [NumAlg F] : Prop :=
  ∀ (cc : CompileCfg) ns text p, compile cc ns text = .ok p →
    ∀ (d : Doc) (cfg : ECfg) (c : Ref),
      (∀ k, sel (F := F) d cfg p c ≠ .error (.crash k)) ∧ (∀ k, evalP (F := F) d cfg p c ≠ .error (.crash k))

/-- T0 (F1): the comparison dispatch matrix has no nil cell -/
theorem dispatch_total : Generated.cmpTable.all (fun row => row.all Option.isSome) = true := by decide

/-- T0 (F14): `asBool`/`asString` have arms for every documented dynamic type, `mod` does not go
through `int` -/
theorem conversions_total :
    (Generated.convs.find? (fun c => c.func == "asBool")).map (·.arms) = some ["nil", "*NodeIterator", "bool", "float64", "string", "query"] ∧
    (Generated.convs.find? (fun c => c.func == "asString")).map (·.arms) = some ["nil", "bool", "float64", "string", "query"] ∧
    Generated.modUsesIntConversion = false := by decide

/-- T0 (F3, F4): unknown functions and unknown axes are compile errors; `processNode` handles every
node type including variables -/
theorem unsupported_constructs_rejected : Generated.funcDefaultErrors = true ∧ Generated.axisDefaultErrors = true ∧
    Generated.processNodeCases.contains "nodeVariable" = true := by decide

/-- the known finding, as a fact: `round` returns `int` -/
theorem round_returns_int : Generated.roundReturnType = "int" := by decide

variable {F : Type} [NumAlg F]

/-- the builder never emits a nil plan for a variable reference: it is an error -/
theorem variables_rejected (rx : RegexOk) (lim : Nat) (a b : Bool) (p n : String) (fl : Flags) (st : BState) (hlim : st.depth + 1 ≤ lim) :
    build rx lim a b (.var p n) fl st = .error .undeclaredVariable := by
  simp [build, build.enter]
  omega

/-- comparisons of documented value types never crash: every pair of operand types has a cell -/
theorem comparison_never_crashes (d : Doc) (op : Spec.CmpOp) (m n : MVal F)
    (hm : ∀ i, m ≠ .int i) (hm' : m ≠ .nilv) (hn : ∀ i, n ≠ .int i) (hn' : n ≠ .nilv) :
    ∃ b, cmpM d op m n = .ok b := by
  cases m <;> cases n <;> cases op <;>
    simp_all [cmpM, xtypeOf, asBoolM, numBesideBoolM, Spec.CmpOp.isRel, bind, Except.bind, pure, Except.pure]

/-- `mod` by zero is a value (NaN by IEEE), not an integer division crash -/
theorem mod_never_crashes (d : Doc) (cfg : ECfg) (c : Ref) (l1 l2 : String) :
    ∃ v, evalP (F := F) d cfg (.numeric "mod" (.constNum l1) (.constNum l2)) c = .ok v := by
  simp [evalP, asNumberM, bind, Except.bind]

/-- a comparison used as a path input yields the context node at most once (the pinned
`logicalQuery.Select` yielded it forever) -/
theorem logical_select_finite (d : Doc) (cfg : ECfg) (op : String) (l r : Plan) (c : Ref) (out : List Item)
    (h : sel (F := F) d cfg (.logical op l r) c = .ok out) : out.length ≤ 1 := by
  simp only [sel, bind, Except.bind] at h
  repeat (split at h <;> try cases h)
  all_goals simp

/-! ## The safety theorem, closed up to the recorded `round()` finding -/

/-- **C15 (partial only by the `round()` exclusion)**: whatever text `compile` accepts, if the text
does not call `round`, then on every document (well-formed or not), every engine configuration and
every context node, neither `Select` nor `Evaluate` ends in a Go runtime error: the only failures
left are errors the package raises deliberately.  (Induction over all 27 plan constructors and the
function library; the builder emits no nil sub-plan; variables and `namespace::` are compile errors.) -/
theorem C15_main_without_round (cc : CompileCfg) (ns : Option (List (String × String))) (text : List Char) (p : Plan)
    (h : compile cc ns text = .ok p) (hr : noRoundIn ns text) (d : Doc) (cfg : ECfg) (c : Ref) :
    (∀ k, sel (F := F) d cfg p c ≠ .error (.crash k)) ∧ (∀ k, evalP (F := F) d cfg p c ≠ .error (.crash k)) :=
  compile_no_crash cc ns text p h hr d cfg c

/-- the exclusion is necessary — the known finding as a theorem: `round(1) = 1` ends in the
"unknown value type: int" failure -/
theorem round_finding_witness (d : Doc) (cfg : ECfg) (c : Ref) :
    evalP (F := F) d cfg (.logical "=" (.func "round" .nil (.pcons (.constNum "1") .pnil)) (.constNum "1")) c
      = .error (.crash .unknownType) :=
  round_in_comparison_crashes d cfg c

/-- for *any* clean plan (no nil sub-plan, no `round`), not only compiled ones -/
theorem clean_plans_never_crash (d : Doc) (cfg : ECfg) (p : Plan) (c : Ref) (hp : p.clean = true) :
    (∀ k, sel (F := F) d cfg p c ≠ .error (.crash k)) ∧ (∀ k, evalP (F := F) d cfg p c ≠ .error (.crash k)) :=
  no_crash d cfg p c hp

end XPathV.Theorems.C15
