import XPathV.Model.Api
/-! # Property C06 — theorems (placeholder header; filled in below) -/
namespace XPathV.Theorems.C06
end XPathV.Theorems.C06
