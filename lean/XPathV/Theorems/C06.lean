import XPathV.Lemmas.ParserFuel
import XPathV.Model.Api
import XPathV.Lemmas.Facts
/-!
# C06 — Compile is total: exactly one of (expr, error); deep nesting is an error, not a stack overflow
-/
namespace XPathV.Theorems.C06
open XPathV XPathV.Model XPathV.Facts

/-- T0 (F9): every recursive cycle of the call graph reachable from `build` passes through a
function that counts and limits the nesting depth (after deleting the guard functions' outgoing
edges no cycle is left), except recursion over an already built — hence depth-limited — query tree.
The pinned tree failed this with `[parser.parseSequence, parser.parseStep]`. -/
theorem cycles_guarded : cyclesGuarded Generated.unguardedCompileCycles = true := by decide

/-- T0 (F9, F12): the guards and their limits -/
theorem guards_present :
    Generated.guards.any (fun g => g.func == "parser.parseExpression" && g.limit == 200) = true ∧
    Generated.guards.any (fun g => g.func == "parser.parseSequence" && g.limit == 200) = true ∧
    Generated.guards.any (fun g => g.func == "builder.processNode" && g.limit == 1024) = true ∧
    Generated.parseDepthLimit = some 200 ∧ Generated.buildDepthLimit = some 1024 := by decide

/-- T0 (F10): every `panic` reachable during compilation carries a `string` or an `error`, and
the `recover` in `build` has arms for both plus a default, so conversion to `error` is total -/
theorem panics_become_errors : panicTypesOk Generated.compilePanicSites = true ∧
    Generated.recoverArms = ["string", "error", "default"] := by decide

/-- T0 (F15): a nil query is turned into an error by Compile/CompileWithNS; MustCompile
substitutes the no-op query, so it never returns nil -/
theorem nil_query_checked : Generated.compileNilCheck = [("Compile", true), ("CompileWithNS", true)] ∧
    Generated.mustCompileRecoversToNop = true := by decide

/-- the model returns exactly one of (plan, error), and an accepted plan is never the nil query -/
theorem C06_exactly_one (cc : CompileCfg) (ns : Option (List (String × String))) (text : List Char) :
    (∃ p, compile cc ns text = .ok p ∧ p ≠ .nil) ∨ (∃ e, compile cc ns text = .error e) := by
  unfold compile
  split
  · exact Or.inr ⟨_, rfl⟩
  · split
    · exact Or.inr ⟨_, rfl⟩
    · split
      · exact Or.inr ⟨_, rfl⟩
      · rename_i o _
        by_cases h : o.q = .nil
        · simp [h]
        · simp only [beq_iff_eq, h, ↓reduceIte]
          exact Or.inl ⟨o.q, rfl, h⟩

/-- the parser's depth counter never exceeds the regenerated limit: beyond it the result is the
`tooComplex` error (one instance: parenthesised step sequences, the recursion the pinned tree left
unguarded) -/
theorem sequence_depth_guarded (f : Nat) (cfg : PCfg) (inp : Ast) (st : PState) (h : st.d + 1 > cfg.depthLimit) :
    parseSequence (f+1) cfg inp st = .error .tooComplex := by
  simp [parseSequence, h]

theorem expression_depth_guarded (f : Nat) (cfg : PCfg) (st : PState) (h : st.d + 1 > cfg.depthLimit) :
    parseExpression (f+1) cfg st = .error .tooComplex := by
  simp [parseExpression, h]

/-- **the parser terminates by consuming input, not by running out of fuel**: with the fuel
`fuelFor text = 40·(|text|+2)` the model parser never returns the `fuel` error, for every input text
and namespace map (mutual induction over all 15 parser functions with a potential
`40·remaining + rank`).  So fuel is a proof device, not a behaviour. -/
theorem C06_total (ns : Option (List (String × String))) (text : List Char) :
    parse (fuelFor text) (defaultCfg ns) text ≠ .error .fuel :=
  Lemmas.ParserFuel.parse_fuel_enough_default ns text

/-- every `nextItem` call makes progress: a non-EOF token consumes at least one character -/
theorem scanner_progress (s0 s' : Scan) (h : s0.nextItem = .ok s') : Lemmas.ScanProgress.Prog s0 s' :=
  Lemmas.ScanProgress.nextItem_prog s0 s' h

/-- T0 (F15): what the compile entry points run *outside* `build` — whose deferred `recover` is what turns panics
into errors — contains nothing that can panic: no indexing, slicing, unchecked type assertion, division, explicit
panic or call out of `errors.New` / `fmt.Errorf` / `fmt.Sprintf`, in `Compile`, `CompileWithNS`, `MustCompile` and the
package functions they call besides `build` -/
theorem entry_points_cannot_panic_outside_recover : Generated.compileUnprotectedRisks = [] := by decide

end XPathV.Theorems.C06
