import XPathV.Lemmas.FlatOrder
import XPathV.Model.Api
import XPathV.Lemmas.Facts
import XPathV.Lemmas.PosSem
import XPathV.Lemmas.PosSem2
import XPathV.Lemmas.PosSem3
import XPathV.Lemmas.ApiSem3
/-!
# C03 — positional predicates on child steps use the XPath proximity position
-/
namespace XPathV.Theorems.C03
open XPathV XPathV.Model XPathV.Facts NumAlg

variable {F : Type} [NumAlg F]

/-- a child step numbers the matching children of **each** parent from 1: the position a filter
reads (`childQuery.posit`) restarts for every input node -/
theorem child_positions_restart (d : Doc) (cfg : ECfg) (a : AxisInfo) (inp : Plan) (c : Ref) (ins : List Item)
    (h : sel (F := F) d cfg inp c = .ok ins) :
    sel (F := F) d cfg (.child a inp) c =
      .ok (ins.flatMap (fun it => ((childrenM d it.r).filter (nodeTestM d cfg a)).zipIdx.map (fun (r, i) => ⟨r, i + 1, 0⟩))) := by
  simp [sel, h, bind, Except.bind, numbered, test]

/-- a numeric predicate keeps exactly the candidate whose position equals the (truncated) number -/
theorem numeric_predicate_is_position (x : F) (it : Item) (b : Bool) :
    predDecision (.num x) it b = (toInt x == some (it.pos : Int)) := rfl

/-- the merge rewrite evaluates the positional filter once per parent: the child plan is run with
each parent as context and the results are concatenated in parent order -/
theorem merge_is_per_parent (d : Doc) (cfg : ECfg) (inp child : Plan) (c : Ref) (ins : List Item)
    (h : sel (F := F) d cfg inp c = .ok ins) :
    sel (F := F) d cfg (.merge inp child) c =
      (ins.mapM (fun it => sel (F := F) d cfg child it.r)).map (fun parts => plain (parts.flatten.map (·.r))) := by
  simp only [sel, h, bind, Except.bind]
  cases ins.mapM (fun it => sel (F := F) d cfg child it.r) <;> rfl

/-- a parenthesised path numbers its nodes 1, 2, … over the whole sequence (`groupQuery.posit`) -/
theorem group_positions_global (d : Doc) (cfg : ECfg) (inp : Plan) (c : Ref) (ins : List Item)
    (h : sel (F := F) d cfg inp c = .ok ins) :
    sel (F := F) d cfg (.group inp) c = .ok ((ins.map (·.r)).zipIdx.map (fun (r, i) => ⟨r, i + 1, 0⟩)) := by
  simp [sel, h, bind, Except.bind, numbered]

/-! ## Positions are XPath proximity positions -/

/-- **proximity position**: in a child step over a flat input, the position counter a predicate
reads for a node is 1 + the number of earlier candidates *of the same parent* — the XPath proximity
position for the (forward) child axis, restarting for every parent -/
theorem child_pos_is_proximity {d : Doc} (wf : WF d) (cfg : ECfg) (a : AxisInfo) {p : Plan} (hp : FlatPlan p)
    (c : Ref) (l : List Item) (h : sel (F := F) d cfg (.child a p) c = .ok l)
    (A B : List Item) (x : Item) (hl : l = A ++ x :: B) :
    x.pos = 1 + (A.filter (fun y => Spec.parent? d y.r == Spec.parent? d x.r)).length :=
  XPathV.child_pos_is_proximity wf cfg a hp c l h A B x hl

/-- **`t[n]`**: a numeric literal predicate on a child step keeps exactly the n-th matching child
(in document order) of the context node, and this is what the specification's `filterPos` keeps -/
theorem nth_child {d : Doc} (wf : WF d) (cfg : ECfg) (a : AxisInfo) (lex : String) (c : Ref)
    (n : Nat) (hn1 : 1 ≤ n) (hn : toInt (Spec.strToNum lex : F) = some (n : Int))
    (hx : ∀ m, 1 ≤ m → (NumAlg.eq (Spec.strToNum lex : F) (ofNat m) = true ↔ m = n)) :
    ∃ keep, Spec.filterPos (F := F) (childCands d cfg a c) (Spec.eval d (.num lex)) = .ok keep ∧
      (sel (F := F) d cfg (.filter (.child a .context) (.constNum lex)) c).map (fun l => l.map (·.r)) = .ok keep ∧
      keep = ((childCands d cfg a c)[n - 1]?).toList :=
  XPathV.nth_child_agrees wf cfg a lex c n hn1 hn hx

open XPathV.PathSem XPathV.PredSem XPathV.PosSem in
/-- **C03 (main theorem, through the builder)**: for every input path `q` of the C02 fragment, the
step `child::a` and a positional first predicate `f` — `[n]`, `[position() op n]`,
`[position() = last()]`, `[last()]`, `[last() - n]` — the plan the builder makes of `q/child::a[f]`
(plain filter or merge rewrite) selects exactly the oracle's node set, and these are the candidates
`x` of an input node `p` whose 1-based position among the candidates of `p` satisfies the predicate.
`hag` is the only numeric hypothesis (the engine's and the oracle's number comparisons agree on
positions and sizes up to `d.length`); it holds unconditionally for `[position() op n]` and
`[position() = last()]` (`agree_posCmp`, `agree_posEqLast`) and follows from `NumOK` otherwise. -/
theorem C03_main {d : Doc} (wf : WF d) (cfg : ECfg) (hns : cfg.nsIface = true) (hinj : HashInj d cfg)
    (regexOk : RegexOk) (limit : Nat) (a : AxisInfo) (ha : a.axis = "child") (q : Ast) (hq : Frag true q)
    (f : PosForm) (hag : f.Agree F d.length) (st : BState) (o : BOut)
    (hb : build regexOk limit true false (.filter (.axis a q) f.ast) {} st = .ok o)
    (c : Ref) (hc : validRef d c = true) :
    ∃ out ns g origins g0, sel (F := F) d cfg o.q c = .ok out ∧
      Spec.eval (F := F) d (.filter (.axis a q) f.ast) ⟨c, 1, 1⟩ = .ok (.val (.nodes ns) g) ∧
      Spec.eval (F := F) d q ⟨c, 1, 1⟩ = .ok (.val (.nodes origins) g0) ∧
      (∀ x, x ∈ refs out ↔ x ∈ ns) ∧
      (∀ x, x ∈ ns ↔ ∃ p ∈ origins, ∃ k, (childCands d cfg a p)[k]? = some x ∧
        PosForm.specKeep F f (k + 1) (childCands d cfg a p).length = true) :=
  PosSem.C03_main wf cfg hns hinj regexOk limit a ha q hq f hag st o hb c hc

open XPathV.PathSem XPathV.PredSem XPathV.PosSem in
/-- `C03_main` without the `HashInj` hypothesis (it is a theorem now: `hashInj_holds`; the side
condition left is "no element has two attributes with the same prefix, name and value") -/
theorem C03_main_unconditional {d : Doc} (wf : WF d) (cfg : ECfg) (hns : cfg.nsIface = true) (hattr : AttrTriplesDistinct d)
    (regexOk : RegexOk) (limit : Nat) (a : AxisInfo) (ha : a.axis = "child") (q : Ast) (hq : Frag true q)
    (f : PosForm) (hag : f.Agree F d.length) (st : BState) (o : BOut)
    (hb : build regexOk limit true false (.filter (.axis a q) f.ast) {} st = .ok o)
    (c : Ref) (hc : validRef d c = true) :
    ∃ out ns g origins g0, sel (F := F) d cfg o.q c = .ok out ∧
      Spec.eval (F := F) d (.filter (.axis a q) f.ast) ⟨c, 1, 1⟩ = .ok (.val (.nodes ns) g) ∧
      Spec.eval (F := F) d q ⟨c, 1, 1⟩ = .ok (.val (.nodes origins) g0) ∧
      (∀ x, x ∈ refs out ↔ x ∈ ns) ∧
      (∀ x, x ∈ ns ↔ ∃ p ∈ origins, ∃ k, (childCands d cfg a p)[k]? = some x ∧
        PosForm.specKeep F f (k + 1) (childCands d cfg a p).length = true) :=
  C03_main wf cfg hns (PathSem.hashInj_holds wf hattr cfg) regexOk limit a ha q hq f hag st o hb c
    hc

open XPathV.PathSem XPathV.PredSem XPathV.PosSem in
/-- **C03 on natural numbers**: under `NumOK` (the literal denotes `n`; naturals up to `d.length`
are embedded faithfully in the number algebra) the nodes returned are the candidates whose position
`k` satisfies `k = n` / `k op n` / `k = size` / `k + n = size`, `size` = number of candidates of the
same parent -/
theorem C03_on_naturals {d : Doc} (wf : WF d) (cfg : ECfg) (hns : cfg.nsIface = true) (hinj : HashInj d cfg)
    (regexOk : RegexOk) (limit : Nat) (a : AxisInfo) (ha : a.axis = "child") (q : Ast) (hq : Frag true q)
    (f : PosForm) (n : Nat) (hnum : f.NumOK F n d.length) (st : BState) (o : BOut)
    (hb : build regexOk limit true false (.filter (.axis a q) f.ast) {} st = .ok o)
    (c : Ref) (hc : validRef d c = true) :
    ∃ out ns g origins g0, sel (F := F) d cfg o.q c = .ok out ∧
      Spec.eval (F := F) d (.filter (.axis a q) f.ast) ⟨c, 1, 1⟩ = .ok (.val (.nodes ns) g) ∧
      Spec.eval (F := F) d q ⟨c, 1, 1⟩ = .ok (.val (.nodes origins) g0) ∧
      (∀ x, x ∈ refs out ↔ x ∈ ns) ∧
      (∀ x, x ∈ ns ↔ ∃ p ∈ origins, ∃ k, (childCands d cfg a p)[k]? = some x ∧
        f.natKeep n (k + 1) (childCands d cfg a p).length = true) :=
  PosSem.C03_main_nat wf cfg hns hinj regexOk limit a ha q hq f n hnum st o hb c hc

open XPathV.PathSem XPathV.PredSem XPathV.PosSem in
/-- `C03_on_naturals` without the `HashInj` hypothesis (it is a theorem now: `hashInj_holds`; the side
condition left is "no element has two attributes with the same prefix, name and value") -/
theorem C03_on_naturals_unconditional {d : Doc} (wf : WF d) (cfg : ECfg) (hns : cfg.nsIface = true) (hattr : AttrTriplesDistinct d)
    (regexOk : RegexOk) (limit : Nat) (a : AxisInfo) (ha : a.axis = "child") (q : Ast) (hq : Frag true q)
    (f : PosForm) (n : Nat) (hnum : f.NumOK F n d.length) (st : BState) (o : BOut)
    (hb : build regexOk limit true false (.filter (.axis a q) f.ast) {} st = .ok o)
    (c : Ref) (hc : validRef d c = true) :
    ∃ out ns g origins g0, sel (F := F) d cfg o.q c = .ok out ∧
      Spec.eval (F := F) d (.filter (.axis a q) f.ast) ⟨c, 1, 1⟩ = .ok (.val (.nodes ns) g) ∧
      Spec.eval (F := F) d q ⟨c, 1, 1⟩ = .ok (.val (.nodes origins) g0) ∧
      (∀ x, x ∈ refs out ↔ x ∈ ns) ∧
      (∀ x, x ∈ ns ↔ ∃ p ∈ origins, ∃ k, (childCands d cfg a p)[k]? = some x ∧
        f.natKeep n (k + 1) (childCands d cfg a p).length = true) :=
  C03_on_naturals wf cfg hns (PathSem.hashInj_holds wf hattr cfg) regexOk limit a ha q hq f n hnum
    st o hb c hc

open XPathV.PathSem XPathV.PredSem XPathV.PosSem in
/-- **followed by boolean predicates** `q/child::a[f][b1]…[bk]`: per input node, the candidates
whose proximity position satisfies `f` and on which every `bi` holds; the oracle agrees -/
theorem C03_then_boolean_predicates {d : Doc} (wf : WF d) (cfg : ECfg) (hns : cfg.nsIface = true)
    (hinj : HashInj d cfg) (regexOk : RegexOk) (limit : Nat) (a : AxisInfo) (ha : a.axis = "child")
    (q : Ast) (hq : Frag true q) (f : PosForm) (hag : f.Agree F d.length) (bs : List Ast)
    (hbs : ∀ b ∈ bs, Frag false b) (st : BState) (o : BOut)
    (hb : build regexOk limit true false (stackAst (.filter (.axis a q) f.ast) bs) {} st = .ok o) :
    ∃ qi, ∀ c, validRef d c = true → PosChainOK F d cfg a f bs o.q qi q ⟨c, 1, 1⟩ :=
  PosSem.C03_chain wf cfg hns hinj regexOk limit a ha q hq f hag bs hbs st o hb

open XPathV.PathSem XPathV.PredSem XPathV.PosSem in
/-- `C03_then_boolean_predicates` without the `HashInj` hypothesis (it is a theorem now: `hashInj_holds`; the side
condition left is "no element has two attributes with the same prefix, name and value") -/
theorem C03_then_boolean_predicates_unconditional {d : Doc} (wf : WF d) (cfg : ECfg) (hns : cfg.nsIface = true)
    (hattr : AttrTriplesDistinct d) (regexOk : RegexOk) (limit : Nat) (a : AxisInfo) (ha : a.axis = "child")
    (q : Ast) (hq : Frag true q) (f : PosForm) (hag : f.Agree F d.length) (bs : List Ast)
    (hbs : ∀ b ∈ bs, Frag false b) (st : BState) (o : BOut)
    (hb : build regexOk limit true false (stackAst (.filter (.axis a q) f.ast) bs) {} st = .ok o) :
    ∃ qi, ∀ c, validRef d c = true → PosChainOK F d cfg a f bs o.q qi q ⟨c, 1, 1⟩ :=
  C03_then_boolean_predicates wf cfg hns (PathSem.hashInj_holds wf hattr cfg) regexOk limit a ha q
    hq f hag bs hbs st o hb

open XPathV.PathSem XPathV.PredSem XPathV.PosSem in
/-- with a flat input path the *sequence* of the built plan is the oracle's document-ordered list -/
theorem C03_flat_input_exact {d : Doc} (wf : WF d) (cfg : ECfg) (hns : cfg.nsIface = true)
    (hinj : HashInj d cfg) (regexOk : RegexOk) (limit : Nat) (a : AxisInfo) (ha : a.axis = "child") (q : Ast)
    (hq : q = .none ∨ ArithSem.FlatPath q) (f : PosForm) (hag : f.Agree F d.length) (st : BState) (o : BOut)
    (hb : build regexOk limit true false (.filter (.axis a q) f.ast) {} st = .ok o)
    (c : Ref) (hc : validRef d c = true) :
    ∃ out ns g, sel (F := F) d cfg o.q c = .ok out ∧
      Spec.eval (F := F) d (.filter (.axis a q) f.ast) ⟨c, 1, 1⟩ = .ok (.val (.nodes ns) g) ∧
      refs out = ns :=
  PosSem.C03_main_exact wf cfg hns hinj regexOk limit a ha q hq f hag st o hb c hc

open XPathV.PathSem XPathV.PredSem XPathV.PosSem in
/-- `C03_flat_input_exact` without the `HashInj` hypothesis (it is a theorem now: `hashInj_holds`; the side
condition left is "no element has two attributes with the same prefix, name and value") -/
theorem C03_flat_input_exact_unconditional {d : Doc} (wf : WF d) (cfg : ECfg) (hns : cfg.nsIface = true)
    (hattr : AttrTriplesDistinct d) (regexOk : RegexOk) (limit : Nat) (a : AxisInfo) (ha : a.axis = "child") (q : Ast)
    (hq : q = .none ∨ ArithSem.FlatPath q) (f : PosForm) (hag : f.Agree F d.length) (st : BState) (o : BOut)
    (hb : build regexOk limit true false (.filter (.axis a q) f.ast) {} st = .ok o)
    (c : Ref) (hc : validRef d c = true) :
    ∃ out ns g, sel (F := F) d cfg o.q c = .ok out ∧
      Spec.eval (F := F) d (.filter (.axis a q) f.ast) ⟨c, 1, 1⟩ = .ok (.val (.nodes ns) g) ∧
      refs out = ns :=
  C03_flat_input_exact wf cfg hns (PathSem.hashInj_holds wf hattr cfg) regexOk limit a ha q hq f hag
    st o hb c hc

open XPathV.PathSem XPathV.PredSem XPathV.PosSem in
/-- **`(P)[n]` for a flat path `P`, through the builder**: exactly the `n`-th node of `P` in
document order, on both sides -/
theorem C03_parenthesised_nth {d : Doc} (wf : WF d) (cfg : ECfg) (hns : cfg.nsIface = true)
    (hinj : HashInj d cfg) (regexOk : RegexOk) (limit : Nat) (sdf : Bool) (pa : Ast)
    (hp : ArithSem.FlatPath pa) (lex : String) (n N : Nat) (hn : 1 ≤ n) (hlit : LitIsNat F lex n N)
    (st : BState) (o : BOut)
    (hb : build regexOk limit true sdf (.filter (.group pa) (.num lex)) {} st = .ok o)
    (c : Ref) (hc : validRef d c = true) :
    ∃ out ns g, sel (F := F) d cfg o.q c = .ok out ∧
      Spec.eval (F := F) d pa ⟨c, 1, 1⟩ = .ok (.val (.nodes ns) g) ∧
      (ns.length ≤ N →
        refs out = (ns[n - 1]?).toList ∧
        Spec.eval (F := F) d (.filter (.group pa) (.num lex)) ⟨c, 1, 1⟩ =
          .ok (.val (.nodes (ns[n - 1]?).toList) none)) :=
  paren_flat_nth wf cfg hns hinj regexOk limit sdf pa hp lex n N hn hlit st o hb c hc

open XPathV.PathSem XPathV.PredSem XPathV.PosSem in
/-- `C03_parenthesised_nth` without the `HashInj` hypothesis (it is a theorem now: `hashInj_holds`; the side
condition left is "no element has two attributes with the same prefix, name and value") -/
theorem C03_parenthesised_nth_unconditional {d : Doc} (wf : WF d) (cfg : ECfg) (hns : cfg.nsIface = true)
    (hattr : AttrTriplesDistinct d) (regexOk : RegexOk) (limit : Nat) (sdf : Bool) (pa : Ast)
    (hp : ArithSem.FlatPath pa) (lex : String) (n N : Nat) (hn : 1 ≤ n) (hlit : LitIsNat F lex n N)
    (st : BState) (o : BOut)
    (hb : build regexOk limit true sdf (.filter (.group pa) (.num lex)) {} st = .ok o)
    (c : Ref) (hc : validRef d c = true) :
    ∃ out ns g, sel (F := F) d cfg o.q c = .ok out ∧
      Spec.eval (F := F) d pa ⟨c, 1, 1⟩ = .ok (.val (.nodes ns) g) ∧
      (ns.length ≤ N →
        refs out = (ns[n - 1]?).toList ∧
        Spec.eval (F := F) d (.filter (.group pa) (.num lex)) ⟨c, 1, 1⟩ =
          .ok (.val (.nodes (ns[n - 1]?).toList) none)) :=
  C03_parenthesised_nth wf cfg hns (PathSem.hashInj_holds wf hattr cfg) regexOk limit sdf pa hp lex
    n N hn hlit st o hb c hc

open XPathV.PathSem XPathV.PredSem XPathV.PosSem in
/-- **C03, `position()` / `last()` after other location steps** (the repaired `predInput` defect):
for every input path `q` of the C02 fragment, the step `child::a` and a first predicate `cond` of
the fragment `PosCond` — comparisons among `position()`, `last()`, number literals and paths of the
C02 fragment (`position() op n`, `position() = last()`, `. = last()`, `@k <= position()`), boolean
predicates of the C02 fragment, combined with `and` / `or` / `not(…)` in any order
(`[b and position() op n]`, `[position() op n and b]`, `[@k or position() = n]`,
`[not(c) and . = last()]`) — the plan the builder makes of `q/child::a[cond]` (plain filter or merge
rewrite) selects exactly the oracle's node set, and these are the candidates `x` of an input node
`p` on which the oracle's reading of `cond` at `x`, with the 1-based position of `x` among the
candidates of `p` and the number of those candidates as context position and size, is true.
No numeric hypothesis: every condition of the fragment is boolean-valued, and both sides compute the
same comparisons. -/
theorem C03_position_after_steps {d : Doc} (wf : WF d) (cfg : ECfg) (hns : cfg.nsIface = true)
    (hinj : HashInj d cfg) (regexOk : RegexOk) (limit : Nat) (a : AxisInfo) (ha : a.axis = "child")
    (q : Ast) (hq : Frag true q) (cond : Ast) (hcond : PosCond cond) (st : BState) (o : BOut)
    (hb : build regexOk limit true false (.filter (.axis a q) cond) {} st = .ok o)
    (c : Ref) (hc : validRef d c = true) :
    ∃ out ns g origins g0, sel (F := F) d cfg o.q c = .ok out ∧
      Spec.eval (F := F) d (.filter (.axis a q) cond) ⟨c, 1, 1⟩ = .ok (.val (.nodes ns) g) ∧
      Spec.eval (F := F) d q ⟨c, 1, 1⟩ = .ok (.val (.nodes origins) g0) ∧
      (∀ x, x ∈ refs out ↔ x ∈ ns) ∧
      (∀ x, x ∈ ns ↔ ∃ p ∈ origins, ∃ k, (childCands d cfg a p)[k]? = some x ∧
        condTruth F d cond x (k + 1) (childCands d cfg a p).length = true) :=
  PosSem.C03_after_steps wf cfg hns hinj regexOk limit a ha q hq cond hcond st o hb c hc

open XPathV.PathSem XPathV.PredSem XPathV.PosSem in
/-- `C03_position_after_steps` without the `HashInj` hypothesis (`hashInj_holds`) -/
theorem C03_position_after_steps_unconditional {d : Doc} (wf : WF d) (cfg : ECfg)
    (hns : cfg.nsIface = true) (hattr : AttrTriplesDistinct d) (regexOk : RegexOk) (limit : Nat)
    (a : AxisInfo) (ha : a.axis = "child") (q : Ast) (hq : Frag true q) (cond : Ast)
    (hcond : PosCond cond) (st : BState) (o : BOut)
    (hb : build regexOk limit true false (.filter (.axis a q) cond) {} st = .ok o)
    (c : Ref) (hc : validRef d c = true) :
    ∃ out ns g origins g0, sel (F := F) d cfg o.q c = .ok out ∧
      Spec.eval (F := F) d (.filter (.axis a q) cond) ⟨c, 1, 1⟩ = .ok (.val (.nodes ns) g) ∧
      Spec.eval (F := F) d q ⟨c, 1, 1⟩ = .ok (.val (.nodes origins) g0) ∧
      (∀ x, x ∈ refs out ↔ x ∈ ns) ∧
      (∀ x, x ∈ ns ↔ ∃ p ∈ origins, ∃ k, (childCands d cfg a p)[k]? = some x ∧
        condTruth F d cond x (k + 1) (childCands d cfg a p).length = true) :=
  C03_position_after_steps wf cfg hns (PathSem.hashInj_holds wf hattr cfg) regexOk limit a ha q hq
    cond hcond st o hb c hc

open XPathV.PathSem XPathV.PredSem XPathV.PosSem in
/-- **`[b and position() op n]` / `[position() op n and b]` / `[b or position() op n]` /
`[position() op n or b]`** (`s : MixShape`), `b` a boolean predicate of the C02 fragment: the built
plan selects exactly the oracle's node set — the candidates `x` of an input node `p` such that `b`
holds at `x` and (resp. or) the 1-based position of `x` among the candidates of `p` stands in the
relation `op` to the literal -/
theorem C03_bool_with_position {d : Doc} (wf : WF d) (cfg : ECfg) (hns : cfg.nsIface = true)
    (hinj : HashInj d cfg) (regexOk : RegexOk) (limit : Nat) (a : AxisInfo) (ha : a.axis = "child")
    (q : Ast) (hq : Frag true q) (s : MixShape) (b : Ast) (hbf : Frag false b) (cop : Spec.CmpOp)
    (pfx lex : String) (st : BState) (o : BOut)
    (hb : build regexOk limit true false
      (.filter (.axis a q) (s.ast b (PosForm.posCmp cop pfx lex).ast)) {} st = .ok o)
    (c : Ref) (hc : validRef d c = true) :
    ∃ out ns g origins g0, sel (F := F) d cfg o.q c = .ok out ∧
      Spec.eval (F := F) d (.filter (.axis a q) (s.ast b (PosForm.posCmp cop pfx lex).ast)) ⟨c, 1, 1⟩ =
        .ok (.val (.nodes ns) g) ∧
      Spec.eval (F := F) d q ⟨c, 1, 1⟩ = .ok (.val (.nodes origins) g0) ∧
      (∀ x, x ∈ refs out ↔ x ∈ ns) ∧
      (∀ x, x ∈ ns ↔ ∃ p ∈ origins, ∃ k, (childCands d cfg a p)[k]? = some x ∧
        s.comb (holds (F := F) d b x)
          (Spec.cmpNum cop (ofNat (k + 1) : F) (Spec.strToNum lex)) = true) :=
  PosSem.C03_bool_with_position wf cfg hns hinj regexOk limit a ha q hq s b hbf cop pfx lex st o hb c hc

open XPathV.PosSem in
/-- **builder level**: in the plan of `X[cond]`, every `position()` / `last()` call of the condition
that is not inside a nested filter's own condition (`posBound`) has as `firstInput` the step
recorded when `X` was built — at any depth, after any number of location steps; for an axis step `X`
that is the plan of `X` itself.  Covers every condition, e.g. `a[count(b) = position()]` -/
theorem C03_position_fi_is_filtered_step (regexOk : RegexOk) (limit : Nat) (snt sdf : Bool)
    (inp cond : Ast) (fl : Flags) (st : BState) (o : BOut)
    (h : build regexOk limit snt sdf (.filter inp cond) fl st = .ok o) :
    ∃ st1 io co,
      build regexOk limit snt sdf inp { fl with filter := true, smartDesc := fl.smartDesc && sdf } st1 = .ok io ∧
      build regexOk limit snt sdf cond fl ⟨io.st.depth, io.st.firstInput, io.st.firstInput⟩ = .ok co ∧
      (∀ step, io.st.firstInput = some step → posBound step co.q = true) ∧
      (∀ a q, inp = .axis a q → posBound io.q co.q = true) :=
  build_position_fi_is_filtered_step regexOk limit snt sdf inp cond fl st o h

open XPathV.PosSem in
/-- `build` hands the builder's `predInput` back unchanged, and whatever is built while it is
`some t` counts `position()` / `last()` in `t` -/
theorem C03_predInput_threaded (regexOk : RegexOk) (limit : Nat) (snt sdf : Bool) (ast : Ast)
    (fl : Flags) (st : BState) (o : BOut) (h : build regexOk limit snt sdf ast fl st = .ok o) :
    o.st.predInput = st.predInput ∧ ∀ t, st.predInput = some t → posBound t o.q = true :=
  ⟨build_predInput regexOk limit snt sdf ast fl st o h,
   fun t ht => build_posBound regexOk limit snt sdf ast fl st o t ht h⟩

open XPathV.PosSem in
/-- `position()` and `last()` as the engine computes them on a child step are the proximity
position and the context size -/
theorem C03_position_last {d : Doc} (wf : WF d) (cfg : ECfg) (a : AxisInfo) (fi : Plan)
    (hfi : planTest d cfg fi = nodeTestM d cfg a) (p x : Ref) (k : Nat)
    (h : (childCands d cfg a p)[k]? = some x) :
    positionM d cfg fi x = k + 1 ∧
    positionM d cfg fi x = 1 + (((childCands d cfg a p).take k).length) ∧
    lastM d cfg fi x = (childCands d cfg a p).length :=
  position_is_proximity wf cfg a fi hfi p x k h

open XPathV.PosSem in
/-- the numeric side conditions are satisfiable: an exact-integer number algebra meets them for
every form with the literal `2` and every bound -/
theorem C03_side_conditions_satisfiable (f : PosForm) (hf : ∀ lex, (f = .lit lex ∨ (∃ cop pfx, f = .posCmp cop pfx lex) ∨
    ∃ pfx, f = .lastMinus pfx lex) → lex = "2") (N : Nat) : @PosForm.NumOK Int toyAlg f 2 N :=
  @toy_numOK f hf N

end XPathV.Theorems.C03

/-! ## The same on the extended C02 fragment `Frag2`

Input paths and following boolean predicates of `PredSem2.Frag2`: count / contains / starts-with /
local-name predicates, `(P)[b]`, path-vs-path and path-vs-string comparisons with the six operators
(proofs in `Lemmas/PosSem2.lean`).  `Frag k e → Frag2 k e` (`PredSem2.frag2_of_frag`), so these
statements contain the ones above. -/
namespace XPathV.Theorems.C03
open XPathV XPathV.Model XPathV.Facts NumAlg

variable {F : Type} [NumAlg F]

open XPathV.PathSem XPathV.PredSem XPathV.PredSem2 XPathV.PosSem in
/-- **C03 (main theorem, through the builder) on the whole C02 fragment `Frag2`**: `C03_main` with
the input path `q` in `Frag2 true` — e.g. `a[b < c]/x[2]`, `(r)[y = z]/x[last()]`,
`a[count(b) = 2]/x[position() < 3]`, `a[contains(b, 'k')]/x[last() - 1]` -/
theorem C03_main_full {d : Doc} (wf : WF d) (cfg : ECfg) (hns : cfg.nsIface = true) (hinj : HashInj d cfg)
    (regexOk : RegexOk) (limit : Nat) (a : AxisInfo) (ha : a.axis = "child") (q : Ast) (hq : Frag2 true q)
    (f : PosForm) (hag : f.Agree F d.length) (st : BState) (o : BOut)
    (hb : build regexOk limit true false (.filter (.axis a q) f.ast) {} st = .ok o)
    (c : Ref) (hc : validRef d c = true) :
    ∃ out ns g origins g0, sel (F := F) d cfg o.q c = .ok out ∧
      Spec.eval (F := F) d (.filter (.axis a q) f.ast) ⟨c, 1, 1⟩ = .ok (.val (.nodes ns) g) ∧
      Spec.eval (F := F) d q ⟨c, 1, 1⟩ = .ok (.val (.nodes origins) g0) ∧
      (∀ x, x ∈ refs out ↔ x ∈ ns) ∧
      (∀ x, x ∈ ns ↔ ∃ p ∈ origins, ∃ k, (childCands d cfg a p)[k]? = some x ∧
        PosForm.specKeep F f (k + 1) (childCands d cfg a p).length = true) :=
  PosSem2.C03_main2 wf cfg hns hinj regexOk limit a ha q hq f hag st o hb c hc

open XPathV.PathSem XPathV.PredSem XPathV.PredSem2 XPathV.PosSem in
/-- `C03_main_full` without the `HashInj` hypothesis (`hashInj_holds`; the side condition left is
"no element has two attributes with the same prefix, name and value") -/
theorem C03_main_full_unconditional {d : Doc} (wf : WF d) (cfg : ECfg) (hns : cfg.nsIface = true)
    (hattr : AttrTriplesDistinct d)
    (regexOk : RegexOk) (limit : Nat) (a : AxisInfo) (ha : a.axis = "child") (q : Ast) (hq : Frag2 true q)
    (f : PosForm) (hag : f.Agree F d.length) (st : BState) (o : BOut)
    (hb : build regexOk limit true false (.filter (.axis a q) f.ast) {} st = .ok o)
    (c : Ref) (hc : validRef d c = true) :
    ∃ out ns g origins g0, sel (F := F) d cfg o.q c = .ok out ∧
      Spec.eval (F := F) d (.filter (.axis a q) f.ast) ⟨c, 1, 1⟩ = .ok (.val (.nodes ns) g) ∧
      Spec.eval (F := F) d q ⟨c, 1, 1⟩ = .ok (.val (.nodes origins) g0) ∧
      (∀ x, x ∈ refs out ↔ x ∈ ns) ∧
      (∀ x, x ∈ ns ↔ ∃ p ∈ origins, ∃ k, (childCands d cfg a p)[k]? = some x ∧
        PosForm.specKeep F f (k + 1) (childCands d cfg a p).length = true) :=
  C03_main_full wf cfg hns (PathSem.hashInj_holds wf hattr cfg) regexOk limit a ha q hq f hag st o hb
    c hc

open XPathV.PathSem XPathV.PredSem XPathV.PredSem2 XPathV.PosSem in
/-- **C03 on natural numbers on `Frag2`**: `C03_on_naturals` with the input path in `Frag2 true` -/
theorem C03_on_naturals_full {d : Doc} (wf : WF d) (cfg : ECfg) (hns : cfg.nsIface = true) (hinj : HashInj d cfg)
    (regexOk : RegexOk) (limit : Nat) (a : AxisInfo) (ha : a.axis = "child") (q : Ast) (hq : Frag2 true q)
    (f : PosForm) (n : Nat) (hnum : f.NumOK F n d.length) (st : BState) (o : BOut)
    (hb : build regexOk limit true false (.filter (.axis a q) f.ast) {} st = .ok o)
    (c : Ref) (hc : validRef d c = true) :
    ∃ out ns g origins g0, sel (F := F) d cfg o.q c = .ok out ∧
      Spec.eval (F := F) d (.filter (.axis a q) f.ast) ⟨c, 1, 1⟩ = .ok (.val (.nodes ns) g) ∧
      Spec.eval (F := F) d q ⟨c, 1, 1⟩ = .ok (.val (.nodes origins) g0) ∧
      (∀ x, x ∈ refs out ↔ x ∈ ns) ∧
      (∀ x, x ∈ ns ↔ ∃ p ∈ origins, ∃ k, (childCands d cfg a p)[k]? = some x ∧
        f.natKeep n (k + 1) (childCands d cfg a p).length = true) :=
  PosSem2.C03_main_nat2 wf cfg hns hinj regexOk limit a ha q hq f n hnum st o hb c hc

open XPathV.PathSem XPathV.PredSem XPathV.PredSem2 XPathV.PosSem in
/-- `C03_on_naturals_full` without the `HashInj` hypothesis (`hashInj_holds`) -/
theorem C03_on_naturals_full_unconditional {d : Doc} (wf : WF d) (cfg : ECfg) (hns : cfg.nsIface = true)
    (hattr : AttrTriplesDistinct d)
    (regexOk : RegexOk) (limit : Nat) (a : AxisInfo) (ha : a.axis = "child") (q : Ast) (hq : Frag2 true q)
    (f : PosForm) (n : Nat) (hnum : f.NumOK F n d.length) (st : BState) (o : BOut)
    (hb : build regexOk limit true false (.filter (.axis a q) f.ast) {} st = .ok o)
    (c : Ref) (hc : validRef d c = true) :
    ∃ out ns g origins g0, sel (F := F) d cfg o.q c = .ok out ∧
      Spec.eval (F := F) d (.filter (.axis a q) f.ast) ⟨c, 1, 1⟩ = .ok (.val (.nodes ns) g) ∧
      Spec.eval (F := F) d q ⟨c, 1, 1⟩ = .ok (.val (.nodes origins) g0) ∧
      (∀ x, x ∈ refs out ↔ x ∈ ns) ∧
      (∀ x, x ∈ ns ↔ ∃ p ∈ origins, ∃ k, (childCands d cfg a p)[k]? = some x ∧
        f.natKeep n (k + 1) (childCands d cfg a p).length = true) :=
  C03_on_naturals_full wf cfg hns (PathSem.hashInj_holds wf hattr cfg) regexOk limit a ha q hq f n
    hnum st o hb c hc

open XPathV.PathSem XPathV.PredSem XPathV.PredSem2 XPathV.PosSem in
/-- **followed by boolean predicates, on `Frag2`**: `q/child::a[f][b1]…[bk]` with `q` in
`Frag2 true` and every `bi` in `Frag2 false` — e.g. `a[2][b < c]`, `a[last()][count(b) = 1]`,
`a[position() < 3][contains(b, 'k')]`: per input node, the candidates whose proximity position
satisfies `f` and on which every `bi` holds; the oracle agrees -/
theorem C03_then_boolean_predicates_full {d : Doc} (wf : WF d) (cfg : ECfg) (hns : cfg.nsIface = true)
    (hinj : HashInj d cfg) (regexOk : RegexOk) (limit : Nat) (a : AxisInfo) (ha : a.axis = "child")
    (q : Ast) (hq : Frag2 true q) (f : PosForm) (hag : f.Agree F d.length) (bs : List Ast)
    (hbs : ∀ b ∈ bs, Frag2 false b) (st : BState) (o : BOut)
    (hb : build regexOk limit true false (stackAst (.filter (.axis a q) f.ast) bs) {} st = .ok o) :
    ∃ qi, ∀ c, validRef d c = true → PosChainOK F d cfg a f bs o.q qi q ⟨c, 1, 1⟩ :=
  PosSem2.C03_chain2 wf cfg hns hinj regexOk limit a ha q hq f hag bs hbs st o hb

open XPathV.PathSem XPathV.PredSem XPathV.PredSem2 XPathV.PosSem in
/-- `C03_then_boolean_predicates_full` without the `HashInj` hypothesis (`hashInj_holds`) -/
theorem C03_then_boolean_predicates_full_unconditional {d : Doc} (wf : WF d) (cfg : ECfg)
    (hns : cfg.nsIface = true) (hattr : AttrTriplesDistinct d) (regexOk : RegexOk) (limit : Nat)
    (a : AxisInfo) (ha : a.axis = "child")
    (q : Ast) (hq : Frag2 true q) (f : PosForm) (hag : f.Agree F d.length) (bs : List Ast)
    (hbs : ∀ b ∈ bs, Frag2 false b) (st : BState) (o : BOut)
    (hb : build regexOk limit true false (stackAst (.filter (.axis a q) f.ast) bs) {} st = .ok o) :
    ∃ qi, ∀ c, validRef d c = true → PosChainOK F d cfg a f bs o.q qi q ⟨c, 1, 1⟩ :=
  C03_then_boolean_predicates_full wf cfg hns (PathSem.hashInj_holds wf hattr cfg) regexOk limit a ha
    q hq f hag bs hbs st o hb

end XPathV.Theorems.C03

namespace XPathV.Theorems.C03
open XPathV XPathV.Model XPathV.Facts NumAlg

variable {F : Type} [NumAlg F]

open XPathV.PathSem XPathV.PredSem XPathV.PredSem2 XPathV.PosSem in
/-- **`C03_position_after_steps` with the input path in `Frag2`** (the condition stays in `PosCond`:
its boolean parts and compared paths are those of the smaller fragment `Frag`) -/
theorem C03_position_after_steps_full {d : Doc} (wf : WF d) (cfg : ECfg) (hns : cfg.nsIface = true)
    (hinj : HashInj d cfg) (regexOk : RegexOk) (limit : Nat) (a : AxisInfo) (ha : a.axis = "child")
    (q : Ast) (hq : Frag2 true q) (cond : Ast) (hcond : PosCond cond) (st : BState) (o : BOut)
    (hb : build regexOk limit true false (.filter (.axis a q) cond) {} st = .ok o)
    (c : Ref) (hc : validRef d c = true) :
    ∃ out ns g origins g0, sel (F := F) d cfg o.q c = .ok out ∧
      Spec.eval (F := F) d (.filter (.axis a q) cond) ⟨c, 1, 1⟩ = .ok (.val (.nodes ns) g) ∧
      Spec.eval (F := F) d q ⟨c, 1, 1⟩ = .ok (.val (.nodes origins) g0) ∧
      (∀ x, x ∈ refs out ↔ x ∈ ns) ∧
      (∀ x, x ∈ ns ↔ ∃ p ∈ origins, ∃ k, (childCands d cfg a p)[k]? = some x ∧
        condTruth F d cond x (k + 1) (childCands d cfg a p).length = true) :=
  PosSem2.C03_after_steps2 wf cfg hns hinj regexOk limit a ha q hq cond hcond st o hb c hc

open XPathV.PathSem XPathV.PredSem XPathV.PredSem2 XPathV.PosSem in
/-- `C03_position_after_steps_full` without the `HashInj` hypothesis (`hashInj_holds`) -/
theorem C03_position_after_steps_full_unconditional {d : Doc} (wf : WF d) (cfg : ECfg)
    (hns : cfg.nsIface = true) (hattr : AttrTriplesDistinct d) (regexOk : RegexOk) (limit : Nat)
    (a : AxisInfo) (ha : a.axis = "child") (q : Ast) (hq : Frag2 true q) (cond : Ast)
    (hcond : PosCond cond) (st : BState) (o : BOut)
    (hb : build regexOk limit true false (.filter (.axis a q) cond) {} st = .ok o)
    (c : Ref) (hc : validRef d c = true) :
    ∃ out ns g origins g0, sel (F := F) d cfg o.q c = .ok out ∧
      Spec.eval (F := F) d (.filter (.axis a q) cond) ⟨c, 1, 1⟩ = .ok (.val (.nodes ns) g) ∧
      Spec.eval (F := F) d q ⟨c, 1, 1⟩ = .ok (.val (.nodes origins) g0) ∧
      (∀ x, x ∈ refs out ↔ x ∈ ns) ∧
      (∀ x, x ∈ ns ↔ ∃ p ∈ origins, ∃ k, (childCands d cfg a p)[k]? = some x ∧
        condTruth F d cond x (k + 1) (childCands d cfg a p).length = true) :=
  C03_position_after_steps_full wf cfg hns (PathSem.hashInj_holds wf hattr cfg) regexOk limit a ha q
    hq cond hcond st o hb c hc

end XPathV.Theorems.C03

/-! ## `position()` / `last()` anywhere in the first predicate, everything on `Frag2`

`PosSem3.PosCond2` has the constructors of `PosSem.PosCond` with the embedded boolean predicates in
`PredSem2.Frag2 false` and the paths compared with `position()` / `last()` / a literal in
`Frag2 true` (`PosSem3.posCond2_of_posCond : PosCond c → PosCond2 c`), e.g.
`[@x < @y and position() = 2]`, `[count(b) = 1 or position() = last()]`,
`[not(contains(c, 'k')) and (b)[d = e] >= position()]` (proofs in `Lemmas/PosSem3.lean`). -/
namespace XPathV.Theorems.C03
open XPathV XPathV.Model XPathV.Facts NumAlg

variable {F : Type} [NumAlg F]

open XPathV.PathSem XPathV.PredSem XPathV.PredSem2 XPathV.PosSem XPathV.PosSem3 in
/-- **`C03_position_after_steps` on the whole C02 fragment**: input path `q` in `Frag2 true`,
condition in `PosCond2` (boolean combinations — `and` / `or` / `not` — of predicates of
`Frag2 false` and of comparisons among `position()`, `last()`, number literals and paths of
`Frag2 true`).  The plan the builder produces for `q/child::a[cond]` selects exactly the oracle's
node set: the candidates `x` of an input node `p` on which the oracle's reading of `cond` — at `x`,
with the 1-based position of `x` among the candidates of `p` and their number — is true -/
theorem C03_position_after_steps_all_full {d : Doc} (wf : WF d) (cfg : ECfg) (hns : cfg.nsIface = true)
    (hinj : HashInj d cfg) (regexOk : RegexOk) (limit : Nat) (a : AxisInfo) (ha : a.axis = "child")
    (q : Ast) (hq : Frag2 true q) (cond : Ast) (hcond : PosCond2 cond) (st : BState) (o : BOut)
    (hb : build regexOk limit true false (.filter (.axis a q) cond) {} st = .ok o)
    (c : Ref) (hc : validRef d c = true) :
    ∃ out ns g origins g0, sel (F := F) d cfg o.q c = .ok out ∧
      Spec.eval (F := F) d (.filter (.axis a q) cond) ⟨c, 1, 1⟩ = .ok (.val (.nodes ns) g) ∧
      Spec.eval (F := F) d q ⟨c, 1, 1⟩ = .ok (.val (.nodes origins) g0) ∧
      (∀ x, x ∈ refs out ↔ x ∈ ns) ∧
      (∀ x, x ∈ ns ↔ ∃ p ∈ origins, ∃ k, (childCands d cfg a p)[k]? = some x ∧
        condTruth F d cond x (k + 1) (childCands d cfg a p).length = true) :=
  PosSem3.C03_after_steps3 wf cfg hns hinj regexOk limit a ha q hq cond hcond st o hb c hc

open XPathV.PathSem XPathV.PredSem XPathV.PredSem2 XPathV.PosSem XPathV.PosSem3 in
/-- `C03_position_after_steps_all_full` without the `HashInj` hypothesis (`hashInj_holds`) -/
theorem C03_position_after_steps_all_full_unconditional {d : Doc} (wf : WF d) (cfg : ECfg)
    (hns : cfg.nsIface = true) (hattr : AttrTriplesDistinct d) (regexOk : RegexOk) (limit : Nat)
    (a : AxisInfo) (ha : a.axis = "child") (q : Ast) (hq : Frag2 true q) (cond : Ast)
    (hcond : PosCond2 cond) (st : BState) (o : BOut)
    (hb : build regexOk limit true false (.filter (.axis a q) cond) {} st = .ok o)
    (c : Ref) (hc : validRef d c = true) :
    ∃ out ns g origins g0, sel (F := F) d cfg o.q c = .ok out ∧
      Spec.eval (F := F) d (.filter (.axis a q) cond) ⟨c, 1, 1⟩ = .ok (.val (.nodes ns) g) ∧
      Spec.eval (F := F) d q ⟨c, 1, 1⟩ = .ok (.val (.nodes origins) g0) ∧
      (∀ x, x ∈ refs out ↔ x ∈ ns) ∧
      (∀ x, x ∈ ns ↔ ∃ p ∈ origins, ∃ k, (childCands d cfg a p)[k]? = some x ∧
        condTruth F d cond x (k + 1) (childCands d cfg a p).length = true) :=
  C03_position_after_steps_all_full wf cfg hns (PathSem.hashInj_holds wf hattr cfg) regexOk limit a ha
    q hq cond hcond st o hb c hc

open XPathV.PathSem XPathV.PredSem XPathV.PredSem2 XPathV.PosSem XPathV.PosSem3 in
/-- **`C03_bool_with_position` on the whole C02 fragment**: `[b and position() op n]` /
`[position() op n and b]` / `[b or position() op n]` / `[position() op n or b]` (`s : MixShape`)
with the input path `q` in `Frag2 true` and `b` any boolean predicate of `Frag2 false` — e.g.
`/r/*[@x < @y and position() = 2]`, `a[count(b) = 1 or position() < 3]`: the built plan selects
exactly the oracle's node set — the candidates `x` of an input node `p` such that `b` holds at `x`
and (resp. or) the 1-based position of `x` among the candidates of `p` stands in the relation `op`
to the literal -/
theorem C03_bool_with_position_full {d : Doc} (wf : WF d) (cfg : ECfg) (hns : cfg.nsIface = true)
    (hinj : HashInj d cfg) (regexOk : RegexOk) (limit : Nat) (a : AxisInfo) (ha : a.axis = "child")
    (q : Ast) (hq : Frag2 true q) (s : MixShape) (b : Ast) (hbf : Frag2 false b) (cop : Spec.CmpOp)
    (pfx lex : String) (st : BState) (o : BOut)
    (hb : build regexOk limit true false
      (.filter (.axis a q) (s.ast b (PosForm.posCmp cop pfx lex).ast)) {} st = .ok o)
    (c : Ref) (hc : validRef d c = true) :
    ∃ out ns g origins g0, sel (F := F) d cfg o.q c = .ok out ∧
      Spec.eval (F := F) d (.filter (.axis a q) (s.ast b (PosForm.posCmp cop pfx lex).ast)) ⟨c, 1, 1⟩ =
        .ok (.val (.nodes ns) g) ∧
      Spec.eval (F := F) d q ⟨c, 1, 1⟩ = .ok (.val (.nodes origins) g0) ∧
      (∀ x, x ∈ refs out ↔ x ∈ ns) ∧
      (∀ x, x ∈ ns ↔ ∃ p ∈ origins, ∃ k, (childCands d cfg a p)[k]? = some x ∧
        s.comb (holds (F := F) d b x)
          (Spec.cmpNum cop (ofNat (k + 1) : F) (Spec.strToNum lex)) = true) :=
  PosSem3.C03_bool_with_position3 wf cfg hns hinj regexOk limit a ha q hq s b hbf cop pfx lex st o hb
    c hc

open XPathV.PathSem XPathV.PredSem XPathV.PredSem2 XPathV.PosSem XPathV.PosSem3 in
/-- `C03_bool_with_position_full` without the `HashInj` hypothesis (`hashInj_holds`) -/
theorem C03_bool_with_position_full_unconditional {d : Doc} (wf : WF d) (cfg : ECfg)
    (hns : cfg.nsIface = true) (hattr : AttrTriplesDistinct d) (regexOk : RegexOk) (limit : Nat)
    (a : AxisInfo) (ha : a.axis = "child")
    (q : Ast) (hq : Frag2 true q) (s : MixShape) (b : Ast) (hbf : Frag2 false b) (cop : Spec.CmpOp)
    (pfx lex : String) (st : BState) (o : BOut)
    (hb : build regexOk limit true false
      (.filter (.axis a q) (s.ast b (PosForm.posCmp cop pfx lex).ast)) {} st = .ok o)
    (c : Ref) (hc : validRef d c = true) :
    ∃ out ns g origins g0, sel (F := F) d cfg o.q c = .ok out ∧
      Spec.eval (F := F) d (.filter (.axis a q) (s.ast b (PosForm.posCmp cop pfx lex).ast)) ⟨c, 1, 1⟩ =
        .ok (.val (.nodes ns) g) ∧
      Spec.eval (F := F) d q ⟨c, 1, 1⟩ = .ok (.val (.nodes origins) g0) ∧
      (∀ x, x ∈ refs out ↔ x ∈ ns) ∧
      (∀ x, x ∈ ns ↔ ∃ p ∈ origins, ∃ k, (childCands d cfg a p)[k]? = some x ∧
        s.comb (holds (F := F) d b x)
          (Spec.cmpNum cop (ofNat (k + 1) : F) (Spec.strToNum lex)) = true) :=
  C03_bool_with_position_full wf cfg hns (PathSem.hashInj_holds wf hattr cfg) regexOk limit a ha q hq
    s b hbf cop pfx lex st o hb c hc

open XPathV.PosSem XPathV.PosSem3 in
/-- the conditions of `C03_position_after_steps` are among those of
`C03_position_after_steps_all_full` -/
theorem C03_posCond_subset (c : Ast) (h : PosCond c) : PosCond2 c := posCond2_of_posCond c h

end XPathV.Theorems.C03

/-! ## C03 from the expression text

`C03_main_full` / `C03_then_boolean_predicates_full` start from a parse tree and a successful
`build`.  Here the statement starts from the expression *text*: scanner, parser, builder, the nil
check of `Compile`, then `Select` / `Evaluate` (`Lemmas/ApiSem3.lean`).  The numeric side condition
`f.Agree F d.length` of the plan-level theorem stays, under the quantifiers over the number algebra
and the document it mentions; the path shape of the compiled plan — hence "`compile` does not
answer nil query" — is obtained without it. -/
namespace XPathV.Theorems.C03
open XPathV XPathV.Model XPathV.Facts NumAlg

open XPathV.PathSem XPathV.PredSem XPathV.PredSem2 XPathV.PosSem XPathV.ApiSem in
/-- **C03 from the expression text**: for a text that parses into the positional step
`q/child::a[f]` (`q` in `Frag2 true`, `f : PosForm`), `compile` at the source configuration either
reports a *builder* error (never "empty", a parse error, lack of fuel or the nil query) or returns a
path-shaped plan on which `Select` and `Evaluate` return exactly the oracle's node set at every
valid context node of every well-formed document, for every number algebra that reads the
positional form as the oracle does (`f.Agree F d.length`) -/
theorem C03_from_text (regexOk : RegexOk) (ns : Option (List (String × String)))
    (text : List Char) (a : AxisInfo) (ha : a.axis = "child") (q : Ast) (hq : Frag2 true q)
    (f : PosForm)
    (hparse : parse (fuelFor text) (defaultCfg ns) text = .ok (.filter (.axis a q) f.ast)) :
    (∃ e, compile { regexOk := regexOk } ns text = .error (.build e)) ∨
    (∃ p, compile { regexOk := regexOk } ns text = .ok p ∧ PathShape p ∧
      ∀ (F : Type) [NumAlg F] (d : Doc), WF d → ∀ cfg : ECfg, cfg.nsIface = true → HashInj d cfg →
        f.Agree F d.length → ∀ c, validRef d c = true →
          ∃ l nsl, selectAll (F := F) d cfg p c = .ok l ∧ evaluate (F := F) d cfg p c = .ok (.nodes l) ∧
            Spec.evalTop (F := F) d (.filter (.axis a q) f.ast) c = .ok (.nodes nsl) ∧
            ∀ x, x ∈ l ↔ x ∈ nsl) :=
  C03_compile_total regexOk ns text a ha q hq f hparse

open XPathV.PathSem XPathV.PredSem XPathV.PredSem2 XPathV.PosSem XPathV.ApiSem in
/-- `C03_from_text` without the `HashInj` hypothesis (`hashInj_holds`; the side condition left is
"no element has two attributes with the same prefix, name and value") -/
theorem C03_from_text_unconditional (regexOk : RegexOk) (ns : Option (List (String × String)))
    (text : List Char) (a : AxisInfo) (ha : a.axis = "child") (q : Ast) (hq : Frag2 true q)
    (f : PosForm)
    (hparse : parse (fuelFor text) (defaultCfg ns) text = .ok (.filter (.axis a q) f.ast)) :
    (∃ e, compile { regexOk := regexOk } ns text = .error (.build e)) ∨
    (∃ p, compile { regexOk := regexOk } ns text = .ok p ∧ PathShape p ∧
      ∀ (F : Type) [NumAlg F] (d : Doc), WF d → ∀ cfg : ECfg, cfg.nsIface = true →
        AttrTriplesDistinct d →
        f.Agree F d.length → ∀ c, validRef d c = true →
          ∃ l nsl, selectAll (F := F) d cfg p c = .ok l ∧ evaluate (F := F) d cfg p c = .ok (.nodes l) ∧
            Spec.evalTop (F := F) d (.filter (.axis a q) f.ast) c = .ok (.nodes nsl) ∧
            ∀ x, x ∈ l ↔ x ∈ nsl) := by
  rcases C03_from_text regexOk ns text a ha q hq f hparse with h | ⟨p, h1, h2, h3⟩
  · exact .inl h
  · exact .inr ⟨p, h1, h2, fun F _ d wf cfg hns hattr hag c hc =>
      h3 F d wf cfg hns (hashInj_holds wf hattr cfg) hag c hc⟩

open XPathV.PathSem XPathV.PredSem XPathV.PredSem2 XPathV.PosSem XPathV.ApiSem in
/-- **C03 from the expression text, followed by boolean predicates**: the text parses into
`q/child::a[f][b1]…[bk]` (`stackAst (.filter (.axis a q) f.ast) bs`, the `bi` in `Frag2 false`,
listed outermost first) -/
theorem C03_from_text_then_boolean_predicates (regexOk : RegexOk)
    (ns : Option (List (String × String)))
    (text : List Char) (a : AxisInfo) (ha : a.axis = "child") (q : Ast) (hq : Frag2 true q)
    (f : PosForm) (bs : List Ast) (hbs : ∀ b ∈ bs, Frag2 false b)
    (hparse : parse (fuelFor text) (defaultCfg ns) text =
      .ok (stackAst (.filter (.axis a q) f.ast) bs)) :
    (∃ e, compile { regexOk := regexOk } ns text = .error (.build e)) ∨
    (∃ p, compile { regexOk := regexOk } ns text = .ok p ∧ PathShape p ∧
      ∀ (F : Type) [NumAlg F] (d : Doc), WF d → ∀ cfg : ECfg, cfg.nsIface = true → HashInj d cfg →
        f.Agree F d.length → ∀ c, validRef d c = true →
          ∃ l nsl, selectAll (F := F) d cfg p c = .ok l ∧ evaluate (F := F) d cfg p c = .ok (.nodes l) ∧
            Spec.evalTop (F := F) d (stackAst (.filter (.axis a q) f.ast) bs) c = .ok (.nodes nsl) ∧
            ∀ x, x ∈ l ↔ x ∈ nsl) :=
  C03_compile_chain_total regexOk ns text a ha q hq f bs hbs hparse

open XPathV.PathSem XPathV.PredSem XPathV.PredSem2 XPathV.PosSem XPathV.ApiSem in
/-- `C03_from_text_then_boolean_predicates` without the `HashInj` hypothesis -/
theorem C03_from_text_then_boolean_predicates_unconditional (regexOk : RegexOk)
    (ns : Option (List (String × String)))
    (text : List Char) (a : AxisInfo) (ha : a.axis = "child") (q : Ast) (hq : Frag2 true q)
    (f : PosForm) (bs : List Ast) (hbs : ∀ b ∈ bs, Frag2 false b)
    (hparse : parse (fuelFor text) (defaultCfg ns) text =
      .ok (stackAst (.filter (.axis a q) f.ast) bs)) :
    (∃ e, compile { regexOk := regexOk } ns text = .error (.build e)) ∨
    (∃ p, compile { regexOk := regexOk } ns text = .ok p ∧ PathShape p ∧
      ∀ (F : Type) [NumAlg F] (d : Doc), WF d → ∀ cfg : ECfg, cfg.nsIface = true →
        AttrTriplesDistinct d →
        f.Agree F d.length → ∀ c, validRef d c = true →
          ∃ l nsl, selectAll (F := F) d cfg p c = .ok l ∧ evaluate (F := F) d cfg p c = .ok (.nodes l) ∧
            Spec.evalTop (F := F) d (stackAst (.filter (.axis a q) f.ast) bs) c = .ok (.nodes nsl) ∧
            ∀ x, x ∈ l ↔ x ∈ nsl) := by
  rcases C03_from_text_then_boolean_predicates regexOk ns text a ha q hq f bs hbs hparse with
    h | ⟨p, h1, h2, h3⟩
  · exact .inl h
  · exact .inr ⟨p, h1, h2, fun F _ d wf cfg hns hattr hag c hc =>
      h3 F d wf cfg hns (hashInj_holds wf hattr cfg) hag c hc⟩

end XPathV.Theorems.C03

section AxiomAuditFromText
open XPathV.Theorems.C03
end AxiomAuditFromText
