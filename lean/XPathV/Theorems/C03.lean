import XPathV.Model.Api
/-! # Property C03 — theorems (placeholder header; filled in below) -/
namespace XPathV.Theorems.C03
end XPathV.Theorems.C03
