import XPathV.Model.Api
import XPathV.Lemmas.Facts
/-!
# C03 — positional predicates on child steps use the XPath proximity position
-/
namespace XPathV.Theorems.C03
open XPathV XPathV.Model XPathV.Facts NumAlg

variable {F : Type} [NumAlg F]

/-- a child step numbers the matching children of **each** parent from 1: the position a filter
reads (`childQuery.posit`) restarts for every input node -/
theorem child_positions_restart (d : Doc) (cfg : ECfg) (a : AxisInfo) (inp : Plan) (c : Ref) (ins : List Item)
    (h : sel (F := F) d cfg inp c = .ok ins) :
    sel (F := F) d cfg (.child a inp) c =
      .ok (ins.flatMap (fun it => ((childrenM d it.r).filter (nodeTestM d cfg a)).zipIdx.map (fun (r, i) => ⟨r, i + 1, 0⟩))) := by
  simp [sel, h, bind, Except.bind, numbered, test]

/-- a numeric predicate keeps exactly the candidate whose position equals the (truncated) number -/
theorem numeric_predicate_is_position (x : F) (it : Item) (b : Bool) :
    predDecision (.num x) it b = (toInt x == some (it.pos : Int)) := rfl

/-- the merge rewrite evaluates the positional filter once per parent: the child plan is run with
each parent as context and the results are concatenated in parent order -/
theorem merge_is_per_parent (d : Doc) (cfg : ECfg) (inp child : Plan) (c : Ref) (ins : List Item)
    (h : sel (F := F) d cfg inp c = .ok ins) :
    sel (F := F) d cfg (.merge inp child) c =
      (ins.mapM (fun it => sel (F := F) d cfg child it.r)).map (fun parts => plain (parts.flatten.map (·.r))) := by
  simp only [sel, h, bind, Except.bind]
  cases ins.mapM (fun it => sel (F := F) d cfg child it.r) <;> rfl

/-- a parenthesised path numbers its nodes 1, 2, … over the whole sequence (`groupQuery.posit`) -/
theorem group_positions_global (d : Doc) (cfg : ECfg) (inp : Plan) (c : Ref) (ins : List Item)
    (h : sel (F := F) d cfg inp c = .ok ins) :
    sel (F := F) d cfg (.group inp) c = .ok ((ins.map (·.r)).zipIdx.map (fun (r, i) => ⟨r, i + 1, 0⟩)) := by
  simp [sel, h, bind, Except.bind, numbered]

end XPathV.Theorems.C03
