import XPathV.Lemmas.FlatOrder
import XPathV.Model.Api
import XPathV.Lemmas.Facts
/-!
# C03 — positional predicates on child steps use the XPath proximity position
-/
namespace XPathV.Theorems.C03
open XPathV XPathV.Model XPathV.Facts NumAlg

variable {F : Type} [NumAlg F]

/-- a child step numbers the matching children of **each** parent from 1: the position a filter
reads (`childQuery.posit`) restarts for every input node -/
theorem child_positions_restart (d : Doc) (cfg : ECfg) (a : AxisInfo) (inp : Plan) (c : Ref) (ins : List Item)
    (h : sel (F := F) d cfg inp c = .ok ins) :
    sel (F := F) d cfg (.child a inp) c =
      .ok (ins.flatMap (fun it => ((childrenM d it.r).filter (nodeTestM d cfg a)).zipIdx.map (fun (r, i) => ⟨r, i + 1, 0⟩))) := by
  simp [sel, h, bind, Except.bind, numbered, test]

/-- a numeric predicate keeps exactly the candidate whose position equals the (truncated) number -/
theorem numeric_predicate_is_position (x : F) (it : Item) (b : Bool) :
    predDecision (.num x) it b = (toInt x == some (it.pos : Int)) := rfl

/-- the merge rewrite evaluates the positional filter once per parent: the child plan is run with
each parent as context and the results are concatenated in parent order -/
theorem merge_is_per_parent (d : Doc) (cfg : ECfg) (inp child : Plan) (c : Ref) (ins : List Item)
    (h : sel (F := F) d cfg inp c = .ok ins) :
    sel (F := F) d cfg (.merge inp child) c =
      (ins.mapM (fun it => sel (F := F) d cfg child it.r)).map (fun parts => plain (parts.flatten.map (·.r))) := by
  simp only [sel, h, bind, Except.bind]
  cases ins.mapM (fun it => sel (F := F) d cfg child it.r) <;> rfl

/-- a parenthesised path numbers its nodes 1, 2, … over the whole sequence (`groupQuery.posit`) -/
theorem group_positions_global (d : Doc) (cfg : ECfg) (inp : Plan) (c : Ref) (ins : List Item)
    (h : sel (F := F) d cfg inp c = .ok ins) :
    sel (F := F) d cfg (.group inp) c = .ok ((ins.map (·.r)).zipIdx.map (fun (r, i) => ⟨r, i + 1, 0⟩)) := by
  simp [sel, h, bind, Except.bind, numbered]

/-! ## Positions are XPath proximity positions -/

/-- **proximity position**: in a child step over a flat input, the position counter a predicate
reads for a node is 1 + the number of earlier candidates *of the same parent* — the XPath proximity
position for the (forward) child axis, restarting for every parent -/
theorem child_pos_is_proximity {d : Doc} (wf : WF d) (cfg : ECfg) (a : AxisInfo) {p : Plan} (hp : FlatPlan p)
    (c : Ref) (l : List Item) (h : sel (F := F) d cfg (.child a p) c = .ok l)
    (A B : List Item) (x : Item) (hl : l = A ++ x :: B) :
    x.pos = 1 + (A.filter (fun y => Spec.parent? d y.r == Spec.parent? d x.r)).length :=
  XPathV.child_pos_is_proximity wf cfg a hp c l h A B x hl

/-- **`t[n]`**: a numeric literal predicate on a child step keeps exactly the n-th matching child
(in document order) of the context node, and this is what the specification's `filterPos` keeps -/
theorem nth_child {d : Doc} (wf : WF d) (cfg : ECfg) (a : AxisInfo) (lex : String) (c : Ref)
    (n : Nat) (hn1 : 1 ≤ n) (hn : toInt (Spec.strToNum lex : F) = some (n : Int))
    (hx : ∀ m, 1 ≤ m → (NumAlg.eq (Spec.strToNum lex : F) (ofNat m) = true ↔ m = n)) :
    ∃ keep, Spec.filterPos (F := F) (childCands d cfg a c) (Spec.eval d (.num lex)) = .ok keep ∧
      (sel (F := F) d cfg (.filter (.child a .context) (.constNum lex)) c).map (fun l => l.map (·.r)) = .ok keep ∧
      keep = ((childCands d cfg a c)[n - 1]?).toList :=
  XPathV.nth_child_agrees wf cfg a lex c n hn1 hn hx

end XPathV.Theorems.C03
