import XPathV.Model.Api
/-! # Property C16 — theorems (placeholder header; filled in below) -/
namespace XPathV.Theorems.C16
end XPathV.Theorems.C16
