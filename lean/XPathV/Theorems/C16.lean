import XPathV.Lemmas.CacheProofs
import XPathV.Lemmas.Facts
/-!
# C16 — the pattern cache is exact, bounded, does not remember failed loads, for every schedule

The model `XPathV.Model.Cache` splits `loadingCache.get` into the atomic sections its locks
delimit; `Generated.evictCond` is re-translated from `cache.go` on every run.  The regex part of
the property (matches/replace = Go regexp) has no Lean content: Go's `regexp` is the oracle and is
compared directly by the harness (kind `regex`).
-/
namespace XPathV.Theorems.C16
open XPathV.Model.Cache XPathV

/-- initial system: empty cache, any list of pending `get`s (one thread each) -/
def initSys (keys : List Key) : Sys := { c := { m := [], resets := 0 }, ts := keys.map .start }

theorem init_inv (cap : Nat) (load : Key → Option Val) (keys : List Key) : Inv cap load (initSys keys) := by
  refine ⟨by simp [initSys], by simp [initSys], ?_⟩
  intro pc h
  simp only [initSys, List.mem_map] at h
  obtain ⟨k, _, rfl⟩ := h
  trivial

/-- **exactness**: in every state reachable under any interleaving of any number of concurrent
`get`s, every stored entry is `(k, load k)` -/
theorem cache_exact (cap : Nat) (load : Key → Option Val) (keys : List Key) (sched : List Nat) :
    ∀ kv ∈ (run cap load (initSys keys) sched).c.m, load kv.1 = some kv.2 :=
  (run_inv cap load _ sched (init_inv cap load keys)).1

/-- **boundedness**: with a positive capacity the cache never holds more than `cap` entries
(this is the `>=` boundary of `evictCond`: with `>` the proof of `store_len` fails) -/
theorem cache_bounded (cap : Nat) (load : Key → Option Val) (keys : List Key) (sched : List Nat) (h : cap > 0) :
    (run cap load (initSys keys) sched).c.m.length ≤ cap :=
  (run_inv cap load _ sched (init_inv cap load keys)).2.1 h

/-- every value a finished `get` returned is a genuine `load` result -/
theorem cache_returns_loaded (cap : Nat) (load : Key → Option Val) (keys : List Key) (sched : List Nat) :
    ∀ v, PC.done (some v) ∈ (run cap load (initSys keys) sched).ts → ∃ k, load k = some v := by
  intro v hv
  have := (run_inv cap load _ sched (init_inv cap load keys)).2.2 _ hv
  exact this v rfl

/-- failed loads are not remembered (sequential form) -/
theorem cache_no_error_memo (cap : Nat) (load : Key → Option Val) (c : Cache) (k : Key)
    (hmiss : c.lookup k = none) (hfail : load k = none) : get cap load c k = (c, none) :=
  failed_load_not_stored cap load c k hmiss hfail

theorem cache_hit (cap : Nat) (load : Key → Option Val) (c : Cache) (k : Key) (v : Val)
    (h : c.lookup k = some v) : get cap load c k = (c, some v) := hit_returns_stored cap load c k v h

theorem cache_miss_loads (cap : Nat) (load : Key → Option Val) (c : Cache) (k : Key) (v : Val)
    (hmiss : c.lookup k = none) (hl : load k = some v) : (get cap load c k).2 = some v :=
  miss_returns_load cap load c k v hmiss hl

theorem cache_unbounded_when_zero (c : Cache) (k : Key) (v : Val) : (c.store 0 k v).resets = c.resets :=
  unbounded_when_zero c k v

/-- T0 (F11): the statement skeleton and the lock pairing of `get` are the modelled ones -/
theorem get_skeleton_ok :
    Generated.evictCondKnown = true ∧
    Generated.getSkeleton = ["RLock", "lookup", "RUnlock", "if-found-return", "load", "if-err-return-nil-err", "Lock", "if-evict", "Unlock", "return-v-nil"] ∧
    Generated.evictThen = ["m=fresh{key:v}", "reset++"] ∧ Generated.evictElse = ["m[key]=v"] ∧
    Generated.newCacheRejectsNegative = true ∧
    Facts.lockedOk Generated.lockedWrites = true := by decide

/-- the regenerated condition is `cap > 0 ∧ len ≥ cap` for all arguments -/
theorem evict_cond_ok (cap len : Nat) : Generated.evictCond cap len = true ↔ (cap > 0 ∧ len ≥ cap) :=
  evictCond_spec cap len

/-- non-vacuity: a concrete schedule with two threads racing on one key, a failing key and an eviction -/
example : (run 2 (fun k => if k == "f" then none else some ("V" ++ k))
    (initSys ["a", "a", "f", "b", "c"]) [0, 1, 0, 1, 2, 3, 4, 3, 4]).c.m.length ≤ 2 := by decide

end XPathV.Theorems.C16
