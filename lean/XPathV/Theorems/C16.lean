import XPathV.Lemmas.CacheProofs
import XPathV.Lemmas.Facts
import XPathV.Generated.ExtraFacts
import XPathV.Lemmas.TemplateSem
import XPathV.Lemmas.RegexPrecheck
/-!
# C16 — the pattern cache is exact, bounded, does not remember failed loads, for every schedule

The model `XPathV.Model.Cache` splits `loadingCache.get` into the atomic sections its locks
delimit; `Generated.evictCond` is re-translated from `cache.go` on every run.  The matcher of Go's
`regexp` is a parameter (compared directly by the harness, kind `regex`); what the package itself
contributes to `replace()` — rewriting the XPath replacement string for `Regexp.Expand` — is modelled in
`Model/Template.lean` together with Go's `expand`/`extract`, specified in `Spec/Template.lean`
("ReplaceAllString with `$n` read as group n") and proved equal for every template below; the
correspondence kind `tmpl` runs all three on the same templates.
-/
namespace XPathV.Theorems.C16
open XPathV.Model.Cache XPathV

/-- initial system: empty cache, any list of pending `get`s (one thread each) -/
def initSys (keys : List Key) : Sys := { c := { m := [], resets := 0 }, ts := keys.map .start }

theorem init_inv (cap : Nat) (load : Key → Option Val) (keys : List Key) : Inv cap load (initSys keys) := by
  refine ⟨by simp [initSys], by simp [initSys], ?_⟩
  intro pc h
  simp only [initSys, List.mem_map] at h
  obtain ⟨k, _, rfl⟩ := h
  trivial

/-- **exactness**: in every state reachable under any interleaving of any number of concurrent
`get`s, every stored entry is `(k, load k)` -/
theorem cache_exact (cap : Nat) (load : Key → Option Val) (keys : List Key) (sched : List Nat) :
    ∀ kv ∈ (run cap load (initSys keys) sched).c.m, load kv.1 = some kv.2 :=
  (run_inv cap load _ sched (init_inv cap load keys)).1

/-- **boundedness**: with a positive capacity the cache never holds more than `cap` entries
(this is the `>=` boundary of `evictCond`: with `>` the proof of `store_len` fails) -/
theorem cache_bounded (cap : Nat) (load : Key → Option Val) (keys : List Key) (sched : List Nat) (h : cap > 0) :
    (run cap load (initSys keys) sched).c.m.length ≤ cap :=
  (run_inv cap load _ sched (init_inv cap load keys)).2.1 h

/-- every value a finished `get` returned is a genuine `load` result -/
theorem cache_returns_loaded (cap : Nat) (load : Key → Option Val) (keys : List Key) (sched : List Nat) :
    ∀ v, PC.done (some v) ∈ (run cap load (initSys keys) sched).ts → ∃ k, load k = some v := by
  intro v hv
  have := (run_inv cap load _ sched (init_inv cap load keys)).2.2 _ hv
  exact this v rfl

/-- failed loads are not remembered (sequential form) -/
theorem cache_no_error_memo (cap : Nat) (load : Key → Option Val) (c : Cache) (k : Key)
    (hmiss : c.lookup k = none) (hfail : load k = none) : get cap load c k = (c, none) :=
  failed_load_not_stored cap load c k hmiss hfail

theorem cache_hit (cap : Nat) (load : Key → Option Val) (c : Cache) (k : Key) (v : Val)
    (h : c.lookup k = some v) : get cap load c k = (c, some v) := hit_returns_stored cap load c k v h

theorem cache_miss_loads (cap : Nat) (load : Key → Option Val) (c : Cache) (k : Key) (v : Val)
    (hmiss : c.lookup k = none) (hl : load k = some v) : (get cap load c k).2 = some v :=
  miss_returns_load cap load c k v hmiss hl

theorem cache_unbounded_when_zero (c : Cache) (k : Key) (v : Val) : (c.store 0 k v).resets = c.resets :=
  unbounded_when_zero c k v

/-- T0 (F11): the statement skeleton and the lock pairing of `get` are the modelled ones -/
theorem get_skeleton_ok :
    Generated.evictCondKnown = true ∧
    Generated.getSkeleton = ["RLock", "lookup", "RUnlock", "if-found-return", "load", "if-err-return-nil-err", "Lock", "if-evict", "Unlock", "return-v-nil"] ∧
    Generated.evictThen = ["m=fresh{key:v}", "reset++"] ∧ Generated.evictElse = ["m[key]=v"] ∧
    Generated.newCacheRejectsNegative = true ∧
    Facts.lockedOk Generated.lockedWrites = true := by decide

/-- the regenerated condition is `cap > 0 ∧ len ≥ cap` for all arguments -/
theorem evict_cond_ok (cap len : Nat) : Generated.evictCond cap len = true ↔ (cap > 0 ∧ len ≥ cap) :=
  evictCond_spec cap len

/-- non-vacuity: a concrete schedule with two threads racing on one key, a failing key and an eviction -/
example : (run 2 (fun k => if k == "f" then none else some ("V" ++ k))
    (initSys ["a", "a", "f", "b", "c"]) [0, 1, 0, 1, 2, 3, 4, 3, 4]).c.m.length ≤ 2 := by decide

/-! ## `replace()`: the replacement string -/
section Template
open XPathV.Model.Template XPathV.Spec.Template XPathV.Lemmas.TemplateSem

/-- **`replace(s, p, r)` substitutes, for each match, what "ReplaceAllString with `$n` read as group n" says**:
for every replacement string `r`, every match (`g`: the texts and names of its groups) and every number of groups
below Go's own limit, expanding (Go's `Regexp.expand`, transcribed) the template the package writes
(`func.go: xpathReplacement`) equals the specification's direct reading of `r` — `$$` a literal dollar, `$n` the
group named by the longest prefix of the digits that is an existing group, the rest Go's template syntax -/
theorem C16_replace_template (g : Groups) (groups : Nat) (hk : groups < 100000000) (r : List Char) :
    replaceOne g groups r = replaceOneSpec g groups r :=
  replace_template_spec g groups hk r

/-- a replacement string without `$` is inserted as it is -/
theorem C16_replace_literal (g : Groups) (groups : Nat) (r : List Char) (h : '$' ∉ r) : replaceOne g groups r = r :=
  replaceOne_noDollar g groups r h

/-- `$n` followed by something that cannot extend the group number (a letter, say: `$1x`, which Go alone would
read as a group *named* `1x`) is the text of group `n` -/
theorem C16_replace_group_ref (g : Groups) (k : Nat) (hk : k < 100000000) (n : Nat) (h1 : 1 ≤ n) (hn : n ≤ k)
    (rest : List Char)
    (hrest : ∀ d rest', rest = d :: rest' → isDigitCh d = true → k < 10 * n + digitVal d) :
    replaceOne g k ('$' :: digitsOf n ++ rest) = (g.texts.getD n none).getD [] ++ replaceOne g k rest :=
  replaceOne_ref g k hk n h1 hn rest hrest

/-- `$$` is a literal dollar, also in front of a digit (the defect repaired by a3d5186: `$$1` gave `${1}`) -/
theorem C16_replace_dollar_dollar (g : Groups) (k : Nat) (rest : List Char) :
    replaceOne g k ('$' :: '$' :: rest) = '$' :: replaceOne g k rest :=
  replaceOne_dd g k rest

/-- the fuel in the definitions is only a device: beyond the length of the template it changes nothing -/
theorem C16_template_fuel (g : Groups) (groups : Nat) (t : List Char) (f : Nat) (h : t.length < f) :
    rewrite groups f t = rewrite groups (t.length + 1) t ∧ expandGo g f t = expandGo g (t.length + 1) t ∧
    expandSpec g groups f t = expandSpec g groups (t.length + 1) t :=
  ⟨rewrite_fuel groups h, expandGo_fuel g h, expandSpec_fuel g groups h⟩

end Template

/-- **a constant pattern that does not compile is rejected by Compile** (`build.go: processFunction, case "matches"`):
whatever the first argument, the flags, the depth and the builder configuration, `matches(x, 'p')` with a literal
pattern the regexp compiler (`regexOk`, a parameter) rejects is never built -/
theorem C16_constant_bad_pattern_rejected (rx : Model.RegexOk) (lim : Nat) (a b : Bool) (pfx : String) (x : Ast)
    (p : String) (fl : Model.Flags) (st : Model.BState) (hbad : rx p = false) (o : Model.BOut) :
    Model.build rx lim a b (.call "matches" pfx (.acons x (.acons (.str p) .anil))) fl st ≠ .ok o :=
  Lemmas.RegexPrecheck.matches_bad_constant_rejected rx lim a b pfx x p fl st hbad o

/-- T0: `replace()` hands Go's `ReplaceAllString` the replacement string rewritten by `xpathReplacement` with the
pattern's own group count — the composition the template theorems are about (`replaceOne`) -/
theorem replace_uses_rewritten_template :
    Generated.replaceResultSrc = "e.ReplaceAllString(str,xpathReplacement(dst,e.NumSubexp()))" := by decide

end XPathV.Theorems.C16
