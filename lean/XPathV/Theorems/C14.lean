import XPathV.Model.Api
import XPathV.Lemmas.Facts
import XPathV.Lemmas.NameSem
/-!
# C14 — name tests, namespaces and name functions identify nodes as documented
-/
namespace XPathV.Theorems.C14
open XPathV XPathV.Model XPathV.Facts NumAlg

/-- without a namespace map a prefixed or unprefixed name test matches exactly the nodes of the
principal type whose prefix and local name are equal to the test's -/
theorem nametest_noNS (d : Doc) (cfg : ECfg) (a : AxisInfo) (r : Ref) (hn : a.hasNS = false) (hl : a.lname ≠ "") :
    nodeTestM d cfg a r = ((a.typeTest == nodeType d r || a.typeTest == .all) &&
      (a.lname == localName d r && a.pfx == prefixOf d r)) := by
  have hl' : (a.lname == "") = false := by simpa using hl
  simp [nodeTestM, hn, hl, hl']

/-- an unprefixed test matches only unprefixed nodes -/
theorem unprefixed_matches_unprefixed (d : Doc) (cfg : ECfg) (a : AxisInfo) (r : Ref) (hn : a.hasNS = false)
    (hl : a.lname ≠ "") (hp : a.pfx = "") (h : nodeTestM d cfg a r = true) : prefixOf d r = "" := by
  rw [nametest_noNS d cfg a r hn hl] at h
  simp only [Bool.and_eq_true, beq_iff_eq] at h
  rw [← h.2.2, hp]

/-- with a binding for the prefix (CompileWithNS) and a navigator exposing URIs, a prefixed test
matches by (namespace URI, local name), whatever prefix the document uses -/
theorem nametest_NS (d : Doc) (cfg : ECfg) (a : AxisInfo) (r : Ref) (hn : a.hasNS = true) (hi : cfg.nsIface = true)
    (hl : a.lname ≠ "") :
    nodeTestM d cfg a r = ((a.typeTest == nodeType d r || a.typeTest == .all) &&
      (a.lname == localName d r && a.nsURI == nsURL d r)) := by
  have hl' : (a.lname == "") = false := by simpa using hl
  simp [nodeTestM, hn, hi, hl, hl']

/-- the model's node test is the specification's (§2.3) when the navigator exposes URIs -/
theorem nodeTest_spec (d : Doc) (cfg : ECfg) (a : AxisInfo) (r : Ref) (hi : cfg.nsIface = true) (hl : a.lname ≠ "") :
    nodeTestM d cfg a r = Spec.nodeTest d a r := by
  unfold nodeTestM Spec.nodeTest
  simp only [hi, hl, ne_eq, not_false_eq_true, bne_iff_ne, true_or, ↓reduceIte, Bool.true_and]
  rw [Bool.or_comm]
  cases a.hasNS <;> simp

/-- an unbound prefix under a namespace map is a compile error -/
theorem unbound_prefix_error (cfg : PCfg) (m : List (String × String)) (inp : Ast) (axis : String) (mt : NType) (st st1 : PState)
    (hns : cfg.ns = some m) (ht : st.s.typ = .name) (hnf : (st.s.canBeFunc && isNodeType st.s) = false)
    (hp : st.s.pfx ≠ "") (hl : m.lookup st.s.pfx = none) (hnext : st.next = .ok st1) :
    parseNodeTest cfg inp axis mt st = .error .prefixUndefined := by
  simp [parseNodeTest, ht, hnf, hnext, hns, hl, hp, bind, Except.bind]

variable {F : Type} [NumAlg F]

/-- `local-name()` / `name()` without argument report the context node -/
theorem local_name_context (d : Doc) (cfg : ECfg) (c : Ref) :
    callFn (F := F) d cfg "local-name" .nil c [] none = .ok (.str (localName d c)) := by
  simp [callFn]

theorem name_context (d : Doc) (cfg : ECfg) (c : Ref) :
    callFn (F := F) d cfg "name" .nil c [] none =
      .ok (.str (if prefixOf d c == "" then localName d c else prefixOf d c ++ ":" ++ localName d c)) := by
  simp [callFn]

/-- with a node-set argument they report its first node, and "" for the empty set -/
theorem namespace_uri_first (d : Doc) (cfg : ECfg) (c r : Ref) (rest : List Ref) (hi : cfg.nsIface = true)
    (a : List (Except EErr (MVal F))) :
    callFn (F := F) d cfg "namespace-uri" .nil c a (some (r :: rest)) = .ok (.str (nsURL d r)) := by
  simp [callFn, hi]

theorem name_fn_empty (d : Doc) (cfg : ECfg) (c : Ref) (a : List (Except EErr (MVal F))) :
    callFn (F := F) d cfg "name" .nil c a (some []) = .ok (.str "") := by
  simp [callFn]

/-- **`prefix:*`** (XPath's `NCName:*`): every node of the principal type in the namespace of the
prefix, whatever its local name — the URI bound to the prefix under a map (and a navigator exposing
URIs), the same prefix otherwise.  (On the pinned tree `axisPredicate` compared the empty local name
the parser records for `*`, so `p:*` matched nothing; repaired by a `fix:` commit.) -/
theorem nametest_prefix_wildcard (d : Doc) (cfg : ECfg) (axis : String) (mt : NType)
    (pfx prop uri : String) (hn : Bool) (hmt : mt ≠ .all) (hp : pfx ≠ "") (x : Ref) :
    nodeTestM d cfg ⟨axis, mt, pfx, "", prop, hn, uri⟩ x = true ↔
      (nodeType d x = mt ∧ (if (cfg.nsIface && hn) = true then nsURL d x = uri else prefixOf d x = pfx)) :=
  NameSem.test_prefix_wildcard d cfg axis mt pfx prop uri hn hmt hp x

open XPathV.PathSem XPathV.NameSem in
/-- **what the parser records for a name test** (`parseNodeTest`): no map — prefix and local name
as scanned; a map binding the prefix — the bound URI; an unprefixed name — never bound; an unbound
prefix — the compile error -/
theorem C14_parser_records (cfg : PCfg) (inp : Ast) (axis : String) (mt : NType) (st st1 : PState)
    (ht : st.s.typ = .name) (hnf : (st.s.canBeFunc && isNodeType st.s) = false)
    (hnext : st.next = .ok st1) :
    parseNodeTest cfg inp axis mt st =
      match nameInfo cfg.ns axis mt st.s.pfx (scannedLocal st) with
      | some a => .ok (.axis a inp, st1)
      | none => .error .prefixUndefined :=
  parseNodeTest_name_spec cfg inp axis mt st st1 ht hnf hnext

open XPathV.PathSem XPathV.NameSem in
/-- **one step on each of the twelve axes, no namespace map**: exactly the nodes on the axis of the
principal node type whose prefix *and* local name are those of the test (an unprefixed test
therefore matches only unprefixed nodes) -/
theorem C14_step_without_map {d : Doc} (wf : WF d) (cfg : ECfg) (hinj : HashInj d cfg)
    (axis : String) (ha : axis ∈ axes12) (mt : NType) (hmt : mt ≠ .all)
    (pfx lname : String) (hl : lname ≠ "") (c : Ref) (hc : validRef d c = true) :
    ∃ out, sel (F := F) d cfg (stepPlan ⟨axis, mt, pfx, lname, "", false, ""⟩ .context) c = .ok out ∧
      ∀ x, x ∈ refs out ↔
        (x ∈ (Spec.axisNodes d axis c).getD [] ∧
          nodeType d x = mt ∧ prefixOf d x = pfx ∧ localName d x = lname) :=
  step_noNS wf cfg hinj axis ha mt hmt pfx lname hl c hc

open XPathV.PathSem XPathV.NameSem in
/-- `C14_step_without_map` without the `HashInj` hypothesis (it is a theorem now: `hashInj_holds`; the side
condition left is "no element has two attributes with the same prefix, name and value") -/
theorem C14_step_without_map_unconditional {d : Doc} (wf : WF d) (cfg : ECfg) (hattr : AttrTriplesDistinct d)
    (axis : String) (ha : axis ∈ axes12) (mt : NType) (hmt : mt ≠ .all)
    (pfx lname : String) (hl : lname ≠ "") (c : Ref) (hc : validRef d c = true) :
    ∃ out, sel (F := F) d cfg (stepPlan ⟨axis, mt, pfx, lname, "", false, ""⟩ .context) c = .ok out ∧
      ∀ x, x ∈ refs out ↔
        (x ∈ (Spec.axisNodes d axis c).getD [] ∧
          nodeType d x = mt ∧ prefixOf d x = pfx ∧ localName d x = lname) :=
  C14_step_without_map wf cfg (PathSem.hashInj_holds wf hattr cfg) axis ha mt hmt pfx lname hl c hc

open XPathV.PathSem XPathV.NameSem in
/-- **… with a map binding the prefix** (`CompileWithNS`, navigator exposing URIs): by (bound URI,
local name); the prefix used in the document does not occur in the statement -/
theorem C14_step_with_map {d : Doc} (wf : WF d) (cfg : ECfg) (hinj : HashInj d cfg) (hi : cfg.nsIface = true)
    (axis : String) (ha : axis ∈ axes12) (mt : NType) (hmt : mt ≠ .all)
    (pfx lname uri : String) (hl : lname ≠ "") (c : Ref) (hc : validRef d c = true) :
    ∃ out, sel (F := F) d cfg (stepPlan ⟨axis, mt, pfx, lname, "", true, uri⟩ .context) c = .ok out ∧
      ∀ x, x ∈ refs out ↔
        (x ∈ (Spec.axisNodes d axis c).getD [] ∧
          nodeType d x = mt ∧ nsURL d x = uri ∧ localName d x = lname) :=
  step_NS wf cfg hinj hi axis ha mt hmt pfx lname uri hl c hc

open XPathV.PathSem XPathV.NameSem in
/-- `C14_step_with_map` without the `HashInj` hypothesis (it is a theorem now: `hashInj_holds`; the side
condition left is "no element has two attributes with the same prefix, name and value") -/
theorem C14_step_with_map_unconditional {d : Doc} (wf : WF d) (cfg : ECfg) (hattr : AttrTriplesDistinct d) (hi : cfg.nsIface = true)
    (axis : String) (ha : axis ∈ axes12) (mt : NType) (hmt : mt ≠ .all)
    (pfx lname uri : String) (hl : lname ≠ "") (c : Ref) (hc : validRef d c = true) :
    ∃ out, sel (F := F) d cfg (stepPlan ⟨axis, mt, pfx, lname, "", true, uri⟩ .context) c = .ok out ∧
      ∀ x, x ∈ refs out ↔
        (x ∈ (Spec.axisNodes d axis c).getD [] ∧
          nodeType d x = mt ∧ nsURL d x = uri ∧ localName d x = lname) :=
  C14_step_with_map wf cfg (PathSem.hashInj_holds wf hattr cfg) hi axis ha mt hmt pfx lname uri hl c
    hc

open XPathV.PathSem XPathV.NameSem in
/-- **… with a map but a navigator without `NamespaceURL()`**: the binding is ignored and the test
compares (prefix as written, local name) with the document's prefixes — the third branch -/
theorem C14_step_with_map_no_uri_interface {d : Doc} (wf : WF d) (cfg : ECfg) (hinj : HashInj d cfg)
    (hi : cfg.nsIface = false) (axis : String) (ha : axis ∈ axes12) (mt : NType)
    (hmt : mt ≠ .all) (pfx lname uri : String) (hl : lname ≠ "") (c : Ref) (hc : validRef d c = true) :
    ∃ out, sel (F := F) d cfg (stepPlan ⟨axis, mt, pfx, lname, "", true, uri⟩ .context) c = .ok out ∧
      ∀ x, x ∈ refs out ↔
        (x ∈ (Spec.axisNodes d axis c).getD [] ∧
          nodeType d x = mt ∧ prefixOf d x = pfx ∧ localName d x = lname) :=
  step_NS_noIface wf cfg hinj hi axis ha mt hmt pfx lname uri hl c hc

open XPathV.PathSem XPathV.NameSem in
/-- `C14_step_with_map_no_uri_interface` without the `HashInj` hypothesis (it is a theorem now: `hashInj_holds`; the side
condition left is "no element has two attributes with the same prefix, name and value") -/
theorem C14_step_with_map_no_uri_interface_unconditional {d : Doc} (wf : WF d) (cfg : ECfg) (hattr : AttrTriplesDistinct d)
    (hi : cfg.nsIface = false) (axis : String) (ha : axis ∈ axes12) (mt : NType)
    (hmt : mt ≠ .all) (pfx lname uri : String) (hl : lname ≠ "") (c : Ref) (hc : validRef d c = true) :
    ∃ out, sel (F := F) d cfg (stepPlan ⟨axis, mt, pfx, lname, "", true, uri⟩ .context) c = .ok out ∧
      ∀ x, x ∈ refs out ↔
        (x ∈ (Spec.axisNodes d axis c).getD [] ∧
          nodeType d x = mt ∧ prefixOf d x = pfx ∧ localName d x = lname) :=
  C14_step_with_map_no_uri_interface wf cfg (PathSem.hashInj_holds wf hattr cfg) hi axis ha mt hmt
    pfx lname uri hl c hc

open XPathV.PathSem XPathV.NameSem in
/-- **C14 (main theorem, whole paths, through the builder)**: for every predicate-free path whose
steps are name tests as the parser records them under the map `ns` (any of the twelve axes), the
built plan selects exactly the oracle's node set, which is the denotation by (principal type, local
name, bound URI or prefix) -/
theorem C14_main {d : Doc} (wf : WF d) (cfg : ECfg) (hns : cfg.nsIface = true)
    (hinj : HashInj d cfg) (regexOk : RegexOk) (limit : Nat) (sdf : Bool)
    (ns : Option (List (String × String))) (p : Ast) (hp : NamePath ns p)
    (st : BState) (o : BOut) (hb : build regexOk limit true sdf p {} st = .ok o)
    (c : Ref) (hc : validRef d c = true) :
    ∃ out nodes g, sel (F := F) d cfg o.q c = .ok out ∧
      Spec.eval (F := F) d p ⟨c, 1, 1⟩ = .ok (.val (.nodes nodes) g) ∧
      (∀ x, x ∈ refs out ↔ x ∈ nodes) ∧ (∀ x, x ∈ refs out ↔ nameDen d p c x) :=
  NameSem.C14_main wf cfg hns hinj regexOk limit sdf ns p hp st o hb c hc

open XPathV.PathSem XPathV.NameSem in
/-- `C14_main` without the `HashInj` hypothesis (it is a theorem now: `hashInj_holds`; the side
condition left is "no element has two attributes with the same prefix, name and value") -/
theorem C14_main_unconditional {d : Doc} (wf : WF d) (cfg : ECfg) (hns : cfg.nsIface = true)
    (hattr : AttrTriplesDistinct d) (regexOk : RegexOk) (limit : Nat) (sdf : Bool)
    (ns : Option (List (String × String))) (p : Ast) (hp : NamePath ns p)
    (st : BState) (o : BOut) (hb : build regexOk limit true sdf p {} st = .ok o)
    (c : Ref) (hc : validRef d c = true) :
    ∃ out nodes g, sel (F := F) d cfg o.q c = .ok out ∧
      Spec.eval (F := F) d p ⟨c, 1, 1⟩ = .ok (.val (.nodes nodes) g) ∧
      (∀ x, x ∈ refs out ↔ x ∈ nodes) ∧ (∀ x, x ∈ refs out ↔ nameDen d p c x) :=
  C14_main wf cfg hns (PathSem.hashInj_holds wf hattr cfg) regexOk limit sdf ns p hp st o hb c hc

open XPathV.PathSem XPathV.NameSem in
/-- **regardless of the prefix used in the document**: two documents with the same shape, local
names and namespace URIs (prefixes arbitrary) give the same node set for every path of bound name
tests -/
theorem C14_document_prefixes_irrelevant {d₁ d₂ : Doc} (wf₁ : WF d₁) (hs : SameNames d₁ d₂) (cfg : ECfg)
    (hi : cfg.nsIface = true) (hinj₁ : HashInj d₁ cfg) (hinj₂ : HashInj d₂ cfg)
    (regexOk : RegexOk) (limit : Nat) (sdf : Bool)
    (ns : Option (List (String × String))) (p : Ast) (hp : NamePath ns p) (hb : AllBound p)
    (st : BState) (o : BOut) (hbd : build regexOk limit true sdf p {} st = .ok o)
    (c : Ref) (hc : validRef d₁ c = true) :
    ∃ out₁ out₂, sel (F := F) d₁ cfg o.q c = .ok out₁ ∧ sel (F := F) d₂ cfg o.q c = .ok out₂ ∧
      ∀ x, x ∈ refs out₁ ↔ x ∈ refs out₂ :=
  prefix_irrelevant_path wf₁ hs cfg hi hinj₁ hinj₂ regexOk limit sdf ns p hp hb st o hbd c hc

open XPathV.PathSem XPathV.NameSem in
/-- `C14_document_prefixes_irrelevant` without the `HashInj` hypotheses (they are theorems now:
`hashInj_holds`; the side condition left, for each document, is "no element has two attributes with
the same prefix, name and value"; the second document is well-formed because it has the shape of the
first) -/
theorem C14_document_prefixes_irrelevant_unconditional {d₁ d₂ : Doc} (wf₁ : WF d₁) (hs : SameNames d₁ d₂)
    (cfg : ECfg) (hi : cfg.nsIface = true)
    (hattr₁ : AttrTriplesDistinct d₁) (hattr₂ : AttrTriplesDistinct d₂)
    (regexOk : RegexOk) (limit : Nat) (sdf : Bool)
    (ns : Option (List (String × String))) (p : Ast) (hp : NamePath ns p) (hb : AllBound p)
    (st : BState) (o : BOut) (hbd : build regexOk limit true sdf p {} st = .ok o)
    (c : Ref) (hc : validRef d₁ c = true) :
    ∃ out₁ out₂, sel (F := F) d₁ cfg o.q c = .ok out₁ ∧ sel (F := F) d₂ cfg o.q c = .ok out₂ ∧
      ∀ x, x ∈ refs out₁ ↔ x ∈ refs out₂ :=
  C14_document_prefixes_irrelevant wf₁ hs cfg hi (PathSem.hashInj_holds wf₁ hattr₁ cfg)
    (PathSem.hashInj_holds (hs.toSameShape.wf wf₁) hattr₂ cfg) regexOk limit sdf ns p hp hb st o hbd c hc

open XPathV.NameSem in
/-- **an unbound prefix is a compile error**, from the expression text (`prefix:name` as the whole
expression; `@…` and `axis::…` variants in `Lemmas/NameSem.lean`) -/
theorem C14_unbound_prefix_from_text (cc : CompileCfg) (m : List (String × String)) (text : List Char)
    (s s1 : Scan) (hinit : Scan.init text = .ok s) (ht : s.typ = .name) (hcf : s.canBeFunc = false)
    (hnext : s.nextItem = .ok s1) (he : s1.typ = .eof)
    (hp : s.pfx ≠ "") (hl : m.lookup s.pfx = none) :
    compile cc (some m) text = .error (.parse .prefixUndefined) :=
  compile_unbound_prefix cc m text s s1 hinit ht hcf hnext he hp hl

open XPathV.NameSem in
/-- **name functions with no argument, through the builder**: `name()`, `local-name()`,
`namespace-uri()` evaluate to the qualified name / local name / namespace URI of the context node,
which is the oracle's value -/
theorem C14_name_functions_no_argument (d : Doc) (cfg : ECfg) (hi : cfg.nsIface = true) (regexOk : RegexOk)
    (limit : Nat) (snt sdf : Bool) (nm pfx : String) (hnm : nm ∈ nameFns) (fl : Flags) (st : BState) (o : BOut)
    (hb : build regexOk limit snt sdf (.call nm pfx .anil) fl st = .ok o) (c : Ref) (i n : Nat) :
    evalP (F := F) d cfg o.q c = .ok (.str (specName d nm c)) ∧
      Spec.eval (F := F) d (.call nm pfx .anil) ⟨c, i, n⟩ = .ok (.val (.str (specName d nm c)) none) :=
  name0_sem d cfg hi regexOk limit snt sdf nm pfx hnm fl st o hb c i n

open XPathV.PathSem XPathV.NameSem in
/-- **name functions with a node-set argument** (a flat path: child/attribute/self steps): the name
of the first node of the argument in document order, `""` for the empty set — engine = oracle -/
theorem C14_name_functions_nodeset_argument {d : Doc} (wf : WF d) (cfg : ECfg) (hi : cfg.nsIface = true)
    (hinj : HashInj d cfg) (regexOk : RegexOk) (limit : Nat) (sdf : Bool) (nm pfx : String)
    (hnm : nm ∈ nameFns) (p : Ast) (hp : ArithSem.FlatPath p) (fl : Flags) (st : BState) (o : BOut)
    (hb : build regexOk limit true sdf (.call nm pfx (.acons p .anil)) fl st = .ok o)
    (c : Ref) (hc : validRef d c = true) (i n : Nat) :
    ∃ (ns : List Ref) (g : Option (List (List Ref))),
      Spec.eval (F := F) d p ⟨c, 1, 1⟩ = .ok (.val (.nodes ns) g) ∧
      ns.Pairwise (fun a b => Ref.lt a b = true) ∧
      evalP (F := F) d cfg o.q c = .ok (.str (firstOr (specName d nm) ns)) ∧
      Spec.eval (F := F) d (.call nm pfx (.acons p .anil)) ⟨c, i, n⟩ =
        .ok (.val (.str (firstOr (specName d nm) ns)) none) :=
  name1_flat_sem wf cfg hi hinj regexOk limit sdf nm pfx hnm p hp fl st o hb c hc i n

open XPathV.PathSem XPathV.NameSem in
/-- `C14_name_functions_nodeset_argument` without the `HashInj` hypothesis (it is a theorem now: `hashInj_holds`; the side
condition left is "no element has two attributes with the same prefix, name and value") -/
theorem C14_name_functions_nodeset_argument_unconditional {d : Doc} (wf : WF d) (cfg : ECfg) (hi : cfg.nsIface = true)
    (hattr : AttrTriplesDistinct d) (regexOk : RegexOk) (limit : Nat) (sdf : Bool) (nm pfx : String)
    (hnm : nm ∈ nameFns) (p : Ast) (hp : ArithSem.FlatPath p) (fl : Flags) (st : BState) (o : BOut)
    (hb : build regexOk limit true sdf (.call nm pfx (.acons p .anil)) fl st = .ok o)
    (c : Ref) (hc : validRef d c = true) (i n : Nat) :
    ∃ (ns : List Ref) (g : Option (List (List Ref))),
      Spec.eval (F := F) d p ⟨c, 1, 1⟩ = .ok (.val (.nodes ns) g) ∧
      ns.Pairwise (fun a b => Ref.lt a b = true) ∧
      evalP (F := F) d cfg o.q c = .ok (.str (firstOr (specName d nm) ns)) ∧
      Spec.eval (F := F) d (.call nm pfx (.acons p .anil)) ⟨c, i, n⟩ =
        .ok (.val (.str (firstOr (specName d nm) ns)) none) :=
  C14_name_functions_nodeset_argument wf cfg hi (PathSem.hashInj_holds wf hattr cfg) regexOk limit
    sdf nm pfx hnm p hp fl st o hb c hc i n

end XPathV.Theorems.C14
