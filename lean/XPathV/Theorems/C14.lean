import XPathV.Model.Api
import XPathV.Lemmas.Facts
/-!
# C14 — name tests, namespaces and name functions identify nodes as documented
-/
namespace XPathV.Theorems.C14
open XPathV XPathV.Model XPathV.Facts NumAlg

/-- without a namespace map a prefixed or unprefixed name test matches exactly the nodes of the
principal type whose prefix and local name are equal to the test's -/
theorem nametest_noNS (d : Doc) (cfg : ECfg) (a : AxisInfo) (r : Ref) (hn : a.hasNS = false) (hl : a.lname ≠ "") :
    nodeTestM d cfg a r = ((a.typeTest == nodeType d r || a.typeTest == .all) &&
      (a.lname == localName d r && a.pfx == prefixOf d r)) := by
  simp [nodeTestM, hn, hl]

/-- an unprefixed test matches only unprefixed nodes -/
theorem unprefixed_matches_unprefixed (d : Doc) (cfg : ECfg) (a : AxisInfo) (r : Ref) (hn : a.hasNS = false)
    (hl : a.lname ≠ "") (hp : a.pfx = "") (h : nodeTestM d cfg a r = true) : prefixOf d r = "" := by
  rw [nametest_noNS d cfg a r hn hl] at h
  simp only [Bool.and_eq_true, beq_iff_eq] at h
  rw [← h.2.2, hp]

/-- with a binding for the prefix (CompileWithNS) and a navigator exposing URIs, a prefixed test
matches by (namespace URI, local name), whatever prefix the document uses -/
theorem nametest_NS (d : Doc) (cfg : ECfg) (a : AxisInfo) (r : Ref) (hn : a.hasNS = true) (hi : cfg.nsIface = true)
    (hl : a.lname ≠ "") :
    nodeTestM d cfg a r = ((a.typeTest == nodeType d r || a.typeTest == .all) &&
      (a.lname == localName d r && a.nsURI == nsURL d r)) := by
  simp [nodeTestM, hn, hi, hl]

/-- the model's node test is the specification's (§2.3) when the navigator exposes URIs -/
theorem nodeTest_spec (d : Doc) (cfg : ECfg) (a : AxisInfo) (r : Ref) (hi : cfg.nsIface = true) (hl : a.lname ≠ "") :
    nodeTestM d cfg a r = Spec.nodeTest d a r := by
  unfold nodeTestM Spec.nodeTest
  simp only [hi, hl, ne_eq, not_false_eq_true, bne_iff_ne, true_or, ↓reduceIte, Bool.true_and]
  rw [Bool.or_comm]
  cases a.hasNS <;> simp

/-- an unbound prefix under a namespace map is a compile error -/
theorem unbound_prefix_error (cfg : PCfg) (m : List (String × String)) (inp : Ast) (axis : String) (mt : NType) (st st1 : PState)
    (hns : cfg.ns = some m) (ht : st.s.typ = .name) (hnf : (st.s.canBeFunc && isNodeType st.s) = false)
    (hp : st.s.pfx ≠ "") (hl : m.lookup st.s.pfx = none) (hnext : st.next = .ok st1) :
    parseNodeTest cfg inp axis mt st = .error .prefixUndefined := by
  simp [parseNodeTest, ht, hnf, hnext, hns, hl, hp, bind, Except.bind]

variable {F : Type} [NumAlg F]

/-- `local-name()` / `name()` without argument report the context node -/
theorem local_name_context (d : Doc) (cfg : ECfg) (c : Ref) :
    callFn (F := F) d cfg "local-name" .nil c [] none = .ok (.str (localName d c)) := by
  simp [callFn]

theorem name_context (d : Doc) (cfg : ECfg) (c : Ref) :
    callFn (F := F) d cfg "name" .nil c [] none =
      .ok (.str (if prefixOf d c == "" then localName d c else prefixOf d c ++ ":" ++ localName d c)) := by
  simp [callFn]

/-- with a node-set argument they report its first node, and "" for the empty set -/
theorem namespace_uri_first (d : Doc) (cfg : ECfg) (c r : Ref) (rest : List Ref) (hi : cfg.nsIface = true)
    (a : List (Except EErr (MVal F))) :
    callFn (F := F) d cfg "namespace-uri" .nil c a (some (r :: rest)) = .ok (.str (nsURL d r)) := by
  simp [callFn, hi]

theorem name_fn_empty (d : Doc) (cfg : ECfg) (c : Ref) (a : List (Except EErr (MVal F))) :
    callFn (F := F) d cfg "name" .nil c a (some []) = .ok (.str "") := by
  simp [callFn]

end XPathV.Theorems.C14
