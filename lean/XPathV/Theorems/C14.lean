import XPathV.Model.Api
/-! # Property C14 — theorems (placeholder header; filled in below) -/
namespace XPathV.Theorems.C14
end XPathV.Theorems.C14
