import XPathV.Model.Api
/-! # Property C04 — theorems (placeholder header; filled in below) -/
namespace XPathV.Theorems.C04
end XPathV.Theorems.C04
