import XPathV.Lemmas.PullProofs
import XPathV.Lemmas.Pull2Proofs
import XPathV.Model.Api
import XPathV.Lemmas.Facts
import XPathV.Generated.ExtraFacts
import XPathV.Lemmas.Pull2Gen
/-!
# C04 — a compiled expression is a pure function of (document, context node)

In the model an `Expr` *is* its plan: `Select` and `Evaluate` start from the reset state of a
clone, so the outcome of a call cannot depend on earlier calls.  What makes this the model of the
code is structural and is re-read from the source on every run (F7, F15): both entry points clone
the shared query tree before touching it, and every `Clone` copies configuration only.
-/
namespace XPathV.Theorems.C04
open XPathV XPathV.Model XPathV.Facts

/-- T0 (F15): `Expr.Select` and `Expr.Evaluate` both operate on `expr.q.Clone()` -/
theorem api_clones : Generated.selectClones = true ∧ Generated.evaluateClonesBeforeEval = true ∧
    Generated.evaluateIterClones = true := by decide

/-- T0 (F7): every `Clone` builds the expected type, copies every configuration field, copies no
iteration-state field, and clones (never shares) its sub-queries -/
theorem clone_table_ok : Generated.structs.all cloneOk = true := by decide

variable {F : Type} [NumAlg F]

/-- operations on one compiled expression -/
inductive Op
  | select (d : Doc) (c : Ref) (consumed : Nat)   -- iterate `consumed` results, then abandon
  | evaluate (d : Doc) (c : Ref)

/-- outcome of one operation on a plan, as the model computes it from the reset state -/
def outcome (cfg : ECfg) (p : Plan) : Op → Except EErr (MVal F)
  | .select d c n => (selectAll (F := F) d cfg p c).map (fun l => .nodes (l.take n))
  | .evaluate d c => evaluate (F := F) d cfg p c

/-- run a history on a shared expression: since every call clones, the "state" threaded through
the history is the plan itself, unchanged -/
def runHistory (cfg : ECfg) (p : Plan) : List Op → List (Except EErr (MVal F))
  | [] => []
  | op :: rest => outcome (F := F) cfg p op :: runHistory cfg p rest

/-- **history independence**: the last outcome of any history equals the outcome on a fresh
compile of the same text, whatever was evaluated before and however far it was consumed -/
theorem C04_history_independent (cfg : ECfg) (p : Plan) (h : List Op) (op : Op) :
    (runHistory (F := F) cfg p (h ++ [op])).getLast? = some (outcome (F := F) cfg p op) := by
  induction h with
  | nil => simp [runHistory]
  | cons a t ih =>
    simp only [List.cons_append, runHistory]
    cases hrest : runHistory (F := F) cfg p (t ++ [op]) with
    | nil => simp [hrest] at ih
    | cons x xs => rw [hrest] at ih; simpa using ih

/-- **Clone on the pull machine**: a clone is fresh, has the same configuration, does not depend on
the state of the original, is idempotent, and yields the whole sequence -/
theorem clone_is_fresh_and_state_independent (d : Doc) (cfg : ECfg) (cur : Ref) (q : PQ) :
    q.clone.fresh = true ∧ q.clone.plan = q.plan ∧ q.clone.clone = q.clone ∧
    (∀ q2 : PQ, q2.plan = q.plan → q2.clone = q.clone) ∧
    sel (F := F) d cfg q.plan cur = .ok (rem d cfg cur q.clone) :=
  clone_fresh d cfg cur q

/-- **`Clone` on all sixteen iterator types (`Model/Pull2`)**: whatever state the shared query tree
is in, its clone is in reset state, satisfies the machine invariant, and its stream is the whole
sequence of the plan — so every `Select`/`Evaluate` of the public API (which clone first, F15)
starts from scratch.  (`cachedChildQuery.Clone` returns a `childQuery`, as in Go: same sequence.) -/
theorem clone_is_fresh_all_iterators {F : Type} [NumAlg F] (d : Doc) (cfg : ECfg) (dec : Plan → Ref → Bool)
    (q : PQ2) (hdec : q.DecOK (F := F) d cfg dec) (c : Ref) :
    q.clone.evaluate = q.clone ∧ q.clone.Inv d ∧
      sel (F := F) d cfg q.plan c = .ok (rem2 d cfg dec c q.clone) :=
  clone_fresh2 d cfg dec q hdec c

/-- T0: a function evaluates a per-call clone of its argument query (`func.go: functionArgs`); the only dynamic type
used in place is `functionQuery`, which has no iteration state of its own and whose callback clones *its* arguments
when it runs (an exemption of a type that keeps state — `transformFunctionQuery` behind `reverse()`, say — makes
evaluations share that state) -/
theorem function_arguments_cloned_per_call :
    Generated.functionArgsExempt = ["functionQuery"] ∧ Generated.functionArgsClonesOtherwise = true := by decide

/-! ## the machine-level statement for filters with predicates of any value kind (`Lemmas/Pull2Gen`)

`DecOK'`: the oracle `dec` only has to be the keep-decision the sequence model makes for the candidates the machine
can present (boolean, string and node-list valued predicates without restriction; a number-valued predicate when its
verdict is a function of the node among the candidates offered — `DecOK → DecOK'`). -/
section AnyPredicate
open XPathV.Model
/-- **`Clone` on all sixteen iterator types (`Model/Pull2`)**, filters with predicates of any value
kind: whatever state the shared query tree is in, its clone is in reset state, satisfies the machine
invariant, and its stream is the whole sequence of the plan. -/
theorem clone_is_fresh_all_iterators_any_predicate {F : Type} [NumAlg F] (d : Doc) (cfg : ECfg) (dec : Plan → Ref → Bool)
    (q : PQ2) (c : Ref) (hdec : q.DecOK' (F := F) d cfg dec c) :
    q.clone.evaluate = q.clone ∧ q.clone.Inv d ∧
      sel (F := F) d cfg q.plan c = .ok (rem2 d cfg dec c q.clone) :=
  clone_fresh2' d cfg dec q c hdec

end AnyPredicate

end XPathV.Theorems.C04
