import XPathV.Lemmas.Facts
import XPathV.Generated.ExtraFacts
import XPathV.Lemmas.C09Base
import XPathV.Lemmas.StringFns
import XPathV.Lemmas.StringFns2
/-!
# C09 — string functions compute the XPath result on their arguments (property-level theorems)

`Lemmas/C09Base.lean` (same namespace) holds the `substring` theorems (the set of positions,
never fails, is a sublist) and the T0 theorems; `Lemmas/StringFns/*` one theorem per function of
the property, the node-set-argument rule, `normalize-space`, and the induction over nested calls.

`Agrees m s` : the oracle returns a value `v` and the engine returns the same value.

After the repair of `containsFunc`/`startwithFunc`/`endwithFunc` (the second argument is read like
the first: a string as it is, a node-set as the string-value of its first node, `""` when empty;
numbers and booleans still raise) a node-set is allowed in EITHER position of these three functions:
`C09_each_function` (last three conjuncts), `C09_nodeset_argument` (second conjunct),
`C09_string_tests_either_position`, `C09_string_tests_raise`.
-/
namespace XPathV.Theorems.C09
open XPathV XPathV.Model XPathV.Facts XPathV.StringFns NumAlg

variable {F : Type} [NumAlg F]

/-- **C09, one function at a time, string-typed arguments**: all thirteen functions of the
property (substring with 2 and 3 arguments; `normalize-space` on strings on which Go's and XML's
whitespace coincide), for every document, context and configuration -/
theorem C09_each_function (d : Doc) (cfg : ECfg) (fi : Plan) (c : Ref) (asel : Option (List Ref))
    (ctx : Spec.Ctx) (a b s : String) (x y : F) (ss : List String) (h2 : 2 ≤ ss.length) (l : List Ref)
    (hp : ∀ ch ∈ a.toList, Model.isSpace ch = Spec.isXmlSpace ch)
    (va vb : Spec.Value F) (hva : StrLike va) (hvb : StrLike vb) :
    Agrees (F := F) (callFn d cfg "concat" fi c (ss.map (fun s => .ok (.str s))) asel)
      (Spec.callFn d ctx "concat" (ss.map .str)) ∧
    Agrees (F := F) (callFn d cfg "contains" fi c [.ok (.str a), .ok (.str b)] asel)
      (Spec.callFn d ctx "contains" [.str a, .str b]) ∧
    Agrees (F := F) (callFn d cfg "starts-with" fi c [.ok (.str a), .ok (.str b)] asel)
      (Spec.callFn d ctx "starts-with" [.str a, .str b]) ∧
    Agrees (F := F) (callFn d cfg "ends-with" fi c [.ok (.str a), .ok (.str b)] asel)
      (Spec.callFn d ctx "ends-with" [.str a, .str b]) ∧
    Agrees (F := F) (callFn d cfg "substring-before" fi c [.ok (.str a), .ok (.str b)] asel)
      (Spec.callFn d ctx "substring-before" [.str a, .str b]) ∧
    Agrees (F := F) (callFn d cfg "substring-after" fi c [.ok (.str a), .ok (.str b)] asel)
      (Spec.callFn d ctx "substring-after" [.str a, .str b]) ∧
    Agrees (F := F) (callFn d cfg "substring" fi c [.ok (.str a), .ok (.num x)] asel)
      (Spec.callFn d ctx "substring" [.str a, .num x]) ∧
    Agrees (F := F) (callFn d cfg "substring" fi c [.ok (.str a), .ok (.num x), .ok (.num y)] asel)
      (Spec.callFn d ctx "substring" [.str a, .num x, .num y]) ∧
    Agrees (F := F) (callFn d cfg "string-length" fi c [.ok (.str a)] asel)
      (Spec.callFn d ctx "string-length" [.str a]) ∧
    Agrees (F := F) (callFn d cfg "normalize-space" fi c [.ok (.str a)] asel)
      (Spec.callFn d ctx "normalize-space" [.str a]) ∧
    Agrees (F := F) (callFn d cfg "translate" fi c [.ok (.str s), .ok (.str a), .ok (.str b)] asel)
      (Spec.callFn d ctx "translate" [.str s, .str a, .str b]) ∧
    Agrees (F := F) (callFn d cfg "lower-case" fi c [.ok (.str a)] asel)
      (Spec.callFn d ctx "lower-case" [.str a]) ∧
    Agrees (F := F) (callFn d cfg "string-join" fi c [.ok (.nodes l), .ok (.str b)] asel)
      (Spec.callFn d ctx "string-join" [.nodes l, .str b]) ∧
    Agrees (F := F) (callFn d cfg "string" fi c [.ok (.str a)] asel) (Spec.callFn d ctx "string" [.str a]) ∧
    -- after the repair of containsFunc/startwithFunc/endwithFunc: a string or a node-set (`StrLike`)
    -- in EITHER position; the answer is the oracle's, i.e. the test on the two string-values
    Agrees (F := F) (callFn d cfg "contains" fi c [.ok (Theorems.C08.emb va), .ok (Theorems.C08.emb vb)] asel)
      (Spec.callFn d ctx "contains" [va, vb]) ∧
    Agrees (F := F) (callFn d cfg "starts-with" fi c [.ok (Theorems.C08.emb va), .ok (Theorems.C08.emb vb)] asel)
      (Spec.callFn d ctx "starts-with" [va, vb]) ∧
    Agrees (F := F) (callFn d cfg "ends-with" fi c [.ok (Theorems.C08.emb va), .ok (Theorems.C08.emb vb)] asel)
      (Spec.callFn d ctx "ends-with" [va, vb]) :=
  ⟨fn_concat_spec d cfg fi c asel ctx ss h2, fn_contains_spec d cfg fi c asel ctx a b,
   fn_starts_with_spec d cfg fi c asel ctx a b, fn_ends_with_spec d cfg fi c asel ctx a b,
   fn_substring_before_spec d cfg fi c asel ctx a b, fn_substring_after_spec d cfg fi c asel ctx a b,
   fn_substring2_spec d cfg fi c asel ctx a x, fn_substring3_spec d cfg fi c asel ctx a x y,
   fn_string_length_spec d cfg fi c asel ctx a, fn_normalize_space_spec d cfg fi c asel ctx a hp,
   fn_translate_spec d cfg fi c asel ctx s a b, fn_lower_case_spec d cfg fi c asel ctx a,
   fn_string_join_spec d cfg fi c asel ctx l b, fn_string_spec d cfg fi c asel ctx (.str a),
   fn_strtest_strlike_agrees d cfg fi c asel ctx "contains" (by simp [strTestFns]) va vb hva hvb,
   fn_strtest_strlike_agrees d cfg fi c asel ctx "starts-with" (by simp [strTestFns]) va vb hva hvb,
   fn_strtest_strlike_agrees d cfg fi c asel ctx "ends-with" (by simp [strTestFns]) va vb hva hvb⟩

/-- `string(v)` for a value of any type, and `string()` of the context node -/
theorem C09_string_any (d : Doc) (cfg : ECfg) (fi : Plan) (c : Ref) (asel : Option (List Ref))
    (ctx : Spec.Ctx) (v : Spec.Value F) :
    Agrees (F := F) (callFn d cfg "string" fi c [.ok (Theorems.C08.emb v)] asel) (Spec.callFn d ctx "string" [v]) ∧
    Agrees (F := F) (callFn d cfg "string" fi ctx.node [] asel) (Spec.callFn d ctx "string" []) :=
  ⟨fn_string_spec d cfg fi c asel ctx v, fn_string0_spec d cfg fi asel ctx⟩

/-- **node-set arguments**: a node list in first position stands for the string-value of its
first node (`""` when empty), exactly as the oracle's `string()` conversion — and, after the repair
of `contains`/`starts-with`/`ends-with`, so does a node list in **second** position of the functions
of `secondArgFns` (`contains`, `starts-with`, `ends-with`, `substring-before`, `substring-after`,
`translate`), whatever the first argument's outcome is -/
theorem C09_nodeset_argument (d : Doc) (cfg : ECfg) (fi : Plan) (c : Ref) (asel : Option (List Ref))
    (name : String) (hn : name ∈ firstArgFns) (l : List Ref) (rest : List (Except EErr (MVal F)))
    (hr : RestOk name rest) :
    callFn (F := F) d cfg name fi c (.ok (.nodes l) :: rest) asel
      = callFn d cfg name fi c (.ok (.str (Spec.toStr (F := F) d (.nodes l))) :: rest) asel ∧
    (name ∈ secondArgFns → ∀ (a1 : Except EErr (MVal F)) (l2 : List Ref) (tl : List (Except EErr (MVal F))),
      callFn (F := F) d cfg name fi c (a1 :: .ok (.nodes l2) :: tl) asel
        = callFn d cfg name fi c (a1 :: .ok (.str (Spec.toStr (F := F) d (.nodes l2))) :: tl) asel) :=
  ⟨nodeset_arg_is_first d cfg fi c asel name hn l rest hr,
   fun hn2 a1 l2 tl => nodeset_arg_is_second d cfg fi c asel name hn2 a1 l2 tl⟩

/-- **a node-set in either position of `contains` / `starts-with` / `ends-with`**: the engine's
answer is the oracle's answer, the test on the two string-values; node lists in both positions are
as good as their first nodes' string-values -/
theorem C09_string_tests_either_position (d : Doc) (cfg : ECfg) (fi : Plan) (c : Ref)
    (asel : Option (List Ref)) (ctx : Spec.Ctx) (name : String) (hn : name ∈ strTestFns)
    (va vb : Spec.Value F) (hva : StrLike va) (hvb : StrLike vb) :
    callFn (F := F) d cfg name fi c [.ok (Theorems.C08.emb va), .ok (Theorems.C08.emb vb)] asel =
      .ok (.bool (strTestOf name (Spec.toStr d va) (Spec.toStr d vb))) ∧
    Spec.callFn (F := F) d ctx name [va, vb] =
      .ok (.bool (strTestOf name (Spec.toStr d va) (Spec.toStr d vb))) :=
  fn_strtest_strlike_spec d cfg fi c asel ctx name hn va vb hva hvb

/-- what still raises "argument type must be string": a number or a boolean, in either position
(the package's own tests pin `contains(0, 0)` as an error) -/
theorem C09_string_tests_raise (d : Doc) (cfg : ECfg) (fi : Plan) (c : Ref) (asel : Option (List Ref))
    (name : String) (hn : name ∈ strTestFns) (v w : MVal F)
    (hw : (∃ x, w = .num x) ∨ (∃ b, w = .bool b)) :
    callFn (F := F) d cfg name fi c [.ok w, .ok v] asel = .error (.raised name) ∧
    ((∃ s, v = .str s) ∨ (∃ l, v = .nodes l) →
      callFn (F := F) d cfg name fi c [.ok v, .ok w] asel = .error (.raised name)) :=
  fn_strtest_raises d cfg fi c asel name hn v w hw

/-- `normalize-space`: Go's `unicode.IsSpace`/`TrimSpace` loop equals the XML-whitespace collapse
on every string on which the two notions of whitespace coincide (in particular all ASCII strings
without \v and \f) -/
theorem C09_normalize_space (s : String) (h : ∀ c ∈ s.toList, Model.isSpace c = Spec.isXmlSpace c) :
    normalizeSpaceM s = Spec.fnNormalizeSpace s :=
  normalizeSpace_spec s h

/-- **C09, nested to any depth, through the builder**: every expression of `StrE` (string
literals; concat, substring-before/after, substring, normalize-space, translate, lower-case,
string over such expressions) evaluates, via the plan the builder makes, to the string the
oracle gives — at `evalP`, at the public `Evaluate`, and against the top-level oracle -/
theorem C09_nested (e : Ast) (h : StrE e) (d : Doc) (cfg : ECfg) (c : Ref)
    (regexOk : RegexOk) (limit : Nat) (sn sd : Bool) (st : BState) (o : BOut)
    (hb : build regexOk limit sn sd e {} st = .ok o) :
    ∃ s, evalP (F := F) d cfg o.q c = .ok (.str s) ∧
      evaluate (F := F) d cfg o.q c = .ok (.str s) ∧
      Spec.eval (F := F) d e ⟨c, 1, 1⟩ = .ok (.val (.str s) none) ∧
      Spec.evalTop (F := F) d e c = .ok (.str s) :=
  strE_sem e h d cfg c regexOk limit sn sd st o hb

/-- … and the builder does accept it whenever the nesting fits the depth limit (non-vacuity of
`C09_nested` for every member of the fragment) -/
theorem C09_nested_total (e : Ast) (h : StrE e) (d : Doc) (cfg : ECfg) (c : Ref)
    (regexOk : RegexOk) (limit : Nat) (sn sd : Bool) (st : BState) (hd : st.depth + ht e ≤ limit) :
    ∃ o s, build regexOk limit sn sd e {} st = .ok o ∧
      evaluate (F := F) d cfg o.q c = .ok (.str s) ∧ Spec.evalTop (F := F) d e c = .ok (.str s) :=
  strE_total e h d cfg c regexOk limit sn sd st hd

/-! ## T0: what the regenerated facts say about the current source (leaf theorems: nothing builds on them, so a
change of the source that invalidates one of them stops only this module) -/

/-- T0 (F3): each string function's arity window in `processFunction` -/
theorem string_function_arities :
    (Generated.funcTable.filter (fun e => e.names.any (fun n => ["concat", "contains", "starts-with", "ends-with",
        "substring", "substring-before", "substring-after", "string-length", "normalize-space", "translate",
        "lower-case", "string-join"].contains n))).map (fun e => (e.names, e.minArgs, e.maxArgs)) =
    [(["lower-case"], 1, none), (["starts-with"], 2, none), (["ends-with"], 2, none), (["contains"], 2, none),
     (["substring"], 2, none), (["substring-before", "substring-after"], 2, some 2), (["string-length"], 1, none),
     (["normalize-space"], 0, none), (["translate"], 3, some 3), (["concat"], 2, none), (["string-join"], 2, some 2)] := by decide

/-- T0: the bounds `substringFunc` computes are the ones `substringM` models:
`first = xpathRound(start)`, `last = first + xpathRound(length)` (or +Inf), clipped to `[1, len+1]`
(`xpathRound` itself is `xpathRoundM`, compared with the code by the substring sweep) -/
theorem substring_bounds_source_ok : Generated.substringBoundsSrc =
    ["first:=xpathRound(start)", "last:=math.Inf(1)", "last=first+xpathRound(length)", "first=1", "last=float64(len(m)+1)"] := rfl

end XPathV.Theorems.C09

/-! ## nested string functions whose leaves are string literals **and flat filtered paths**
(`Lemmas/StringFns2`) -/
namespace XPathV.Theorems.C09
open XPathV XPathV.Model XPathV.StringFns XPathV.StringFns2 XPathV.PathSem NumAlg

variable {F : Type} [NumAlg F]

/-- **C09, nested to any depth, with node-set arguments, through the builder**: every expression of
`StrE2` — `StrE` with, wherever a string-valued argument is allowed (and in `string(P)`), a flat path
`P` over child/attribute/self steps carrying predicates of the C02 fragment (`ArithSem2.FlatF2`) —
evaluates, via the plan the builder makes, to the string the oracle gives: the engine reads a
node-set argument as the string-value of the FIRST node of the list it computed, the oracle as the
string-value of the first node in document order, and the two lists are the same list
(`ArithSem2.flat2_same_list`).  `normalize-space(a)` is in the fragment when the string the oracle
reads `a` as is one on which Go's and XML's whitespace coincide (`NormDom`).  Hypotheses of C02 for
the paths: well-formed document, valid context node, navigator exposing namespace URIs, `HashInj`;
builder at `smartDescThroughFilter = false`. -/
theorem C09_nested_with_paths {d : Doc} (wf : WF d) (cfg : ECfg) (hns : cfg.nsIface = true)
    (hinj : HashInj d cfg) (regexOk : RegexOk) (limit : Nat)
    (c : Ref) (hc : validRef d c = true) {e : Ast} (he : StrE2 d ⟨c, 1, 1⟩ F e)
    (st : BState) (o : BOut) (hb : build regexOk limit true false e {} st = .ok o) :
    ∃ s, evalP (F := F) d cfg o.q c = .ok (.str s) ∧
      evaluate (F := F) d cfg o.q c = .ok (.str s) ∧
      Spec.eval (F := F) d e ⟨c, 1, 1⟩ = .ok (.val (.str s) none) ∧
      Spec.evalTop (F := F) d e c = .ok (.str s) :=
  C09_nested2 wf cfg hns hinj regexOk limit c hc he st o hb

/-- `C09_nested_with_paths` without the `HashInj` hypothesis (it is a theorem: `hashInj_holds`; the
side condition left is "no element has two attributes with the same prefix, name and value") -/
theorem C09_nested_with_paths_unconditional {d : Doc} (wf : WF d) (cfg : ECfg)
    (hns : cfg.nsIface = true) (hattr : AttrTriplesDistinct d) (regexOk : RegexOk) (limit : Nat)
    (c : Ref) (hc : validRef d c = true) {e : Ast} (he : StrE2 d ⟨c, 1, 1⟩ F e)
    (st : BState) (o : BOut) (hb : build regexOk limit true false e {} st = .ok o) :
    ∃ s, evalP (F := F) d cfg o.q c = .ok (.str s) ∧
      evaluate (F := F) d cfg o.q c = .ok (.str s) ∧
      Spec.eval (F := F) d e ⟨c, 1, 1⟩ = .ok (.val (.str s) none) ∧
      Spec.evalTop (F := F) d e c = .ok (.str s) :=
  C09_nested_with_paths wf cfg hns (PathSem.hashInj_holds wf hattr cfg) regexOk limit c hc he st o hb

/-- … inside a predicate or any other context: at every context position `i` and size `n`, any
builder flags -/
theorem C09_nested_with_paths_at {d : Doc} (wf : WF d) (cfg : ECfg) (hns : cfg.nsIface = true)
    (hinj : HashInj d cfg) (regexOk : RegexOk) (limit : Nat)
    (c : Ref) (hc : validRef d c = true) (i n : Nat) {e : Ast} (he : StrE2 d ⟨c, i, n⟩ F e)
    (fl : Flags) (st : BState) (o : BOut) (hb : build regexOk limit true false e fl st = .ok o) :
    ∃ s, evalP (F := F) d cfg o.q c = .ok (.str s) ∧
      Spec.eval (F := F) d e ⟨c, i, n⟩ = .ok (.val (.str s) none) :=
  strE2_sem wf cfg hns hinj regexOk limit c hc i n he fl st o hb

/-- **old fragment → new**: every member of `StrE` is a member of `StrE2`, for every document and
context -/
theorem C09_strE_embeds (d : Doc) (ctx : Spec.Ctx) {e : Ast} (h : StrE e) : StrE2 d ctx F e :=
  strE2_of_strE d ctx h

end XPathV.Theorems.C09
