import XPathV.Model.Api
/-! # Property C09 — theorems (placeholder header; filled in below) -/
namespace XPathV.Theorems.C09
end XPathV.Theorems.C09
