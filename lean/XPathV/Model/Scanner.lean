import XPathV.Ast
import XPathV.Generated.NameTables
/-!
# Model of the scanner of `parse.go`

The text is a list of code points (the driver decodes the bytes the way `utf8.DecodeRuneInString`
does: an invalid byte is U+FFFD).  `Scan` mirrors the `scanner` struct: the fields of the current
item persist until a later item overwrites them, exactly as in Go (`parseNodeTest` relies on it).

Not modelled: the byte arithmetic of `scanName`/`scanNumber` when a multi-byte code point directly
follows a name or is a non-ASCII digit (the Go slices then contain partial code points); the
driver reports such inputs as `unmodelled`.
-/
namespace XPathV.Model
open XPathV

inductive Tok
  | comma | slash | at | dot | lparen | rparen | lbracket | rbracket | star | plus | minus
  | eq | lt | gt | bang | dollar | union | ne | le | ge | dotdot | slashslash
  | name | string | number | axe | eof
  deriving DecidableEq, Repr, Inhabited

structure Scan where
  curr : Char := '\x00'
  rest : List Char := []
  typ : Tok := .eof
  name : String := ""
  pfx : String := ""
  strval : String := ""
  numlex : String := ""
  canBeFunc : Bool := false
  deriving Repr, Inhabited

/-- Go `unicode.Is(table, r)` by linear scan over sorted `Range16`s -/
def inTable : List (Nat × Nat × Nat) → Nat → Bool
  | [], _ => false
  | (lo, hi, stride) :: t, r =>
    if r < lo then false
    else if r ≤ hi then stride == 1 || (r - lo) % stride == 0
    else inTable t r

def isName (c : Char) : Bool :=
  c != ':' && c != '/' &&
    (c.toNat ≤ 0xFFFF && (inTable Generated.nameFirst c.toNat || inTable Generated.nameSecond c.toNat)
      || Generated.starIsNameChar && c == '*')

/-- `isNameStart`: the first character of the local part after `prefix:` -/
def isNameStart (c : Char) : Bool :=
  c != ':' && c.toNat ≤ 0xFFFF && inTable Generated.nameFirst c.toNat

/-- `unicode.IsSpace` -/
def isSpace (c : Char) : Bool :=
  let n := c.toNat
  (9 ≤ n && n ≤ 13) || n == 0x20 || n == 0x85 || n == 0xA0 || n == 0x1680 ||
  (0x2000 ≤ n && n ≤ 0x200A) || n == 0x2028 || n == 0x2029 || n == 0x202F || n == 0x205F || n == 0x3000

def isAsciiDigit (c : Char) : Bool := '0' ≤ c && c ≤ '9'

/-- `unicode.IsDigit`: ASCII digits and the other `Nd` code points (regenerated table) -/
def isDigit (c : Char) : Bool := isAsciiDigit c || inTable Generated.unicodeNd c.toNat

def Scan.nextChar (s : Scan) : Scan × Bool :=
  match s.rest with
  | [] => ({ s with curr := '\x00' }, false)
  | c :: cs => ({ s with curr := c, rest := cs }, true)

/-- `for { if !unicode.IsSpace(s.curr) || !s.nextChar() { break } }`; recursion on the rest -/
def skipSpaceAux : Char → List Char → Char × List Char
  | c, [] => if isSpace c then ('\x00', []) else (c, [])
  | c, r :: rs => if isSpace c then skipSpaceAux r rs else (c, r :: rs)

def Scan.skipSpace (s : Scan) : Scan :=
  let (c, r) := skipSpaceAux s.curr s.rest
  { s with curr := c, rest := r }

/-- the maximal run of characters satisfying `p` starting at `curr`; returns the run and the
scanner positioned after it -/
def takeRun (p : Char → Bool) : Char → List Char → List Char × Char × List Char
  | c, [] => if p c then ([c], '\x00', []) else ([], c, [])
  | c, r :: rs =>
    if p c then
      let (run, c', r') := takeRun p r rs
      (c :: run, c', r')
    else ([], c, r :: rs)

inductive ScanErr
  | invalidToken | invalidQName | unclosedString | unknownItem | badNumber | unmodelled
  deriving DecidableEq, Repr, Inhabited

/-- `scanName`.  The Go code counts the byte width of the terminating character into the slice
length minus one, so a multi-byte terminator leaks its leading bytes into the name (an invalid
UTF-8 tail).  The model marks that with U+FFFD: the name then is no known axis/function/node-type
name, which is all that the rest of the compiler can observe of it. -/
def Scan.scanName (s : Scan) : String × Scan :=
  let (run, c, r) := takeRun isName s.curr s.rest
  let run := if c.toNat ≥ 0x80 then run ++ ['\uFFFD'] else run
  (String.ofList run, { s with curr := c, rest := r })

/-- characters up to the closing quote `q`; `none` when the text ends first -/
def scanStringAux (q : Char) : List Char → Option (List Char × List Char)
  | [] => none
  | c :: cs => if c == q then some ([], cs) else
    match scanStringAux q cs with
    | some (str, rest) => some (c :: str, rest)
    | none => none

/-- Until the repair of 2026-09-28 `scanNumber` turned the range error that `strconv.ParseFloat` reports for a numeral
that rounds to +Inf (value ≥ (2^54 − 1)·2^970) into a compile error; now the numeral is accepted and its value is the
nearest double, +Inf (`if err != nil && !errors.Is(err, strconv.ErrRange)`).  The function is kept — constantly `false` —
so that the lemmas stated with it keep their form. -/
def numOverflows (_ip _fp : List Char) : Bool := false

/-- one `nextItem` call -/
def Scan.nextItem (s0 : Scan) : Except ScanErr Scan :=
  let s := s0.skipSpace
  let adv (s : Scan) : Scan := s.nextChar.1
  let single (t : Tok) : Except ScanErr Scan := .ok (adv { s with typ := t })
  let two (t1 t2 : Tok) (c2 : Char) : Except ScanErr Scan :=
    let s1 := adv { s with typ := t1 }
    if s1.curr == c2 then .ok (adv { s1 with typ := t2 }) else .ok s1
  let c := s.curr
  if c == '\x00' then .ok { s with typ := .eof }
  else if c == ',' then single .comma
  else if c == '@' then single .at
  else if c == '(' then single .lparen
  else if c == ')' then single .rparen
  else if c == '|' then single .union
  else if c == '*' then single .star
  else if c == '[' then single .lbracket
  else if c == ']' then single .rbracket
  else if c == '+' then single .plus
  else if c == '-' then single .minus
  else if c == '=' then single .eq
  else if c == '$' then single .dollar
  else if c == '#' then .error .unknownItem
  else if c == '<' then two .lt .le '='
  else if c == '>' then two .gt .ge '='
  else if c == '!' then two .bang .ne '='
  else if c == '/' then two .slash .slashslash '/'
  else if c == '.' then
    let s1 := adv { s with typ := .dot }
    if s1.curr == '.' then .ok (adv { s1 with typ := .dotdot })
    else if isDigit s1.curr then
      let (run, c', r') := takeRun isDigit s1.curr s1.rest
      if run.all isAsciiDigit then
        .ok { s1 with typ := .number, numlex := String.ofList ('.' :: run), curr := c', rest := r' }
      else .error .badNumber
    else .ok s1
  else if c == '"' || c == '\'' then
    match scanStringAux c s.rest with
    | none => .error .unclosedString
    | some (str, rest) =>
      .ok (adv { s with typ := .string, strval := String.ofList str, rest := rest })
  else if isDigit c then
    let (ip, c1, r1) := takeRun isDigit c s.rest
    let (fp, c2, r2) :=
      if c1 == '.' then
        match r1 with
        | [] => (['.'], '\x00', [])
        | x :: xs => let (run, c', r') := takeRun isDigit x xs; ('.' :: run, c', r')
      else ([], c1, r1)
    if (ip ++ fp).all (fun ch => isAsciiDigit ch || ch == '.') && !numOverflows ip (fp.drop 1) then
      .ok { s with typ := .number, numlex := String.ofList (ip ++ fp), curr := c2, rest := r2 }
    else .error .badNumber
  else if isName c then
    let (nm, s1) := s.scanName
    let s1 := { s1 with typ := .name, name := nm, pfx := "" }
    let fin (s : Scan) : Except ScanErr Scan :=
      let s' := s.skipSpace
      .ok { s' with canBeFunc := s'.curr == '(' }
    if s1.curr == ':' then
      let s2 := adv s1
      if s2.curr == ':' then fin (adv { s2 with typ := .axe })
      else
        let s2 := { s2 with pfx := nm }
        if s2.curr == '*' then fin (adv { s2 with name := "*" })
        else if isNameStart s2.curr then
          let (nm2, s3) := s2.scanName
          fin { s3 with name := nm2 }
        else .error .invalidQName
    else
      let s2 := s1.skipSpace
      if s2.curr == ':' then
        let s3 := adv s2
        if s3.curr == ':' then fin (adv { s3 with typ := .axe })
        else .error .invalidQName
      else fin s2
  else .error .invalidToken

/-- `r := &scanner{text: expr}; r.nextChar(); r.nextItem()` -/
def Scan.init (text : List Char) : Except ScanErr Scan :=
  let s : Scan := { rest := text }
  (s.nextChar.1).nextItem

/-- the whole token stream (types only), for the token-level correspondence -/
def tokensFuel : Nat → Scan → List Tok → Except ScanErr (List Tok)
  | 0, _, acc => .ok acc.reverse
  | f+1, s, acc =>
    if s.typ == .eof then .ok (s.typ :: acc).reverse
    else match s.nextItem with
      | .error e => .error e
      | .ok s' => tokensFuel f s' (s.typ :: acc)

end XPathV.Model
