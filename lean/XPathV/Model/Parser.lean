import XPathV.Model.Scanner
/-!
# Model of the recursive-descent parser of `parse.go`

One Lean function per Go function, except that the six binary tiers, the unary tier and the union
tier are one table-driven function `parseChain` over a list of `Stage`s which is *computed from the
regenerated precedence chain* (`Generated.precChain`, see `Model/Chain.lean`): swapping two tiers
in Go changes this model on the next run.

The Go parser threads an "input node" parameter `n` through every level; it is dead (every
consumer is `parseLocationPath(nil)`), so the model omits it.

Errors are Go `panic`s that `build` recovers into an `error`.  `fuel` bounds the recursion so the
definition is structurally recursive; `Theorems/C06` shows a fuel linear in the input never runs out.
-/
namespace XPathV.Model
open XPathV

inductive Stage
  | tier (ops : List String)
  | unary
  deriving DecidableEq, Repr

structure PCfg where
  depthLimit : Nat
  chain : List Stage
  ns : Option (List (String × String))

structure PState where
  s : Scan
  d : Nat := 0
  deriving Repr, Inhabited

inductive PErr
  | scan (e : ScanErr)
  | invalidToken            -- checkItem mismatch
  | tooComplex              -- depth > limit
  | notNodeSet              -- "expression must evaluate to a node-set"
  | prefixUndefined
  | fuel
  deriving DecidableEq, Repr, Inhabited

abbrev PRes := Except PErr (Ast × PState)

def PState.next (st : PState) : Except PErr PState :=
  match st.s.nextItem with
  | .ok s' => .ok { st with s := s' }
  | .error e => .error (.scan e)

def PState.skipItem (st : PState) (t : Tok) : Except PErr PState :=
  if st.s.typ == t then st.next else .error .invalidToken

def isNodeType (s : Scan) : Bool :=
  (s.name == "node" || s.name == "text" || s.name == "processing-instruction" || s.name == "comment")
    && s.pfx == ""

def isPrimaryExpr (s : Scan) : Bool :=
  s.typ == .string || s.typ == .number || s.typ == .dollar || s.typ == .lparen ||
  (s.typ == .name && s.canBeFunc && !isNodeType s)

def isStep (t : Tok) : Bool :=
  t == .dot || t == .dotdot || t == .at || t == .axe || t == .star || t == .name

/-- `testOp` for word operators, token comparison for the symbolic ones -/
def tokMatches (s : Scan) (op : String) : Bool :=
  match op with
  | "=" => s.typ == .eq | "!=" => s.typ == .ne
  | "<" => s.typ == .lt | ">" => s.typ == .gt | "<=" => s.typ == .le | ">=" => s.typ == .ge
  | "+" => s.typ == .plus | "-" => s.typ == .minus
  | "*" => s.typ == .star | "|" => s.typ == .union
  | w => s.typ == .name && s.pfx == "" && s.name == w

def mkAxis (axis : String) (tt : NType) (lname pfx prop : String) (inp : Ast) : Ast :=
  .axis ⟨axis, tt, pfx, lname, prop, false, ""⟩ inp

def dosNode (inp : Ast) : Ast := mkAxis "descendant-or-self" .all "" "" "" inp

def isConstOperand : Ast → Bool
  | .str _ | .num _ => true
  | _ => false

/-- `parseNodeTest` (makes no recursive call) -/
def parseNodeTest (cfg : PCfg) (inp : Ast) (axis : String) (matchType : NType) (st : PState) : PRes :=
  match st.s.typ with
  | .name =>
    if st.s.canBeFunc && isNodeType st.s then do
      let prop := st.s.name
      let st ← st.next
      let st ← st.skipItem .lparen
      let (name, st) ←
        if prop == "processing-instruction" && st.s.typ != .rparen then
          if st.s.typ == .string then do
            let nm := st.s.strval
            let st ← st.next
            pure (nm, st)
          else .error .invalidToken
        else pure ("", st)
      let st ← st.skipItem .rparen
      let mt := match prop with
        | "comment" => NType.comment
        | "text" => .text
        | "processing-instruction" => matchType
        | "node" => .all
        | _ => .root
      pure (mkAxis axis mt name "" prop inp, st)
    else do
      let pfx := st.s.pfx
      -- `prefix:*`: the scanner records the name "*"; it stands for "any local name" (empty)
      let name := if st.s.name == "*" then "" else st.s.name
      let st ← st.next
      if pfx != "" then
        match cfg.ns with
        | some m =>
          match m.lookup pfx with
          | some uri => pure (.axis ⟨axis, matchType, pfx, name, "", true, uri⟩ inp, st)
          | none => .error .prefixUndefined
        | none => pure (mkAxis axis matchType name pfx "" inp, st)
      else pure (mkAxis axis matchType name pfx "" inp, st)
  | .star => do
    let st' ← st.next
    pure (mkAxis axis matchType "" "" "" inp, st')
  | _ => .error .notNodeSet

/-- skip a run of `-` tokens, toggling -/
def skipMinus : Nat → PState → Bool → Except PErr (Bool × PState)
  | 0, _, _ => .error .fuel
  | f+1, st, m =>
    if st.s.typ == .minus then do
      let st ← st.next
      skipMinus f st (!m)
    else pure (m, st)

mutual

def parseExpression : Nat → PCfg → PState → PRes
  | 0, _, _ => .error .fuel
  | f+1, cfg, st =>
    if st.d + 1 > cfg.depthLimit then .error .tooComplex else do
      let (a, st') ← parseChain f cfg cfg.chain { st with d := st.d + 1 }
      pure (a, { st' with d := st'.d - 1 })

def parseChain : Nat → PCfg → List Stage → PState → PRes
  | 0, _, _, _ => .error .fuel
  | f+1, cfg, [], st => parsePathExpr f cfg st
  | f+1, cfg, .tier ops :: rest, st => do
    let (opnd, st) ← parseChain f cfg rest st
    tierLoop f cfg ops rest opnd st
  | f+1, cfg, .unary :: rest, st => do
    -- `signed`: at least one '-' (the run starts at the current token)
    let signed := st.s.typ == .minus
    let (minus, st) ← skipMinus (f+1) st false
    let (opnd, st) ← parseChain f cfg rest st
    pure (if minus then .oper "*" opnd (.num "-1")
          else if signed then .oper "*" (.oper "*" opnd (.num "-1")) (.num "-1") else opnd, st)

def tierLoop : Nat → PCfg → List String → List Stage → Ast → PState → PRes
  | 0, _, _, _, _, _ => .error .fuel
  | f+1, cfg, ops, rest, opnd, st =>
    match ops.find? (tokMatches st.s) with
    | none => pure (opnd, st)
    | some op => do
      let st ← st.next
      let (r, st) ← parseChain f cfg rest st
      tierLoop f cfg ops rest (.oper op opnd r) st

def parsePathExpr : Nat → PCfg → PState → PRes
  | 0, _, _ => .error .fuel
  | f+1, cfg, st =>
    if isPrimaryExpr st.s then do
      let (opnd, st) ← parseFilterExpr f cfg st
      match st.s.typ with
      | .slash => do
        let st ← st.next
        parseRelLoc f cfg opnd st
      | .slashslash => do
        let st ← st.next
        parseRelLoc f cfg (dosNode opnd) st
      | _ => pure (opnd, st)
    else parseLocationPath f cfg st

def parseFilterExpr : Nat → PCfg → PState → PRes
  | 0, _, _ => .error .fuel
  | f+1, cfg, st => do
    let (opnd, st) ← parsePrimary f cfg st
    stepPreds f cfg opnd st

def parsePredicate : Nat → PCfg → PState → PRes
  | 0, _, _ => .error .fuel
  | f+1, cfg, st => do
    let st ← st.skipItem .lbracket
    let (opnd, st) ← parseExpression f cfg st
    let st ← st.skipItem .rbracket
    pure (opnd, st)

def parsePrimary : Nat → PCfg → PState → PRes
  | 0, _, _ => .error .fuel
  | f+1, cfg, st =>
    match st.s.typ with
    | .string => do
      let v := st.s.strval
      let st ← st.next
      pure (.str v, st)
    | .number => do
      let v := st.s.numlex
      let st ← st.next
      pure (.num v, st)
    | .dollar => do
      let st ← st.next
      if st.s.typ == .name then do
        let a := Ast.var st.s.pfx st.s.name
        let st ← st.next
        pure (a, st)
      else .error .invalidToken
    | .lparen => do
      let st ← st.next
      let (opnd, st) ← parseExpression f cfg st
      let opnd := if isConstOperand opnd then opnd else .group opnd
      let st ← st.skipItem .rparen
      pure (opnd, st)
    | .name =>
      if st.s.canBeFunc && !isNodeType st.s then parseMethod f cfg st
      else pure (.none, st)
    | _ => pure (.none, st)

def parseMethod : Nat → PCfg → PState → PRes
  | 0, _, _ => .error .fuel
  | f+1, cfg, st => do
    let name := st.s.name
    let pfx := st.s.pfx
    let st ← st.skipItem .name
    let st ← st.skipItem .lparen
    let (args, st) ←
      if st.s.typ != .rparen then parseArgs f cfg st else pure (.anil, st)
    let st ← st.skipItem .rparen
    pure (.call name pfx args, st)

/-- `for { args = append(args, p.parseExpression(n)); if typ == ')' { break }; skipItem(',') }` -/
def parseArgs : Nat → PCfg → PState → PRes
  | 0, _, _ => .error .fuel
  | f+1, cfg, st => do
    let (a, st) ← parseExpression f cfg st
    if st.s.typ == .rparen then pure (.acons a .anil, st)
    else do
      let st ← st.skipItem .comma
      let (rest, st) ← parseArgs f cfg st
      pure (.acons a rest, st)

def parseLocationPath : Nat → PCfg → PState → PRes
  | 0, _, _ => .error .fuel
  | f+1, cfg, st =>
    match st.s.typ with
    | .slash => do
      let st ← st.next
      if isStep st.s.typ then parseRelLoc f cfg (.root "/") st
      else pure (.root "/", st)
    | .slashslash => do
      let st ← st.next
      parseRelLoc f cfg (dosNode (.root "//")) st
    | _ => parseRelLoc f cfg .none st

def parseRelLoc : Nat → PCfg → Ast → PState → PRes
  | 0, _, _, _ => .error .fuel
  | f+1, cfg, inp, st => do
    let (opnd, st) ← parseStep f cfg inp st
    match st.s.typ with
    | .slashslash => do
      let st ← st.next
      parseRelLoc f cfg (dosNode opnd) st
    | .slash => do
      let st ← st.next
      parseRelLoc f cfg opnd st
    | _ => pure (opnd, st)

def parseStep : Nat → PCfg → Ast → PState → PRes
  | 0, _, _, _ => .error .fuel
  | f+1, cfg, inp, st =>
    if st.s.typ == .dot || st.s.typ == .dotdot then do
      let opnd := if st.s.typ == .dot then mkAxis "self" .all "" "" "" inp
                  else mkAxis "parent" .all "" "" "" inp
      let st ← st.next
      if st.s.typ != .lbracket then pure (opnd, st)
      else stepPreds f cfg opnd st
    else
      match st.s.typ with
      | .lparen => parseSequence f cfg inp st
      | .at => do
        let st ← st.next
        let (opnd, st) ← parseNodeTest cfg inp "attribute" .attr st
        stepPreds f cfg opnd st
      | .axe => do
        let axis := st.s.name
        let st ← st.next
        let (opnd, st) ← parseNodeTest cfg inp axis (if axis == "attribute" then .attr else .elem) st
        stepPreds f cfg opnd st
      | _ => do
        let (opnd, st) ← parseNodeTest cfg inp "child" .elem st
        stepPreds f cfg opnd st

/-- `for p.r.typ == itemLBracket { opnd = newFilterNode(opnd, p.parsePredicate(opnd)) }` -/
def stepPreds : Nat → PCfg → Ast → PState → PRes
  | 0, _, _, _ => .error .fuel
  | f+1, cfg, opnd, st =>
    if st.s.typ == .lbracket then do
      let (c, st) ← parsePredicate f cfg st
      stepPreds f cfg (.filter opnd c) st
    else pure (opnd, st)

def parseSequence : Nat → PCfg → Ast → PState → PRes
  | 0, _, _, _ => .error .fuel
  | f+1, cfg, inp, st =>
    if st.d + 1 > cfg.depthLimit then .error .tooComplex else do
    let st := { st with d := st.d + 1 }
    let st ← st.skipItem .lparen
    let (opnd, st) ← parseStep f cfg inp st
    let (opnd, st) ← seqLoop f cfg inp opnd st
    let st ← st.skipItem .rparen
    pure (opnd, { st with d := st.d - 1 })

def seqLoop : Nat → PCfg → Ast → Ast → PState → PRes
  | 0, _, _, _, _ => .error .fuel
  | f+1, cfg, inp, opnd, st =>
    if st.s.typ == .comma then do
      let st ← st.next
      let (o2, st) ← parseStep f cfg inp st
      seqLoop f cfg inp (.oper "|" opnd o2) st
    else pure (opnd, st)

end

/-- `parse(expr, namespaces)` -/
def parse (fuel : Nat) (cfg : PCfg) (text : List Char) : Except PErr Ast :=
  match Scan.init text with
  | .error e => .error (.scan e)
  | .ok s => do
    let (a, st) ← parseExpression fuel cfg { s := s, d := 0 }
    -- `checkItem(r, itemEOF)`: the whole text must have been consumed
    if st.s.typ == .eof then pure a else .error .invalidToken

/-- enough for every input (`Theorems/C06`) -/
def fuelFor (text : List Char) : Nat := 40 * (text.length + 2)

end XPathV.Model
