import XPathV.Generated.CacheFacts
/-!
# Model of `cache.go`: `loadingCache.get` as an interleaved step machine

`get` is split into the atomic sections its locks delimit: (1) `RLock · lookup · RUnlock` followed by
the unlocked `load`, (2) `Lock · if evictCond {reset} else {store} · Unlock`.  `evictCond` is
**regenerated from the source** (fact F11).  A schedule is any list of thread indices; `run`
interleaves any number of threads' sections.
-/
namespace XPathV.Model.Cache

abbrev Key := String
abbrev Val := String

structure Cache where
  m : List (Key × Val)
  resets : Nat
  deriving Repr

def Cache.lookup (c : Cache) (k : Key) : Option Val := (c.m.find? (·.1 == k)).map (·.2)

/-- `if c.cap > 0 && len(c.m) >= c.cap { c.m = {key: v}; c.reset++ } else { c.m[key] = v }` -/
def Cache.store (cap : Nat) (c : Cache) (k : Key) (v : Val) : Cache :=
  if Generated.evictCond cap c.m.length then { m := [(k, v)], resets := c.resets + 1 }
  else { c with m := (k, v) :: c.m.filter (·.1 != k) }

/-- thread-local control state of one `get k` -/
inductive PC
  | start (k : Key)
  | loaded (k : Key) (v : Val)
  | done (r : Option Val)
  deriving DecidableEq, Repr

/-- one atomic section of one thread -/
def stepThread (cap : Nat) (load : Key → Option Val) (c : Cache) : PC → Cache × PC
  | .start k => match c.lookup k with
      | some v => (c, .done (some v))
      | none => match load k with
        | none => (c, .done none)
        | some v => (c, .loaded k v)
  | .loaded k v => (c.store cap k v, .done (some v))
  | .done r => (c, .done r)

structure Sys where
  c : Cache
  ts : List PC

/-- schedule = which thread index moves next -/
def run (cap : Nat) (load : Key → Option Val) : Sys → List Nat → Sys
  | s, [] => s
  | s, i :: is =>
    match s.ts[i]? with
    | none => run cap load s is
    | some pc =>
      let (c', pc') := stepThread cap load s.c pc
      run cap load { c := c', ts := s.ts.set i pc' } is

/-- a sequential `get`: both sections back to back -/
def get (cap : Nat) (load : Key → Option Val) (c : Cache) (k : Key) : Cache × Option Val :=
  match stepThread cap load c (.start k) with
  | (c1, .loaded k' v) => ((stepThread cap load c1 (.loaded k' v)).1, some v)
  | (c1, .done r) => (c1, r)
  | (c1, _) => (c1, none)

end XPathV.Model.Cache
