/-!
# Replacement templates of `replace()` — model of `func.go: replaceFunc` and of Go's `Regexp.expand`

`replace(s, p, r)` evaluates `e.ReplaceAllString(s, xpathReplacement(r, e.NumSubexp()))`.  The regular-expression
matcher is a parameter of the model (§7); what is *logic of the package* is the rewriting of the XPath replacement
string into Go's template syntax, and what has to be modelled of the standard library to say what the result means
is `Regexp.expand` with `extract` (regexp.go), transcribed below arm by arm.  Templates are lists of characters;
the model is exact on ASCII templates (Go's `extract` uses `unicode.IsLetter/IsDigit`, here the ASCII classes).
-/
namespace XPathV.Model.Template

/-- what one match offers to a template: the text of group `i` (index 0 = the whole match; `none` = the group did
not participate), and the names of the groups (`re.subexpNames`, index 0 = "") -/
structure Groups where
  texts : List (Option (List Char))
  names : List (List Char)
deriving Repr

def isDigitCh (c : Char) : Bool := '0' ≤ c && c ≤ '9'
/-- `unicode.IsLetter(c) || unicode.IsDigit(c) || c == '_'` on ASCII -/
def isNameCh (c : Char) : Bool := c.isAlphanum || c == '_'

def digitVal (c : Char) : Nat := c.toNat - '0'.toNat

/-- Go `extract`, the number loop: `num = num*10 + d` unless a non-digit or `num >= 1e8` is met (then -1 = `none`) -/
def parseNumLoop : List Char → Nat → Option Nat
  | [], num => some num
  | c :: t, num => if !isDigitCh c || num ≥ 100000000 then none else parseNumLoop t (num * 10 + digitVal c)

/-- … and "Disallow leading zeros" -/
def parseNum (name : List Char) : Option Nat :=
  match name with
  | '0' :: _ :: _ => none
  | _ => parseNumLoop name 0

/-- Go `extract(str)` (the `$` already removed): `(name, num, rest)`; `none` = `ok == false` -/
def extract (str : List Char) : Option (List Char × Option Nat × List Char) :=
  match str with
  | [] => none
  | _ =>
    let (brace, s1) : Bool × List Char := match str with
      | '{' :: t => (true, t)
      | _ => (false, str)
    let name := s1.takeWhile isNameCh
    let after := s1.dropWhile isNameCh
    if name.isEmpty then none
    else if brace then
      match after with
      | '}' :: rest => some (name, parseNum name, rest)
      | _ => none
    else some (name, parseNum name, after)

/-- the text a reference contributes: numbered group (`2*num+1 < len(match) && match[2*num] >= 0`) or the first
group of that name that participated … Go takes the first index `i` whose *name* matches and breaks only if it
participated; a later group of the same name is then tried -/
def groupText (g : Groups) (name : List Char) (num : Option Nat) : List Char :=
  match num with
  | some n => ((g.texts.getD n none).getD [])
  | none =>
    let rec find : List (List Char) → List (Option (List Char)) → List Char
      | nm :: ns, tx :: ts => if nm == name && tx.isSome then tx.getD [] else find ns ts
      | _, _ => []
    find g.names g.texts

/-- Go `Regexp.expand` on one match (`fuel`: one unit per loop iteration; `template.length + 1` is enough) -/
def expandGo (g : Groups) : Nat → List Char → List Char
  | 0, t => t
  | fuel + 1, t =>
    match t.span (· != '$') with
    | (_, []) => t                                   -- no `$`: the rest is appended
    | (before, _ :: after) =>
      match after with
      | '$' :: after' => before ++ '$' :: expandGo g fuel after'       -- `$$`
      | _ =>
        match extract after with
        | none => before ++ '$' :: expandGo g fuel after               -- malformed: raw `$`
        | some (name, num, rest) => before ++ groupText g name num ++ expandGo g fuel rest

/-- decimal digits of a positive number, as written by `strconv`/`%d` -/
def digitsOf (n : Nat) : List Char := (toString n).toList

/-- `func.go: xpathReplacement(r, groups)` — one pass, left to right: `$$` is kept; a `$` followed by a digit
other than 0 starts a group reference whose number is the longest digit string not exceeding `groups`; it is
written as `${n}`; every other character is copied.  `scanRef groups ds n taken` is the inner loop: returns how
many digits belong to the reference. -/
def scanRef (groups : Nat) : List Char → Nat → Nat → Nat
  | [], _, taken => taken
  | c :: t, n, taken =>
    if !isDigitCh c then taken
    else
      let n' := n * 10 + digitVal c
      if n' > groups then taken else scanRef groups t n' (taken + 1)

def rewrite (groups : Nat) : Nat → List Char → List Char
  | 0, t => t
  | _ + 1, [] => []
  | fuel + 1, c :: t =>
    if c != '$' then c :: rewrite groups fuel t
    else match t with
      | '$' :: t' => '$' :: '$' :: rewrite groups fuel t'
      | _ =>
        let taken := match t with
          | '0' :: _ => 0
          | _ => scanRef groups t 0 0
        if taken > 0 then
          ('$' :: '{' :: t.take taken) ++ '}' :: rewrite groups fuel (t.drop taken)
        else '$' :: rewrite groups fuel t

/-- what `replace()` substitutes for one match: `expand` of the rewritten template -/
def replaceOne (g : Groups) (groups : Nat) (r : List Char) : List Char :=
  let r' := rewrite groups (r.length + 1) r
  expandGo g (r'.length + 1) r'

end XPathV.Model.Template
