import XPathV.Model.Pull
/-!
# Pull-machine layer, part 2: all node-set iterator types of `query.go`

`Model/Pull.lean` models seven query structs as pull iterators with mutable state.  This file
re-declares those seven (now over inputs of *any* modelled type) and adds

`ancestorQuery`, `followingQuery`, `precedingQuery` (both with `Sibling` true and false),
`filterQuery` (boolean predicate), `unionQuery`, `groupQuery`, `cachedChildQuery`,
`descendantOverDescendantQuery`, `mergeQuery`.

Differences to `Pull.lean`:

* **`t.Current()` is state.**  `filterQuery`, `mergeQuery` and `unionQuery` execute
  `t.Current().MoveTo(node)`, and `NodeIterator.MoveNext` moves `t.node` onto every reported node.
  `PQ2.select` therefore takes the current node and returns the new one:
  `select f q cur = (outcome, q', cur')`.  `contextQuery` reads it.
  `filterQuery.Select` saves the context node on entry and restores it when it returns
  (`ctx := t.Current().Copy(); defer func() { t.Current().MoveTo(ctx) }()`), `mergeQuery.Select`
  restores it after it has collected the children of one parent, `unionQuery.Select` restores it
  between its operands; the non-sibling `followingQuery`/`precedingQuery` do not touch it at all.
  Consequence (`Lemmas/Pull2/Context.lean`, `select_preserves_context`): *no* `Select` of the
  sixteen types leaves the context node moved.
* A filter predicate is an abstract decision `dec pred node` (what `f.do(t)` answers with
  `t.Current()` on `node`); cursor moves made *by the predicate's own evaluation* are not modelled
  (the node-set `Select`s such an evaluation consists of leave `t.Current()` where it was, by
  `select_preserves_context`).
* `map[uint64]bool` is the list of its keys; `map[int]int` an association list; a `nil` map is `none`.
* the `iterator` closures of `unionQuery`/`mergeQuery` capture `list` and `i`: modelled by the
  remaining slice `list[i:]`.
* the closures of the non-sibling `followingQuery`/`precedingQuery` capture a `*descendantQuery`
  over a `startQuery{node}` (`Select`: `if s.done { return nil }; s.done = true; return s.node.Copy()`).
  That is the `PQ` machine `descendant … (context c)` of `Pull.lean` run by `PQ.select` with the
  start node `node` in the place of `t.Current()`: `PQ.context 0` is `startQuery{done: false}`, it
  yields the node it is given once; `PQ.context (c+1)` is `done = true`.  `PQ.select` neither reads
  nor moves the real `t.Current()`.

Field names are those of the Go structs; every match arm of `PQ2.select` quotes the Go branch.
-/
namespace XPathV.Model
open XPathV

/-- A Go query struct (configuration and mutable fields), all node-set iterator types. -/
inductive PQ2
  | context (count : Nat)
  | absolute (count : Nat)
  | child (a : AxisInfo) (inp : PQ2) (it : Option (Ref × Bool)) (posit : Nat)
  | attr (a : AxisInfo) (inp : PQ2) (it : Option (Ref × Bool))
  | self (a : AxisInfo) (inp : PQ2)
  | parent (a : AxisInfo) (inp : PQ2)
  | descendant (a : AxisInfo) (self : Bool) (inp : PQ2) (it : Option (Ref × Bool)) (posit level : Nat)
  /-- `it = some (node, first)`; `table` is `a.table` (`none` = nil map) -/
  | ancestor (a : AxisInfo) (self : Bool) (inp : PQ2) (it : Option (Ref × Bool)) (table : Option (List String))
  /-- `it = some (node, q)`: the captured cursor and (non-sibling only) the captured `q *descendantQuery` -/
  | following (a : AxisInfo) (sibling : Bool) (inp : PQ2) (it : Option (Ref × Option PQ)) (posit : Nat)
  | preceding (a : AxisInfo) (sibling : Bool) (inp : PQ2) (it : Option (Ref × Option PQ)) (posit : Nat)
  | filter (inp : PQ2) (pred : Plan) (posit : Nat) (positmap : Option (List (Nat × Nat)))
  /-- `it = some rest`: the closure with `list[i:] = rest` -/
  | union (left right : PQ2) (it : Option (List Ref))
  | group (inp : PQ2) (posit : Nat)
  | cachedChild (a : AxisInfo) (inp : PQ2) (it : Option (Ref × Bool)) (posit : Nat)
  | descOverDesc (a : AxisInfo) (matchSelf : Bool) (inp : PQ2) (level posit : Nat) (currentNode : Ref)
  | merge (inp child : PQ2) (it : Option (List Ref))
  deriving Repr, Inhabited

/-- outcome of one `Select`: result, new struct state, new `t.Current()` -/
abbrev Out2 := Res Ref × PQ2 × Ref

/-! ## Closure bodies of the new types -/

/-- `for node.MoveToParent() { if a.Predicate(node) { return node } }; return nil` -/
def ancUp (d : Doc) (t : Ref → Bool) : Nat → Ref → Res Ref
  | 0, _ => .fuel
  | f+1, n =>
    match Nav.moveParent d n with
    | none => .done
    | some p => if t p then .yield p else ancUp d t f p

/-- body of `ancestorQuery.iterator`:
`if first { first = false; if a.Self && a.Predicate(node) { return node } }; for node.MoveToParent() {…}`.
On `yield j` the captured state is `(j, false)`. -/
def ancIter (d : Doc) (t : Ref → Bool) (self : Bool) (f : Nat) (n : Ref) (first : Bool) : Res Ref :=
  if first && self && t n then .yield n else ancUp d t f n

/-- `for node := a.iterator(); node != nil; node = a.iterator() { node_id := getNodeKey(node.Copy());
if _, ok := a.table[node_id]; !ok { a.table[node_id] = true; return node } }`.
Yields the node and the new table. -/
def ancLoop (d : Doc) (t : Ref → Bool) (key : Ref → String) (self : Bool) :
    Nat → Ref → Bool → List String → Res (Ref × List String)
  | 0, _, _, _ => .fuel
  | f+1, n, first, tb =>
    match ancIter d t self f n first with
    | .yield j => if tb.contains (key j) then ancLoop d t key self f j false tb else .yield (j, key j :: tb)
    | .done => .done
    | .fuel => .fuel

/-- body of the `Sibling` closure of `precedingQuery`:
`for { for !node.MoveToPrevious() { return nil }; if p.Predicate(node) { p.posit++; return node } }` -/
def precSibIter (d : Doc) (t : Ref → Bool) : Nat → Ref → Res Ref
  | 0, _ => .fuel
  | f+1, n =>
    match Nav.movePrev d n with
    | none => .done
    | some p => if t p then .yield p else precSibIter d t f p

/-- the fresh `&descendantQuery{Self: self, Input: &startQuery{node: node.Copy()}, Predicate: f.Predicate}`.
The start node is not stored in the `PQ` value: the machine is run as `PQ.select d cfg node …`, its
leaf `.context 0` playing `startQuery{node, done: false}` (see the header). -/
def innerDesc (a : AxisInfo) (self : Bool) : PQ := .descendant a self (.context 0) none 0 0

/-- `for !node.MoveToNext() { if !node.MoveToParent() { return nil } }` -/
def folClimb (d : Doc) : Nat → Ref → Res Ref
  | 0, _ => .fuel
  | f+1, n =>
    match Nav.moveNext d n with
    | some m => .yield m
    | none =>
      match Nav.moveParent d n with
      | some p => folClimb d f p
      | none => .done

/-- body of the non-sibling closure of `followingQuery`:
`for { if q == nil { …climb…; q = &descendantQuery{Self: true, Input: &startQuery{node: node.Copy()}, Predicate: f.Predicate} };
if node := q.Select(t); node != nil { f.posit = q.posit; return node }; q = nil }`.
Yields `(result, (node, q), f.posit)`.  `t.Current()` is neither read nor moved: `q` gets its start
node from its `startQuery`, which holds a copy of the captured `node` (the closure moves `node` only
while `q == nil`, so in state `(node, some q)` the start node of `q` is `node`). -/
def folIter (d : Doc) (cfg : ECfg) (a : AxisInfo) :
    Nat → Ref → Option PQ → Res (Ref × (Ref × Option PQ) × Nat)
  | 0, _, _ => .fuel
  | f+1, node, none =>
    match folClimb d f node with
    | .yield m => folIter d cfg a f m (some (innerDesc a true))
    | .done => .done
    | .fuel => .fuel
  | f+1, node, some q =>
    match PQ.select d cfg node f q with
    | (.yield j, q') => .yield (j, (node, some q'), q'.position)
    | (.done, _) => folIter d cfg a f node none
    | (.fuel, _) => .fuel

/-- `for !node.MoveToPrevious() { if !node.MoveToParent() { return nil }; p.posit = 0 }`;
yields the node reached and the value of `p.posit` -/
def precClimb (d : Doc) : Nat → Ref → Nat → Res (Ref × Nat)
  | 0, _, _ => .fuel
  | f+1, n, posit =>
    match Nav.movePrev d n with
    | some p => .yield (p, posit)
    | none =>
      match Nav.moveParent d n with
      | some q => precClimb d f q 0
      | none => .done

/-- body of the non-sibling closure of `precedingQuery` (as `folIter`:
`q = &descendantQuery{Self: true, Input: &startQuery{node: node.Copy()}, Predicate: p.Predicate}`, with
`if node := q.Select(t); node != nil { p.posit++; return node }`) -/
def precIter (d : Doc) (cfg : ECfg) (a : AxisInfo) :
    Nat → Ref → Option PQ → Nat → Res (Ref × (Ref × Option PQ) × Nat)
  | 0, _, _, _ => .fuel
  | f+1, node, none, posit =>
    match precClimb d f node posit with
    | .yield (m, posit') => precIter d cfg a f m (some (innerDesc a true)) posit'
    | .done => .done
    | .fuel => .fuel
  | f+1, node, some q, posit =>
    match PQ.select d cfg node f q with
    | (.yield j, q') => .yield (j, (node, some q'), posit + 1)
    | (.done, _) => precIter d cfg a f node none posit
    | (.fuel, _) => .fuel

/-- the call `f.iterator()` of `followingQuery` in closure state `k = (node, q)` with `f.posit = pos`:
yields `(result, new closure state, f.posit)`; neither closure touches `t.Current()`.
The `Sibling` closure `for { if !node.MoveToNext() { return nil }; if f.Predicate(node) { f.posit++; return node } }`
is the loop of `childIter` with `first = false`; that closure captures no `q` (`none`). -/
def folCall (d : Doc) (cfg : ECfg) (a : AxisInfo) (sibling : Bool) (f : Nat) (k : Ref × Option PQ) (pos : Nat) :
    Res (Ref × (Ref × Option PQ) × Nat) :=
  if sibling then
    match childIter d (test d cfg a) f k.1 false with
    | .yield j => .yield (j, (j, none), pos + 1)
    | .done => .done
    | .fuel => .fuel
  else folIter d cfg a f k.1 k.2

/-- the call `p.iterator()` of `precedingQuery` -/
def precCall (d : Doc) (cfg : ECfg) (a : AxisInfo) (sibling : Bool) (f : Nat) (k : Ref × Option PQ) (pos : Nat) :
    Res (Ref × (Ref × Option PQ) × Nat) :=
  if sibling then
    match precSibIter d (test d cfg a) f k.1 with
    | .yield j => .yield (j, (j, none), pos + 1)
    | .done => .done
    | .fuel => .fuel
  else precIter d cfg a f k.1 k.2 pos

/-- what `followingQuery.Select` does with a new input node: the captured `(node, q)`.
`Sibling`: the closure captures `node` only.  Otherwise `var q *descendantQuery;
if node.NodeType() == AttributeNode && node.MoveToParent() { q = &descendantQuery{Input: &startQuery{node: node.Copy()}, Predicate: f.Predicate} }`
(the descendants of the owner element follow its attributes in document order). -/
def folStart (d : Doc) (a : AxisInfo) (sibling : Bool) (n : Ref) : Ref × Option PQ :=
  if sibling then (n, none)
  else if n.isAttr then
    match Nav.moveParent d n with
    | some p => (p, some (innerDesc a false))
    | none => (n, none)
  else (n, none)

/-- `f.positmap[level]++` on the association-list model of the map -/
def bumpMap (m : List (Nat × Nat)) (level : Nat) : List (Nat × Nat) :=
  (level, ((m.lookup level).getD 0) + 1) :: m.filter (fun p => p.1 != level)

/-- `d.moveUpUntilNext()`:
`for !d.currentNode.MoveToNext() { d.level--; if d.level == 0 { return false }; d.currentNode.MoveToParent() }; return true`.
`yield` = returned true, `done` = returned false; both with the new `(currentNode, level)`. -/
def dodUp (d : Doc) : Nat → Ref → Nat → Res (Ref × Nat) × (Ref × Nat)
  | 0, cn, level => (.fuel, (cn, level))
  | f+1, cn, level =>
    match Nav.moveNext d cn with
    | some n => (.yield (n, level), (n, level))
    | none =>
      if level - 1 == 0 then (.done, (cn, 0))
      else dodUp d f ((Nav.moveParent d cn).getD cn) (level - 1)

/-- `for ok := true; ok; ok = d.moveToFirstChild() { if d.Predicate(d.currentNode) { d.posit++; return d.currentNode } }`.
`yield` = returned from inside, `done` = fell out of the loop; both with `(currentNode, level)`. -/
def dodInner (d : Doc) (t : Ref → Bool) : Nat → Ref → Nat → Res Unit × (Ref × Nat)
  | 0, cn, level => (.fuel, (cn, level))
  | f+1, cn, level =>
    if t cn then (.yield (), (cn, level))
    else match Nav.moveChild d cn with
      | some c => dodInner d t f c (level + 1)
      | none => (.done, (cn, level))

/-! ## Loops over another query's `Select` (used by union and merge) -/

/-- `for { node := X.Select(t); if node == nil { break }; code := getNodeKey(node.Copy());
if _, ok := m[code]; !ok { m[code] = true; list = append(list, node.Copy()) } }`.
`step` is `X.Select`; returns `list`, `m`, the state of `X` and `t.Current()`; `none` = out of fuel. -/
def collectU {σ : Type} (step : σ → Ref → Res Ref × σ × Ref) (key : Ref → String) :
    Nat → σ → Ref → List Ref → List String → Option (List Ref × List String × σ × Ref)
  | 0, _, _, _, _ => none
  | f+1, q, cur, list, m =>
    match step q cur with
    | (.yield n, q', cur') =>
      if m.contains (key n) then collectU step key f q' cur' list m
      else collectU step key f q' cur' (list ++ [n]) (key n :: m)
    | (.done, q', cur') => some (list, m, q', cur')
    | (.fuel, _, _) => none

/-- `for node := m.Child.Select(t); node != nil; node = m.Child.Select(t) { list = append(list, node.Copy()) }` -/
def collectM {σ : Type} (step : σ → Ref → Res Ref × σ × Ref) :
    Nat → σ → Ref → List Ref → Option (List Ref × σ × Ref)
  | 0, _, _, _ => none
  | f+1, q, cur, list =>
    match step q cur with
    | (.yield n, q', cur') => collectM step f q' cur' (list ++ [n])
    | (.done, q', cur') => some (list, q', cur')
    | (.fuel, _, _) => none

/-! ## `Evaluate`, `Clone`, `position()`, `depth()`, configuration -/

/-- the assignments of `Evaluate(t)` -/
def PQ2.evaluate : PQ2 → PQ2
  | .context _ => .context 0
  | .absolute _ => .absolute 0
  | .child a inp _ pos => .child a inp.evaluate none pos
  | .attr a inp _ => .attr a inp.evaluate none
  | .self a inp => .self a inp.evaluate
  | .parent a inp => .parent a inp.evaluate
  | .descendant a s inp _ pos level => .descendant a s inp.evaluate none pos level
  -- `a.Input.Evaluate(t); a.iterator = nil; a.table = nil`
  | .ancestor a s inp _ _ => .ancestor a s inp.evaluate none none
  -- `f.Input.Evaluate(t); f.iterator = nil`
  | .following a s inp _ pos => .following a s inp.evaluate none pos
  | .preceding a s inp _ pos => .preceding a s inp.evaluate none pos
  -- `f.Input.Evaluate(t); f.posit = 0; f.positmap = nil`
  | .filter inp pred _ _ => .filter inp.evaluate pred 0 none
  -- `u.iterator = nil; u.Left.Evaluate(t); u.Right.Evaluate(t)`
  | .union l r _ => .union l.evaluate r.evaluate none
  -- `g.posit = 0; return g.Input.Evaluate(t)`
  | .group inp _ => .group inp.evaluate 0
  | .cachedChild a inp _ pos => .cachedChild a inp.evaluate none pos
  -- `d.Input.Evaluate(t); d.level = 0`
  | .descOverDesc a ms inp _ pos cn => .descOverDesc a ms inp.evaluate 0 pos cn
  -- `m.Input.Evaluate(t); m.iterator = nil` (the child is evaluated by `Select`, per root)
  | .merge inp ch _ => .merge inp.evaluate ch none

/-- `Clone()`: configuration fields copied, inputs cloned, mutable fields zero.
`cachedChildQuery.Clone` returns a `*childQuery`; a zero-valued navigator field is modelled as
the root reference. -/
def PQ2.clone : PQ2 → PQ2
  | .context _ => .context 0
  | .absolute _ => .absolute 0
  | .child a inp _ _ => .child a inp.clone none 0
  | .attr a inp _ => .attr a inp.clone none
  | .self a inp => .self a inp.clone
  | .parent a inp => .parent a inp.clone
  | .descendant a s inp _ _ _ => .descendant a s inp.clone none 0 0
  | .ancestor a s inp _ _ => .ancestor a s inp.clone none none
  | .following a s inp _ _ => .following a s inp.clone none 0
  | .preceding a s inp _ _ => .preceding a s inp.clone none 0
  | .filter inp pred _ _ => .filter inp.clone pred 0 none
  | .union l r _ => .union l.clone r.clone none
  | .group inp _ => .group inp.clone 0
  | .cachedChild a inp _ _ => .child a inp.clone none 0
  | .descOverDesc a ms inp _ _ _ => .descOverDesc a ms inp.clone 0 0 (.node 0)
  | .merge inp ch _ => .merge inp.clone ch.clone none

/-- the plan a machine was built from (state erased) -/
def PQ2.plan : PQ2 → Plan
  | .context _ => .context
  | .absolute _ => .absolute
  | .child a inp _ _ => .child a inp.plan
  | .attr a inp _ => .attr a inp.plan
  | .self a inp => .self a inp.plan
  | .parent a inp => .parent a inp.plan
  | .descendant a s inp _ _ _ => .descendant a s inp.plan
  | .ancestor a s inp _ _ => .ancestor a s inp.plan
  | .following a s inp _ _ => .following a s inp.plan
  | .preceding a s inp _ _ => .preceding a s inp.plan
  | .filter inp pred _ _ => .filter inp.plan pred
  | .union l r _ => .union l.plan r.plan
  | .group inp _ => .group inp.plan
  | .cachedChild a inp _ _ => .cachedChild a inp.plan
  | .descOverDesc a ms inp _ _ _ => .descOverDesc a ms inp.plan
  | .merge inp ch _ => .merge inp.plan ch.plan

/-- the machine the builder creates for a plan; the filter predicate stays a plan (it is run by
the decision function); plans that are not node-set iterators have no machine -/
def PQ2.ofPlan : Plan → Option PQ2
  | .context => some (.context 0)
  | .absolute => some (.absolute 0)
  | .child a inp => (PQ2.ofPlan inp).map (fun i => .child a i none 0)
  | .attr a inp => (PQ2.ofPlan inp).map (fun i => .attr a i none)
  | .self a inp => (PQ2.ofPlan inp).map (fun i => .self a i)
  | .parent a inp => (PQ2.ofPlan inp).map (fun i => .parent a i)
  | .descendant a s inp => (PQ2.ofPlan inp).map (fun i => .descendant a s i none 0 0)
  | .ancestor a s inp => (PQ2.ofPlan inp).map (fun i => .ancestor a s i none none)
  | .following a s inp => (PQ2.ofPlan inp).map (fun i => .following a s i none 0)
  | .preceding a s inp => (PQ2.ofPlan inp).map (fun i => .preceding a s i none 0)
  | .filter inp pred => (PQ2.ofPlan inp).map (fun i => .filter i pred 0 none)
  | .union l r => (PQ2.ofPlan l).bind (fun l' => (PQ2.ofPlan r).map (fun r' => .union l' r' none))
  | .group inp => (PQ2.ofPlan inp).map (fun i => .group i 0)
  | .cachedChild a inp => (PQ2.ofPlan inp).map (fun i => .cachedChild a i none 0)
  | .descOverDesc a ms inp => (PQ2.ofPlan inp).map (fun i => .descOverDesc a ms i 0 0 (.node 0))
  | .merge inp ch =>
    (PQ2.ofPlan inp).bind (fun i => (PQ2.ofPlan ch).map (fun c => .merge i c none))
  | _ => none

/-- `getNodePosition(q)` -/
def PQ2.position : PQ2 → Nat
  | .child _ _ _ pos => pos
  | .cachedChild _ _ _ pos => pos
  | .descendant _ _ _ _ pos _ => pos
  | .following _ _ _ _ pos => pos
  | .preceding _ _ _ _ pos => pos
  | .filter _ _ pos _ => pos
  | .group _ pos => pos
  | .descOverDesc _ _ _ _ pos _ => pos
  | _ => 1

/-- `getNodeDepth(q)` -/
def PQ2.depth : PQ2 → Nat
  | .descendant _ _ _ _ _ level => level
  | _ => 0

/-! ## `Select` -/

/-- One call of `q.Select(t)` with `t.Current() = cur`; returns the answer, the new state of the
struct and the new `t.Current()`.  `dec pred n` is `f.do(t)` of a filter with predicate `pred` on
node `n`; `key` is `getNodeKey` (a string).  Every loop iteration and nested call costs one unit of fuel. -/
def PQ2.select (d : Doc) (cfg : ECfg) (dec : Plan → Ref → Bool) : Nat → PQ2 → Ref → Out2
  | 0, q, cur => (.fuel, q, cur)
  -- contextQuery: `if c.count > 0 { return nil }; c.count++; return t.Current().Copy()`
  | _+1, .context c, cur => if c > 0 then (.done, .context c, cur) else (.yield cur, .context (c+1), cur)
  -- absoluteQuery
  | _+1, .absolute c, cur =>
    if c > 0 then (.done, .absolute c, cur) else (.yield (Nav.root d), .absolute (c+1), cur)
  -- childQuery, `c.iterator == nil`
  | f+1, .child a inp none _, cur =>
    match PQ2.select d cfg dec f inp cur with
    | (.yield n, inp', cur') => PQ2.select d cfg dec f (.child a inp' (some (n, true)) 0) cur'
    | (.done, inp', cur') => (.done, .child a inp' none 0, cur')
    | (.fuel, inp', cur') => (.fuel, .child a inp' none 0, cur')
  -- childQuery, iterator present
  | f+1, .child a inp (some (n, first)) pos, cur =>
    match childIter d (test d cfg a) f n first with
    | .yield j => (.yield j, .child a inp (some (j, false)) (pos+1), cur)
    | .done => PQ2.select d cfg dec f (.child a inp none pos) cur
    | .fuel => (.fuel, .child a inp (some (n, first)) pos, cur)
  -- cachedChildQuery: the same `Select` body as childQuery
  | f+1, .cachedChild a inp none _, cur =>
    match PQ2.select d cfg dec f inp cur with
    | (.yield n, inp', cur') => PQ2.select d cfg dec f (.cachedChild a inp' (some (n, true)) 0) cur'
    | (.done, inp', cur') => (.done, .cachedChild a inp' none 0, cur')
    | (.fuel, inp', cur') => (.fuel, .cachedChild a inp' none 0, cur')
  | f+1, .cachedChild a inp (some (n, first)) pos, cur =>
    match childIter d (test d cfg a) f n first with
    | .yield j => (.yield j, .cachedChild a inp (some (j, false)) (pos+1), cur)
    | .done => PQ2.select d cfg dec f (.cachedChild a inp none pos) cur
    | .fuel => (.fuel, .cachedChild a inp (some (n, first)) pos, cur)
  -- attributeQuery
  | f+1, .attr a inp none, cur =>
    match PQ2.select d cfg dec f inp cur with
    | (.yield n, inp', cur') => PQ2.select d cfg dec f (.attr a inp' (some (n, n.isAttr))) cur'
    | (.done, inp', cur') => (.done, .attr a inp' none, cur')
    | (.fuel, inp', cur') => (.fuel, .attr a inp' none, cur')
  | f+1, .attr a inp (some (n, isAttr)), cur =>
    match attrIter d (test d cfg a) f n isAttr with
    | .yield j => (.yield j, .attr a inp (some (j, isAttr)), cur)
    | .done => PQ2.select d cfg dec f (.attr a inp none) cur
    | .fuel => (.fuel, .attr a inp (some (n, isAttr)), cur)
  -- selfQuery
  | f+1, .self a inp, cur =>
    match PQ2.select d cfg dec f inp cur with
    | (.yield n, inp', cur') =>
      if test d cfg a n then (.yield n, .self a inp', cur') else PQ2.select d cfg dec f (.self a inp') cur'
    | (.done, inp', cur') => (.done, .self a inp', cur')
    | (.fuel, inp', cur') => (.fuel, .self a inp', cur')
  -- parentQuery
  | f+1, .parent a inp, cur =>
    match PQ2.select d cfg dec f inp cur with
    | (.yield n, inp', cur') =>
      match (Nav.moveParent d n).filter (test d cfg a) with
      | some p => (.yield p, .parent a inp', cur')
      | none => PQ2.select d cfg dec f (.parent a inp') cur'
    | (.done, inp', cur') => (.done, .parent a inp', cur')
    | (.fuel, inp', cur') => (.fuel, .parent a inp', cur')
  -- descendantQuery, `d.iterator == nil`
  | f+1, .descendant a s inp none _ level, cur =>
    match PQ2.select d cfg dec f inp cur with
    | (.yield n, inp', cur') => PQ2.select d cfg dec f (.descendant a s inp' (some (n, true)) 0 0) cur'
    | (.done, inp', cur') => (.done, .descendant a s inp' none 0 level, cur')
    | (.fuel, inp', cur') => (.fuel, .descendant a s inp' none 0 level, cur')
  | f+1, .descendant a s inp (some (n, first)) pos level, cur =>
    match descIter d (test d cfg a) s f n first level with
    | .yield (j, l) => (.yield j, .descendant a s inp (some (j, false)) (pos+1) l, cur)
    | .done => PQ2.select d cfg dec f (.descendant a s inp none pos 0) cur
    | .fuel => (.fuel, .descendant a s inp (some (n, first)) pos level, cur)
  -- ancestorQuery, `a.iterator == nil` (after `if a.table == nil { a.table = make(…) }`):
  -- `node := a.Input.Select(t); if node == nil { return nil }; first := true; node = node.Copy(); a.iterator = …`
  | f+1, .ancestor a s inp none tb, cur =>
    match PQ2.select d cfg dec f inp cur with
    | (.yield n, inp', cur') => PQ2.select d cfg dec f (.ancestor a s inp' (some (n, true)) (some (tb.getD []))) cur'
    | (.done, inp', cur') => (.done, .ancestor a s inp' none (some (tb.getD [])), cur')
    | (.fuel, inp', cur') => (.fuel, .ancestor a s inp' none (some (tb.getD [])), cur')
  -- ancestorQuery, iterator present: the `for node := a.iterator(); …` loop, then `a.iterator = nil`
  | f+1, .ancestor a s inp (some (n, first)) tb, cur =>
    match ancLoop d (test d cfg a) (identityHash d cfg) s f n first (tb.getD []) with
    | .yield (j, tb') => (.yield j, .ancestor a s inp (some (j, false)) (some tb'), cur)
    | .done => PQ2.select d cfg dec f (.ancestor a s inp none (some (tb.getD []))) cur
    | .fuel => (.fuel, .ancestor a s inp (some (n, first)) tb, cur)
  -- followingQuery, `f.iterator == nil`: `f.posit = 0; node := f.Input.Select(t); if node == nil { return nil };
  -- node = node.Copy(); if f.Sibling { f.iterator = … } else { var q *descendantQuery; if node.NodeType() == AttributeNode && … }`
  -- (`folStart`; `t.Current()` stays where `f.Input.Select(t)` left it)
  | f+1, .following a sib inp none _, cur =>
    match PQ2.select d cfg dec f inp cur with
    | (.yield n, inp', cur') => PQ2.select d cfg dec f (.following a sib inp' (some (folStart d a sib n)) 0) cur'
    | (.done, inp', cur') => (.done, .following a sib inp' none 0, cur')
    | (.fuel, inp', cur') => (.fuel, .following a sib inp' none 0, cur')
  -- followingQuery, iterator present: `if node := f.iterator(); node != nil { return node }; f.iterator = nil`
  -- (the closure does not touch `t.Current()`)
  | f+1, .following a sib inp (some (node, q)) pos, cur =>
    match folCall d cfg a sib f (node, q) pos with
    | .yield (j, k', pos') => (.yield j, .following a sib inp (some k') pos', cur)
    | .done => PQ2.select d cfg dec f (.following a sib inp none pos) cur
    | .fuel => (.fuel, .following a sib inp (some (node, q)) pos, cur)
  -- precedingQuery, `p.iterator == nil`: `p.posit = 0; node := p.Input.Select(t); if node == nil { return nil };
  -- node = node.Copy(); if p.Sibling { p.iterator = … } else { var q query; p.iterator = … }`
  | f+1, .preceding a sib inp none _, cur =>
    match PQ2.select d cfg dec f inp cur with
    | (.yield n, inp', cur') => PQ2.select d cfg dec f (.preceding a sib inp' (some (n, none)) 0) cur'
    | (.done, inp', cur') => (.done, .preceding a sib inp' none 0, cur')
    | (.fuel, inp', cur') => (.fuel, .preceding a sib inp' none 0, cur')
  -- precedingQuery, iterator present: `if node := p.iterator(); node != nil { return node }; p.iterator = nil`
  | f+1, .preceding a sib inp (some (node, q)) pos, cur =>
    match precCall d cfg a sib f (node, q) pos with
    | .yield (j, k', pos') => (.yield j, .preceding a sib inp (some k') pos', cur)
    | .done => PQ2.select d cfg dec f (.preceding a sib inp none pos) cur
    | .fuel => (.fuel, .preceding a sib inp (some (node, q)) pos, cur)
  -- filterQuery (after `if f.positmap == nil { f.positmap = make(map[int]int) }`):
  -- `ctx := t.Current().Copy(); defer func() { t.Current().MoveTo(ctx) }()`
  -- `for { node := f.Input.Select(t); if node == nil { return nil }; node = node.Copy(); t.Current().MoveTo(node);
  --   if f.do(t) { level := getNodeDepth(f.Input); f.positmap[level]++; f.posit = f.positmap[level]; return node } }`.
  -- `ctx` is `cur`; every way out of the function passes the deferred `MoveTo(ctx)`, so every outcome carries `cur`.
  -- A rejected candidate `n`: the next round of the `for` calls `f.Input.Select(t)` with `t.Current()` on `n`; that
  -- is the recursive call (whose own restoring of `n` is overridden by the `defer` of this call).
  | f+1, .filter inp pred pos pm, cur =>
    match PQ2.select d cfg dec f inp cur with
    | (.yield n, inp', _) =>
      if dec pred n then
        (.yield n, .filter inp' pred (((pm.getD []).lookup inp'.depth).getD 0 + 1)
          (some (bumpMap (pm.getD []) inp'.depth)), cur)
      else
        match PQ2.select d cfg dec f (.filter inp' pred pos (some (pm.getD []))) n with
        | (out, q', _) => (out, q', cur)
    | (.done, inp', _) => (.done, .filter inp' pred pos (some (pm.getD [])), cur)
    | (.fuel, inp', _) => (.fuel, .filter inp' pred pos (some (pm.getD [])), cur)
  -- unionQuery, `u.iterator == nil`: `root := t.Current().Copy()`; drain `Left`; `t.Current().MoveTo(root)`;
  -- drain `Right`; `var i int; u.iterator = …`; then `return u.iterator()`.  Nothing is restored after `Right`:
  -- `t.Current()` stays where the last `u.Right.Select(t)` (the one that returned nil) left it.
  | f+1, .union l r none, cur =>
    match collectU (PQ2.select d cfg dec f) (identityHash d cfg) f l cur [] [] with
    | none => (.fuel, .union l r none, cur)
    | some (list1, m1, l', _) =>
      match collectU (PQ2.select d cfg dec f) (identityHash d cfg) f r cur list1 m1 with
      | none => (.fuel, .union l' r none, cur)
      | some (list2, _, r', cur2) => PQ2.select d cfg dec f (.union l' r' (some list2)) cur2
  -- unionQuery, `return u.iterator()`: `if i >= len(list) { return nil }; node := list[i]; i++; return node`
  | _+1, .union l r (some []), cur => (.done, .union l r (some []), cur)
  | _+1, .union l r (some (x :: rest)), cur => (.yield x, .union l r (some rest), cur)
  -- groupQuery: `node := g.Input.Select(t); if node == nil { return nil }; g.posit++; return node`
  | f+1, .group inp pos, cur =>
    match PQ2.select d cfg dec f inp cur with
    | (.yield n, inp', cur') => (.yield n, .group inp' (pos + 1), cur')
    | (.done, inp', cur') => (.done, .group inp' pos, cur')
    | (.fuel, inp', cur') => (.fuel, .group inp' pos, cur')
  -- descendantOverDescendantQuery, `d.level == 0`:
  -- `node := d.Input.Select(t); if node == nil { return nil }; d.currentNode = node.Copy(); d.posit = 0;
  --  if d.MatchSelf && d.Predicate(d.currentNode) { d.posit = 1; return d.currentNode };
  --  if !d.moveToFirstChild() { continue }`, then the inner `for ok := true; …`
  | f+1, .descOverDesc a ms inp 0 pos cn, cur =>
    match PQ2.select d cfg dec f inp cur with
    | (.yield n, inp', cur') =>
      if ms && test d cfg a n then (.yield n, .descOverDesc a ms inp' 0 1 n, cur')
      else match Nav.moveChild d n with
        | none => PQ2.select d cfg dec f (.descOverDesc a ms inp' 0 0 n) cur'
        | some c =>
          match dodInner d (test d cfg a) f c 1 with
          | (.yield (), (j, l)) => (.yield j, .descOverDesc a ms inp' l 1 j, cur')
          | (.done, (j, l)) => PQ2.select d cfg dec f (.descOverDesc a ms inp' l 0 j) cur'
          | (.fuel, (j, l)) => (.fuel, .descOverDesc a ms inp' l 0 j, cur')
    | (.done, inp', cur') => (.done, .descOverDesc a ms inp' 0 pos cn, cur')
    | (.fuel, inp', cur') => (.fuel, .descOverDesc a ms inp' 0 pos cn, cur')
  -- descendantOverDescendantQuery, `d.level != 0`: `else if !d.moveUpUntilNext() { continue }`, then the inner loop
  | f+1, .descOverDesc a ms inp (lv+1) pos cn, cur =>
    match dodUp d f cn (lv+1) with
    | (.done, (cn', l')) => PQ2.select d cfg dec f (.descOverDesc a ms inp l' pos cn') cur
    | (.fuel, (cn', l')) => (.fuel, .descOverDesc a ms inp l' pos cn', cur)
    | (.yield _, (cn', l')) =>
      match dodInner d (test d cfg a) f cn' l' with
      | (.yield (), (j, l)) => (.yield j, .descOverDesc a ms inp l (pos + 1) j, cur)
      | (.done, (j, l)) => PQ2.select d cfg dec f (.descOverDesc a ms inp l pos j) cur
      | (.fuel, (j, l)) => (.fuel, .descOverDesc a ms inp l pos j, cur)
  -- mergeQuery, `m.iterator == nil`: `root := m.Input.Select(t); if root == nil { return nil }; m.Child.Evaluate(t);
  --  root = root.Copy(); ctx := t.Current().Copy(); t.Current().MoveTo(root); var list []NodeNavigator;
  --  for node := m.Child.Select(t); node != nil; node = m.Child.Select(t) { list = append(list, node.Copy()) };
  --  t.Current().MoveTo(ctx); i := 0; m.iterator = …`.
  -- `ctx` is what `m.Input.Select(t)` left in `t.Current()` (`cur'`); the child is drained with `t.Current()` on `root`,
  -- wherever that loop leaves it, `MoveTo(ctx)` puts it back.  (Out of fuel inside the loop: still on `root`.)
  | f+1, .merge inp ch none, cur =>
    match PQ2.select d cfg dec f inp cur with
    | (.yield root, inp', cur') =>
      match collectM (PQ2.select d cfg dec f) f ch.evaluate root [] with
      | none => (.fuel, .merge inp' ch none, root)
      | some (list, ch', _) => PQ2.select d cfg dec f (.merge inp' ch' (some list)) cur'
    | (.done, inp', cur') => (.done, .merge inp' ch none, cur')
    | (.fuel, inp', cur') => (.fuel, .merge inp' ch none, cur')
  -- mergeQuery, `if node := m.iterator(); node != nil { return node }; m.iterator = nil`
  | f+1, .merge inp ch (some []), cur => PQ2.select d cfg dec f (.merge inp ch none) cur
  | _+1, .merge inp ch (some (x :: rest)), cur => (.yield x, .merge inp ch (some rest), cur)

/-- the `filterQuery` arm, unfolded once (its `for` loop is a recursive call on another filter state,
so unfolding by `simp only [PQ2.select]` would not stop) -/
theorem PQ2.select_filter (d : Doc) (cfg : ECfg) (dec : Plan → Ref → Bool) (f : Nat) (inp : PQ2) (pred : Plan)
    (pos : Nat) (pm : Option (List (Nat × Nat))) (cur : Ref) :
    PQ2.select d cfg dec (f+1) (.filter inp pred pos pm) cur =
      match PQ2.select d cfg dec f inp cur with
      | (.yield n, inp', _) =>
        if dec pred n then
          (.yield n, .filter inp' pred (((pm.getD []).lookup inp'.depth).getD 0 + 1)
            (some (bumpMap (pm.getD []) inp'.depth)), cur)
        else
          ((PQ2.select d cfg dec f (.filter inp' pred pos (some (pm.getD []))) n).1,
            (PQ2.select d cfg dec f (.filter inp' pred pos (some (pm.getD []))) n).2.1, cur)
      | (.done, inp', _) => (.done, .filter inp' pred pos (some (pm.getD [])), cur)
      | (.fuel, inp', _) => (.fuel, .filter inp' pred pos (some (pm.getD [])), cur) := by
  rw [PQ2.select]

/-! ## `NodeIterator.MoveNext` and draining -/

/-- `NodeIterator.MoveNext`: `n := t.query.Select(t); if n == nil { return false };
if !t.node.MoveTo(n) { t.node = n.Copy() }; return true`.
Returns the answer, the query state and `t.Current()`; `none` = out of fuel. -/
def PQ2.moveNext (d : Doc) (cfg : ECfg) (dec : Plan → Ref → Bool) (f : Nat) (q : PQ2) (cur : Ref) :
    Option (Bool × PQ2 × Ref) :=
  match PQ2.select d cfg dec f q cur with
  | (.yield n, q', _) => some (true, q', n)
  | (.done, q', cur') => some (false, q', cur')
  | (.fuel, _, _) => none

/-- `for t.MoveNext() { record t.Current() }`: every reported node with the `position()`/`depth()`
the query reports right after the pull; ends with the exhausted state and the final `t.Current()`. -/
def drain2 (d : Doc) (cfg : ECfg) (dec : Plan → Ref → Bool) : Nat → PQ2 → Ref → Option (List Item × PQ2 × Ref)
  | 0, _, _ => none
  | f+1, q, cur =>
    match PQ2.moveNext d cfg dec f q cur with
    | some (true, q', cur') =>
      (drain2 d cfg dec f q' cur').map (fun (l, q'', c'') => (⟨cur', q'.position, q'.depth⟩ :: l, q'', c''))
    | some (false, q', cur') => some ([], q', cur')
    | none => none

end XPathV.Model
