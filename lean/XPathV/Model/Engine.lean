import XPathV.Model.Builder
import XPathV.Model.Scanner
import XPathV.Spec.Values
import XPathV.Spec.Eval
/-!
# Model of `query.go`, `func.go`, `operator.go` at the level of result *sequences*

Every query type is modelled by the sequence its `Select` yields from a freshly reset state,
together with the `position()`/`depth()` counters that filters read (`Item.pos`, `Item.lvl`).
Per-node enumeration follows the Go loops (`MoveToChild/MoveToNext/MoveToParent` with a level
counter, …) on the navigator model `XPathV.Nav`; composition over input nodes is `flatMap`.

What this level cannot express: the *interleaving* of pulls and the mutable iterator state between
them.  That the real iterators behave like their sequence (no state leaks from one candidate to the
next, exhausted stays exhausted) is (a) the pull-machine layer `Model/Pull.lean` with its theorems
for the core types, (b) regenerated facts over `Clone`/`Evaluate` (F7), (c) the correspondence.

Go run-time failures are explicit outcomes (`EErr.crash`), never defaults.
-/
namespace XPathV.Model
open XPathV NumAlg

variable {F : Type} [NumAlg F]

inductive Crash | nilDeref | index | divZero | typeAssert | numError | unknownType
  deriving DecidableEq, Repr, Inhabited

inductive EErr
  | crash (k : Crash)
  | raised (fn : String)
  | diverge
  | unmodelled (what : String)
  deriving DecidableEq, Repr, Inhabited

inductive MVal (F : Type)
  | nodes (l : List Ref)
  | bool (b : Bool)
  | num (x : F)
  | str (s : String)
  | int (i : Int)          -- Go `int` (only `round` produces it)
  | nilv
  deriving Inhabited

structure Item where
  r : Ref
  pos : Nat := 1
  lvl : Nat := 0
  deriving Repr, Inhabited

/-- engine configuration: behaviours that are read off the source on every run -/
structure ECfg where
  /-- the navigator implements `NamespaceURL()` -/
  nsIface : Bool := true
  /-- identity key has a separator between name and index chain (post-fix) -/
  keySep : Bool := true
  /-- diagnostic switch (never the model of the code): node-set *values* are put into document
  order and de-duplicated before a function or conversion consumes them.  The check uses it to
  recognise the known finding "node-set values are sequences in iteration order" (KNOWN_FINDINGS). -/
  setSemantics : Bool := false

/-! ## Node test (`axisPredicate`) -/

def nodeTestM (d : Doc) (cfg : ECfg) (a : AxisInfo) (r : Ref) : Bool :=
  (a.typeTest == nodeType d r || a.typeTest == .all) &&
  (if a.lname != "" || a.pfx != "" then
     -- `prefix:*` has an empty local name: `localOK := root.LocalName == "" || …`
     if cfg.nsIface && a.hasNS then (a.lname == "" || a.lname == localName d r) && a.nsURI == nsURL d r
     else (a.lname == "" || a.lname == localName d r) && a.pfx == prefixOf d r
   else true)

/-! ## Per-node walks, written like the Go loops -/

/-- `r` and its following siblings (`MoveToNext` until it fails) -/
def sibsFrom (d : Doc) : Nat → Ref → List Ref
  | 0, _ => []
  | f+1, r => r :: match Nav.moveNext d r with
    | some n => sibsFrom d f n
    | none => []

def childrenM (d : Doc) (r : Ref) : List Ref :=
  match Nav.moveChild d r with
  | some c => sibsFrom d d.length c
  | none => []

def nextSibsM (d : Doc) (r : Ref) : List Ref :=
  match Nav.moveNext d r with
  | some n => sibsFrom d d.length n
  | none => []

/-- previous siblings, nearest first (`MoveToPrevious` until it fails) -/
def prevSibsFrom (d : Doc) : Nat → Ref → List Ref
  | 0, _ => []
  | f+1, r => match Nav.movePrev d r with
    | some p => p :: prevSibsFrom d f p
    | none => []

def prevSibsM (d : Doc) (r : Ref) : List Ref := prevSibsFrom d d.length r

def attrChain (d : Doc) : Nat → Ref → List Ref
  | 0, _ => []
  | f+1, r => match Nav.moveNextAttr d r with
    | some a => a :: attrChain d f a
    | none => []

/-- `attributeQuery`: `MoveToNextAttribute` until it fails; an attribute has no attributes -/
def attrsM (d : Doc) (r : Ref) : List Ref :=
  if r.isAttr then [] else attrChain d ((recAt d r.idx).attrs.length + 1) r

def ancestorsFrom (d : Doc) : Nat → Ref → List Ref
  | 0, _ => []
  | f+1, r => match Nav.moveParent d r with
    | some p => p :: ancestorsFrom d f p
    | none => []

def ancestorsM (d : Doc) (r : Ref) : List Ref := ancestorsFrom d (d.length + 1) r

/-- the inner climbing loop of `descendantQuery`: `MoveToNext`, else `MoveToParent` and level-1 -/
def climb (d : Doc) : Nat → Ref → Option (Ref × Nat)
  | 0, _ => none
  | level+1, r =>
    match Nav.moveNext d r with
    | some n => some (n, level+1)
    | none =>
      match Nav.moveParent d r with
      | some p => climb d level p
      | none => none

/-- one step of the `descendantQuery` iterator -/
def stepD (d : Doc) (r : Ref) (level : Nat) : Option (Ref × Nat) :=
  match Nav.moveChild d r with
  | some c => some (c, level+1)
  | none => climb d level r

/-- all proper descendants in the order the iterator visits them, with the level counter -/
def walkD (d : Doc) : Nat → Ref → Nat → List (Ref × Nat)
  | 0, _, _ => []
  | f+1, r, level =>
    match stepD d r level with
    | none => []
    | some (n, l) => (n, l) :: walkD d f n l

def descM (d : Doc) (r : Ref) : List (Ref × Nat) := walkD d d.length r 0

/-- roots of the sibling subtrees `followingQuery` visits: next sibling, else climb -/
def followRoots (d : Doc) : Nat → Ref → List Ref
  | 0, _ => []
  | f+1, r =>
    match Nav.moveNext d r with
    | some n => n :: followRoots d f n
    | none =>
      match Nav.moveParent d r with
      | some p => followRoots d f p
      | none => []

/-- roots of the sibling subtrees `precedingQuery` visits, with "position was reset before it" -/
def precRoots (d : Doc) : Nat → Ref → Bool → List (Ref × Bool)
  | 0, _, _ => []
  | f+1, r, reset =>
    match Nav.movePrev d r with
    | some p => (p, reset) :: precRoots d f p false
    | none =>
      match Nav.moveParent d r with
      | some q => precRoots d f q true
      | none => []

/-- top-most matching proper descendants (`descendantOverDescendantQuery` below one input) -/
def topMostFrom (d : Doc) (test : Ref → Bool) : Nat → List Ref → List Ref
  | 0, _ => []
  | _, [] => []
  | f+1, c :: cs =>
    (if test c then [c] else topMostFrom d test f (childrenM d c)) ++ topMostFrom d test f cs

def topMost (d : Doc) (test : Ref → Bool) (r : Ref) : List Ref :=
  topMostFrom d test (2 * d.length + 2) (childrenM d r)

/-! ## Node identity (`getNodeKey`): the rendered key -/

def sibIndex (d : Doc) (r : Ref) : Nat := (prevSibsM d r).length + 1

def indexChain (d : Doc) (r : Ref) : String :=
  (r :: ancestorsM d r).foldl (fun s x => s ++ "-" ++ toString (sibIndex d x)) ""

/-- `writeKeyPart`: the string preceded by its byte length -/
def keyPart (s : String) : String := toString s.utf8ByteSize ++ ":" ++ s

/-- `getNodeKey`: `strconv.Itoa(int(n.NodeType())) + ":"` (RootNode 0, ElementNode 1, AttributeNode 2,
TextNode 3, CommentNode 4), then the name parts (and, for a node that is not an element, the value),
then the chain of sibling indices from the node up to the root; nothing after the tag for the root -/
def identityKey (d : Doc) (cfg : ECfg) (r : Ref) : String :=
  let _ := cfg
  match nodeType d r with
  | .attr =>
    "2:" ++ (keyPart (prefixOf d r) ++ keyPart (localName d r) ++ keyPart (stringValue d r) ++ indexChain d r)
  | .text =>
    "3:" ++ (keyPart (prefixOf d r) ++ keyPart (localName d r) ++ keyPart (stringValue d r) ++ indexChain d r)
  | .comment =>
    "4:" ++ (keyPart (prefixOf d r) ++ keyPart (localName d r) ++ keyPart (stringValue d r) ++ indexChain d r)
  | .elem => "1:" ++ (keyPart (prefixOf d r) ++ keyPart (localName d r) ++ indexChain d r)
  | _ => "0:"

/-- FNV-64a — only the legacy `getHashCode` helper (a hash of the node key, kept by the package for
callers that want a number); the engine does NOT de-duplicate with it any more -/
def fnv64a (bs : List UInt8) : UInt64 :=
  bs.foldl (fun h b => (h ^^^ b.toUInt64) * 0x100000001b3) 0xcbf29ce484222325

/-- the legacy `getHashCode`: FNV-64a of the node key (documentation only; unused by the engine) -/
def legacyHashCode (d : Doc) (cfg : ECfg) (r : Ref) : UInt64 := fnv64a (identityKey d cfg r).toUTF8.toList

/-- what union and ancestor de-duplicate with: the node key STRING itself (`map[string]bool`).
(The name is historical: it used to be the FNV-64a hash of the key.) -/
def identityHash (d : Doc) (cfg : ECfg) (r : Ref) : String := identityKey d cfg r

/-- keep the first occurrence of every key (the `map[string]bool` of union/ancestor) -/
def dedupByKey (key : Ref → String) : List Ref → List String → List Ref
  | [], _ => []
  | r :: rs, seen =>
    if seen.contains (key r) then dedupByKey key rs seen
    else r :: dedupByKey key rs (key r :: seen)

/-! ## Conversions (`asBool`, `asString`, `asNumber`) -/

def goParseFloat (s : String) : F := Spec.strToNum s   -- post-fix: XPath Number syntax

def asBoolM : MVal F → Except EErr Bool
  | .nilv => .ok false
  | .bool b => .ok b
  | .num x => .ok (!(isNaN x) && !(NumAlg.eq x (ofNat 0)))
  | .str s => .ok (s != "")
  | .nodes l => .ok (!l.isEmpty)
  | .int _ => .error (.crash .unknownType)

def asStringM (d : Doc) : MVal F → Except EErr String
  | .nilv => .ok ""
  | .bool b => .ok (if b then "true" else "false")
  | .num x => .ok (Spec.numToStr x)
  | .str s => .ok s
  | .nodes l => .ok (match l with | [] => "" | r :: _ => stringValue d r)
  | .int _ => .error (.crash .unknownType)

def asNumberM (d : Doc) : MVal F → F
  | .nodes l => match l with
    | [] => nan
    | r :: _ => goParseFloat (stringValue d r)
  | .num x => x
  | .str s => goParseFloat s
  | _ => nan

/-! ## Comparison dispatch (`logicalFuncs`) -/

/-- `cmpStringStringF` after the repair: `=` and `!=` on the strings, the four relational operators
on the numbers of the strings (`cmpNumberNumberF(op, stringToNumber(a), stringToNumber(b))`) -/
def cmpStrF (op : Spec.CmpOp) (a b : String) : Bool :=
  match op with
  | .eq => a == b | .ne => a != b
  | _ => Spec.cmpNum (F := F) op (goParseFloat a) (goParseFloat b)

inductive XType | boolean | number | string | nodeSet
  deriving DecidableEq, Repr

def xtypeOf : MVal F → Except EErr XType
  | .bool _ => .ok .boolean
  | .num _ => .ok .number
  | .str _ => .ok .string
  | .nodes _ => .ok .nodeSet
  | _ => .error (.crash .unknownType)

/-- `cmpBooleanBooleanF` after the repair: = and != on truth values, relational on 0/1 -/
def cmpBoolF (op : Spec.CmpOp) (a b : Bool) : Bool :=
  match op with
  | .eq => a == b | .ne => a != b
  | _ => Spec.cmpNum (F := F) op (if a then ofNat 1 else ofNat 0) (if b then ofNat 1 else ofNat 0)

/-- `numberBesideBoolean`: the number a relational operator sees in an operand whose other operand
is a boolean — a number itself, a string through `stringToNumber`, anything else (a node-set, a
boolean) through `boolToNumber(asBool(v))` -/
def numBesideBoolM (v : MVal F) : Except EErr F :=
  match v with
  | .num x => .ok x
  | .str s => .ok (goParseFloat s)
  | v => do let b ← asBoolM v; pure (if b then ofNat 1 else ofNat 0)

def cmpM (d : Doc) (op : Spec.CmpOp) (m n : MVal F) : Except EErr Bool := do
  let t1 ← xtypeOf m
  let t2 ← xtypeOf n
  let sv := stringValue d
  match m, n with
  -- `cmpBooleanAny` / `cmpAnyBoolean` after the repair: relational operators on numbers
  -- (`boolToNumber` of the boolean, `numberBesideBoolean` of the other operand), `=`/`!=` on truth values
  | .bool a, _ =>
    if op.isRel then do
      let y ← numBesideBoolM n
      pure (Spec.cmpNum op (if a then ofNat 1 else ofNat 0) y)
    else do let b ← asBoolM n; pure (cmpBoolF (F := F) op a b)
  | _, .bool b =>
    if op.isRel then do
      let x ← numBesideBoolM m
      pure (Spec.cmpNum op x (if b then ofNat 1 else ofNat 0))
    else do let a ← asBoolM m; pure (cmpBoolF (F := F) op a b)
  | .num a, .num b => pure (Spec.cmpNum op a b)
  | .num a, .str b => pure (Spec.cmpNum op a (goParseFloat b))
  | .num a, .nodes l => pure (l.any (fun x => Spec.cmpNum op a (goParseFloat (sv x))))
  | .str a, .num b => pure (Spec.cmpNum op (goParseFloat a : F) b)   -- operands in order (cmpStringNumeric after the repair)
  | .str a, .str b => pure (cmpStrF (F := F) op a b)
  | .str a, .nodes l => pure (l.any (fun x => cmpStrF (F := F) op a (sv x)))
  | .nodes l, .num b => pure (l.any (fun x => Spec.cmpNum op (goParseFloat (sv x)) b))
  | .nodes l, .str b => pure (l.any (fun x => cmpStrF (F := F) op (sv x) b))   -- (node value, literal): operands in order (cmpNodeSetString after the repair)
  | .nodes la, .nodes lb => pure (la.any (fun x => lb.any (fun y => cmpStrF (F := F) op (sv x) (sv y))))
  | _, _ => let _ := (t1, t2); .error (.crash .unknownType)

def logicalVal (d : Doc) (op : String) (m n : MVal F) : Except EErr (MVal F) :=
  match Spec.CmpOp.ofString op with
  | some cop => do
    let b ← cmpM d cop m n
    .ok (.bool b)
  | none => .error (.unmodelled op)

/-! ## String helpers of `func.go` -/

def goTrimSpace (cs : List Char) : List Char :=
  ((cs.dropWhile isSpace).reverse.dropWhile isSpace).reverse

/-- the loop of `normalizespaceFunc`: drop a space followed by a space, map spaces to ' ' -/
def normLoop : List Char → List Char
  | [] => []
  | [c] => [if isSpace c then ' ' else c]
  | c :: c2 :: cs =>
    if isSpace c && isSpace c2 then normLoop (c2 :: cs)
    else (if isSpace c then ' ' else c) :: normLoop (c2 :: cs)

def normalizeSpaceM (s : String) : String := String.ofList (normLoop (goTrimSpace s.toList))

/-- `xpathRound`: `r := math.Floor(x); if x-r >= 0.5 { return r + 1 }; return r` -/
def xpathRoundM (x : F) : F :=
  let r := floor x
  if le (div (ofNat 1) (ofNat 2)) (sub x r) then add r (ofNat 1) else r

/-- `substring` after the repairs: positions `p` with `lo ≤ p < hi`, `lo = xpathRound(start)`,
`hi = lo + xpathRound(length)` (or +∞), clipped to the string by float comparisons -/
def substringM (m : String) (start : F) (len : Option F) : String :=
  let lo := xpathRoundM start
  let n := m.length
  let cs := m.toList
  match len with
  | none =>
    -- keep positions p ≥ lo
    String.ofList ((cs.zipIdx).filterMap (fun (c, i) => if le lo (ofNat (i+1) : F) then some c else none))
  | some l =>
    let hi := add lo (xpathRoundM l)
    let _ := n
    String.ofList ((cs.zipIdx).filterMap (fun (c, i) =>
      if le lo (ofNat (i+1) : F) && lt (ofNat (i+1) : F) hi then some c else none))

/-! ## The engine -/

section
variable (d : Doc) (cfg : ECfg)

def test (a : AxisInfo) : Ref → Bool := nodeTestM d cfg a

def numbered (l : List Ref) : List Item := l.zipIdx.map (fun (r, i) => ⟨r, i + 1, 0⟩)
def plain (l : List Ref) : List Item := l.map (fun r => ⟨r, 1, 0⟩)

/-- `predicate(q)`: the `Test` method of the axis query types, always-true otherwise -/
def planTest : Plan → Ref → Bool
  | .ancestor a _ _ | .attr a _ | .child a _ | .cachedChild a _ | .descendant a _ _
  | .following a _ _ | .preceding a _ _ | .parent a _ | .self a _ => nodeTestM d cfg a
  | _ => fun _ => true

/-- `positionFunc`: 1 + preceding siblings passing the first input's test -/
def positionM (fi : Plan) (c : Ref) : Nat := 1 + ((prevSibsM d c).filter (planTest d cfg fi)).length

/-- `lastFunc`: `MoveToFirst`, then count the siblings passing the test -/
def lastM (fi : Plan) (c : Ref) : Nat :=
  let first := (Nav.moveFirst d c).getD c
  ((sibsFrom d (d.length + 1) first).filter (planTest d cfg fi)).length

def precedingItems (a : AxisInfo) (n : Ref) : List Item :=
  let roots := precRoots d (2 * d.length + 2) n false
  let step (acc : List Item × Nat) (rb : Ref × Bool) : List Item × Nat :=
    let (out, cnt) := acc
    let cnt := if rb.2 then 0 else cnt
    let ms := ((rb.1 :: (descM d rb.1).map (·.1)).filter (test d cfg a))
    (out ++ ms.zipIdx.map (fun (r, i) => ⟨r, cnt + i + 1, 0⟩), cnt + ms.length)
  (roots.foldl step ([], 0)).1

def followingItems (a : AxisInfo) (n : Ref) : List Item :=
  let first : List Item :=
    if n.isAttr then numbered (((descM d (.node n.idx)).map (·.1)).filter (test d cfg a)) else []
  first ++ (followRoots d (2 * d.length + 2) n).flatMap (fun root =>
    numbered ((root :: (descM d root).map (·.1)).filter (test d cfg a)))

/-- result of the mutual evaluation -/
abbrev SelRes := Except EErr (List Item)

/-- apply a filter predicate's value to a candidate (`filterQuery.do`) -/
def predDecision (v : MVal F) (it : Item) (predSelNonEmpty : Bool) : Bool :=
  match v with
  | .bool b => b
  | .str s => s != ""
  | .num x => toInt x == some (it.pos : Int)
  | .nodes l => !l.isEmpty
  | _ => predSelNonEmpty

/-- positions a filter reports for its outputs: `positmap[level]++` -/
def filterPositions (kept : List Item) : List Item :=
  let step (acc : List Item × List (Nat × Nat)) (it : Item) : List Item × List (Nat × Nat) :=
    let (out, counts) := acc
    let c := ((counts.lookup it.lvl).getD 0) + 1
    (out ++ [⟨it.r, c, 0⟩], (it.lvl, c) :: counts.filter (fun p => p.1 != it.lvl))
  (kept.foldl step ([], [])).1

/-- the function library; `asel` is the `Select` view of the first argument for the name functions -/
def callFn (name : String) (fi : Plan) (c : Ref) (args : List (Except EErr (MVal F)))
    (asel : Option (List Ref)) : Except EErr (MVal F) :=
  let arg (i : Nat) : Except EErr (MVal F) := (args[i]?).getD (.ok .nilv)
  let strOrFirst (v : MVal F) (other : Except EErr (Option String)) : Except EErr (Option String) :=
    match v with
    | .str s => .ok (some s)
    | .nodes [] => .ok none
    | .nodes (r :: _) => .ok (some (stringValue d r))
    | _ => other
  -- after the repair the second argument of `starts-with`/`ends-with`/`contains` is read like the
  -- first: a string as it is, a node-set as the string-value of its first node ("" when empty),
  -- anything else (number, boolean) raises "argument type must be string"
  let secondArg (m : String) : Except EErr (MVal F) := do
    let v2 ← arg 1
    let n := (← strOrFirst v2 (.error (.raised name))).getD ""
    if name == "starts-with" then .ok (.bool (Spec.fnStartsWith m n))
    else if name == "ends-with" then .ok (.bool (Spec.fnEndsWith m n))
    else .ok (.bool (Spec.fnContains m n))
  match name with
  | "true" => .ok (.bool true)
  | "false" => .ok (.bool false)
  | "position" => .ok (.num (ofNat (positionM d cfg fi c)))
  | "last" => .ok (.num (ofNat (lastM d cfg fi c)))
  | "count" => do
    match ← arg 0 with
    | .nodes l => .ok (.num (ofNat l.length))
    | _ => .ok (.num (ofNat 0))
  | "sum" => do
    match ← arg 0 with
    | .nodes l => .ok (.num (l.foldl (fun acc r =>
        let v : F := goParseFloat (stringValue d r)
        if isNaN v then acc else add acc v) (ofNat 0)))
    | .num x => .ok (.num x)
    | .str s =>
      let v : F := goParseFloat s
      if isNaN v then .error (.raised "sum") else .ok (.num v)
    | _ => .ok (.num (ofNat 0))
  | "ceiling" => do let v ← arg 0; .ok (.num (ceil (asNumberM d v)))
  | "floor" => do let v ← arg 0; .ok (.num (floor (asNumberM d v)))
  | "round" => do
    let v ← arg 0
    match toInt (roundGo (asNumberM d v)) with
    | some i => .ok (.int i)
    | none => .ok (.int 0)
  | "name" | "local-name" | "namespace-uri" =>
    let node : Option Ref := match asel with
      | none => some c
      | some l => l.head?
    match node with
    | none => .ok (.str "")
    | some r =>
      if name == "local-name" then .ok (.str (localName d r))
      else if name == "namespace-uri" then .ok (.str (if cfg.nsIface then nsURL d r else prefixOf d r))
      else .ok (.str (if prefixOf d r == "" then localName d r else prefixOf d r ++ ":" ++ localName d r))
  | "boolean" => do
    let v ← if args.isEmpty then pure (.nodes [c]) else arg 0
    let b ← asBoolM v
    .ok (.bool b)
  | "number" => do
    let v ← if args.isEmpty then pure (.nodes [c]) else arg 0
    .ok (.num (asNumberM d v))
  | "string" => do
    let v ← if args.isEmpty then pure (.nodes [c]) else arg 0
    let s ← asStringM d v
    .ok (.str s)
  | "starts-with" | "ends-with" | "contains" => do
    let v1 ← arg 0
    match ← strOrFirst v1 (.error (.raised name)) with
    | none => secondArg ""
    | some m => secondArg m
  | "matches" | "replace" => .error (.unmodelled name)
  | "normalize-space" => do
    let v ← arg 0
    match ← strOrFirst v (.ok (some "")) with
    | none => .ok (.str "")
    | some m => .ok (.str (normalizeSpaceM m))
  | "substring" => do
    let v ← arg 0
    match ← strOrFirst v (.ok (some "")) with
    | none => .ok (.str "")
    | some m => do
      match ← arg 1 with
      | .num start =>
        if args.length < 3 then .ok (.str (substringM m start none))
        else do
          match ← arg 2 with
          | .num l => .ok (.str (substringM m start (some l)))
          | _ => .error (.raised name)
      | _ => .error (.raised name)
  | "substring-before" | "substring-after" => do
    let v ← arg 0
    match ← strOrFirst v (.ok (some "")) with
    | none => .ok (.str "")
    | some s => do
      let w ← arg 1
      let word := (← strOrFirst w (.ok (some ""))).getD ""
      if name == "substring-after" then .ok (.str (Spec.fnSubstringAfter s word))
      else .ok (.str (Spec.fnSubstringBefore s word))
  | "string-length" => do
    let v ← arg 0
    match ← strOrFirst v (.ok (some "")) with
    | none => .ok (.num (ofNat 0))
    | some s => .ok (.num (ofNat s.length))
  | "translate" => do
    let s ← asStringM d (← arg 0)
    let src ← asStringM d (← arg 1)
    let dst ← asStringM d (← arg 2)
    .ok (.str (Spec.fnTranslate s src dst))
  | "not" => do
    match ← arg 0 with
    | .bool b => .ok (.bool (!b))
    | .nodes l => .ok (.bool l.isEmpty)
    | v => do
      -- after the repair: `default: return !asBool(t, v)` (a number or a string: not(boolean(v));
      -- the `int` of `round()` makes `asBool` panic with "unexpected type")
      let b ← asBoolM v
      .ok (.bool (!b))
  | "concat" => do
    let parts ← args.mapM (fun a => do
      match ← a with
      | .str s => pure s
      | .nodes (r :: _) => pure (stringValue d r)
      | _ => pure "")
    .ok (.str (parts.foldl (· ++ ·) ""))
  | "string-join" => do
    let sv ← arg 1
    let sep := match sv with
      | .str s => s
      | .nodes (r :: _) => stringValue d r
      | _ => ""
    match ← arg 0 with
    | .str s => .ok (.str s)
    | .nodes l => .ok (.str (sep.intercalate (l.map (stringValue d))))
    | _ => .ok (.str "")
  | "lower-case" => do
    let s ← asStringM d (← arg 0)
    .ok (.str (Spec.fnLowerCase s))
  | other => .error (.unmodelled other)


mutual

/-- the sequence `Select` yields from a reset state with context node `c` -/
def sel : Plan → Ref → Except EErr (List Item)
  | .nil, _ => .error (.crash .nilDeref)
  | .context, c => .ok [⟨c, 1, 0⟩]
  | .absolute, _ => .ok [⟨Nav.root d, 1, 0⟩]
  | .child a inp, c => do
    let ins ← sel inp c
    .ok (ins.flatMap (fun it => numbered ((childrenM d it.r).filter (test d cfg a))))
  | .cachedChild a inp, c => do
    let ins ← sel inp c
    .ok (ins.flatMap (fun it => numbered ((childrenM d it.r).filter (test d cfg a))))
  | .attr a inp, c => do
    let ins ← sel inp c
    .ok (ins.flatMap (fun it => plain ((attrsM d it.r).filter (test d cfg a))))
  | .parent a inp, c => do
    let ins ← sel inp c
    .ok (ins.flatMap (fun it => plain (((Nav.moveParent d it.r).toList).filter (test d cfg a))))
  | .self a inp, c => do
    let ins ← sel inp c
    .ok (plain ((ins.map (·.r)).filter (test d cfg a)))
  | .descendant a self inp, c => do
    let ins ← sel inp c
    .ok (ins.flatMap (fun it =>
      let own : List (Ref × Nat) := if self && test d cfg a it.r then [(it.r, 0)] else []
      let l := own ++ (descM d it.r).filter (fun p => test d cfg a p.1)
      l.zipIdx.map (fun (p, i) => ⟨p.1, i + 1, p.2⟩)))
  | .ancestor a self inp, c => do
    let ins ← sel inp c
    let all := ins.flatMap (fun it =>
      ((if self then [it.r] else []) ++ ancestorsM d it.r).filter (test d cfg a))
    .ok (plain (dedupByKey (identityHash d cfg) all []))
  | .following a sibling inp, c => do
    let ins ← sel inp c
    .ok (ins.flatMap (fun it =>
      if sibling then numbered ((nextSibsM d it.r).filter (test d cfg a))
      else followingItems d cfg a it.r))
  | .preceding a sibling inp, c => do
    let ins ← sel inp c
    .ok (ins.flatMap (fun it =>
      if sibling then numbered ((prevSibsM d it.r).filter (test d cfg a))
      else precedingItems d cfg a it.r))
  | .descOverDesc a matchSelf inp, c => do
    let ins ← sel inp c
    .ok (ins.flatMap (fun it =>
      if matchSelf && test d cfg a it.r then [⟨it.r, 1, 0⟩]
      else numbered (topMost d (test d cfg a) it.r)))
  | .filter inp pred, c => do
    let ins ← sel inp c
    let flags ← ins.mapM (fun it => do
      let v ← evalP pred it.r
      match v with
      | .bool _ | .str _ | .num _ | .nodes _ => pure (predDecision v it false)
      | _ => do
        let s ← sel pred it.r
        pure (predDecision v it (!s.isEmpty)))
    let kept := (ins.zip flags).filterMap (fun (it, b) => if b then some it else none)
    .ok (filterPositions kept)
  | .merge inp child, c => do
    let ins ← sel inp c
    let parts ← ins.mapM (fun it => sel child it.r)
    .ok (plain (parts.flatten.map (·.r)))
  | .group inp, c => do
    let ins ← sel inp c
    .ok (numbered (ins.map (·.r)))
  | .union l r, c => do
    let a ← sel l c
    let b ← sel r c
    .ok (plain (dedupByKey (identityHash d cfg) ((a ++ b).map (·.r)) []))
  | .transform _ inp, c => do
    let ins ← sel inp c
    .ok (plain (ins.map (·.r)).reverse)
  | .logical op l r, c => do
    -- `logicalQuery.Select`: the context node while the comparison is true (after the repair: once)
    let m ← evalP l c
    let n ← evalP r c
    let v ← logicalVal d op m n
    match v with
    | .bool true => .ok [⟨c, 1, 0⟩]
    | _ => .ok []
  | .boolean isOr l r, c => do
    let a ← sel l c
    let b ← sel r c
    if isOr then .ok (plain ((a ++ b).map (·.r)))
    else
      -- the `and` branch appends to nil slices: only the last node of the last non-empty side survives
      .ok (plain (match b.getLast?, a.getLast? with
        | some x, _ => [x.r]
        | none, some y => [y.r]
        | none, none => []))
  | .func _ _ _, _ => .ok []
  | .constStr _, _ => .ok []
  | .constNum _, _ => .ok []
  | .numeric _ _ _, _ => .ok []
  | .lastFunc _, _ => .ok []
  | .pnil, _ => .ok []
  | .pcons _ _, _ => .ok []

/-- `Evaluate` -/
def evalP : Plan → Ref → Except EErr (MVal F)
  | .nil, _ => .error (.crash .nilDeref)
  | .constStr s, _ => .ok (.str s)
  | .constNum l, _ => .ok (.num (Spec.strToNum l))
  | .group inp, c => evalP inp c
  | .logical op l r, c => do
    let m ← evalP l c
    let n ← evalP r c
    logicalVal d op m n
  | .numeric op l r, c => do
    let m ← evalP l c
    let n ← evalP r c
    let a := asNumberM d m
    let b := asNumberM d n
    match op with
    | "+" => .ok (.num (add a b))
    | "-" => .ok (.num (sub a b))
    | "*" => .ok (.num (mul a b))
    | "div" => .ok (.num (div a b))
    | "mod" => .ok (.num (fmod a b))
    | _ => .error (.unmodelled op)
  | .boolean isOr l r, c => do
    let m ← evalP l c
    let left ← asBoolM m
    if isOr && left then .ok (.bool true)
    else if !isOr && !left then .ok (.bool false)
    else do
      let n ← evalP r c
      let right ← asBoolM n
      .ok (.bool right)
  | .lastFunc inp, c => do
    let s ← sel inp c
    .ok (.num (ofNat s.length))
  | .func name fi args, c => do
    let avs ← argVals args c
    let asel ← match args with
      | .pcons h _ => if name == "name" || name == "local-name" || name == "namespace-uri" then
          (do let s ← sel h c; pure (some (s.map (·.r)))) else pure none
      | _ => pure none
    callFn d cfg name fi c avs asel
  | .pnil, _ => .ok .nilv
  | .pcons _ _, _ => .ok .nilv
  | p, c => do
    let s ← sel p c
    .ok (.nodes (if cfg.setSemantics then Spec.docOrder d (s.map (·.r)) else s.map (·.r)))

/-- the values of an argument list, each with its own outcome (functions decide which to force) -/
def argVals : Plan → Ref → Except EErr (List (Except EErr (MVal F)))
  | .pcons h t, c => do
    let rest ← argVals t c
    .ok (evalP h c :: rest)
  | _, _ => .ok []

end

end

end XPathV.Model
