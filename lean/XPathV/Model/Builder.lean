import XPathV.Ast
import XPathV.Generated.Constants
/-!
# Model of `build.go`: parse tree → query plan

`Plan` has one constructor per query struct of `query.go` with its configuration fields.  A Go
`Predicate` closure is the `AxisInfo` it captured.  A nil `query` is `Plan.nil` (the builder yields
one for the `namespace` axis; using it at run time is a nil dereference — see `Engine`).

`build` threads `flags`, `props`, `parseDepth`, `firstInput` and `predInput` like `builder` does
(`predInput` is set by `processFilter` around the condition and read by `positionInput`).  `firstInput`
is kept as a *value*; the merge rewrite of `processFilter` mutates `firstInput.Input` in Go, which is
the filter's own input exactly when the filter's input node is an axis node — the only case the
model rewrites (other cases — `firstInput` is a filter/merge/group, or stale — hit no arm of the Go
type switch or are outside every fragment; see DESIGN §10).
-/
namespace XPathV.Model
open XPathV

inductive Plan
  | nil
  | context
  | absolute
  | ancestor (a : AxisInfo) (self : Bool) (inp : Plan)
  | attr (a : AxisInfo) (inp : Plan)
  | child (a : AxisInfo) (inp : Plan)
  | cachedChild (a : AxisInfo) (inp : Plan)
  | descendant (a : AxisInfo) (self : Bool) (inp : Plan)
  | following (a : AxisInfo) (sibling : Bool) (inp : Plan)
  | preceding (a : AxisInfo) (sibling : Bool) (inp : Plan)
  | parent (a : AxisInfo) (inp : Plan)
  | self (a : AxisInfo) (inp : Plan)
  | filter (inp pred : Plan)
  | func (name : String) (firstInput : Plan) (args : Plan)
  | pnil
  | pcons (h t : Plan)
  | transform (name : String) (inp : Plan)
  | constStr (s : String)
  | constNum (lexeme : String)
  | group (inp : Plan)
  | logical (op : String) (l r : Plan)
  | numeric (op : String) (l r : Plan)
  | boolean (isOr : Bool) (l r : Plan)
  | union (l r : Plan)
  | lastFunc (inp : Plan)
  | descOverDesc (a : AxisInfo) (matchSelf : Bool) (inp : Plan)
  | merge (inp child : Plan)
  deriving DecidableEq, Repr, Inhabited

namespace Plan

def argList : Plan → List Plan
  | pcons h t => h :: argList t
  | _ => []

/-- struct kind as the plan dump spells it -/
def kindName : Plan → String
  | nil => "_" | context => "context" | absolute => "absolute" | ancestor _ _ _ => "ancestor" | attr _ _ => "attribute"
  | child _ _ => "child" | cachedChild _ _ => "cachedChild" | descendant _ _ _ => "descendant"
  | following _ _ _ => "following" | preceding _ _ _ => "preceding" | parent _ _ => "parent" | self _ _ => "self"
  | filter _ _ => "filter" | func _ _ _ => "function" | pnil => "" | pcons _ _ => "" | transform _ _ => "transform"
  | constStr _ => "const" | constNum _ => "const" | group _ => "group" | logical _ _ _ => "logical"
  | numeric _ _ _ => "numeric" | boolean _ _ _ => "boolean" | union _ _ => "union" | lastFunc _ => "lastFunc"
  | descOverDesc _ _ _ => "descOverDesc" | merge _ _ => "merge"

/-- the plan-dump format of the hook `VerifPlanDump` -/
def dump (nf : String → String) : Plan → String
  | nil => "_"
  | context => "(context)"
  | absolute => "(absolute)"
  | ancestor _ s i => "(ancestor" ++ (if s then " self" else "") ++ " " ++ i.dump nf ++ ")"
  | attr _ i => "(attribute " ++ i.dump nf ++ ")"
  | child _ i => "(child " ++ i.dump nf ++ ")"
  | cachedChild _ i => "(cachedChild " ++ i.dump nf ++ ")"
  | descendant _ s i => "(descendant" ++ (if s then " self" else "") ++ " " ++ i.dump nf ++ ")"
  | following _ s i => "(following" ++ (if s then " sibling" else "") ++ " " ++ i.dump nf ++ ")"
  | preceding _ s i => "(preceding" ++ (if s then " sibling" else "") ++ " " ++ i.dump nf ++ ")"
  | parent _ i => "(parent " ++ i.dump nf ++ ")"
  | self _ i => "(self " ++ i.dump nf ++ ")"
  | filter i p => "(filter " ++ i.dump nf ++ " " ++ p.dump nf ++ ")"
  | func n fi _ => "(function " ++ (if n == "last" || n == "position" then fi.kindName else "_") ++ ")"
  | pnil => ""
  | pcons h t => h.dump nf ++ t.dump nf
  | transform _ i => "(transform " ++ i.dump nf ++ ")"
  | constStr s => "(const S h" ++ hexOfString s ++ ")"
  | constNum l => "(const N " ++ nf l ++ ")"
  | group i => "(group " ++ i.dump nf ++ ")"
  | logical _ l r => "(logical " ++ l.dump nf ++ " " ++ r.dump nf ++ ")"
  | numeric _ l r => "(numeric " ++ l.dump nf ++ " " ++ r.dump nf ++ ")"
  | boolean o l r => "(boolean" ++ (if o then " or" else "") ++ " " ++ l.dump nf ++ " " ++ r.dump nf ++ ")"
  | union l r => "(union " ++ l.dump nf ++ " " ++ r.dump nf ++ ")"
  | lastFunc i => "(lastFunc " ++ i.dump nf ++ ")"
  | descOverDesc _ m i => "(descOverDesc" ++ (if m then " matchSelf" else "") ++ " " ++ i.dump nf ++ ")"
  | merge i c => "(merge " ++ i.dump nf ++ " " ++ c.dump nf ++ ")"

/-- `Properties() & queryProps.Merge != 0`; `none` = nil dereference -/
def hasMerge : Plan → Option Bool
  | nil => none
  | group _ => some false
  | filter i _ => hasMerge i
  | _ => some true

inductive VType | boolean | number | string | nodeSet | any
  deriving DecidableEq, Repr

/-- `ValueType()`; `none` = nil dereference -/
def valueType : Plan → Option VType
  | nil => none
  | func _ _ _ | transform _ _ => some .any
  | constStr _ => some .string
  | constNum _ => some .number
  | group i => valueType i
  | logical _ _ _ | boolean _ _ _ => some .boolean
  | numeric _ _ _ | lastFunc _ => some .number
  | _ => some .nodeSet

/-- replace the `Input` of an axis-type plan (the merge rewrite) -/
def inputOf : Plan → Option Plan
  | ancestor _ _ i | attr _ i | child _ i | cachedChild _ i | descendant _ _ i
  | following _ _ i | preceding _ _ i | parent _ i | self _ i | descOverDesc _ _ i | group i => some i
  | _ => none

def withInput (q : Plan) (n : Plan) : Plan :=
  match q with
  | ancestor a s _ => ancestor a s n
  | attr a _ => attr a n
  | child a _ => child a n
  | cachedChild a _ => cachedChild a n
  | descendant a s _ => descendant a s n
  | following a s _ => following a s n
  | preceding a s _ => preceding a s n
  | parent a _ => parent a n
  | self a _ => self a n
  | descOverDesc a m _ => descOverDesc a m n
  | group _ => group n
  | q => q

end Plan

/-! ## flags and props (bit sets as in `build.go`) -/
structure Flags where
  smartDesc : Bool := false
  posFilter : Bool := false
  filter : Bool := false
  /-- bookkeeping for argument lists only: how many leading arguments are built -/
  take : Nat := 0
  deriving DecidableEq, Repr, Inhabited

structure Props where
  posFilter : Bool := false
  hasPosition : Bool := false
  hasLast : Bool := false
  nonFlat : Bool := false
  deriving DecidableEq, Repr, Inhabited

def Props.or (a b : Props) : Props :=
  ⟨a.posFilter || b.posFilter, a.hasPosition || b.hasPosition, a.hasLast || b.hasLast, a.nonFlat || b.nonFlat⟩

inductive BErr
  | tooComplex
  | unknownAxis (a : String)
  | unknownFunction (f : String)
  | arity (f : String)
  | indexPanic (f : String)       -- `root.Args[i]` out of range, recovered by `build`
  | nilDeref                      -- method call on a nil query during build, recovered by `build`
  | undeclaredVariable
  | namespaceAxis
  | badRegexp
  deriving DecidableEq, Repr, Inhabited

structure BState where
  depth : Nat := 0
  firstInput : Option Plan := none
  /-- `b.predInput`: while the condition of a predicate is being built, the step that the predicate
  filters (what `position()`/`last()` count in); `none` = nil -/
  predInput : Option Plan := none
  deriving Repr, Inhabited

/-- `b.positionInput()`: inside a predicate the step being filtered, elsewhere the step built last -/
def BState.positionInput (st : BState) : Plan := (st.predInput <|> st.firstInput).getD .nil

structure BOut where
  q : Plan
  props : Props
  st : BState

/-- the regexp oracle for the constant-pattern precheck of `matches` (a parameter: the `regexp`
package is not modelled) -/
abbrev RegexOk := String → Bool

/-- arity windows of `processFunction`: `(min, max)`; a call outside `[min, ∞)` fails with an arity
error or a recovered index panic, above `max` the explicit guard fails (or extra arguments are
ignored when there is no guard: `max = none`) -/
def fnArity : String → Option (Nat × Option Nat × Bool)   -- (min, explicit max guard, min-violation is an index panic)
  | "lower-case" => some (1, none, true)
  | "starts-with" | "ends-with" | "contains" => some (2, none, true)
  | "matches" => some (2, some 2, false)
  | "substring" => some (2, none, false)
  | "substring-before" | "substring-after" => some (2, some 2, false)
  | "string-length" => some (1, none, false)
  | "normalize-space" => some (0, none, false)
  | "replace" | "translate" => some (3, some 3, false)
  | "not" => some (1, none, false)
  | "name" | "local-name" | "namespace-uri" => some (0, some 1, false)
  | "true" | "false" | "last" | "position" => some (0, none, false)
  | "boolean" => some (1, some 1, false)
  | "number" | "string" => some (0, some 1, false)
  | "count" | "sum" | "ceiling" | "floor" | "round" | "reverse" => some (1, none, false)
  | "concat" => some (2, none, false)
  | "string-join" => some (2, some 2, false)
  | _ => none

/-- how many leading arguments `processFunction` actually builds (`none`: all of them) -/
def fnUsed : String → Nat → Nat
  | "lower-case", _ | "string-length", _ | "not", _ | "count", _ | "sum", _ | "ceiling", _ | "floor", _
  | "round", _ | "reverse", _ => 1
  | "normalize-space", n => min n 1
  | "starts-with", _ | "ends-with", _ | "contains", _ => 2
  | "name", n | "local-name", n | "namespace-uri", n | "boolean", n | "number", n | "string", n => min n 1
  | "substring", n => if n == 3 then 3 else 2
  | "true", _ | "false", _ | "last", _ | "position", _ => 0
  | _, n => n

def selfNodeAxis : AxisInfo := ⟨"self", .all, "", "", "", false, ""⟩

section
variable (regexOk : RegexOk) (limit : Nat) (shortcutNeedsNodeTest : Bool) (smartDescThroughFilter : Bool)

/-- is this `descendant-or-self` input step the `//` abbreviation's `descendant-or-self::node()`? -/
def isPlainDos (a : AxisInfo) : Bool :=
  a.axis == "descendant-or-self" &&
    (!shortcutNeedsNodeTest || (a.typeTest == .all && a.lname == "" && a.pfx == ""))

def axisPlan (a : AxisInfo) (flags : Flags) (props : Props) (inp : Plan) : Except BErr (Plan × Props) :=
  let nf : Props := { props with nonFlat := true }
  match a.axis with
  | "ancestor" => .ok (.ancestor a false inp, nf)
  | "ancestor-or-self" => .ok (.ancestor a true inp, nf)
  | "attribute" => .ok (.attr a inp, props)
  | "child" => .ok (if props.nonFlat then .cachedChild a inp else .child a inp, props)
  | "descendant" => .ok (if flags.smartDesc then .descOverDesc a false inp else .descendant a false inp, nf)
  | "descendant-or-self" => .ok (if flags.smartDesc then .descOverDesc a true inp else .descendant a true inp, nf)
  | "following" => .ok (.following a false inp, nf)
  | "following-sibling" => .ok (.following a true inp, props)
  | "parent" => .ok (.parent a inp, props)
  | "preceding" => .ok (.preceding a false inp, nf)
  | "preceding-sibling" => .ok (.preceding a true inp, props)
  | "self" => .ok (.self a inp, props)
  | "namespace" => .error .namespaceAxis
  | other => .error (.unknownAxis other)

def isConstStr : Plan → Option String
  | .constStr s => some s
  | _ => none

/-- `processNode` and the `process*` functions it dispatches to; structural on the parse tree -/
def build : Ast → Flags → BState → Except BErr BOut
  | .str s, _, st => enter st fun st => .ok ⟨.constStr s, {}, leave st⟩
  | .num l, _, st => enter st fun st => .ok ⟨.constNum l, {}, leave st⟩
  | .root _, _, st => enter st fun st => .ok ⟨.absolute, {}, leave st⟩
  | .var _ _, _, st => enter st fun _ => .error .undeclaredVariable
  | .none, _, _ => .error .nilDeref
  | .anil, _, st => .ok ⟨.pnil, {}, st⟩
  | .acons h t, fl, st =>
    if fl.take == 0 then .ok ⟨.pnil, {}, st⟩ else do
    let ho ← build h {} st
    let to ← build t { take := fl.take - 1 } ho.st
    .ok ⟨.pcons ho.q to.q, (if to.q == .pnil then ho.props else to.props), to.st⟩
  | .group x, _, st => enter st fun st => do
    let o ← build x {} st
    let q := Plan.group o.q
    let fi := match o.st.firstInput with
      | none => some q
      | some f => some f
    .ok ⟨q, o.props, leave { o.st with firstInput := fi }⟩
  | .oper op l r, _, st => enter st fun st => do
    let lo ← build l {} st
    let ro ← build r {} lo.st
    let props := lo.props.or ro.props
    let (q, props) : Plan × Props :=
      if op == "+" || op == "-" || op == "*" || op == "div" || op == "mod" then (.numeric op lo.q ro.q, props)
      else if op == "=" || op == ">" || op == ">=" || op == "<" || op == "<=" || op == "!=" then (.logical op lo.q ro.q, props)
      else if op == "or" then (.boolean true lo.q ro.q, props)
      else if op == "and" then (.boolean false lo.q ro.q, props)
      else if op == "|" then (.union lo.q ro.q, { props with nonFlat := true })
      else (.nil, props)
    .ok ⟨q, props, leave ro.st⟩
  | .call name _ args, _, st => enter st fun st => do
    let n := args.argList.length
    match fnArity name with
    | none => .error (.unknownFunction name)
    | some (mn, mx, idx) =>
      if n < mn then .error (if idx then .indexPanic name else .arity name)
      else if (match mx with | some m => decide (n > m) | none => false) then .error (.arity name)
      else do
        -- only the arguments the case reads are built
        let ao ← build args { take := fnUsed name n } st
        let argsQ := if (name == "normalize-space" || name == "string" || name == "number") && n == 0
          then Plan.pcons (.self selfNodeAxis .context) .pnil else ao.q
        let props0 : Props := if fnUsed name n == 0 then {} else ao.props
        if name == "matches" then
          match (ao.q.argList.getD 1 .nil) with
          | .constStr p => if regexOk p then pure () else .error .badRegexp
          | .constNum _ => .error .nilDeref   -- `q.Val.(string)` fails: recovered type-assertion panic
          | _ => pure ()
        let fi := if name == "last" || name == "position" then ao.st.positionInput else .nil
        let props := if name == "last" then { props0 with hasLast := true }
                     else if name == "position" then { props0 with hasPosition := true } else props0
        let q := if name == "reverse" then Plan.transform name (argsQ.argList.getD 0 .nil) else Plan.func name fi argsQ
        -- zero-argument `normalize-space()`, `string()`, `number()`: the builder synthesises a
        -- `self::node()` axis node and sends it through `processNode` (depth check, `firstInput`)
        let synth := (name == "normalize-space" || name == "string" || name == "number") && n == 0
        if synth && ao.st.depth + 1 > limit then .error .tooComplex
        else .ok ⟨q, props, leave (if synth then { ao.st with firstInput := some (.self selfNodeAxis .context) } else ao.st)⟩
  | .axis a .none, fl, st => enter st fun st => do
    let (q, props) ← axisPlan a fl {} .context
    finAxis q props { st with firstInput := none }
  | .axis a (.axis b grand), fl, st => enter st fun st => do
    let st := { st with firstInput := none }
    if !fl.filter && a.axis == "child" && isPlainDos shortcutNeedsNodeTest b then do
      -- `//name` shortcut: descendant over the grand-input
      let (gq, gprops, st) ← match grand with
        | .none => pure (Plan.context, ({} : Props), st)
        | g => do
          let o ← build g { smartDesc := true } st
          pure (o.q, o.props, o.st)
      finAxis (.descendant a false gq) { gprops with nonFlat := true } st
    else do
      let o ← build (.axis b grand) (inFlagsOf a fl) st
      let (q, props) ← axisPlan a fl o.props o.q
      finAxis q props o.st
  | .axis a other, fl, st => enter st fun st => do
    let o ← build other (inFlagsOf a fl) { st with firstInput := none }
    let (q, props) ← axisPlan a fl o.props o.q
    finAxis q props o.st
  | .filter inp cond, fl, st => enter st fun st => do
    let first := !fl.filter
    let inFlags : Flags := { fl with filter := true, smartDesc := fl.smartDesc && smartDescThroughFilter }
    let io ← build inp inFlags st
    let firstInput := io.st.firstInput
    -- `outerPredInput := b.predInput; b.predInput = firstInput; …; b.predInput = outerPredInput`
    let co0 ← build cond fl ⟨io.st.depth, io.st.firstInput, firstInput⟩
    let co : BOut := ⟨co0.q, co0.props, ⟨co0.st.depth, co0.st.firstInput, io.st.predInput⟩⟩
    let condVT ← match co.q.valueType with
      | some t => pure t
      | none => .error .nilDeref
    let canBeNumber := condVT == .any || condVT == .number
    let pc := co.props
    let pc : Props := if canBeNumber || pc.hasPosition || pc.hasLast then { pc with hasPosition := true } else pc
    let props := io.props
    let props : Props := if inp.isFilter then props else { props with posFilter := false }
    let props : Props := if pc.hasPosition then { props with posFilter := true } else props
    let condQ : Plan :=
      if pc.hasPosition && pc.hasLast then
        match co.q with
        | .func _ (.filter fi fp) _ => .lastFunc (.filter fi fp)
        | q => q
      else co.q
    let merge ← match io.q.hasMerge with
      | some b => pure b
      | none => .error .nilDeref
    let done (q : Plan) (st : BState) : Except BErr BOut :=
      .ok ⟨q, props, leave { st with firstInput := some q }⟩
    if first && firstInput.isSome then
      if merge && props.posFilter then
        if inp.isAxis then
          match io.q.inputOf with
          | some .context | none => done (.filter io.q condQ) co.st
          | some parent => done (.merge parent (.filter (io.q.withInput .context) condQ)) co.st
        else done (.filter io.q condQ) co.st
      else done (.filter io.q condQ) co.st
    else done (.filter io.q condQ) co.st
where
  enter (st : BState) (k : BState → Except BErr BOut) : Except BErr BOut :=
    if st.depth + 1 > limit then .error .tooComplex else k { st with depth := st.depth + 1 }
  leave (st : BState) : BState := { st with depth := st.depth - 1 }
  finAxis (q : Plan) (props : Props) (st : BState) : Except BErr BOut :=
    .ok ⟨q, props, { st with depth := st.depth - 1, firstInput := if q == .nil then none else some q }⟩
  inFlagsOf (a : AxisInfo) (fl : Flags) : Flags :=
    if !fl.filter && (a.axis == "descendant" || a.axis == "descendant-or-self") then { smartDesc := true } else {}

end

end XPathV.Model
