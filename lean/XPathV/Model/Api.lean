import XPathV.Model.Chain
import XPathV.Model.Engine
import XPathV.Generated.BuilderFacts
import XPathV.Generated.ExtraFacts
/-!
# Model of `xpath.go`: Compile / CompileWithNS / MustCompile, Expr.Select, Expr.Evaluate

`Select` and `Evaluate` both work on a clone of the compiled query tree (fact F15), so at the
sequence level an `Expr` is just its plan and every call starts from the reset state.
-/
namespace XPathV.Model
open XPathV

inductive CompileErr
  | empty
  | parse (e : PErr)
  | build (e : BErr)
  | nilQuery            -- "undeclared variable in XPath expression"
  deriving DecidableEq, Repr, Inhabited

/-- does `hay` contain `pat`? (used to read off builder conditions from their regenerated source text) -/
def isPrefixL : List Char → List Char → Bool
  | [], _ => true
  | _ :: _, [] => false
  | a :: as, b :: bs => a == b && isPrefixL as bs

def hasInfixL (pat : List Char) : List Char → Bool
  | [] => pat.isEmpty
  | h :: t => isPrefixL pat (h :: t) || hasInfixL pat t

def hasSubstr (hay pat : String) : Bool := hasInfixL pat.toList hay.toList

/-- F4: the `//name` shortcut requires the input step to be `descendant-or-self::node()` iff the
regenerated condition contains the three node-test conjuncts -/
def shortcutNeedsNodeTestFromSource : Bool :=
  hasSubstr Generated.shortcutCondSrc "input.typeTest==allNode&&input.LocalName==\"\"&&input.Prefix==\"\""

/-- F4: SmartDesc travels through a filter node unless `processFilter` masks it out of the flags it
passes to its input -/
def smartDescThroughFilterFromSource : Bool :=
  !hasSubstr Generated.filterInputFlagsSrc "&^flagsEnum.SmartDesc"

structure CompileCfg where
  regexOk : RegexOk := fun _ => true
  /-- both are **read off the current source** (regenerated facts), not assumed -/
  shortcutNeedsNodeTest : Bool := shortcutNeedsNodeTestFromSource
  smartDescThroughFilter : Bool := smartDescThroughFilterFromSource

def compile (cc : CompileCfg) (ns : Option (List (String × String))) (text : List Char) : Except CompileErr Plan :=
  if text.isEmpty then .error .empty else
  match parse (fuelFor text) (defaultCfg ns) text with
  | .error e => .error (.parse e)
  | .ok ast =>
    match build cc.regexOk (Generated.buildDepthLimit.getD 0) cc.shortcutNeedsNodeTest cc.smartDescThroughFilter ast {} {} with
    | .error e => .error (.build e)
    | .ok o => if o.q == .nil then .error .nilQuery else .ok o.q

variable {F : Type} [NumAlg F]

/-- `Expr.Select` + draining the iterator -/
def selectAll (d : Doc) (cfg : ECfg) (p : Plan) (c : Ref) : Except EErr (List Ref) := do
  let s ← sel (F := F) d cfg p c
  pure (s.map (·.r))

/-- `Expr.Evaluate`: a scalar, or (for a query result) the drained iterator -/
def evaluate (d : Doc) (cfg : ECfg) (p : Plan) (c : Ref) : Except EErr (MVal F) := do
  let v ← evalP (F := F) d cfg p c
  match v with
  | .nodes _ => do
    let s ← selectAll (F := F) d cfg p c
    pure (.nodes s)
  | v => pure v

end XPathV.Model
