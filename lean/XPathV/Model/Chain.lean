import XPathV.Model.Parser
import XPathV.Generated.PrecChain
import XPathV.Generated.Constants
/-!
# The parser's stage list, computed from the regenerated precedence chain (fact F6)
-/
namespace XPathV.Model
open XPathV

/-- follow the operand links from `cur`: a tier function contributes its operator set, the unary
function contributes `.unary`, `parsePathExpr` ends the chain.  A broken link ends it early (the
model then no longer parses like XPath and `Theorems/C10` fails). -/
def chainFrom (tiers : List Gen.Tier) (unaryOperand : String) : Nat → String → List Stage
  | 0, _ => []
  | f+1, cur =>
    if cur == "parsePathExpr" then []
    else if cur == "parseUnaryExpr" then .unary :: chainFrom tiers unaryOperand f unaryOperand
    else match tiers.find? (fun t => t.fn == cur) with
      | some t => .tier t.ops :: chainFrom tiers unaryOperand f t.operand
      | none => []

def stages : List Stage :=
  chainFrom Generated.precChain Generated.unaryOperand (Generated.precChain.length + 2) Generated.exprEntry

def defaultCfg (ns : Option (List (String × String))) : PCfg :=
  { depthLimit := Generated.parseDepthLimit.getD 0, chain := stages, ns := ns }

end XPathV.Model
