import XPathV.Model.Engine
/-!
# Pull-machine layer for the core iterator types of `query.go`

`Model/Engine.lean` describes every query by the *sequence* its `Select` yields from a reset state.
This file models the same query types the way the Go code is written: as **pull iterators with
mutable state**.  A `PQ` value is a Go query struct: configuration (node test, `Self`, `Input`)
*and* the mutable fields (`count`, `posit`, `level`, the `iterator` closure).  The closure is
defunctionalised: `none` is `iterator == nil`, `some s` carries what the closure captured.

* `PQ.select`   one call of `Select(t)`; the `for {}` loops consume fuel, `Res.fuel` = ran out
* `PQ.evaluate` the assignments of `Evaluate(t)` (the reset), forwarded to `Input`
* `PQ.clone`    `Clone()`: configuration only, zero-valued state
* `PQ.position`, `PQ.depth`  `getNodePosition`, `getNodeDepth`
* `drain`       `for t.MoveNext() { … }`: pull until `nil`, recording node, position and depth

`rem` (at the end) is the specification side: the stream a machine in an *arbitrary* state still
has to yield, written with the walks of the sequence model.  The theorems are in
`Lemmas/PullProofs.lean`.

Not modelled here: pointer aliasing of the returned navigator with the closure's cursor (the
machine hands out values), and the query types other than the seven below.
-/
namespace XPathV.Model
open XPathV

/-- outcome of a loop that either produces something, ends, or exhausts the fuel of the model -/
inductive Res (α : Type)
  | yield (a : α)
  | done
  | fuel
  deriving DecidableEq, Repr, Inhabited

/-- A Go query struct: configuration and mutable state.

* `child`: `it = some (node, first)` are the variables captured by `c.iterator`
* `attr`: `it = some (node, isAttr)`
* `descendant`: `it = some (node, first)`; `level` is a struct field in Go (`d.level`), not a
  captured variable, so it lives next to `posit` -/
inductive PQ
  | context (count : Nat)
  | absolute (count : Nat)
  | child (a : AxisInfo) (inp : PQ) (it : Option (Ref × Bool)) (posit : Nat)
  | attr (a : AxisInfo) (inp : PQ) (it : Option (Ref × Bool))
  | self (a : AxisInfo) (inp : PQ)
  | parent (a : AxisInfo) (inp : PQ)
  | descendant (a : AxisInfo) (self : Bool) (inp : PQ) (it : Option (Ref × Bool)) (posit level : Nat)
  deriving Repr, Inhabited

/-! ## The closure bodies -/

/-- body of `childQuery.iterator`:
`for { if (first && !MoveToChild()) || (!first && !MoveToNext()) { return nil }; first = false;
if Predicate(node) { return node } }`.  On `yield j` the captured state is `(j, false)`. -/
def childIter (d : Doc) (t : Ref → Bool) : Nat → Ref → Bool → Res Ref
  | 0, _, _ => .fuel
  | f+1, n, first =>
    match (if first then Nav.moveChild d n else Nav.moveNext d n) with
    | none => .done
    | some n' => if t n' then .yield n' else childIter d t f n' false

/-- body of `attributeQuery.iterator`:
`for { if isAttr { return nil }; if !MoveToNextAttribute() { return nil }; if Predicate(node) {…} }`.
On `yield j` the captured state is `(j, isAttr)`. -/
def attrIter (d : Doc) (t : Ref → Bool) : Nat → Ref → Bool → Res Ref
  | 0, _, _ => .fuel
  | f+1, n, isAttr =>
    if isAttr then .done
    else match Nav.moveNextAttr d n with
      | none => .done
      | some n' => if t n' then .yield n' else attrIter d t f n' isAttr

/-- the inner climbing loop of `descendantQuery.iterator`, literally:
`for { if level == 0 { return nil }; if MoveToNext() { break }; MoveToParent(); level-- }`
(the result of `MoveToParent` is ignored: on failure the cursor stays) -/
def pclimb (d : Doc) : Nat → Ref → Option (Ref × Nat)
  | 0, _ => none
  | level+1, r =>
    match Nav.moveNext d r with
    | some n => some (n, level+1)
    | none => pclimb d level ((Nav.moveParent d r).getD r)

/-- `if MoveToChild() { level++ } else { …climb… }` -/
def pstep (d : Doc) (r : Ref) (level : Nat) : Option (Ref × Nat) :=
  match Nav.moveChild d r with
  | some c => some (c, level+1)
  | none => pclimb d level r

/-- the outer `for { step; if Predicate(node) { return node } }` of `descendantQuery.iterator` -/
def descLoop (d : Doc) (t : Ref → Bool) : Nat → Ref → Nat → Res (Ref × Nat)
  | 0, _, _ => .fuel
  | f+1, n, level =>
    match pstep d n level with
    | none => .done
    | some (n', l') => if t n' then .yield (n', l') else descLoop d t f n' l'

/-- body of `descendantQuery.iterator`:
`if first { first = false; if Self && Predicate(node) { return node } }; for {…}`.
Yields the node and the new value of `d.level`; the captured state becomes `(node, false)`. -/
def descIter (d : Doc) (t : Ref → Bool) (self : Bool) (f : Nat) (n : Ref) (first : Bool) (level : Nat) :
    Res (Ref × Nat) :=
  if first && self && t n then .yield (n, level) else descLoop d t f n level

/-! ## `Select` -/

/-- One call of `Select(t)` with `t.Current() = cur`.  Every Go `for {}` iteration and every nested
call consumes one unit of fuel; `(.fuel, _)` means the model ran out (never a Go outcome). -/
def PQ.select (d : Doc) (cfg : ECfg) (cur : Ref) : Nat → PQ → Res Ref × PQ
  | 0, q => (.fuel, q)
  -- contextQuery: `if c.count > 0 { return nil }; c.count++; return t.Current().Copy()`
  | _+1, .context c => if c > 0 then (.done, .context c) else (.yield cur, .context (c+1))
  -- absoluteQuery: same, then `MoveToRoot()`
  | _+1, .absolute c => if c > 0 then (.done, .absolute c) else (.yield (Nav.root d), .absolute (c+1))
  -- childQuery, `c.iterator == nil`: `c.posit = 0; node := c.Input.Select(t); if node == nil { return nil }`
  | f+1, .child a inp none _ =>
    match PQ.select d cfg cur f inp with
    | (.yield n, inp') => PQ.select d cfg cur f (.child a inp' (some (n, true)) 0)
    | (.done, inp') => (.done, .child a inp' none 0)
    | (.fuel, inp') => (.fuel, .child a inp' none 0)
  -- childQuery, iterator present: `if node := c.iterator(); node != nil { c.posit++; return node }; c.iterator = nil`
  | f+1, .child a inp (some (n, first)) pos =>
    match childIter d (test d cfg a) f n first with
    | .yield j => (.yield j, .child a inp (some (j, false)) (pos+1))
    | .done => PQ.select d cfg cur f (.child a inp none pos)
    | .fuel => (.fuel, .child a inp (some (n, first)) pos)
  -- attributeQuery
  | f+1, .attr a inp none =>
    match PQ.select d cfg cur f inp with
    | (.yield n, inp') => PQ.select d cfg cur f (.attr a inp' (some (n, n.isAttr)))
    | (.done, inp') => (.done, .attr a inp' none)
    | (.fuel, inp') => (.fuel, .attr a inp' none)
  | f+1, .attr a inp (some (n, isAttr)) =>
    match attrIter d (test d cfg a) f n isAttr with
    | .yield j => (.yield j, .attr a inp (some (j, isAttr)))
    | .done => PQ.select d cfg cur f (.attr a inp none)
    | .fuel => (.fuel, .attr a inp (some (n, isAttr)))
  -- selfQuery: `for { node := Input.Select(t); if node == nil { return nil }; if Predicate(node) { return node } }`
  | f+1, .self a inp =>
    match PQ.select d cfg cur f inp with
    | (.yield n, inp') =>
      if test d cfg a n then (.yield n, .self a inp') else PQ.select d cfg cur f (.self a inp')
    | (.done, inp') => (.done, .self a inp')
    | (.fuel, inp') => (.fuel, .self a inp')
  -- parentQuery: `… node = node.Copy(); if node.MoveToParent() && Predicate(node) { return node }`
  | f+1, .parent a inp =>
    match PQ.select d cfg cur f inp with
    | (.yield n, inp') =>
      match Nav.moveParent d n with
      | some p => if test d cfg a p then (.yield p, .parent a inp') else PQ.select d cfg cur f (.parent a inp')
      | none => PQ.select d cfg cur f (.parent a inp')
    | (.done, inp') => (.done, .parent a inp')
    | (.fuel, inp') => (.fuel, .parent a inp')
  -- descendantQuery, `d.iterator == nil`: `d.posit = 0; node := Input.Select(t); …; d.level = 0; first := true`
  | f+1, .descendant a s inp none _ level =>
    match PQ.select d cfg cur f inp with
    | (.yield n, inp') => PQ.select d cfg cur f (.descendant a s inp' (some (n, true)) 0 0)
    | (.done, inp') => (.done, .descendant a s inp' none 0 level)
    | (.fuel, inp') => (.fuel, .descendant a s inp' none 0 level)
  -- descendantQuery, iterator present; the closure returns `nil` only with `d.level == 0`
  | f+1, .descendant a s inp (some (n, first)) pos level =>
    match descIter d (test d cfg a) s f n first level with
    | .yield (j, l) => (.yield j, .descendant a s inp (some (j, false)) (pos+1) l)
    | .done => PQ.select d cfg cur f (.descendant a s inp none pos 0)
    | .fuel => (.fuel, .descendant a s inp (some (n, first)) pos level)

/-! ## `Evaluate`, `Clone`, configuration, freshness -/

/-- the assignments `Evaluate(t)` makes: `count = 0` / `Input.Evaluate(t); iterator = nil`.
`posit` and `level` are *not* assigned by `Evaluate` (the next `Select` does it). -/
def PQ.evaluate : PQ → PQ
  | .context _ => .context 0
  | .absolute _ => .absolute 0
  | .child a inp _ pos => .child a inp.evaluate none pos
  | .attr a inp _ => .attr a inp.evaluate none
  | .self a inp => .self a inp.evaluate
  | .parent a inp => .parent a inp.evaluate
  | .descendant a s inp _ pos level => .descendant a s inp.evaluate none pos level

/-- `Clone()`: `&childQuery{name, Input: c.Input.Clone(), Predicate}` etc. — zero-valued state -/
def PQ.clone : PQ → PQ
  | .context _ => .context 0
  | .absolute _ => .absolute 0
  | .child a inp _ _ => .child a inp.clone none 0
  | .attr a inp _ => .attr a inp.clone none
  | .self a inp => .self a inp.clone
  | .parent a inp => .parent a inp.clone
  | .descendant a s inp _ _ _ => .descendant a s inp.clone none 0 0

/-- the configuration of a machine: the plan it was built from (state erased) -/
def PQ.plan : PQ → Plan
  | .context _ => .context
  | .absolute _ => .absolute
  | .child a inp _ _ => .child a inp.plan
  | .attr a inp _ => .attr a inp.plan
  | .self a inp => .self a inp.plan
  | .parent a inp => .parent a inp.plan
  | .descendant a s inp _ _ _ => .descendant a s inp.plan

/-- all mutable fields have their zero value (what the builder and `Clone` produce) -/
def PQ.fresh : PQ → Bool
  | .context c => c == 0
  | .absolute c => c == 0
  | .child _ inp it pos => it.isNone && pos == 0 && inp.fresh
  | .attr _ inp it => it.isNone && inp.fresh
  | .self _ inp => inp.fresh
  | .parent _ inp => inp.fresh
  | .descendant _ _ inp it pos level => it.isNone && pos == 0 && level == 0 && inp.fresh

/-- the machine the builder creates for a plan (supported constructors only) -/
def PQ.ofPlan : Plan → Option PQ
  | .context => some (.context 0)
  | .absolute => some (.absolute 0)
  | .child a inp => (PQ.ofPlan inp).map (fun i => .child a i none 0)
  | .attr a inp => (PQ.ofPlan inp).map (fun i => .attr a i none)
  | .self a inp => (PQ.ofPlan inp).map (fun i => .self a i)
  | .parent a inp => (PQ.ofPlan inp).map (fun i => .parent a i)
  | .descendant a s inp => (PQ.ofPlan inp).map (fun i => .descendant a s i none 0 0)
  | _ => none

/-- `getNodePosition(q)`: `q.position()` when the type has the method, else 1 -/
def PQ.position : PQ → Nat
  | .child _ _ _ pos => pos
  | .descendant _ _ _ _ pos _ => pos
  | _ => 1

/-- `getNodeDepth(q)`: `q.depth()` when the type has the method, else 0 -/
def PQ.depth : PQ → Nat
  | .descendant _ _ _ _ _ level => level
  | _ => 0

/-! ## Draining (`for t.MoveNext() { … }`) -/

/-- pull until `nil`; every yielded node is recorded with the `position()`/`depth()` the query
reports right after the pull (what a filter reads).  `none` = fuel exhausted. -/
def drain (d : Doc) (cfg : ECfg) (cur : Ref) : Nat → PQ → Option (List Item × PQ)
  | 0, _ => none
  | f+1, q =>
    match PQ.select d cfg cur f q with
    | (.yield n, q') =>
      (drain d cfg cur f q').map (fun (l, q'') => (⟨n, q'.position, q'.depth⟩ :: l, q''))
    | (.done, q') => some ([], q')
    | (.fuel, _) => none

/-! ## Specification side: the remaining stream of an arbitrary state -/

/-- number the nodes `k+1, k+2, …` (`posit++` per yielded node), depth 0 -/
def numFrom : Nat → List Ref → List Item
  | _, [] => []
  | k, r :: rs => ⟨r, k + 1, 0⟩ :: numFrom (k + 1) rs

/-- number `(node, level)` pairs `k+1, k+2, …` -/
def numFromL : Nat → List (Ref × Nat) → List Item
  | _, [] => []
  | k, p :: ps => ⟨p.1, k + 1, p.2⟩ :: numFromL (k + 1) ps

/-- siblings a `childQuery` closure in state `(n, first)` still visits -/
def sibCands (d : Doc) (n : Ref) (first : Bool) : List Ref :=
  if first then childrenM d n else nextSibsM d n

/-- attributes an `attributeQuery` closure in state `(n, isAttr)` still visits -/
def attrCands (d : Doc) (n : Ref) (isAttr : Bool) : List Ref :=
  if isAttr then [] else attrChain d ((recAt d n.idx).attrs.length + 1) n

/-- what one input node contributes to a `descendantQuery` (the `flatMap` body of `sel`) -/
def descItems (d : Doc) (cfg : ECfg) (a : AxisInfo) (self : Bool) (r : Ref) : List Item :=
  let own : List (Ref × Nat) := if self && test d cfg a r then [(r, 0)] else []
  let l := own ++ (descM d r).filter (fun p => test d cfg a p.1)
  l.zipIdx.map (fun (p, i) => ⟨p.1, i + 1, p.2⟩)

/-- The items a machine in state `q` still yields (node, `position()`, `depth()` after the pull):
what is left of the current closure, then the contribution of every remaining input node. -/
def rem (d : Doc) (cfg : ECfg) (cur : Ref) : PQ → List Item
  | .context c => if c > 0 then [] else [⟨cur, 1, 0⟩]
  | .absolute c => if c > 0 then [] else [⟨Nav.root d, 1, 0⟩]
  | .child a inp it pos =>
    (match it with
      | none => []
      | some (n, first) => numFrom pos ((sibCands d n first).filter (test d cfg a)))
    ++ (rem d cfg cur inp).flatMap (fun x => numbered ((childrenM d x.r).filter (test d cfg a)))
  | .attr a inp it =>
    (match it with
      | none => []
      | some (n, isAttr) => plain ((attrCands d n isAttr).filter (test d cfg a)))
    ++ (rem d cfg cur inp).flatMap (fun x => plain ((attrsM d x.r).filter (test d cfg a)))
  | .self a inp => plain (((rem d cfg cur inp).map (·.r)).filter (test d cfg a))
  | .parent a inp =>
    (rem d cfg cur inp).flatMap (fun x => plain (((Nav.moveParent d x.r).toList).filter (test d cfg a)))
  | .descendant a s inp it pos level =>
    (match it with
      | none => []
      | some (n, first) =>
        numFromL pos ((if first && s && test d cfg a n then [(n, level)] else [])
          ++ (walkD d d.length n level).filter (fun p => test d cfg a p.1)))
    ++ (rem d cfg cur inp).flatMap (fun x => descItems d cfg a s x.r)

/-- what `select` answers when the remaining stream is `l` -/
def headRes : List Item → Res Ref
  | [] => .done
  | x :: _ => .yield x.r

end XPathV.Model
