/-!
# Abstract threads with footprints

A thread is a list of atomic steps over a store `Loc → Val`; a step reads/writes only locations in
its thread's footprint.  If the footprints of two threads are disjoint, running the steps of both
under any interleaving leaves each thread's locations exactly as its sequential run does.
-/
namespace XPathV.Model.Conc

abbrev Loc := Nat
abbrev Val := Nat
abbrev Store := Loc → Val

/-- an atomic step: a store transformer that only depends on and only changes `fp` -/
structure Step where
  fp : Loc → Bool
  run : Store → Store
  frame : ∀ s l, fp l = false → run s l = s l
  local_ : ∀ s s', (∀ l, fp l = true → s l = s' l) → ∀ l, fp l = true → run s l = run s' l

def runSeq : List Step → Store → Store
  | [], s => s
  | st :: rest, s => runSeq rest (st.run s)

/-- all steps of a thread stay inside the thread's footprint `tfp` -/
def Within (tfp : Loc → Bool) (steps : List Step) : Prop := ∀ st ∈ steps, ∀ l, st.fp l = true → tfp l = true

/-- an interleaving of two step lists -/
inductive Interleave : List Step → List Step → List Step → Prop
  | nil : Interleave [] [] []
  | left {a as bs cs} : Interleave as bs cs → Interleave (a :: as) bs (a :: cs)
  | right {b as bs cs} : Interleave as bs cs → Interleave as (b :: bs) (b :: cs)

theorem runSeq_agree (tfp : Loc → Bool) (steps : List Step) (hw : Within tfp steps) :
    ∀ s s', (∀ l, tfp l = true → s l = s' l) → ∀ l, tfp l = true → runSeq steps s l = runSeq steps s' l := by
  induction steps with
  | nil => intro s s' h l hl; exact h l hl
  | cons st rest ih =>
    intro s s' h l hl
    apply ih (fun x hx => hw x (List.mem_cons_of_mem _ hx))
    · intro l' hl'
      by_cases hfp : st.fp l' = true
      · exact st.local_ s s' (fun x hx => h x (hw st List.mem_cons_self x hx)) l' hfp
      · have hf : st.fp l' = false := by cases hh : st.fp l' <;> simp_all
        rw [st.frame s l' hf, st.frame s' l' hf]; exact h l' hl'
    · exact hl

/-- steps outside `tfp` do not disturb the locations of `tfp` -/
theorem foreign_step (tfp ofp : Loc → Bool) (hd : ∀ l, tfp l = true → ofp l = false) (st : Step)
    (hst : ∀ l, st.fp l = true → ofp l = true) (s : Store) : ∀ l, tfp l = true → st.run s l = s l := by
  intro l hl
  apply st.frame
  cases h : st.fp l with
  | false => rfl
  | true => have := hst l h; rw [hd l hl] at this; cases this

/-- **independence**: under any interleaving with a thread on a disjoint footprint, thread A's
locations end up exactly as after A's sequential run -/
theorem interleave_independent (fa fb : Loc → Bool) (hd : ∀ l, fa l = true → fb l = false)
    (as bs cs : List Step) (ha : Within fa as) (hb : Within fb bs) (hi : Interleave as bs cs) :
    ∀ s, ∀ l, fa l = true → runSeq cs s l = runSeq as s l := by
  induction hi with
  | nil => intro s l _; rfl
  | @left a as' bs' cs' _ ih =>
    intro s l hl
    simp only [runSeq]
    exact ih (fun x hx => ha x (List.mem_cons_of_mem _ hx)) hb (a.run s) l hl
  | @right b as' bs' cs' _ ih =>
    intro s l hl
    simp only [runSeq]
    rw [ih ha (fun x hx => hb x (List.mem_cons_of_mem _ hx)) (b.run s) l hl]
    apply runSeq_agree fa as' ha
    · intro l' hl'
      exact foreign_step fa fb hd b (fun x hx => hb b List.mem_cons_self x hx) s l' hl'
    · exact hl

end XPathV.Model.Conc
