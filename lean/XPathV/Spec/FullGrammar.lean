import XPathV.Ast
/-!
# XPath 1.0 — the full expression grammar, written from the Recommendation alone

Source: *XML Path Language (XPath) Version 1.0*, W3C Recommendation 16 November 1999, §2 (location
paths, productions [1]–[13]), §3 (expressions, [14]–[27]) and §3.7 (lexical structure, [28]–[39]).

Layout of this file

* §0  the token type `TokV` (the parse-tree type is `XPathV.Ast`);
* §1  ExprTokens [28] and the lexical disambiguation rules of §3.7 (`classify`);
* §2  the grammar: `AxisSpecifierD`, `NodeTestD`, and the family `D` over the non-terminals `NT`;
      `Derives ns nt toks ast` is `D` after `classify`;
* §3  an executable recursive-descent reference parser `refParseFull`, and (§3b) the proof that every
      tree it returns is derivable: `refParseFull_sound`;
* §4  examples;
* §5  ambiguities, choices and omissions.

Nothing here was written by looking at a parser: the productions are the Recommendation's, the tree
conventions are those stated for the tree type.
-/
namespace XPathV.Spec.Full
open XPathV

/-! ## §0  Tokens -/

/-- What the scanner hands over, with the data the grammar needs.  `name p l paren`: a name token
(`p:l`, `l`, or `p:*` with `l = "*"`), `paren` = the next non-blank character is '(' .
`axis s`: a name followed by '::' (the two are one token).  `star` is a lone `*`. -/
inductive TokV
  | name (pfx loc : String) (followedByParen : Bool)
  | axis (name : String)
  | str (s : String)
  | num (lexeme : String)
  | slash | slashslash | at | dot | dotdot | lparen | rparen | lbracket | rbracket | comma
  | star | union | plus | minus | eq | ne | lt | le | gt | ge | dollar
  deriving DecidableEq, Repr, Inhabited

/-- prefix bindings of the expression context (§1: "the set of namespace declarations in scope for
the expression"); `none` = the tree is built without resolving prefixes -/
abbrev NsMap := List (String × String)

/-! ## §1  ExprTokens [28] and the disambiguation rules of §3.7

```
[28] ExprToken ::= '(' | ')' | '[' | ']' | '.' | '..' | '@' | ',' | '::'
                 | NameTest | NodeType | Operator | FunctionName | AxisName
                 | Literal | Number | VariableReference
[32] Operator  ::= OperatorName | MultiplyOperator | '/' | '//' | '|' | '+' | '-' | '=' | '!='
                 | '<' | '<=' | '>' | '>='
[33] OperatorName ::= 'and' | 'or' | 'mod' | 'div'
[34] MultiplyOperator ::= '*'
[35] FunctionName ::= QName - NodeType
[36] VariableReference ::= '$' QName
[37] NameTest ::= '*' | NCName ':' '*' | QName
[38] NodeType ::= 'comment' | 'text' | 'processing-instruction' | 'node'
```
[29] Literal, [30] Number, [31] Digits, [39] ExprWhitespace and the NCName/QName productions of
XML-Names are character-level: they are below `TokV` (the `str`, `num`, `name` tokens carry their
result) and are not transcribed.
-/

/-- an ExprToken [28].  `axisName s` stands for the two tokens `AxisName '::'` (the scanner delivers
them fused).  The three NameTest forms [37] are `wild`, `nsWild p`, `qname p l`. -/
inductive ETok
  | lparen | rparen | lbracket | rbracket | dot | dotdot | at | comma
  | axisName (s : String)
  | wild | nsWild (pfx : String) | qname (pfx loc : String)
  | nodeType (s : String)
  | funcName (pfx loc : String)
  | opName (s : String) | mul | slash | slashslash | union | plus | minus | eq | ne | lt | le | gt | ge
  | literal (s : String) | number (lexeme : String)
  | varRef (pfx loc : String)
  /-- something that is no ExprToken (a `$` without a QName, a name token `*` with empty prefix);
  no production mentions it -/
  | invalid
  deriving DecidableEq, Repr, Inhabited

/-- [38] -/
def nodeTypes : List String := ["comment", "text", "processing-instruction", "node"]

/-- [33] -/
def operatorNames : List String := ["and", "or", "mod", "div"]

/-- [32] -/
def ETok.isOperator : ETok → Bool
  | .opName _ | .mul | .slash | .slashslash | .union | .plus | .minus
  | .eq | .ne | .lt | .le | .gt | .ge => true
  | _ => false

/-- §3.7, first rule: "If there is a preceding token and the preceding token is not one of
`@`, `::`, `(`, `[`, `,` or an Operator, then a `*` must be recognized as a MultiplyOperator and an
NCName must be recognized as an OperatorName." -/
def operatorPosition : Option ETok → Bool
  | none => false
  | some .at | some (.axisName _) | some .lparen | some .lbracket | some .comma => false
  | some t => !t.isOperator

/-- classification of one name token `p:l` given the preceding ExprToken (§3.7 rules 1, 2, 4;
rule 3 — a name followed by `::` is an AxisName — is the `axis` token). -/
def classifyName (prev : Option ETok) (p l : String) (paren : Bool) : ETok :=
  if l == "*" then (if p == "" then .invalid else .nsWild p)          -- NCName ':' '*'
  else if operatorPosition prev && p == "" then .opName l              -- rule 1 (an NCName)
  else if paren then                                                   -- rule 2
    (if p == "" && nodeTypes.contains l then .nodeType l else .funcName p l)
  else .qname p l                                                      -- rule 4: a NameTest

/-- the token list as ExprTokens, left to right, each token seeing the classification of the one
before it -/
def classify : Option ETok → List TokV → List ETok
  | _, [] => []
  | _, .dollar :: .name p l _ :: rest =>
    -- `$` QName is one token [36]; `$p:*` is none
    if l == "*" then .invalid :: .invalid :: classify (some .invalid) rest
    else .varRef p l :: classify (some (.varRef p l)) rest
  | _, .dollar :: rest => .invalid :: classify (some .invalid) rest
  | prev, .name p l b :: rest =>
    let t := classifyName prev p l b
    t :: classify (some t) rest
  | prev, .star :: rest =>
    let t := if operatorPosition prev then ETok.mul else ETok.wild
    t :: classify (some t) rest
  | _, .axis s :: rest => .axisName s :: classify (some (.axisName s)) rest
  | _, .str s :: rest => .literal s :: classify (some (.literal s)) rest
  | _, .num s :: rest => .number s :: classify (some (.number s)) rest
  | _, .slash :: rest => .slash :: classify (some .slash) rest
  | _, .slashslash :: rest => .slashslash :: classify (some .slashslash) rest
  | _, .at :: rest => .at :: classify (some .at) rest
  | _, .dot :: rest => .dot :: classify (some .dot) rest
  | _, .dotdot :: rest => .dotdot :: classify (some .dotdot) rest
  | _, .lparen :: rest => .lparen :: classify (some .lparen) rest
  | _, .rparen :: rest => .rparen :: classify (some .rparen) rest
  | _, .lbracket :: rest => .lbracket :: classify (some .lbracket) rest
  | _, .rbracket :: rest => .rbracket :: classify (some .rbracket) rest
  | _, .comma :: rest => .comma :: classify (some .comma) rest
  | _, .union :: rest => .union :: classify (some .union) rest
  | _, .plus :: rest => .plus :: classify (some .plus) rest
  | _, .minus :: rest => .minus :: classify (some .minus) rest
  | _, .eq :: rest => .eq :: classify (some .eq) rest
  | _, .ne :: rest => .ne :: classify (some .ne) rest
  | _, .lt :: rest => .lt :: classify (some .lt) rest
  | _, .le :: rest => .le :: classify (some .le) rest
  | _, .gt :: rest => .gt :: classify (some .gt) rest
  | _, .ge :: rest => .ge :: classify (some .ge) rest

/-! ## §2  The grammar

### Tree conventions (conventions of the tree type)

* a step `axis::test` over the tree `inp` of what precedes it is `.axis info inp`; what precedes the
  first step of a relative path is `.none`, of an absolute path `.root "/"`;
* `E[P]` is `.filter E P`, for steps too;
* `//` is `/descendant-or-self::node()/` (§2.5), `.` is `self::node()`, `..` is `parent::node()`,
  `@` is `attribute::`, no axis is `child::`.
-/

/-- [6] AxisName, without `namespace` (see §5: its principal node type has no `NType`) -/
def axisNames : List String :=
  ["ancestor", "ancestor-or-self", "attribute", "child", "descendant", "descendant-or-self",
   "following", "following-sibling", "parent", "preceding", "preceding-sibling", "self"]

/-- §2.3: "For the attribute axis, the principal node type is attribute. … For other axes, the
principal node type is element."  (The namespace axis is left out.) -/
def principal (axis : String) : NType := if axis == "attribute" then .attr else .elem

/-- the `typeTest` of a node-type test; `processing-instruction` has no `NType` of its own (§5) -/
def typeOfNodeType (s : String) : NType :=
  if s == "text" then .text else if s == "comment" then .comment else .all

/-- namespace resolution of the prefix of a name test: `(hasNS, nsURI)`; an unbound prefix has no
result (§2.3: "It is an error if the QName has a prefix for which there is no namespace declaration
in the expression context").  An unprefixed name test has a null namespace URI. -/
def resolve (ns : Option NsMap) (p : String) : Option (Bool × String) :=
  if p == "" then some (false, "") else
  match ns with
  | none => some (false, "")
  | some m => (m.lookup p).map (fun u => (true, u))

/-- `node()` on an axis: the step inserted by `//`, `.` and `..` -/
def nodeStep (axis : String) (inp : Ast) : Ast := .axis ⟨axis, .all, "", "", "node", false, ""⟩ inp

/-- `/descendant-or-self::node()` appended to `inp` -/
def dos (inp : Ast) : Ast := nodeStep "descendant-or-self" inp

/-- [13] AbbreviatedAxisSpecifier ::= '@'? -/
inductive AbbreviatedAxisSpecifierD : List ETok → String → Prop
  | child : AbbreviatedAxisSpecifierD [] "child"
  | attribute : AbbreviatedAxisSpecifierD [.at] "attribute"

/-- [5] AxisSpecifier ::= AxisName '::' | AbbreviatedAxisSpecifier   (with [6] AxisName) -/
inductive AxisSpecifierD : List ETok → String → Prop
  | named {s} : s ∈ axisNames → AxisSpecifierD [.axisName s] s
  | abbrev {ts s} : AbbreviatedAxisSpecifierD ts s → AxisSpecifierD ts s

/-- [7] NodeTest ::= NameTest | NodeType '(' ')' | 'processing-instruction' '(' Literal ')'
    [37] NameTest ::= '*' | NCName ':' '*' | QName
on the axis `axis`, producing the record of the step -/
inductive NodeTestD (ns : Option NsMap) (axis : String) : List ETok → AxisInfo → Prop
  | wild : NodeTestD ns axis [.wild] ⟨axis, principal axis, "", "", "", false, ""⟩
  | nsWild {p h u} : resolve ns p = some (h, u) →
      NodeTestD ns axis [.nsWild p] ⟨axis, principal axis, p, "", "", h, u⟩
  | qname {p l h u} : resolve ns p = some (h, u) →
      NodeTestD ns axis [.qname p l] ⟨axis, principal axis, p, l, "", h, u⟩
  | nodeType {s} : s ∈ nodeTypes →
      NodeTestD ns axis [.nodeType s, .lparen, .rparen] ⟨axis, typeOfNodeType s, "", "", s, false, ""⟩
  | pi {s} :
      NodeTestD ns axis [.nodeType "processing-instruction", .lparen, .literal s, .rparen]
        ⟨axis, typeOfNodeType "processing-instruction", "", s, "processing-instruction", false, ""⟩

/-- The non-terminals whose result is a tree.  Those of the location-path productions carry the tree
`inp` of what precedes them (an inherited attribute).  `Predicates inp` is `Predicate*` applied to
`inp`; `Arguments` is `Argument (',' Argument)*`; `UnaryRun n` is a UnaryExpr with exactly `n`
leading minus signs. -/
inductive NT
  | LocationPath | AbsoluteLocationPath | RelativeLocationPath (inp : Ast) | Step (inp : Ast)
  | Predicates (inp : Ast) | Predicate | PredicateExpr
  | AbbreviatedAbsoluteLocationPath | AbbreviatedRelativeLocationPath (inp : Ast)
  | AbbreviatedStep (inp : Ast)
  | Expr | PrimaryExpr | FunctionCall | Arguments | Argument
  | UnionExpr | PathExpr | FilterExpr
  | OrExpr | AndExpr | EqualityExpr | RelationalExpr | AdditiveExpr | MultiplicativeExpr
  | UnaryExpr | UnaryRun (n : Nat)
  deriving DecidableEq, Repr

/-- the left-recursive binary productions `X ::= Y | X op Y`:
```
[21] OrExpr             ::= AndExpr | OrExpr 'or' AndExpr
[22] AndExpr            ::= EqualityExpr | AndExpr 'and' EqualityExpr
[23] EqualityExpr       ::= RelationalExpr | EqualityExpr ('=' | '!=') RelationalExpr
[24] RelationalExpr     ::= AdditiveExpr | RelationalExpr ('<' | '>' | '<=' | '>=') AdditiveExpr
[25] AdditiveExpr       ::= MultiplicativeExpr | AdditiveExpr ('+' | '-') MultiplicativeExpr
[26] MultiplicativeExpr ::= UnaryExpr | MultiplicativeExpr (MultiplyOperator | 'div' | 'mod') UnaryExpr
[18] UnionExpr          ::= PathExpr | UnionExpr '|' PathExpr
```
`X.binary = some (Y, ops)`; each operator with its spelling in the tree -/
def NT.binary : NT → Option (NT × List (ETok × String))
  | .OrExpr => some (.AndExpr, [(.opName "or", "or")])
  | .AndExpr => some (.EqualityExpr, [(.opName "and", "and")])
  | .EqualityExpr => some (.RelationalExpr, [(.eq, "="), (.ne, "!=")])
  | .RelationalExpr => some (.AdditiveExpr, [(.lt, "<"), (.gt, ">"), (.le, "<="), (.ge, ">=")])
  | .AdditiveExpr => some (.MultiplicativeExpr, [(.plus, "+"), (.minus, "-")])
  | .MultiplicativeExpr =>
      some (.UnaryExpr, [(.mul, "*"), (.opName "div", "div"), (.opName "mod", "mod")])
  | .UnionExpr => some (.PathExpr, [(.union, "|")])
  | _ => none

/-- tree of `n` minus signs over `x` (the project's encoding, cf. `E.toAst` of OperatorGrammar.lean):
`x * -1` for odd `n`, `(x * -1) * -1` for even `n > 0` -/
def negEnc (n : Nat) (x : Ast) : Ast :=
  if n = 0 then x
  else if n % 2 = 1 then .oper "*" x (.num "-1")
  else .oper "*" (.oper "*" x (.num "-1")) (.num "-1")

/-- `D ns X ts t`: the ExprTokens `ts` derive `t` from the non-terminal `X` -/
inductive D (ns : Option NsMap) : NT → List ETok → Ast → Prop
  /- [1] LocationPath ::= RelativeLocationPath | AbsoluteLocationPath -/
  | loc_rel {ts t} : D ns (.RelativeLocationPath .none) ts t → D ns .LocationPath ts t
  | loc_abs {ts t} : D ns .AbsoluteLocationPath ts t → D ns .LocationPath ts t
  /- [2] AbsoluteLocationPath ::= '/' RelativeLocationPath? | AbbreviatedAbsoluteLocationPath -/
  | abs_root : D ns .AbsoluteLocationPath [.slash] (.root "/")
  | abs_rel {ts t} : D ns (.RelativeLocationPath (.root "/")) ts t →
      D ns .AbsoluteLocationPath (.slash :: ts) t
  | abs_abbrev {ts t} : D ns .AbbreviatedAbsoluteLocationPath ts t → D ns .AbsoluteLocationPath ts t
  /- [3] RelativeLocationPath ::= Step | RelativeLocationPath '/' Step
                                | AbbreviatedRelativeLocationPath -/
  | rel_step {inp ts t} : D ns (.Step inp) ts t → D ns (.RelativeLocationPath inp) ts t
  | rel_slash {inp ts₁ ts₂ t₁ t₂} : D ns (.RelativeLocationPath inp) ts₁ t₁ → D ns (.Step t₁) ts₂ t₂ →
      D ns (.RelativeLocationPath inp) (ts₁ ++ [.slash] ++ ts₂) t₂
  | rel_abbrev {inp ts t} : D ns (.AbbreviatedRelativeLocationPath inp) ts t →
      D ns (.RelativeLocationPath inp) ts t
  /- [4] Step ::= AxisSpecifier NodeTest Predicate* | AbbreviatedStep -/
  | step {inp ts₁ ts₂ ts₃ ax info t} : AxisSpecifierD ts₁ ax → NodeTestD ns ax ts₂ info →
      D ns (.Predicates (.axis info inp)) ts₃ t → D ns (.Step inp) (ts₁ ++ ts₂ ++ ts₃) t
  | step_abbrev {inp ts t} : D ns (.AbbreviatedStep inp) ts t → D ns (.Step inp) ts t
  /- Predicate* -/
  | preds_nil {t} : D ns (.Predicates t) [] t
  | preds_snoc {t₀ ts₁ ts₂ t c} : D ns (.Predicates t₀) ts₁ t → D ns .Predicate ts₂ c →
      D ns (.Predicates t₀) (ts₁ ++ ts₂) (.filter t c)
  /- [8] Predicate ::= '[' PredicateExpr ']' -/
  | predicate {ts c} : D ns .PredicateExpr ts c → D ns .Predicate ([.lbracket] ++ ts ++ [.rbracket]) c
  /- [9] PredicateExpr ::= Expr -/
  | predicateExpr {ts c} : D ns .Expr ts c → D ns .PredicateExpr ts c
  /- [10] AbbreviatedAbsoluteLocationPath ::= '//' RelativeLocationPath -/
  | abbrevAbs {ts t} : D ns (.RelativeLocationPath (dos (.root "/"))) ts t →
      D ns .AbbreviatedAbsoluteLocationPath (.slashslash :: ts) t
  /- [11] AbbreviatedRelativeLocationPath ::= RelativeLocationPath '//' Step -/
  | abbrevRel {inp ts₁ ts₂ t₁ t₂} : D ns (.RelativeLocationPath inp) ts₁ t₁ →
      D ns (.Step (dos t₁)) ts₂ t₂ →
      D ns (.AbbreviatedRelativeLocationPath inp) (ts₁ ++ [.slashslash] ++ ts₂) t₂
  /- [12] AbbreviatedStep ::= '.' | '..' -/
  | dot {inp} : D ns (.AbbreviatedStep inp) [.dot] (nodeStep "self" inp)
  | dotdot {inp} : D ns (.AbbreviatedStep inp) [.dotdot] (nodeStep "parent" inp)
  /- [14] Expr ::= OrExpr -/
  | expr {ts t} : D ns .OrExpr ts t → D ns .Expr ts t
  /- [15] PrimaryExpr ::= VariableReference | '(' Expr ')' | Literal | Number | FunctionCall -/
  | prim_var {p l} : D ns .PrimaryExpr [.varRef p l] (.var p l)
  | prim_group {ts t} : D ns .Expr ts t → D ns .PrimaryExpr ([.lparen] ++ ts ++ [.rparen]) (.group t)
  | prim_literal {s} : D ns .PrimaryExpr [.literal s] (.str s)
  | prim_number {s} : D ns .PrimaryExpr [.number s] (.num s)
  | prim_call {ts t} : D ns .FunctionCall ts t → D ns .PrimaryExpr ts t
  /- [16] FunctionCall ::= FunctionName '(' ( Argument ( ',' Argument )* )? ')' -/
  | call_nil {p f} : D ns .FunctionCall [.funcName p f, .lparen, .rparen] (.call f p .anil)
  | call_args {p f ts as} : D ns .Arguments ts as →
      D ns .FunctionCall ([.funcName p f, .lparen] ++ ts ++ [.rparen]) (.call f p as)
  | args_one {ts a} : D ns .Argument ts a → D ns .Arguments ts (.acons a .anil)
  | args_cons {ts₁ ts₂ a as} : D ns .Argument ts₁ a → D ns .Arguments ts₂ as →
      D ns .Arguments (ts₁ ++ [.comma] ++ ts₂) (.acons a as)
  /- [17] Argument ::= Expr -/
  | argument {ts t} : D ns .Expr ts t → D ns .Argument ts t
  /- [19] PathExpr ::= LocationPath | FilterExpr | FilterExpr '/' RelativeLocationPath
                     | FilterExpr '//' RelativeLocationPath -/
  | path_loc {ts t} : D ns .LocationPath ts t → D ns .PathExpr ts t
  | path_filter {ts t} : D ns .FilterExpr ts t → D ns .PathExpr ts t
  | path_slash {ts₁ ts₂ f t} : D ns .FilterExpr ts₁ f → D ns (.RelativeLocationPath f) ts₂ t →
      D ns .PathExpr (ts₁ ++ [.slash] ++ ts₂) t
  | path_slashslash {ts₁ ts₂ f t} : D ns .FilterExpr ts₁ f →
      D ns (.RelativeLocationPath (dos f)) ts₂ t → D ns .PathExpr (ts₁ ++ [.slashslash] ++ ts₂) t
  /- [20] FilterExpr ::= PrimaryExpr | FilterExpr Predicate -/
  | filter_prim {ts t} : D ns .PrimaryExpr ts t → D ns .FilterExpr ts t
  | filter_pred {ts₁ ts₂ f c} : D ns .FilterExpr ts₁ f → D ns .Predicate ts₂ c →
      D ns .FilterExpr (ts₁ ++ ts₂) (.filter f c)
  /- [18], [21]–[26]:  X ::= Y | X op Y -/
  | up {X Y ops ts t} : X.binary = some (Y, ops) → D ns Y ts t → D ns X ts t
  | bin {X Y ops tok op ts₁ ts₂ l r} : X.binary = some (Y, ops) → (tok, op) ∈ ops →
      D ns X ts₁ l → D ns Y ts₂ r → D ns X (ts₁ ++ [tok] ++ ts₂) (.oper op l r)
  /- [27] UnaryExpr ::= UnionExpr | '-' UnaryExpr -/
  | unary_union {ts x} : D ns .UnionExpr ts x → D ns (.UnaryRun 0) ts x
  | unary_minus {n ts x} : D ns (.UnaryRun n) ts x → D ns (.UnaryRun (n + 1)) (.minus :: ts) x
  | unary {n ts x} : D ns (.UnaryRun n) ts x → D ns .UnaryExpr ts (negEnc n x)

/-- the grammar on scanner tokens: §3.7 classification, then the productions.  Meant for whole
expressions (`nt = .Expr`); for another non-terminal the list is classified as if it stood at the
start of the text. -/
def Derives (ns : Option NsMap) (nt : NT) (toks : List TokV) (a : Ast) : Prop :=
  D ns nt (classify none toks) a

/-- `toks` is an XPath 1.0 expression with tree `a` -/
def Parses (ns : Option NsMap) (toks : List TokV) (a : Ast) : Prop := Derives ns .Expr toks a

/-! ## §3  Executable reference parser

Recursive descent over the ExprTokens, one function per production; the left-recursive productions
(`X ::= Y | X op Y`, `RelativeLocationPath`, `FilterExpr`, `Predicate*`) are loops that fold to the
left.  Every call spends one unit of fuel; `refParseFull` supplies more than any derivation needs.
Each function returns the tree and the unread tokens. -/

abbrev PR := Option (Ast × List ETok)

/-- [5], [6], [13] -/
def pAxisSpec : List ETok → Option (String × List ETok)
  | .axisName s :: rest => if axisNames.contains s then some (s, rest) else none
  | .at :: rest => some ("attribute", rest)
  | toks => some ("child", toks)

/-- [7], [37] -/
def pNodeTest (ns : Option NsMap) (ax : String) : List ETok → Option (AxisInfo × List ETok)
  | .wild :: rest => some (⟨ax, principal ax, "", "", "", false, ""⟩, rest)
  | .nsWild p :: rest => match resolve ns p with
    | some (h, u) => some (⟨ax, principal ax, p, "", "", h, u⟩, rest)
    | none => none
  | .qname p l :: rest => match resolve ns p with
    | some (h, u) => some (⟨ax, principal ax, p, l, "", h, u⟩, rest)
    | none => none
  | .nodeType s :: .lparen :: .rparen :: rest =>
    if nodeTypes.contains s then some (⟨ax, typeOfNodeType s, "", "", s, false, ""⟩, rest) else none
  | .nodeType "processing-instruction" :: .lparen :: .literal s :: .rparen :: rest =>
    some (⟨ax, typeOfNodeType "processing-instruction", "", s, "processing-instruction", false, ""⟩, rest)
  | _ => none

/-- the tokens a Step can begin with -/
def startsStep : List ETok → Bool
  | .axisName _ :: _ | .at :: _ | .wild :: _ | .nsWild _ :: _ | .qname _ _ :: _
  | .nodeType _ :: _ | .dot :: _ | .dotdot :: _ => true
  | _ => false

/-- the tokens a PrimaryExpr can begin with -/
def startsPrimary : List ETok → Bool
  | .varRef _ _ :: _ | .lparen :: _ | .literal _ :: _ | .number _ :: _ | .funcName _ _ :: _ => true
  | _ => false

/-- the binary tiers [21]–[26], loosest first (cf. `NT.binary`) -/
def upperTiers : List (List (ETok × String)) :=
  [[(.opName "or", "or")], [(.opName "and", "and")], [(.eq, "="), (.ne, "!=")],
   [(.lt, "<"), (.gt, ">"), (.le, "<="), (.ge, ">=")], [(.plus, "+"), (.minus, "-")],
   [(.mul, "*"), (.opName "div", "div"), (.opName "mod", "mod")]]

mutual
/-- [14] Expr, [21]–[26]: the tiers `tiers` (loosest first), then [27] -/
def pTier (ns : Option NsMap) : Nat → List (List (ETok × String)) → List ETok → PR
  | 0, _, _ => none
  | f+1, [], toks => pUnary ns f 0 toks
  | f+1, ops :: more, toks =>
    match pTier ns f more toks with
    | some (l, rest) => pTierLoop ns f ops more l rest
    | none => none

def pTierLoop (ns : Option NsMap) : Nat → List (ETok × String) → List (List (ETok × String)) → Ast →
    List ETok → PR
  | 0, _, _, _, _ => none
  | _+1, _, _, acc, [] => some (acc, [])
  | f+1, ops, more, acc, t :: rest =>
    match ops.lookup t with
    | some op => match pTier ns f more rest with
      | some (r, rest') => pTierLoop ns f ops more (.oper op acc r) rest'
      | none => none
    | none => some (acc, t :: rest)

/-- [27] UnaryExpr, having read `n` minus signs -/
def pUnary (ns : Option NsMap) : Nat → Nat → List ETok → PR
  | 0, _, _ => none
  | f+1, n, .minus :: rest => pUnary ns f (n + 1) rest
  | f+1, n, toks => match pUnion ns f toks with
    | some (x, rest) => some (negEnc n x, rest)
    | none => none

/-- [18] UnionExpr -/
def pUnion (ns : Option NsMap) : Nat → List ETok → PR
  | 0, _ => none
  | f+1, toks => match pPath ns f toks with
    | some (l, rest) => pUnionLoop ns f l rest
    | none => none

def pUnionLoop (ns : Option NsMap) : Nat → Ast → List ETok → PR
  | 0, _, _ => none
  | f+1, acc, .union :: rest => match pPath ns f rest with
    | some (r, rest') => pUnionLoop ns f (.oper "|" acc r) rest'
    | none => none
  | _+1, acc, toks => some (acc, toks)

/-- [19] PathExpr, with [1], [2], [10] -/
def pPath (ns : Option NsMap) : Nat → List ETok → PR
  | 0, _ => none
  | f+1, .slash :: rest =>
    -- '/' RelativeLocationPath? : nothing but a step can use a step-start token here
    if startsStep rest then pRel ns f (.root "/") rest else some (.root "/", rest)
  | f+1, .slashslash :: rest => pRel ns f (dos (.root "/")) rest
  | f+1, toks =>
    if startsPrimary toks then
      match pFilter ns f toks with
      | some (x, .slash :: rest) => pRel ns f x rest
      | some (x, .slashslash :: rest) => pRel ns f (dos x) rest
      | r => r
    else pRel ns f .none toks

/-- [3], [11] RelativeLocationPath over `inp` -/
def pRel (ns : Option NsMap) : Nat → Ast → List ETok → PR
  | 0, _, _ => none
  | f+1, inp, toks => match pStep ns f inp toks with
    | some (t, rest) => pRelLoop ns f t rest
    | none => none

def pRelLoop (ns : Option NsMap) : Nat → Ast → List ETok → PR
  | 0, _, _ => none
  | f+1, acc, .slash :: rest => match pStep ns f acc rest with
    | some (t, rest') => pRelLoop ns f t rest'
    | none => none
  | f+1, acc, .slashslash :: rest => match pStep ns f (dos acc) rest with
    | some (t, rest') => pRelLoop ns f t rest'
    | none => none
  | _+1, acc, toks => some (acc, toks)

/-- [4], [12] Step over `inp` -/
def pStep (ns : Option NsMap) : Nat → Ast → List ETok → PR
  | 0, _, _ => none
  | _+1, inp, .dot :: rest => some (nodeStep "self" inp, rest)
  | _+1, inp, .dotdot :: rest => some (nodeStep "parent" inp, rest)
  | f+1, inp, toks =>
    match pAxisSpec toks with
    | some (ax, rest) => match pNodeTest ns ax rest with
      | some (info, rest') => pPreds ns f (.axis info inp) rest'
      | none => none
    | none => none

/-- Predicate* with [8], [9] -/
def pPreds (ns : Option NsMap) : Nat → Ast → List ETok → PR
  | 0, _, _ => none
  | f+1, acc, .lbracket :: rest => match pTier ns f upperTiers rest with
    | some (c, .rbracket :: rest') => pPreds ns f (.filter acc c) rest'
    | _ => none
  | _+1, acc, toks => some (acc, toks)

/-- [20] FilterExpr -/
def pFilter (ns : Option NsMap) : Nat → List ETok → PR
  | 0, _ => none
  | f+1, toks => match pPrimary ns f toks with
    | some (x, rest) => pPreds ns f x rest
    | none => none

/-- [15] PrimaryExpr, [16] FunctionCall -/
def pPrimary (ns : Option NsMap) : Nat → List ETok → PR
  | 0, _ => none
  | _+1, .varRef p l :: rest => some (.var p l, rest)
  | _+1, .literal s :: rest => some (.str s, rest)
  | _+1, .number s :: rest => some (.num s, rest)
  | f+1, .lparen :: rest => match pTier ns f upperTiers rest with
    | some (x, .rparen :: rest') => some (.group x, rest')
    | _ => none
  | _+1, .funcName p fn :: .lparen :: .rparen :: rest => some (.call fn p .anil, rest)
  | f+1, .funcName p fn :: .lparen :: rest => match pArgs ns f rest with
    | some (as, rest') => some (.call fn p as, rest')
    | none => none
  | _+1, _ => none

/-- Argument ( ',' Argument )* ')'  ([16], [17]); reads the closing parenthesis -/
def pArgs (ns : Option NsMap) : Nat → List ETok → PR
  | 0, _ => none
  | f+1, toks => match pTier ns f upperTiers toks with
    | some (a, .rparen :: rest) => some (.acons a .anil, rest)
    | some (a, .comma :: rest) => match pArgs ns f rest with
      | some (as, rest') => some (.acons a as, rest')
      | none => none
    | _ => none
end

/-- the tree of the token list, if it is an Expr [14] (all tokens read) -/
def refParseFull (ns : Option NsMap) (toks : List TokV) : Option Ast :=
  let ets := classify none toks
  match pTier ns (32 * (ets.length + 2)) upperTiers ets with
  | some (a, []) => some a
  | _ => none

/-! ## §3b  The reference parser is sound for the grammar

`refParseFull ns toks = some a → Parses ns toks a`.  (Completeness is not proved.) -/
section Soundness

/-- `tiers` is the tail of `upperTiers` that starts at the non-terminal `X` -/
inductive TierOK : List (List (ETok × String)) → NT → Prop
  | nil : TierOK [] .UnaryExpr
  | cons {X Y ops more} : X.binary = some (Y, ops) → TierOK more Y → TierOK (ops :: more) X

theorem tierOK_upper : TierOK upperTiers .OrExpr :=
  .cons rfl (.cons rfl (.cons rfl (.cons rfl (.cons rfl (.cons rfl .nil)))))

theorem mem_of_lookup {t : ETok} {op : String} :
    ∀ {ops : List (ETok × String)}, ops.lookup t = some op → (t, op) ∈ ops
  | [], h => by simp [List.lookup] at h
  | (k, v) :: ops, h => by
    by_cases hk : t = k
    · subst hk
      simp [List.lookup] at h
      subst h
      exact List.mem_cons_self
    · have : (t == k) = false := by simpa using hk
      simp [List.lookup, this] at h
      exact List.mem_cons_of_mem _ (mem_of_lookup h)

theorem pAxisSpec_sound {toks ax rest} (h : pAxisSpec toks = some (ax, rest)) :
    ∃ pre, toks = pre ++ rest ∧ AxisSpecifierD pre ax := by
  unfold pAxisSpec at h
  split at h
  · rename_i s r
    split at h
    · rename_i hs
      simp at h
      obtain ⟨rfl, rfl⟩ := h
      exact ⟨[.axisName s], rfl, .named (by simpa using hs)⟩
    · simp at h
  · simp at h
    obtain ⟨rfl, rfl⟩ := h
    exact ⟨[.at], rfl, .abbrev .attribute⟩
  · simp at h
    obtain ⟨rfl, rfl⟩ := h
    exact ⟨[], rfl, .abbrev .child⟩

theorem pNodeTest_sound {ns ax toks info rest} (h : pNodeTest ns ax toks = some (info, rest)) :
    ∃ pre, toks = pre ++ rest ∧ NodeTestD ns ax pre info := by
  unfold pNodeTest at h
  split at h
  · simp at h
    obtain ⟨rfl, rfl⟩ := h
    exact ⟨[.wild], rfl, .wild⟩
  · rename_i p r
    split at h
    · rename_i hu u hr
      simp at h
      obtain ⟨rfl, rfl⟩ := h
      exact ⟨[.nsWild p], rfl, .nsWild hr⟩
    · simp at h
  · rename_i p l r
    split at h
    · rename_i hu u hr
      simp at h
      obtain ⟨rfl, rfl⟩ := h
      exact ⟨[.qname p l], rfl, .qname hr⟩
    · simp at h
  · rename_i s r
    split at h
    · rename_i hs
      simp at h
      obtain ⟨rfl, rfl⟩ := h
      exact ⟨[.nodeType s, .lparen, .rparen], rfl, .nodeType (by simpa using hs)⟩
    · simp at h
  · rename_i s r
    simp at h
    obtain ⟨rfl, rfl⟩ := h
    exact ⟨[.nodeType "processing-instruction", .lparen, .literal s, .rparen], rfl, .pi⟩
  · simp at h

/-- what one unit of fuel level `f` guarantees for every function of the parser -/
structure Sound (ns : Option NsMap) (f : Nat) : Prop where
  tier : ∀ {tiers X toks a rest}, TierOK tiers X → pTier ns f tiers toks = some (a, rest) →
    ∃ pre, toks = pre ++ rest ∧ D ns X pre a
  tierLoop : ∀ {ops more X Y acc toks a rest}, X.binary = some (Y, ops) → TierOK more Y →
    pTierLoop ns f ops more acc toks = some (a, rest) → ∀ {pre0}, D ns X pre0 acc →
    ∃ pre, toks = pre ++ rest ∧ D ns X (pre0 ++ pre) a
  unary : ∀ {n toks a rest}, pUnary ns f n toks = some (a, rest) →
    ∃ pre m x, toks = pre ++ rest ∧ D ns (.UnaryRun m) pre x ∧ a = negEnc (n + m) x
  union : ∀ {toks a rest}, pUnion ns f toks = some (a, rest) →
    ∃ pre, toks = pre ++ rest ∧ D ns .UnionExpr pre a
  unionLoop : ∀ {acc toks a rest}, pUnionLoop ns f acc toks = some (a, rest) →
    ∀ {pre0}, D ns .UnionExpr pre0 acc → ∃ pre, toks = pre ++ rest ∧ D ns .UnionExpr (pre0 ++ pre) a
  path : ∀ {toks a rest}, pPath ns f toks = some (a, rest) →
    ∃ pre, toks = pre ++ rest ∧ D ns .PathExpr pre a
  rel : ∀ {inp toks a rest}, pRel ns f inp toks = some (a, rest) →
    ∃ pre, toks = pre ++ rest ∧ D ns (.RelativeLocationPath inp) pre a
  relLoop : ∀ {inp acc toks a rest}, pRelLoop ns f acc toks = some (a, rest) →
    ∀ {pre0}, D ns (.RelativeLocationPath inp) pre0 acc →
    ∃ pre, toks = pre ++ rest ∧ D ns (.RelativeLocationPath inp) (pre0 ++ pre) a
  step : ∀ {inp toks a rest}, pStep ns f inp toks = some (a, rest) →
    ∃ pre, toks = pre ++ rest ∧ D ns (.Step inp) pre a
  /-- `P` is any property closed under appending a predicate -/
  preds : ∀ {acc toks a rest}, pPreds ns f acc toks = some (a, rest) →
    ∀ (P : List ETok → Ast → Prop),
      (∀ ts t ts₂ c, P ts t → D ns .Predicate ts₂ c → P (ts ++ ts₂) (.filter t c)) →
      ∀ {pre0}, P pre0 acc → ∃ pre, toks = pre ++ rest ∧ P (pre0 ++ pre) a
  filter : ∀ {toks a rest}, pFilter ns f toks = some (a, rest) →
    ∃ pre, toks = pre ++ rest ∧ D ns .FilterExpr pre a
  primary : ∀ {toks a rest}, pPrimary ns f toks = some (a, rest) →
    ∃ pre, toks = pre ++ rest ∧ D ns .PrimaryExpr pre a
  args : ∀ {toks a rest}, pArgs ns f toks = some (a, rest) →
    ∃ pre, toks = pre ++ [.rparen] ++ rest ∧ D ns .Arguments pre a

theorem sound_zero (ns : Option NsMap) : Sound ns 0 where
  tier := by intro _ _ _ _ _ _ h; simp [pTier] at h
  tierLoop := by intro _ _ _ _ _ _ _ _ _ _ h; simp [pTierLoop] at h
  unary := by intro _ _ _ _ h; simp [pUnary] at h
  union := by intro _ _ _ h; simp [pUnion] at h
  unionLoop := by intro _ _ _ _ h; simp [pUnionLoop] at h
  path := by intro _ _ _ h; simp [pPath] at h
  rel := by intro _ _ _ _ h; simp [pRel] at h
  relLoop := by intro _ _ _ _ _ h; simp [pRelLoop] at h
  step := by intro _ _ _ _ h; simp [pStep] at h
  preds := by intro _ _ _ _ h; simp [pPreds] at h
  filter := by intro _ _ _ h; simp [pFilter] at h
  primary := by intro _ _ _ h; simp [pPrimary] at h
  args := by intro _ _ _ h; simp [pArgs] at h

variable {ns : Option NsMap} {f : Nat}

theorem s_tier (ih : Sound ns f) {tiers X toks a rest} (ok : TierOK tiers X)
    (h : pTier ns (f+1) tiers toks = some (a, rest)) : ∃ pre, toks = pre ++ rest ∧ D ns X pre a := by
  cases ok with
  | nil =>
    simp only [pTier] at h
    obtain ⟨pre, m, x, rfl, hd, rfl⟩ := ih.unary h
    exact ⟨pre, rfl, by simpa using D.unary hd⟩
  | cons hb okY =>
    simp only [pTier] at h
    split at h
    · rename_i l r hl
      obtain ⟨pre1, rfl, d1⟩ := ih.tier okY hl
      obtain ⟨pre, rfl, d⟩ := ih.tierLoop hb okY h (D.up hb d1)
      exact ⟨pre1 ++ pre, by simp, d⟩
    · simp at h

theorem s_tierLoop (ih : Sound ns f) {ops more X Y acc toks a rest} (hb : X.binary = some (Y, ops))
    (okY : TierOK more Y) (h : pTierLoop ns (f+1) ops more acc toks = some (a, rest))
    {pre0} (d0 : D ns X pre0 acc) : ∃ pre, toks = pre ++ rest ∧ D ns X (pre0 ++ pre) a := by
  cases toks with
  | nil =>
    simp only [pTierLoop] at h
    simp at h
    obtain ⟨rfl, rfl⟩ := h
    exact ⟨[], rfl, by simpa using d0⟩
  | cons t r =>
    simp only [pTierLoop] at h
    split at h
    · rename_i op hop
      split at h
      · rename_i x r' hx
        obtain ⟨pre1, rfl, d1⟩ := ih.tier okY hx
        obtain ⟨pre, rfl, d⟩ := ih.tierLoop hb okY h (D.bin hb (mem_of_lookup hop) d0 d1)
        exact ⟨t :: (pre1 ++ pre), by simp, by simpa [List.append_assoc] using d⟩
      · simp at h
    · simp at h
      obtain ⟨rfl, rfl⟩ := h
      exact ⟨[], rfl, by simpa using d0⟩

theorem s_unary (ih : Sound ns f) {n toks a rest} (h : pUnary ns (f+1) n toks = some (a, rest)) :
    ∃ pre m x, toks = pre ++ rest ∧ D ns (.UnaryRun m) pre x ∧ a = negEnc (n + m) x := by
  unfold pUnary at h
  split at h
  · simp at h
  · cases ‹f + 1 = Nat.succ _›
    obtain ⟨pre, m, x, rfl, d, rfl⟩ := ih.unary h
    exact ⟨.minus :: pre, m + 1, x, rfl, .unary_minus d, by simp [Nat.add_assoc, Nat.add_comm 1 m]⟩
  · cases ‹f + 1 = Nat.succ _›
    split at h
    · rename_i x r hx
      simp at h
      obtain ⟨rfl, rfl⟩ := h
      obtain ⟨pre, rfl, d⟩ := ih.union hx
      exact ⟨pre, 0, x, rfl, .unary_union d, by simp⟩
    · simp at h

theorem s_union (ih : Sound ns f) {toks a rest} (h : pUnion ns (f+1) toks = some (a, rest)) :
    ∃ pre, toks = pre ++ rest ∧ D ns .UnionExpr pre a := by
  simp only [pUnion] at h
  split at h
  · rename_i l r hl
    obtain ⟨pre1, rfl, d1⟩ := ih.path hl
    obtain ⟨pre, rfl, d⟩ := ih.unionLoop h (D.up rfl d1)
    exact ⟨pre1 ++ pre, by simp, d⟩
  · simp at h

theorem s_unionLoop (ih : Sound ns f) {acc toks a rest}
    (h : pUnionLoop ns (f+1) acc toks = some (a, rest)) {pre0} (d0 : D ns .UnionExpr pre0 acc) :
    ∃ pre, toks = pre ++ rest ∧ D ns .UnionExpr (pre0 ++ pre) a := by
  unfold pUnionLoop at h
  split at h
  · simp at h
  · cases ‹f + 1 = Nat.succ _›
    split at h
    · rename_i x r' hx
      obtain ⟨pre1, rfl, d1⟩ := ih.path hx
      obtain ⟨pre, rfl, d⟩ := ih.unionLoop h (D.bin (tok := .union) (op := "|") rfl (by simp) d0 d1)
      exact ⟨.union :: (pre1 ++ pre), by simp, by simpa [List.append_assoc] using d⟩
    · simp at h
  · simp at h
    obtain ⟨rfl, rfl⟩ := h
    exact ⟨[], rfl, by simpa using d0⟩

theorem s_rel (ih : Sound ns f) {inp toks a rest} (h : pRel ns (f+1) inp toks = some (a, rest)) :
    ∃ pre, toks = pre ++ rest ∧ D ns (.RelativeLocationPath inp) pre a := by
  simp only [pRel] at h
  split at h
  · rename_i t r ht
    obtain ⟨pre1, rfl, d1⟩ := ih.step ht
    obtain ⟨pre, rfl, d⟩ := ih.relLoop h (D.rel_step d1)
    exact ⟨pre1 ++ pre, by simp, d⟩
  · simp at h

theorem s_relLoop (ih : Sound ns f) {inp acc toks a rest}
    (h : pRelLoop ns (f+1) acc toks = some (a, rest)) {pre0}
    (d0 : D ns (.RelativeLocationPath inp) pre0 acc) :
    ∃ pre, toks = pre ++ rest ∧ D ns (.RelativeLocationPath inp) (pre0 ++ pre) a := by
  unfold pRelLoop at h
  split at h
  · simp at h
  · cases ‹f + 1 = Nat.succ _›
    split at h
    · rename_i x r' hx
      obtain ⟨pre1, rfl, d1⟩ := ih.step hx
      obtain ⟨pre, rfl, d⟩ := ih.relLoop h (D.rel_slash d0 d1)
      exact ⟨.slash :: (pre1 ++ pre), by simp, by simpa [List.append_assoc] using d⟩
    · simp at h
  · cases ‹f + 1 = Nat.succ _›
    split at h
    · rename_i x r' hx
      obtain ⟨pre1, rfl, d1⟩ := ih.step hx
      obtain ⟨pre, rfl, d⟩ := ih.relLoop h (D.rel_abbrev (D.abbrevRel d0 d1))
      exact ⟨.slashslash :: (pre1 ++ pre), by simp, by simpa [List.append_assoc] using d⟩
    · simp at h
  · simp at h
    obtain ⟨rfl, rfl⟩ := h
    exact ⟨[], rfl, by simpa using d0⟩

theorem s_preds (ih : Sound ns f) {acc toks a rest} (h : pPreds ns (f+1) acc toks = some (a, rest))
    (P : List ETok → Ast → Prop)
    (hP : ∀ ts t ts₂ c, P ts t → D ns .Predicate ts₂ c → P (ts ++ ts₂) (.filter t c))
    {pre0} (p0 : P pre0 acc) : ∃ pre, toks = pre ++ rest ∧ P (pre0 ++ pre) a := by
  unfold pPreds at h
  split at h
  · simp at h
  · cases ‹f + 1 = Nat.succ _›
    split at h
    · rename_i c r' hc
      obtain ⟨pre1, rfl, d1⟩ := ih.tier tierOK_upper hc
      have dp : D ns .Predicate ([.lbracket] ++ pre1 ++ [.rbracket]) c :=
        .predicate (.predicateExpr (.expr d1))
      obtain ⟨pre, rfl, d⟩ := ih.preds h P hP (hP _ _ _ _ p0 dp)
      exact ⟨.lbracket :: (pre1 ++ .rbracket :: pre), by simp, by simpa [List.append_assoc] using d⟩
    · simp at h
  · simp at h
    obtain ⟨rfl, rfl⟩ := h
    exact ⟨[], rfl, by simpa using p0⟩

theorem s_filter (ih : Sound ns f) {toks a rest} (h : pFilter ns (f+1) toks = some (a, rest)) :
    ∃ pre, toks = pre ++ rest ∧ D ns .FilterExpr pre a := by
  simp only [pFilter] at h
  split at h
  · rename_i x r hx
    obtain ⟨pre1, rfl, d1⟩ := ih.primary hx
    obtain ⟨pre, rfl, d⟩ := ih.preds h (fun ts t => D ns .FilterExpr ts t)
      (fun _ _ _ _ a b => D.filter_pred a b) (D.filter_prim d1)
    exact ⟨pre1 ++ pre, by simp, d⟩
  · simp at h

theorem s_step (ih : Sound ns f) {inp toks a rest} (h : pStep ns (f+1) inp toks = some (a, rest)) :
    ∃ pre, toks = pre ++ rest ∧ D ns (.Step inp) pre a := by
  unfold pStep at h
  split at h
  · simp at h
  · simp at h
    obtain ⟨rfl, rfl⟩ := h
    exact ⟨[.dot], rfl, .step_abbrev .dot⟩
  · simp at h
    obtain ⟨rfl, rfl⟩ := h
    exact ⟨[.dotdot], rfl, .step_abbrev .dotdot⟩
  · cases ‹f + 1 = Nat.succ _›
    split at h
    · rename_i ax r hax
      obtain ⟨pre1, rfl, d1⟩ := pAxisSpec_sound hax
      split at h
      · rename_i info r' hnt
        obtain ⟨pre2, rfl, d2⟩ := pNodeTest_sound hnt
        obtain ⟨pre, rfl, d⟩ := ih.preds h (fun ts t => D ns (.Predicates (.axis info _)) ts t)
          (fun _ _ _ _ a b => D.preds_snoc a b) (pre0 := []) D.preds_nil
        exact ⟨pre1 ++ pre2 ++ pre, by simp, D.step d1 d2 (by simpa using d)⟩
      · simp at h
    · simp at h

theorem s_path (ih : Sound ns f) {toks a rest} (h : pPath ns (f+1) toks = some (a, rest)) :
    ∃ pre, toks = pre ++ rest ∧ D ns .PathExpr pre a := by
  unfold pPath at h
  split at h
  · simp at h
  · cases ‹f + 1 = Nat.succ _›
    split at h
    · obtain ⟨pre, rfl, d⟩ := ih.rel h
      exact ⟨.slash :: pre, rfl, .path_loc (.loc_abs (.abs_rel d))⟩
    · simp at h
      obtain ⟨rfl, rfl⟩ := h
      exact ⟨[.slash], rfl, .path_loc (.loc_abs .abs_root)⟩
  · cases ‹f + 1 = Nat.succ _›
    obtain ⟨pre, rfl, d⟩ := ih.rel h
    exact ⟨.slashslash :: pre, rfl, .path_loc (.loc_abs (.abs_abbrev (.abbrevAbs d)))⟩
  · cases ‹f + 1 = Nat.succ _›
    split at h
    · split at h
      · rename_i x r hx
        obtain ⟨pre1, rfl, d1⟩ := ih.filter hx
        obtain ⟨pre, rfl, d⟩ := ih.rel h
        exact ⟨pre1 ++ .slash :: pre, by simp, by simpa using D.path_slash d1 d⟩
      · rename_i x r hx
        obtain ⟨pre1, rfl, d1⟩ := ih.filter hx
        obtain ⟨pre, rfl, d⟩ := ih.rel h
        exact ⟨pre1 ++ .slashslash :: pre, by simp, by simpa using D.path_slashslash d1 d⟩
      · obtain ⟨pre, rfl, d⟩ := ih.filter h
        exact ⟨pre, rfl, .path_filter d⟩
    · obtain ⟨pre, rfl, d⟩ := ih.rel h
      exact ⟨pre, rfl, .path_loc (.loc_rel d)⟩

theorem s_primary (ih : Sound ns f) {toks a rest} (h : pPrimary ns (f+1) toks = some (a, rest)) :
    ∃ pre, toks = pre ++ rest ∧ D ns .PrimaryExpr pre a := by
  unfold pPrimary at h
  split at h
  · simp at h
  · simp at h
    obtain ⟨rfl, rfl⟩ := h
    exact ⟨[.varRef _ _], rfl, .prim_var⟩
  · simp at h
    obtain ⟨rfl, rfl⟩ := h
    exact ⟨[.literal _], rfl, .prim_literal⟩
  · simp at h
    obtain ⟨rfl, rfl⟩ := h
    exact ⟨[.number _], rfl, .prim_number⟩
  · cases ‹f + 1 = Nat.succ _›
    split at h
    · rename_i x r hx
      simp at h
      obtain ⟨rfl, rfl⟩ := h
      obtain ⟨pre, rfl, d⟩ := ih.tier tierOK_upper hx
      exact ⟨.lparen :: (pre ++ [.rparen]), by simp, by simpa using D.prim_group (.expr d)⟩
    · simp at h
  · simp at h
    obtain ⟨rfl, rfl⟩ := h
    exact ⟨[.funcName _ _, .lparen, .rparen], rfl, .prim_call .call_nil⟩
  · cases ‹f + 1 = Nat.succ _›
    split at h
    · rename_i p fn _ _ _ as r has
      simp at h
      obtain ⟨rfl, rfl⟩ := h
      obtain ⟨pre, rfl, d⟩ := ih.args has
      exact ⟨.funcName p fn :: .lparen :: (pre ++ [.rparen]), by simp,
        by simpa using D.prim_call (D.call_args (p := p) (f := fn) d)⟩
    · simp at h
  · simp at h

theorem s_args (ih : Sound ns f) {toks a rest} (h : pArgs ns (f+1) toks = some (a, rest)) :
    ∃ pre, toks = pre ++ [.rparen] ++ rest ∧ D ns .Arguments pre a := by
  simp only [pArgs] at h
  split at h
  · rename_i x r hx
    simp at h
    obtain ⟨rfl, rfl⟩ := h
    obtain ⟨pre, rfl, d⟩ := ih.tier tierOK_upper hx
    exact ⟨pre, by simp, .args_one (.argument (.expr d))⟩
  · rename_i x r hx
    obtain ⟨pre1, rfl, d1⟩ := ih.tier tierOK_upper hx
    split at h
    · rename_i as r' has
      simp at h
      obtain ⟨rfl, rfl⟩ := h
      obtain ⟨pre, rfl, d⟩ := ih.args has
      exact ⟨pre1 ++ .comma :: pre, by simp, by simpa using D.args_cons (.argument (.expr d1)) d⟩
    · simp at h
  · simp at h

theorem sound_succ (ih : Sound ns f) : Sound ns (f + 1) where
  tier := s_tier ih
  tierLoop := s_tierLoop ih
  unary := s_unary ih
  union := s_union ih
  unionLoop := s_unionLoop ih
  path := s_path ih
  rel := s_rel ih
  relLoop := s_relLoop ih
  step := s_step ih
  preds := s_preds ih
  filter := s_filter ih
  primary := s_primary ih
  args := s_args ih

theorem sound_all (ns : Option NsMap) : ∀ f, Sound ns f
  | 0 => sound_zero ns
  | f + 1 => sound_succ (sound_all ns f)

/-- **Soundness of the reference parser**: every tree it returns is derived by the grammar. -/
theorem refParseFull_sound {ns : Option NsMap} {toks : List TokV} {a : Ast}
    (h : refParseFull ns toks = some a) : Parses ns toks a := by
  unfold refParseFull at h
  simp only at h
  split at h
  · rename_i a' hp
    simp at h
    subst h
    obtain ⟨pre, hpre, d⟩ := (sound_all ns _).tier tierOK_upper hp
    simp at hpre
    subst hpre
    exact .expr d
  · simp at h

end Soundness

/-! ## §4  Examples

The expected trees are written by hand from the conventions; each `example` is checked by kernel
evaluation of `refParseFull` (`decide`), no `native_decide`. -/
section Examples
open TokV

/-- an unprefixed name not followed by '(' -/
def nm (s : String) : TokV := .name "" s false
/-- an unprefixed name followed by '(' -/
def fn (s : String) : TokV := .name "" s true

/-- `child::l` (unprefixed QName test) over `inp` -/
def child (l : String) (inp : Ast := .none) : Ast := .axis ⟨"child", .elem, "", l, "", false, ""⟩ inp
/-- `child::*` -/
def childAny : Ast := .axis ⟨"child", .elem, "", "", "", false, ""⟩ .none
/-- `x * -1` -/
def neg1 (x : Ast) : Ast := .oper "*" x (.num "-1")

-- a/b[1]
example : refParseFull none [nm "a", slash, nm "b", lbracket, num "1", rbracket]
    = some (.filter (child "b" (child "a")) (.num "1")) := by decide

-- //a[@k='x'] | b
example : refParseFull none
      [slashslash, nm "a", lbracket, TokV.at, nm "k", eq, str "x", rbracket, union, nm "b"]
    = some (.oper "|"
        (.filter (child "a" (dos (.root "/")))
          (.oper "=" (.axis ⟨"attribute", .attr, "", "k", "", false, ""⟩ .none) (.str "x")))
        (child "b")) := by decide

-- ../@*
example : refParseFull none [dotdot, slash, TokV.at, star]
    = some (.axis ⟨"attribute", .attr, "", "", "", false, ""⟩
        (.axis ⟨"parent", .all, "", "", "node", false, ""⟩ .none)) := by decide

-- .//x:*   without a namespace map, with x bound, with x unbound
example : refParseFull none [dot, slashslash, name "x" "*" false]
    = some (.axis ⟨"child", .elem, "x", "", "", false, ""⟩
        (.axis ⟨"descendant-or-self", .all, "", "", "node", false, ""⟩
          (.axis ⟨"self", .all, "", "", "node", false, ""⟩ .none))) := by decide
example : refParseFull (some [("x", "urn:x")]) [dot, slashslash, name "x" "*" false]
    = some (.axis ⟨"child", .elem, "x", "", "", true, "urn:x"⟩
        (.axis ⟨"descendant-or-self", .all, "", "", "node", false, ""⟩
          (.axis ⟨"self", .all, "", "", "node", false, ""⟩ .none))) := by decide
example : refParseFull (some [("y", "urn:y")]) [dot, slashslash, name "x" "*" false] = none := by decide

-- count(//a) + 1 > 2 and not(b)
example : refParseFull none
      [fn "count", lparen, slashslash, nm "a", rparen, plus, num "1", gt, num "2", nm "and",
       fn "not", lparen, nm "b", rparen]
    = some (.oper "and"
        (.oper ">"
          (.oper "+" (.call "count" "" (.acons (child "a" (dos (.root "/"))) .anil)) (.num "1"))
          (.num "2"))
        (.call "not" "" (.acons (child "b") .anil))) := by decide

-- a[b[c]]
example : refParseFull none [nm "a", lbracket, nm "b", lbracket, nm "c", rbracket, rbracket]
    = some (.filter (child "a") (.filter (child "b") (child "c"))) := by decide

-- (a|b)[2]/c
example : refParseFull none
      [lparen, nm "a", union, nm "b", rparen, lbracket, num "2", rbracket, slash, nm "c"]
    = some (child "c" (.filter (.group (.oper "|" (child "a") (child "b"))) (.num "2"))) := by decide

-- -a div -b
example : refParseFull none [minus, nm "a", nm "div", minus, nm "b"]
    = some (.oper "div" (neg1 (child "a")) (neg1 (child "b"))) := by decide

-- - - a   and   - - - a | b
example : refParseFull none [minus, minus, nm "a"] = some (neg1 (neg1 (child "a"))) := by decide
example : refParseFull none [minus, minus, minus, nm "a", union, nm "b"]
    = some (neg1 (.oper "|" (child "a") (child "b"))) := by decide

-- a and and : the second `and` follows an Operator, so it is a NameTest
example : refParseFull none [nm "a", nm "and", nm "and"]
    = some (.oper "and" (child "a") (child "and")) := by decide

-- * * *
example : refParseFull none [star, star, star] = some (.oper "*" childAny childAny) := by decide

-- text()
example : refParseFull none [fn "text", lparen, rparen]
    = some (.axis ⟨"child", .text, "", "", "text", false, ""⟩ .none) := by decide

-- processing-instruction('x')   (typeTest and lname are choices, see §5)
example : refParseFull none [fn "processing-instruction", lparen, str "x", rparen]
    = some (.axis ⟨"child", .all, "", "x", "processing-instruction", false, ""⟩ .none) := by decide

-- /      and      / | a
example : refParseFull none [slash] = some (.root "/") := by decide
example : refParseFull none [slash, union, nm "a"]
    = some (.oper "|" (.root "/") (child "a")) := by decide

-- child::div div 2
example : refParseFull none [TokV.axis "child", nm "div", nm "div", num "2"]
    = some (.oper "div" (child "div") (.num "2")) := by decide

-- $p:v, f(1, 'x'), a and(b): `and` after a name is the operator even before '('
example : refParseFull none [dollar, name "p" "v" false] = some (.var "p" "v") := by decide
example : refParseFull none [name "p" "f" true, lparen, num "1", comma, str "x", rparen]
    = some (.call "f" "p" (.acons (.num "1") (.acons (.str "x") .anil))) := by decide
example : refParseFull none [nm "a", fn "and", lparen, nm "b", rparen]
    = some (.oper "and" (child "a") (.group (child "b"))) := by decide

-- not expressions:  a b,  / and b (`/and` then a stray name),  .[1],  namespace::a,  text(1),  a/
example : refParseFull none [nm "a", nm "b"] = none := by decide
example : refParseFull none [slash, nm "and", nm "b"] = none := by decide
example : refParseFull none [dot, lbracket, num "1", rbracket] = none := by decide
example : refParseFull none [TokV.axis "namespace", nm "a"] = none := by decide
example : refParseFull none [fn "text", lparen, num "1", rparen] = none := by decide
example : refParseFull none [nm "a", slash] = none := by decide
example : refParseFull none [] = none := by decide

/-! The classification of §3.7 on its own, and two derivations in the grammar `D`. -/

example : classify none [star, star, star] = [.wild, .mul, .wild] := by decide
example : classify none [nm "div", nm "div", nm "div"] = [.qname "" "div", .opName "div", .qname "" "div"] := by
  decide
example : classify none [TokV.at, nm "and", nm "or", fn "node", lparen, rparen]
    = [.at, .qname "" "and", .opName "or", .nodeType "node", .lparen, .rparen] := by decide

/-- a single unprefixed name as a RelativeLocationPath over `inp` -/
theorem D.name_step (ns : Option NsMap) (inp : Ast) (l : String) :
    D ns (.Step inp) [.qname "" l] (child l inp) := by
  have h : D ns (.Step inp) ([] ++ [.qname "" l] ++ []) (child l inp) :=
    .step (.abbrev .child) (.qname (p := "") (h := false) (u := "") (by simp [resolve])) .preds_nil
  simpa using h

/-- an UnaryExpr-or-looser non-terminal derives whatever a PathExpr derives -/
theorem D.of_path {ns ts t} (h : D ns .PathExpr ts t) :
    D ns .MultiplicativeExpr ts t :=
  .up rfl (by simpa [negEnc] using D.unary (.unary_union (.up rfl h)))

theorem D.expr_of_mul {ns ts t} (h : D ns .MultiplicativeExpr ts t) : D ns .Expr ts t :=
  .expr (.up rfl (.up rfl (.up rfl (.up rfl (.up rfl h)))))

-- a/b[1]
example : Parses none [nm "a", slash, nm "b", lbracket, num "1", rbracket]
    (.filter (child "b" (child "a")) (.num "1")) := by
  show D none .Expr [.qname "" "a", .slash, .qname "" "b", .lbracket, .number "1", .rbracket] _
  have one : D none .Predicate ([.lbracket] ++ [.number "1"] ++ [.rbracket]) (.num "1") :=
    .predicate (.predicateExpr (D.expr_of_mul (D.of_path (.path_filter (.filter_prim .prim_number)))))
  have b : D none (.Step (child "a")) ([] ++ [.qname "" "b"] ++ ([] ++ _)) _ :=
    .step (.abbrev .child) (.qname (p := "") (h := false) (u := "") (by simp [resolve]))
      (.preds_snoc .preds_nil one)
  have ab : D none (.RelativeLocationPath .none) ([.qname "" "a"] ++ [.slash] ++ _) _ :=
    .rel_slash (.rel_step (D.name_step none .none "a")) b
  exact D.expr_of_mul (D.of_path (.path_loc (.loc_rel ab)))

-- * * *
example : Parses none [star, star, star] (.oper "*" childAny childAny) := by
  show D none .Expr [.wild, .mul, .wild] _
  have w : D none (.Step .none) ([] ++ [.wild] ++ []) childAny := .step (.abbrev .child) .wild .preds_nil
  have p : D none .PathExpr [.wild] childAny := .path_loc (.loc_rel (.rel_step (by simpa using w)))
  have u : D none .UnaryExpr [.wild] childAny := by
    simpa [negEnc] using D.unary (.unary_union (.up rfl p))
  have m : D none .MultiplicativeExpr ([.wild] ++ [.mul] ++ [.wild]) (.oper "*" childAny childAny) :=
    .bin rfl (by simp) (D.of_path p) u
  exact D.expr_of_mul m

-- every tree `refParseFull` returns is a derivation of the grammar (`refParseFull_sound`), e.g.
-- count(//a) + 1 > 2 and not(b)
example : Parses none
      [fn "count", lparen, slashslash, nm "a", rparen, plus, num "1", gt, num "2", nm "and",
       fn "not", lparen, nm "b", rparen]
      (.oper "and"
        (.oper ">"
          (.oper "+" (.call "count" "" (.acons (child "a" (dos (.root "/"))) .anil)) (.num "1"))
          (.num "2"))
        (.call "not" "" (.acons (child "b") .anil))) :=
  refParseFull_sound (by decide)

end Examples

/-! ## §5  Ambiguities in the Recommendation, choices made here, omissions

### A. Where the Recommendation is ambiguous or silent

1. **Order of the §3.7 rules.**  Rule 1 (operator position) and rules 2/3 (name followed by `(` /
   `::`) can both apply: `a and(b)`, `a div::b`.  The fourth rule begins "Otherwise", which reads as
   an if / else-if chain, so rule 1 wins here: an unprefixed name in operator position is an
   OperatorName whatever follows it.  `a and(b)` is therefore `a and (b)`.  (With the other order it
   would not be an expression at all; `a div::b` is an expression under neither order.)  An `axis`
   token in operator position is kept as an AxisName — nothing can be derived from it there.
2. **"an NCName must be recognized as an OperatorName"** when the NCName is none of `and or mod div`
   (`a b`): `classify` yields `opName "b"`, which no production accepts; the text is not an expression.
   A *prefixed* name or `p:*` in operator position is not an NCName / not `*`; it stays a NameTest
   (and nothing derives it there either).
3. **VariableReference [36] is one ExprToken**, but the scanner delivers `$` and the name
   separately; `classify` fuses `dollar` + `name` (local part not `*`).  Consequences: white space
   between `$` and the name cannot be seen and is tolerated; the name after `$` is never subject to
   rules 1–2 (`$and`, `$f (` …); a `$` followed by anything else is `invalid`.  The token after a
   VariableReference is in operator position.
4. **`AxisName '::'`** arrives fused as one `axis` token; white space between the two is invisible.
   Its `name` carries no prefix, so `p:child::a` cannot be told apart here (it is no expression).
5. **`'/' RelativeLocationPath?` [2]**: the grammar relation simply has both alternatives.  The
   reference parser takes the path whenever the next token can start a Step; by §3.7 this is forced
   (`/ * 2` is `/*` followed by a stray `2`; `/ and b` is `/and` followed by a stray `b`).
6. **Unary minus [27]** binds tighter than every binary operator but looser than `|`:
   `-a|b` is `-(a|b)`; `- - - a | b` is one run of three.  `UnaryRun n` counts the run because the
   project's tree encoding (`negEnc`) depends on its parity, not because the Recommendation does.
7. **Namespace resolution** is not part of the grammar proper (§2.3 makes an unbound prefix "an
   error").  Here: only NameTests are resolved; the first binding of a prefix in the list is used; the
   empty prefix is never looked up (no default namespace, §2.3); `xml` is not implicitly bound;
   prefixes of function names and variables are copied unresolved (`.call`, `.var` have no URI field);
   with `ns = none` nothing is resolved and nothing is rejected.
8. **`processing-instruction`**: `NType` has no processing-instruction kind.  Chosen:
   `typeTest = .all` (`typeOfNodeType`), `prop = "processing-instruction"`, and the Literal of
   `processing-instruction('x')` goes to `lname` (`pfx = ""`).  The convention text does not fix these
   two fields; change `typeOfNodeType` / the `pi` rule if the tree type means something else.
9. **Node-type tests ignore the principal node type**: `@node()` has `typeTest = .all`,
   `@text()` has `.text`.

### B. Choices of presentation (no effect on the language or the trees)

* Non-terminals of the location-path productions carry the tree of what precedes them
  (`Step inp`, `RelativeLocationPath inp`, …): `.none` for a relative path, `.root "/"` after `/`,
  the FilterExpr's tree in `FilterExpr '/' RelativeLocationPath`, `dos t` after `//`.
* Helper non-terminals that are not in the Recommendation: `Predicates inp` (= `Predicate*`),
  `Arguments` (= `Argument (',' Argument)*`), `UnaryRun n`.
* `AxisSpecifier`, `AbbreviatedAxisSpecifier`, `AxisName`, `NodeTest`, `NameTest` yield an axis name /
  an `AxisInfo`, not a tree: they are the separate relations `AxisSpecifierD`,
  `AbbreviatedAxisSpecifierD`, `axisNames`, `NodeTestD`.
* [18], [21]–[26] are the two rules `up` / `bin` over the table `NT.binary`.
* `(E)` is always `.group E`; the Number lexeme and the Literal value are copied as the scanner
  gives them; operators appear in the tree with their source spelling (`"|"`, `"!="`, `"div"` …).
* `refParseFull` is proved sound for `Parses` (§3b); completeness (every derivable tree is the one
  returned, i.e. the grammar is unambiguous and the parser finds the derivation) is not proved — the
  examples of §4 and the hand derivations there are the evidence on that side.
* `Derives ns nt toks a` classifies `toks` as if they stood at the start of the text; it is exact
  for `nt = .Expr` (`Parses`).

### C. Strict readings that a lenient parser may not share

* An AbbreviatedStep takes no predicates [4], [12]: `.[1]` and `..[1]` are not expressions
  (`self::node()[1]` is).
* FunctionName ::= QName - NodeType [35]: `text(1)`, `node(a)`, `comment('x')` are not expressions;
  only `processing-instruction` takes a Literal, and only one.  A prefixed `p:text()` is a function
  call (a prefixed QName is not a NodeType).  In non-operator position `div(1)` is a call of a
  function named `div`, and `and`, `or`, `mod`, `div` are ordinary NameTests.
* An AxisName outside [6] (`foo::a`) is not an expression.
* The empty token list and a token list with unread tokens are not expressions.

### D. Deliberately left out

* **The namespace axis** (`namespace::`): its principal node type is *namespace* (§2.3), for which
  `NType` has no value; `axisNames` omits it, so `namespace::x` is not derivable.  (Adding
  `"namespace"` to `axisNames` would give it `typeTest = .elem`, which is wrong.)
* **Character-level productions** [29] Literal, [30] Number, [31] Digits, [39] ExprWhitespace and
  NCName/QName of XML-Names: below the token type.  A `name` token whose parts are not NCNames, or a
  `name` token `*` with an empty prefix, is outside the intended domain (the latter is `invalid`).
* **Static-context checks** that are not grammar: that a function exists and has that many
  arguments, that a variable is bound, that a prefix of a function or variable name is declared,
  type checks (§3.3: a FilterExpr's operand "must evaluate to a node-set" — so `1[2]`, `'x'/a` are
  grammatical here).
* Variable references are *included* (`.var pfx name`).
-/

end XPathV.Spec.Full
