import XPathV.Num
import XPathV.Spec.Axes
/-!
# XPath 1.0 values, conversions (§4.2–4.4) and comparisons (§3.4)
-/
namespace XPathV.Spec
open XPathV NumAlg

variable {F : Type} [NumAlg F]

inductive Value (F : Type)
  | nodes (l : List Ref)
  | bool (b : Bool)
  | num (x : F)
  | str (s : String)
  deriving Inhabited

/-! ## Decimal numerals -/

def isDigitC (c : Char) : Bool := '0' ≤ c && c ≤ '9'
def digitVal (c : Char) : Nat := c.toNat - 48

def natOfDigits (cs : List Char) : Nat := cs.foldl (fun n c => n * 10 + digitVal c) 0

/-- `Digits ('.' Digits?)? | '.' Digits` → mantissa and decimal exponent -/
def parseUnsignedDecimal (cs : List Char) : Option (Nat × Int) :=
  let ip := cs.takeWhile isDigitC
  let rest := cs.dropWhile isDigitC
  match rest with
  | [] => if ip.isEmpty then none else some (natOfDigits ip, 0)
  | '.' :: fr =>
    if fr.all isDigitC && !(ip.isEmpty && fr.isEmpty) then
      some (natOfDigits (ip ++ fr), - (fr.length : Int))
    else none
  | _ => none

/-- XML whitespace (S production): space, tab, CR, LF -/
def isXmlSpace (c : Char) : Bool := c == ' ' || c == '\t' || c == '\n' || c == '\r'

def trimXml (cs : List Char) : List Char :=
  ((cs.dropWhile isXmlSpace).reverse.dropWhile isXmlSpace).reverse

/-- §4.4 `number()` on a string: optional whitespace, optional minus, a Number, optional
whitespace; anything else is NaN -/
def strToNum (s : String) : F :=
  let cs := trimXml s.toList
  match cs with
  | '-' :: r => match parseUnsignedDecimal r with
    | some (m, e) => ofDecimal true m e
    | none => nan
  | _ => match parseUnsignedDecimal cs with
    | some (m, e) => ofDecimal false m e
    | none => nan

def digitChar (n : Nat) : Char := Char.ofNat (48 + n)

/-- §4.2 `string()` on a number: NaN, 0 for both zeros, ±Infinity, integers without a decimal
point, otherwise plain decimal notation with at least one digit before the point and as many
digits after it as needed to distinguish the number (the shortest digits) -/
def numToStr (x : F) : String :=
  match classify x with
  | .nan => "NaN"
  | .posInf => "Infinity"
  | .negInf => "-Infinity"
  | .zero _ => "0"
  | .finite dg =>
    let sign := if dg.neg then "-" else ""
    let n := dg.ds.length
    let ds := dg.ds.map digitChar
    if dg.dp ≤ 0 then
      sign ++ "0." ++ String.ofList (List.replicate (-dg.dp).toNat '0' ++ ds)
    else if dg.dp.toNat ≥ n then
      sign ++ String.ofList (ds ++ List.replicate (dg.dp.toNat - n) '0')
    else
      sign ++ String.ofList (ds.take dg.dp.toNat) ++ "." ++ String.ofList (ds.drop dg.dp.toNat)

/-! ## Conversions -/

def toBool : Value F → Bool
  | .nodes l => !l.isEmpty
  | .bool b => b
  | .num x => !(isNaN x) && !(NumAlg.eq x (ofNat 0))
  | .str s => s != ""

def toStr (d : Doc) : Value F → String
  | .nodes l => match l with
    | [] => ""
    | r :: _ => stringValue d r
  | .bool b => if b then "true" else "false"
  | .num x => numToStr x
  | .str s => s

def toNum (d : Doc) : Value F → F
  | .nodes l => strToNum (toStr (F := F) d (.nodes l))
  | .bool b => if b then ofNat 1 else ofNat 0
  | .num x => x
  | .str s => strToNum s

/-! ## Comparisons §3.4 -/

inductive CmpOp | eq | ne | lt | le | gt | ge
  deriving DecidableEq, Repr

def CmpOp.ofString : String → Option CmpOp
  | "=" => some .eq | "!=" => some .ne | "<" => some .lt | "<=" => some .le
  | ">" => some .gt | ">=" => some .ge | _ => none

def cmpNum (op : CmpOp) (a b : F) : Bool :=
  match op with
  | .eq => NumAlg.eq a b | .ne => NumAlg.ne a b | .lt => NumAlg.lt a b | .le => NumAlg.le a b
  | .gt => NumAlg.gt a b | .ge => NumAlg.ge a b

def CmpOp.isRel : CmpOp → Bool
  | .eq | .ne => false
  | _ => true

/-- comparison of two non-node-set values -/
def cmpAtom (d : Doc) (op : CmpOp) (a b : Value F) : Bool :=
  if op.isRel then cmpNum op (toNum d a) (toNum d b)
  else
    let r := match a, b with
      | .bool _, _ | _, .bool _ => toBool a == toBool b
      | .num _, _ | _, .num _ => NumAlg.eq (toNum d a) (toNum d b)
      | _, _ => toStr d a == toStr d b
    if op == .eq then r else
      match a, b with
      | .bool _, _ | _, .bool _ => !r
      | .num _, _ | _, .num _ => NumAlg.ne (toNum d a) (toNum d b)
      | _, _ => !r

/-- §3.4: existential semantics on node-sets -/
def compare (d : Doc) (op : CmpOp) (a b : Value F) : Bool :=
  match a, b with
  | .nodes la, .nodes lb =>
    la.any (fun x => lb.any (fun y =>
      if op.isRel then cmpNum op (strToNum (F := F) (stringValue d x)) (strToNum (stringValue d y))
      else if op == .eq then stringValue d x == stringValue d y
      else stringValue d x != stringValue d y))
  | .nodes _, .bool _ => cmpAtom d op (.bool (toBool a)) b
  | .bool _, .nodes _ => cmpAtom d op a (.bool (toBool b))
  | .nodes la, .num y => la.any (fun x => cmpNum op (strToNum (F := F) (stringValue d x)) y)
  | .num x, .nodes lb => lb.any (fun y => cmpNum op x (strToNum (F := F) (stringValue d y)))
  | .nodes la, .str s => la.any (fun x => cmpAtom (F := F) d op (.str (stringValue d x)) (.str s))
  | .str s, .nodes lb => lb.any (fun y => cmpAtom (F := F) d op (.str s) (.str (stringValue d y)))
  | _, _ => cmpAtom d op a b

end XPathV.Spec
