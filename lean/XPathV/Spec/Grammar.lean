import XPathV.Ast
/-!
# XPath 1.0 expression grammar, operator tiers (Recommendation §3, productions [21]–[27], [18])

```
[21] OrExpr             ::= AndExpr | OrExpr 'or' AndExpr
[22] AndExpr            ::= EqualityExpr | AndExpr 'and' EqualityExpr
[23] EqualityExpr       ::= RelationalExpr | EqualityExpr '=' RelationalExpr | EqualityExpr '!=' RelationalExpr
[24] RelationalExpr     ::= AdditiveExpr | RelationalExpr ('<' | '>' | '<=' | '>=') AdditiveExpr
[25] AdditiveExpr       ::= MultiplicativeExpr | AdditiveExpr ('+' | '-') MultiplicativeExpr
[26] MultiplicativeExpr ::= UnaryExpr | MultiplicativeExpr ('*' | 'div' | 'mod') UnaryExpr
[27] UnaryExpr          ::= UnionExpr | '-' UnaryExpr
[18] UnionExpr          ::= PathExpr | UnionExpr '|' PathExpr
```
The binary productions are left-recursive: every binary operator is left-associative.
`tiers` lists the operator sets from loosest to tightest; `unaryAt` says where '-' sits.
-/
namespace XPathV.Spec.Grammar
open XPathV

/-- operator tiers above the unary minus, loosest first -/
def upperTiers : List (List String) :=
  [["or"], ["and"], ["=", "!="], ["<", ">", "<=", ">="], ["+", "-"], ["*", "div", "mod"]]

/-- operator tiers below the unary minus -/
def lowerTiers : List (List String) := [["|"]]

/-- expression trees of the operator grammar over atoms -/
inductive E
  | atom (a : Ast)
  | bin (op : String) (l r : E)
  | neg (x : E)
  deriving Repr, Inhabited

/-- tokens of a chain: atoms and operator spellings -/
inductive T
  | atom (a : Ast)
  | op (s : String)
  deriving Repr, Inhabited

/-- `Derives k ts e`: the token list `ts` derives `e` at tier `k` (0 = OrExpr … 5 = MultiplicativeExpr,
6 = UnaryExpr, 7 = UnionExpr, 8 = PathExpr/atom), transcribing the productions above -/
inductive Derives : Nat → List T → E → Prop
  | atom (a : Ast) : Derives 8 [.atom a] (.atom a)
  /-- X ::= Y  (fall through to the next tier) -/
  | up {k ts e} : k < 8 → k ≠ 6 → Derives (k+1) ts e → Derives k ts e
  /-- X ::= X op Y -/
  | binU {k ts₁ ts₂ e₁ e₂ op ops} : upperTiers[k]? = some ops → op ∈ ops →
      Derives k ts₁ e₁ → Derives (k+1) ts₂ e₂ → Derives k (ts₁ ++ [.op op] ++ ts₂) (.bin op e₁ e₂)
  | binL {ts₁ ts₂ e₁ e₂} :
      Derives 7 ts₁ e₁ → Derives 8 ts₂ e₂ → Derives 7 (ts₁ ++ [.op "|"] ++ ts₂) (.bin "|" e₁ e₂)
  /-- UnaryExpr ::= UnionExpr | '-' UnaryExpr -/
  | unaryUp {ts e} : Derives 7 ts e → Derives 6 ts e
  | neg {ts e} : Derives 6 ts e → Derives 6 (.op "-" :: ts) (.neg e)

/-- the Go parse tree encodes unary minus as `x * -1`; a run of `n` minus signs is `x * -1` for odd
`n` and `(x * -1) * -1` for even `n > 0`: numerically the pairs cancel (IEEE negation is an
involution, NaN and ±0 included) but the operand is still converted to a number (§3.5: `- - e` is a
number whatever the type of `e`) -/
def E.toAst : E → Ast
  | .atom a => a
  | .bin op l r => .oper op l.toAst r.toAst
  | .neg x => negAst x 1
where
  negAst : E → Nat → Ast
    | .neg y, n => negAst y (n + 1)
    | y, n => if n % 2 == 1 then .oper "*" y.toAst (.num "-1")
              else .oper "*" (.oper "*" y.toAst (.num "-1")) (.num "-1")

/-! ## Executable reference parser for chains (fuel = token count) -/

def isOpIn (ops : List String) : T → Option String
  | .op s => if ops.contains s then some s else none
  | _ => none

mutual
/-- parse at the tiers `ts` (loosest first), then unary, then the lower tiers, then an atom -/
def refTier : Nat → List (List String) → Bool → List T → Option (E × List T)
  | 0, _, _, _ => none
  | f+1, [], false, toks =>
    -- unary
    match toks with
    | .op "-" :: rest => match refTier f [] false rest with
      | some (e, r) => some (.neg e, r)
      | none => none
    | _ => refTier f lowerTiers true toks
  | _+1, [], true, toks =>
    match toks with
    | .atom a :: rest => some (.atom a, rest)
    | _ => none
  | f+1, ops :: more, low, toks =>
    match refTier f more low toks with
    | some (e, rest) => refLoop f ops more low e rest
    | none => none

def refLoop : Nat → List String → List (List String) → Bool → E → List T → Option (E × List T)
  | 0, _, _, _, _, _ => none
  | f+1, ops, more, low, acc, toks =>
    match toks with
    | t :: rest =>
      match isOpIn ops t with
      | some op => match refTier f more low rest with
        | some (e, r) => refLoop f ops more low (.bin op acc e) r
        | none => none
      | none => some (acc, toks)
    | [] => some (acc, [])
end

def isNameCharSimple (c : Char) : Bool := c.isAlphanum || c == '_'

/-- tokenizer for the chain cases the harness generates: names, operators separated by spaces,
an optional '-' glued to the following atom -/
def chainTokens (text : List Char) : Option (List T) :=
  let words := (String.ofList text).splitOn " " |>.filter (· != "")
  let conv (w : String) : Option (List T) :=
    let ops := ["or", "and", "=", "!=", "<", ">", "<=", ">=", "+", "-", "*", "div", "mod", "|"]
    if ops.contains w then some [.op w]
    else
      let (minus, nm) := if w.startsWith "-" then (true, (w.drop 1).toString) else (false, w)
      if nm != "" && nm.toList.all isNameCharSimple then
        let a := Ast.axis ⟨"child", .elem, "", nm, "", false, ""⟩ .none
        some ((if minus then [.op "-"] else []) ++ [.atom a])
      else none
  words.foldl (fun acc w => match acc, conv w with
    | some l, some t => some (l ++ t)
    | _, _ => none) (some [])

/-- a word operator directly after an operator (or at the start) is a name in XPath; the chain
generator never produces that, and atoms are never operator words -/
def refParse (text : List Char) : Option Ast :=
  match chainTokens text with
  | none => none
  | some toks =>
    match refTier (20 * (toks.length + 2)) upperTiers false toks with
    | some (e, []) => some e.toAst
    | _ => none

end XPathV.Spec.Grammar
