import XPathV.Model.Scanner
import XPathV.Spec.FullGrammar
/-!
# Bridge between the scanner model and the full reference grammar

`tokVs` turns the scanner's token stream of a text into the token type `TokV` of
`Spec/FullGrammar.lean`; `normConv` erases the four representation conventions on which the tree of
the package's parser and the tree of the reference grammar may differ without any difference in
meaning.  (Both were part of `Driver.lean`; they live here so that the proofs can import them.  The
driver imports them from here.)
-/
namespace XPathV.Bridge
open XPathV XPathV.Model

/-- the `TokV` of the scanner's current item (`none` for `!` alone and for end of input) -/
def convTok (s : Scan) : Option Spec.Full.TokV :=
  match s.typ with
  | .name => some (.name s.pfx s.name s.canBeFunc)
  | .axe => some (.axis s.name)
  | .string => some (.str s.strval)
  | .number => some (.num s.numlex)
  | .slash => some .slash | .slashslash => some .slashslash | .at => some .at | .dot => some .dot
  | .dotdot => some .dotdot | .lparen => some .lparen | .rparen => some .rparen
  | .lbracket => some .lbracket | .rbracket => some .rbracket | .comma => some .comma
  | .star => some .star | .union => some .union | .plus => some .plus | .minus => some .minus
  | .eq => some .eq | .ne => some .ne | .lt => some .lt | .le => some .le | .gt => some .gt | .ge => some .ge
  | .dollar => some .dollar
  | .bang => none
  | .eof => none

/-- the tokens from the scanner state `s` up to end of input (`none` on a scanner error, on a lone
`!`, or when the fuel runs out) -/
def tokVsGo : Nat → Scan → List Spec.Full.TokV → Option (List Spec.Full.TokV)
  | 0, _, _ => none
  | f+1, s, acc =>
    if s.typ == .eof then some acc.reverse
    else match convTok s, s.nextItem with
      | some t, .ok s' => tokVsGo f s' (t :: acc)
      | _, _ => none

/-- the scanner's token stream as the full reference grammar's tokens (`none` on a scanner error) -/
def tokVs (text : List Char) : Option (List Spec.Full.TokV) :=
  match Scan.init text with
  | .ok s => tokVsGo (text.length + 2) s []
  | .error _ => none

/-- representation details on which the package's tree and the reference grammar's tree may differ without
any difference in meaning: the slash string kept in the root node (`/` or `//`), parentheses around a literal, and the `prop` field of a
`node()` test (the package sets it for an explicit `node()` and leaves it empty in the abbreviations `.`,
`..`, `//`) -/
def normConv : Ast → Ast
  | .root _ => .root "/"
  | .axis a i =>
    -- (a processing-instruction test: the package keeps the principal node type of the axis — and therefore selects
    -- *elements* of that name, an observation recorded in DESIGN §11.5 — the grammar has no node type for it)
    let a := if a.prop == "processing-instruction" then { a with typeTest := .all } else a
    .axis { a with prop := if a.typeTest == .all && a.prop != "processing-instruction" then "" else a.prop } (normConv i)
  | .filter i c => .filter (normConv i) (normConv c)
  | .call n p args => .call n p (normConv args)
  | .acons h t => .acons (normConv h) (normConv t)
  | .oper o l r => .oper o (normConv l) (normConv r)
  | .group (.num l) => .num l          -- the package drops the parentheses around a literal
  | .group (.str t) => .str t
  | .group x =>
    match normConv x with
    | .num l => .num l
    | .str t => .str t
    | y => .group y
  | a => a

end XPathV.Bridge
