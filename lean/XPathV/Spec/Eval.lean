import XPathV.Spec.Values
/-!
# XPath 1.0 evaluation (the oracle)

`eval d e ctx` is the value of expression `e` (a parse tree as produced by the parser, see
`Ast`) in document `d` with context (node, position, size).  Path steps are left-nested:
`axis a input` is "`input` / step a", `filter x c` is "`x` [c]".

Errors: `typeErr` marks expressions XPath 1.0 rejects statically (a non-node-set used as a path
input or as a node-set argument, unknown function, wrong arity).  The checks make no claim on
them.
-/
namespace XPathV.Spec
open XPathV NumAlg

variable {F : Type} [NumAlg F]

inductive Err | typeErr (what : String) | unsupported (what : String)
  deriving Repr, Inhabited

structure Ctx where
  node : Ref
  pos : Nat
  size : Nat
  deriving Repr, Inhabited

/-! ## String functions §4.2 (on code points) -/

def isPrefixC : List Char → List Char → Bool
  | [], _ => true
  | _ :: _, [] => false
  | a :: as, b :: bs => a == b && isPrefixC as bs

/-- index of the first occurrence of `needle` in `hay` -/
def indexOfC (needle : List Char) : List Char → Nat → Option Nat
  | [], i => if needle.isEmpty then some i else none
  | h :: t, i => if isPrefixC needle (h :: t) then some i else indexOfC needle t (i+1)

def fnContains (a b : String) : Bool := (indexOfC b.toList a.toList 0).isSome
def fnStartsWith (a b : String) : Bool := isPrefixC b.toList a.toList
def fnEndsWith (a b : String) : Bool := isPrefixC b.toList.reverse a.toList.reverse

def fnSubstringBefore (a b : String) : String :=
  match indexOfC b.toList a.toList 0 with
  | some i => String.ofList (a.toList.take i)
  | none => ""

def fnSubstringAfter (a b : String) : String :=
  match indexOfC b.toList a.toList 0 with
  | some i => String.ofList (a.toList.drop (i + b.length))
  | none => ""

/-- the integer closest to `x`, the one closer to +∞ when there are two (§4.4).  *Not*
`floor(x + 0.5)`: that sum is itself rounded (0.49999999999999994 + 0.5 = 1; odd integers above
2^52 come out one too high).  `x - floor(x)` is exact.  NaN and ±∞ are returned unchanged
(`∞ - ∞` is NaN, which is not ≥ 0.5).  The sign of a zero result is that of `floor`/`+`: see `xround`. -/
def roundHalfUp (x : F) : F :=
  let r := floor x
  if le (div (ofNat 1) (ofNat 2)) (sub x r) then add r (ofNat 1) else r

/-- §4.4 `round`: `roundHalfUp`, and "if the argument is less than zero, but greater than or equal
to -0.5, then negative zero is returned" -/
def xround (x : F) : F :=
  let res := roundHalfUp x
  if lt x (ofNat 0) && eq res (ofNat 0) then mul (ofNat 0) (ofInt (-1)) else res

/-! §4.2 substring: the characters at positions `p` (1-based) with
`round(start) ≤ p < round(start) + round(length)`.  Positions are ≥ 1, so the sign of a zero bound
is immaterial; the bounds are stated with `roundHalfUp`. -/

def fnSubstring3 (s : String) (start len : F) : String :=
  let rs := roundHalfUp start
  let hi := add rs (roundHalfUp len)
  String.ofList ((s.toList.zipIdx).filterMap (fun (c, i) =>
    let p : F := ofNat (i + 1)
    if le rs p && lt p hi then some c else none))

def fnSubstring2 (s : String) (start : F) : String :=
  let rs := roundHalfUp start
  String.ofList ((s.toList.zipIdx).filterMap (fun (c, i) =>
    let p : F := ofNat (i + 1)
    if le rs p then some c else none))

def normSpaceAux : List Char → Bool → List Char
  | [], _ => []
  | c :: cs, pendingSpace =>
    if isXmlSpace c then normSpaceAux cs true
    else (if pendingSpace then [' ', c] else [c]) ++ normSpaceAux cs false

/-- strip leading/trailing whitespace, collapse internal runs to one space -/
def fnNormalizeSpace (s : String) : String :=
  String.ofList (normSpaceAux (trimXml s.toList) false)

def translateChar (src dst : List Char) (c : Char) : Option Char :=
  match src.idxOf? c with
  | none => some c
  | some i => dst[i]?

def fnTranslate (s src dst : String) : String :=
  String.ofList (s.toList.filterMap (translateChar src.toList dst.toList))

def lowerC (c : Char) : Char := if 'A' ≤ c && c ≤ 'Z' then Char.ofNat (c.toNat + 32) else c
def fnLowerCase (s : String) : String := String.ofList (s.toList.map lowerC)

def fnStringJoin (parts : List String) (sep : String) : String := sep.intercalate parts

/-! ## Evaluation -/

/-- result of the single recursive evaluator: a value (with, for step chains, the per-origin
candidate lists in proximity order) or an argument list -/
inductive Res (F : Type)
  | val (v : Value F) (groups : Option (List (List Ref)))
  | args (vs : List (Value F))

def Res.value : Res F → Value F
  | .val v _ => v
  | .args _ => .nodes []

def Res.argList : Res F → List (Value F)
  | .args vs => vs
  | .val _ _ => []

def asNodes (what : String) : Value F → Except Err (List Ref)
  | .nodes l => .ok l
  | _ => .error (.typeErr what)

/-- §2.4 predicate truth: a number is compared with the context position, anything else is
converted with `boolean()` -/
def predTruth (v : Value F) (pos : Nat) : Bool :=
  match v with
  | .num x => NumAlg.eq x (ofNat pos)
  | v => toBool v

/-- keep the nodes of `l` (already in proximity order) whose predicate value is true -/
def filterPos (l : List Ref) (cond : Ctx → Except Err (Res F)) : Except Err (List Ref) := do
  let n := l.length
  let flags ← l.zipIdx.mapM (fun (r, i) => do
    let v ← cond ⟨r, i + 1, n⟩
    pure (predTruth v.value (i + 1)))
  pure ((l.zip flags).filterMap (fun (r, b) => if b then some r else none))

def sumNodes (d : Doc) (l : List Ref) : F :=
  l.foldl (fun acc r => add acc (strToNum (stringValue d r))) (ofNat 0)

def callFn (d : Doc) (c : Ctx) (name : String) (args : List (Value F)) : Except Err (Value F) :=
  let s (v : Value F) := toStr d v
  match name, args with
  | "last", [] => .ok (.num (ofNat c.size))
  | "position", [] => .ok (.num (ofNat c.pos))
  | "count", [.nodes l] => .ok (.num (ofNat l.length))
  | "count", [_] => .error (.typeErr "count")
  | "sum", [.nodes l] =>
    -- the property states sum() over numeric nodes only; elsewhere the oracle is silent
    if l.any (fun r => isNaN (strToNum (F := F) (stringValue d r))) then .error (.unsupported "sum over non-numeric nodes")
    else .ok (.num (sumNodes d l))
  | "sum", [_] => .error (.typeErr "sum")
  | "local-name", [] => .ok (.str (localName d c.node))
  | "local-name", [.nodes l] => .ok (.str (match l with | [] => "" | r :: _ => localName d r))
  | "local-name", [_] => .error (.typeErr "local-name")
  | "namespace-uri", [] => .ok (.str (nsURL d c.node))
  | "namespace-uri", [.nodes l] => .ok (.str (match l with | [] => "" | r :: _ => nsURL d r))
  | "namespace-uri", [_] => .error (.typeErr "namespace-uri")
  | "name", [] => .ok (.str (qname c.node))
  | "name", [.nodes l] => .ok (.str (match l with | [] => "" | r :: _ => qname r))
  | "name", [_] => .error (.typeErr "name")
  | "string", [] => .ok (.str (stringValue d c.node))
  | "string", [v] => .ok (.str (s v))
  | "concat", a :: b :: rest => .ok (.str ((a :: b :: rest).foldl (fun acc v => acc ++ s v) ""))
  | "starts-with", [a, b] => .ok (.bool (fnStartsWith (s a) (s b)))
  | "ends-with", [a, b] => .ok (.bool (fnEndsWith (s a) (s b)))
  | "contains", [a, b] => .ok (.bool (fnContains (s a) (s b)))
  | "substring-before", [a, b] => .ok (.str (fnSubstringBefore (s a) (s b)))
  | "substring-after", [a, b] => .ok (.str (fnSubstringAfter (s a) (s b)))
  | "substring", [a, b] => .ok (.str (fnSubstring2 (s a) (toNum d b)))
  | "substring", [a, b, l] => .ok (.str (fnSubstring3 (s a) (toNum d b) (toNum d l)))
  | "string-length", [] => .ok (.num (ofNat (stringValue d c.node).length))
  | "string-length", [a] => .ok (.num (ofNat (s a).length))
  | "normalize-space", [] => .ok (.str (fnNormalizeSpace (stringValue d c.node)))
  | "normalize-space", [a] => .ok (.str (fnNormalizeSpace (s a)))
  | "translate", [a, b, c'] => .ok (.str (fnTranslate (s a) (s b) (s c')))
  | "lower-case", [a] => .ok (.str (fnLowerCase (s a)))
  | "string-join", [.nodes l, sep] => .ok (.str (fnStringJoin (l.map (stringValue d)) (s sep)))
  | "boolean", [a] => .ok (.bool (toBool a))
  | "not", [a] => .ok (.bool (!toBool a))
  | "true", [] => .ok (.bool true)
  | "false", [] => .ok (.bool false)
  | "number", [] => .ok (.num (strToNum (stringValue d c.node)))
  | "number", [a] => .ok (.num (toNum d a))
  | "floor", [a] => .ok (.num (floor (toNum d a)))
  | "ceiling", [a] => .ok (.num (ceil (toNum d a)))
  | "round", [a] => .ok (.num (xround (toNum d a)))
  | "reverse", [.nodes l] => .ok (.nodes l)
  | n, _ => .error (.unsupported n)
where
  qname (r : Ref) : String :=
    if prefixOf d r == "" then localName d r else prefixOf d r ++ ":" ++ localName d r

def arith (d : Doc) (op : String) (a b : Value F) : Option F :=
  let x := toNum d a
  let y := toNum d b
  match op with
  | "+" => some (add x y)
  | "-" => some (sub x y)
  | "*" => some (mul x y)
  | "div" => some (div x y)
  | _ => none

/-- XPath `mod`: remainder of truncating division, sign of the dividend.  The oracle states it
only where the property does (non-negative integral operands, non-zero divisor). -/
def modSpec (x y : F) : Option F :=
  match toInt x, toInt y with
  | some a, some b =>
    if 0 ≤ a ∧ 0 < b ∧ NumAlg.eq (ofInt a) x ∧ NumAlg.eq (ofInt b) y then some (fmod x y) else none
  | _, _ => none

def eval (d : Doc) : Ast → Ctx → Except Err (Res F)
  | .none, c => .ok (.val (.nodes [c.node]) none)
  | .root _, _ => .ok (.val (.nodes [.node 0]) none)
  | .axis a inp, c => do
    let iv ← eval d inp c
    let origins ← asNodes "path input" iv.value
    match axisProx d a.axis (.node 0) with
    | none => .error (.unsupported ("axis " ++ a.axis))
    | some _ =>
      let groups := origins.map (fun o => ((axisProx d a.axis o).getD []).filter (nodeTest d a))
      .ok (.val (.nodes (docOrder d groups.flatten)) (some groups))
  | .filter inp cond, c => do
    let iv ← eval d inp c
    match iv with
    | .val _ (some groups) =>
      -- predicate on a step: positions are per origin, in the direction of the axis
      let groups' ← groups.mapM (fun g => filterPos g (eval d cond))
      .ok (.val (.nodes (docOrder d groups'.flatten)) (some groups'))
    | .val v none =>
      -- predicate of a filter expression: positions in document order
      let l ← asNodes "filter input" v
      let l' ← filterPos l (eval d cond)
      .ok (.val (.nodes l') none)
    | .args _ => .error (.typeErr "filter")
  | .call name _ args, c => do
    let av ← eval d args c
    let v ← callFn d c name av.argList
    .ok (.val v none)
  | .anil, _ => .ok (.args [])
  | .acons h t, c => do
    let hv ← eval d h c
    let tv ← eval d t c
    .ok (.args (hv.value :: tv.argList))
  | .oper op l r, c => do
    let lv ← eval d l c
    match op with
    | "or" =>
      if toBool lv.value then .ok (.val (.bool true) none) else do
        let rv ← eval d r c
        .ok (.val (.bool (toBool rv.value)) none)
    | "and" =>
      if !toBool lv.value then .ok (.val (.bool false) none) else do
        let rv ← eval d r c
        .ok (.val (.bool (toBool rv.value)) none)
    | _ => do
      let rv ← eval d r c
      match CmpOp.ofString op with
      | some cop => .ok (.val (.bool (compare d cop lv.value rv.value)) none)
      | none =>
        if op == "|" then do
          let a ← asNodes "union" lv.value
          let b ← asNodes "union" rv.value
          .ok (.val (.nodes (docOrder d (a ++ b))) none)
        else if op == "mod" then
          match modSpec (toNum d lv.value) (toNum d rv.value) with
          | some x => .ok (.val (.num x) none)
          | none => .error (.unsupported "mod outside the stated domain")
        else match arith d op lv.value rv.value with
          | some x => .ok (.val (.num x) none)
          | none => .error (.unsupported ("operator " ++ op))
  | .str s, _ => .ok (.val (.str s) none)
  | .num l, _ => .ok (.val (.num (strToNum l)) none)
  | .group x, c => do
    let v ← eval d x c
    .ok (.val v.value none)
  | .var _ _, _ => .error (.unsupported "variable")

/-- top-level: evaluate with context node `r`, position 1, size 1 -/
def evalTop (d : Doc) (e : Ast) (r : Ref) : Except Err (Value F) := do
  let v ← eval d e ⟨r, 1, 1⟩
  pure v.value

end XPathV.Spec
