import XPathV.Model.Template
/-!
# What a replacement string of `replace()` denotes (C16: "ReplaceAllString with `$n` read as group `n`")

Written from the statement of the property and the documentation of `Regexp.Expand`, not from `replaceFunc`:
the replacement is Go's template — `$$` a literal dollar, `$name`/`${name}` a reference, a malformed `$` raw text —
with one change: an unbraced `$` followed by a decimal numeral (no leading zero) refers to the group whose number
is the **longest prefix of the digit string that names an existing group**; the digits after that prefix are
literal text.  (`$1x` is group 1 followed by `x`, where Go alone would look for a group named `1x`; `$10` with a
single group is group 1 followed by `0`.)  If no prefix names a group the reference is read as Go reads it.
-/
namespace XPathV.Spec.Template
open XPathV.Model.Template

/-- value of a digit string -/
def numVal (ds : List Char) : Nat := ds.foldl (fun n c => n * 10 + digitVal c) 0

/-- the longest non-empty prefix of `ds` (a digit string not starting with 0) whose value is at most `groups` -/
def longestRef (groups : Nat) (ds : List Char) : Option (List Char) :=
  match ds with
  | [] => none
  | '0' :: _ => none
  | _ => ((List.range (ds.length + 1)).reverse.map ds.take).find? (fun p => !p.isEmpty && numVal p ≤ groups)

def expandSpec (g : Groups) (groups : Nat) : Nat → List Char → List Char
  | 0, t => t
  | _ + 1, [] => []
  | fuel + 1, c :: t =>
    if c != '$' then c :: expandSpec g groups fuel t
    else match t with
      | '$' :: t' => '$' :: expandSpec g groups fuel t'
      | _ =>
        match longestRef groups (t.takeWhile isDigitCh) with
        | some p => ((g.texts.getD (numVal p) none).getD []) ++ expandSpec g groups fuel (t.drop p.length)
        | none =>
          match extract t with
          | none => '$' :: expandSpec g groups fuel t
          | some (name, num, rest) => groupText g name num ++ expandSpec g groups fuel rest

def replaceOneSpec (g : Groups) (groups : Nat) (r : List Char) : List Char :=
  expandSpec g groups (r.length + 1) r

end XPathV.Spec.Template
