import XPathV.Ast
/-!
# XPath 1.0 axes and node tests (the oracle)

Axes are written from the two primitives of the Recommendation §2.2/§5: the *parent* of a node
and *document order*.  They are deliberately naive (quadratic scans over all nodes); the
arithmetic characterisations used in proofs are lemmas, not definitions.
-/
namespace XPathV.Spec
open XPathV

/-- §5: every node other than the root has exactly one parent; the parent of an attribute is the
element that bears it -/
def parent? (d : Doc) (r : Ref) : Option Ref := Nav.moveParent d r

/-- the chain parent, grand-parent, … (nearest first); `fuel` bounds the height -/
def ancestorsFuel (d : Doc) : Nat → Ref → List Ref
  | 0, _ => []
  | f+1, r => match parent? d r with
    | some p => p :: ancestorsFuel d f p
    | none => []

/-- ancestor axis in reverse document order (nearest first) -/
def ancestors (d : Doc) (r : Ref) : List Ref := ancestorsFuel d (d.length + 1) r

def isAncestor (d : Doc) (a r : Ref) : Bool := (ancestors d r).contains a

/-- §2.2 child: the children of the context node (attributes are not children) -/
def children (d : Doc) (r : Ref) : List Ref := (allNodes d).filter (fun x => parent? d x == some r)

/-- §2.2 descendant: children, children of children, …; never attributes -/
def descendants (d : Doc) (r : Ref) : List Ref := (allNodes d).filter (fun x => isAncestor d r x)

/-- §2.2 following: all nodes after the context node in document order, excluding descendants,
attribute nodes and namespace nodes -/
def following (d : Doc) (r : Ref) : List Ref :=
  (allNodes d).filter (fun x => Ref.lt r x && !isAncestor d r x)

/-- §2.2 preceding: all nodes before the context node in document order, excluding ancestors,
attribute nodes and namespace nodes -/
def preceding (d : Doc) (r : Ref) : List Ref :=
  (allNodes d).filter (fun x => Ref.lt x r && !isAncestor d x r)

/-- §2.2 following-sibling: empty for attribute nodes -/
def followingSiblings (d : Doc) (r : Ref) : List Ref :=
  if r.isAttr then [] else
  (allNodes d).filter (fun x => Ref.lt r x && parent? d x == parent? d r && (parent? d r).isSome)

def precedingSiblings (d : Doc) (r : Ref) : List Ref :=
  if r.isAttr then [] else
  (allNodes d).filter (fun x => Ref.lt x r && parent? d x == parent? d r && (parent? d r).isSome)

def attributes (d : Doc) : Ref → List Ref
  | .node i => if kindAt d i == .elem then attrsOf d i else []
  | .attr _ _ => []

/-- the nodes of an axis from `r`, **in document order** -/
def axisNodes (d : Doc) (axis : String) (r : Ref) : Option (List Ref) :=
  match axis with
  | "child" => some (children d r)
  | "descendant" => some (descendants d r)
  | "descendant-or-self" => some ((if r.isAttr then [r] else []) ++ (allNodes d).filter (fun x => x == r || isAncestor d r x))
  | "parent" => some (parent? d r).toList
  | "ancestor" => some (ancestors d r).reverse
  | "ancestor-or-self" => some ((ancestors d r).reverse ++ [r])
  | "following" => some (following d r)
  | "preceding" => some (preceding d r)
  | "following-sibling" => some (followingSiblings d r)
  | "preceding-sibling" => some (precedingSiblings d r)
  | "attribute" => some (attributes d r)
  | "self" => some [r]
  | _ => none

/-- §2.4: ancestor, ancestor-or-self, preceding and preceding-sibling are reverse axes -/
def isReverseAxis (axis : String) : Bool :=
  axis == "ancestor" || axis == "ancestor-or-self" || axis == "preceding" || axis == "preceding-sibling"

/-- the nodes of an axis in *proximity* order (§2.4) -/
def axisProx (d : Doc) (axis : String) (r : Ref) : Option (List Ref) :=
  (axisNodes d axis r).map (fun l => if isReverseAxis axis then l.reverse else l)

/-- §2.3 node tests.  The principal node type is attribute for the attribute axis and element
otherwise (it is recorded by the parser in `typeTest`); `node()` is `NType.all`.
A name test compares expanded names: with a namespace binding for the prefix the URI is compared,
otherwise (no namespace map) the prefix itself.  `NCName:*` (recorded by the parser as an empty
local name under a non-empty prefix) "is true for any node of the principal type whose
expanded-name has the namespace URI that the prefix expands to, regardless of the local part". -/
def nodeTest (d : Doc) (a : AxisInfo) (r : Ref) : Bool :=
  (a.typeTest == .all || a.typeTest == nodeType d r) &&
  (if a.lname != "" || a.pfx != "" then
     (a.lname == "" || a.lname == localName d r) &&
       (if a.hasNS then a.nsURI == nsURL d r else a.pfx == prefixOf d r)
   else true)

/-- sort into document order and remove duplicates: keep those of `allRefs` that occur in `l` -/
def docOrder (d : Doc) (l : List Ref) : List Ref := (allRefs d).filter (fun x => l.contains x)

end XPathV.Spec
