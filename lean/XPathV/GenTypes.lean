/-!
# Record types used by the regenerated fact files (`XPathV/Generated/*.lean`)

Hand-written; the extractor (`/verif/extract`) only emits *values* of these types.
-/
namespace XPathV.Gen

/-- F6: one precedence tier of the recursive-descent parser -/
structure Tier where
  fn : String            -- e.g. "parseOrExpr"
  operand : String       -- callee that parses the operands, e.g. "parseAndExpr"
  ops : List String      -- operator spellings looped on, e.g. ["or"]
  leftAssoc : Bool       -- loop body is `opnd = newOperatorNode(op, opnd, p.<operand>(n))`
  sameOperand : Bool     -- first operand and loop operand use the same callee
  deriving DecidableEq, Repr

/-- F7: per query struct, what `Clone` copies and what `Evaluate` resets -/
structure StructFact where
  name : String
  fields : List String
  cloneType : String           -- type constructed by Clone ("self" if it returns the receiver)
  cloneFields : List String    -- keys of the composite literal in Clone
  cloneRecursive : List String -- keys whose value is `<recv>.<key>.Clone()`
  evalAssigns : List String    -- receiver fields assigned in Evaluate
  evalForwards : List String   -- fields X with a call `<recv>.X.Evaluate(t)` in Evaluate
  selectAssigns : List String  -- receiver fields assigned in Select or in helpers it calls
  deriving DecidableEq, Repr

/-- F3: one `case` of `processFunction` -/
structure FuncEntry where
  names : List String          -- case labels
  minArgs : Nat                -- least `len(root.Args)` that passes the guards and the indexing
  maxArgs : Option Nat         -- greatest, `none` = unbounded
  usesArgs : List Nat          -- indices i with `root.Args[i]` read (or all, for a range loop: [])
  variadic : Bool              -- ranges over root.Args
  ctor : List String           -- function constructors called (e.g. ["substringFunc"])
  deriving DecidableEq, Repr

/-- F4: one `case` of the axis switch of `processAxis` -/
structure AxisEntry where
  axis : String
  /-- (struct name, sorted "Field=literal" settings other than name/Input/Predicate) per
  composite literal in the case, in source order -/
  builds : List (String × List String)
  nonFlat : Bool               -- the case sets `*props |= builderProps.NonFlat`
  deriving DecidableEq, Repr

/-- F8: an assignment inside a function literal whose target is declared outside it -/
structure ClosureWrite where
  func : String                -- enclosing top-level function
  target : String              -- variable written
  deriving DecidableEq, Repr

/-- F8: a package-level variable and the functions that write it -/
structure GlobalVar where
  name : String
  type : String
  writers : List String        -- functions assigning it (outside its declaration)
  deriving DecidableEq, Repr

/-- F10: a `panic(...)` call -/
structure PanicSite where
  func : String
  argType : String             -- "string", "error", or the static type otherwise
  deriving DecidableEq, Repr

/-- F9: depth guard: a function that increments a counter and compares it with a limit -/
structure Guard where
  func : String
  limit : Nat
  deriving DecidableEq, Repr

/-- F14: a type switch / conversion function -/
structure ConvFact where
  func : String
  arms : List String           -- case types, in order ("nil", "bool", "float64", "string", "query", …)
  defaultPanics : Bool         -- has a default arm that panics
  hasDefault : Bool
  deriving DecidableEq, Repr

end XPathV.Gen
