import XPathV.Doc
/-!
# Parse tree

Mirrors the node structs of `parse.go` (`axisNode`, `filterNode`, `functionNode`, `operatorNode`,
`operandNode`, `groupNode`, `variableNode`, `rootNode`).  A nil `node` is `Ast.none`.  Function
arguments are an `anil`/`acons` chain so that `Ast` is a plain (non-nested) inductive type.
Number literals keep their lexeme; unary minus is `x * -1` as in `parseUnaryExpr`.
-/
namespace XPathV

structure AxisInfo where
  axis : String
  typeTest : NType
  pfx : String
  lname : String
  prop : String
  hasNS : Bool
  nsURI : String
  deriving DecidableEq, Repr, Inhabited

inductive Ast
  | none
  | root (slash : String)
  | axis (a : AxisInfo) (input : Ast)
  | filter (input cond : Ast)
  | call (name pfx : String) (args : Ast)
  | anil
  | acons (hd tl : Ast)
  | oper (op : String) (l r : Ast)
  | str (s : String)
  | num (lexeme : String)
  | group (x : Ast)
  | var (pfx name : String)
  deriving DecidableEq, Repr, Inhabited

namespace Ast

def argList : Ast → List Ast
  | acons h t => h :: argList t
  | _ => []

def ofArgList : List Ast → Ast
  | [] => anil
  | a :: as => acons a (ofArgList as)

def isAxis : Ast → Bool
  | axis _ _ => true
  | _ => false

def isFilter : Ast → Bool
  | filter _ _ => true
  | _ => false

/-- The one place where the builder model is knowingly inexact (DESIGN §10): `processFilter`'s merge
rewrite mutates the query object `b.firstInput` points to.  When the filter's input is an axis node
that object is the filter's own input and the model performs the rewrite; when the input is a function
call, a literal or `/`, `firstInput` is *stale* — it points into a plan built earlier (a sibling
operand, an enclosing step) — and Go rewrites that other plan in place.  Such expressions apply a
predicate to something that is not a location step (outside XPath 1.0's well-typed expressions and
outside every fragment of C01–C14); the driver reports their plan as `unmodelled` instead of
comparing it. -/
def staleFirstInputRisk : Ast → Bool
  | filter i c => (match i with | call _ _ _ | str _ | num _ | root _ => true | _ => false)
      || staleFirstInputRisk i || staleFirstInputRisk c
  | axis _ i => staleFirstInputRisk i
  | call _ _ args => staleFirstInputRisk args
  | acons h t => staleFirstInputRisk h || staleFirstInputRisk t
  | oper _ l r => staleFirstInputRisk l || staleFirstInputRisk r
  | group x => staleFirstInputRisk x
  | _ => false

/-- a step with stacked predicates: `axis` under zero or more `filter`s -/
def isStepChain : Ast → Bool
  | axis _ _ => true
  | filter i _ => isStepChain i
  | _ => false

end Ast

/-! Hex rendering shared by the dump formats of the line protocol. -/
def hexDigit (n : Nat) : Char :=
  if n < 10 then Char.ofNat (48 + n) else Char.ofNat (87 + n)

def hexOfBytes (bs : List UInt8) : String :=
  String.ofList (bs.flatMap (fun b => [hexDigit (b.toNat / 16), hexDigit (b.toNat % 16)]))

def hexOfString (s : String) : String := hexOfBytes s.toUTF8.toList

def ntypeName : NType → String
  | .root => "root" | .elem => "elem" | .attr => "attr" | .text => "text"
  | .comment => "comment" | .all => "all"

/-- fully parenthesised rendering of the parse tree; the Go hook `VerifParseDump` prints the same -/
def Ast.dump (nf : String → String) : Ast → String
  | .none => "_"
  | .root s => "(R h" ++ hexOfString s ++ ")"
  | .axis a i => "(A " ++ a.axis ++ " " ++ ntypeName a.typeTest ++ " h" ++ hexOfString a.pfx ++ " h" ++
      hexOfString a.lname ++ " h" ++ hexOfString a.prop ++ " " ++ (if a.hasNS then "1" else "0") ++ " h" ++
      hexOfString a.nsURI ++ " " ++ i.dump nf ++ ")"
  | .filter i c => "(F " ++ i.dump nf ++ " " ++ c.dump nf ++ ")"
  | .call n p as => "(C h" ++ hexOfString n ++ " h" ++ hexOfString p ++ as.dump nf ++ ")"
  | .anil => ""
  | .acons h t => " " ++ h.dump nf ++ t.dump nf
  | .oper op l r => "(O h" ++ hexOfString op ++ " " ++ l.dump nf ++ " " ++ r.dump nf ++ ")"
  | .str s => "(S h" ++ hexOfString s ++ ")"
  | .num l => "(N " ++ nf l ++ ")"
  | .group x => "(G " ++ x.dump nf ++ ")"
  | .var p n => "(V h" ++ hexOfString p ++ " h" ++ hexOfString n ++ ")"

end XPathV
